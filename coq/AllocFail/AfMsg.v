(* AfMsg: src/core/message.c under the allocation oracle.  Definitions only.
   One wrapper per allocating operation, in the C's order of allocations and with
   its error paths:

     nni_msg_alloc      NNI_ALLOC_STRUCT(m); nni_chunk_grow -> nni_zalloc(allocsz);
                        second failure: NNI_FREE_STRUCT(m)
     nni_msg_dup        NNI_ALLOC_STRUCT(m); nni_chunk_dup -> nni_zalloc(src->ch_cap);
                        second failure: NNI_FREE_STRUCT(m)
     nni_msg_free       nni_chunk_free (nni_free(ch_buf, ch_cap) if cap != 0), NNI_FREE_STRUCT
     append / insert / realloc / reserve (and the _uN forms)
                        at most one nni_zalloc (inside nni_chunk_grow); on success
                        the old store is freed after the copy; on failure nothing changes
     nni_msg_unique     shared: nni_msg_dup, then the reference to the original is dropped
     nni_msg_pull_up    shared / no room: nni_msg_alloc (failure: NULL, the caller keeps m);
                        otherwise nni_msg_insert whose result the C ignores

   The wrappers do not re-implement the chunk arithmetic: they compute only *whether*
   nni_chunk_grow reaches nni_zalloc and with which size ([grow_allocsz], the same
   tests as MsgModel.chunk_grow), consult the oracle, and call the existing model
   function with the resulting [fail] flag.  AfMsgProofs ties the two together
   (no allocation predicted => the model ignores [fail]). *)
From Coq Require Import List Arith Bool NArith.
From NngV Require Import Base.ListX Base.Bytes Msg.MsgModel AllocFail.AfBase.
Import ListNotations.

(* the size nni_chunk_grow passes to nni_zalloc; None = it returns without allocating *)
Definition grow_allocsz (c : chunk) (newsz headwanted : nat) : option nat :=
  let newsz := Nat.max newsz (ch_len c) in
  match ptr_inside c with
  | Some headroom =>
      let headwanted := Nat.max headwanted headroom in
      if (newsz + headwanted <=? ch_cap c) && (headwanted <=? headroom) then None
      else Some (Nat.max newsz (ch_cap c - headroom) + headwanted)
  | None =>
      let allocsz := newsz + headwanted in
      if ch_cap c <=? allocsz then Some allocsz else None
  end.

Definition append_allocsz (c : chunk) (n : nat) : option nat :=
  if n =? 0 then None else grow_allocsz c (n + ch_len c) 0.

Definition insert_allocsz (c : chunk) (n : nat) : option nat :=
  let off0 := match ch_ptr c with Some o => o | None => 0 end in
  let g := grow_allocsz (mkChunk (ch_buf c) (ch_len c) (Some off0)) 0 n in
  if off0 <? ch_cap c then
    if n <=? off0 then None
    else if ch_len c + n + 8 <=? ch_cap c then None
    else g
  else g.

Definition step_allocsz (m : msg) (o : op) : option nat :=
  match o with
  | Append d => append_allocsz (m_body m) (length d)
  | Insert d => insert_allocsz (m_body m) (length d)
  | Realloc n => if ch_len (m_body m) <? n then append_allocsz (m_body m) (n - ch_len (m_body m)) else None
  | Reserve n => grow_allocsz (m_body m) n 0
  | AppendU k v => append_allocsz (m_body m) k
  | InsertU k v => insert_allocsz (m_body m) (length (be_enc k v))
  | _ => None
  end.

(* nni_free(ch->ch_buf, ch->ch_cap): an event only for a non-NULL store *)
Definition free_store (c : chunk) : M unit := free_if (negb (ch_cap c =? 0)) (ch_cap c).

Section MsgAF.
  Variable SZ_MSG : nat.     (* sizeof (struct nng_msg); read from the library by the harness *)

  (* blocks owned by a live, unshared message *)
  Definition msg_owned (m : msg) : list nat :=
    SZ_MSG :: (if ch_cap (m_body m) =? 0 then [] else [ch_cap (m_body m)]).

  (* one public operation on the body/header *)
  Definition msg_step_o (fixed : bool) (m : msg) (o : op) : M (option (N * option N * msg)) :=
    match step_allocsz m o with
    | None => ret (msg_step fixed m o false)
    | Some a =>
        ok <-- nalloc a ;;
        if ok then _ <-- free_store (m_body m) ;; ret (msg_step fixed m o false)
        else ret (msg_step fixed m o true)
    end.

  (* nni_msg_alloc *)
  Definition msg_alloc_sz (sz : nat) : nat :=
    if (1024 <=? sz) && (N.land (N.of_nat sz) (N.of_nat sz - 1) =? 0)%N then sz else sz + 32 + 32.
  Definition msg_alloc_o (sz : nat) : M (option (N * option msg)) :=
    ok1 <-- nalloc SZ_MSG ;;
    if negb ok1 then ret (msg_alloc sz true false)
    else
      ok2 <-- nalloc (msg_alloc_sz sz) ;;
      if ok2 then ret (msg_alloc sz false false)
      else _ <-- free SZ_MSG ;; ret (msg_alloc sz false true).

  (* nni_msg_dup *)
  Definition msg_dup_o (m : msg) : M (option (N * option msg)) :=
    ok1 <-- nalloc SZ_MSG ;;
    if negb ok1 then ret (msg_dup m true false)
    else
      ok2 <-- nalloc (ch_cap (m_body m)) ;;
      if ok2 then ret (msg_dup m false false)
      else _ <-- free SZ_MSG ;; ret (msg_dup m false true).

  (* nni_msg_free of the last reference *)
  Definition msg_free_o (m : msg) : M unit :=
    _ <-- free_store (m_body m) ;; free SZ_MSG.

  (* nni_msg_unique.  [shared]: refcnt > 1.  Result None = NULL: the message is lost to
     this receiver (the documented best-effort loss of one message); the original's
     storage stays with the other holders of a reference. *)
  Definition msg_unique_o (m : msg) (shared : bool) : M (option (option msg)) :=
    if negb shared then ret (Some (Some m))
    else
      r <-- msg_dup_o m ;;
      ret (match r with
           | None => None
           | Some (_, Some m2) => Some (Some m2)
           | Some (_, None) => Some None
           end).

  (* nni_msg_pull_up.  Result: Some None = NULL (the caller still owns m; inproc frees
     it: loss of one message); Some (Some m') = the message to deliver.
     In the in-place branch the C ignores nni_msg_insert's result and clears the
     header: if that insert had to grow the chunk and the allocation fails, the
     message is delivered WITHOUT its header ([pull_up_lost_header], AfMsgProofs).
     [insert_checked] = the repaired form tests the result and returns NULL
     (tools/gen_consts_d/c20_flags.py reads which form the source has). *)
  Definition msg_pull_up_o (fixed insert_checked : bool) (m : msg) (shared : bool) : M (option (option msg)) :=
    if (chunk_room (m_body m) <? length (m_hdr m)) || shared then
      ok1 <-- nalloc SZ_MSG ;;
      if negb ok1 then ret (msg_pull_up fixed m shared true false)
      else
        ok2 <-- nalloc (msg_alloc_sz (msg_len m + length (m_hdr m))) ;;
        if ok2 then
          (* copy, then nni_msg_free(m): storage released only when m was unshared *)
          _ <-- (if shared then ret tt else msg_free_o m) ;;
          ret (msg_pull_up fixed m shared false false)
        else _ <-- free SZ_MSG ;; ret (msg_pull_up fixed m shared false true)
    else
      (* in place: nni_msg_insert(m, header, header_len) -- result ignored -- then
         nni_msg_header_clear(m) *)
      let ins (f : bool) : option (option msg) :=
        match chunk_insert fixed (m_body m) (m_hdr m) f with
        | None => None
        | Some (_, c) => Some (Some (mkMsg [] c))
        end in
      match insert_allocsz (m_body m) (length (m_hdr m)) with
      | None => ret (ins false)
      | Some a =>
          ok <-- nalloc a ;;
          if ok then _ <-- free_store (m_body m) ;; ret (ins false)
          else if insert_checked then ret (Some None)   (* repaired: NULL, the caller keeps m *)
               else ret (ins true)
      end.

  (* histories: the oracle is threaded through the operations; the result also lists
     the [fail] flag each operation ran with (true only where the oracle refused) *)
  Fixpoint msg_run_o (fixed : bool) (m : msg) (ops : list op) : M (option (list (N * option N) * msg)) :=
    match ops with
    | [] => ret (Some ([], m))
    | o :: r =>
        x <-- msg_step_o fixed m o ;;
        match x with
        | None => ret None
        | Some (rv, v, m1) =>
            y <-- msg_run_o fixed m1 r ;;
            ret (match y with
                 | None => None
                 | Some (outs, m2) => Some ((rv, v) :: outs, m2)
                 end)
        end
    end.
End MsgAF.
