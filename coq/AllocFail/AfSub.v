(* AfSub: sub0_ctx_subscribe / sub0_ctx_unsubscribe (src/sp/protocol/pubsub0/sub.c)
   under the allocation oracle.  Definitions only.

     subscribe    under sock->lk: a topic already present returns NNG_OK without allocating;
                  new_topic = NNI_ALLOC_STRUCT(new_topic)  (failure: unlock, NNG_ENOMEM);
                  sz > 0: new_topic->buf = nni_alloc(sz)   (failure: unlock, struct freed,
                  NNG_ENOMEM); then the topic is appended to ctx->topics
     unsubscribe  no allocation; after the unlock nni_free(topic->buf, topic->len) (buf is
                  NULL for the empty topic) and NNI_FREE_STRUCT(topic)

   The receive path's nni_msg_unique (a duplicate for a shared message; failure = that
   one message is dropped and the next one is tried) is AfMsg.msg_unique_o. *)
From Coq Require Import List Arith Bool NArith.
From NngV Require Import Proto.Common Proto.SubModel AllocFail.AfBase.
Import ListNotations.

Section SubAF.
  Variable SZ_TOPIC : nat.     (* sizeof (sub0_topic) *)

  Definition topic_blocks (t : list N) : list nat :=
    SZ_TOPIC :: (if length t =? 0 then [] else [length t]).

  (* does subscribing [t] on context [k] create a topic? *)
  Definition sub_adds (s : sub) (k : option ctxid) (t : list N) : bool :=
    match find_ctx k (sb_ctxs s) with
    | None => false
    | Some c => negb (has_topic t (sc_topics c))
    end.
  Definition sub_drops (s : sub) (k : option ctxid) (t : list N) : bool :=
    match find_ctx k (sb_ctxs s) with
    | None => false
    | Some c => has_topic t (sc_topics c)
    end.

  Definition sub_subscribe_o (fixed : bool) (s : sub) (k : option ctxid) (t : list N) : M (sub * list pout) :=
    if sub_adds s k t then
      ok1 <-- nalloc SZ_TOPIC ;;
      if negb ok1 then ret (s, [OptRv E_NOMEM])
      else if length t =? 0 then ret (sub_step fixed s (PSetOpt k (OSub t)))
      else
        ok2 <-- nalloc (length t) ;;
        if ok2 then ret (sub_step fixed s (PSetOpt k (OSub t)))
        else _ <-- free SZ_TOPIC ;; ret (s, [OptRv E_NOMEM])
    else ret (sub_step fixed s (PSetOpt k (OSub t))).

  Definition sub_unsubscribe_o (fixed : bool) (s : sub) (k : option ctxid) (t : list N) : M (sub * list pout) :=
    if sub_drops s k t then
      _ <-- free_if (negb (length t =? 0)) (length t) ;;
      _ <-- free SZ_TOPIC ;;
      ret (sub_step fixed s (PSetOpt k (OUnsub t)))
    else ret (sub_step fixed s (PSetOpt k (OUnsub t))).
End SubAF.
