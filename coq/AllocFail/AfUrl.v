(* AfUrl: nng_url_parse / nng_url_clone / nng_url_free (src/core/url.c) under the
   allocation oracle.  Definitions only.

     nng_url_parse   url = NNI_ALLOC_STRUCT(url); nni_url_parse_inline(url, raw):
                       scheme scan and table lookup (EINVAL / ENOTSUP before any copy);
                       strlen(s) >= sizeof(u_static):  u_buffer = nni_strdup(s)   (+)
                       ... rest of the parse; on any error nni_url_fini frees the
                       heap buffer (u_bufsz != 0) and the struct is freed.
     (+) the pinned tree does NOT test the result of nni_strdup: u_buffer = NULL,
         u_bufsz = strlen + 1, p = NULL + 3, and the parse goes on to dereference it
         (or, for the path-only schemes, returns success with u_path = (char * )3).
         [strdup_checked] selects the code as it is (false: UCrash) or the repaired
         form "if ((u_buffer = nni_strdup(s)) == NULL) return (NNG_ENOMEM)" (true);
         tools/gen_consts_d/c20_flags.py reads which one the source has.
     nng_url_clone   dst = NNI_ALLOC_STRUCT(dst); heap buffer only for a long URL:
                     nni_alloc(src->u_bufsz); failure: struct freed, NNG_ENOMEM
     nng_url_free    nni_url_fini (heap buffer if any) + NNI_FREE_STRUCT *)
From Coq Require Import List Arith Bool NArith.
From NngV Require Import Base.ListX Url.Utf8Model Url.CanonModel Url.UrlParseModel AllocFail.AfBase.
Import ListNotations.

Definition U_ENOMEM : N := 2%N.

(* UCrash: a NULL pointer is dereferenced (now, or on the first use of the result) *)
Inductive uaf (A : Type) : Type := UCrash | URes (rv : N) (a : option A).
Arguments UCrash {A}. Arguments URes {A} rv a.

Section UrlAF.
  Variable SZ_URL : nat.      (* sizeof (struct nng_url) *)

  Definition url_owned (u : nurl) : list nat :=
    SZ_URL :: (if u_bufsz u =? 0 then [] else [u_bufsz u]).

  Definition url_parse_o (strdup_checked : bool) (fx : uflags) (resolver : list N -> option N) (raw : list N)
    : M (uaf nurl) :=
    bind (nalloc SZ_URL) (fun ok1 =>
    if negb ok1 then ret (URes U_ENOMEM None) else
    match parse_scheme (fx_scheme fx) raw with
    | UOob => ret UCrash
    | UErr rv => bind (free SZ_URL) (fun _ => ret (URes rv None))
    | UVal (sch, len) =>
        match c_strlen raw len with
        | None => ret UCrash
        | Some slen =>
            (* the rest of nni_url_parse_inline_inner with the copy in place *)
            let fin (heap : bool) : M (uaf nurl) :=
              match url_parse fx resolver raw with
              | UOob => ret UCrash
              | UErr rv =>
                  bind (free_if heap (slen + 1)) (fun _ =>
                  bind (free SZ_URL) (fun _ => ret (URes rv None)))
              | UVal u => ret (URes 0%N (Some u))
              end in
            if STATIC_SZ <=? slen then
              bind (nalloc (slen + 1)) (fun ok2 =>
                if ok2 then fin true
                else if strdup_checked
                     then bind (free SZ_URL) (fun _ => ret (URes U_ENOMEM None))
                     else ret UCrash)
            else fin false
        end
    end).

  (* nng_url_clone of the current source (the clone defects of C19 are repaired) *)
  Definition url_clone_o (null_fixed : bool) (s : nurl) : M (uaf nurl) :=
    let model := match url_clone true null_fixed s with
                 | UOob => UCrash
                 | UErr rv => URes rv None
                 | UVal (rv, u) => URes rv u
                 end in
    bind (nalloc SZ_URL) (fun ok1 =>
    if negb ok1 then ret (URes U_ENOMEM None) else
    if u_bufsz s =? 0 then ret model
    else bind (nalloc (u_bufsz s)) (fun ok2 =>
           if ok2 then ret model
           else bind (free SZ_URL) (fun _ => ret (URes U_ENOMEM None)))).

  Definition url_free_o (u : nurl) : M unit :=
    bind (free_if (negb (u_bufsz u =? 0)) (u_bufsz u)) (fun _ => free SZ_URL).
End UrlAF.
