(* AfSubWsProofs: SUB subscribe/unsubscribe and the WebSocket receive-completion path
   under every allocation oracle. *)
From Coq Require Import List Arith Lia Bool NArith Permutation.
From NngV Require Import Base.ListX Base.Bytes Msg.MsgModel Msg.MsgSpec Msg.MsgProofs
  Proto.Common Proto.SubModel AllocFail.AfBase AllocFail.AfMsg AllocFail.AfMsgProofs
  AllocFail.AfSub AllocFail.AfWs.
Import ListNotations.

Section SubAFProofs.
  Variable SZ_TOPIC : nat.
  Hypothesis SZ_TOPIC_pos : 0 < SZ_TOPIC.

  Theorem sub_subscribe_o_clean fixed s k t (orc : oracle) :
    let r := run (sub_subscribe_o SZ_TOPIC fixed s k t) orc in
    let l := ledger (sub_subscribe_o SZ_TOPIC fixed s k t) orc in
    ncalls l <= 2 /\
    (failed l = true -> r = (s, [OptRv E_NOMEM]) /\ self_balanced l) /\
    (failed l = false ->
       r = sub_step fixed s (PSetOpt k (OSub t)) /\ frees l = [] /\
       allocs l = if sub_adds s k t then topic_blocks SZ_TOPIC t else []).
  Proof.
    cbn zeta. unfold run, ledger, sub_subscribe_o.
    destruct (sub_adds s k t).
    - unfold bind. destruct (nalloc_cases SZ_TOPIC orc) as [[Z _]|[[_ [o1 E1]]|[_ [o1 E1]]]]; [lia| |]; rewrite E1; cbn [negb].
      + unfold topic_blocks. destruct (length t =? 0) eqn:L0.
        * unfold ret. cbn [fst snd app]. split; [cbn; lia|]. split; [cbn; discriminate|]. intros _. auto.
        * apply Nat.eqb_neq in L0.
          destruct (nalloc_cases (length t) o1) as [[Z _]|[[_ [o2 E2]]|[_ [o2 E2]]]]; [lia| |]; rewrite E2.
          -- unfold ret. cbn [fst snd app]. split; [cbn; lia|]. split; [cbn; discriminate|]. intros _. auto.
          -- unfold free, ret. cbn [fst snd app]. split; [cbn; lia|]. split; [|cbn; discriminate].
             intros _. split; [reflexivity|unfold self_balanced; cbn; apply Permutation_refl].
      + unfold ret. cbn [fst snd]. split; [cbn; lia|]. split; [|cbn; discriminate].
        intros _. split; [reflexivity|unfold self_balanced; cbn; constructor].
    - unfold ret. cbn [fst snd]. split; [cbn; lia|]. split; [cbn; discriminate|]. intros _. auto.
  Qed.

  Theorem sub_unsubscribe_o_clean fixed s k t (orc : oracle) :
    let r := run (sub_unsubscribe_o SZ_TOPIC fixed s k t) orc in
    let l := ledger (sub_unsubscribe_o SZ_TOPIC fixed s k t) orc in
    r = sub_step fixed s (PSetOpt k (OUnsub t)) /\ ncalls l = 0 /\ allocs l = [] /\
    Permutation (frees l) (if sub_drops s k t then topic_blocks SZ_TOPIC t else []).
  Proof.
    cbn zeta. unfold run, ledger, sub_unsubscribe_o, topic_blocks.
    destruct (sub_drops s k t).
    - unfold bind, free_if, free, ret. destruct (length t =? 0); cbn [negb fst snd app];
        (split; [reflexivity|]); (split; [reflexivity|]); (split; [reflexivity|]); cbn.
      + apply Permutation_refl.
      + apply perm_swap.
    - unfold ret. cbn. auto.
  Qed.

  (* what a successful subscribe allocated is what the matching unsubscribe frees *)
  Theorem sub_subscribe_unsubscribe_balanced fixed s k t (o1 o2 : oracle) :
    sub_adds s k t = true ->
    let l1 := ledger (sub_subscribe_o SZ_TOPIC fixed s k t) o1 in
    failed l1 = false ->
    let s1 := fst (run (sub_subscribe_o SZ_TOPIC fixed s k t) o1) in
    sub_drops s1 k t = true ->
    Permutation (allocs l1) (frees (ledger (sub_unsubscribe_o SZ_TOPIC fixed s1 k t) o2)).
  Proof.
    cbn zeta. intros A F D.
    destruct (sub_subscribe_o_clean fixed s k t o1) as (_ & _ & S). destruct (S F) as (_ & _ & AL).
    rewrite AL, A.
    destruct (sub_unsubscribe_o_clean fixed (fst (run (sub_subscribe_o SZ_TOPIC fixed s k t) o1)) k t o2) as (_ & _ & _ & P).
    rewrite D in P. now apply Permutation_sym.
  Qed.
End SubAFProofs.

Section WsAFProofs.
  Variable SZ_MSG SZ_FRAME : nat.
  Hypothesis SZ_MSG_pos : 0 < SZ_MSG.

  Lemma free_frames_ledger l (orc : oracle) :
    rest (free_frames SZ_FRAME l) orc = orc /\
    allocs (ledger (free_frames SZ_FRAME l) orc) = [] /\ nfails (ledger (free_frames SZ_FRAME l) orc) = 0 /\
    ncalls (ledger (free_frames SZ_FRAME l) orc) = 0 /\
    Permutation (frees (ledger (free_frames SZ_FRAME l) orc)) (flat_map (frame_blocks SZ_FRAME) l).
  Proof.
    induction l as [|len r IH]; unfold rest, ledger in *; cbn [free_frames flat_map].
    - unfold ret. cbn. auto.
    - unfold bind, free_if, free, ret, frame_blocks.
      destruct (free_frames SZ_FRAME r orc) as [[u o'] t] eqn:FF. cbn [fst snd] in IH.
      destruct IH as (R & A & NF & NC & P).
      destruct (len <? 126); cbn [negb fst snd app]; rewrite FF; cbn [fst snd];
        rewrite ?allocs_app, ?frees_app, ?nfails_app, ?ncalls_app; cbn [allocs frees nfails ncalls app];
        rewrite A, NF, NC; (split; [exact R|]); (split; [reflexivity|]); (split; [reflexivity|]); (split; [reflexivity|]).
      + constructor. exact P.
      + apply perm_trans with (SZ_FRAME :: len :: frees t); [apply perm_swap|].
        constructor. constructor. exact P.
  Qed.

  (* the pinned form: a refused message allocation makes the thread lock ws->mtx again *)
  Definition ws_witness : ws := mkWs true false [10] [1%N] false.

  Theorem ws_enomem_deadlock_refuted :
    w_held ws_witness = true /\
    In WDeadlock (snd (fst (run (ws_read_finish_msg_o SZ_MSG SZ_FRAME false ws_witness) [false]))).
  Proof.
    split; [reflexivity|]. unfold run, ws_read_finish_msg_o, ws_witness. cbn [w_recvq w_inmsg w_rxq orb list_sum].
    unfold bind, msg_alloc_o, bind. unfold nalloc at 1.
    destruct (SZ_MSG =? 0) eqn:Z; [apply Nat.eqb_eq in Z; lia|].
    cbn. right. left. reflexivity.
  Qed.

  (* the repaired form, every state reached with the lock held, every oracle *)
  Theorem ws_read_finish_msg_o_clean w (orc : oracle) :
    w_held w = true ->
    let r := run (ws_read_finish_msg_o SZ_MSG SZ_FRAME true w) orc in
    let t := ledger (ws_read_finish_msg_o SZ_MSG SZ_FRAME true w) orc in
    let w' := fst (fst r) in let outs := snd (fst r) in
    ~ In WDeadlock outs /\ w_held w' = true /\
    (failed t = true ->
       (* the receive fails with NNG_ENOMEM and the connection is closed (the documented
          loss of one connection); the queued frames stay owned by the connection *)
       exists a rest, w_recvq w = a :: rest /\ snd r = None /\ self_balanced t /\
         hd_error outs = Some (WFinish a ENOMEM 0) /\ w_closed w' = true /\ w_recvq w' = [] /\
         w_rxq w' = w_rxq w) /\
    (failed t = false ->
       (outs = [] /\ w' = w /\ snd r = None /\ t = []) \/
       (exists a rest m, w_recvq w = a :: rest /\ outs = [WFinish a 0%N (list_sum (w_rxq w))] /\
          snd r = Some m /\ Inv m /\ abs m = ([], zeros (list_sum (w_rxq w))) /\
          w_rxq w' = [] /\ w_recvq w' = rest /\
          balanced (ws_owned SZ_FRAME w) t (msg_owned SZ_MSG m))).
  Proof.
    intros HH. cbn zeta. unfold run, ledger, ws_read_finish_msg_o.
    destruct (w_recvq w) as [|a rs] eqn:RQ.
    { unfold ret. cbn. split; [tauto|]. split; [exact HH|]. split; [discriminate|]. intros _. left. auto. }
    destruct (w_inmsg w || match w_rxq w with [] => true | _ => false end) eqn:C.
    { unfold ret. cbn. split; [tauto|]. split; [exact HH|]. split; [discriminate|]. intros _. left. auto. }
    unfold bind.
    pose proof (msg_alloc_o_clean SZ_MSG SZ_MSG_pos (list_sum (w_rxq w)) orc) as (_ & F & S).
    unfold run, ledger in F, S.
    destruct (msg_alloc_o SZ_MSG (list_sum (w_rxq w)) orc) as [[x o1] t1]. cbn [fst snd] in *.
    destruct (failed t1) eqn:Ft.
    - destruct (F eq_refl) as [-> SB]. unfold ws_close, ret, ENOMEM. cbn [fst snd w_held w_inmsg w_rxq w_recvq w_closed].
      rewrite app_nil_r. rewrite Ft.
      split.
      { cbn [In]. intros [X|X]; [discriminate|]. apply in_app_or in X as [X|X].
        - apply in_map_iff in X as (? & X & _). discriminate.
        - destruct (w_closed w); cbn in X; [tauto|destruct X as [X|X]; [discriminate|tauto]]. }
      split; [exact HH|]. split; [|discriminate]. intros _.
      exists a, rs. split; [reflexivity|]. split; [reflexivity|]. split; [exact SB|].
      split; [reflexivity|]. auto.
    - destruct (S eq_refl) as (m & -> & HI & Ha & _ & B).
      pose proof (free_frames_ledger (w_rxq w) o1) as (_ & FA & FN & _ & FP). unfold ledger in *.
      destruct (free_frames SZ_FRAME (w_rxq w) o1) as [[u o2] t2]. cbn [fst snd] in *.
      unfold ret. cbn [fst snd]. rewrite app_nil_r.
      split; [cbn [In]; intros [X|X]; [discriminate|tauto]|]. split; [exact HH|].
      unfold failed. rewrite nfails_app, FN, Nat.add_0_r. unfold failed in Ft. rewrite Ft.
      split; [discriminate|]. intros _. right.
      exists a, rs, m. split; [reflexivity|]. split; [reflexivity|]. split; [reflexivity|].
      split; [exact HI|]. split; [exact Ha|]. split; [reflexivity|]. split; [reflexivity|].
      unfold balanced in *. rewrite allocs_app, frees_app, FA, app_nil_r. cbn [app] in B.
      unfold ws_owned.
      (* allocs t1 ++ frames  ~  frees t1 ++ owned m ++ ... *)
      apply perm_trans with ((frees t1 ++ msg_owned SZ_MSG m) ++ flat_map (frame_blocks SZ_FRAME) (w_rxq w)).
      { apply Permutation_app_tail. rewrite app_nil_r in B. exact B. }
      rewrite <- !app_assoc. apply Permutation_app_head.
      apply perm_trans with (flat_map (frame_blocks SZ_FRAME) (w_rxq w) ++ msg_owned SZ_MSG m); [apply Permutation_app_comm|].
      apply Permutation_app_tail. apply Permutation_sym. exact FP.
  Qed.
End WsAFProofs.
