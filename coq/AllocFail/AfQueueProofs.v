(* AfQueueProofs: lmq.c / msgqueue.c under every allocation oracle. *)
From Coq Require Import List Arith Lia Bool NArith Permutation.
From NngV Require Import Base.Ring Queue.LmqModel Queue.LmqSpec Queue.LmqProofs Queue.MsgqModel Queue.MsgqProofs
  AllocFail.AfBase AllocFail.AfQueue.
Import ListNotations.

Lemma pow2ge_ge fuel : forall a cap, a <= pow2ge fuel a cap.
Proof.
  induction fuel as [|f IH]; intros a cap; cbn [pow2ge]; [lia|].
  destruct (a <? cap); [|lia]. specialize (IH (2 * a) cap). lia.
Qed.

Lemma lmq_resize_alloc fx q cap rv q' fr :
  lmq_resize fx q cap false = Some (rv, q', fr) -> rv = 0%N /\ q_alloc q' = pow2ge cap 2 cap.
Proof.
  unfold lmq_resize. destruct (lmq_get_n q cap) as [[taken q1]|]; [|discriminate].
  destruct (lmq_flush q1) as [[freed q2]|]; [|discriminate].
  intros H; inversion H; subst. auto.
Qed.

(* ---- structural: the ring array of a msgq changes size only in nni_msgq_resize ---- *)
Lemma ring_put_alloc q m q' : ring_put q m = Some q' -> mq_alloc q' = mq_alloc q.
Proof.
  unfold ring_put, wr. destruct (mq_put q <? length (mq_cells q)); [|discriminate].
  intros H; inversion H; subst. unfold mq_alloc, set_ring; cbn [mq_cells]. apply upd_length.
Qed.
Lemma ring_get_alloc w q m q' : ring_get w q = Some (m, q') -> mq_alloc q' = mq_alloc q.
Proof.
  unfold ring_get. destruct (rd _ _); [|discriminate]. intros H; inversion H; subst. reflexivity.
Qed.
Lemma set_qs_alloc q a b : mq_alloc (set_qs q a b) = mq_alloc q.
Proof. reflexivity. Qed.
Lemma run_notify_alloc q : mq_alloc (run_notify q) = mq_alloc q.
Proof. reflexivity. Qed.

Lemma run_putq_alloc fuel : forall q q' outs, run_putq fuel q = Some (q', outs) -> mq_alloc q' = mq_alloc q.
Proof.
  induction fuel as [|f IH]; intros q q' outs; cbn [run_putq]; [intros H; inversion H; reflexivity|].
  destruct (mq_putq q) as [|[wa m] wrest]; [intros H; inversion H; reflexivity|].
  destruct (mq_getq q) as [|ra rrest].
  - destruct (mq_len q <? mq_cap q); [|intros H; inversion H; reflexivity].
    destruct (ring_put _ m) as [q1|] eqn:RP; [|discriminate].
    destruct (run_putq f q1) as [[q2 o2]|] eqn:R; [|discriminate].
    intros H; inversion H; subst. rewrite (IH _ _ _ R), (ring_put_alloc _ _ _ RP). reflexivity.
  - destruct (run_putq f _) as [[q2 o2]|] eqn:R; [|discriminate].
    intros H; inversion H; subst. rewrite (IH _ _ _ R). reflexivity.
Qed.

Lemma run_getq_alloc fuel : forall q q' outs, run_getq fuel q = Some (q', outs) -> mq_alloc q' = mq_alloc q.
Proof.
  induction fuel as [|f IH]; intros q q' outs; cbn [run_getq]; [intros H; inversion H; reflexivity|].
  destruct (mq_getq q) as [|ra rrest]; [intros H; inversion H; reflexivity|].
  destruct (negb (mq_len q =? 0)).
  - destruct (ring_get Nat.eqb q) as [[m q1]|] eqn:RG; [|discriminate].
    destruct (run_getq f _) as [[q2 o2]|] eqn:R; [|discriminate].
    intros H; inversion H; subst. rewrite (IH _ _ _ R). cbn. apply (ring_get_alloc _ _ _ _ RG).
  - destruct (mq_putq q) as [|[wa m] wrest]; [intros H; inversion H; reflexivity|].
    destruct (run_getq f _) as [[q2 o2]|] eqn:R; [|discriminate].
    intros H; inversion H; subst. rewrite (IH _ _ _ R). reflexivity.
Qed.

Lemma drop_excess_alloc w fuel cap : forall q q' outs,
  drop_excess w fuel cap q = Some (q', outs) -> mq_alloc q' = mq_alloc q.
Proof.
  induction fuel as [|f IH]; intros q q' outs; cbn [drop_excess]; [intros H; inversion H; reflexivity|].
  destruct (cap + 1 <? mq_len q); [|intros H; inversion H; reflexivity].
  destruct (ring_get w q) as [[m q1]|] eqn:RG; [|discriminate].
  destruct (drop_excess w f cap q1) as [[q2 o2]|] eqn:R; [|discriminate].
  intros H; inversion H; subst. rewrite (IH _ _ _ R). apply (ring_get_alloc _ _ _ _ RG).
Qed.

Lemma copy_ring_alloc fuel : forall old og q q', copy_ring fuel old og q = Some q' -> mq_alloc q' = mq_alloc q.
Proof.
  induction fuel as [|f IH]; intros old og q q'; cbn [copy_ring]; [intros H; inversion H; reflexivity|].
  destruct (rd old og); [|discriminate]. destruct (ring_put q _) as [q1|] eqn:RP; [|discriminate].
  intros H. rewrite (IH _ _ _ _ H). apply (ring_put_alloc _ _ _ RP).
Qed.

Lemma msgq_resize_alloc fx q cap rv q' outs :
  msgq_step fx q (MResize cap false) = Some (rv, q', outs) ->
  rv = 0%N /\ mq_alloc q' = if mq_alloc q <? cap + 2 then cap + 2 else mq_alloc q.
Proof.
  cbn [msgq_step]. rewrite andb_false_r.
  destruct (drop_excess _ (mq_len q) cap q) as [[q1 o1]|] eqn:DE; [|discriminate].
  pose proof (drop_excess_alloc _ _ _ _ _ _ DE) as A1.
  destruct (mq_alloc q <? cap + 2) eqn:G; cbn [negb].
  - destruct (copy_ring _ _ _ _) as [q2|] eqn:CR; [|discriminate].
    pose proof (copy_ring_alloc _ _ _ _ _ CR) as A2.
    destruct (run_putq _ q2) as [[q3 o3]|] eqn:RP; [|discriminate].
    destruct (run_getq _ q3) as [[q4 o4]|] eqn:RG; [|discriminate].
    intros H; inversion H; subst. split; [reflexivity|].
    rewrite run_notify_alloc, (run_getq_alloc _ _ _ _ RG), (run_putq_alloc _ _ _ _ RP), A2.
    unfold mq_alloc; cbn [mq_cells]. apply repeat_length.
  - match goal with |- context [run_putq ?n ?x] => destruct (run_putq n x) as [[q3 o3]|] eqn:RP end; [|discriminate].
    destruct (run_getq _ q3) as [[q4 o4]|] eqn:RG; [|discriminate].
    intros H; inversion H; subst. split; [reflexivity|].
    rewrite run_notify_alloc, (run_getq_alloc _ _ _ _ RG), (run_putq_alloc _ _ _ _ RP). exact A1.
Qed.

Section LmqAFProofs.
  Variable SZ_PTR : nat.
  Hypothesis SZ_PTR_pos : 0 < SZ_PTR.
  Notation lowned := (lmq_owned SZ_PTR).

  Lemma ring_size_pos cap : SZ_PTR * pow2ge cap 2 cap <> 0.
  Proof. pose proof (pow2ge_ge cap 2 cap). nia. Qed.

  (* ---- nni_lmq_resize ---- *)
  Theorem lmq_resize_o_clean q cap (orc : oracle) : LInv q ->
    let r := run (lmq_resize_o SZ_PTR true q cap) orc in
    let t := ledger (lmq_resize_o SZ_PTR true q cap) orc in
    exists rv q' freed, r = Some (rv, q', freed) /\ LInv q' /\ balanced (lowned q) t (lowned q') /\
      ncalls t = 1 /\
      (failed t = true -> rv = ENOMEM_q /\ q' = q /\ freed = [] /\ self_balanced t) /\
      (failed t = false -> (LFreed rv freed, labs q') = fifo_step (labs q) (LResize cap false)).
  Proof.
    intros HI. cbn zeta. unfold run, ledger, lmq_resize_o, bind.
    destruct (nalloc_cases (SZ_PTR * pow2ge cap 2 cap) orc) as [[Z _]|[[_ [o' E]]|[_ [o' E]]]];
      [exfalso; now apply (ring_size_pos cap)| |]; rewrite E.
    - destruct (resize_spec q cap false HI) as ([[rv q'] fr] & R & HI' & SP). cbn [fst snd] in *.
      pose proof (lmq_resize_alloc _ _ _ _ _ _ R) as [-> AL].
      unfold free_if, free, ret.
      destruct (q_alloc q =? 0) eqn:E0; cbn [negb fst snd app]; rewrite R;
        exists 0%N, q', fr; (split; [reflexivity|]); (split; [exact HI'|]).
      + split; [|split; [reflexivity|split; [cbn; discriminate|intros _; exact SP]]].
        unfold balanced, lmq_owned. rewrite E0, AL.
        destruct (pow2ge cap 2 cap =? 0) eqn:P0; [apply Nat.eqb_eq in P0; pose proof (pow2ge_ge cap 2 cap); lia|].
        cbn. apply Permutation_refl.
      + split; [|split; [reflexivity|split; [cbn; discriminate|intros _; exact SP]]].
        unfold balanced, lmq_owned. rewrite E0, AL.
        destruct (pow2ge cap 2 cap =? 0) eqn:P0; [apply Nat.eqb_eq in P0; pose proof (pow2ge_ge cap 2 cap); lia|].
        cbn. apply perm_swap.
    - unfold ret. cbn [fst snd app]. unfold lmq_resize.
      exists ENOMEM_q, q, []. split; [reflexivity|]. split; [exact HI|].
      split; [apply balanced_same; unfold self_balanced; cbn; constructor|].
      split; [reflexivity|]. split; [|cbn; discriminate].
      intros _. repeat split. unfold self_balanced; cbn. constructor.
  Qed.

  (* ---- nni_lmq_init: never fails; the documented fallback is capacity 2 ---- *)
  Theorem lmq_init_o_clean cap (orc : oracle) :
    let r := run (lmq_init_o SZ_PTR true cap) orc in
    let t := ledger (lmq_init_o SZ_PTR true cap) orc in
    exists q, r = Some q /\ LInv q /\ balanced [] t (lowned q) /\ snd (labs q) = [] /\
      (failed t = false -> q_cap q = cap) /\
      (failed t = true -> q_cap q = 2 /\ 2 < cap /\ self_balanced t).
  Proof.
    cbn zeta. unfold run, ledger, lmq_init_o.
    destruct (2 <? cap) eqn:C.
    - unfold bind. destruct (nalloc_cases (SZ_PTR * pow2ge cap 2 cap) orc) as [[Z _]|[[_ [o' E]]|[_ [o' E]]]];
        [exfalso; now apply (ring_size_pos cap)| |]; rewrite E; unfold ret; cbn [fst snd app negb].
      + destruct (lmq_init_inv cap false) as (q & I & HI & Hemp & Hc1 & Hc2).
        exists q. rewrite I. split; [reflexivity|]. split; [exact HI|].
        assert (AL: q_alloc q = pow2ge cap 2 cap).
        { unfold lmq_init in I. rewrite C in I.
          destruct (lmq_resize true _ cap false) as [[[rv q1] fr]|] eqn:R; [|discriminate].
          inversion I; subst. now apply lmq_resize_alloc in R as [_ R]. }
        split.
        { unfold balanced, lmq_owned. rewrite AL.
          destruct (pow2ge cap 2 cap =? 0) eqn:P0; [apply Nat.eqb_eq in P0; pose proof (pow2ge_ge cap 2 cap); lia|].
          cbn. apply Permutation_refl. }
        split; [exact Hemp|]. split; [intros _; apply Hc1; reflexivity|cbn; discriminate].
      + destruct (lmq_init_inv cap true) as (q & I & HI & Hemp & Hc1 & Hc2).
        exists q. rewrite I. split; [reflexivity|]. split; [exact HI|].
        assert (Q: q = mkLmq 2 0 1 0 0 0 [0%N; 0%N]).
        { unfold lmq_init in I. rewrite C in I. unfold lmq_resize in I. inversion I. reflexivity. }
        split; [subst q; unfold balanced, lmq_owned; cbn; constructor|].
        split; [exact Hemp|]. split; [cbn; discriminate|].
        intros _. subst q. cbn. apply Nat.ltb_lt in C. split; [reflexivity|]. split; [exact C|].
        unfold self_balanced; cbn. constructor.
    - unfold ret. cbn [fst snd]. destruct (lmq_init_inv cap false) as (q & I & HI & Hemp & Hc1 & Hc2).
      exists q. rewrite I. split; [reflexivity|]. split; [exact HI|].
      assert (Q: q_alloc q = 0). { unfold lmq_init in I. rewrite C in I. inversion I. reflexivity. }
      split; [unfold balanced, lmq_owned; rewrite Q; cbn; constructor|].
      split; [exact Hemp|]. split; [intros _; apply Hc1; reflexivity|cbn; discriminate].
  Qed.

  (* ---- nni_lmq_fini: the ring goes back ---- *)
  Theorem lmq_fini_o_balanced q (orc : oracle) :
    balanced (lowned q) (ledger (lmq_fini_o SZ_PTR q) orc) [] /\ ncalls (ledger (lmq_fini_o SZ_PTR q) orc) = 0.
  Proof.
    unfold ledger, lmq_fini_o, bind, free_if, free, ret, balanced, lmq_owned.
    destruct (q_alloc q =? 0); cbn; split; auto.
  Qed.

  (* ---- histories of lmq operations under one oracle ---- *)
  Definition unlop (o : lop_o) (f : bool) : lop :=
    match o with OPut x => LPut x | OGet => LGet | OFlush => LFlush | OResize c => LResize c f end.

  Theorem lmq_step_o_clean q o (orc : oracle) : LInv q ->
    let r := run (lmq_step_o SZ_PTR true q o) orc in
    let t := ledger (lmq_step_o SZ_PTR true q o) orc in
    exists out q', r = Some (out, q') /\ LInv q' /\ balanced (lowned q) t (lowned q') /\
      (out, labs q') = fifo_step (labs q) (unlop o (failed t)) /\
      (failed t = true -> q' = q).
  Proof.
    intros HI. cbn zeta. destruct o as [x| | |cap].
    - unfold run, ledger, lmq_step_o, ret. cbn [fst snd].
      destruct (lmq_step_refines q (LPut x) HI) as (out & q' & S & HI' & SP). rewrite S.
      exists out, q'. split; [reflexivity|]. split; [exact HI'|]. split; [|split; [exact SP|cbn; discriminate]].
      assert (q_alloc q' = q_alloc q).
      { cbn [lmq_step] in S. unfold lmq_put in S. destruct (_ <=? _); [inversion S; reflexivity|].
        destruct (wr _ _ _); inversion S; reflexivity. }
      unfold balanced, lmq_owned. rewrite H. cbn. apply Permutation_refl.
    - unfold run, ledger, lmq_step_o, ret. cbn [fst snd].
      destruct (lmq_step_refines q LGet HI) as (out & q' & S & HI' & SP). rewrite S.
      exists out, q'. split; [reflexivity|]. split; [exact HI'|]. split; [|split; [exact SP|cbn; discriminate]].
      assert (q_alloc q' = q_alloc q).
      { cbn [lmq_step] in S. unfold lmq_get in S. destruct (_ =? _); [inversion S; reflexivity|].
        destruct (rd _ _); inversion S; reflexivity. }
      unfold balanced, lmq_owned. rewrite H. cbn. apply Permutation_refl.
    - unfold run, ledger, lmq_step_o, ret. cbn [fst snd].
      destruct (lmq_step_refines q LFlush HI) as (out & q' & S & HI' & SP). rewrite S.
      exists out, q'. split; [reflexivity|]. split; [exact HI'|]. split; [|split; [exact SP|cbn; discriminate]].
      assert (GN: forall k q0 l q1, lmq_get_n q0 k = Some (l, q1) -> q_alloc q1 = q_alloc q0).
      { induction k as [|k IH]; intros q0 l q1; cbn [lmq_get_n]; [intros X; inversion X; reflexivity|].
        unfold lmq_get. destruct (q_len q0 =? 0); [intros X; inversion X; reflexivity|].
        destruct (rd _ _); [|discriminate].
        match goal with |- context [lmq_get_n ?a k] => destruct (lmq_get_n a k) as [[l2 q2]|] eqn:G end; [|discriminate].
        intros X; inversion X; subst. now rewrite (IH _ _ _ G). }
      assert (q_alloc q' = q_alloc q).
      { cbn [lmq_step] in S. unfold lmq_flush in S.
        destruct (lmq_get_n q (q_len q)) as [[l q1]|] eqn:G; inversion S; subst. apply (GN _ _ _ _ G). }
      unfold balanced, lmq_owned. rewrite H. cbn. apply Permutation_refl.
    - pose proof (lmq_resize_o_clean q cap orc HI) as (rv & q' & fr & R & HI' & B & _ & F & S).
      unfold run, ledger in *. cbn [lmq_step_o]. unfold bind.
      destruct (lmq_resize_o SZ_PTR true q cap orc) as [[x o1] t1]. cbn [fst snd] in *. subst x.
      unfold ret. cbn [fst snd]. rewrite app_nil_r.
      exists (LFreed rv fr), q'. split; [reflexivity|]. split; [exact HI'|]. split; [exact B|].
      destruct (failed t1) eqn:Ft.
      + destruct (F eq_refl) as (-> & -> & -> & _). split; [|reflexivity].
        cbn [unlop fifo_step]. unfold labs. reflexivity.
      + split; [apply S; reflexivity|discriminate].
  Qed.

  Theorem lmq_run_o_clean ops : forall q (orc : oracle), LInv q ->
    exists outs q', run (lmq_run_o SZ_PTR true q ops) orc = Some (outs, q') /\ LInv q' /\
      balanced (lowned q) (ledger (lmq_run_o SZ_PTR true q ops) orc) (lowned q') /\
      q_len q' <= q_cap q' /\ length outs = length ops.
  Proof.
    induction ops as [|o r IH]; intros q orc HI.
    - exists [], q. unfold run, ledger; cbn. split; [reflexivity|]. split; [exact HI|].
      split; [apply balanced_nil|]. split; [apply (lmq_bounded q HI)|reflexivity].
    - pose proof (lmq_step_o_clean q o orc HI) as (out & q1 & R & HI1 & B1 & _).
      unfold run, ledger in *. cbn [lmq_run_o]. unfold bind.
      destruct (lmq_step_o SZ_PTR true q o orc) as [[x o1] t1]. cbn [fst snd] in *. subst x.
      destruct (IH q1 o1 HI1) as (outs & q2 & R2 & HI2 & B2 & L2 & N2).
      destruct (lmq_run_o SZ_PTR true q1 r o1) as [[y o2] t2]. cbn [fst snd] in *. subst y.
      unfold ret. cbn [fst snd]. rewrite app_nil_r.
      exists (out :: outs), q2. split; [reflexivity|]. split; [exact HI2|].
      split; [eapply balanced_trans; eauto|]. split; [exact L2|cbn; now rewrite N2].
  Qed.

End LmqAFProofs.

Section MsgqAFProofs.
  Variable SZ_PTR SZ_MSGQ : nat.
  Hypothesis SZ_PTR_pos : 0 < SZ_PTR.
  Hypothesis SZ_MSGQ_pos : 0 < SZ_MSGQ.
  Notation mowned := (msgq_owned SZ_PTR SZ_MSGQ).

  (* ---- nni_msgq_init ---- *)
  Theorem msgq_init_o_clean cap (orc : oracle) :
    let r := run (msgq_init_o SZ_PTR SZ_MSGQ cap) orc in
    let t := ledger (msgq_init_o SZ_PTR SZ_MSGQ cap) orc in
    ncalls t <= 2 /\
    (failed t = true -> r = (ENOMEM_q, None) /\ self_balanced t) /\
    (failed t = false -> exists q, r = (0%N, Some q) /\ AllInv q /\ items q = [] /\ mq_cap q = cap /\
                                   balanced [] t (mowned q)).
  Proof.
    cbn zeta. unfold run, ledger, msgq_init_o, bind.
    destruct (nalloc_cases SZ_MSGQ orc) as [[Z _]|[[_ [o1 E1]]|[_ [o1 E1]]]]; [lia| |]; rewrite E1; cbn [negb].
    - destruct (nalloc_cases (SZ_PTR * (cap + 2)) o1) as [[Z _]|[[_ [o2 E2]]|[_ [o2 E2]]]]; [nia| |]; rewrite E2.
      + unfold ret. cbn [fst snd app]. split; [cbn; lia|]. split; [cbn; discriminate|]. intros _.
        destruct (msgq_init_inv cap) as [HA HI]. exists (msgq_init cap).
        split; [reflexivity|]. split; [exact HA|]. split; [exact HI|]. split; [reflexivity|].
        unfold balanced, msgq_owned, mq_alloc, msgq_init; cbn [mq_cells]. rewrite repeat_length. cbn.
        apply Permutation_refl.
      + unfold free, ret. cbn [fst snd app]. split; [cbn; lia|]. split; [|cbn; discriminate].
        intros _. split; [reflexivity|unfold self_balanced; cbn; apply Permutation_refl].
    - unfold ret. cbn [fst snd]. split; [cbn; lia|]. split; [|cbn; discriminate].
      intros _. split; [reflexivity|unfold self_balanced; cbn; constructor].
  Qed.

  (* ---- nni_msgq_resize ---- *)
  Theorem msgq_resize_o_clean q cap (orc : oracle) : AllInv q ->
    let r := run (msgq_resize_o SZ_PTR true q cap) orc in
    let t := ledger (msgq_resize_o SZ_PTR true q cap) orc in
    exists rv q' outs, r = Some (rv, q', outs) /\ AllInv q' /\ balanced (mowned q) t (mowned q') /\
      ncalls t <= 1 /\
      (failed t = true -> rv = ENOMEM_q /\ q' = q /\ outs = [] /\ self_balanced t) /\
      (failed t = false -> step_law q (MResize cap false) rv q' outs).
  Proof.
    intros HI. cbn zeta. unfold run, ledger, msgq_resize_o.
    destruct (mq_alloc q <? cap + 2) eqn:G.
    - unfold bind. destruct (nalloc_cases (SZ_PTR * (cap + 2)) orc) as [[Z _]|[[_ [o' E]]|[_ [o' E]]]]; [nia| |]; rewrite E.
      + destruct (msgq_step_spec q (MResize cap false) HI) as (rv & q' & outs & S & HI' & LAW).
        pose proof (msgq_resize_alloc _ _ _ _ _ _ S) as [-> AL]. rewrite G in AL.
        unfold free, ret. cbn [fst snd app]. rewrite S.
        exists 0%N, q', outs. split; [reflexivity|]. split; [exact HI'|].
        split; [|split; [cbn; lia|split; [cbn; discriminate|intros _; exact LAW]]].
        unfold balanced, msgq_owned. rewrite AL. cbn.
        apply perm_trans with (SZ_MSGQ :: SZ_PTR * (cap + 2) :: [SZ_PTR * mq_alloc q]); [apply perm_swap|].
        apply perm_trans with (SZ_MSGQ :: SZ_PTR * mq_alloc q :: [SZ_PTR * (cap + 2)]); [constructor; apply perm_swap|apply perm_swap].
      + unfold ret. cbn [fst snd app msgq_step]. rewrite G. cbn [andb].
        exists ENOMEM_q, q, []. split; [reflexivity|]. split; [exact HI|].
        split; [apply balanced_same; unfold self_balanced; cbn; constructor|].
        split; [cbn; lia|]. split; [|cbn; discriminate].
        intros _. repeat split. unfold self_balanced; cbn. constructor.
    - unfold ret. cbn [fst snd].
      destruct (msgq_step_spec q (MResize cap false) HI) as (rv & q' & outs & S & HI' & LAW).
      pose proof (msgq_resize_alloc _ _ _ _ _ _ S) as [-> AL]. rewrite G in AL. rewrite S.
      exists 0%N, q', outs. split; [reflexivity|]. split; [exact HI'|].
      split; [|split; [cbn; lia|split; [cbn; discriminate|intros _; exact LAW]]].
      unfold balanced, msgq_owned. rewrite AL. cbn. apply Permutation_refl.
  Qed.

  Theorem msgq_fini_o_balanced q (orc : oracle) :
    balanced (mowned q) (ledger (msgq_fini_o SZ_PTR SZ_MSGQ q) orc) [] /\
    ncalls (ledger (msgq_fini_o SZ_PTR SZ_MSGQ q) orc) = 0.
  Proof.
    unfold ledger, msgq_fini_o, bind, free, balanced, msgq_owned. cbn. split; [apply perm_swap|reflexivity].
  Qed.
End MsgqAFProofs.
