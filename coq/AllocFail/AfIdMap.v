(* AfIdMap: src/core/idhash.c under the allocation oracle.  Definitions only.

   The only allocation is in id_resize: new_entries = NNI_ALLOC_STRUCTS(new_entries, new_cap)
   = nni_zalloc(sizeof(nni_id_entry) x new_cap), reached when the load thresholds ask for
   it and new_cap differs from the present capacity.  Failure: NNG_ENOMEM from id_resize,
   the old table untouched; nni_id_set passes that on, nni_id_remove ignores it ("Shrink --
   but it's ok if we can't"), nni_id_alloc passes it on AFTER having advanced its cursor.
   Success: the live entries are rehashed, the old table freed (if old_cap != 0).
   nni_id_map_fini frees the table.

   As in AfMsg the wrappers compute only whether id_resize reaches the allocation and
   with which capacity ([resize_newcap], the same tests as IdMapModel.id_resize), consult the
   oracle, and run the existing model function with the resulting [fail] flag. *)
From Coq Require Import List Arith Bool NArith.
From NngV Require Import IdMap.IdMapModel AllocFail.AfBase.
Import ListNotations.

(* the capacity id_resize allocates; None = it returns without allocating *)
Definition resize_newcap (m : id_map) : id_res (option nat) :=
  if (id_load m <? id_max_load m) && (id_min_load m <=? id_load m) then IdOk None
  else
    do new_cap <- id_new_cap (id_count m);
    if new_cap =? id_cap m then IdOk None else IdOk (Some new_cap).

(* nni_id_remove up to (not including) its call of id_resize; None = NNG_ENOENT *)
Definition remove_mid (m : id_map) (id : N) : id_res (option id_map) :=
  do r <- id_find m id;
  match r with
  | None => IdOk None
  | Some index =>
      do '(T, load) <- rm_loop (id_entries m) (id_cap m) index (id_index (id_cap m) id) (id_load m) (id_cap m);
      do count <- id_dec (id_count m);
      IdOk (Some (set_table m T count load))
  end.

(* nni_id_alloc up to (not including) its call of nni_id_set; None = the range is full *)
Definition alloc_mid (fixed : bool) (m : id_map) (rnd : N) : id_res (option (N * id_map)) :=
  if (u64_sub (id_max_val m) (id_min_val m) <? N.of_nat (id_count m))%N then IdOk None
  else
    let m := if (id_dyn_val m =? 0)%N
             then set_dyn m (if id_random m
                             then u64_add (rnd mod (u64_add (u64_sub (id_max_val m) (id_min_val m)) 1)) (id_min_val m)
                             else id_min_val m)
             else m in
    do '(id, dyn) <- alloc_loop fixed m (id_dyn_val m) (S (id_count m));
    IdOk (Some (id, set_dyn m dyn)).

Section IdMapAF.
  Variable SZ_ENT : nat.     (* sizeof (nni_id_entry) *)

  Definition idmap_owned (m : id_map) : list nat := if id_cap m =? 0 then [] else [SZ_ENT * id_cap m].

  (* run [body fail] with the flag the oracle yields for the resize of state [m0] *)
  Definition with_resize {A} (m0 : id_map) (body : bool -> id_res A) : M (id_res A) :=
    match resize_newcap m0 with
    | IdErr e => ret (IdErr e)
    | IdOk None => ret (body false)
    | IdOk (Some nc) =>
        ok <-- nalloc (SZ_ENT * nc) ;;
        if ok then _ <-- free_if (negb (id_cap m0 =? 0)) (SZ_ENT * id_cap m0) ;; ret (body false)
        else ret (body true)
    end.

  Definition id_set_o (m : id_map) (k v : N) : M (id_res (N * id_map)) :=
    with_resize m (id_set m k v).

  Definition id_remove_o (m : id_map) (k : N) : M (id_res (N * id_map)) :=
    match remove_mid m k with
    | IdErr e => ret (IdErr e)
    | IdOk None => ret (id_remove m k false)
    | IdOk (Some m1) => with_resize m1 (id_remove m k)
    end.

  Definition id_alloc_o (fixed : bool) (m : id_map) (v rnd : N) : M (id_res (N * option N * id_map)) :=
    match alloc_mid fixed m rnd with
    | IdErr e => ret (IdErr e)
    | IdOk None => ret (id_alloc fixed m v rnd false)
    | IdOk (Some (_, m1)) => with_resize m1 (id_alloc fixed m v rnd)
    end.

  Definition id_fini_o (m : id_map) : M id_map :=
    _ <-- free_if (negb (id_cap m =? 0)) (SZ_ENT * id_cap m) ;; ret (id_map_fini m).

  (* operations as data; the [fail] flags of id_op are chosen by the oracle *)
  Inductive id_op_o := JSet (k v : N) | JGet (k : N) | JRemove (k : N) | JAlloc (v rnd : N) | JVisit | JCount.
  Definition unop (o : id_op_o) (f : bool) : id_op :=
    match o with
    | JSet k v => IoSet k v f | JGet k => IoGet k | JRemove k => IoRemove k f
    | JAlloc v rnd => IoAlloc v rnd f | JVisit => IoVisit | JCount => IoCount
    end.

  Definition id_step_o (fixed : bool) (m : id_map) (o : id_op_o) : M (id_res (id_out * id_map)) :=
    match o with
    | JSet k v => r <-- id_set_o m k v ;; ret (do '(rv, m') <- r; IdOk (OutRv rv, m'))
    | JRemove k => r <-- id_remove_o m k ;; ret (do '(rv, m') <- r; IdOk (OutRv rv, m'))
    | JAlloc v rnd => r <-- id_alloc_o fixed m v rnd ;; ret (do '(rv, id, m') <- r; IdOk (OutAlloc rv id, m'))
    | JGet k => ret (id_step fixed m (IoGet k))
    | JVisit => ret (id_step fixed m IoVisit)
    | JCount => ret (id_step fixed m IoCount)
    end.

  Fixpoint id_run_o (fixed : bool) (m : id_map) (ops : list id_op_o) : M (id_res (list id_out * id_map)) :=
    match ops with
    | [] => ret (IdOk ([], m))
    | o :: r =>
        x <-- id_step_o fixed m o ;;
        match x with
        | IdErr e => ret (IdErr e)
        | IdOk (out, m1) =>
            y <-- id_run_o fixed m1 r ;;
            ret (do '(outs, m2) <- y; IdOk (out :: outs, m2))
        end
    end.
End IdMapAF.
