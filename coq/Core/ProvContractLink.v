(* ProvContractLink: the monitor of Core/ProvContract.v is the INTERFACE of AioModel.

   Every step of the model is projected to the events it exhibits on the aio
   ([ev_of_step]: what the caller and the H2 trace of aio.c would see of that critical
   section); the history of a run is the concatenation.  Theorem: for the repaired
   nni_aio_abort (fdone = true) every run of the model, under every interleaving, projects
   to a history the monitor accepts, and the monitor's accounting of that history is the
   model's ghost accounting (g_subs, g_cbs, g_fin, t_running, a_stop).  So "the history of
   this aio is accepted by pc_step" is exactly what the theorems of AioProofs assume of a
   provider and conclude for the caller; a real provider whose histories are refused is
   outside the model, and one whose histories are accepted gets the conclusions
   (ProvContract.pc_accepted_exactly_once) without reference to the model at all. *)
From Coq Require Import List Arith NArith Bool Lia.
From NngV Require Import Core.AioModel Core.AioProofs Core.ProvContract.
Import ListNotations.

Definition ev_of_pact (fixed : bool) (s : aio) (a : pact) : list pcevent :=
  match a with
  | PFinish rv => [EFinish rv]                       (* nni_aio_finish_impl: the VT_FINISH record *)
  | PExpireProc now =>
      (* the expiry of a sleep completes it right there (the VT_EXPIRE record of a sleeping aio) *)
      let due := match a_expire s with Some e => N.ltb e now | None => false end in
      if fixed && negb due then []
      else if a_sleep s then [EFinish (if a_expire_ok s then A_OK else A_TIMEDOUT)] else []
  | PStopWait => if t_busy s =? 0 then [EStopReturned] else []
  | PDispatch | PCallCancel _ | PExpireDone => []
  end.

Definition ev_of_step (fixed : bool) (s : aio) (l : alabel) : list pcevent :=
  match l with
  | LStart zero dl sleep eok =>
      ESubmit ::
      (if a_stop s then [EStartRefused A_STOPPED]
       else if a_abort s then [EStartRefused (a_result s)]
       else if zero then [EStartRefused (if (if sleep then eok else false) then A_OK else A_TIMEDOUT)]
       else [EStartOk])
  | LRun k => match nth_error (threads s) k with Some (a :: _) => ev_of_pact fixed s a | _ => [] end
  | LRunCb => [ECallback (a_result s)]
  | LCbDone => [ECbDone]
  | LStop | LClose => [EFwStop]
  | LAbort rv => [EUser rv]
  | LProvFinish _ | LExpire _ | LReset => []
  end.

Fixpoint history (fixed fdone : bool) (s : aio) (ls : list alabel) : list pcevent :=
  match ls with
  | [] => []
  | l :: r => ev_of_step fixed s l ++
              match astep fixed fdone s l with Some s1 => history fixed fdone s1 r | None => [] end
  end.

(* monitor state <-> model state *)
Definition Rel (s : aio) (m : pcstate) : Prop :=
  pc_stopped m = a_stop s /\ pc_running m = t_running s /\
  match pc_phase m with
  | PIdle => g_subs s = g_cbs s
  | PSubmitted => False
  | POwned => g_subs s = S (g_cbs s) /\ g_fin s = None
  | PCompleted rv => g_subs s = S (g_cbs s) /\ g_fin s = Some rv
  end.

Lemma rel_init : Rel aio_init pc_init.
Proof. repeat split. Qed.

(* ---- facts about reachable model states (Inv1, InvR of AioProofs) ---- *)
Lemma idle_counts s : Inv1 s -> outstanding s = false -> g_subs s = g_cbs s.
Proof. intros (I1 & _) O. apply outstanding_false in O as [T Q]. lia. Qed.

Lemma fin_thread_counts s rv rest : Inv1 s -> InvR s -> In (PFinish rv :: rest) (threads s) ->
  g_subs s = S (g_cbs s) /\ g_fin s = None.
Proof.
  intros (I1 & I2 & I3 & I4 & I5) (_ & _ & J3) HIn.
  pose proof (fin_in_threads (threads s) rv rest HIn) as FT. unfold tokens in *.
  assert (T: tok_threads (threads s) = 1 /\ p_owns s = false /\ t_queued s = 0 /\ dsp_threads (threads s) = 0)
    by (destruct (p_owns s); repeat split; lia).
  destruct T as (T1 & O & Q & D). rewrite O in *. split; [lia|].
  destruct (g_fin s) eqn:F; [|reflexivity].
  assert (X: dsp_threads (threads s) + t_queued s = 1) by (apply J3; congruence). lia.
Qed.

Lemma owns_counts s : Inv1 s -> InvR s -> p_owns s = true -> g_subs s = S (g_cbs s) /\ g_fin s = None.
Proof.
  intros HI HR O. split; [|exact (owns_no_fin s HI HR O)].
  destruct HI as (I1 & I2 & I3 & I4 & I5). unfold tokens in *. rewrite O in *. lia.
Qed.

Lemma queued_counts s q : Inv1 s -> InvR s -> t_queued s = S q ->
  g_subs s = S (g_cbs s) /\ g_fin s = Some (a_result s).
Proof.
  intros (I1 & I2 & I3 & I4 & I5) (_ & J2 & J3) Q. pose proof (dsp_le_tok (threads s)) as DT.
  unfold tokens in *. split; [destruct (p_owns s); lia|].
  assert (F: g_fin s <> None) by (apply J3; destruct (p_owns s); lia).
  destruct (g_fin s) as [r|] eqn:E; [|congruence]. rewrite (J2 r eq_refl). reflexivity.
Qed.

Lemma unbusy_counts s : Inv1 s -> t_busy s = 0 -> g_subs s = g_cbs s /\ t_running s = 0.
Proof.
  intros (I1 & I2 & I3 & I4 & I5) B. destruct (t_prep s) eqn:P; [lia|].
  assert (tokens s <> 1) by (intros X; apply I4 in X; congruence). lia.
Qed.

(* the phase is determined by the ghost accounting *)
Lemma rel_idle s m : Rel s m -> g_subs s = g_cbs s -> pc_phase m = PIdle.
Proof. intros (_ & _ & R) E. destruct (pc_phase m); [reflexivity|destruct R|destruct R; lia|destruct R; lia]. Qed.
Lemma rel_owned s m : Rel s m -> g_subs s = S (g_cbs s) -> g_fin s = None -> pc_phase m = POwned.
Proof. intros (_ & _ & R) E F. destruct (pc_phase m); [lia|destruct R|reflexivity|destruct R; congruence]. Qed.
Lemma rel_completed s m r : Rel s m -> g_subs s = S (g_cbs s) -> g_fin s = Some r -> pc_phase m = PCompleted r.
Proof. intros (_ & _ & R) E F. destruct (pc_phase m); [lia|destruct R|destruct R; congruence|destruct R; congruence]. Qed.

Ltac simp_l := cbn [a_stop a_abort a_expiring a_expire_ok a_sleep a_cancel a_on_eq a_expire a_result
                    t_busy t_prep t_queued t_running p_owns p_sleep g_subs g_cbs g_fin g_bad_result g_early
                    g_stop_returned g_cb_after_stop g_subs_at_stop threads upd_threads a_done
                    pc_phase pc_stopped pc_running] in *.

(* a step that leaves the ghost accounting, a_stop and t_running alone, and shows no event *)
Lemma rel_silent s s' m : Rel s m ->
  a_stop s' = a_stop s -> t_running s' = t_running s -> g_subs s' = g_subs s -> g_cbs s' = g_cbs s -> g_fin s' = g_fin s ->
  exists m', pc_run m [] = Some m' /\ Rel s' m'.
Proof.
  intros (R1 & R2 & R3) E1 E2 E3 E4 E5. exists m. split; [reflexivity|]. unfold Rel. rewrite E1, E2, E3, E4, E5. auto.
Qed.

Section Fixed.
Variable fixed : bool.

Theorem rel_step s l s' m : Inv1 s -> InvR s -> Rel s m -> astep fixed true s l = Some s' ->
  exists m', pc_run m (ev_of_step fixed s l) = Some m' /\ Rel s' m'.
Proof.
  intros HI HR R H. pose proof R as (R1 & R2 & R3).
  destruct l as [zero dl sleep eok|rv|rv|now| | |k| | | ]; cbn [astep ev_of_step] in *.
  - (* LStart: submission and the outcome of nni_aio_start *)
    destruct (outstanding s) eqn:O; [discriminate|].
    pose proof (idle_counts s HI O) as E. pose proof (rel_idle s m R E) as P.
    destruct m as [ph st rn]. simp_l. subst ph st rn.
    destruct (a_stop s) eqn:ST; [|destruct (a_abort s); [|destruct zero]]; inversion H; subst; clear H;
      (eexists; split; [cbn; rewrite ?ST; reflexivity|]); unfold Rel, spawn; simp_l; rewrite ?ST; repeat split; auto; lia.
  - (* LProvFinish: the provider unlinks the operation; the completion itself is the PFinish continuation *)
    destruct (p_owns s && negb (p_sleep s)); [|discriminate]. inversion H; subst; clear H.
    apply (rel_silent s _ m R); unfold spawn; reflexivity.
  - (* LAbort *)
    destruct (rv =? 0)%N; [discriminate|].
    destruct (a_cancel s); [|destruct (true && a_done s)]; inversion H; subst; clear H;
      (exists m; split; [reflexivity|]); unfold Rel, spawn; simp_l; auto.
  - (* LExpire *)
    destruct (a_on_eq s && negb (a_expiring s)); [|discriminate].
    destruct (negb match a_expire s with Some e => (e <? now)%N | None => false end); [discriminate|].
    inversion H; subst; clear H. apply (rel_silent s _ m R); unfold spawn; reflexivity.
  - (* LStop *)
    destruct (a_expiring s); [discriminate|]. inversion H; subst; clear H.
    eexists; split; [reflexivity|]. destruct (a_cancel s); unfold Rel, spawn; cbn [app]; simp_l; auto.
  - (* LClose *)
    inversion H; subst; clear H.
    eexists; split; [reflexivity|]. destruct (a_cancel s); unfold Rel, spawn; simp_l; auto.
  - (* LRun k *)
    destruct (nth_error (threads s) k) as [[|a rest]|] eqn:N; try discriminate.
    destruct (run_pact fixed s a) as [[s1 more]|] eqn:RP; [|discriminate]. inversion H; subst; clear H.
    destruct a; cbn [run_pact ev_of_pact] in *.
    + (* PDispatch *) inversion RP; subst s1 more; clear RP. apply (rel_silent s _ m R); reflexivity.
    + (* PFinish rv: the completion *)
      inversion RP; subst s1 more; clear RP.
      destruct (fin_thread_counts s rv rest HI HR (nth_error_In _ _ N)) as [E F].
      pose proof (rel_owned s m R E F) as P. destruct m as [ph st rn]. simp_l. subst ph st rn.
      eexists; split; [reflexivity|]. unfold Rel, do_finish; simp_l. rewrite F. auto.
    + (* PCallCancel *)
      unfold do_call_cancel in RP. destruct (p_owns s); inversion RP; subst s1 more; clear RP;
        apply (rel_silent s _ m R); reflexivity.
    + (* PExpireProc *)
      unfold do_expire_proc in RP.
      destruct (fixed && negb match a_expire s with Some e => (e <? now)%N | None => false end).
      * inversion RP; subst s1 more; clear RP. apply (rel_silent s _ m R); reflexivity.
      * destruct (a_sleep s) eqn:SL; [|destruct (a_cancel s)]; inversion RP; subst s1 more; clear RP.
        -- (* a sleep expires: completed here *)
           destruct HI as (I1 & I2 & I3 & I4 & I5). destruct (I5 SL) as [O _].
           destruct (owns_counts s (conj I1 (conj I2 (conj I3 (conj I4 I5)))) HR O) as [E F].
           pose proof (rel_owned s m R E F) as P. destruct m as [ph st rn]. simp_l. subst ph st rn.
           eexists; split; [reflexivity|]. unfold Rel; simp_l. rewrite F. auto.
        -- apply (rel_silent s _ m R); reflexivity.
        -- apply (rel_silent s _ m R); reflexivity.
    + (* PExpireDone *) inversion RP; subst s1 more; clear RP. apply (rel_silent s _ m R); reflexivity.
    + (* PStopWait: nni_aio_stop returns *)
      destruct (t_busy s =? 0) eqn:B; inversion RP; subst s1 more; clear RP. apply Nat.eqb_eq in B.
      destruct (unbusy_counts s HI B) as [E RN]. pose proof (rel_idle s m R E) as P.
      destruct m as [ph st rn]. simp_l. subst ph st rn. rewrite RN.
      eexists; split; [reflexivity|]. unfold Rel; simp_l. auto.
  - (* LRunCb: the callback reads a_result *)
    destruct (t_queued s) as [|q] eqn:Q; [discriminate|]. inversion H; subst; clear H.
    destruct (queued_counts s q HI HR Q) as [E F].
    pose proof (rel_completed s m _ R E F) as P. destruct m as [ph st rn]. simp_l. subst ph st rn.
    eexists; split; [cbn; rewrite N.eqb_refl; reflexivity|]. unfold Rel; simp_l. repeat split; auto; lia.
  - (* LCbDone *)
    destruct (t_running s) as [|r] eqn:TR; [discriminate|]. inversion H; subst; clear H.
    destruct m as [ph st rn]. simp_l. subst st rn.
    eexists; split; [reflexivity|]. unfold Rel; simp_l. auto.
  - (* LReset *)
    destruct (outstanding s) eqn:O; [discriminate|]. inversion H; subst; clear H.
    apply (rel_silent s _ m R); reflexivity.
Qed.

(* every run of the model projects to an accepted history, and the monitor ends in the
   state that corresponds to the model's *)
Lemma run_accepted ls : forall s m s', Inv1 s -> Inv2 s -> InvR s -> InvD s -> Rel s m ->
  arun fixed true s ls = Some s' ->
  exists m', pc_run m (history fixed true s ls) = Some m' /\ Rel s' m'.
Proof.
  induction ls as [|l r IH]; intros s m s' A B C D R H; cbn [arun history] in *.
  - inversion H; subst. exists m. split; [reflexivity|exact R].
  - destruct (astep fixed true s l) as [s1|] eqn:S; [|discriminate].
    destruct (rel_step s l s1 m A C R S) as (m1 & P1 & R1).
    assert (C1: InvR s1) by (eapply (invR_step fixed true); eauto; apply done_not_late; exact D).
    destruct (IH s1 m1 s' (inv1_step fixed true s l s1 A S) (inv2_step fixed true s l s1 A B S) C1
                 (invD_step fixed true s l s1 A C D S) R1 H) as (m' & P' & R').
    exists m'. split; [|exact R']. rewrite pc_run_app, P1. exact P'.
Qed.
End Fixed.

Theorem model_histories_accepted fixed ls s : arun fixed true aio_init ls = Some s ->
  exists m, pc_run pc_init (history fixed true aio_init ls) = Some m /\ Rel s m.
Proof. intros H. exact (run_accepted fixed ls aio_init pc_init s inv1_init inv2_init invR_init invD_init rel_init H). Qed.

(* the monitor's counts of the projected history are the model's ghost counters *)
Lemma step_counts fixed fd s l s' : astep fixed fd s l = Some s' ->
  g_subs s' = g_subs s + submits (ev_of_step fixed s l) /\
  g_cbs s' = g_cbs s + length (callbacks (ev_of_step fixed s l)).
Proof.
  intros H. destruct l as [zero dl sleep eok|rv|rv|now| | |k| | | ]; cbn [astep ev_of_step] in *.
  - destruct (outstanding s); [discriminate|].
    destruct (a_stop s); [|destruct (a_abort s); [|destruct zero]]; inversion H; subst; unfold spawn; simp_l; cbn; split; lia.
  - destruct (p_owns s && negb (p_sleep s)); inversion H; subst; unfold spawn; simp_l; cbn; split; lia.
  - destruct (rv =? 0)%N; [discriminate|]. destruct (a_cancel s); [|destruct (fd && a_done s)]; inversion H; subst; unfold spawn; simp_l; cbn; split; lia.
  - destruct (a_on_eq s && negb (a_expiring s)); [|discriminate].
    destruct (negb match a_expire s with Some e => (e <? now)%N | None => false end); [discriminate|].
    inversion H; subst; unfold spawn; simp_l; cbn; split; lia.
  - destruct (a_expiring s); [discriminate|]. inversion H; subst. destruct (a_cancel s); unfold spawn; cbn [app]; simp_l; cbn; split; lia.
  - inversion H; subst. destruct (a_cancel s); unfold spawn; simp_l; cbn; split; lia.
  - destruct (nth_error (threads s) k) as [[|a rest]|] eqn:N; try discriminate.
    destruct (run_pact fixed s a) as [[s1 more]|] eqn:R; [|discriminate]. inversion H; subst; clear H. simp_l.
    destruct a; cbn [run_pact ev_of_pact] in *.
    + inversion R; subst. unfold do_dispatch; simp_l. cbn; split; lia.
    + inversion R; subst. unfold do_finish; simp_l. cbn; split; lia.
    + unfold do_call_cancel in R. destruct (p_owns s); inversion R; subst; simp_l; cbn; split; lia.
    + unfold do_expire_proc in R.
      destruct (fixed && negb match a_expire s with Some e => (e <? now)%N | None => false end);
        [|destruct (a_sleep s); [|destruct (a_cancel s)]]; inversion R; subst; simp_l; cbn; split; lia.
    + inversion R; subst. simp_l. cbn; split; lia.
    + destruct (t_busy s =? 0); inversion R; subst. simp_l. cbn; split; lia.
  - destruct (t_queued s); [discriminate|]. inversion H; subst. simp_l. cbn; split; lia.
  - destruct (t_running s); [discriminate|]. inversion H; subst. simp_l. cbn; split; lia.
  - destruct (outstanding s); [discriminate|]. inversion H; subst. simp_l. cbn; split; lia.
Qed.

Lemma submits_app a b : submits (a ++ b) = submits a + submits b.
Proof. unfold submits. rewrite omap_app, app_length. reflexivity. Qed.
Lemma callbacks_app a b : callbacks (a ++ b) = callbacks a ++ callbacks b.
Proof. unfold callbacks. apply omap_app. Qed.

Theorem history_counts fixed fd ls : forall s s', arun fixed fd s ls = Some s' ->
  g_subs s' = g_subs s + submits (history fixed fd s ls) /\
  g_cbs s' = g_cbs s + length (callbacks (history fixed fd s ls)).
Proof.
  induction ls as [|l r IH]; intros s s' H; cbn [arun history] in *.
  - inversion H; subst. cbn. split; lia.
  - destruct (astep fixed fd s l) as [s1|] eqn:S; [|discriminate].
    destruct (step_counts fixed fd s l s1 S) as [A1 A2]. destruct (IH s1 s' H) as [B1 B2].
    rewrite submits_app, callbacks_app, app_length. split; lia.
Qed.
