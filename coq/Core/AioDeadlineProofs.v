(* AioDeadlineProofs: with all three clearing points in place the deadline handed to the expiry
   machinery is, for every history of configuration calls, starts, sleeps and completions, the
   one the specification [sp_run] names; without any one of them there is a history on which a
   different deadline is used. *)
From Coq Require Import ZArith NArith Bool List Lia.
From NngV Require Import Core.AioDeadline.
Import ListNotations.
Local Open Scope Z_scope.

Definition DR (c : dl) (s : sp) : Prop :=
  d_timeout c = s_timeout s /\
  match s_abs s with
  | Some t => d_use c = true /\ d_expire c = t
  | None => d_use c = false
  end.

Lemma DR_init : DR dl_init sp_init.
Proof. split; reflexivity. Qed.

Lemma sleep_eff_timeout c c' ms : d_timeout c = d_timeout c' -> sleep_eff c ms = sleep_eff c' ms.
Proof. unfold sleep_eff. intros ->. reflexivity. Qed.

Lemma DR_step c s o : DR c s ->
  DR (fst (dl_step true true true c o)) (fst (sp_step s o)) /\
  snd (dl_step true true true c o) = snd (sp_step s o).
Proof.
  intros [HT HA]. destruct o as [d|t|d|now|now ms|]; cbn [dl_step sp_step fst snd].
  - split; [split; reflexivity|reflexivity].
  - split; [split; [exact HT|cbn; split; reflexivity]|reflexivity].
  - split; [|reflexivity]. split.
    + cbn. rewrite HT. reflexivity.
    + cbn [dl_normalize d_use d_expire s_abs]. exact HA.
  - unfold dl_start, sp_verdict. destruct (s_abs s) as [t|] eqn:EA.
    + destruct HA as [HU HE]. rewrite HU. cbn [negb]. rewrite HE.
      destruct t as [t|].
      * destruct (t <=? now)%N; cbn [fst snd]; (split; [split; [exact HT|reflexivity]|reflexivity]).
      * cbn [fst snd]. split; [split; [exact HT|reflexivity]|reflexivity].
    + rewrite HA. cbn [negb]. unfold sp_rel. rewrite <- HT.
      destruct (d_timeout c =? 0); [|destruct (d_timeout c <? 0)]; cbn [fst snd];
        (split; [split; [reflexivity|reflexivity]|reflexivity]).
  - unfold dl_sleep, sp_sleep.
    rewrite (sleep_eff_timeout c (mkDl (s_timeout s) None false) ms) by (cbn; exact HT).
    destruct (sleep_eff (mkDl (s_timeout s) None false) ms) as [ms' eok].
    destruct (s_abs s) as [t|] eqn:EA.
    + destruct HA as [HU HE]. rewrite HU. cbn [andb fst snd].
      split; [split; [exact HT|reflexivity]|reflexivity].
    + rewrite HA. cbn [andb fst snd]. split; [split; [exact HT|reflexivity]|reflexivity].
  - split; [split; [exact HT|reflexivity]|reflexivity].
Qed.

(* every history: the implementation's deadlines are the specified ones *)
Theorem deadline_refines : forall os c s, DR c s -> dl_run true true true c os = sp_run s os.
Proof.
  induction os as [|o r IH]; intros c s H; [reflexivity|].
  cbn [dl_run sp_run]. destruct (DR_step c s o H) as [HR HO].
  destruct (dl_step true true true c o) as [c' x]. destruct (sp_step s o) as [s' y].
  cbn [fst snd] in HR, HO. rewrite HO. f_equal. apply IH. exact HR.
Qed.

Corollary deadline_is_configured : forall os, dl_run true true true dl_init os = sp_run sp_init os.
Proof. intro os. apply deadline_refines. exact DR_init. Qed.

(* ... and what that means for the operation that is started: a relative timeout d > 0 gives the
   deadline now + d, never an earlier one, unless an absolute expiry was set for exactly this
   operation *)
Lemma sp_verdict_rel s now : s_abs s = None -> 0 < s_timeout s ->
  sp_verdict s now = VDeadline (Some (after now (s_timeout s))).
Proof.
  intros HA HT. unfold sp_verdict, sp_rel. rewrite HA.
  destruct (s_timeout s =? 0) eqn:E0; [apply Z.eqb_eq in E0; lia|].
  destruct (s_timeout s <? 0) eqn:E1; [apply Z.ltb_lt in E1; lia|]. reflexivity.
Qed.

Lemma after_ge now d : 0 <= d -> (now + Z.to_N d = after now d)%N.
Proof. intro H. unfold after. lia. Qed.

(* each of the three clearing points is necessary *)
Definition dl_witness_fin2 : list dop :=
  [DSetTimeout 200; DStart 100%N; DSetExpire (Some 300%N); DFinish; DStart 400%N].

Theorem deadline_refuted : forall fset ffin fcons, fset && ffin && fcons = false ->
  exists os, dl_run fset ffin fcons dl_init os <> sp_run sp_init os.
Proof.
  intros fset ffin fcons H. destruct fset.
  - destruct ffin.
    + destruct fcons; [discriminate|]. exists dl_witness_cons. vm_compute. discriminate.
    + destruct fcons.
      * exists dl_witness_fin2. vm_compute. discriminate.
      * exists dl_witness_fin. vm_compute. discriminate.
  - exists dl_witness_set. destruct ffin, fcons; vm_compute; discriminate.
Qed.

(* the premises are met by a non-trivial history *)
Example deadline_example :
  dl_run true true true dl_init
    [DSetTimeout 5000; DSetExpire (Some 10%N); DStart 20%N; DStart 30%N; DFinish; DSleep 40%N 100; DSetTimeout 50; DSleep 200%N 100] =
  [ONone; ONone; OStart VZero; OStart (VDeadline (Some 5030%N)); ONone; OSleep (VDeadline (Some 140%N)) true; ONone;
   OSleep (VDeadline (Some 250%N)) false].
Proof. vm_compute. reflexivity. Qed.
