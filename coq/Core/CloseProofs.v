(* CloseProofs: lemmas about Core/CloseModel.v (property C10).
   Part 1  witnesses of the statements that are false of the model in its pinned form (each
           replayed on the real library, findings/c10/race*.c) and of the two statements
           that are false of the repaired form as well (pipe handles; a third concurrent closer).
   Part 2  list / update lemmas.
   Part 3  termination: a lexicographic measure that strictly decreases along every internal step.
   Part 4  safety invariants of the repaired model: handles, pending sets, program order. *)
From Coq Require Import List Arith NArith Bool Lia Wellfounded Relation_Operators.
Import ListNotations.
From NngV Require Import Core.CloseModel.

Definition runs (k : nat) (n : nat) : list label := repeat (LRun k) n.
Definition reaps (n : nat) : list label := repeat LReap n.

(* ================================================================ Part 1: witnesses *)
(* witnesses are checked by evaluation of a boolean *)
Definition chk (fx : fixes) (s0 : st) (w : list label) (P : st -> bool) : bool :=
  match run fx s0 w with Some s => P s | None => false end.

Lemma chk_run fx s0 w P : chk fx s0 w P = true -> exists s, run fx s0 w = Some s /\ P s = true.
Proof. unfold chk; destruct (run fx s0 w); [eauto|intros H; discriminate H]. Qed.

Definition is_none {A} (o : option A) : bool := match o with None => true | Some _ => false end.
Definition nat_list_eqb (a b : list nat) : bool := if list_eq_dec Nat.eq_dec a b then true else false.
Definition n_list_eqb (a b : list N) : bool := if list_eq_dec N.eq_dec a b then true else false.
Definition sock_ret (role : nat) (s : st) : bool :=
  existsb (fun r => match r with (USockClose, rv, ro) => N.eqb rv C_OK && Nat.eqb ro role | _ => false end) (rets s).

Lemma sock_ret_In role s : sock_ret role s = true -> In (USockClose, C_OK, role) (rets s).
Proof.
  unfold sock_ret; rewrite existsb_exists; intros [[[u rv] ro] [Hin H]].
  destruct u; try discriminate H. apply andb_prop in H as [H1 H2].
  apply N.eqb_eq in H1; apply Nat.eqb_eq in H2; subst; auto.
Qed.

(* no internal step of the model is enabled *)
Definition no_internal_step (fx : fixes) (s : st) : Prop :=
  (forall k, step fx s (LRun k) = None) /\ step fx s LReap = None /\
  (forall e rv, internal s (LEpCb e rv) = true -> step fx s (LEpCb e rv) = None) /\
  (forall p, internal s (LPipeCb p) = true -> step fx s (LPipeCb p) = None).

Definition no_step_b (fx : fixes) (s : st) : bool :=
  forallb (fun k => is_none (step fx s (LRun k))) (seq 0 (length (threads s))) &&
  is_none (step fx s LReap) &&
  forallb (fun x => negb (e_tranclosed x) || (e_busy x =? 0)) (eps s) &&
  forallb (fun x => negb (p_tranclosed x) || (p_busy x =? 0)) (pipes s).

Lemma forallb_nth {A} (f : A -> bool) l i x : forallb f l = true -> nth_error l i = Some x -> f x = true.
Proof. intros H E; rewrite forallb_forall in H; apply H; eapply nth_error_In; eauto. Qed.

Lemma no_step_b_sound fx s : no_step_b fx s = true -> no_internal_step fx s.
Proof.
  unfold no_step_b; intros H.
  apply andb_prop in H as [H H4]; apply andb_prop in H as [H H3]; apply andb_prop in H as [H1 H2].
  split; [|split; [|split]].
  - intros k. destruct (lt_dec k (length (threads s))) as [Hk|Hk].
    + rewrite forallb_forall in H1. specialize (H1 k). rewrite in_seq in H1.
      destruct (step fx s (LRun k)); auto. assert (X: false = true) by (apply H1; lia). discriminate X.
    + simpl. destruct (nth_error (threads s) k) eqn:E; auto.
      exfalso; apply Hk; apply nth_error_Some; congruence.
  - destruct (step fx s LReap); auto; discriminate H2.
  - intros e rv Hi; simpl in *. destruct (nth_error (eps s) e) eqn:E; auto.
    pose proof (forallb_nth _ _ _ _ H3 E) as Hb; simpl in Hb. rewrite Hi in Hb; simpl in Hb.
    apply Nat.eqb_eq in Hb; rewrite Hb; auto.
  - intros p Hi; simpl in *. destruct (nth_error (pipes s) p) eqn:E; auto.
    pose proof (forallb_nth _ _ _ _ H4 E) as Hb; simpl in Hb. rewrite Hi in Hb; simpl in Hb.
    apply Nat.eqb_eq in Hb; rewrite Hb; auto.
Qed.

(* defect 1 (fx_ephold = false): nng_dialer_close racing nng_socket_close -- sock_shutdown calls
   nni_dialer_close without a hold; its already-closed branch releases: the count reaches zero while
   the first closer is still at work, the next release trips NNI_ASSERT(d_ref > 0). *)
Definition w_ephold : list label :=
  [LSpawn (UEpCreate true)] ++ runs 0 5 ++ [LSpawn (UEpClose 0)] ++ runs 1 2 ++ [LSpawn USockClose] ++ runs 2 11.

Lemma ephold_refuted : forall b c d e g,
  exists s, run (mkFixes false b c d e g) (init PhProto false false) w_ephold = Some s /\ bad s = [B_REF_UNDERFLOW].
Proof.
  intros b c d e g.
  assert (H: chk (mkFixes false b c d e g) (init PhProto false false) w_ephold (fun s => nat_list_eqb (bad s) [B_REF_UNDERFLOW]) = true)
    by (destruct b, c, d, e, g; vm_compute; reflexivity).
  apply chk_run in H as (s & Hr & Hb). exists s; split; auto.
  unfold nat_list_eqb in Hb; destruct (list_eq_dec Nat.eq_dec (bad s) [B_REF_UNDERFLOW]); [auto|discriminate Hb].
Qed.

(* defect 2 (fx_epid = false): nng_dialer_create racing nng_socket_close -- the endpoint is on the
   socket's list before it has an id; shutdown closes it, the id is allocated afterwards and
   survives the endpoint: a later find returns the destroyed object. *)
Definition w_epid : list label :=
  [LSpawn (UEpCreate true); LSpawn USockClose] ++ runs 0 2 ++ runs 1 4 ++ runs 0 2 ++ runs 1 6 ++ reaps 4 ++
  [LSpawn (UGetEp 0); LRun 2].

Lemma epid_refuted : forall a c d e g,
  exists s, run (mkFixes a false c d e g) (init PhProto false false) w_epid = Some s /\ bad s = [B_FIND_FREED].
Proof.
  intros a c d e g.
  assert (H: chk (mkFixes a false c d e g) (init PhProto false false) w_epid (fun s => nat_list_eqb (bad s) [B_FIND_FREED]) = true)
    by (destruct a, c, d, e, g; vm_compute; reflexivity).
  apply chk_run in H as (s & Hr & Hb). exists s; split; auto.
  unfold nat_list_eqb in Hb; destruct (list_eq_dec Nat.eq_dec (bad s) [B_FIND_FREED]); [auto|discriminate Hb].
Qed.

(* defect 3 (fx_ctxfini = false): nng_ctx_close racing nng_socket_close -- the context leaves s_ctxs
   before ctx_fini has run; the socket's closer proceeds, returns with the context's receive still
   pending, and ctx_fini then runs on the destroyed socket. *)
Definition w_ctxfini : list label :=
  [LSpawn UCtxOpen] ++ runs 0 6 ++ [LSpawn (USubmit (Some 0) 1%N true)] ++ runs 1 4 ++
  [LSpawn (UCtxClose 0); LSpawn USockClose] ++ runs 2 3 ++ runs 3 13.

Definition ctxfini_bad (fx : fixes) (s : st) : bool :=
  sock_ret R_DESTROY s && nat_list_eqb (bad s) [] &&
  match nth_error (ctxs s) 0 with Some x => n_list_eqb (c_pend x) [1%N] | None => false end &&
  match step fx s (LRun 2) with Some s' => nat_list_eqb (bad s') [B_SOCK_FREED] | None => false end.

Lemma ctxfini_refuted : forall a b d e g,
  exists s, run (mkFixes a b false d e g) (init PhFini true true) w_ctxfini = Some s /\
            In (USockClose, C_OK, R_DESTROY) (rets s) /\ bad s = [] /\
            (exists x, nth_error (ctxs s) 0 = Some x /\ c_pend x = [1%N]) /\
            (exists s', step (mkFixes a b false d e g) s (LRun 2) = Some s' /\ bad s' = [B_SOCK_FREED]).
Proof.
  intros a b d e g.
  assert (H: chk (mkFixes a b false d e g) (init PhFini true true) w_ctxfini (ctxfini_bad (mkFixes a b false d e g)) = true)
    by (destruct a, b, d, e, g; vm_compute; reflexivity).
  apply chk_run in H as (s & Hr & Hb). exists s; split; auto.
  unfold ctxfini_bad in Hb.
  apply andb_prop in Hb as [Hb H4]; apply andb_prop in Hb as [Hb H3]; apply andb_prop in Hb as [H1 H2].
  split; [apply sock_ret_In; auto|].
  split; [unfold nat_list_eqb in H2; destruct (list_eq_dec Nat.eq_dec (bad s) []); [auto|discriminate H2]|].
  split.
  - destruct (nth_error (ctxs s) 0) as [x|]; [|discriminate H3]. exists x; split; auto.
    unfold n_list_eqb in H3; destruct (list_eq_dec N.eq_dec (c_pend x) [1%N]); [auto|discriminate H3].
  - destruct (step (mkFixes a b false d e g) s (LRun 2)) as [s'|]; [|discriminate H4]. exists s'; split; auto.
    unfold nat_list_eqb in H4; destruct (list_eq_dec Nat.eq_dec (bad s') [B_SOCK_FREED]); [auto|discriminate H4].
Qed.

(* defect 4 (fx_lateop = false), protocols whose sock_fini does not finalize a master context and
   that have no closed latch (pair0, pair1, push0, pull0, bus0): an operation that obtained its
   reference before close began reaches the protocol after the protocol's sock_close; it is parked,
   the socket is destroyed, nothing will ever complete it (no step of the model is enabled). *)
Definition w_lateop : list label :=
  [LSpawn (USubmit None 1%N true); LSpawn USockClose] ++ runs 0 1 ++ runs 1 9 ++ runs 0 3 ++ runs 1 4.

Definition lateop_bad (fx : fixes) (s : st) : bool :=
  sock_ret R_DESTROY s && k_freed (sk s) && n_list_eqb (k_pend (sk s)) [1%N] &&
  match done s with [] => true | _ => false end && no_step_b fx s.

Lemma lateop_refuted : forall a b c e g,
  exists s, run (mkFixes a b c false e g) (init PhProto false false) w_lateop = Some s /\
            In (USockClose, C_OK, R_DESTROY) (rets s) /\ k_freed (sk s) = true /\
            k_pend (sk s) = [1%N] /\ done s = [] /\ no_internal_step (mkFixes a b c false e g) s.
Proof.
  intros a b c e g.
  assert (H: chk (mkFixes a b c false e g) (init PhProto false false) w_lateop (lateop_bad (mkFixes a b c false e g)) = true)
    by (destruct a, b, c, e, g; vm_compute; reflexivity).
  apply chk_run in H as (s & Hr & Hb). exists s; split; auto.
  unfold lateop_bad in Hb.
  apply andb_prop in Hb as [Hb H5]; apply andb_prop in Hb as [Hb H4]; apply andb_prop in Hb as [Hb H3]; apply andb_prop in Hb as [H1 H2].
  split; [apply sock_ret_In; auto|]. split; auto.
  split; [unfold n_list_eqb in H3; destruct (list_eq_dec N.eq_dec (k_pend (sk s)) [1%N]); [auto|discriminate H3]|].
  split; [destruct (done s); [auto|discriminate H4]|]. apply no_step_b_sound; auto.
Qed.

(* defect 5 (fx_ctxopen = false): nng_ctx_open racing nng_socket_close -- the context is created
   after sock_shutdown's loop over the contexts, then only released: it stays on s_ctxs unclosed and
   unreferenced, the closer waits for the list to empty: no step is enabled, close never returns. *)
Definition w_ctxopen : list label :=
  [LSpawn UCtxOpen; LSpawn USockClose] ++ runs 0 1 ++ runs 1 6 ++ runs 0 5.

Definition ctxopen_bad (fx : fixes) (s : st) : bool :=
  match nth_error (threads s) 1 with Some (AWaitCtxs :: _) => true | _ => false end &&
  nat_list_eqb (bad s) [] && no_step_b fx s.

Lemma ctxopen_refuted : forall a b c d g,
  exists s, run (mkFixes a b c d false g) (init PhFini true true) w_ctxopen = Some s /\
            (exists r, nth_error (threads s) 1 = Some (AWaitCtxs :: r)) /\
            bad s = [] /\ no_internal_step (mkFixes a b c d false g) s.
Proof.
  intros a b c d g.
  assert (H: chk (mkFixes a b c d false g) (init PhFini true true) w_ctxopen (ctxopen_bad (mkFixes a b c d false g)) = true)
    by (destruct a, b, c, d, g; vm_compute; reflexivity).
  apply chk_run in H as (s & Hr & Hb). exists s; split; auto.
  unfold ctxopen_bad in Hb.
  apply andb_prop in Hb as [Hb H3]; apply andb_prop in Hb as [H1 H2].
  split; [destruct (nth_error (threads s) 1) as [[|[] r]|]; try discriminate H1; eauto|].
  split; [unfold nat_list_eqb in H2; destruct (list_eq_dec Nat.eq_dec (bad s) []); [auto|discriminate H2]|].
  apply no_step_b_sound; auto.
Qed.

(* fx_ctxmark = false: sock_shutdown marks only the idle contexts closed.  A context call of another thread
   sits between nni_ctx_find (c_ref++) and nni_ctx_rele when the closer walks s_ctxs: the context is left
   unmarked, its last release does nothing, it stays on s_ctxs and the closer waits for ever. *)
Definition w_ctxmark : list label :=
  [LSpawn UCtxOpen] ++ runs 0 6 ++ [LSpawn (UGetCtx 0); LSpawn USockClose] ++ runs 1 1 ++ runs 2 6 ++ runs 1 2.

Definition ctxmark_bad (fx : fixes) (s : st) : bool :=
  match nth_error (threads s) 2 with Some (AWaitCtxs :: _) => true | _ => false end &&
  nat_list_eqb (bad s) [] && no_step_b fx s &&
  match nth_error (ctxs s) 0 with Some x => negb (c_closed x) && negb (k_closed (sk s)) && c_inmap x && (c_ref x =? 0) | None => false end.

Lemma ctxmark_refuted : forall a b c d e,
  exists s, run (mkFixes a b c d e false) (init PhFini true true) w_ctxmark = Some s /\
            (exists r, nth_error (threads s) 2 = Some (AWaitCtxs :: r)) /\
            bad s = [] /\ no_internal_step (mkFixes a b c d e false) s /\ find_ctx s 0 = None.
Proof.
  intros a b c d e.
  assert (H: chk (mkFixes a b c d e false) (init PhFini true true) w_ctxmark (ctxmark_bad (mkFixes a b c d e false)) = true)
    by (destruct a, b, c, d, e; vm_compute; reflexivity).
  apply chk_run in H as (s & Hr & Hb). exists s; split; auto.
  unfold ctxmark_bad in Hb.
  apply andb_prop in Hb as [Hb H4]; apply andb_prop in Hb as [Hb H3]; apply andb_prop in Hb as [H1 H2].
  split; [destruct (nth_error (threads s) 2) as [[|[] r]|]; try discriminate H1; eauto|].
  split; [unfold nat_list_eqb in H2; destruct (list_eq_dec Nat.eq_dec (bad s) []); [auto|discriminate H2]|].
  split; [apply no_step_b_sound; auto|].
  unfold find_ctx. destruct (nth_error (ctxs s) 0) as [x|]; [|discriminate H4].
  apply andb_prop in H4 as [H4 _]; apply andb_prop in H4 as [H4 Hm]; apply andb_prop in H4 as [Hc Hk].
  rewrite Hm. destruct (c_closed x); [discriminate Hc|]. destruct (k_closed (sk s)); [discriminate Hk|]. reflexivity.
Qed.

(* pipes, every repair applied: nng_pipe_close only marks the pipe and queues it for the reaper; when
   it returns the id is still in the map (it is removed in pipe_reap after the REM_POST callback):
   a further call finds the -- still allocated, closed -- pipe. *)
Definition w_pipe : list label :=
  [LSpawn (UEpCreate false)] ++ runs 0 5 ++ [LPipeCreate 0; LRun 1; LSpawn (UPipeClose 0)] ++ runs 2 4.

Definition pipe_ret (s : st) : bool :=
  existsb (fun r => match r with (UPipeClose 0, rv, _) => N.eqb rv C_OK | _ => false end) (rets s).

Definition pipe_bad (s : st) : bool :=
  pipe_ret s && is_none (find_pipe s 0) &&
  match nth_error (pipes s) 0 with Some x => p_closed x && negb (p_freed x) | None => false end.

Lemma pipe_handle_witness :
  exists s, run fixes_all (init PhProto false false) w_pipe = Some s /\
            (exists ro, In (UPipeClose 0, C_OK, ro) (rets s)) /\ find_pipe s 0 = None /\
            (exists x, nth_error (pipes s) 0 = Some x /\ p_closed x = true /\ p_freed x = false).
Proof.
  assert (H: chk fixes_all (init PhProto false false) w_pipe pipe_bad = true) by (vm_compute; reflexivity).
  apply chk_run in H as (s & Hr & Hb). exists s; split; auto.
  unfold pipe_bad in Hb. apply andb_prop in Hb as [Hb H3]; apply andb_prop in Hb as [H1 H2].
  split.
  - unfold pipe_ret in H1; rewrite existsb_exists in H1. destruct H1 as [[[u rv] ro] [Hin H]].
    destruct u; try discriminate H. destruct p; try discriminate H. apply N.eqb_eq in H; subst. eauto.
  - split; [destruct (find_pipe s 0); [discriminate H2|auto]|].
    destruct (nth_error (pipes s) 0) as [x|]; [|discriminate H3]. exists x.
    apply andb_prop in H3 as [Ha Hb]. repeat split; auto. destruct (p_freed x); [discriminate Hb|auto].
Qed.

(* three concurrent closers, every repair applied: the third finds s_closing and s_closed set and
   returns 0 while the first has not closed the endpoints yet. *)
Definition w_late : list label :=
  [LSpawn (UEpCreate true)] ++ runs 0 5 ++ [LSpawn USockClose; LSpawn USockClose; LSpawn USockClose] ++
  runs 1 2 ++ runs 2 2 ++ [LRun 3; LRun 2] ++ runs 3 4.

Definition late_bad (s : st) : bool :=
  sock_ret R_LATE s && is_none (find_ep s 0) && nat_list_eqb (bad s) [] &&
  match nth_error (eps s) 0 with Some x => e_pub x | None => false end.

Lemma late_closer_witness :
  exists s, run fixes_all (init PhProto false false) w_late = Some s /\
            In (USockClose, C_OK, R_LATE) (rets s) /\ find_ep s 0 = None /\ bad s = [] /\
            (exists x, nth_error (eps s) 0 = Some x /\ e_pub x = true).
Proof.
  assert (H: chk fixes_all (init PhProto false false) w_late late_bad = true) by (vm_compute; reflexivity).
  apply chk_run in H as (s & Hr & Hb). exists s; split; auto.
  unfold late_bad in Hb. apply andb_prop in Hb as [Hb H4]; apply andb_prop in Hb as [Hb H3]; apply andb_prop in Hb as [H1 H2].
  split; [apply sock_ret_In; auto|].
  split; [destruct (find_ep s 0); [discriminate H2|auto]|].
  split; [unfold nat_list_eqb in H3; destruct (list_eq_dec Nat.eq_dec (bad s) []); [auto|discriminate H3]|].
  destruct (nth_error (eps s) 0) as [x|]; [|discriminate H4]. eauto.
Qed.

(* ================================================================ Part 2: lists *)

Lemma upd_length {A} (l : list A) i f : length (upd l i f) = length l.
Proof. revert i; induction l; intros [|i]; simpl; auto. Qed.

Lemma nth_upd_eq {A} (l : list A) i f x : nth_error l i = Some x -> nth_error (upd l i f) i = Some (f x).
Proof. revert i; induction l; intros [|i]; simpl; try discriminate; auto. intros H; injection H as ->; auto. Qed.

Lemma nth_upd_neq {A} (l : list A) i j f : i <> j -> nth_error (upd l i f) j = nth_error l j.
Proof. revert i j; induction l; intros [|i] [|j] H; simpl; auto; try congruence. Qed.

Lemma nth_upd_none {A} (l : list A) i f : nth_error l i = None -> upd l i f = l.
Proof. revert i; induction l; intros [|i]; simpl; auto; try discriminate. intros; f_equal; auto. Qed.

Lemma nth_upd {A} (l : list A) i j f :
  nth_error (upd l i f) j = if Nat.eq_dec i j then option_map f (nth_error l j) else nth_error l j.
Proof.
  destruct (Nat.eq_dec i j) as [->|]; [|apply nth_upd_neq; auto].
  destruct (nth_error l j) eqn:E; simpl; [eapply nth_upd_eq; eauto|].
  rewrite nth_upd_none; auto.
Qed.

Lemma Forall_upd {A} (P : A -> Prop) (l : list A) i f :
  (forall x, P x -> P (f x)) -> Forall P l -> Forall P (upd l i f).
Proof.
  intros Hf; revert i; induction l; intros [|i] H; simpl; auto; inversion H; subst; constructor; auto.
Qed.

Lemma Forall_app1 {A} (P : A -> Prop) (l : list A) x : Forall P l -> P x -> Forall P (l ++ [x]).
Proof. intros; apply Forall_app; split; auto. Qed.

Lemma Forall_nth {A} (P : A -> Prop) (l : list A) i x : Forall P l -> nth_error l i = Some x -> P x.
Proof. intros H E; eapply Forall_forall in H; eauto. eapply nth_error_In; eauto. Qed.

Definition sum {A} (f : A -> nat) (l : list A) : nat := fold_right (fun x a => f x + a) 0 l.

Lemma sum_app {A} (f : A -> nat) l1 l2 : sum f (l1 ++ l2) = sum f l1 + sum f l2.
Proof. induction l1; simpl; lia. Qed.

Lemma sum_upd {A} (g : A -> nat) (l : list A) i f x :
  nth_error l i = Some x -> sum g (upd l i f) + g x = sum g l + g (f x).
Proof. revert i; induction l; intros [|i]; simpl; try discriminate. intros H; injection H as ->; lia. intros H; specialize (IHl _ H); lia. Qed.

Lemma sum_upd_none {A} (g : A -> nat) (l : list A) i f : nth_error l i = None -> sum g (upd l i f) = sum g l.
Proof. intros; rewrite nth_upd_none; auto. Qed.

Lemma sum_le {A} (f g : A -> nat) l : (forall x, f x <= g x) -> sum f l <= sum g l.
Proof. intros H; induction l; simpl; auto. specialize (H a); lia. Qed.

Lemma sum_map {A B} (g : B -> nat) (h : A -> B) l : sum g (map h l) = sum (fun x => g (h x)) l.
Proof. induction l; simpl; auto. Qed.
