(* DialerProofs: lemmas about Core/DialerModel.v (statements repeated in Props/Properties_C14.v). *)
From Coq Require Import List Arith NArith ZArith Bool Lia.
From NngV Require Import Core.DialerModel.
Import ListNotations.
Local Open Scope Z_scope.

(* ------------------------------------------------------------------ the single token *)
Definition DInv (d : dialer) : Prop :=
  g_clash d = false /\ (tokens d <= 1)%nat /\
  (d_started d = false -> tokens d = 0%nat) /\
  (d_closed d = false -> d_tmo_done d = None \/ d_tmo_done d = Some D_OK) /\
  (d_closed d = true -> d_tmo d = None /\ d_conn d = false) /\
  (d_started d = true -> d_closed d = false -> g_lost d = false -> tokens d = 1%nat).

Ltac dcases := repeat match goal with
  | |- context [match ?x with _ => _ end] => destruct x eqn:?
  | H : context [match ?x with _ => _ end] |- _ => destruct x eqn:?
  end.

Ltac tdfix := try match goal with
  | TD : false = false -> Some ?r = None \/ Some ?r = Some D_OK |- _ =>
      let X := fresh in destruct (TD eq_refl) as [X|X]; [discriminate X|inversion X; subst; clear TD]
  end.

Ltac dfin := tdfix; simpl in *; repeat split; intros; try discriminate; try congruence; try lia;
  try (intuition (try discriminate; try congruence; try lia); fail).

Lemma dinit_DInv : forall i m, DInv (dialer_init i m).
Proof. intros. unfold DInv, dialer_init, tokens; simpl. repeat split; intros; auto; discriminate. Qed.

Lemma dstep_DInv : forall fixmax wide d o, DInv d -> DInv (dstep fixmax wide d o).
Proof.
  intros fixmax wide [inir maxr curr pipe closed started user tmo tmod conn connd att dls ovf clash lost ures] o.
  unfold DInv, tokens; simpl. intros (C & T & S0 & TD & CL & LV).
  subst clash.
  destruct o as [u | rv p | rnd | | | p rnd | v | v | ]; simpl.
  - (* DStart *)
    destruct started; [dfin|]. specialize (S0 eq_refl).
    unfold connect_start; simpl.
    destruct closed, pipe, tmo, conn, connd; simpl in *; try lia;
      destruct tmod as [r|]; simpl in *; try (destruct (N.eqb r D_OK) eqn:?; simpl in *); try lia; dfin.
  - (* DConnDone *)
    destruct conn; [|dfin].
    destruct closed, pipe, tmo, connd, started; simpl in *; try lia;
      destruct tmod as [r|]; simpl in *; try (destruct (N.eqb r D_OK) eqn:?; simpl in *); try lia; dfin.
  - (* DConnCb *)
    destruct connd as [[rv p]|]; [|dfin].
    destruct (dialer_connect_class rv); simpl.
    + destruct closed, pipe, tmo, conn, started; simpl in *; try lia;
        destruct tmod as [r|]; simpl in *; try (destruct (N.eqb r D_OK) eqn:?; simpl in *); try lia; dfin.
    + destruct closed, pipe, tmo, conn, started, lost; simpl in *; try lia;
        destruct tmod as [r|]; simpl in *; try (destruct (N.eqb r D_OK) eqn:?; simpl in *); try lia; dfin.
    + destruct user; simpl.
      * destruct closed, pipe, tmo, conn, started; simpl in *; try lia;
          destruct tmod as [r|]; simpl in *; try (destruct (N.eqb r D_OK) eqn:?; simpl in *); try lia; dfin.
      * unfold timer_start; simpl. destruct (backoff_next wide curr maxr) as [c' ov].
        destruct closed; simpl;
        destruct pipe, tmo, conn, started; simpl in *; try lia;
          destruct tmod as [r|]; simpl in *; try (destruct (N.eqb r D_OK) eqn:?; simpl in *); try lia; dfin.
  - (* DTimerFire *)
    destruct tmo as [dl|]; [|dfin]. destruct (dl =? -1); [dfin|].
    destruct closed, pipe, conn, connd, started; simpl in *; try lia;
      destruct tmod as [r|]; simpl in *; try (destruct (N.eqb r D_OK) eqn:?; simpl in *); try lia; dfin.
  - (* DTimerCb *)
    destruct tmod as [r|]; [|dfin].
    destruct (N.eqb r D_OK) eqn:E; simpl.
    + unfold connect_start; simpl.
      destruct closed, pipe, tmo, conn, connd, started; simpl in *; try lia; dfin.
    + destruct closed; [|exfalso; destruct (TD eq_refl) as [X|X]; [discriminate|inversion X; subst; discriminate]].
      destruct pipe, tmo, conn, connd, started; simpl in *; try lia; dfin.
  - (* DPipeRemoved *)
    destruct pipe as [q|]; [|dfin]. destruct (Nat.eqb p q); [|dfin].
    unfold timer_start; simpl. destruct (backoff_next wide curr maxr) as [c' ov].
    destruct closed; simpl;
      destruct tmo, conn, connd, started; simpl in *; try lia;
      destruct tmod as [r|]; simpl in *; try (destruct (N.eqb r D_OK) eqn:?; simpl in *); try lia; dfin.
  - destruct (v <? -1); dfin.
  - destruct (v <? -1); dfin.
  - (* DClose *)
    destruct closed; [dfin|].
    destruct pipe, tmo, conn, connd, started; simpl in *; try lia;
      destruct tmod as [r|]; simpl in *; try (destruct (N.eqb r D_OK) eqn:?; simpl in *); try lia; dfin.
Qed.

Lemma drun_DInv : forall fixmax wide ops d, DInv d -> DInv (drun fixmax wide d ops).
Proof. induction ops; intros; simpl; auto. apply IHops. apply dstep_DInv; auto. Qed.

(* ------------------------------------------------------------------ arithmetic of the back-off *)
Lemma draw_delay_range : forall b rnd, 0 <= b <= INT32_MAX ->
  0 <= draw_delay b rnd /\ (b = 0 -> draw_delay b rnd = 0) /\ (0 < b -> draw_delay b rnd < b).
Proof.
  intros b rnd [B0 B1]. unfold draw_delay, INT32_MAX in *.
  destruct (Z.eqb_spec b 0); [subst; repeat split; intros; lia|].
  assert (Ub : to_u32 b = b) by (unfold to_u32; apply Z.mod_small; lia).
  rewrite Ub.
  assert (R : 0 <= to_u32 rnd mod b < b) by (apply Z.mod_pos_bound; lia).
  assert (I : to_i32 (to_u32 rnd mod b) = to_u32 rnd mod b).
  { unfold to_i32. rewrite Z.mod_small by lia. destruct (Z.ltb_spec (to_u32 rnd mod b) 2147483648); lia. }
  rewrite I. repeat split; intros; lia.
Qed.

Lemma backoff_next_range : forall wide inir maxr curr,
  cfg_ok wide inir maxr -> 0 <= curr <= Z.max inir maxr ->
  snd (backoff_next wide curr maxr) = false /\
  0 <= fst (backoff_next wide curr maxr) <= Z.max inir maxr.
Proof.
  intros wide inir maxr curr (I & M & W) [C0 C1]. unfold backoff_next, INT32_MAX, HALF32 in *.
  destruct (Z.ltb_spec 0 maxr); [|simpl; split; auto; lia].
  destruct wide.
  - simpl. split; auto. destruct (Z.ltb_spec (maxr / 2) curr); [lia|].
    assert (2 * (maxr / 2) <= maxr) by (apply Z.mul_div_le; lia). lia.
  - destruct W as [W|[W|[W1 W2]]]; [discriminate|lia|].
    assert (curr * 2 <= 2147483646) by lia.
    destruct (Z.ltb_spec 2147483647 (curr * 2)); [lia|].
    destruct (Z.ltb_spec (curr * 2) (-2147483648)); [lia|]. simpl.
    split; auto. destruct (Z.ltb_spec maxr (curr * 2)); lia.
Qed.

Definition delay_ok (x : Z * Z * Z) : Prop :=
  let '(dl, i, m) := x in 0 <= dl /\ (dl < Z.max i m \/ (dl = 0 /\ Z.max i m = 0)).

Definition BInv (wide : bool) (d : dialer) : Prop :=
  cfg_ok wide (d_inir d) (d_maxr d) /\ 0 <= d_curr d <= Z.max (d_inir d) (d_maxr d) /\
  g_ovf d = false /\ Forall delay_ok (g_delays d).

Lemma timer_start_BInv : forall wide d rnd, BInv wide d -> BInv wide (timer_start wide d rnd).
Proof.
  intros wide d rnd (CF & CU & OV & DL). unfold timer_start.
  destruct (backoff_next_range wide _ _ _ CF CU) as [B1 B2].
  destruct (backoff_next wide (d_curr d) (d_maxr d)) as [c' ovf]. simpl in B1, B2. subst ovf.
  assert (R : 0 <= d_curr d <= INT32_MAX).
  { destruct CF as (I & M & _). split; [lia|]. apply Z.le_trans with (Z.max (d_inir d) (d_maxr d)); lia. }
  destruct (draw_delay_range (d_curr d) rnd R) as (D0 & D1 & D2).
  assert (DO : delay_ok (draw_delay (d_curr d) rnd, d_inir d, d_maxr d)).
  { unfold delay_ok. split; auto.
    destruct (Z.eq_dec (d_curr d) 0) as [Z0|NZ].
    - rewrite (D1 Z0). destruct (Z.eq_dec (Z.max (d_inir d) (d_maxr d)) 0); [right; auto|left; lia].
    - left. assert (P : 0 < d_curr d) by lia. specialize (D2 P). lia. }
  destruct (d_closed d); unfold BInv; simpl; rewrite OV; (split; [exact CF|split; [lia|split; [reflexivity|]]]).
  - exact DL.
  - constructor; auto.
Qed.

Lemma dstep_BInv : forall fixmax wide d o, op_cov fixmax wide d o -> BInv wide d -> BInv wide (dstep fixmax wide d o).
Proof.
  intros fixmax wide d o COV H. pose proof H as (CF & CU & OV & DL). pose proof CF as (I0 & M0 & W0).
  destruct o as [u | rv p | rnd | | | p rnd | v | v | ]; simpl.
  - destruct (d_started d); auto. unfold connect_start; simpl. destruct (d_closed d); unfold BInv; simpl; auto.
  - destruct (d_conn d); auto.
  - destruct (d_conn_done d) as [[rv p]|]; auto.
    destruct (dialer_connect_class rv).
    + unfold BInv; simpl. repeat split; auto; try lia.
    + unfold BInv; simpl; auto.
    + destruct (d_user d); [unfold BInv; simpl; auto|]. apply timer_start_BInv. unfold BInv; simpl; auto.
  - destruct (d_tmo d); auto. destruct (z =? -1); auto.
  - destruct (d_tmo_done d); auto. destruct (N.eqb n D_OK); [|unfold BInv; simpl; auto].
    unfold connect_start; simpl. destruct (d_closed d); unfold BInv; simpl; auto.
  - destruct (d_pipe d); auto. destruct (Nat.eqb p n); auto. apply timer_start_BInv. unfold BInv; simpl; auto.
  - simpl in COV. destruct (Z.ltb_spec v (-1)); auto. unfold BInv; simpl. destruct COV as (I & M & W).
    repeat split; auto; lia.
  - simpl in COV. destruct (Z.ltb_spec v (-1)); auto. destruct COV as [(I & M & W) CV]. unfold BInv; simpl.
    repeat split; auto; try lia; destruct fixmax; try lia; destruct CV as [X|X]; try discriminate; lia.
  - destruct (d_closed d); auto.
Qed.

Theorem delay_bounded : forall fixmax wide inir maxr ops d,
  cfg_ok wide inir maxr -> drun_cov fixmax wide (dialer_init inir maxr) ops ->
  d = drun fixmax wide (dialer_init inir maxr) ops ->
  g_ovf d = false /\ 0 <= d_curr d <= Z.max (d_inir d) (d_maxr d) /\
  forall dl i m, In (dl, i, m) (g_delays d) -> 0 <= dl /\ (dl < Z.max i m \/ (dl = 0 /\ Z.max i m = 0)).
Proof.
  intros fixmax wide inir maxr ops d CF COV ->.
  assert (B : forall ops d0, BInv wide d0 -> drun_cov fixmax wide d0 ops -> BInv wide (drun fixmax wide d0 ops)).
  { induction ops0 as [|o r IH]; intros d0 H C; simpl in *; auto. destruct C as [C1 C2]. apply IH; auto.
    apply dstep_BInv; auto. }
  assert (B0 : BInv wide (dialer_init inir maxr)).
  { pose proof CF as (I0 & M0 & W0). unfold BInv, dialer_init; simpl. repeat split; auto; try lia. }
  destruct (B ops _ B0 COV) as (_ & CU & OV & DL). split; [exact OV|split; [exact CU|]].
  intros dl i m H. rewrite Forall_forall in DL. specialize (DL _ H). simpl in DL. exact DL.
Qed.

(* the condition on a lowered maximum is exact (pinned form): if d_currtime exceeds both configured
   times after the change, the very next draw can reach d_currtime - 1 *)
Theorem uncovered_change_exceeds : forall wide d v,
  0 <= v -> Z.max (d_inir d) v < d_curr d <= INT32_MAX -> d_closed d = false ->
  exists rnd, forall d', d' = timer_start wide (dstep false wide d (DSetMax v)) rnd ->
    exists dl, hd_error (g_delays d') = Some (dl, d_inir d, v) /\ Z.max (d_inir d) v <= dl.
Proof.
  intros wide d v V [C0 C1] NC. exists (d_curr d - 1). intros d' ->.
  simpl. destruct (Z.ltb_spec v (-1)); [lia|]. unfold timer_start; simpl.
  destruct (backoff_next wide (d_curr d) v) as [c' ovf]. rewrite NC. simpl.
  exists (draw_delay (d_curr d) (d_curr d - 1)). split; auto.
  unfold draw_delay, INT32_MAX in *. destruct (Z.eqb_spec (d_curr d) 0); [lia|].
  assert (P : 0 < d_curr d) by lia.
  unfold to_u32. rewrite (Z.mod_small (d_curr d - 1)) by lia. rewrite (Z.mod_small (d_curr d)) by lia.
  rewrite (Z.mod_small (d_curr d - 1) (d_curr d)) by lia.
  unfold to_i32. rewrite Z.mod_small by lia. destruct (Z.ltb_spec (d_curr d - 1) 2147483648); lia.
Qed.

(* a lowered, non-zero maximum is in force again after one more timer start *)
Theorem lowered_max_recovers : forall d v rnd,
  0 < v <= HALF32 -> 0 <= d_curr d <= HALF32 ->
  d_curr (timer_start false (dstep false false d (DSetMax v)) rnd) <= v.
Proof.
  intros d v rnd [V0 V1] [C0 C1]. simpl. destruct (Z.ltb_spec v (-1)); [lia|]. unfold timer_start; simpl.
  unfold backoff_next, HALF32, INT32_MAX in *. destruct (Z.ltb_spec 0 v); [|lia].
  destruct (Z.ltb_spec 2147483647 (d_curr d * 2)); [lia|]. destruct (Z.ltb_spec (d_curr d * 2) (-2147483648)); [lia|].
  simpl. destruct (d_closed d); simpl; destruct (Z.ltb_spec v (d_curr d * 2)); lia.
Qed.

(* ------------------------------------------------------------------ progress *)
Theorem pipe_loss_arms_timer : forall fixmax wide d p rnd,
  DInv d -> d_pipe d = Some p -> d_closed d = false ->
  let d' := dstep fixmax wide d (DPipeRemoved p rnd) in
  d_pipe d' = None /\ d_tmo d' = Some (draw_delay (d_curr d) rnd) /\ g_clash d' = false.
Proof.
  intros fixmax wide d p rnd I P NC d'. pose proof (dstep_DInv fixmax wide d (DPipeRemoved p rnd) I) as (C' & _).
  subst d'. split; [|split; auto]; simpl; rewrite P, Nat.eqb_refl; unfold timer_start; simpl;
    destruct (backoff_next wide (d_curr d) (d_maxr d)); rewrite NC; reflexivity.
Qed.

Theorem failed_dial_arms_timer : forall fixmax wide d rv q rnd,
  DInv d -> d_conn_done d = Some (rv, q) -> dialer_connect_class rv = DcRetry -> d_user d = false ->
  d_closed d = false ->
  let d' := dstep fixmax wide d (DConnCb rnd) in
  d_tmo d' = Some (draw_delay (d_curr d) rnd) /\ g_clash d' = false /\ d_started d' = d_started d.
Proof.
  intros fixmax wide d rv q rnd I P CLS U NC d'. pose proof (dstep_DInv fixmax wide d (DConnCb rnd) I) as (C' & _).
  subst d'. split; [|split; auto]; simpl; rewrite P, CLS, U; unfold timer_start; simpl;
    destruct (backoff_next wide (d_curr d) (d_maxr d)); rewrite NC; reflexivity.
Qed.

Theorem timer_expiry_dials : forall fixmax wide d dl,
  DInv d -> d_tmo d = Some dl -> dl <> -1 ->
  let d' := dstep fixmax wide (dstep fixmax wide d DTimerFire) DTimerCb in
  d_conn d' = true /\ g_att d' = S (g_att d) /\ g_clash d' = false /\ d_tmo d' = None.
Proof.
  intros fixmax wide d dl I T NI d'.
  pose proof (dstep_DInv fixmax wide _ DTimerCb (dstep_DInv fixmax wide d DTimerFire I)) as (C' & _).
  destruct I as (_ & _ & _ & _ & CL & _).
  assert (NC : d_closed d = false).
  { destruct (d_closed d) eqn:X; auto. destruct (CL eq_refl) as [Y _]. rewrite T in Y. discriminate. }
  subst d'. repeat split; auto; simpl; rewrite T; destruct (Z.eqb_spec dl (-1)); try lia; simpl;
    unfold connect_start; simpl; rewrite NC; reflexivity.
Qed.

(* ------------------------------------------------------------------ witnesses *)
Definition fail_round (rnd : Z) : list dop := [DConnDone 6%N O; DConnCb rnd; DTimerFire; DTimerCb].
Definition midchange_run : list dop :=
  [DStart false] ++ fail_round 0 ++ fail_round 0 ++ fail_round 0 ++ fail_round 0 ++ fail_round 0 ++ fail_round 0 ++
  fail_round 0 ++ [DSetMax 0; DConnDone 6%N O; DConnCb 999].

Lemma midchange_witness :
  hd_error (g_delays (drun false false (dialer_init 10 1000) midchange_run)) = Some (999, 10, 0).
Proof. vm_compute. reflexivity. Qed.

Lemma midchange_fixed :
  hd_error (g_delays (drun true false (dialer_init 10 1000) midchange_run)) = Some (9, 10, 0).
Proof. vm_compute. reflexivity. Qed.

Definition overflow_run : list dop := [DStart false; DConnDone 6%N O; DConnCb 0].
Lemma overflow_witness : g_ovf (drun false false (dialer_init 1073741824 2147483647) overflow_run) = true.
Proof. vm_compute. reflexivity. Qed.
Lemma overflow_fixed : g_ovf (drun false true (dialer_init 1073741824 2147483647) overflow_run) = false /\
  d_curr (drun false true (dialer_init 1073741824 2147483647) overflow_run) = 2147483647.
Proof. vm_compute. split; reflexivity. Qed.

(* ------------------------------------------------------------------ the repaired form: every history *)
Definition op_in_range (o : dop) : Prop :=
  match o with DSetMin v | DSetMax v => 0 <= v <= INT32_MAX | _ => True end.

Lemma in_range_cov : forall d o, BInv true d -> op_in_range o -> op_cov true true d o.
Proof.
  intros d o ((I & M & W) & _) R. destruct o; simpl in *; auto.
  - unfold cfg_ok. repeat split; try lia; auto.
  - split; [|left; reflexivity]. unfold cfg_ok. repeat split; try lia; auto.
Qed.

Theorem delay_bounded_repaired : forall inir maxr ops d,
  0 <= inir <= INT32_MAX -> 0 <= maxr <= INT32_MAX -> Forall op_in_range ops ->
  d = drun true true (dialer_init inir maxr) ops ->
  g_ovf d = false /\ 0 <= d_curr d <= Z.max (d_inir d) (d_maxr d) /\
  forall dl i m, In (dl, i, m) (g_delays d) -> 0 <= dl /\ (dl < Z.max i m \/ (dl = 0 /\ Z.max i m = 0)).
Proof.
  intros inir maxr ops d RI RM F ->.
  assert (B : forall ops d0, BInv true d0 -> Forall op_in_range ops -> BInv true (drun true true d0 ops)).
  { induction ops0 as [|o r IH]; intros d0 H C; simpl in *; auto. inversion C; subst. apply IH; auto.
    apply dstep_BInv; auto. apply in_range_cov; auto. }
  assert (B0 : BInv true (dialer_init inir maxr)).
  { unfold BInv, dialer_init, cfg_ok; simpl. repeat split; auto; try lia. }
  destruct (B ops _ B0 F) as (_ & CU & OV & DL). split; [exact OV|split; [exact CU|]].
  intros dl i m H. rewrite Forall_forall in DL. specialize (DL _ H). simpl in DL. exact DL.
Qed.
