(* AioProofs: invariants of every reachable state of AioModel, for every interleaving. *)
From Coq Require Import List Arith NArith Bool Lia.
From NngV Require Import Core.AioModel.
Import ListNotations.

Ltac simp_a := cbn [a_stop a_abort a_expiring a_expire_ok a_sleep a_cancel a_on_eq a_expire a_result
                    t_busy t_prep t_queued t_running p_owns p_sleep g_subs g_cbs g_fin g_bad_result g_early
                    g_stop_returned g_cb_after_stop g_subs_at_stop threads upd_threads a_done] in *.

Definition tok_act (a : pact) : nat := match a with PFinish _ | PDispatch => 1 | _ => 0 end.
Fixpoint tok_thread (t : list pact) : nat := match t with [] => 0 | a :: r => tok_act a + tok_thread r end.
Fixpoint tok_threads (ts : list (list pact)) : nat := match ts with [] => 0 | t :: r => tok_thread t + tok_threads r end.
Definition tokens (s : aio) : nat := (if p_owns s then 1 else 0) + tok_threads (threads s).

Lemma tok_thread_app a b : tok_thread (a ++ b) = tok_thread a + tok_thread b.
Proof. induction a; cbn; lia. Qed.
Lemma tok_threads_app a b : tok_threads (a ++ b) = tok_threads a + tok_threads b.
Proof. induction a; cbn; lia. Qed.
Lemma tok_replace ts : forall k t x, nth_error ts k = Some t ->
  tok_threads (replace_nth ts k x) + tok_thread t =
  tok_threads ts + match x with Some t' => tok_thread t' | None => 0 end.
Proof.
  induction ts as [|t0 r IH]; intros k t x H; destruct k; cbn in *; try discriminate.
  - inversion H; subst. destruct x; cbn; lia.
  - specialize (IH k t x H). lia.
Qed.

Lemma tok_in_threads ts a rest : In (a :: rest) ts -> tok_act a = 1 -> 1 <= tok_threads ts.
Proof.
  induction ts as [|t r IH]; intros Hin Ha; [destruct Hin|]. cbn.
  destruct Hin as [->|Hin]; [cbn; lia|]. specialize (IH Hin Ha). lia.
Qed.

Lemma spawn_threads s k : threads (spawn s k) = match k with [] => threads s | _ => threads s ++ [k] end.
Proof. destruct k; reflexivity. Qed.
Lemma tok_spawn s k : tok_threads (threads (spawn s k)) = tok_threads (threads s) + tok_thread k.
Proof. rewrite spawn_threads. destruct k; [cbn; lia|]. rewrite tok_threads_app. cbn. lia. Qed.

Lemma existsb_tok_thread t :
  existsb (fun a => match a with PFinish _ | PDispatch => true | _ => false end) t = negb (tok_thread t =? 0).
Proof. induction t as [|a r IH]; cbn; [reflexivity|]. destruct a; cbn; auto. Qed.
Lemma existsb_tok_threads ts :
  existsb (fun t => existsb (fun a => match a with PFinish _ | PDispatch => true | _ => false end) t) ts
  = negb (tok_threads ts =? 0).
Proof.
  induction ts as [|t r IH]; cbn; [reflexivity|]. rewrite IH, existsb_tok_thread.
  destruct (tok_thread t); destruct (tok_threads r); reflexivity.
Qed.
Lemma outstanding_false s : outstanding s = false <-> tokens s = 0 /\ t_queued s = 0.
Proof.
  unfold outstanding, tokens. rewrite existsb_tok_threads.
  destruct (p_owns s); destruct (t_queued s); destruct (tok_threads (threads s)); cbn; split; intros; try lia; try discriminate; auto.
Qed.

(* accounting invariant: every submission has exactly one completion token, which is
   with the provider, being finished, being dispatched, queued, or already ran *)
Definition Inv1 (s : aio) : Prop :=
  g_subs s = g_cbs s + t_queued s + tokens s /\
  t_busy s = (if t_prep s then 1 else 0) + t_queued s + t_running s /\
  tokens s + t_queued s <= 1 /\
  (t_prep s = true <-> tokens s = 1) /\
  (a_sleep s = true -> p_owns s = true /\ p_sleep s = true).

Lemma inv1_init : Inv1 aio_init.
Proof. unfold Inv1, tokens; cbn. repeat split; auto; try lia; intros; discriminate. Qed.

Section Fixed.
Variable fixed : bool.
Variable fdone : bool.

Ltac tok_simp := unfold tokens, spawn in *; cbn [app] in *; simp_a; rewrite ?tok_threads_app in *; cbn [tok_threads tok_thread tok_act app] in *.

Ltac inv5 := split; [|split; [|split; [|split; [split|]]]].
Ltac i4 I4 := try (intros P; apply I4 in P; lia); try (intros P; apply I4; lia).

Theorem inv1_step s l s' : Inv1 s -> astep fixed fdone s l = Some s' -> Inv1 s'.
Proof.
  intros (I1 & I2 & I3 & I4 & I5) H. unfold Inv1.
  destruct l as [zero dl sleep eok|rv|rv|now| | |k| | | ]; cbn [astep] in H.
  - (* LStart *)
    destruct (outstanding s) eqn:O; [discriminate|]. apply outstanding_false in O as [T0 Q0].
    assert (P0: t_prep s = false). { destruct (t_prep s) eqn:P; auto. destruct I4 as [I4 _]. specialize (I4 eq_refl). lia. }
    assert (O0: p_owns s = false). { unfold tokens in T0. destruct (p_owns s); auto. lia. }
    assert (TT: tok_threads (threads s) = 0). { unfold tokens in T0. rewrite O0 in T0. lia. }
    destruct (a_stop s); [|destruct (a_abort s); [|destruct zero]]; inversion H; subst; clear H;
      tok_simp; rewrite ?P0, ?Q0, ?TT in *; inv5; try lia; auto; try discriminate.
  - (* LProvFinish *)
    destruct (p_owns s && negb (p_sleep s)) eqn:E; [|discriminate]. apply andb_true_iff in E as [O NS].
    inversion H; subst; clear H. tok_simp. rewrite O in *. inv5; try lia; auto; i4 I4.
    intros SL. destruct (I5 SL) as [_ PS]. rewrite PS in NS. discriminate.
  - (* LAbort *)
    destruct (rv =? 0)%N; [discriminate|].
    destruct (a_cancel s); [|destruct (fdone && a_done s)]; inversion H; subst; clear H; tok_simp; inv5; try lia; auto; i4 I4;
      try (intros SL; apply I5 in SL; tauto).
  - (* LExpire: the scan only marks *)
    destruct (a_on_eq s && negb (a_expiring s)) eqn:OE; [|discriminate].
    destruct (negb match a_expire s with Some e => (e <? now)%N | None => false end); [discriminate|].
    inversion H; subst; clear H. tok_simp. inv5; try lia; auto; i4 I4.
  - (* LStop *)
    destruct (a_expiring s); [discriminate|]. inversion H; subst; clear H.
    destruct (a_cancel s); tok_simp; inv5; try lia; auto; i4 I4.
  - (* LClose *)
    inversion H; subst; clear H.
    destruct (a_cancel s); tok_simp; inv5; try lia; auto; i4 I4.
  - (* LRun k *)
    destruct (nth_error (threads s) k) as [[|a rest]|] eqn:N; try discriminate.
    destruct (run_pact fixed s a) as [[s1 more]|] eqn:R; [|discriminate]. inversion H; subst; clear H.
    pose proof (tok_replace (threads s) k (a :: rest)) as TR.
    unfold tokens in *.
    destruct a; cbn [run_pact] in R.
    + (* PDispatch *)
      assert (HP: t_prep s = true).
      { apply I4. pose proof (tok_in_threads (threads s) PDispatch rest (nth_error_In _ _ N) eq_refl). lia. }
      inversion R; subst s1 more; clear R. unfold do_dispatch in *. simp_a. cbn [app] in *.
      specialize (TR (match rest with [] => None | _ :: _ => Some rest end) N). cbn [tok_thread tok_act] in TR. rewrite HP in *.
      assert (E: tok_threads (replace_nth (threads s) k match rest with [] => None | _ :: _ => Some rest end) + 1 = tok_threads (threads s))
        by (destruct rest; cbn [tok_thread] in TR; lia).
      inv5; try lia; auto; try (intros; discriminate).
    + (* PFinish *)
      inversion R; subst s1 more; clear R. unfold do_finish in *. simp_a. cbn [app] in *.
      specialize (TR (Some (PDispatch :: rest)) N). cbn [tok_thread tok_act] in TR.
      inv5; try lia; auto; i4 I4; try discriminate.
    + (* PCallCancel *)
      unfold do_call_cancel in R. destruct (p_owns s) eqn:O; inversion R; subst s1 more; clear R; simp_a; cbn [app] in *.
      * specialize (TR (Some (PFinish rv :: rest)) N). cbn [tok_thread tok_act] in TR.
        rewrite ?O. inv5; try lia; auto; i4 I4.
        destruct (p_sleep s) eqn:PS; [discriminate|]. intros SL. destruct (I5 SL) as [_ X]. congruence.
      * specialize (TR (match rest with [] => None | _ :: _ => Some rest end) N). cbn [tok_thread tok_act] in TR.
        assert (E: tok_threads (replace_nth (threads s) k match rest with [] => None | _ :: _ => Some rest end) = tok_threads (threads s))
          by (destruct rest; cbn [tok_thread] in TR; lia).
        rewrite ?O. inv5; try lia; auto; i4 I4.
    + (* PExpireProc *)
      unfold do_expire_proc in R.
      destruct (fixed && negb match a_expire s with Some e => (e <? now)%N | None => false end).
      * inversion R; subst s1 more; clear R. simp_a. cbn [app] in *.
        specialize (TR (match rest with [] => None | _ :: _ => Some rest end) N). cbn [tok_thread tok_act] in TR.
        assert (E: tok_threads (replace_nth (threads s) k match rest with [] => None | _ :: _ => Some rest end) = tok_threads (threads s))
          by (destruct rest; cbn [tok_thread] in TR; lia).
        inv5; try lia; auto; i4 I4.
      * destruct (a_sleep s) eqn:SL; [|destruct (a_cancel s) eqn:C]; inversion R; subst s1 more; clear R; simp_a; cbn [app] in *.
        -- destruct (I5 eq_refl) as [O PS]. rewrite O in *.
           specialize (TR (Some (PDispatch :: rest)) N). cbn [tok_thread tok_act] in TR.
           inv5; try lia; auto; i4 I4; try discriminate.
        -- specialize (TR (Some (PCallCancel (if a_expire_ok s then A_OK else A_TIMEDOUT) :: PExpireDone :: rest)) N). cbn [tok_thread tok_act] in TR.
           inv5; try lia; auto; i4 I4; try discriminate.
        -- specialize (TR (match rest with [] => None | _ :: _ => Some rest end) N). cbn [tok_thread tok_act] in TR.
           assert (E: tok_threads (replace_nth (threads s) k match rest with [] => None | _ :: _ => Some rest end) = tok_threads (threads s))
             by (destruct rest; cbn [tok_thread] in TR; lia).
           inv5; try lia; auto; i4 I4; try discriminate.
    + (* PExpireDone *)
      inversion R; subst s1 more; clear R. simp_a. cbn [app] in *.
      specialize (TR (match rest with [] => None | _ :: _ => Some rest end) N). cbn [tok_thread tok_act] in TR.
      assert (E: tok_threads (replace_nth (threads s) k match rest with [] => None | _ :: _ => Some rest end) = tok_threads (threads s))
        by (destruct rest; cbn [tok_thread] in TR; lia).
      inv5; try lia; auto; i4 I4.
    + (* PStopWait *)
      destruct (t_busy s =? 0); inversion R; subst s1 more; clear R. simp_a. cbn [app] in *.
      specialize (TR (match rest with [] => None | _ :: _ => Some rest end) N). cbn [tok_thread tok_act] in TR.
      assert (E: tok_threads (replace_nth (threads s) k match rest with [] => None | _ :: _ => Some rest end) = tok_threads (threads s))
        by (destruct rest; cbn [tok_thread] in TR; lia).
      inv5; try lia; auto; i4 I4.
  - (* LRunCb *)
    destruct (t_queued s) as [|q] eqn:Q; [discriminate|]. inversion H; subst; clear H.
    tok_simp. inv5; try lia; auto; i4 I4.
  - (* LCbDone *)
    destruct (t_running s) as [|r] eqn:R; [discriminate|]. inversion H; subst; clear H.
    tok_simp. inv5; try lia; auto; i4 I4.
  - (* LReset *)
    destruct (outstanding s); [discriminate|]. inversion H; subst; clear H.
    tok_simp. inv5; try lia; auto; i4 I4; try discriminate.
Qed.

(* ---- stop: once nni_aio_stop has returned, every operation submitted before
        has had its callback, and none of them runs a callback afterwards ---- *)
Definition Inv2 (s : aio) : Prop :=
  (g_stop_returned s = true -> g_subs_at_stop s <= g_cbs s) /\ g_cb_after_stop s = false.

Lemma inv2_init : Inv2 aio_init.
Proof. split; [intros; discriminate|reflexivity]. Qed.

Theorem inv2_step s l s' : Inv1 s -> Inv2 s -> astep fixed fdone s l = Some s' -> Inv2 s'.
Proof.
  intros (I1 & I2 & I3 & I4 & I5) [J1 J2] H. unfold Inv2.
  destruct l as [zero dl sleep eok|rv|rv|now| | |k| | | ]; cbn [astep] in H.
  - destruct (outstanding s); [discriminate|].
    destruct (a_stop s); [|destruct (a_abort s); [|destruct zero]]; inversion H; subst; unfold spawn; simp_a; auto.
  - destruct (p_owns s && negb (p_sleep s)); inversion H; subst; unfold spawn; simp_a; auto.
  - destruct (rv =? 0)%N; [discriminate|]. destruct (a_cancel s); [|destruct (_ && a_done s)]; inversion H; subst; unfold spawn; simp_a; auto.
  - destruct (a_on_eq s && negb (a_expiring s)) eqn:OE; [|discriminate].
    destruct (negb match a_expire s with Some e => (e <? now)%N | None => false end); [discriminate|].
    inversion H; subst; unfold spawn; simp_a; auto.
  - destruct (a_expiring s); [discriminate|]. inversion H; subst. destruct (a_cancel s); unfold spawn; cbn [app]; simp_a; auto.
  - inversion H; subst. destruct (a_cancel s); unfold spawn; simp_a; auto.
  - destruct (nth_error (threads s) k) as [[|a rest]|] eqn:N; try discriminate.
    destruct (run_pact fixed s a) as [[s1 more]|] eqn:R; [|discriminate]. inversion H; subst; clear H. simp_a.
    destruct a; cbn [run_pact] in R.
    + inversion R; subst. unfold do_dispatch; simp_a. auto.
    + inversion R; subst. unfold do_finish; simp_a. auto.
    + unfold do_call_cancel in R. destruct (p_owns s); inversion R; subst; simp_a; auto.
    + unfold do_expire_proc in R.
      destruct (fixed && negb match a_expire s with Some e => (e <? now)%N | None => false end);
        [|destruct (a_sleep s); [|destruct (a_cancel s)]]; inversion R; subst; simp_a; auto.
    + inversion R; subst. simp_a. auto.
    + destruct (t_busy s =? 0) eqn:B; inversion R; subst; clear R. simp_a. split; auto. intros _.
      apply Nat.eqb_eq in B. destruct (t_prep s) eqn:P; [lia|].
      assert (tokens s <> 1) by (intros X; apply I4 in X; congruence). lia.
  - destruct (t_queued s) as [|q] eqn:Q; [discriminate|]. inversion H; subst; clear H. simp_a. split.
    + intros R. specialize (J1 R). lia.
    + rewrite J2. cbn [orb]. destruct (g_stop_returned s) eqn:R; cbn [andb]; [|reflexivity].
      specialize (J1 eq_refl). apply Nat.ltb_ge. exact J1.
  - destruct (t_running s); [discriminate|]. inversion H; subst. simp_a. auto.
  - destruct (outstanding s); [discriminate|]. inversion H; subst. simp_a. auto.
Qed.

(* ---- reachability ---- *)
Lemma arun_inv ls : forall s, Inv1 s -> Inv2 s -> forall s', arun fixed fdone s ls = Some s' -> Inv1 s' /\ Inv2 s'.
Proof.
  induction ls as [|l r IH]; intros s A B s' H; cbn [arun] in H.
  - inversion H; subst. auto.
  - destruct (astep fixed fdone s l) as [s1|] eqn:S; [|discriminate].
    eapply IH; [eapply inv1_step; eauto|eapply inv2_step; eauto|exact H].
Qed.

Theorem aio_exactly_once ls s : arun fixed fdone aio_init ls = Some s ->
  g_subs s = g_cbs s + t_queued s + tokens s /\ g_cbs s <= g_subs s /\ tokens s + t_queued s <= 1 /\
  t_busy s = (if t_prep s then 1 else 0) + t_queued s + t_running s.
Proof.
  intros H. destruct (arun_inv ls aio_init inv1_init inv2_init s H) as [(I1 & I2 & I3 & I4 & I5) _].
  repeat split; auto. lia.
Qed.

Theorem aio_stop_quiesces ls s : arun fixed fdone aio_init ls = Some s ->
  g_cb_after_stop s = false /\ (g_stop_returned s = true -> g_subs_at_stop s <= g_cbs s).
Proof.
  intros H. destruct (arun_inv ls aio_init inv1_init inv2_init s H) as [_ [J1 J2]]. auto.
Qed.

(* at the moment nni_aio_stop returns nothing is queued, running or in flight *)
Theorem aio_stop_return_state s k rest s' :
  Inv1 s -> nth_error (threads s) k = Some (PStopWait :: rest) -> astep fixed fdone s (LRun k) = Some s' ->
  t_queued s' = 0 /\ t_running s' = 0 /\ tokens s' = 0 /\ g_cbs s' = g_subs s' /\ a_stop s' = a_stop s.
Proof.
  intros (I1 & I2 & I3 & I4 & I5) N H. cbn [astep] in H. rewrite N in H. cbn [run_pact] in H.
  destruct (t_busy s =? 0) eqn:B; [|discriminate]. inversion H; subst; clear H. apply Nat.eqb_eq in B.
  destruct (t_prep s) eqn:P; [lia|].
  assert (T: tokens s <> 1) by (intros X; apply I4 in X; congruence).
  assert (T0: tokens s = 0) by lia.
  pose proof (tok_replace (threads s) k (PStopWait :: rest) (match rest with [] => None | _ :: _ => Some rest end) N) as X.
  unfold tokens in *. simp_a. cbn [app tok_thread tok_act] in *.
  assert (tok_threads (replace_nth (threads s) k match rest with [] => None | _ :: _ => Some rest end) <= tok_threads (threads s)).
  { destruct rest; cbn [tok_thread] in X; lia. }
  repeat split; try lia.
Qed.

(* ---- result consistency ---- *)
Definition dsp_act (a : pact) : nat := match a with PDispatch => 1 | _ => 0 end.
Fixpoint dsp_thread (t : list pact) : nat := match t with [] => 0 | a :: r => dsp_act a + dsp_thread r end.
Fixpoint dsp_threads (ts : list (list pact)) : nat := match ts with [] => 0 | t :: r => dsp_thread t + dsp_threads r end.
Lemma dsp_thread_app a b : dsp_thread (a ++ b) = dsp_thread a + dsp_thread b.
Proof. induction a; cbn; lia. Qed.
Lemma dsp_threads_app a b : dsp_threads (a ++ b) = dsp_threads a + dsp_threads b.
Proof. induction a; cbn; lia. Qed.
Lemma dsp_replace ts : forall k t x, nth_error ts k = Some t ->
  dsp_threads (replace_nth ts k x) + dsp_thread t =
  dsp_threads ts + match x with Some t' => dsp_thread t' | None => 0 end.
Proof.
  induction ts as [|t0 r IH]; intros k t x H; destruct k; cbn in *; try discriminate.
  - inversion H; subst. destruct x; cbn; lia.
  - specialize (IH k t x H). lia.
Qed.
Lemma dsp_le_tok_thread t : dsp_thread t <= tok_thread t.
Proof. induction t as [|a r IH]; cbn; [lia|]. destruct a; cbn; lia. Qed.
Lemma dsp_le_tok ts : dsp_threads ts <= tok_threads ts.
Proof. induction ts as [|t r IH]; cbn; [lia|]. pose proof (dsp_le_tok_thread t). lia. Qed.

(* the witness of the late-abort defect of the tree as it is: an abort that arrives
   after the operation has completed, but before its callback runs, changes the result *)
Definition late_abort_run : list alabel :=
  [LStart false None false false; LProvFinish 0; LRun 0; LAbort A_CANCELED; LRun 0; LRunCb].
Theorem aio_result_refuted :
  exists s, arun fixed false aio_init late_abort_run = Some s /\ g_bad_result s = true.
Proof. eexists. split; [vm_compute; reflexivity|reflexivity]. Qed.

(* an abort is "late" when the framework holds no cancel function and a completion is on its way *)
Definition not_late (s : aio) (l : alabel) : Prop :=
  match l with LAbort _ => a_cancel s = true \/ (fdone && a_done s = true) \/ g_fin s = None | _ => True end.

Definition InvR (s : aio) : Prop :=
  g_bad_result s = false /\
  (forall r, g_fin s = Some r -> a_result s = r) /\
  (g_fin s <> None <-> dsp_threads (threads s) + t_queued s = 1).

Lemma invR_init : InvR aio_init.
Proof. unfold InvR; cbn. repeat split; auto; try discriminate; try congruence; intros; try lia. Qed.

Lemma fin_in_threads ts rv rest : In (PFinish rv :: rest) ts -> dsp_threads ts + 1 <= tok_threads ts.
Proof.
  induction ts as [|t r IH]; intros Hin; [destruct Hin|]. cbn.
  destruct Hin as [->|Hin].
  - cbn. pose proof (dsp_le_tok_thread rest). pose proof (dsp_le_tok r). lia.
  - specialize (IH Hin). pose proof (dsp_le_tok_thread t). lia.
Qed.

Lemma owns_no_fin s : Inv1 s -> InvR s -> p_owns s = true -> g_fin s = None.
Proof.
  intros (I1 & I2 & I3 & I4 & I5) (_ & _ & J3) O. unfold tokens in I3. rewrite O in I3.
  pose proof (dsp_le_tok (threads s)).
  destruct (g_fin s) eqn:F; [|reflexivity].
  assert (X: dsp_threads (threads s) + t_queued s = 1) by (apply J3; congruence). lia.
Qed.

Ltac invr := split; [|split].

Theorem invR_step s l s' : Inv1 s -> InvR s -> not_late s l -> astep fixed fdone s l = Some s' -> InvR s'.
Proof.
  intros HI1 HR NL H. pose proof HI1 as (I1 & I2 & I3 & I4 & I5). pose proof HR as (J1 & J2 & J3).
  unfold InvR.
  destruct l as [zero dl sleep eok|rv|rv|now| | |k| | | ]; cbn [astep not_late] in *.
  - (* LStart *)
    destruct (outstanding s) eqn:O; [discriminate|]. apply outstanding_false in O as [T0 Q0].
    assert (D0: dsp_threads (threads s) = 0).
    { pose proof (dsp_le_tok (threads s)). unfold tokens in T0. destruct (p_owns s); lia. }
    destruct (a_stop s); [|destruct (a_abort s); [|destruct zero]]; inversion H; subst; clear H;
      unfold spawn; simp_a; rewrite ?dsp_threads_app; cbn [dsp_threads dsp_thread dsp_act];
      invr; auto; try (intros r E; inversion E; reflexivity); try (intros r E; discriminate);
      try (split; [intros _; rewrite D0, Q0; lia|intros _; discriminate]);
      try (split; [intros X; congruence|intros X; rewrite D0, Q0 in X; lia]).
  - (* LProvFinish *)
    destruct (p_owns s && negb (p_sleep s)); [|discriminate]. inversion H; subst; clear H.
    unfold spawn; simp_a. rewrite dsp_threads_app. cbn [dsp_threads dsp_thread dsp_act].
    invr; auto. rewrite !Nat.add_0_r. exact J3.
  - (* LAbort *)
    destruct (rv =? 0)%N; [discriminate|]. destruct (a_cancel s) eqn:C; [|destruct (fdone && a_done s) eqn:FD]; inversion H; subst; clear H.
    + unfold spawn; simp_a. rewrite dsp_threads_app. cbn [dsp_threads dsp_thread dsp_act].
      invr; auto. rewrite !Nat.add_0_r. exact J3.
    + simp_a. invr; auto.
    + destruct NL as [X|[X|F]]; [discriminate|discriminate|]. simp_a. invr; auto. intros r E. congruence.
  - (* LExpire *)
    destruct (a_on_eq s && negb (a_expiring s)) eqn:OE; [|discriminate].
    destruct (negb match a_expire s with Some e => (e <? now)%N | None => false end); [discriminate|].
    inversion H; subst; clear H. unfold spawn; simp_a. rewrite dsp_threads_app.
    cbn [dsp_threads dsp_thread dsp_act]. invr; auto. rewrite ?Nat.add_0_r. exact J3.
  - (* LStop *)
    destruct (a_expiring s); [discriminate|]. inversion H; subst; clear H.
    destruct (a_cancel s); unfold spawn; cbn [app]; simp_a; rewrite dsp_threads_app;
      cbn [dsp_threads dsp_thread dsp_act]; invr; auto; rewrite ?Nat.add_0_r; exact J3.
  - (* LClose *)
    inversion H; subst; clear H.
    destruct (a_cancel s); unfold spawn; simp_a; rewrite ?dsp_threads_app;
      cbn [dsp_threads dsp_thread dsp_act]; invr; auto; rewrite ?Nat.add_0_r; exact J3.
  - (* LRun *)
    destruct (nth_error (threads s) k) as [[|a rest]|] eqn:N; try discriminate.
    destruct (run_pact fixed s a) as [[s1 more]|] eqn:R; [|discriminate]. inversion H; subst; clear H. simp_a.
    pose proof (dsp_replace (threads s) k (a :: rest)) as DR.
    destruct a; cbn [run_pact] in R.
    + (* PDispatch *)
      inversion R; subst s1 more; clear R. unfold do_dispatch; simp_a. cbn [app].
      specialize (DR (match rest with [] => None | _ :: _ => Some rest end) N). cbn [dsp_thread dsp_act] in DR.
      invr; auto.
      assert (E: dsp_threads (replace_nth (threads s) k match rest with [] => None | _ :: _ => Some rest end) + 1 = dsp_threads (threads s)).
      { destruct rest; cbn [dsp_thread] in DR; lia. }
      split; intros X.
      * apply J3 in X. lia.
      * apply J3. lia.
    + (* PFinish *)
      inversion R; subst s1 more; clear R. unfold do_finish; simp_a. cbn [app].
      specialize (DR (Some (PDispatch :: rest)) N). cbn [dsp_thread dsp_act] in DR.
      pose proof (fin_in_threads (threads s) rv rest (nth_error_In _ _ N)) as FT.
      assert (F: g_fin s = None).
      { destruct (g_fin s) eqn:F; [|reflexivity].
        assert (X: dsp_threads (threads s) + t_queued s = 1) by (apply J3; congruence).
        unfold tokens in I3. destruct (p_owns s); lia. }
      rewrite F. invr; auto.
      * intros r E. inversion E. reflexivity.
      * split; [intros _|intros _; discriminate].
        assert (Z: dsp_threads (threads s) + t_queued s = 0).
        { unfold tokens in I3. destruct (p_owns s); lia. }
        lia.
    + (* PCallCancel *)
      unfold do_call_cancel in R. destruct (p_owns s) eqn:O; inversion R; subst s1 more; clear R; simp_a; cbn [app].
      * specialize (DR (Some (PFinish rv :: rest)) N). cbn [dsp_thread dsp_act] in DR.
        invr; auto. split; intros X; [apply J3 in X|apply J3]; lia.
      * specialize (DR (match rest with [] => None | _ :: _ => Some rest end) N). cbn [dsp_thread dsp_act] in DR.
        assert (E: dsp_threads (replace_nth (threads s) k match rest with [] => None | _ :: _ => Some rest end) = dsp_threads (threads s)).
        { destruct rest; cbn [dsp_thread] in DR; lia. }
        invr; auto. rewrite E. exact J3.
    + (* PExpireProc *)
      unfold do_expire_proc in R.
      destruct (fixed && negb match a_expire s with Some e => (e <? now)%N | None => false end).
      * inversion R; subst s1 more; clear R. simp_a. cbn [app].
        specialize (DR (match rest with [] => None | _ :: _ => Some rest end) N). cbn [dsp_thread dsp_act] in DR.
        assert (E: dsp_threads (replace_nth (threads s) k match rest with [] => None | _ :: _ => Some rest end) = dsp_threads (threads s)).
        { destruct rest; cbn [dsp_thread] in DR; lia. }
        invr; auto. rewrite E. exact J3.
      * destruct (a_sleep s) eqn:SL; [|destruct (a_cancel s) eqn:C]; inversion R; subst s1 more; clear R; simp_a; cbn [app].
        -- destruct (I5 eq_refl) as [O _]. pose proof (owns_no_fin s HI1 HR O) as F.
           assert (D0: dsp_threads (threads s) + t_queued s = 0).
           { unfold tokens in I3. rewrite O in I3. pose proof (dsp_le_tok (threads s)). lia. }
           specialize (DR (Some (PDispatch :: rest)) N). cbn [dsp_thread dsp_act] in DR.
           rewrite F. invr; auto.
           ++ intros r E. inversion E. reflexivity.
           ++ split; [intros _; lia|intros _; discriminate].
        -- specialize (DR (Some (PCallCancel (if a_expire_ok s then A_OK else A_TIMEDOUT) :: PExpireDone :: rest)) N).
           cbn [dsp_thread dsp_act] in DR.
           invr; auto. split; intros X; [apply J3 in X|apply J3]; lia.
        -- specialize (DR (match rest with [] => None | _ :: _ => Some rest end) N). cbn [dsp_thread dsp_act] in DR.
           assert (E: dsp_threads (replace_nth (threads s) k match rest with [] => None | _ :: _ => Some rest end) = dsp_threads (threads s)).
           { destruct rest; cbn [dsp_thread] in DR; lia. }
           invr; auto. rewrite E. exact J3.
    + inversion R; subst s1 more; clear R. simp_a. cbn [app].
      specialize (DR (match rest with [] => None | _ :: _ => Some rest end) N). cbn [dsp_thread dsp_act] in DR.
      assert (E: dsp_threads (replace_nth (threads s) k match rest with [] => None | _ :: _ => Some rest end) = dsp_threads (threads s)).
      { destruct rest; cbn [dsp_thread] in DR; lia. }
      invr; auto. rewrite E. exact J3.
    + destruct (t_busy s =? 0); inversion R; subst s1 more; clear R. simp_a. cbn [app].
      specialize (DR (match rest with [] => None | _ :: _ => Some rest end) N). cbn [dsp_thread dsp_act] in DR.
      assert (E: dsp_threads (replace_nth (threads s) k match rest with [] => None | _ :: _ => Some rest end) = dsp_threads (threads s)).
      { destruct rest; cbn [dsp_thread] in DR; lia. }
      invr; auto. rewrite E. exact J3.
  - (* LRunCb *)
    destruct (t_queued s) as [|q] eqn:Q; [discriminate|]. inversion H; subst; clear H. simp_a.
    assert (F: g_fin s <> None) by (apply J3; pose proof (dsp_le_tok (threads s)); unfold tokens in I3; destruct (p_owns s); lia).
    destruct (g_fin s) as [r|] eqn:E; [|congruence]. rewrite (J2 r eq_refl), N.eqb_refl, J1. cbn.
    invr; auto; try (intros; discriminate).
    split; [intros X; congruence|]. intros X. exfalso.
    pose proof (dsp_le_tok (threads s)). unfold tokens in I3. destruct (p_owns s); lia.
  - (* LCbDone *)
    destruct (t_running s); [discriminate|]. inversion H; subst. simp_a. invr; auto.
  - (* LReset *)
    destruct (outstanding s) eqn:O; [discriminate|]. apply outstanding_false in O as [T0 Q0].
    inversion H; subst; clear H. simp_a.
    assert (F: g_fin s = None).
    { destruct (g_fin s) eqn:F; [|reflexivity].
      assert (X: dsp_threads (threads s) + t_queued s = 1) by (apply J3; congruence).
      pose proof (dsp_le_tok (threads s)). unfold tokens in T0. destruct (p_owns s); lia. }
    rewrite F in *. invr; auto. intros r E; discriminate.
Qed.

(* ---- runs in which no abort is late ---- *)
Fixpoint arun_nl (s : aio) (ls : list alabel) : Prop :=
  match ls with
  | [] => True
  | l :: r => not_late s l /\ match astep fixed fdone s l with Some s1 => arun_nl s1 r | None => True end
  end.

Theorem aio_result_consistent_partial ls : forall s s',
  Inv1 s -> Inv2 s -> InvR s -> arun_nl s ls -> arun fixed fdone s ls = Some s' -> g_bad_result s' = false.
Proof.
  induction ls as [|l r IH]; intros s s' A B C NL H; cbn [arun arun_nl] in *.
  - inversion H; subst. apply C.
  - destruct NL as [NL1 NL2]. destruct (astep fixed fdone s l) as [s1|] eqn:S; [|discriminate].
    eapply (IH s1); eauto.
    + eapply inv1_step; eauto.
    + eapply inv2_step; eauto.
    + eapply invR_step; eauto.
Qed.

(* ---- progress: the completion machinery is never stuck, and stop returns ---- *)
Definition w_act (a : pact) : nat :=
  match a with PExpireProc _ => 8 | PCallCancel _ => 6 | PFinish _ => 5 | PDispatch => 4 | PExpireDone => 1 | PStopWait => 1 end.
Fixpoint w_thread (t : list pact) : nat := match t with [] => 0 | a :: r => w_act a + w_thread r end.
Fixpoint w_threads (ts : list (list pact)) : nat := match ts with [] => 0 | t :: r => w_thread t + w_threads r end.
Definition mu (s : aio) : nat := w_threads (threads s) + 2 * t_queued s + t_running s.

Lemma w_thread_app a b : w_thread (a ++ b) = w_thread a + w_thread b.
Proof. induction a; cbn; lia. Qed.
Lemma w_replace ts : forall k t x, nth_error ts k = Some t ->
  w_threads (replace_nth ts k x) + w_thread t = w_threads ts + match x with Some t' => w_thread t' | None => 0 end.
Proof.
  induction ts as [|t0 r IH]; intros k t x H; destruct k; cbn in *; try discriminate.
  - inversion H; subst. destruct x; cbn; lia.
  - specialize (IH k t x H). lia.
Qed.

Definition internal (l : alabel) : Prop := match l with LRun _ | LRunCb | LCbDone => True | _ => False end.

(* every step of the library's own threads makes progress *)
Theorem aio_internal_decreases s l s' : internal l -> astep fixed fdone s l = Some s' -> mu s' < mu s.
Proof.
  intros I H. destruct l; try destruct I; cbn [astep] in H.
  - destruct (nth_error (threads s) k) as [[|a rest]|] eqn:N; try discriminate.
    destruct (run_pact fixed s a) as [[s1 more]|] eqn:R; [|discriminate]. inversion H; subst; clear H.
    unfold mu. simp_a.
    pose proof (w_replace (threads s) k (a :: rest)) as W.
    destruct a; cbn [run_pact] in R.
    + inversion R; subst s1 more; clear R. unfold do_dispatch; simp_a. cbn [app].
      specialize (W (match rest with [] => None | _ :: _ => Some rest end) N). cbn [w_thread w_act] in W.
      destruct rest; cbn [w_thread] in W; lia.
    + inversion R; subst s1 more; clear R. unfold do_finish; simp_a. cbn [app].
      specialize (W (Some (PDispatch :: rest)) N). cbn [w_thread w_act] in W. lia.
    + unfold do_call_cancel in R. destruct (p_owns s); inversion R; subst s1 more; clear R; simp_a; cbn [app].
      * specialize (W (Some (PFinish rv :: rest)) N). cbn [w_thread w_act] in W. lia.
      * specialize (W (match rest with [] => None | _ :: _ => Some rest end) N). cbn [w_thread w_act] in W.
        destruct rest; cbn [w_thread] in W; lia.
    + unfold do_expire_proc in R.
      destruct (fixed && negb match a_expire s with Some e => (e <? now)%N | None => false end);
        [|destruct (a_sleep s); [|destruct (a_cancel s)]]; inversion R; subst s1 more; clear R; simp_a; cbn [app].
      * specialize (W (match rest with [] => None | _ :: _ => Some rest end) N). cbn [w_thread w_act] in W.
        destruct rest; cbn [w_thread] in W; lia.
      * specialize (W (Some (PDispatch :: rest)) N). cbn [w_thread w_act] in W. lia.
      * specialize (W (Some (PCallCancel (if a_expire_ok s then A_OK else A_TIMEDOUT) :: PExpireDone :: rest)) N).
        cbn [w_thread w_act] in W. lia.
      * specialize (W (match rest with [] => None | _ :: _ => Some rest end) N). cbn [w_thread w_act] in W.
        destruct rest; cbn [w_thread] in W; lia.
    + inversion R; subst s1 more; clear R. simp_a. cbn [app].
      specialize (W (match rest with [] => None | _ :: _ => Some rest end) N). cbn [w_thread w_act] in W.
      destruct rest; cbn [w_thread] in W; lia.
    + destruct (t_busy s =? 0); inversion R; subst s1 more; clear R. simp_a. cbn [app].
      specialize (W (match rest with [] => None | _ :: _ => Some rest end) N). cbn [w_thread w_act] in W.
      destruct rest; cbn [w_thread] in W; lia.
  - destruct (t_queued s) eqn:Q; [discriminate|]. inversion H; subst. unfold mu. simp_a. lia.
  - destruct (t_running s) eqn:R; [discriminate|]. inversion H; subst. unfold mu. simp_a. lia.
Qed.
End Fixed.

(* ---- a timeout is never delivered before the deadline (repaired expire loop);
        the expire loop of the pinned tree did deliver one: the witness ---- *)
Lemma early_step fd s l s' : astep true fd s l = Some s' -> g_early s = false -> g_early s' = false.
Proof.
  intros H E.
  destruct l as [zero dl sleep eok|rv|rv|now| | |k| | | ]; cbn [astep] in H.
  - destruct (outstanding s); [discriminate|].
    destruct (a_stop s); [|destruct (a_abort s); [|destruct zero]]; inversion H; subst; unfold spawn; simp_a; auto.
  - destruct (p_owns s && negb (p_sleep s)); inversion H; subst; unfold spawn; simp_a; auto.
  - destruct (rv =? 0)%N; [discriminate|]. destruct (a_cancel s); [|destruct (_ && a_done s)]; inversion H; subst; unfold spawn; simp_a; auto.
  - destruct (a_on_eq s && negb (a_expiring s)) eqn:OE; [|discriminate].
    destruct (negb match a_expire s with Some e => (e <? now)%N | None => false end); [discriminate|].
    inversion H; subst; unfold spawn; simp_a; auto.
  - destruct (a_expiring s); [discriminate|]. inversion H; subst. destruct (a_cancel s); unfold spawn; cbn [app]; simp_a; auto.
  - inversion H; subst. destruct (a_cancel s); unfold spawn; simp_a; auto.
  - destruct (nth_error (threads s) k) as [[|a rest]|] eqn:N; try discriminate.
    destruct (run_pact true s a) as [[s1 more]|] eqn:R; [|discriminate]. inversion H; subst; clear H. simp_a.
    destruct a; cbn [run_pact] in R.
    + inversion R; subst. unfold do_dispatch; simp_a. auto.
    + inversion R; subst. unfold do_finish; simp_a. auto.
    + unfold do_call_cancel in R. destruct (p_owns s); inversion R; subst; simp_a; auto.
    + unfold do_expire_proc in R. cbn [andb] in R.
      destruct (match a_expire s with Some e => (e <? now)%N | None => false end); cbn [negb] in R;
        [destruct (a_sleep s); [|destruct (a_cancel s)]|]; inversion R; subst; simp_a; rewrite E; reflexivity.
    + inversion R; subst. simp_a. auto.
    + destruct (t_busy s =? 0); inversion R; subst. simp_a. auto.
  - destruct (t_queued s); [discriminate|]. inversion H; subst. simp_a. auto.
  - destruct (t_running s); [discriminate|]. inversion H; subst. simp_a. auto.
  - destruct (outstanding s); [discriminate|]. inversion H; subst. simp_a. auto.
Qed.

Theorem aio_timeout_not_early_holds fd ls : forall s s',
  g_early s = false -> arun true fd s ls = Some s' -> g_early s' = false.
Proof.
  induction ls as [|l r IH]; intros s s' E H; cbn [arun] in H.
  - inversion H; subst; auto.
  - destruct (astep true fd s l) as [s1|] eqn:S; [|discriminate]. eapply IH; [|exact H]. eapply early_step; eauto.
Qed.

(* operation 1 (deadline 5) is found due by the scan at time 10 and marked; before the
   batch gets to it, it completes, its callback runs, and operation 2 (deadline 1000)
   is started on the same aio; the pinned loop then cancels operation 2 with a timeout *)
Definition early_timeout_run : list alabel :=
  [LStart false (Some 5%N) false false; LExpire 10%N; LProvFinish 0; LRun 1; LRun 1; LRunCb; LCbDone;
   LStart false (Some 1000%N) false false; LRun 0].
Theorem aio_timeout_early_refuted fd :
  exists s, arun false fd aio_init early_timeout_run = Some s /\ g_early s = true.
Proof. destruct fd; eexists; (split; [vm_compute; reflexivity|reflexivity]). Qed.
Theorem aio_timeout_early_repaired fd :
  exists s, arun true fd aio_init early_timeout_run = Some s /\ g_early s = false /\ p_owns s = true /\ a_expiring s = false.
Proof. destruct fd; eexists; (split; [vm_compute; reflexivity|repeat split]). Qed.

(* ---- when nni_aio_stop (nni_aio_fini) returns, the expire thread holds no reference to the
        aio: it is not marked expiring and no continuation of the expire loop for it is
        pending; it is off the expire list for good.  (The memory can be released.) ---- *)
Definition exp_act (a : pact) : nat := match a with PExpireProc _ | PExpireDone => 1 | _ => 0 end.
Fixpoint exp_thread (t : list pact) : nat := match t with [] => 0 | a :: r => exp_act a + exp_thread r end.
Fixpoint exp_threads (ts : list (list pact)) : nat := match ts with [] => 0 | t :: r => exp_thread t + exp_threads r end.
Definition sw_act (a : pact) : nat := match a with PStopWait => 1 | _ => 0 end.
Fixpoint sw_thread (t : list pact) : nat := match t with [] => 0 | a :: r => sw_act a + sw_thread r end.
Fixpoint sw_threads (ts : list (list pact)) : nat := match ts with [] => 0 | t :: r => sw_thread t + sw_threads r end.

Lemma exp_thread_app a b : exp_thread (a ++ b) = exp_thread a + exp_thread b.
Proof. induction a; cbn; lia. Qed.
Lemma exp_threads_app a b : exp_threads (a ++ b) = exp_threads a + exp_threads b.
Proof. induction a; cbn; lia. Qed.
Lemma sw_thread_app a b : sw_thread (a ++ b) = sw_thread a + sw_thread b.
Proof. induction a; cbn; lia. Qed.
Lemma sw_threads_app a b : sw_threads (a ++ b) = sw_threads a + sw_threads b.
Proof. induction a; cbn; lia. Qed.
Lemma exp_replace ts : forall k t x, nth_error ts k = Some t ->
  exp_threads (replace_nth ts k x) + exp_thread t = exp_threads ts + match x with Some t' => exp_thread t' | None => 0 end.
Proof.
  induction ts as [|t0 r IH]; intros k t x H; destruct k; cbn in *; try discriminate.
  - inversion H; subst. destruct x; cbn; lia.
  - specialize (IH k t x H). lia.
Qed.
Lemma sw_replace ts : forall k t x, nth_error ts k = Some t ->
  sw_threads (replace_nth ts k x) + sw_thread t = sw_threads ts + match x with Some t' => sw_thread t' | None => 0 end.
Proof.
  induction ts as [|t0 r IH]; intros k t x H; destruct k; cbn in *; try discriminate.
  - inversion H; subst. destruct x; cbn; lia.
  - specialize (IH k t x H). lia.
Qed.

Definition InvE (s : aio) : Prop :=
  exp_threads (threads s) = (if a_expiring s then 1 else 0) /\
  (a_stop s = true -> a_on_eq s = false) /\
  (0 < sw_threads (threads s) \/ g_stop_returned s = true -> a_stop s = true /\ a_expiring s = false).

Lemma invE_init : InvE aio_init.
Proof. unfold InvE; cbn. split; [reflexivity|]. split; [intros; reflexivity|]. intros [X|X]; [lia|discriminate]. Qed.

Ltac inve := split; [|split].
Ltac e2t E2 := let ST := fresh "ST" in intros ST; try (rewrite (E2 ST)); try match goal with |- context [if ?b then _ else _] => destruct b end; auto.

Lemma opt_thread_exp rest : match match rest with [] => None | _ :: _ => Some rest end with Some t' => exp_thread t' | None => 0 end = exp_thread rest.
Proof. destruct rest; reflexivity. Qed.
Lemma opt_thread_sw rest : match match rest with [] => None | _ :: _ => Some rest end with Some t' => sw_thread t' | None => 0 end = sw_thread rest.
Proof. destruct rest; reflexivity. Qed.

Theorem invE_step fixed fd s l s' : InvE s -> astep fixed fd s l = Some s' -> InvE s'.
Proof.
  intros (E1 & E2 & E3) H. unfold InvE.
  destruct l as [zero dl sleep eok|rv|rv|now| | |k| | | ]; cbn [astep] in H.
  - destruct (outstanding s); [discriminate|].
    destruct (a_stop s) eqn:ST; [|destruct (a_abort s); [|destruct zero]]; inversion H; subst; clear H;
      unfold spawn; simp_a; rewrite ?exp_threads_app, ?sw_threads_app; cbn [exp_threads exp_thread exp_act sw_threads sw_thread sw_act];
      rewrite ?Nat.add_0_r; inve; auto; try (intros; discriminate); try (intros X; destruct (E3 X); congruence).
  - destruct (p_owns s && negb (p_sleep s)); inversion H; subst; clear H.
    unfold spawn; simp_a; rewrite ?exp_threads_app, ?sw_threads_app; cbn [exp_threads exp_thread exp_act sw_threads sw_thread sw_act];
      rewrite ?Nat.add_0_r; inve; auto.
  - destruct (rv =? 0)%N; [discriminate|]. destruct (a_cancel s); [|destruct (_ && a_done s)]; inversion H; subst; clear H;
      unfold spawn; simp_a; rewrite ?exp_threads_app, ?sw_threads_app; cbn [exp_threads exp_thread exp_act sw_threads sw_thread sw_act];
      rewrite ?Nat.add_0_r; inve; auto.
  - destruct (a_on_eq s && negb (a_expiring s)) eqn:OE; [|discriminate]. apply andb_true_iff in OE as [O1 O2].
    destruct (negb match a_expire s with Some e => (e <? now)%N | None => false end); [discriminate|].
    inversion H; subst; clear H. destruct (a_expiring s) eqn:EX; [discriminate|].
    unfold spawn; simp_a; rewrite ?exp_threads_app, ?sw_threads_app; cbn [exp_threads exp_thread exp_act sw_threads sw_thread sw_act].
    inve; [lia|e2t E2|]. rewrite Nat.add_0_r. intros X. destruct (E3 X) as [ST _]. rewrite (E2 ST) in O1. discriminate.
  - destruct (a_expiring s) eqn:EX; [discriminate|]. inversion H; subst; clear H.
    destruct (a_cancel s); unfold spawn; cbn [app]; simp_a; rewrite ?exp_threads_app, ?sw_threads_app;
      cbn [exp_threads exp_thread exp_act sw_threads sw_thread sw_act]; inve; auto; lia.
  - inversion H; subst; clear H.
    destruct (a_cancel s); unfold spawn; simp_a; rewrite ?exp_threads_app, ?sw_threads_app;
      cbn [exp_threads exp_thread exp_act sw_threads sw_thread sw_act]; rewrite ?Nat.add_0_r; inve; auto;
      intros X; destruct (E3 X); auto.
  - destruct (nth_error (threads s) k) as [[|a rest]|] eqn:N; try discriminate.
    destruct (run_pact fixed s a) as [[s1 more]|] eqn:R; [|discriminate]. inversion H; subst; clear H. simp_a.
    pose proof (exp_replace (threads s) k (a :: rest)) as XR. pose proof (sw_replace (threads s) k (a :: rest)) as SR.
    destruct a; cbn [run_pact] in R.
    + inversion R; subst s1 more; clear R. unfold do_dispatch; simp_a. cbn [app].
      specialize (XR (match rest with [] => None | _ :: _ => Some rest end) N). specialize (SR (match rest with [] => None | _ :: _ => Some rest end) N). rewrite opt_thread_exp in XR. rewrite opt_thread_sw in SR.
      cbn [exp_thread exp_act sw_thread sw_act] in *. inve; [lia|e2t E2|]. intros X. apply E3. destruct X; [left; lia|right; auto].
    + inversion R; subst s1 more; clear R. unfold do_finish; simp_a. cbn [app].
      specialize (XR (Some (PDispatch :: rest)) N). specialize (SR (Some (PDispatch :: rest)) N).
      cbn [exp_thread exp_act sw_thread sw_act] in *. inve; [lia|e2t E2|]. intros X. apply E3. destruct X; [left; lia|right; auto].
    + unfold do_call_cancel in R. destruct (p_owns s); inversion R; subst s1 more; clear R; simp_a; cbn [app].
      * specialize (XR (Some (PFinish rv :: rest)) N). specialize (SR (Some (PFinish rv :: rest)) N).
        cbn [exp_thread exp_act sw_thread sw_act] in *. inve; [lia|e2t E2|]. intros X. apply E3. destruct X; [left; lia|right; auto].
      * specialize (XR (match rest with [] => None | _ :: _ => Some rest end) N). specialize (SR (match rest with [] => None | _ :: _ => Some rest end) N). rewrite opt_thread_exp in XR. rewrite opt_thread_sw in SR.
        cbn [exp_thread exp_act sw_thread sw_act] in *. inve; [lia|e2t E2|]. intros X. apply E3. destruct X; [left; lia|right; auto].
    + (* PExpireProc: the aio is marked (E1), so nobody is stopping it *)
      assert (EX: a_expiring s = true).
      { destruct (a_expiring s); [reflexivity|]. specialize (XR None N). cbn [exp_thread exp_act] in XR. lia. }
      assert (NS: ~ (0 < sw_threads (threads s) \/ g_stop_returned s = true)) by (intros X; destruct (E3 X); congruence).
      unfold do_expire_proc in R.
      destruct (fixed && negb match a_expire s with Some e => (e <? now)%N | None => false end).
      * inversion R; subst s1 more; clear R. simp_a. cbn [app].
        specialize (XR (match rest with [] => None | _ :: _ => Some rest end) N). specialize (SR (match rest with [] => None | _ :: _ => Some rest end) N). rewrite opt_thread_exp in XR. rewrite opt_thread_sw in SR.
        cbn [exp_thread exp_act sw_thread sw_act] in *. rewrite EX in *. inve; [lia|e2t E2|]. intros X. exfalso. apply NS. destruct X; [left; lia|right; auto].
      * destruct (a_sleep s); [|destruct (a_cancel s)]; inversion R; subst s1 more; clear R; simp_a; cbn [app].
        -- specialize (XR (Some (PDispatch :: rest)) N). specialize (SR (Some (PDispatch :: rest)) N).
           cbn [exp_thread exp_act sw_thread sw_act] in *. rewrite EX in *. inve; [lia|e2t E2|]. intros X. exfalso. apply NS. destruct X; [left; lia|right; auto].
        -- specialize (XR (Some (PCallCancel (if a_expire_ok s then A_OK else A_TIMEDOUT) :: PExpireDone :: rest)) N).
           specialize (SR (Some (PCallCancel (if a_expire_ok s then A_OK else A_TIMEDOUT) :: PExpireDone :: rest)) N).
           cbn [exp_thread exp_act sw_thread sw_act] in *. rewrite EX in *. inve; [lia|e2t E2|]. intros X. exfalso. apply NS. destruct X; [left; lia|right; auto].
        -- specialize (XR (match rest with [] => None | _ :: _ => Some rest end) N). specialize (SR (match rest with [] => None | _ :: _ => Some rest end) N). rewrite opt_thread_exp in XR. rewrite opt_thread_sw in SR.
           cbn [exp_thread exp_act sw_thread sw_act] in *. rewrite EX in *. inve; [lia|e2t E2|]. intros X. exfalso. apply NS. destruct X; [left; lia|right; auto].
    + (* PExpireDone *)
      assert (EX: a_expiring s = true).
      { destruct (a_expiring s); [reflexivity|]. specialize (XR None N). cbn [exp_thread exp_act] in XR. lia. }
      assert (NS: ~ (0 < sw_threads (threads s) \/ g_stop_returned s = true)) by (intros X; destruct (E3 X); congruence).
      inversion R; subst s1 more; clear R. simp_a. cbn [app].
      specialize (XR (match rest with [] => None | _ :: _ => Some rest end) N). specialize (SR (match rest with [] => None | _ :: _ => Some rest end) N). rewrite opt_thread_exp in XR. rewrite opt_thread_sw in SR.
      cbn [exp_thread exp_act sw_thread sw_act] in *. rewrite EX in *. inve; [lia|e2t E2|]. intros X. exfalso. apply NS. destruct X; [left; lia|right; auto].
    + (* PStopWait *)
      destruct (t_busy s =? 0); inversion R; subst s1 more; clear R. simp_a. cbn [app].
      specialize (XR (match rest with [] => None | _ :: _ => Some rest end) N). specialize (SR (match rest with [] => None | _ :: _ => Some rest end) N). rewrite opt_thread_exp in XR. rewrite opt_thread_sw in SR.
      cbn [exp_thread exp_act sw_thread sw_act] in *. inve; [lia|e2t E2|]. intros _. apply E3. left. lia.
  - destruct (t_queued s); [discriminate|]. inversion H; subst. simp_a. inve; auto.
  - destruct (t_running s); [discriminate|]. inversion H; subst. simp_a. inve; auto.
  - destruct (outstanding s); [discriminate|]. inversion H; subst. simp_a. inve; auto.
Qed.

Theorem aio_stop_no_expire_reference fixed fd ls : forall s s', InvE s -> arun fixed fd s ls = Some s' ->
  InvE s' /\ (g_stop_returned s' = true ->
              a_expiring s' = false /\ exp_threads (threads s') = 0 /\ a_on_eq s' = false).
Proof.
  induction ls as [|l r IH]; intros s s' HI H; cbn [arun] in H.
  - inversion H; subst. split; [exact HI|]. destruct HI as (E1 & E2 & E3). intros G.
    destruct (E3 (or_intror G)) as [ST EX]. rewrite EX in E1. auto.
  - destruct (astep fixed fd s l) as [s1|] eqn:S; [|discriminate]. eapply IH; [eapply invE_step; eauto|exact H].
Qed.

(* ---- result consistency in full, for the repaired nni_aio_abort (fix e9a11c8: fdone = true):
        a completion in flight implies a_done, so no abort is ever "late" ---- *)
Definition InvD (s : aio) : Prop := g_fin s <> None -> a_done s = true.

Lemma invD_init : InvD aio_init.
Proof. unfold InvD; cbn. congruence. Qed.

Theorem invD_step fixed fd s l s' : Inv1 s -> InvR s -> InvD s -> astep fixed fd s l = Some s' -> InvD s'.
Proof.
  intros HI1 HR D H. pose proof HI1 as (I1 & I2 & I3 & I4 & I5). pose proof HR as (J1 & J2 & J3). unfold InvD in *.
  destruct l as [zero dl sleep eok|rv|rv|now| | |k| | | ]; cbn [astep] in H.
  - destruct (outstanding s); [discriminate|].
    destruct (a_stop s); [|destruct (a_abort s); [|destruct zero]]; inversion H; subst; unfold spawn; simp_a; auto; congruence.
  - destruct (p_owns s && negb (p_sleep s)); inversion H; subst; unfold spawn; simp_a; auto.
  - destruct (rv =? 0)%N; [discriminate|]. destruct (a_cancel s); [|destruct (fd && a_done s)]; inversion H; subst; unfold spawn; simp_a; auto.
  - destruct (a_on_eq s && negb (a_expiring s)); [|discriminate].
    destruct (negb match a_expire s with Some e => (e <? now)%N | None => false end); [discriminate|].
    inversion H; subst; unfold spawn; simp_a; auto.
  - destruct (a_expiring s); [discriminate|]. inversion H; subst. destruct (a_cancel s); unfold spawn; cbn [app]; simp_a; auto.
  - inversion H; subst. destruct (a_cancel s); unfold spawn; simp_a; auto.
  - destruct (nth_error (threads s) k) as [[|a rest]|] eqn:N; try discriminate.
    destruct (run_pact fixed s a) as [[s1 more]|] eqn:R; [|discriminate]. inversion H; subst; clear H. simp_a.
    destruct a; cbn [run_pact] in R.
    + inversion R; subst. unfold do_dispatch; simp_a. auto.
    + inversion R; subst. unfold do_finish; simp_a. auto.
    + unfold do_call_cancel in R. destruct (p_owns s); inversion R; subst; simp_a; auto.
    + unfold do_expire_proc in R.
      destruct (fixed && negb match a_expire s with Some e => (e <? now)%N | None => false end);
        [|destruct (a_sleep s); [|destruct (a_cancel s)]]; inversion R; subst; simp_a; auto.
    + inversion R; subst. simp_a. auto.
    + destruct (t_busy s =? 0); inversion R; subst. simp_a. auto.
  - destruct (t_queued s); [discriminate|]. inversion H; subst. simp_a. congruence.
  - destruct (t_running s); [discriminate|]. inversion H; subst. simp_a. auto.
  - destruct (outstanding s) eqn:O; [discriminate|]. apply outstanding_false in O as [T0 Q0].
    inversion H; subst; clear H. simp_a.
    assert (F: g_fin s = None).
    { destruct (g_fin s) eqn:F; [|reflexivity].
      assert (X: dsp_threads (threads s) + t_queued s = 1) by (apply J3; congruence).
      pose proof (dsp_le_tok (threads s)). unfold tokens in T0. destruct (p_owns s); lia. }
    congruence.
Qed.

(* with the repaired abort no reachable abort is late *)
Lemma done_not_late s l : InvD s -> not_late true s l.
Proof.
  intros D. destruct l; cbn [not_late]; auto.
  destruct (a_cancel s); [left; reflexivity|right].
  destruct (g_fin s) eqn:F; [left|right; reflexivity]. cbn [andb]. apply D. congruence.
Qed.

Theorem aio_result_consistent_holds fixed ls : forall s s',
  Inv1 s -> Inv2 s -> InvR s -> InvD s -> arun fixed true s ls = Some s' -> g_bad_result s' = false.
Proof.
  induction ls as [|l r IH]; intros s s' A B C D H; cbn [arun] in H.
  - inversion H; subst. apply C.
  - destruct (astep fixed true s l) as [s1|] eqn:S; [|discriminate].
    eapply (IH s1); [eapply inv1_step; eauto|eapply inv2_step; eauto| |eapply invD_step; eauto|exact H].
    eapply (invR_step fixed true); eauto. apply done_not_late. exact D.
Qed.

(* ---- the stale cancel: "no timeout before the deadline" in full is false of the faithful model.
   The expire loop decides for operation 1 (due), takes its cancel function and drops the lock
   ([PCallCancel] pending); operation 1 completes by another cause, its callback has run, and
   operation 2 (deadline 1000) is started on the same aio; the pending cancel call now reaches
   operation 2 and completes it with A_TIMEDOUT although no clock reading ever exceeded 10.
   [g_early] is decided when the loop decides, so it stays false: that ghost - and the theorem
   aio_timeout_not_early_holds about it - covers the decision, not the delivery. *)
Definition stale_cancel_run : list alabel :=
  [LStart false (Some 5%N) false false; LExpire 10%N; LRun 0; LProvFinish 7%N; LRun 1; LRun 1; LRunCb; LCbDone;
   LStart false (Some 1000%N) false false; LRun 0; LRun 0; LRun 0; LRunCb].

Lemma stale_cancel_delivers_early : forall fixed fdone, exists s1 s2,
  arun fixed fdone aio_init (firstn 9 stale_cancel_run) = Some s1 /\
  a_expire s1 = Some 1000%N /\ p_owns s1 = true /\ g_subs s1 = 2 /\ g_cbs s1 = 1 /\
  arun fixed fdone s1 (skipn 9 stale_cancel_run) = Some s2 /\
  g_cbs s2 = 2 /\ a_result s2 = A_TIMEDOUT /\ g_early s2 = false /\ g_bad_result s2 = false.
Proof.
  intros fixed fdone.
  destruct (arun fixed fdone aio_init (firstn 9 stale_cancel_run)) as [s1|] eqn:E1;
    [|destruct fixed, fdone; vm_compute in E1; discriminate].
  destruct (arun fixed fdone s1 (skipn 9 stale_cancel_run)) as [s2|] eqn:E2;
    [|destruct fixed, fdone; vm_compute in E1; inversion E1; subst; vm_compute in E2; discriminate].
  exists s1, s2.
  destruct fixed, fdone; vm_compute in E1; inversion E1; subst; vm_compute in E2; inversion E2; subst;
    vm_compute; repeat split; reflexivity.
Qed.
