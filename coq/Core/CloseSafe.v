(* CloseSafe: safety invariants of the repaired close model (property C10).
   Program order is expressed by "facts" (latched state predicates) that an action requires and
   establishes; the invariant says every continuation is a well-ordered chain.  From it:
   close_handles_invalid.  *)
From Coq Require Import List Arith NArith Bool Lia.
Import ListNotations.
From NngV Require Import Core.CloseModel Core.CloseProofs Core.CloseTerm.

(* ================================================================ program order *)
(* facts that, once true, stay true *)
Inductive fact := FClosing | FEpsDone | FNoPipes | FShutDone | FClosed | FCtxsGone | FNoCtx | FFreed.

Definition all_eps_off (s : st) : Prop := Forall (fun e => e_onlist e = false) (eps s).
Definition all_pipes_off (s : st) : Prop := Forall (fun p => p_onlist p = false) (pipes s).
Definition pub_ctxs_off (s : st) : Prop := Forall (fun c => c_pub c = true -> c_onlist c = false) (ctxs s).
Definition all_ctxs_off (s : st) : Prop := Forall (fun c => c_onlist c = false) (ctxs s).

Definition holds (s : st) (f : fact) : Prop :=
  match f with
  | FClosing => k_closing (sk s) = true
  | FEpsDone => k_closing (sk s) = true /\ all_eps_off s
  | FNoPipes => k_closing (sk s) = true /\ all_eps_off s /\ all_pipes_off s
  | FShutDone => k_shutdone (sk s) = true
  | FClosed => k_closed (sk s) = true
  | FCtxsGone => k_closing (sk s) = true /\ pub_ctxs_off s
  | FNoCtx => k_closed (sk s) = true /\ all_ctxs_off s
  | FFreed => k_freed (sk s) = true
  end.

(* what must hold when an action runs / what holds once it has run *)
Definition req (a : act) : list fact :=
  match a with
  | AShutEp => [FClosing]
  | AWaitCtxs => [FClosing]
  | AWaitRefs => [FClosed]
  | AWaitPipes => [FEpsDone]
  | AProtoClose => [FNoPipes]
  | ASockClose2 role => if role =? R_SHUT then [FShutDone; FCtxsGone] else []
  | ARet USockClose rv role =>
      if role =? R_SHUT then (if N.eqb rv C_OK then [FShutDone; FClosed; FCtxsGone] else [])
      else if role =? R_DESTROY then (if N.eqb rv C_OK then [FClosed; FNoCtx; FFreed] else []) else []
  | _ => []
  end.
Definition est (a : act) : list fact :=
  match a with
  | AShutEp => [FEpsDone]
  | AWaitCtxs => [FCtxsGone]
  | AWaitRefs => [FNoCtx]
  | ASockDestroy => [FFreed]
  | AWaitPipes => [FNoPipes]
  | AProtoClose => [FShutDone]
  | ASockClose2 _ => [FClosed]
  | _ => []
  end.

Fixpoint chain_ok (s : st) (E : list fact) (l : list act) : Prop :=
  match l with
  | [] => True
  | a :: r => (forall f, In f (req a) -> holds s f \/ In f E) /\ chain_ok s (est a ++ E) r
  end.

Definition ests (l : list act) : list fact := flat_map est l.

Lemma chain_weaken s s1 l : (forall f, holds s f -> holds s1 f) ->
  forall E E', (forall f, In f E -> holds s1 f \/ In f E') -> chain_ok s E l -> chain_ok s1 E' l.
Proof.
  intros Hp; induction l as [|a r IH]; intros E E' HE H; simpl in *; auto.
  destruct H as [H1 H2]. split.
  - intros f Hf. destruct (H1 f Hf) as [Hh|Hin]; [left; auto|]. apply HE; auto.
  - eapply IH; [|exact H2]. intros f Hf. apply in_app_or in Hf as [Hf|Hf]; [right; apply in_or_app; auto|].
    destruct (HE f Hf); [left; auto|right; apply in_or_app; auto].
Qed.

Lemma chain_app s l1 : forall l2 E, chain_ok s E l1 -> chain_ok s (ests l1 ++ E) l2 -> chain_ok s E (l1 ++ l2).
Proof.
  induction l1 as [|a r IH]; intros l2 E H1 H2; simpl in *; auto.
  destruct H1 as [Ha Hr]. split; auto. apply IH; auto.
  eapply chain_weaken; [intros f Hf; exact Hf| |exact H2].
  intros f Hf. right. unfold ests in *. simpl in Hf. rewrite <- app_assoc in Hf.
  apply in_app_or in Hf as [Hf|Hf]; [apply in_or_app; right; apply in_or_app; auto|].
  apply in_app_or in Hf as [Hf|Hf]; apply in_or_app; [left|right; apply in_or_app; right]; auto.
Qed.

(* ---- persistence of the facts along every step ---- *)
Definition persist (s s1 : st) : Prop := forall f, holds s f -> holds s1 f.

(* a sufficient condition in terms of the fields the facts read *)
Lemma persist_intro s s1 :
  (k_closing (sk s) = true -> k_closing (sk s1) = true) ->
  (k_shutdone (sk s) = true -> k_shutdone (sk s1) = true) ->
  (k_closed (sk s) = true -> k_closed (sk s1) = true) ->
  (k_closing (sk s) = true -> all_eps_off s -> all_eps_off s1) ->
  (k_closing (sk s) = true -> all_eps_off s -> all_pipes_off s -> all_pipes_off s1) ->
  (k_freed (sk s) = true -> k_freed (sk s1) = true) ->
  (k_closing (sk s) = true -> pub_ctxs_off s -> pub_ctxs_off s1) ->
  (k_closed (sk s) = true -> all_ctxs_off s -> all_ctxs_off s1) ->
  persist s s1.
Proof.
  intros H1 H2 H3 H4 H5 H6 H7 H8 f Hf. destruct f; simpl in *; auto; intuition.
Qed.

Ltac off_upd := first [assumption | apply Forall_upd; [intros []; simpl; auto|assumption]].

Lemma close_pipes_off sel l : forall i ps q, close_pipes i sel l = (ps, q) ->
  Forall (fun p => p_onlist p = false) l -> Forall (fun p => p_onlist p = false) ps.
Proof.
  induction l as [|y r IH]; intros i ps q H F; simpl in H.
  - injection H as <- <-; auto.
  - destruct (close_pipes (S i) sel r) as [r' q'] eqn:E. inversion F; subst.
    destruct (sel y && p_onlist y && negb (p_closed y)); injection H as <- <-; constructor; eauto;
      destruct y; simpl in *; auto.
Qed.

Lemma shut_ctxs_off (P : ctxst -> Prop) l : (forall c, P c -> P (cset_closed c)) -> (forall c, P c -> P (cset_fini (cset_unlink (cset_closed c)))) ->
  forall cs a, shut_ctxs true l = (cs, a) -> Forall P l -> Forall P cs.
Proof.
  intros H1 H2. induction l as [|c r IH]; intros cs a H F; simpl in H.
  - injection H as <- <-; auto.
  - destruct (shut_ctxs true r) as [r' l'] eqn:E. inversion F; subst.
    destruct (c_onlist c); [destruct (c_ref c =? 0)|]; injection H as <- <-; constructor; eauto.
Qed.

Lemma run_act_persist s a s1 more : run_act fixes_all s a = Some (s1, more) -> persist s s1.
Proof.
  intros H. apply persist_intro; unfold all_eps_off, all_pipes_off;
  destruct a; simpl in H;
    repeat (match type of H with
            | context[match ?x with _ => _ end] => destruct x eqn:?
            | context[if ?x then _ else _] => destruct x eqn:?
            end); try discriminate H; inv_some H; simpl; auto; intros;
    try off_upd;
    try (apply Forall_app1; [assumption|reflexivity]);
    try (eapply close_pipes_off; eauto; fail);
    try congruence;
    try (unfold pub_ctxs_off, all_ctxs_off in *; simpl;
         first [ eapply shut_ctxs_off; [| |eassumption|assumption]; intros []; simpl; auto
               | apply Forall_app1; [assumption|simpl; intros; congruence]
               | apply Forall_upd; [intros []; simpl; auto; intros; congruence|assumption] ]).
Qed.

Lemma find_idx_none {A} (f : A -> bool) l : forall i, find_idx f l i = None -> Forall (fun x => f x = false) l.
Proof. induction l as [|y r IH]; intros i H; simpl in *; auto. destruct (f y) eqn:E; [discriminate H|]. constructor; eauto. Qed.

Lemma first_ep_none es : first_ep es = None -> Forall (fun e => e_onlist e = false) es.
Proof.
  unfold first_ep. destruct (find_idx (fun e => e_onlist e && negb (e_dialer e)) es 0); [discriminate|].
  apply find_idx_none.
Qed.

Lemma existsb_false_Forall {A} (f : A -> bool) l : existsb f l = false -> Forall (fun x => f x = false) l.
Proof. induction l; simpl; auto. intros H; apply orb_false_elim in H as [H1 H2]. constructor; auto. Qed.

Ltac solve_in :=
  repeat match goal with
         | H : In _ [] |- _ => destruct H
         | H : In _ (_ :: _) |- _ => destruct H as [H|H]; [subst|]
         end.

(* what one critical section does to the chain of its own continuation *)
Ltac inl Hf := vm_compute in Hf; repeat (destruct Hf as [Hf|Hf]; [try subst|]); try contradiction.
Ltac chain_triv :=
  simpl; repeat match goal with
                | |- _ /\ _ => split
                | |- True => exact I
                | |- forall f, _ -> _ => let f := fresh "f" in let Hf := fresh "Hf" in intros f Hf; inl Hf
                end.
Ltac boring H :=
  repeat (match type of H with
          | context[match ?x with _ => _ end] => destruct x eqn:?
          | context[if ?x then _ else _] => destruct x eqn:?
          end); try discriminate H; inv_some H;
  try (match goal with |- chain_ok _ _ (after_find ?u) /\ _ => destruct u as [| | | | | | | |[c|] ? ?| | | |] end);
  simpl; split; chain_triv.

Lemma act_chain s a s1 more :
  (forall f, In f (req a) -> holds s f) -> run_act fixes_all s a = Some (s1, more) ->
  chain_ok s1 [] more /\ (forall f, In f (est a) -> holds s1 f \/ In f (ests more)).
Proof.
  intros Hreq H.
  destruct a; simpl in H; try (boring H; fail).
  - (* AShutBegin *)
    destruct (k_device (sk s) && negb dev); [boring H|].
    destruct (k_closing (sk s)) eqn:Ec; inv_some H.
    + simpl. split; [repeat split; intros f Hf; inl Hf|intros f Hf; inl Hf].
    + simpl. split; [|intros f Hf; inl Hf].
      repeat split; intros f Hf; inl Hf; simpl; auto.
  - (* AShutEp *)
    pose proof (Hreq FClosing (or_introl eq_refl)) as Hc; simpl in Hc.
    destruct (first_ep (eps s)) eqn:F.
    + destruct (nth_error (eps s) n) eqn:E.
      * destruct (e_closed e); [discriminate H|]. inv_some H. simpl.
        split; [repeat split; intros f Hf; inl Hf; simpl; auto|intros f Hf; inl Hf; right; simpl; auto].
      * inv_some H. simpl. split; auto. intros f Hf; inl Hf. left. split; auto.
        (* first_ep returned an index that does not exist: impossible *)
        exfalso. unfold first_ep in F.
        destruct (find_idx (fun e => e_onlist e && negb (e_dialer e)) (eps s) 0) eqn:F1.
        -- injection F as ->. apply find_idx_spec in F1 as (_ & x & Hn & _). rewrite Nat.sub_0_r in Hn. congruence.
        -- apply find_idx_spec in F as (_ & x & Hn & _). rewrite Nat.sub_0_r in Hn. congruence.
    + inv_some H. simpl. split; auto. intros f Hf; inl Hf. left. split; auto. apply first_ep_none; auto.
  - (* AWaitCtxs *)
    pose proof (Hreq FClosing (or_introl eq_refl)) as Hc; simpl in Hc.
    destruct (any_ctx_onlist s) eqn:Ep; [discriminate H|]. inv_some H. simpl. split; auto.
    intros f Hf; inl Hf. left. split; auto.
    apply existsb_false_Forall in Ep. unfold pub_ctxs_off. eapply Forall_impl; [|exact Ep]. simpl; auto.
  - (* AWaitPipes *)
    pose proof (Hreq FEpsDone (or_introl eq_refl)) as [Hc He]; simpl in Hc.
    destruct (any_pipe_onlist s) eqn:Ep; [discriminate H|]. inv_some H. simpl. split; auto.
    intros f Hf; inl Hf. left. split; [|split]; auto. apply existsb_false_Forall; auto.
  - (* AProtoClose *)
    pose proof (Hreq FNoPipes (or_introl eq_refl)) as (Hc & He & Hp).
    destruct (k_phase (sk s)); inv_some H; simpl; (split; [auto|intros f Hf; inl Hf; left; reflexivity]).
  - (* ASockClose2 *)
    destruct (k_closed (sk s)) eqn:Ec; inv_some H; simpl.
    + split; [|intros f Hf; inl Hf; left; auto].
      split; [intros f Hf; inl Hf|]. split; [|auto].
      intros f Hf. destruct (role =? R_SHUT) eqn:Er.
      * simpl in Hf. destruct Hf as [<-|[<-|[<-|[]]]]; left; simpl; auto.
        -- apply (Hreq FShutDone). simpl. rewrite Er. simpl; auto.
        -- apply (Hreq FCtxsGone). simpl. rewrite Er. simpl; auto.
      * simpl in Hf. destruct Hf.
    + split; [|intros f Hf; inl Hf; left; reflexivity].
      repeat split; intros f Hf; inl Hf; simpl; auto.
  - (* AWaitRefs *)
    pose proof (Hreq FClosed (or_introl eq_refl)) as Hc; simpl in Hc.
    destruct ((k_ref (sk s) <=? 1) && negb (any_ctx_onlist s)) eqn:Eb; [|discriminate H]. inv_some H. simpl. split; auto.
    intros f Hf; inl Hf. left. split; auto.
    apply andb_prop in Eb as [_ Eb]. destruct (any_ctx_onlist s) eqn:Ep; [discriminate Eb|].
    apply existsb_false_Forall in Ep. exact Ep.
  - (* ASockDestroy *)
    destruct (k_finic (sk s) || true); inv_some H; simpl; (split; [auto|intros f Hf; inl Hf; left; reflexivity]).
Qed.

Lemma step_persist s l s' : step fixes_all s l = Some s' -> persist s s'.
Proof.
  intros H. destruct l; simpl in H.
  - destruct (handle_known s u); [|discriminate H]. injection H as <-. intros f Hf; destruct f; exact Hf.
  - destruct (nth_error (threads s) k) as [[|a rest]|]; try discriminate H.
    destruct (run_act fixes_all s a) as [[s1 more]|] eqn:E; [|discriminate H]. injection H as <-.
    intros f Hf. apply (run_act_persist _ _ _ _ E) in Hf. destruct f; exact Hf.
  - destruct (reaper s) as [|a rest].
    + destruct (rq s) as [|[p|e] q]; [discriminate H| |]; injection H as <-; intros f Hf; destruct f; exact Hf.
    + destruct (run_act fixes_all s a) as [[s1 more]|] eqn:E; [|discriminate H]. injection H as <-.
      intros f Hf. apply (run_act_persist _ _ _ _ E) in Hf. destruct f; exact Hf.
  - destruct (nth_error (eps s) e) as [x|]; [|discriminate H]. destruct (e_busy x); [discriminate H|]. injection H as <-.
    apply persist_intro; simpl; auto; unfold all_eps_off, all_pipes_off; simpl; intros; off_upd.
  - destruct (nth_error (pipes s) p) as [x|]; [|discriminate H]. destruct (p_busy x); [discriminate H|]. injection H as <-.
    apply persist_intro; simpl; auto; unfold all_eps_off, all_pipes_off; simpl; intros; off_upd.
  - destruct (has_aio a (k_pend (sk s))); [injection H as <-; apply persist_intro; simpl; auto|].
    destruct (existsb (fun c => has_aio a (c_pend c)) (ctxs s)); [|discriminate H]. injection H as <-.
    apply persist_intro; simpl; auto; unfold pub_ctxs_off, all_ctxs_off; simpl; intros;
      rewrite Forall_map; (eapply Forall_impl; [|eassumption]); intros []; simpl; auto.
  - destruct (nth_error (eps s) e) as [x|] eqn:E; [|discriminate H].
    destruct (e_tranclosed x || e_freed x || negb (e_onlist x)) eqn:Eb; [discriminate H|]. injection H as <-.
    apply persist_intro; simpl; auto; unfold all_eps_off, all_pipes_off; simpl; intros Hc He; auto.
    (* no endpoint is on the list any more, so none can get a pipe *)
    exfalso. pose proof (Forall_nth _ _ _ _ He E) as X; simpl in X. rewrite X in Eb. simpl in Eb. rewrite !orb_true_r in Eb. discriminate Eb.
  - destruct (nth_error (pipes s) p) as [x|]; [|discriminate H]. destruct (p_stopped x || p_freed x); [discriminate H|]. injection H as <-.
    apply persist_intro; simpl; auto; unfold all_eps_off, all_pipes_off; simpl; intros; off_upd.
  - destruct (nth_error (eps s) e) as [x|]; [|discriminate H]. destruct (e_stopped x || e_freed x); [discriminate H|]. injection H as <-.
    apply persist_intro; simpl; auto; unfold all_eps_off, all_pipes_off; simpl; intros; off_upd.
  - destruct (k_closing (sk s) || k_closed (sk s) || k_device (sk s) || k_freed (sk s)) eqn:Eb; [discriminate H|]. injection H as <-.
    apply persist_intro; simpl; auto.
Qed.

(* ================================================================ the safety invariant *)
Definition ep_ok (e : epst) : Prop :=
  (e_closed e = true -> e_inmap e = false) /\ (e_pub e = true -> e_closed e = false -> e_onlist e = true) /\
  (e_pub e = true -> e_onlist e = false -> e_stopped e = true) /\
  (e_stopped e = true -> e_busy e = 0) /\ (e_busy e = 0 -> e_pend e = []).
Definition ctx_ok (c : ctxst) : Prop :=
  (c_onlist c = false -> c_freed c = true) /\ (c_freed c = true -> c_pend c = []) /\ (c_pub c = false -> c_pend c = []) /\
  (c_freed c = true -> c_onlist c = false).
Definition pipe_ok (p : pipest) : Prop := p_inmap p = true -> p_onlist p = true.
Definition ret_ok (s : st) (r : uop * N * nat) : Prop :=
  match r with
  | (USockClose, rv, role) =>
      rv = C_OK -> (role = R_SHUT -> holds s FShutDone /\ holds s FClosed /\ holds s FCtxsGone) /\
                   (role = R_DESTROY -> holds s FClosed /\ holds s FNoCtx /\ holds s FFreed)
  | _ => True
  end.

Definition SInv (s : st) : Prop :=
  Forall (chain_ok s []) (threads s) /\ chain_ok s [] (reaper s) /\
  Forall (ret_ok s) (rets s) /\
  (k_shutdone (sk s) = true -> holds s FNoPipes) /\
  ((k_closed (sk s) = true -> k_inmap (sk s) = false) /\ (k_freed (sk s) = true -> k_pend (sk s) = [])) /\
  (Forall ep_ok (eps s) /\ Forall ctx_ok (ctxs s)) /\ Forall pipe_ok (pipes s).

Lemma chain_persist s s1 l : persist s s1 -> chain_ok s [] l -> chain_ok s1 [] l.
Proof. intros Hp. apply chain_weaken; auto; intros f []. Qed.

Lemma ret_ok_persist s s1 r : persist s s1 -> ret_ok s r -> ret_ok s1 r.
Proof.
  intros Hp. destruct r as [[u rv] role]; destruct u; simpl; auto.
  intros H Hr. destruct (H Hr) as [H1 H2]. split; intros Hx.
  - destruct (H1 Hx) as (A & B & C). split; [apply (Hp FShutDone A)|split; [apply (Hp FClosed B)|apply (Hp FCtxsGone C)]].
  - destruct (H2 Hx) as (A & B & C). split; [apply (Hp FClosed A)|split; [apply (Hp FNoCtx B)|apply (Hp FFreed C)]].
Qed.

Lemma Forall_upd_at {A} (P : A -> Prop) (l : list A) i f x :
  nth_error l i = Some x -> (P x -> P (f x)) -> Forall P l -> Forall P (upd l i f).
Proof.
  revert i; induction l as [|y r IH]; intros [|i] E Hf F; simpl in *; try discriminate; inversion F; subst.
  - injection E as ->. constructor; auto.
  - constructor; eauto.
Qed.

Lemma close_pipes_ok sel l : forall i ps q, close_pipes i sel l = (ps, q) -> Forall pipe_ok l -> Forall pipe_ok ps.
Proof.
  induction l as [|y r IH]; intros i ps q H F; simpl in H.
  - injection H as <- <-; auto.
  - destruct (close_pipes (S i) sel r) as [r' q'] eqn:E. inversion F; subst.
    destruct (sel y && p_onlist y && negb (p_closed y)); injection H as <- <-; constructor; eauto;
      destruct y; unfold pipe_ok in *; simpl in *; auto.
Qed.

(* the per-object part of the invariant is preserved by every critical section *)
Definition sock_ok (s : st) : Prop :=
  (k_closed (sk s) = true -> k_inmap (sk s) = false) /\ (k_freed (sk s) = true -> k_pend (sk s) = []).

Ltac ep_case x := destruct x; unfold ep_ok in *; simpl in *;
  repeat match goal with H : _ /\ _ |- _ => destruct H end;
  repeat split; intros; subst; simpl in *; try congruence; try lia; auto;
  try (match goal with H : (_ =? _) = true |- _ => apply Nat.eqb_eq in H; subst; auto end);
  try (destruct e_closed; simpl in *; congruence).
Ltac ctx_case x := destruct x; unfold ctx_ok in *; simpl in *;
  repeat match goal with H : _ /\ _ |- _ => destruct H end;
  repeat split; intros; subst; simpl in *; try congruence; auto;
  try (match goal with H : ?b = false, H' : negb ?b = false |- _ => rewrite H in H'; discriminate H' end).

Lemma run_act_objs s a s1 more : run_act fixes_all s a = Some (s1, more) ->
  sock_ok s -> Forall ep_ok (eps s) -> Forall ctx_ok (ctxs s) -> Forall pipe_ok (pipes s) ->
  sock_ok s1 /\ Forall ep_ok (eps s1) /\ Forall ctx_ok (ctxs s1) /\ Forall pipe_ok (pipes s1).
Proof.
  intros H [K1 K3] FE FC FP. unfold sock_ok.
  destruct a; simpl in H;
    repeat (match type of H with
            | context[match ?x with _ => _ end] => destruct x eqn:?
            | context[if ?x then _ else _] => destruct x eqn:?
            end); try discriminate H; inv_some H; simpl;
    (split; [split|split; [|split]]); auto;
    try (intros; congruence);
    try (eapply close_pipes_ok; eauto; fail);
    try (eapply shut_ctxs_off; [| |eassumption|assumption]; intros c0 Hc0; ctx_case c0; fail);
    try (apply Forall_app1; [assumption|unfold ep_ok, pipe_ok, ctx_ok; simpl; repeat split; intros; congruence]);
    try (match goal with
         | E : nth_error (eps s) ?e = Some ?x |- Forall ep_ok (upd (eps s) ?e _) =>
             apply (Forall_upd_at ep_ok _ _ _ _ E); [|assumption]; intros Hx; ep_case x
         | E : nth_error (ctxs s) ?e = Some ?x |- Forall ctx_ok (upd (ctxs s) ?e _) =>
             apply (Forall_upd_at ctx_ok _ _ _ _ E); [|assumption]; intros Hx; ctx_case x
         | E : nth_error (pipes s) ?p = Some ?x |- Forall pipe_ok (upd (pipes s) ?p _) =>
             apply (Forall_upd_at pipe_ok _ _ _ _ E); [|assumption]; destruct x; unfold pipe_ok; simpl in *;
             intros A; intros; try congruence; auto
         end);
    try (apply Forall_upd; [intros x0 Hx; match type of x0 with epst => ep_case x0 | ctxst => ctx_case x0 | pipest => (destruct x0; unfold pipe_ok in *; simpl in *; intros; first [congruence|auto]) end|assumption]).
  all: try (match goal with H : _ || true = false |- _ => rewrite orb_true_r in H; discriminate H end).
  all: try (destruct e_closed, e_stopped; simpl in *; congruence).
Qed.



Ltac split7 := split; [|split; [|split; [|split; [|split; [|split]]]]].

Lemma persist_same s1 s2 : sk s2 = sk s1 -> eps s2 = eps s1 -> pipes s2 = pipes s1 -> ctxs s2 = ctxs s1 -> persist s1 s2.
Proof. intros A B C D f Hf. destruct f; unfold holds, all_eps_off, all_pipes_off, pub_ctxs_off, all_ctxs_off in *; rewrite ?A, ?B, ?C, ?D; exact Hf. Qed.

(* the part of the invariant that concerns the acting continuation and the logs, for a critical section *)
Lemma act_parts s a rest s1 more :
  chain_ok s [] (a :: rest) -> Forall (ret_ok s) (rets s) -> (k_shutdone (sk s) = true -> holds s FNoPipes) ->
  run_act fixes_all s a = Some (s1, more) ->
  chain_ok s1 [] (more ++ rest) /\ Forall (ret_ok s1) (rets s1) /\ (k_shutdone (sk s1) = true -> holds s1 FNoPipes).
Proof.
  intros [Hreq Hrest] Hret Hk2 Er. simpl in Hrest.
  pose proof (run_act_persist _ _ _ _ Er) as Hp1.
  assert (Hreq': forall f, In f (req a) -> holds s f) by (intros f Hf; destruct (Hreq f Hf) as [|[]]; auto).
  pose proof (act_chain _ _ _ _ Hreq' Er) as [Cm Ce].
  split; [|split].
  - apply chain_app; auto. rewrite app_nil_r.
    eapply chain_weaken; [exact Hp1| |exact Hrest]. intros f Hf. rewrite app_nil_r in Hf. apply Ce; auto.
  - assert (Hold: Forall (ret_ok s1) (rets s)).
    { eapply Forall_impl; [|exact Hret]. intros r Hr0. eapply ret_ok_persist; eauto. }
    destruct a; simpl in Er;
      try (repeat (match type of Er with
                   | context[match ?x with _ => _ end] => destruct x eqn:?
                   | context[if ?x then _ else _] => destruct x eqn:?
                   end); try discriminate Er; inv_some Er; simpl; exact Hold).
    (* ARet *)
    inv_some Er. simpl. apply Forall_app1; auto.
    destruct u; simpl; auto. intros ->.
    split; intros ->; simpl in Hreq'.
    + split; [apply (Hreq' FShutDone)|split; [apply (Hreq' FClosed)|apply (Hreq' FCtxsGone)]]; simpl; auto.
    + split; [apply (Hreq' FClosed)|split; [apply (Hreq' FNoCtx)|apply (Hreq' FFreed)]]; simpl; auto.
  - intros Hs. destruct (k_shutdone (sk s)) eqn:Es; [apply Hp1; auto|].
    (* it was set by this step: AProtoClose, whose requirement is exactly this fact *)
    destruct a; simpl in Er;
      try (repeat (match type of Er with
                   | context[match ?x with _ => _ end] => destruct x eqn:?
                   | context[if ?x then _ else _] => destruct x eqn:?
                   end); try discriminate Er; inv_some Er; simpl in Hs; congruence).
    apply Hp1. apply Hreq'. simpl; auto.
Qed.

Lemma SInv_step s l s' : SInv s -> step fixes_all s l = Some s' -> SInv s'.
Proof.
  intros (Ht & Hr & Hret & Hk2 & K & (FE & FC) & FP) Hstep.
  pose proof (step_persist _ _ _ Hstep) as Hp.
  assert (A1: Forall (chain_ok s' []) (threads s)) by (eapply Forall_impl; [|exact Ht]; intros t Hc; eapply chain_persist; eauto).
  assert (A2: chain_ok s' [] (reaper s)) by (eapply chain_persist; eauto).
  assert (A3: Forall (ret_ok s') (rets s)) by (eapply Forall_impl; [|exact Hret]; intros r Hr0; eapply ret_ok_persist; eauto).
  assert (A4: k_shutdone (sk s) = true -> holds s' FNoPipes) by (intros X; apply Hp; auto).
  destruct l; simpl in Hstep.
  - (* LSpawn *)
    destruct (handle_known s u); [|discriminate Hstep]. injection Hstep as <-.
    split7; auto.
    simpl. apply Forall_app1; [exact A1|]. destruct u; chain_triv.
  - (* LRun *)
    destruct (nth_error (threads s) k) as [[|a rest]|] eqn:Et; try discriminate Hstep.
    destruct (run_act fixes_all s a) as [[s1 more]|] eqn:Er; [|discriminate Hstep]. injection Hstep as <-.
    pose proof (run_act_frame _ _ _ _ _ Er) as [Ft Fr].
    destruct (act_parts _ _ _ _ _ (Forall_nth _ _ _ _ Ht Et) Hret Hk2 Er) as (B1 & B2 & B3).
    destruct (run_act_objs _ _ _ _ Er K FE FC FP) as (K1' & FE' & FC' & FP').
    set (s' := set_threads s1 (upd (threads s1) k (fun _ => more ++ rest))) in *.
    assert (Hps: persist s1 s') by (apply persist_same; reflexivity).
    split7.
    + change (threads s') with (upd (threads s1) k (fun _ => more ++ rest)). rewrite Ft.
      apply Forall_upd_set; [exact A1|]. eapply chain_persist; eauto.
    + change (reaper s') with (reaper s1). rewrite Fr. exact A2.
    + change (rets s') with (rets s1). eapply Forall_impl; [|exact B2]. intros r Hr0. eapply ret_ok_persist; eauto.
    + intros X. apply Hps. apply B3. exact X.
    + exact K1'.
    + split; [exact FE'|exact FC'].
    + exact FP'.
  - (* LReap *)
    destruct (reaper s) as [|a rest] eqn:Erp.
    + destruct (rq s) as [|[p|e] q] eqn:Eq; [discriminate Hstep| |]; injection Hstep as <-;
        split7; auto; chain_triv.
    + destruct (run_act fixes_all s a) as [[s1 more]|] eqn:Er; [|discriminate Hstep]. injection Hstep as <-.
      pose proof (run_act_frame _ _ _ _ _ Er) as [Ft Fr].
      destruct (act_parts _ _ _ _ _ Hr Hret Hk2 Er) as (B1 & B2 & B3).
      destruct (run_act_objs _ _ _ _ Er K FE FC FP) as (K1' & FE' & FC' & FP').
      set (s' := set_reaper s1 (more ++ rest)) in *.
      assert (Hps: persist s1 s') by (apply persist_same; reflexivity).
      split7.
      * change (threads s') with (threads s1). rewrite Ft. exact A1.
      * change (reaper s') with (more ++ rest). eapply chain_persist; eauto.
      * change (rets s') with (rets s1). eapply Forall_impl; [|exact B2]. intros r Hr0. eapply ret_ok_persist; eauto.
      * intros X. apply Hps. apply B3. exact X.
      * exact K1'.
      * split; [exact FE'|exact FC'].
      * exact FP'.
  - (* LEpCb *)
    destruct (nth_error (eps s) e) as [x|] eqn:E; [|discriminate Hstep].
    destruct (e_busy x) eqn:Eb; [discriminate Hstep|]. injection Hstep as <-.
    split7; auto. split; [|exact FC]. simpl.
    apply (Forall_upd_at ep_ok _ _ _ _ E); auto. intros Hx. ep_case x.
  - (* LPipeCb *)
    destruct (nth_error (pipes s) p) as [x|] eqn:E; [|discriminate Hstep].
    destruct (p_busy x); [discriminate Hstep|]. injection Hstep as <-.
    split7; auto; simpl.
    all: try (apply (Forall_upd_at pipe_ok _ _ _ _ E); auto; destruct x; unfold pipe_ok; simpl; auto).
  - (* LComplete *)
    destruct K as [K1 K3].
    destruct (has_aio a (k_pend (sk s))).
    { injection Hstep as <-; split7; auto. split; simpl; auto. intros X. rewrite (K3 X). reflexivity. }
    destruct (existsb (fun c => has_aio a (c_pend c)) (ctxs s)); [|discriminate Hstep].
    injection Hstep as <-; split7; auto. split; [exact FE|]. simpl.
    rewrite Forall_map. eapply Forall_impl; [|exact FC]. intros c Hc. ctx_case c;
      match goal with H : _ -> ?l = [] |- _ => rewrite H by auto; reflexivity end.
  - (* LPipeCreate *)
    destruct (nth_error (eps s) e) as [x|] eqn:E; [|discriminate Hstep].
    destruct (e_tranclosed x || e_freed x || negb (e_onlist x)); [discriminate Hstep|]. injection Hstep as <-.
    split7; auto; simpl.
    all: try (apply Forall_app1; auto). all: try (unfold pipe_ok; simpl; auto; fail). all: try chain_triv.
  - (* LPipeOp *)
    destruct (nth_error (pipes s) p) as [x|] eqn:E; [|discriminate Hstep].
    destruct (p_stopped x || p_freed x); [discriminate Hstep|]. injection Hstep as <-.
    split7; auto; simpl.
    all: try (apply (Forall_upd_at pipe_ok _ _ _ _ E); auto; destruct x; unfold pipe_ok; simpl; auto).
  - (* LEpOp *)
    destruct (nth_error (eps s) e) as [x|] eqn:E; [|discriminate Hstep].
    destruct (e_stopped x || e_freed x) eqn:Eb; [discriminate Hstep|]. injection Hstep as <-.
    split7; auto. split; [|exact FC]. simpl.
    apply (Forall_upd_at ep_ok _ _ _ _ E); auto. intros Hx. apply orb_false_elim in Eb as [Eb _]. ep_case x.
  - (* LDevStart *)
    destruct (k_closing (sk s) || k_closed (sk s) || k_device (sk s) || k_freed (sk s)) eqn:Eb; [discriminate Hstep|].
    injection Hstep as <-. split7; auto.
    all: try (destruct K as [K1 K3]; split; simpl; auto).
    all: try (intros X; apply orb_false_elim in Eb as [Eb _]; apply orb_false_elim in Eb as [Eb _]; apply orb_false_elim in Eb as [_ Eb]; congruence).
Qed.

Lemma SInv_init ph l f : SInv (init ph l f).
Proof. unfold SInv, init; simpl. split7; auto; try (intros X; discriminate X). all: try (split; intros X; [discriminate X|reflexivity]). Qed.

Theorem SInv_run ls : forall s s', SInv s -> run fixes_all s ls = Some s' -> SInv s'.
Proof.
  induction ls as [|l r IH]; intros s s' Hi H; simpl in H.
  - injection H as <-; auto.
  - destruct (step fixes_all s l) as [s1|] eqn:E; [|discriminate H]. apply (IH s1 s'); auto. eapply SInv_step; eauto.
Qed.

(* ================================================================ close_handles_invalid *)
Definition handles_invalid (s : st) : Prop :=
  find_sock s <> None /\
  (forall c, find_ctx s c <> None) /\
  (forall e x, nth_error (eps s) e = Some x -> e_pub x = true -> find_ep s e <> None) /\
  (forall p, find_pipe s p <> None).

Lemma shut_closed_invalid s : SInv s -> k_shutdone (sk s) = true -> k_closed (sk s) = true -> handles_invalid s.
Proof.
  intros (_ & _ & _ & Hk2 & (K1 & _) & (FE & _) & FP) Hs Hc.
  destruct (Hk2 Hs) as (_ & Heo & Hpo).
  unfold handles_invalid. split; [|split; [|split]].
  - unfold find_sock. rewrite (K1 Hc). discriminate.
  - intros c. unfold find_ctx. destruct (nth_error (ctxs s) c); [|discriminate].
    destruct (c_inmap c0); [|discriminate]. rewrite Hc, orb_true_r. discriminate.
  - intros e x E Hp. unfold find_ep. rewrite E.
    pose proof (Forall_nth _ _ _ _ FE E) as (E1 & E2 & _). pose proof (Forall_nth _ _ _ _ Heo E) as Ho. simpl in Ho.
    destruct (e_closed x) eqn:Ecl.
    + rewrite E1 by auto. discriminate.
    + rewrite E2 in Ho by auto. discriminate Ho.
  - intros p. unfold find_pipe. destruct (nth_error (pipes s) p) as [x|] eqn:E; [|discriminate].
    pose proof (Forall_nth _ _ _ _ FP E) as P1. pose proof (Forall_nth _ _ _ _ Hpo E) as Ho. simpl in Ho.
    destruct (p_inmap x) eqn:Ei; [|discriminate]. rewrite P1 in Ho by auto. discriminate Ho.
Qed.

(* In every state of every run: once a nng_socket_close that ran the shutdown (the first closer) has returned 0,
   the socket's handle, every context handle, every endpoint handle handed to the application and every pipe
   handle is invalid (find fails); rets only grows and the statement holds in all later states as well. *)
Theorem close_handles_invalid_shut ph la fi ls s :
  run fixes_all (init ph la fi) ls = Some s ->
  In (USockClose, C_OK, R_SHUT) (rets s) -> handles_invalid s.
Proof.
  intros Hr Hin. pose proof (SInv_run _ _ _ (SInv_init ph la fi) Hr) as Hi.
  pose proof Hi as (_ & _ & Hret & _).
  rewrite Forall_forall in Hret. specialize (Hret _ Hin). simpl in Hret.
  destruct (Hret eq_refl) as [H1 _]. destruct (H1 eq_refl) as (Hs & Hc & _). apply shut_closed_invalid; auto.
Qed.

(* any nng_socket_close that returned 0 as the destroyer: the socket and its contexts are invalid (the endpoints and
   pipes too when the shutdown it waited for has completed: see close_destroyer_partial) *)
Theorem close_handles_invalid_destroy ph la fi ls s :
  run fixes_all (init ph la fi) ls = Some s ->
  In (USockClose, C_OK, R_DESTROY) (rets s) ->
  find_sock s <> None /\ (forall c, find_ctx s c <> None) /\ (k_shutdone (sk s) = true -> handles_invalid s).
Proof.
  intros Hr Hin. pose proof (SInv_run _ _ _ (SInv_init ph la fi) Hr) as Hi.
  pose proof Hi as (_ & _ & Hret & _ & (K1 & _) & _).
  rewrite Forall_forall in Hret. specialize (Hret _ Hin). simpl in Hret.
  destruct (Hret eq_refl) as [_ H2]. destruct (H2 eq_refl) as (H2' & _). clear H2. rename H2' into H2.
  split; [|split].
  - unfold find_sock. rewrite (K1 H2). discriminate.
  - intros c. unfold find_ctx. destruct (nth_error (ctxs s) c); [|discriminate].
    destruct (c_inmap c0); [|discriminate]. rewrite H2, orb_true_r. discriminate.
  - intros Hs. apply shut_closed_invalid; auto.
Qed.

(* ================================================================ close_completes_pending *)
(* The first closer (it ran the shutdown) has returned 0: no operation is pending on any context
   or on any endpoint the application knows. *)
Theorem close_completes_pending_shut ph la fi ls s :
  run fixes_all (init ph la fi) ls = Some s ->
  In (USockClose, C_OK, R_SHUT) (rets s) ->
  (forall c x, nth_error (ctxs s) c = Some x -> c_pend x = []) /\
  (forall e x, nth_error (eps s) e = Some x -> e_pub x = true -> e_pend x = []).
Proof.
  intros Hr Hin. pose proof (SInv_run _ _ _ (SInv_init ph la fi) Hr) as Hi.
  pose proof Hi as (_ & _ & Hret & Hk2 & _ & (FE & FC) & _).
  rewrite Forall_forall in Hret. specialize (Hret _ Hin). simpl in Hret.
  destruct (Hret eq_refl) as [H1 _]. destruct (H1 eq_refl) as (Hs & Hc & (_ & Hg)).
  destruct (Hk2 Hs) as (_ & Heo & _).
  split.
  - intros c x E. pose proof (Forall_nth _ _ _ _ FC E) as (C1 & C2 & C3 & _).
    pose proof (Forall_nth _ _ _ _ Hg E) as Hp. simpl in Hp.
    destruct (c_pub x) eqn:Epub; [|auto]. apply C2, C1; auto.
  - intros e x E Hp. pose proof (Forall_nth _ _ _ _ FE E) as (_ & _ & E3 & E4 & E5).
    pose proof (Forall_nth _ _ _ _ Heo E) as Ho. simpl in Ho. auto.
Qed.

(* The closer that destroyed the socket has returned 0: nothing is pending on the socket or on any
   context (and on no endpoint either once the shutdown has completed). *)
Theorem close_completes_pending_destroy ph la fi ls s :
  run fixes_all (init ph la fi) ls = Some s ->
  In (USockClose, C_OK, R_DESTROY) (rets s) ->
  k_pend (sk s) = [] /\ (forall c x, nth_error (ctxs s) c = Some x -> c_pend x = []) /\
  (k_shutdone (sk s) = true -> forall e x, nth_error (eps s) e = Some x -> e_pub x = true -> e_pend x = []).
Proof.
  intros Hr Hin. pose proof (SInv_run _ _ _ (SInv_init ph la fi) Hr) as Hi.
  pose proof Hi as (_ & _ & Hret & Hk2 & (_ & K3) & (FE & FC) & _).
  rewrite Forall_forall in Hret. specialize (Hret _ Hin). simpl in Hret.
  destruct (Hret eq_refl) as [_ H2]. destruct (H2 eq_refl) as (Hc & (_ & Hn) & Hf). simpl in Hf.
  split; [auto|split].
  - intros c x E. pose proof (Forall_nth _ _ _ _ FC E) as (C1 & C2 & _ & _).
    pose proof (Forall_nth _ _ _ _ Hn E) as Ho. simpl in Ho. auto.
  - intros Hs e x E Hp. destruct (Hk2 Hs) as (_ & Heo & _).
    pose proof (Forall_nth _ _ _ _ FE E) as (_ & _ & E3 & E4 & E5).
    pose proof (Forall_nth _ _ _ _ Heo E) as Ho. simpl in Ho. auto.
Qed.

(* ================================================================ double close *)
(* a further nng_socket_close on the handle of a closed socket fails in its find: it returns NNG_ECLOSED
   and touches nothing *)
Lemma second_close_fails fx s : find_sock s <> None ->
  exists rv, run_act fx s (AFind USockClose) = Some (s, [ARet USockClose rv R_NA]) /\ rv <> C_OK.
Proof.
  intros H. simpl. destruct (find_sock s) as [rv|] eqn:E; [|congruence].
  exists rv. split; auto. unfold find_sock in E.
  destruct (k_inmap (sk s)); [destruct (k_closed (sk s)); [|destruct (k_device (sk s))]|]; try discriminate E;
    injection E as <-; discriminate.
Qed.

(* selection by the source's form (see CloseTerm.terminates_sel) *)
Definition HandlesInvalid (fx : fixes) : Prop :=
  forall ph la fi ls s, run fx (init ph la fi) ls = Some s ->
    (In (USockClose, C_OK, R_SHUT) (rets s) -> handles_invalid s) /\
    (In (USockClose, C_OK, R_DESTROY) (rets s) ->
       find_sock s <> None /\ (forall c, find_ctx s c <> None) /\ (k_shutdone (sk s) = true -> handles_invalid s)).
Definition CompletesPending (fx : fixes) : Prop :=
  forall ph la fi ls s, run fx (init ph la fi) ls = Some s ->
    (In (USockClose, C_OK, R_SHUT) (rets s) ->
       (forall c x, nth_error (ctxs s) c = Some x -> c_pend x = []) /\
       (forall e x, nth_error (eps s) e = Some x -> e_pub x = true -> e_pend x = [])) /\
    (In (USockClose, C_OK, R_DESTROY) (rets s) ->
       k_pend (sk s) = [] /\ (forall c x, nth_error (ctxs s) c = Some x -> c_pend x = []) /\
       (k_shutdone (sk s) = true -> forall e x, nth_error (eps s) e = Some x -> e_pub x = true -> e_pend x = [])).

Theorem handles_sel fx : if all_fixed fx then HandlesInvalid fx else pinned_defect fx.
Proof.
  destruct (all_fixed fx) eqn:E; [|apply pinned_defect_holds; auto].
  apply all_fixed_eq in E; subst. intros ph la fi ls s Hr. split; intros Hin.
  - eapply close_handles_invalid_shut; eauto.
  - eapply close_handles_invalid_destroy; eauto.
Qed.

Theorem pending_sel fx : if all_fixed fx then CompletesPending fx else pinned_defect fx.
Proof.
  destruct (all_fixed fx) eqn:E; [|apply pinned_defect_holds; auto].
  apply all_fixed_eq in E; subst. intros ph la fi ls s Hr. split; intros Hin.
  - eapply close_completes_pending_shut; eauto.
  - eapply close_completes_pending_destroy; eauto.
Qed.

(* ================================================================ contexts *)
(* sock_shutdown marks EVERY context closed and destroys the idle ones; a busy one (referenced by a call of
   another thread between its nni_ctx_find and nni_ctx_rele) is destroyed by its last release, because
   c_closed is set.  In every reachable state a context is destroyed (c_freed) iff it has left s_ctxs, a
   destroyed context has nothing pending, and ctx_fini only ever runs on a context that is still on the
   list (shut_ctxs, ACtxRele): so every context is finalized at most once; by the time the destroying
   close returns every context has been finalized: exactly once. *)
Theorem contexts_destroyed ph la fi ls s :
  run fixes_all (init ph la fi) ls = Some s ->
  (forall c x, nth_error (ctxs s) c = Some x -> (c_freed x = true <-> c_onlist x = false) /\ (c_freed x = true -> c_pend x = [])) /\
  (In (USockClose, C_OK, R_DESTROY) (rets s) ->
     forall c x, nth_error (ctxs s) c = Some x -> c_freed x = true /\ c_inmap x = false \/ c_freed x = true).
Proof.
  intros Hr. pose proof (SInv_run _ _ _ (SInv_init ph la fi) Hr) as Hi.
  pose proof Hi as (_ & _ & Hret & _ & _ & (_ & FC) & _).
  split.
  - intros c x E. pose proof (Forall_nth _ _ _ _ FC E) as (C1 & C2 & _ & C4). repeat split; auto.
  - intros Hin c x E. rewrite Forall_forall in Hret. specialize (Hret _ Hin). simpl in Hret.
    destruct (Hret eq_refl) as [_ H2]. destruct (H2 eq_refl) as (_ & (_ & Hn) & _).
    pose proof (Forall_nth _ _ _ _ FC E) as (C1 & _). pose proof (Forall_nth _ _ _ _ Hn E) as Ho. simpl in Ho.
    right. auto.
Qed.

Definition ContextsDestroyed (fx : fixes) : Prop :=
  forall ph la fi ls s, run fx (init ph la fi) ls = Some s ->
    (forall c x, nth_error (ctxs s) c = Some x -> (c_freed x = true <-> c_onlist x = false) /\ (c_freed x = true -> c_pend x = [])) /\
    (In (USockClose, C_OK, R_DESTROY) (rets s) -> forall c x, nth_error (ctxs s) c = Some x -> c_freed x = true).

Theorem contexts_sel fx : if all_fixed fx then ContextsDestroyed fx else pinned_defect fx.
Proof.
  destruct (all_fixed fx) eqn:E; [|apply pinned_defect_holds; auto].
  apply all_fixed_eq in E; subst. intros ph la fi ls s Hr.
  destruct (contexts_destroyed _ _ _ _ _ Hr) as [A B]. split; auto.
  intros Hin c x Ex. destruct (B Hin c x Ex) as [[H _]|H]; auto.
Qed.
