(* CloseSafe: safety invariants of the repaired close model (property C10): handles invalid
   after close, pending sets empty when close returns.  (Under construction: see Properties_C10.v
   for what is stated.) *)
From Coq Require Import List Arith NArith Bool Lia.
Import ListNotations.
From NngV Require Import Core.CloseModel Core.CloseProofs Core.CloseTerm.
