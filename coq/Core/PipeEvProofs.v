(* PipeEvProofs: lemmas about Core/PipeEvModel.v (statements are repeated in Props/Properties_C14.v). *)
From Coq Require Import List Arith NArith Bool Lia.
From NngV Require Import Core.PipeEvModel.
Import ListNotations.
Local Open Scope N_scope.

(* ------------------------------------------------------------------ the filter *)
Lemma filter_true : forall last ev, run_cb_filter last ev = true -> last < ev /\ (last = 0 -> ev = 1).
Proof.
  intros last ev. unfold run_cb_filter, EV_NONE, EV_ADD_PRE.
  destruct (N.eqb_spec last 0); destruct (N.eqb_spec ev 1); simpl; try discriminate;
    destruct (N.leb_spec ev last); try discriminate; intros _; split; try lia; intros; try lia.
Qed.

Lemma filter_false_ge : forall last ev, 1 <= last -> run_cb_filter last ev = false -> ev <= last.
Proof.
  intros last ev H. unfold run_cb_filter, EV_NONE.
  destruct (N.eqb_spec last 0); [lia|]. simpl. destruct (N.leb_spec ev last); [auto|discriminate].
Qed.

Lemma filter_pre_from_none : run_cb_filter 0 1 = true.
Proof. reflexivity. Qed.

Fixpoint incr (a : N) (l : list N) : Prop :=
  match l with [] => True | x :: r => a < x /\ incr x r end.
Definition hd_pre (l : list N) : Prop := match l with [] => True | x :: _ => x = 1 end.

Lemma last_indep : forall (r : list N) y d d', last (y :: r) d = last (y :: r) d'.
Proof. induction r as [|z r IH]; intros; [reflexivity|]. change (last (z :: r) d = last (z :: r) d'). apply IH. Qed.

Lemma incr_snoc : forall l a ev, incr a l -> last l a < ev -> incr a (l ++ [ev]).
Proof.
  induction l as [|x r IH]; intros a ev H L.
  - simpl in *. split; [exact L|exact I].
  - destruct H as [H1 H2]. change (a < x /\ incr x (r ++ [ev])). split; [exact H1|]. apply IH; [exact H2|].
    destruct r as [|y r']; [exact L|]. rewrite (last_indep r' y x a). exact L.
Qed.

Lemma last_snoc : forall (l : list N) a ev, last (l ++ [ev]) a = ev.
Proof. induction l as [|x r IH]; intros; simpl; auto. destruct (r ++ [ev]) eqn:E; [destruct r; discriminate|]. rewrite <- E. apply IH. Qed.

Lemma incr_weaken : forall l a b, b <= a -> incr a l -> incr b l.
Proof. destruct l; simpl; intros; auto. destruct H0; split; auto; lia. Qed.

(* a strictly increasing list within 1..3 that starts with 1 *)
Lemma ordered_of_incr : forall l, incr 0 l -> hd_pre l -> Forall (fun x => x <= 3) l -> ev_ordered l.
Proof.
  intros l H P F. unfold ev_ordered, EV_ADD_PRE, EV_ADD_POST, EV_REM_POST.
  destruct l as [|x [|y [|z [|u r]]]]; simpl in *; auto.
  - subst x. auto.
  - subst x. destruct H as [_ [H _]]. inversion F as [|? ? _ F1]; subst. inversion F1 as [|? ? Fy _]; subst.
    assert (y = 2 \/ y = 3) as [-> | ->] by lia; auto.
  - subst x. destruct H as [_ [H1 [H2 _]]]. inversion F as [|? ? _ F1]; subst. inversion F1 as [|? ? _ F2]; subst.
    inversion F2 as [|? ? Fz _]; subst. assert (y = 2) by lia. assert (z = 3) by lia. subst. auto 6.
  - subst x. destruct H as [_ [H1 [H2 [H3 _]]]]. inversion F as [|? ? _ F1]; subst. inversion F1 as [|? ? _ F2]; subst.
    inversion F2 as [|? ? _ F3]; subst. inversion F3 as [|? ? Fu _]; subst. lia.
Qed.

(* ---- any sequence of run_cb calls ---- *)
Lemma run_cb_seq_incr : forall calls lst,
  incr lst (run_cb_seq calls lst) /\ (lst = 0 -> hd_pre (run_cb_seq calls lst)).
Proof.
  induction calls as [|[w ev] r IH]; intros lst; simpl.
  - split; [exact I|intros; exact I].
  - unfold run_cb1. destruct (w && run_cb_filter lst ev) eqn:E.
    + apply andb_true_iff in E. destruct E as [_ E]. apply filter_true in E. destruct E as [E1 E2].
      simpl. destruct (IH ev) as [I1 _]. split; [split; auto|]. intros Z. simpl. auto.
    + simpl. apply IH.
Qed.

Lemma run_cb_seq_in : forall calls lst x, In x (run_cb_seq calls lst) -> exists w, In (w, x) calls.
Proof.
  induction calls as [|[w ev] r IH]; intros lst x H; simpl in *; [contradiction|].
  unfold run_cb1 in H. destruct (w && run_cb_filter lst ev).
  - simpl in H. destruct H as [<- | H]; [exists w; auto|]. destruct (IH _ _ H) as [w' Hw]. exists w'; auto.
  - simpl in H. destruct (IH _ _ H) as [w' Hw]. exists w'; auto.
Qed.

Theorem run_cb_seq_ordered : forall calls,
  (forall w ev, In (w, ev) calls -> 1 <= ev <= 3) -> ev_ordered (run_cb_seq calls EV_NONE).
Proof.
  intros calls H. destruct (run_cb_seq_incr calls 0) as [I1 I2].
  apply ordered_of_incr; auto. apply Forall_forall. intros x Hx.
  destruct (run_cb_seq_in _ _ _ Hx) as [w Hw]. apply H in Hw. lia.
Qed.

(* with arbitrary event arguments: still strictly increasing and starting with ADD_PRE *)
Theorem run_cb_seq_monotone : forall calls,
  incr 0 (run_cb_seq calls EV_NONE) /\ hd_pre (run_cb_seq calls EV_NONE).
Proof. intros. destruct (run_cb_seq_incr calls 0); auto. Qed.

(* ------------------------------------------------------------------ lists *)
Lemma Forall_upd : forall (A : Type) (P : A -> Prop) f l i,
  (forall x, P x -> P (f x)) -> Forall P l -> Forall P (upd l i f).
Proof.
  intros A P f. induction l as [|x r IH]; intros i Hf H; simpl.
  - destruct i; constructor.
  - inversion H; subst. destruct i; constructor; auto.
Qed.

(* how one step changes the list of pipes *)
Inductive evolve (okl : plabel -> Prop) (cre : bool) : list pipe -> list pipe -> Prop :=
| ev_refl : forall l, evolve okl cre l l
| ev_upd : forall l i lab, okl lab -> evolve okl cre l (upd l i (fun p => pstep p lab))
| ev_new : forall l, cre = true -> evolve okl cre l (l ++ [pipe_new])
| ev_map : forall l (g : pipe -> bool), okl LClose ->
    evolve okl cre l (map (fun p => if g p then pstep p LClose else p) l)
| ev_trans : forall a b c, evolve okl cre a b -> evolve okl cre b c -> evolve okl cre a c.

Lemma evolve_forall : forall (P : pipe -> Prop) (okl : plabel -> Prop) cre l l',
  (cre = true -> P pipe_new) -> (forall p lab, okl lab -> P p -> P (pstep p lab)) ->
  evolve okl cre l l' -> Forall P l -> Forall P l'.
Proof.
  intros P okl cre l l' Hn Hs E. induction E; intros F; auto.
  - apply Forall_upd; auto.
  - apply Forall_app; split; auto.
  - apply Forall_forall. intros x Hx. apply in_map_iff in Hx. destruct Hx as [y [<- Hy]].
    rewrite Forall_forall in F. destruct (g y); auto.
Qed.

(* labels a step of the socket uses: everything, with LRead carrying the CURRENT s_want_evs *)
Definition okl_of (want : bool) (l : plabel) : Prop :=
  match l with LRead _ w _ _ _ => w = want | _ => True end.

Lemma pipes_set_ser : forall s v, pipes (set_ser s v) = pipes s.
Proof. reflexivity. Qed.
Lemma pipes_plocal : forall s i l, pipes (plocal s i l) = upd (pipes s) i (fun p => pstep p l).
Proof. reflexivity. Qed.
Lemma pipes_set_cb : forall s ev on, pipes (set_cb s ev on) = pipes s.
Proof. intros. unfold set_cb. destruct (_ && _); reflexivity. Qed.

Lemma close_pipe_is_pstep : forall p, close_pipe p = pstep p LClose.
Proof. reflexivity. Qed.

Lemma sstep_evolve : forall s o,
  evolve (okl_of (s_want s)) (negb (s_eps_stopped s)) (pipes s) (pipes (sstep s o)).
Proof.
  intros s o. destruct o; unfold sstep.
  - destruct (s_eps_stopped s) eqn:E; [apply ev_refl|]. unfold set_pipes; simpl. apply ev_new; reflexivity.
  - destruct (s_eps_stopped s); [apply ev_refl|]. rewrite pipes_plocal. apply ev_upd; exact I.
  - rewrite pipes_plocal. apply ev_upd. reflexivity.
  - destruct (nth_error (pipes s) i); [|apply ev_refl]. destruct (at_enter p w) as [[|]|]; try apply ev_refl.
    + destruct (s_ser s); [apply ev_refl|]. rewrite pipes_set_ser, pipes_plocal. apply ev_upd; exact I.
    + rewrite pipes_plocal. apply ev_upd; exact I.
  - destruct (s_ser s) as [[j w']|]; [|apply ev_refl].
    destruct (_ && _); [|apply ev_refl]. destruct a.
    + destruct (_ && _).
      * rewrite pipes_plocal. apply ev_upd; exact I.
      * rewrite pipes_plocal. apply ev_upd; exact I.
    + rewrite pipes_set_cb. apply ev_refl.
  - destruct (s_ser s) as [[j w']|]; [|apply ev_refl].
    destruct (_ && _); [|apply ev_refl]. rewrite pipes_set_ser, pipes_plocal. apply ev_upd; exact I.
  - rewrite pipes_plocal. apply ev_upd; exact I.
  - rewrite pipes_plocal. apply ev_upd; exact I.
  - rewrite pipes_plocal. apply ev_upd; exact I.
  - rewrite pipes_plocal. apply ev_upd; exact I.
  - rewrite pipes_set_cb. apply ev_refl.
  - simpl. apply ev_refl.
  - destruct (_ && _); simpl; apply ev_refl.
  - destruct (s_eps_stopped s); [|apply ev_refl]. simpl.
    apply (ev_map _ _ (pipes s) (fun p => p_onsock p)). exact I.
  - destruct (_ && _); simpl; apply ev_refl.
Qed.

(* ------------------------------------------------------------------ ordering, for every history *)
Lemma subseq_snoc_r : forall (A : Type) (a b : list A) x, subseq a b -> subseq a (b ++ [x]).
Proof. intros A a b x H. induction H; simpl; [apply ss_skip; apply ss_nil|apply ss_skip; auto|apply ss_take; auto]. Qed.
Lemma subseq_snoc_both : forall (A : Type) (a b : list A) x, subseq a b -> subseq (a ++ [x]) (b ++ [x]).
Proof. intros A a b x H. induction H; simpl; [apply ss_take; apply ss_nil|apply ss_skip; auto|apply ss_take; auto]. Qed.

Definition PInvO (p : pipe) : Prop :=
  incr 0 (g_fired p) /\ hd_pre (g_fired p) /\ last (g_fired p) 0 = p_last p /\
  Forall (fun x => x <= 3) (g_fired p) /\
  incr 0 (g_cbs p) /\ last (g_cbs p) 0 <= p_last p /\ Forall (fun x => x <= 3) (g_cbs p) /\
  subseq (g_cbs p) (g_fired p).

Lemma PInvO_ext : forall p p', g_fired p' = g_fired p -> g_cbs p' = g_cbs p -> p_last p' = p_last p ->
  PInvO p -> PInvO p'.
Proof. unfold PInvO. intros p p' -> -> ->. auto. Qed.

Lemma hd_pre_snoc : forall l ev, hd_pre l -> (last l 0 = 0 -> ev = 1) -> incr 0 l -> hd_pre (l ++ [ev]).
Proof.
  destruct l as [|x r]; simpl; intros ev H L I0; auto.
Qed.

Lemma fire_PInvO : forall p ev cb, PInvO p -> run_cb_filter (p_last p) ev = true -> ev <= 3 -> PInvO (fire p ev cb).
Proof.
  intros p ev cb (I1 & H1 & L1 & F1 & I2 & L2 & F2 & S2) Ft E3.
  apply filter_true in Ft. destruct Ft as [Lt Z].
  unfold PInvO, fire; simpl. repeat split.
  - apply incr_snoc; auto. rewrite L1. exact Lt.
  - apply hd_pre_snoc; auto. rewrite L1. exact Z.
  - apply last_snoc.
  - apply Forall_app; split; auto.
  - destruct cb; auto. apply incr_snoc; auto. lia.
  - destruct cb; [rewrite last_snoc; lia|lia].
  - destruct cb; auto. apply Forall_app; split; auto.
  - destruct cb; [apply subseq_snoc_both|apply subseq_snoc_r]; auto.
Qed.

Lemma close_pipe_fields : forall p,
  g_fired (close_pipe p) = g_fired p /\ g_cbs (close_pipe p) = g_cbs p /\ p_last (close_pipe p) = p_last p /\
  p_spc (close_pipe p) = p_spc p /\ p_onsock (close_pipe p) = p_onsock p /\ p_pstarted (close_pipe p) = p_pstarted p /\
  g_closed_at_check (close_pipe p) = g_closed_at_check p /\ g_closed_in_pre (close_pipe p) = g_closed_in_pre p /\
  p_closed (close_pipe p) = true.
Proof. intros p. unfold close_pipe. destruct (p_closed p) eqn:E; simpl; repeat split; auto. Qed.

Lemma enter_PInvO : forall p ev want cb incb after,
  ev <= 3 -> (forall q, PInvO q -> PInvO (incb q)) -> (forall q, PInvO q -> PInvO (after q)) ->
  PInvO p -> PInvO (enter p ev want cb incb after).
Proof.
  intros p ev want cb incb after E Hi Ha H. unfold enter.
  destruct want; auto. destruct (run_cb_filter (p_last p) ev) eqn:F; auto.
  destruct cb; [apply Hi|apply Ha]; apply fire_PInvO; auto.
Qed.

Lemma pstep_PInvO : forall p l, PInvO p -> PInvO (pstep p l).
Proof.
  intros p l H.
  assert (Hs : forall q v, PInvO q -> PInvO (set_spc q v)) by (intros; eapply PInvO_ext; eauto).
  assert (Hr : forall q v, PInvO q -> PInvO (set_rpc q v)) by (intros; eapply PInvO_ext; eauto).
  assert (Hc : forall q, PInvO q -> PInvO (close_pipe q)).
  { intros q Hq. destruct (close_pipe_fields q) as (A & B & C & _). eapply PInvO_ext; eauto. }
  destruct l; simpl.
  - destruct (p_spc p); auto.
  - destruct w; [destruct (p_spc p)|destruct (p_rpc p)]; auto.
  - destruct w; [destruct (p_spc p)|destruct (p_rpc p)]; auto;
      apply enter_PInvO; auto; unfold EV_ADD_PRE, EV_ADD_POST, EV_REM_POST, after_pre, after_post, after_rem; auto; lia.
  - destruct w; [destruct (p_spc p)|destruct (p_rpc p)]; auto; unfold after_pre, after_post, after_rem; auto.
  - destruct (close_pipe_fields p) as (A & B & C & _).
    destruct (p_spc p); auto; eapply PInvO_ext; [| | |exact H]; simpl; auto.
  - destruct (p_spc p); auto.
  - destruct (p_spc p); auto. destruct ok; auto.
  - auto.
  - destruct (p_rpc p); auto.
Qed.

Lemma pipe_new_PInvO : PInvO pipe_new.
Proof. unfold PInvO, pipe_new; simpl. repeat split; auto; try lia. apply ss_nil. Qed.

Lemma srun_forall : forall (P : pipe -> Prop),
  P pipe_new -> (forall p l, P p -> P (pstep p l)) ->
  forall ops s, Forall P (pipes s) -> Forall P (pipes (srun s ops)).
Proof.
  intros P Hn Hs. induction ops as [|o r IH]; intros s F; simpl; auto.
  apply IH. eapply evolve_forall; [| |apply sstep_evolve|exact F]; auto.
Qed.

Theorem events_ordered_all_histories : forall ops s p,
  s = srun sock_init ops -> In p (pipes s) ->
  ev_ordered (g_fired p) /\ subseq (g_cbs p) (g_fired p).
Proof.
  intros ops s p -> Hin.
  assert (F : Forall PInvO (pipes (srun sock_init ops))).
  { apply srun_forall; [apply pipe_new_PInvO|apply pstep_PInvO|constructor]. }
  rewrite Forall_forall in F. destruct (F _ Hin) as (I1 & H1 & L1 & F1 & I2 & L2 & F2 & S2).
  split; [apply ordered_of_incr; auto|auto].
Qed.

(* ------------------------------------------------------------------ closed inside ADD_PRE *)
Definition before_post (c : spc) : bool :=
  match c with SIdle | SPreRead | SPreEnter _ _ | SPreInCb | SCheck | SProto => true | _ => false end.

Definition PInvJ (p : pipe) : Prop :=
  (p_pstarted p = true -> before_post (p_spc p) = false) /\
  (g_closed_in_pre p = true ->
     p_closed p = true /\ p_pstarted p = false /\ (p_spc p = SPreInCb \/ p_spc p = SCheck \/ p_spc p = SDone)) /\
  (g_closed_at_check p = true -> p_pstarted p = false /\ p_spc p = SDone).

Ltac jfin := repeat split; intros; try discriminate; try congruence;
  intuition (try discriminate; try congruence).

Lemma pstep_PInvJ : forall p l, PInvJ p -> PInvJ (pstep p l).
Proof.
  intros [lst closed spc rpc onsock pst fired cbs gcc gcp] l.
  unfold PInvJ; simpl.
  destruct l as [ | w want c1 c2 c3 | w | w | | | ok | | ]; simpl.
  - destruct spc; simpl; jfin.
  - destruct w; [destruct spc|destruct rpc]; simpl; jfin.
  - destruct w; [destruct spc|destruct rpc]; simpl; try (jfin; fail);
      unfold enter, fire, after_pre, after_post, after_rem, set_spc, set_rpc; simpl;
      destruct want; simpl; try (jfin; fail);
      match goal with |- context [run_cb_filter ?a ?b] => destruct (run_cb_filter a b) end; simpl; try (jfin; fail);
      destruct cb; simpl; jfin.
  - destruct w; [destruct spc|destruct rpc]; simpl; jfin.
  - unfold close_pipe; simpl. destruct closed, pst; destruct spc; simpl; jfin.
  - destruct spc; simpl; try (jfin; fail). destruct closed, pst; simpl; jfin.
  - destruct spc; simpl; try (jfin; fail). destruct ok; unfold close_pipe; simpl; [|destruct closed; simpl]; jfin.
  - unfold close_pipe; simpl. destruct closed; simpl; jfin.
  - destruct rpc; simpl; jfin.
Qed.

Lemma pipe_new_PInvJ : PInvJ pipe_new.
Proof. unfold PInvJ, pipe_new; simpl. repeat split; intros; discriminate. Qed.

Theorem closed_in_addpre_never_started : forall ops s p,
  s = srun sock_init ops -> In p (pipes s) ->
  (g_closed_in_pre p = true -> p_pstarted p = false) /\
  (g_closed_at_check p = true -> p_pstarted p = false).
Proof.
  intros ops s p -> Hin.
  assert (F : Forall PInvJ (pipes (srun sock_init ops))).
  { apply srun_forall; [apply pipe_new_PInvJ|apply pstep_PInvJ|constructor]. }
  rewrite Forall_forall in F. destruct (F _ Hin) as (K & J & G).
  repeat split; intros; auto.
  - destruct (J H) as (_ & A & _); auto.
  - destruct (G H) as (A & _); auto.
Qed.

(* ------------------------------------------------------------------ ADD_POST => REM_POST by close *)
Definition pre_phase (c : spc) : bool := match c with SIdle | SPreRead | SPreEnter _ _ => true | _ => false end.
Definition early_phase (c : spc) : bool :=
  match c with SIdle | SPreRead | SPreEnter _ _ | SPreInCb | SCheck | SDone => true | _ => false end.
Definition rem_done (c : rpc) : bool := match c with RRemInCb | RStop | RRemove | RDone => true | _ => false end.
Definition want_pc (p : pipe) : Prop :=
  (forall c, p_spc p <> SPreEnter false c) /\ (forall c, p_spc p <> SPostEnter false c) /\
  (forall c, p_rpc p <> RRemEnter false c).

Definition PInvR (p : pipe) : Prop :=
  want_pc p /\ p_last p <= 3 /\
  (In 2 (g_fired p) -> 2 <= p_last p) /\
  (p_last p = 3 -> In 3 (g_fired p)) /\
  (pre_phase (p_spc p) = false -> 1 <= p_last p) /\
  (p_rpc p = RNone <-> p_closed p = false) /\
  (p_onsock p = false -> p_rpc p = RDone) /\
  (rem_done (p_rpc p) = true ->
     p_last p = 3 \/ (p_closed p = true /\ p_last p <= 1 /\ early_phase (p_spc p) = true)).

Lemma pipe_new_PInvR : PInvR pipe_new.
Proof.
  unfold PInvR, want_pc, pipe_new; simpl. repeat split; intros; try discriminate; try contradiction; auto.
Qed.

Ltac rsolve :=
  simpl in *; unfold want_pc in *; simpl in *;
  repeat match goal with
  | H : _ /\ _ |- _ => destruct H
  | H : _ <-> _ |- _ => destruct H
  end;
  repeat split; intros; try discriminate; try congruence; try lia; auto;
  try (match goal with H : In _ (_ ++ [_]) |- _ => apply in_app_iff in H; destruct H as [H|[H|[]]] end);
  try (apply in_app_iff; right; left; reflexivity);
  try (intuition (try discriminate; try congruence; try lia); fail).

Lemma pstep_PInvR : forall p l, okl_of true l -> PInvR p -> PInvR (pstep p l).
Proof.
  intros [lst closed spc rpc onsock pst fired cbs gcc gcp] l OK.
  unfold PInvR; simpl.
  destruct l as [ | w want c1 c2 c3 | w | w | | | ok | | ]; simpl.
  - destruct spc; intros H; rsolve.
  - simpl in OK. subst want. destruct w; [destruct spc|destruct rpc]; intros H; rsolve.
  - destruct w; [destruct spc|destruct rpc]; intros H; try (rsolve; fail);
      unfold enter, fire, after_pre, after_post, after_rem, set_spc, set_rpc; simpl;
      (destruct want; [|exfalso; unfold want_pc in H; simpl in H; destruct H as ((W1 & W2 & W3) & _);
                        first [eapply W1; reflexivity|eapply W2; reflexivity|eapply W3; reflexivity]]);
      match goal with |- context [run_cb_filter ?a ?b] => destruct (run_cb_filter a b) eqn:F end; simpl.
    + (* ADD_PRE delivered *)
      apply filter_true in F. unfold EV_ADD_PRE in *. destruct F as [F1 F2]. destruct cb; simpl; rsolve.
    + (* ADD_PRE not delivered: something was delivered before *)
      assert (1 <= lst).
      { destruct (N.eq_dec lst 0) as [->|]; [vm_compute in F; discriminate|lia]. }
      rsolve.
    + (* ADD_POST delivered *)
      apply filter_true in F. unfold EV_ADD_POST in *. destruct F as [F1 F2]. destruct cb; simpl; rsolve.
    + assert (1 <= lst) by (destruct H as (_ & _ & _ & _ & PP & _); apply PP; reflexivity).
      apply filter_false_ge in F; auto. unfold EV_ADD_POST in F. rsolve.
    + (* REM_POST delivered *)
      apply filter_true in F. unfold EV_REM_POST in *. destruct F as [F1 F2]. destruct cb; simpl; destruct onsock, closed; rsolve.
    + (* REM_POST not delivered: nothing was ever delivered for this pipe, or REM_POST already *)
      destruct (N.eq_dec lst 0) as [Z|NZ].
      * subst lst. destruct onsock, closed; destruct spc; rsolve.
      * apply filter_false_ge in F; [|lia]. unfold EV_REM_POST in F. destruct onsock, closed; rsolve.
  - destruct w; [destruct spc|destruct rpc]; intros H; rsolve.
  - unfold close_pipe; simpl. destruct closed; destruct spc; destruct onsock; intros H; rsolve.
  - destruct spc; intros H; try (rsolve; fail). destruct closed; simpl; rsolve.
  - destruct spc; intros H; try (rsolve; fail). destruct ok; unfold close_pipe; simpl; [|destruct closed, onsock; simpl]; rsolve.
  - unfold close_pipe; simpl. destruct closed, onsock; simpl; intros H; rsolve.
  - destruct rpc; destruct closed, onsock; intros H; rsolve.
Qed.

(* ---- the socket-level part ---- *)
Ltac dmatch := repeat match goal with
  | |- context [match ?x with _ => _ end] => destruct x eqn:?
  end.

Lemma set_cb_want_true : forall s ev, s_want s = true -> s_want (set_cb s ev true) = true.
Proof.
  intros s ev H. unfold set_cb. destruct (N.ltb_spec EV_NONE ev); destruct (N.ltb_spec ev EV_NUM); simpl; auto.
  unfold EV_NONE, EV_NUM, EV_ADD_PRE, EV_ADD_POST, EV_REM_POST in *.
  destruct (N.eqb_spec ev 1); simpl; auto. destruct (N.eqb_spec ev 2); simpl; [rewrite orb_true_r; reflexivity|].
  destruct (N.eqb_spec ev 3); simpl; [apply orb_true_r|]. lia.
Qed.

Lemma sstep_want : forall s o, s_want s = true -> keeps_cbs o = true -> s_want (sstep s o) = true.
Proof.
  intros s o H K. destruct o; unfold sstep; simpl in K; try subst on;
    try (dmatch; simpl; auto; fail).
  - destruct (s_ser s) as [[j w']|]; auto. destruct (_ && _); auto. destruct a; [destruct (_ && _); auto|].
    simpl in K. subst on. apply set_cb_want_true; auto.
  - apply set_cb_want_true; auto.
Qed.

Lemma pstep_onsock_false : forall p l, p_onsock p = false -> p_onsock (pstep p l) = false.
Proof.
  intros [lst closed spc rpc onsock pst fired cbs gcc gcp] l; simpl. intros ->.
  destruct l as [ | w want c1 c2 c3 | w | w | | | ok | | ]; simpl;
    try destruct w; try destruct spc; try destruct rpc; simpl; auto;
    unfold enter, fire, close_pipe, after_pre, after_post, after_rem, set_spc, set_rpc; simpl; dmatch; simpl; auto.
Qed.

Definition SInv (s : sock) : Prop :=
  s_shut_returned s = true -> s_eps_stopped s = true /\ Forall (fun p => p_onsock p = false) (pipes s).

Lemma sstep_eps_mono : forall s o, s_eps_stopped s = true -> s_eps_stopped (sstep s o) = true.
Proof. intros s o H. destruct o; unfold sstep; dmatch; simpl; auto; unfold set_cb; dmatch; simpl; auto; congruence. Qed.

Lemma sstep_shut_flag : forall s o, s_shut_returned (sstep s o) = true ->
  s_shut_returned s = true \/
  (o = OShutWait /\ forallb (fun p => negb (p_onsock p)) (pipes s) = true /\ pipes (sstep s o) = pipes s /\
   s_eps_stopped (sstep s o) = true).
Proof.
  intros s o. destruct o; unfold sstep; try (dmatch; simpl; auto; unfold set_cb; dmatch; simpl; auto; congruence).
  destruct (s_pipes_closed s && forallb (fun p => negb (p_onsock p)) (pipes s)) eqn:E; simpl; auto.
  intros _. right. apply andb_true_iff in E. destruct E. auto.
Qed.

Lemma sstep_SInv : forall s o, SInv s -> SInv (sstep s o).
Proof.
  intros s o H R. destruct (sstep_shut_flag _ _ R) as [R0|(-> & FB & PE & ES)].
  - destruct (H R0) as [E F]. split; [apply sstep_eps_mono; auto|].
    eapply evolve_forall; [| |apply sstep_evolve|exact F].
    + rewrite E. simpl. discriminate.
    + intros p lab _. apply pstep_onsock_false.
  - split; auto. rewrite PE. apply Forall_forall. intros p Hp. rewrite forallb_forall in FB.
    specialize (FB _ Hp). destruct (p_onsock p); auto; discriminate.
Qed.

Theorem addpost_rempost_at_close : forall s0 ops s p,
  pipes s0 = [] -> s_want s0 = true -> s_shut_returned s0 = false ->
  forallb keeps_cbs ops = true -> s = srun s0 ops -> s_shut_returned s = true -> In p (pipes s) ->
  In EV_ADD_POST (g_fired p) -> In EV_REM_POST (g_fired p).
Proof.
  intros s0 ops s p P0 W0 R0 K -> R Hin A.
  assert (Inv : forall ops s1, s_want s1 = true -> Forall PInvR (pipes s1) -> SInv s1 -> forallb keeps_cbs ops = true ->
           s_want (srun s1 ops) = true /\ Forall PInvR (pipes (srun s1 ops)) /\ SInv (srun s1 ops)).
  { induction ops0 as [|o r IH]; intros s1 W F S Kk; simpl; auto.
    simpl in Kk. apply andb_true_iff in Kk. destruct Kk as [K1 K2].
    apply IH; auto.
    - apply sstep_want; auto.
    - eapply evolve_forall; [| |apply sstep_evolve|exact F].
      + intros _. apply pipe_new_PInvR.
      + intros q lab OK. apply pstep_PInvR. rewrite W in OK. exact OK.
    - apply sstep_SInv; auto. }
  destruct (Inv ops s0) as (_ & F & S); auto.
  - rewrite P0. constructor.
  - intros X. rewrite R0 in X. discriminate.
  - destruct (S R) as [_ O]. rewrite Forall_forall in F, O. specialize (F _ Hin). specialize (O _ Hin).
    destruct F as (_ & B3 & A2 & A3 & _ & _ & OS & RD).
    apply A3. apply OS in O. rewrite O in RD. destruct (RD eq_refl) as [L|(_ & L & _)]; auto.
    apply A2 in A. lia.
Qed.

(* the same invariant also says when exactly REM_POST was delivered: by the time pipe_reap has
   called nni_pipe_run_cb(REM_POST) and it has returned, every pipe that had any event has REM_POST *)
Theorem rempost_when_reaped : forall s0 ops s p,
  pipes s0 = [] -> s_want s0 = true -> forallb keeps_cbs ops = true -> s = srun s0 ops -> In p (pipes s) ->
  rem_done (p_rpc p) = true -> In EV_ADD_POST (g_fired p) -> In EV_REM_POST (g_fired p).
Proof.
  intros s0 ops s p P0 W0 K -> Hin RDn A.
  assert (Inv : forall ops s1, s_want s1 = true -> Forall PInvR (pipes s1) -> forallb keeps_cbs ops = true ->
           Forall PInvR (pipes (srun s1 ops))).
  { induction ops0 as [|o r IH]; intros s1 W F Kk; simpl; auto.
    simpl in Kk. apply andb_true_iff in Kk. destruct Kk as [K1 K2].
    apply IH; auto.
    - apply sstep_want; auto.
    - eapply evolve_forall; [| |apply sstep_evolve|exact F].
      + intros _. apply pipe_new_PInvR.
      + intros q lab OK. apply pstep_PInvR. rewrite W in OK. exact OK. }
  assert (F := Inv ops s0 W0). rewrite P0 in F. specialize (F (Forall_nil _) K).
  rewrite Forall_forall in F. destruct (F _ Hin) as (_ & B3 & A2 & A3 & _ & _ & OS & RD).
  apply A3. destruct (RD RDn) as [L|(C & L & _)]; auto. apply A2 in A. lia.
Qed.
