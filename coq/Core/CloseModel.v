(* CloseModel: the shutdown protocol of one socket and everything derived from it
   (contexts, dialers, listeners, pipes), src/core/socket.c, pipe.c, dialer.c,
   listener.c, reap.c, refcnt.c, with the public entry points of src/nng.c.

   One step = one critical section (sock_lk / s_mx / dialers_lk / listeners_lk /
   pipes_lk / reap_mtx / an atomic operation).  What a thread still has to do after
   it released the lock is its *continuation*, a list of actions; any other
   thread's step may overtake it, so the runs of [step] cover every interleaving
   of any number of threads (the semantics of Core/AioModel.v, DESIGN appendix A.1).
   Waits (nni_cv_wait loops, nni_aio_stop) are actions that are enabled only when
   their predicate holds.

   Scope: ONE socket with its children.  Sockets interact only through the global
   locks (not data), the shared reaper and task threads, and nng_device (the
   s_device flag is modelled: find fails with EBUSY, the device closes the socket).
   The reaper is a FIFO of pending teardowns.  (The C keeps one LIFO stack per
   object type and empties the stacks in rounds; what the proofs use is (i) one
   reaper thread runs one item at a time and (ii) an endpoint that re-queues itself
   is reaped again only after every pipe item queued before the re-queue -- both
   hold for the C order, see CloseProofs.)

   What a protocol contributes is abstract: the set of user aios pending on the
   socket ([k_pend]) / a context ([c_pend]) / a dialer ([e_pend]); the protocol's
   sock_close / sock_fini / ctx_fini and nni_msgq_close complete that set with
   NNG_ECLOSED ([k_phase] says which of the three steps does it for the socket,
   [k_latch] whether the protocol refuses operations after its sock_close).
   Proto/*Model.v instances: CloseProofs (req, rep, pair, sub).

   [fixes]: the pinned tree's behaviour (false) or the repaired one (true) for the
   defects found with this model; Gen/Consts.v says which form the source has.
   Definitions only. *)
From Coq Require Import List Arith NArith Bool.
Import ListNotations.

Definition C_OK : N := 0.  Definition C_EBUSY : N := 4.  Definition C_ECLOSED : N := 7.
Definition C_ENOENT : N := 12.  Definition C_ENOTSUP : N := 9.

Record fixes := mkFixes {
  fx_ephold : bool;    (* sock_shutdown waits for an endpoint that another thread is closing (pinned: calls close without a hold) *)
  fx_epid : bool;      (* endpoint id allocated before the endpoint is linked into the socket (pinned: after) *)
  fx_ctxfini : bool;   (* nni_ctx_rele runs ctx_fini inside the sock_lk section (pinned: after unlocking) *)
  fx_lateop : bool;    (* sock_close runs the protocol's sock_close once more after the wait for references *)
  fx_ctxopen : bool;   (* nni_ctx_open closes (pinned: only releases) the context it created on a socket that is shutting down *)
  fx_ctxmark : bool }. (* sock_shutdown marks EVERY context closed (false: only the idle ones, c_ref == 0) *)

Inductive phase := PhMsgq | PhProto | PhFini.   (* which step completes the socket-level pending set *)

Record sockst := mkSock {
  k_closing : bool; k_closed : bool; k_device : bool; k_ref : nat;
  k_inmap : bool; k_freed : bool;
  k_pclosed : bool;                 (* the step of [k_phase] (msgq close / protocol sock_close) has run *)
  k_pend : list N;                  (* user aios pending on the socket itself *)
  k_phase : phase; k_latch : bool; k_finic : bool;  (* static: protocol parameters (k_finic: sock_fini finalizes a master context) *)
  k_shutdone : bool }.              (* ghost: sock_shutdown ran to its end *)

Record ctxst := mkCtx {
  c_closed : bool; c_ref : nat; c_inmap : bool; c_onlist : bool; c_freed : bool;
  c_pend : list N; c_pub : bool }.  (* c_pub (ghost): the id was returned to the application *)

Record epst := mkEp {
  e_dialer : bool; e_closed : bool; e_ref : nat; e_inmap : bool; e_onlist : bool;
  e_tranclosed : bool; e_stopped : bool; e_busy : nat;   (* connect/accept/timer aio: operation outstanding or callback running *)
  e_reapq : bool; e_freed : bool; e_pend : list N; e_pub : bool }.

Record pipest := mkPipe {
  p_ep : nat; p_closed : bool; p_ref : nat; p_inmap : bool; p_onlist : bool;
  p_tranclosed : bool; p_stopped : bool; p_busy : nat; p_freed : bool }.

(* public entry points (src/nng.c) *)
Inductive uop :=
| USockClose                       (* nng_socket_close *)
| UDevClose                        (* the device's nni_sock_close_device *)
| UCtxOpen                         (* nng_ctx_open *)
| UCtxClose (c : nat)              (* nng_ctx_close *)
| UEpCreate (dialer : bool)        (* nng_dialer_create / nng_listener_create *)
| UEpClose (e : nat)               (* nng_dialer_close / nng_listener_close *)
| UEpStart (e : nat) (a : N)       (* nng_dialer_start_aio / a blocking nng_dialer_start: user aio a *)
| UPipeClose (p : nat)             (* nng_pipe_close *)
| USubmit (k : option nat) (a : N) (blocks : bool)   (* nng_socket_send/recv, nng_ctx_send/recv (+ the blocking forms) *)
| UGetSock | UGetCtx (c : nat) | UGetEp (e : nat) | UGetPipe (p : nat).   (* any find ... rele operation *)

(* roles of a returning nng_socket_close *)
Definition R_NA := 0.  Definition R_SHUT := 1.  Definition R_DESTROY := 2.  Definition R_LATE := 3.

Inductive act :=
| AFind (u : uop)                       (* nni_sock_find / nni_ctx_find / nni_dialer_find / nni_pipe_find *)
| ARet (u : uop) (rv : N) (role : nat)  (* the entry point returns *)
(* sock_shutdown *)
| AShutBegin (dev : bool) | AShutEp | AShutPipes | AMsgqClose | AShutCtxs | AWaitCtxs | AWaitPipes | AProtoClose
(* sock_close *)
| ASockClose2 (role : nat) | AWaitRefs | ASockDestroy | ASockRele
(* contexts *)
| ACtxOpen1 | ACtxOpen2 (c : nat) | ACtxClose (c : nat) | ACtxRele (c : nat) | ACtxDestroy (c : nat)
(* endpoints *)
| AEpCreate1 (d : bool) | AEpCreate2 (e : nat)
| AEpClose (e : nat) | AEpTranClose (e : nat) | AEpStopWait (e : nat) | AEpClosePipes (e : nat)
| AEpSockRemove (e : nat) | AEpRele (e : nat) | AEpStart (e : nat) (a : N)
| AEpReap (e : nat) | AEpDestroy (e : nat)
(* pipes *)
| APipeClose (p : nat) | APipeRele (p : nat)
| APipeTranClose (p : nat) | APipeIdRemove (p : nat) | APipeStopWait (p : nat) | APipeRemove (p : nat)
(* operations *)
| ASubmit (k : option nat) (a : N) (blocks : bool).

Inductive ritem := RPipe (p : nat) | REp (e : nat).

(* what went wrong, when something does (assertion of the debug build / undefined behaviour of the release build) *)
Definition B_REF_UNDERFLOW := 1.   (* rele with a zero count: NNI_ASSERT(d_ref > 0) *)
Definition B_NOT_ONLIST := 2.      (* nni_sock_remove_dialer: NNI_ASSERT(nni_list_node_active) *)
Definition B_USE_FREED := 3.       (* an action touches an object that was destroyed *)
Definition B_FIND_FREED := 4.      (* a find returned a destroyed object (stale id in the map) *)
Definition B_SOCK_FREED := 5.      (* ctx_fini after the socket was destroyed *)
Definition B_DOUBLE_REAP := 6.     (* an endpoint is handed to the reaper twice *)
Definition B_ORDER := 7.           (* a step of a teardown sequence ran before the step the C code places before it *)

Record st := mkSt {
  sk : sockst; ctxs : list ctxst; eps : list epst; pipes : list pipest;
  threads : list (list act); reaper : list act; rq : list ritem;
  done : list (N * N);               (* completions of user aios: (aio, result) *)
  subm : list N;                     (* ghost: user aios submitted *)
  rets : list (uop * N * nat);       (* returns of entry points *)
  bad : list nat }.

Inductive label :=
| LSpawn (u : uop)          (* a thread enters a public entry point *)
| LRun (k : nat)            (* thread k performs its next critical section *)
| LReap                     (* the reaper thread: next item / next critical section of the current item *)
| LEpCb (e : nat) (rv : N)  (* the endpoint's connect/accept/timer callback has run (result rv for the user's dial aio) *)
| LPipeCb (p : nat)         (* a callback of one of the pipe's aios has run *)
| LComplete (a : N) (rv : N)(* the protocol completes a pending user aio for its own reasons (message, timeout, cancel) *)
| LPipeCreate (e : nat)     (* the transport creates a pipe on endpoint e (nni_pipe_alloc_dialer/listener) *)
| LPipeOp (p : nat)         (* the protocol submits a send/recv on the pipe *)
| LEpOp (e : nat)           (* the endpoint (re)arms its connect/accept/timer aio *)
| LDevStart.                (* nng_device takes the socket *)

(* ---------------------------------------------------------------- record updates *)
Definition set_k (s : st) (k : sockst) : st :=
  mkSt k (ctxs s) (eps s) (pipes s) (threads s) (reaper s) (rq s) (done s) (subm s) (rets s) (bad s).
Definition set_ctxs (s : st) (x : list ctxst) : st :=
  mkSt (sk s) x (eps s) (pipes s) (threads s) (reaper s) (rq s) (done s) (subm s) (rets s) (bad s).
Definition set_eps (s : st) (x : list epst) : st :=
  mkSt (sk s) (ctxs s) x (pipes s) (threads s) (reaper s) (rq s) (done s) (subm s) (rets s) (bad s).
Definition set_pipes (s : st) (x : list pipest) : st :=
  mkSt (sk s) (ctxs s) (eps s) x (threads s) (reaper s) (rq s) (done s) (subm s) (rets s) (bad s).
Definition set_threads (s : st) (x : list (list act)) : st :=
  mkSt (sk s) (ctxs s) (eps s) (pipes s) x (reaper s) (rq s) (done s) (subm s) (rets s) (bad s).
Definition set_reaper (s : st) (x : list act) : st :=
  mkSt (sk s) (ctxs s) (eps s) (pipes s) (threads s) x (rq s) (done s) (subm s) (rets s) (bad s).
Definition set_rq (s : st) (x : list ritem) : st :=
  mkSt (sk s) (ctxs s) (eps s) (pipes s) (threads s) (reaper s) x (done s) (subm s) (rets s) (bad s).
Definition set_done (s : st) (x : list (N * N)) : st :=
  mkSt (sk s) (ctxs s) (eps s) (pipes s) (threads s) (reaper s) (rq s) x (subm s) (rets s) (bad s).
Definition set_subm (s : st) (x : list N) : st :=
  mkSt (sk s) (ctxs s) (eps s) (pipes s) (threads s) (reaper s) (rq s) (done s) x (rets s) (bad s).
Definition add_ret (s : st) (u : uop) (rv : N) (role : nat) : st :=
  mkSt (sk s) (ctxs s) (eps s) (pipes s) (threads s) (reaper s) (rq s) (done s) (subm s) (rets s ++ [(u, rv, role)]) (bad s).
Definition add_bad (s : st) (b : nat) : st :=
  mkSt (sk s) (ctxs s) (eps s) (pipes s) (threads s) (reaper s) (rq s) (done s) (subm s) (rets s) (bad s ++ [b]).

Fixpoint upd {A} (l : list A) (i : nat) (f : A -> A) : list A :=
  match l, i with
  | [], _ => []
  | x :: r, O => f x :: r
  | x :: r, S j => x :: upd r j f
  end.

Definition kset_closing (k : sockst) := mkSock true (k_closed k) (k_device k) (k_ref k) (k_inmap k) (k_freed k) (k_pclosed k) (k_pend k) (k_phase k) (k_latch k) (k_finic k) (k_shutdone k).
Definition kset_closed (k : sockst) := mkSock (k_closing k) true false (k_ref k) false (k_freed k) (k_pclosed k) (k_pend k) (k_phase k) (k_latch k) (k_finic k) (k_shutdone k).
Definition kset_device (k : sockst) := mkSock (k_closing k) (k_closed k) true (S (k_ref k)) (k_inmap k) (k_freed k) (k_pclosed k) (k_pend k) (k_phase k) (k_latch k) (k_finic k) (k_shutdone k).
Definition kset_ref (k : sockst) (n : nat) := mkSock (k_closing k) (k_closed k) (k_device k) n (k_inmap k) (k_freed k) (k_pclosed k) (k_pend k) (k_phase k) (k_latch k) (k_finic k) (k_shutdone k).
Definition kset_pend (k : sockst) (l : list N) := mkSock (k_closing k) (k_closed k) (k_device k) (k_ref k) (k_inmap k) (k_freed k) (k_pclosed k) l (k_phase k) (k_latch k) (k_finic k) (k_shutdone k).
Definition kset_pclosed (k : sockst) := mkSock (k_closing k) (k_closed k) (k_device k) (k_ref k) (k_inmap k) (k_freed k) true [] (k_phase k) (k_latch k) (k_finic k) (k_shutdone k).
Definition kset_shutdone (k : sockst) := mkSock (k_closing k) (k_closed k) (k_device k) (k_ref k) (k_inmap k) (k_freed k) (k_pclosed k) (k_pend k) (k_phase k) (k_latch k) (k_finic k) true.
Definition kset_freed (k : sockst) := mkSock (k_closing k) (k_closed k) (k_device k) (k_ref k) (k_inmap k) true (k_pclosed k) [] (k_phase k) (k_latch k) (k_finic k) (k_shutdone k).

Definition cset_closed (c : ctxst) := mkCtx true (c_ref c) (c_inmap c) (c_onlist c) (c_freed c) (c_pend c) (c_pub c).
Definition cset_ref (c : ctxst) (n : nat) := mkCtx (c_closed c) n (c_inmap c) (c_onlist c) (c_freed c) (c_pend c) (c_pub c).
Definition cset_unlink (c : ctxst) := mkCtx (c_closed c) (c_ref c) false false (c_freed c) (c_pend c) (c_pub c).
Definition cset_fini (c : ctxst) := mkCtx (c_closed c) (c_ref c) (c_inmap c) (c_onlist c) true [] (c_pub c).
Definition cset_pend (c : ctxst) (l : list N) := mkCtx (c_closed c) (c_ref c) (c_inmap c) (c_onlist c) (c_freed c) l (c_pub c).
Definition cset_pub (c : ctxst) := mkCtx (c_closed c) (c_ref c) (c_inmap c) (c_onlist c) (c_freed c) (c_pend c) true.

Definition eset_closed (e : epst) := mkEp (e_dialer e) true (e_ref e) false (e_onlist e) (e_tranclosed e) (e_stopped e) (e_busy e) (e_reapq e) (e_freed e) (e_pend e) (e_pub e).
Definition eset_ref (e : epst) (n : nat) := mkEp (e_dialer e) (e_closed e) n (e_inmap e) (e_onlist e) (e_tranclosed e) (e_stopped e) (e_busy e) (e_reapq e) (e_freed e) (e_pend e) (e_pub e).
Definition eset_inmap (e : epst) (b : bool) := mkEp (e_dialer e) (e_closed e) (e_ref e) b (e_onlist e) (e_tranclosed e) (e_stopped e) (e_busy e) (e_reapq e) (e_freed e) (e_pend e) (e_pub e).
Definition eset_onlist (e : epst) (b : bool) := mkEp (e_dialer e) (e_closed e) (e_ref e) (e_inmap e) b (e_tranclosed e) (e_stopped e) (e_busy e) (e_reapq e) (e_freed e) (e_pend e) (e_pub e).
Definition eset_tranclosed (e : epst) := mkEp (e_dialer e) (e_closed e) (e_ref e) (e_inmap e) (e_onlist e) true (e_stopped e) (e_busy e) (e_reapq e) (e_freed e) (e_pend e) (e_pub e).
Definition eset_stopped (e : epst) := mkEp (e_dialer e) (e_closed e) (e_ref e) (e_inmap e) (e_onlist e) (e_tranclosed e) true (e_busy e) (e_reapq e) (e_freed e) (e_pend e) (e_pub e).
Definition eset_busy (e : epst) (n : nat) := mkEp (e_dialer e) (e_closed e) (e_ref e) (e_inmap e) (e_onlist e) (e_tranclosed e) (e_stopped e) n (e_reapq e) (e_freed e) (e_pend e) (e_pub e).
Definition eset_reapq (e : epst) := mkEp (e_dialer e) (e_closed e) (e_ref e) (e_inmap e) (e_onlist e) (e_tranclosed e) (e_stopped e) (e_busy e) true (e_freed e) (e_pend e) (e_pub e).
Definition eset_freed (e : epst) := mkEp (e_dialer e) (e_closed e) (e_ref e) (e_inmap e) (e_onlist e) (e_tranclosed e) (e_stopped e) (e_busy e) (e_reapq e) true (e_pend e) (e_pub e).
Definition eset_pend (e : epst) (l : list N) := mkEp (e_dialer e) (e_closed e) (e_ref e) (e_inmap e) (e_onlist e) (e_tranclosed e) (e_stopped e) (e_busy e) (e_reapq e) (e_freed e) l (e_pub e).
Definition eset_pub (e : epst) := mkEp (e_dialer e) (e_closed e) (e_ref e) (e_inmap e) (e_onlist e) (e_tranclosed e) (e_stopped e) (e_busy e) (e_reapq e) (e_freed e) (e_pend e) true.

Definition pset_closed (p : pipest) := mkPipe (p_ep p) true (p_ref p) (p_inmap p) (p_onlist p) (p_tranclosed p) (p_stopped p) (p_busy p) (p_freed p).
Definition pset_ref (p : pipest) (n : nat) := mkPipe (p_ep p) (p_closed p) n (p_inmap p) (p_onlist p) (p_tranclosed p) (p_stopped p) (p_busy p) (p_freed p).
Definition pset_unmap (p : pipest) := mkPipe (p_ep p) (p_closed p) (p_ref p) false (p_onlist p) (p_tranclosed p) (p_stopped p) (p_busy p) (p_freed p).
Definition pset_unlist (p : pipest) := mkPipe (p_ep p) (p_closed p) (p_ref p) (p_inmap p) false (p_tranclosed p) (p_stopped p) (p_busy p) (p_freed p).
Definition pset_tranclosed (p : pipest) := mkPipe (p_ep p) (p_closed p) (p_ref p) (p_inmap p) (p_onlist p) true (p_stopped p) (p_busy p) (p_freed p).
Definition pset_stopped (p : pipest) := mkPipe (p_ep p) (p_closed p) (p_ref p) (p_inmap p) (p_onlist p) (p_tranclosed p) true (p_busy p) (p_freed p).
Definition pset_busy (p : pipest) (n : nat) := mkPipe (p_ep p) (p_closed p) (p_ref p) (p_inmap p) (p_onlist p) (p_tranclosed p) (p_stopped p) n (p_freed p).
Definition pset_freed (p : pipest) := mkPipe (p_ep p) (p_closed p) (p_ref p) (p_inmap p) (p_onlist p) (p_tranclosed p) (p_stopped p) (p_busy p) true.

(* ---------------------------------------------------------------- helpers *)
Definition fail_all (rv : N) (l : list N) : list (N * N) := map (fun a => (a, rv)) l.

(* nni_pipe_close on every listed pipe selected by [sel]: mark closed, queue for the reaper (index order) *)
Fixpoint close_pipes (i : nat) (sel : pipest -> bool) (ps : list pipest) : list pipest * list ritem :=
  match ps with
  | [] => ([], [])
  | p :: r =>
      let '(r', q) := close_pipes (S i) sel r in
      if sel p && p_onlist p && negb (p_closed p) then (pset_closed p :: r', RPipe i :: q) else (p :: r', q)
  end.

(* sock_shutdown's context loop (under sock_lk): mark closed; unreferenced ones are destroyed on the spot *)
Fixpoint shut_ctxs (markall : bool) (cs : list ctxst) : list ctxst * list N :=
  match cs with
  | [] => ([], [])
  | c :: r =>
      let '(r', l) := shut_ctxs markall r in
      if c_onlist c then
        if c_ref c =? 0 then (cset_fini (cset_unlink (cset_closed c)) :: r', c_pend c ++ l)
        else ((if markall then cset_closed c else c) :: r', l)   (* busy: destroyed by its last nni_ctx_rele, because c_closed is set *)
      else (c :: r', l)
  end.

Fixpoint find_idx {A} (f : A -> bool) (l : list A) (i : nat) : option nat :=
  match l with
  | [] => None
  | x :: r => if f x then Some i else find_idx f r (S i)
  end.

(* nni_list_first(&s_listeners), else nni_list_first(&s_dialers): lists are in creation order *)
Definition first_ep (es : list epst) : option nat :=
  match find_idx (fun e => e_onlist e && negb (e_dialer e)) es 0 with
  | Some i => Some i
  | None => find_idx (fun e => e_onlist e) es 0
  end.

Definition any_ctx_onlist (s : st) : bool := existsb c_onlist (ctxs s).
Definition any_pipe_onlist (s : st) : bool := existsb p_onlist (pipes s).
Definition ep_has_pipes (s : st) (e : nat) : bool := existsb (fun p => p_onlist p && (p_ep p =? e)) (pipes s).

Definition remove_aio (a : N) (l : list N) : list N := filter (fun x => negb (N.eqb x a)) l.
Definition has_aio (a : N) (l : list N) : bool := existsb (N.eqb a) l.

(* programs *)
Definition after_find (u : uop) : list act :=
  match u with
  | USockClose => [AShutBegin false]
  | UDevClose => []
  | UCtxOpen => [ACtxOpen1]
  | UCtxClose c => [ACtxClose c; ACtxRele c; ARet u C_OK R_NA]
  | UEpCreate d => [AEpCreate1 d]
  | UEpClose e => [AEpClose e; ARet u C_OK R_NA]
  | UEpStart e a => [AEpStart e a; AEpRele e; ARet u C_OK R_NA]
  | UPipeClose p => [APipeClose p; APipeRele p; ARet u C_OK R_NA]
  | USubmit None a b => [ASubmit None a b; ASockRele; ARet u C_OK R_NA]
  | USubmit (Some c) a b => [ASubmit (Some c) a b; ACtxRele c; ARet u C_OK R_NA]
  | UGetSock => [ASockRele; ARet u C_OK R_NA]
  | UGetCtx c => [ACtxRele c; ARet u C_OK R_NA]
  | UGetEp e => [AEpRele e; ARet u C_OK R_NA]
  | UGetPipe p => [APipeRele p; ARet u C_OK R_NA]
  end.

Definition prog (u : uop) : list act :=
  match u with
  | UDevClose => [AShutBegin true]      (* the device owns a reference already *)
  | _ => [AFind u]
  end.

Definition pipe_reap_prog (p : nat) : list act :=
  [APipeTranClose p; APipeIdRemove p; APipeStopWait p; APipeRemove p; APipeRele p].

(* the result of nni_X_find now: None = a reference is granted *)
Definition find_sock (s : st) : option N :=
  if k_inmap (sk s) then
    if k_closed (sk s) then Some C_ECLOSED else if k_device (sk s) then Some C_EBUSY else None
  else Some C_ECLOSED.
Definition find_ctx (s : st) (c : nat) : option N :=
  match nth_error (ctxs s) c with
  | Some x => if c_inmap x then (if c_closed x || k_closed (sk s) then Some C_ECLOSED else None) else Some C_ECLOSED
  | None => Some C_ECLOSED
  end.
Definition find_ep (s : st) (e : nat) : option N :=
  match nth_error (eps s) e with
  | Some x => if e_inmap x then None else Some C_ENOENT
  | None => Some C_ENOENT
  end.
Definition find_pipe (s : st) (p : nat) : option N :=
  match nth_error (pipes s) p with
  | Some x => if p_inmap x then None else Some C_ENOENT
  | None => Some C_ENOENT
  end.

(* ---------------------------------------------------------------- one critical section *)
(* result: None = the action is a wait whose predicate is false (the thread blocks);
   Some (s', k) = new state and the actions to perform next, before the rest of the continuation *)
Definition run_act (fx : fixes) (s : st) (a : act) : option (st * list act) :=
  let k := sk s in
  match a with
  | AFind u =>
      match u with
      | USockClose | UCtxOpen | UEpCreate _ | USubmit None _ _ | UGetSock | UDevClose =>
          match find_sock s with
          | None => Some (set_k s (kset_ref k (S (k_ref k))), after_find u)
          | Some rv =>
              (* an operation with an aio reports the failure through the aio *)
              match u with
              | USubmit None a0 _ => Some (set_subm (set_done s (done s ++ [(a0, rv)])) (subm s ++ [a0]), [ARet u rv R_NA])
              | _ => Some (s, [ARet u rv R_NA])
              end
          end
      | UCtxClose c | UGetCtx c | USubmit (Some c) _ _ =>
          match find_ctx s c with
          | None =>
              match nth_error (ctxs s) c with
              | Some x => Some (set_ctxs s (upd (ctxs s) c (fun x => cset_ref x (S (c_ref x)))), after_find u)
              | None => Some (s, [])
              end
          | Some rv =>
              match u with
              | USubmit _ a0 _ => Some (set_subm (set_done s (done s ++ [(a0, rv)])) (subm s ++ [a0]), [ARet u rv R_NA])
              | _ => Some (s, [ARet u rv R_NA])
              end
          end
      | UEpClose e | UGetEp e | UEpStart e _ =>
          match find_ep s e with
          | None =>
              match nth_error (eps s) e with
              | Some x =>
                  if e_freed x then Some (add_bad s B_FIND_FREED, [])
                  else Some (set_eps s (upd (eps s) e (fun x => eset_ref x (S (e_ref x)))), after_find u)
              | None => Some (s, [])
              end
          | Some rv =>
              match u with
              | UEpStart _ a0 => Some (set_subm (set_done s (done s ++ [(a0, rv)])) (subm s ++ [a0]), [ARet u rv R_NA])
              | _ => Some (s, [ARet u rv R_NA])
              end
          end
      | UPipeClose p | UGetPipe p =>
          match find_pipe s p with
          | None =>
              match nth_error (pipes s) p with
              | Some x =>
                  if p_freed x then Some (add_bad s B_FIND_FREED, [])
                  else Some (set_pipes s (upd (pipes s) p (fun x => pset_ref x (S (p_ref x)))), after_find u)
              | None => Some (s, [])
              end
          | Some rv => Some (s, [ARet u rv R_NA])
          end
      end
  | ARet u rv role =>
      (* the id of a created object becomes known to the application when the call returns *)
      Some (add_ret s u rv role, [])
  (* ---- sock_shutdown ---- *)
  | AShutBegin dev =>
      if k_device k && negb dev then Some (s, [ASockRele; ARet USockClose C_EBUSY R_NA])
      else if k_closing k then Some (s, [ASockClose2 R_LATE])
      else Some (set_k s (kset_closing k),
                 [AShutEp; AShutPipes; AMsgqClose; AShutCtxs; AWaitCtxs; AWaitPipes; AProtoClose; ASockClose2 R_SHUT])
  | AShutEp =>
      match first_ep (eps s) with
      | None => Some (s, [])
      | Some e =>
          match nth_error (eps s) e with
          | Some x =>
              if e_closed x then
                (* nni_dialer_hold fails: another thread is closing it *)
                if fx_ephold fx then None                            (* repaired: wait until it has left the list *)
                else Some (s, [AEpClose e; AShutEp])                 (* pinned: the failure is ignored *)
              else Some (set_eps s (upd (eps s) e (fun x => eset_ref x (S (e_ref x)))), [AEpClose e; AShutEp])
          | None => Some (s, [])
          end
      end
  | AShutPipes =>
      let '(ps, q) := close_pipes 0 (fun _ => true) (pipes s) in
      Some (set_rq (set_pipes s ps) (rq s ++ q), [])
  | AMsgqClose =>
      match k_phase k with
      | PhMsgq => Some (set_done (set_k s (kset_pclosed k)) (done s ++ fail_all C_ECLOSED (k_pend k)), [])
      | _ => Some (s, [])
      end
  | AShutCtxs =>
      let '(cs, l) := shut_ctxs (fx_ctxmark fx) (ctxs s) in
      Some (set_done (set_ctxs s cs) (done s ++ fail_all C_ECLOSED l), [])
  | AWaitCtxs => if any_ctx_onlist s then None else Some (s, [])
  | AWaitPipes => if any_pipe_onlist s then None else Some (s, [])
  | AProtoClose =>
      match k_phase k with
      | PhProto => Some (set_done (set_k s (kset_shutdone (kset_pclosed k))) (done s ++ fail_all C_ECLOSED (k_pend k)), [])
      | PhFini => Some (set_k s (kset_shutdone (mkSock (k_closing k) (k_closed k) (k_device k) (k_ref k) (k_inmap k) (k_freed k) true (k_pend k) (k_phase k) (k_latch k) (k_finic k) (k_shutdone k))), [])
      | PhMsgq => Some (set_k s (kset_shutdone k), [])
      end
  (* ---- sock_close ---- *)
  | ASockClose2 role =>
      if k_closed k then Some (s, [ASockRele; ARet USockClose C_OK (if role =? R_SHUT then R_SHUT else R_LATE)])
      else Some (set_k s (kset_closed k), [AWaitRefs; ASockDestroy; ARet USockClose C_OK R_DESTROY])
  | AWaitRefs => if (k_ref k <=? 1) && negb (any_ctx_onlist s) then Some (s, []) else None
  | ASockDestroy =>
      (* repaired: the protocol's sock_close once more; then sock_fini; the memory is released *)
      let late := k_finic k || fx_lateop fx in
      if late then Some (set_done (set_k s (kset_freed k)) (done s ++ fail_all C_ECLOSED (k_pend k)), [])
      else Some (set_k s (mkSock (k_closing k) (k_closed k) (k_device k) (k_ref k) (k_inmap k) true (k_pclosed k) (k_pend k) (k_phase k) (k_latch k) (k_finic k) (k_shutdone k)), [])
  | ASockRele =>
      if k_freed k then Some (add_bad s B_USE_FREED, [])
      else match k_ref k with
           | O => Some (add_bad s B_REF_UNDERFLOW, [])
           | S n => Some (set_k s (kset_ref k n), [])
           end
  (* ---- contexts ---- *)
  | ACtxOpen1 =>
      (* nni_ctx_open, the sock_lk section *)
      if k_closed k then Some (s, [ASockRele; ARet UCtxOpen C_ECLOSED R_NA])
      else Some (set_ctxs s (ctxs s ++ [mkCtx false 1 true true false [] false]), [ACtxOpen2 (length (ctxs s))])
  | ACtxOpen2 c =>
      (* the s_mx section ("paranoia"), then nng_ctx_open's two releases *)
      if k_closing k then
        if fx_ctxopen fx then Some (s, [ACtxClose c; ACtxRele c; ASockRele; ARet UCtxOpen C_ECLOSED R_NA])
        else Some (s, [ACtxRele c; ASockRele; ARet UCtxOpen C_ECLOSED R_NA])
      else Some (set_ctxs s (upd (ctxs s) c cset_pub), [ACtxRele c; ASockRele; ARet UCtxOpen C_OK R_NA])
  | ACtxClose c => Some (set_ctxs s (upd (ctxs s) c cset_closed), [])
  | ACtxRele c =>
      match nth_error (ctxs s) c with
      | Some x =>
          if c_freed x then Some (add_bad s B_USE_FREED, [])
          else match c_ref x with
               | O => Some (add_bad s B_REF_UNDERFLOW, [])
               | S n =>
                   if (0 <? n) || negb (c_closed x) then Some (set_ctxs s (upd (ctxs s) c (fun x => cset_ref x n)), [])
                   else if fx_ctxfini fx then
                     Some (set_done (set_ctxs s (upd (ctxs s) c (fun x => cset_fini (cset_unlink (cset_ref x n)))))
                                    (done s ++ fail_all C_ECLOSED (c_pend x)), [])
                   else Some (set_ctxs s (upd (ctxs s) c (fun x => cset_unlink (cset_ref x n))), [ACtxDestroy c])
               end
      | None => Some (s, [])
      end
  | ACtxDestroy c =>
      match nth_error (ctxs s) c with
      | Some x =>
          if k_freed k then Some (add_bad s B_SOCK_FREED, [])     (* ctx_fini locks the protocol socket *)
          else Some (set_done (set_ctxs s (upd (ctxs s) c (fun x => cset_fini (cset_unlink x)))) (done s ++ fail_all C_ECLOSED (c_pend x)), [])
      | None => Some (s, [])
      end
  (* ---- endpoints ---- *)
  | AEpCreate1 d =>
      if fx_epid fx then
        (* repaired order: the id first (the endpoint is in the map, not yet on the socket's list) *)
        Some (set_eps s (eps s ++ [mkEp d false 1 true false false false 0 false false [] false]), [AEpCreate2 (length (eps s))])
      else
        (* pinned order: nni_sock_add_dialer (hold + s_mx section) first *)
        if k_closing k then Some (s, [ASockRele; ARet (UEpCreate d) C_ECLOSED R_NA])
        else Some (set_eps s (eps s ++ [mkEp d false 2 false true false false 0 false false [] false]), [AEpCreate2 (length (eps s))])
  | AEpCreate2 e =>
      match nth_error (eps s) e with
      | Some x =>
          if fx_epid fx then
            if e_pub x || e_freed x || e_onlist x then Some (add_bad s B_USE_FREED, [])   (* only ever run on the endpoint AEpCreate1 just made *)
            else if k_closing k then
              (* add fails: the id is removed, the endpoint destroyed by its creator *)
              Some (set_eps s (upd (eps s) e (fun x => eset_freed (eset_inmap (eset_ref x 0) false))), [ASockRele; ARet (UEpCreate (e_dialer x)) C_ECLOSED R_NA])
            else Some (set_eps s (upd (eps s) e (fun x => eset_pub (eset_onlist (eset_ref x (S (e_ref x))) true))), [AEpRele e; ARet (UEpCreate (e_dialer x)) C_OK R_NA])
          else
            (* pinned: the id is allocated now, whatever happened to the endpoint meanwhile *)
            Some (set_eps s (upd (eps s) e (fun x => eset_pub (eset_inmap x true))), [AEpRele e; ARet (UEpCreate (e_dialer x)) C_OK R_NA])
      | None => Some (s, [])
      end
  | AEpClose e =>
      match nth_error (eps s) e with
      | Some x =>
          if e_freed x then Some (add_bad s B_USE_FREED, [])
          else if e_closed x then Some (s, [AEpRele e])
          else Some (set_eps s (upd (eps s) e eset_closed),
                     [AEpTranClose e; AEpStopWait e; AEpClosePipes e; AEpSockRemove e; AEpRele e; AEpRele e])
      | None => Some (s, [])
      end
  | AEpTranClose e => Some (set_eps s (upd (eps s) e eset_tranclosed), [])
  | AEpStopWait e =>
      match nth_error (eps s) e with
      | Some x => if e_busy x =? 0 then Some (set_eps s (upd (eps s) e eset_stopped), []) else None
      | None => Some (s, [])
      end
  | AEpClosePipes e =>
      let '(ps, q) := close_pipes 0 (fun p => p_ep p =? e) (pipes s) in
      Some (set_rq (set_pipes s ps) (rq s ++ q), [])
  | AEpSockRemove e =>
      match nth_error (eps s) e with
      | Some x =>
          if e_freed x then Some (add_bad s B_USE_FREED, [])
          else if negb (e_closed x && e_stopped x) then Some (add_bad s B_ORDER, [])   (* only ever called by nni_dialer_close after d_closed was set and nni_dialer_stop has returned *)
          else if e_onlist x then Some (set_eps s (upd (eps s) e (fun x => eset_onlist x false)), [])
          else Some (add_bad s B_NOT_ONLIST, [])
      | None => Some (s, [])
      end
  | AEpRele e =>
      match nth_error (eps s) e with
      | Some x =>
          if e_freed x then Some (add_bad s B_USE_FREED, [])
          else match e_ref x with
               | O => Some (add_bad s B_REF_UNDERFLOW, [])
               | S n =>
                   if (n =? 0) && e_closed x then
                     if e_reapq x then Some (add_bad s B_DOUBLE_REAP, [])    (* queued for the reaper a second time *)
                     else Some (set_rq (set_eps s (upd (eps s) e (fun x => eset_reapq (eset_ref x n)))) (rq s ++ [REp e]), [])
                   else Some (set_eps s (upd (eps s) e (fun x => eset_ref x n)), [])
               end
      | None => Some (s, [])
      end
  | AEpStart e a0 =>
      (* nni_dialer_start_aio: the connect is submitted with the user's aio attached *)
      match nth_error (eps s) e with
      | Some x =>
          if e_freed x then Some (add_bad s B_USE_FREED, [])
          else if e_stopped x then Some (set_subm (set_done s (done s ++ [(a0, C_ECLOSED)])) (subm s ++ [a0]), [])
          else Some (set_subm (set_eps s (upd (eps s) e (fun x => eset_pend (eset_busy x (S (e_busy x))) (e_pend x ++ [a0])))) (subm s ++ [a0]), [])
      | None => Some (s, [])
      end
  | AEpReap e =>
      (* dialer_reap / listener_reap *)
      if ep_has_pipes s e then
        let '(ps, q) := close_pipes 0 (fun p => p_ep p =? e) (pipes s) in
        Some (set_rq (set_pipes s ps) (rq s ++ q ++ [REp e]), [])
      else Some (s, [ASockRele; AEpDestroy e])
  | AEpDestroy e => Some (set_eps s (upd (eps s) e eset_freed), [])
  (* ---- pipes ---- *)
  | APipeClose p =>
      match nth_error (pipes s) p with
      | Some x =>
          if p_freed x then Some (add_bad s B_USE_FREED, [])
          else if p_closed x then Some (s, [])
          else Some (set_rq (set_pipes s (upd (pipes s) p pset_closed)) (rq s ++ [RPipe p]), [])
      | None => Some (s, [])
      end
  | APipeRele p =>
      match nth_error (pipes s) p with
      | Some x =>
          if p_freed x then Some (add_bad s B_USE_FREED, [])
          else match p_ref x with
               | O => Some (add_bad s B_REF_UNDERFLOW, [])
               | S n => if n =? 0 then Some (set_pipes s (upd (pipes s) p (fun x => pset_freed (pset_ref x n))), [])
                        else Some (set_pipes s (upd (pipes s) p (fun x => pset_ref x n)), [])
               end
      | None => Some (s, [])
      end
  | APipeTranClose p => Some (set_pipes s (upd (pipes s) p pset_tranclosed), [])   (* protocol pipe_close, transport p_close *)
  | APipeIdRemove p => Some (set_pipes s (upd (pipes s) p pset_unmap), [])         (* after the REM_POST callback *)
  | APipeStopWait p =>
      match nth_error (pipes s) p with
      | Some x => if p_busy x =? 0 then Some (set_pipes s (upd (pipes s) p pset_stopped), []) else None
      | None => Some (s, [])
      end
  | APipeRemove p =>                                                               (* nni_pipe_remove *)
      match nth_error (pipes s) p with
      | Some x => if p_inmap x then Some (add_bad (set_pipes s (upd (pipes s) p (fun x => pset_unlist (pset_unmap x)))) B_ORDER, [])   (* pipe_reap removes the id first *)
                  else Some (set_pipes s (upd (pipes s) p pset_unlist), [])
      | None => Some (s, [])
      end
  (* ---- operations ---- *)
  | ASubmit None a0 blocks =>
      if k_freed k then Some (add_bad s B_USE_FREED, [])
      else if has_aio a0 (subm s) then Some (s, [])                               (* contract: a fresh aio *)
      else if k_pclosed k && k_latch k then
        Some (set_subm (set_done s (done s ++ [(a0, C_ECLOSED)])) (subm s ++ [a0]), [])
      else if blocks then Some (set_subm (set_k s (kset_pend k (k_pend k ++ [a0]))) (subm s ++ [a0]), [])
      else Some (set_subm (set_done s (done s ++ [(a0, C_OK)])) (subm s ++ [a0]), [])
  | ASubmit (Some c) a0 blocks =>
      match nth_error (ctxs s) c with
      | Some x =>
          if c_freed x then Some (add_bad s B_USE_FREED, [])
          else if negb (c_pub x) then Some (add_bad s B_ORDER, [])                  (* the application cannot know the id yet *)
          else if has_aio a0 (subm s) then Some (s, [])
          else if blocks then Some (set_subm (set_ctxs s (upd (ctxs s) c (fun x => cset_pend x (c_pend x ++ [a0])))) (subm s ++ [a0]), [])
          else Some (set_subm (set_done s (done s ++ [(a0, C_OK)])) (subm s ++ [a0]), [])
      | None => Some (s, [])
      end
  end.

(* a public handle may be used once it was handed to the application *)
Definition handle_known (s : st) (u : uop) : bool :=
  match u with
  | UCtxClose c | UGetCtx c | USubmit (Some c) _ _ => match nth_error (ctxs s) c with Some x => c_pub x | None => false end
  | UEpClose e | UGetEp e | UEpStart e _ => match nth_error (eps s) e with Some x => e_pub x | None => false end
  | UPipeClose p | UGetPipe p => p <? length (pipes s)      (* pipe ids reach the application through the notify callbacks at once *)
  | UDevClose => k_device (sk s)
  | _ => true
  end.

Definition step (fx : fixes) (s : st) (l : label) : option st :=
  match l with
  | LSpawn u => if handle_known s u then Some (set_threads s (threads s ++ [prog u])) else None
  | LRun k =>
      match nth_error (threads s) k with
      | Some (a :: rest) =>
          match run_act fx s a with
          | Some (s1, more) => Some (set_threads s1 (upd (threads s1) k (fun _ => more ++ rest)))
          | None => None
          end
      | _ => None
      end
  | LReap =>
      match reaper s with
      | a :: rest =>
          match run_act fx s a with
          | Some (s1, more) => Some (set_reaper s1 (more ++ rest))
          | None => None
          end
      | [] =>
          match rq s with
          | RPipe p :: q => Some (set_reaper (set_rq s q) (pipe_reap_prog p))
          | REp e :: q => Some (set_reaper (set_rq s q) [AEpReap e])
          | [] => None
          end
      end
  | LEpCb e rv =>
      match nth_error (eps s) e with
      | Some x =>
          match e_busy x with
          | O => None
          | S n =>
              let rv' := if e_tranclosed x then C_ECLOSED else rv in
              Some (set_done (set_eps s (upd (eps s) e (fun x => eset_pend (eset_busy x n) []))) (done s ++ fail_all rv' (e_pend x)))
          end
      | None => None
      end
  | LPipeCb p =>
      match nth_error (pipes s) p with
      | Some x => match p_busy x with O => None | S n => Some (set_pipes s (upd (pipes s) p (fun x => pset_busy x n))) end
      | None => None
      end
  | LComplete a rv =>
      if has_aio a (k_pend (sk s)) then Some (set_done (set_k s (kset_pend (sk s) (remove_aio a (k_pend (sk s))))) (done s ++ [(a, rv)]))
      else if existsb (fun c => has_aio a (c_pend c)) (ctxs s) then
        Some (set_done (set_ctxs s (map (fun c => cset_pend c (remove_aio a (c_pend c))) (ctxs s))) (done s ++ [(a, rv)]))
      else None
  | LPipeCreate e =>
      match nth_error (eps s) e with
      | Some x =>
          if e_tranclosed x || e_freed x || negb (e_onlist x) then None
          else Some (set_threads (set_pipes s (pipes s ++ [mkPipe e false 2 true true false false 0 false]))
                                 (threads s ++ [[APipeRele (length (pipes s))]]))
      | None => None
      end
  | LPipeOp p =>
      match nth_error (pipes s) p with
      | Some x => if p_stopped x || p_freed x then None else Some (set_pipes s (upd (pipes s) p (fun x => pset_busy x (S (p_busy x)))))
      | None => None
      end
  | LEpOp e =>
      match nth_error (eps s) e with
      | Some x => if e_stopped x || e_freed x then None else Some (set_eps s (upd (eps s) e (fun x => eset_busy x (S (e_busy x)))))
      | None => None
      end
  | LDevStart =>
      let k := sk s in
      if k_closing k || k_closed k || k_device k || k_freed k then None else Some (set_k s (kset_device k))
  end.

(* internal steps: the closing threads, the reaper, callbacks of aborted operations.
   Everything else is the environment: new calls of the application, the network. *)
Definition internal (s : st) (l : label) : bool :=
  match l with
  | LRun _ | LReap => true
  | LEpCb e _ => match nth_error (eps s) e with Some x => e_tranclosed x | None => false end
  | LPipeCb p => match nth_error (pipes s) p with Some x => p_tranclosed x | None => false end
  | _ => false
  end.

Fixpoint run (fx : fixes) (s : st) (ls : list label) : option st :=
  match ls with
  | [] => Some s
  | l :: r => match step fx s l with Some s1 => run fx s1 r | None => None end
  end.

Definition init (ph : phase) (latch finic : bool) : st :=
  mkSt (mkSock false false false 0 true false false [] ph latch finic false) [] [] [] [] [] [] [] [] [] [].

Definition fixes_all : fixes := mkFixes true true true true true true.
Definition fixes_none : fixes := mkFixes false false false false false false.
