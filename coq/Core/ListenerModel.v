(* ListenerModel: the accept loop of one nni_listener (src/core/listener.c: nni_listener_start,
   listener_accept_cb, listener_timer_cb, nni_listener_close/stop).  Definitions only.
   One step = one callback / entry point; the transport and the clock are the environment.
   The transport side has the shape shared by tcp.c, ipc.c, tls.c and sockfd.c: the accept
   aio (`useraio`) is completed by a negotiated connection being matched (result 0 and the
   pipe), by the error path of the negotiation callback (which maps NNG_ECLOSED to
   NNG_ECONNSHUT), by the error path of the platform accept callback, or by the endpoint's
   close. *)
From Coq Require Import List Arith NArith Bool.
Import ListNotations.
Local Open Scope N_scope.

Definition L_OK : N := 0.
Definition L_EBUSY : N := 4.
Definition L_ETIMEDOUT : N := 5.
Definition L_ECLOSED : N := 7.
Definition L_ECONNABORTED : N := 18.
Definition L_ECONNRESET : N := 19.
Definition L_ECANCELED : N := 20.
Definition L_EPEERAUTH : N := 27.
Definition L_ECONNSHUT : N := 31.
Definition L_ESTOPPED : N := 999.
Definition L_COOLDOWN_MS : N := 100.       (* nni_sleep_aio(100, &l->l_tmo_aio) *)

(* the switch of listener_accept_cb *)
Inductive lact :=
| LaStartRearm      (* nni_pipe_start(pipe); listener_accept_start *)
| LaRearm           (* listener_accept_start at once *)
| LaCooldown        (* nni_sleep_aio(100, &l->l_tmo_aio); listener_timer_cb re-arms *)
| LaStop.           (* nothing: the accept loop ends *)

Definition listener_accept_decision (rv : N) : lact :=
  if N.eqb rv L_OK then LaStartRearm
  else if N.eqb rv L_ECONNABORTED then LaStop
  else if N.eqb rv L_ECONNRESET || N.eqb rv L_ETIMEDOUT || N.eqb rv L_EPEERAUTH then LaRearm
  else if N.eqb rv L_ESTOPPED || N.eqb rv L_ECLOSED || N.eqb rv L_ECANCELED then LaStop
  else LaCooldown.

Definition stop_code (rv : N) : bool :=
  N.eqb rv L_ECONNABORTED || N.eqb rv L_ESTOPPED || N.eqb rv L_ECLOSED || N.eqb rv L_ECANCELED.

Record listener := mkListener {
  l_closed : bool;                    (* nni_listener_close has run: endpoint closed, both aios stopped *)
  l_started : bool;
  l_acc : bool;                       (* l_acc_aio is with the transport *)
  l_acc_done : option (N * nat);      (* ... has completed (result, pipe); listener_accept_cb not yet run *)
  l_tmo : option N;                   (* l_tmo_aio is sleeping (duration) *)
  l_tmo_done : option N;              (* ... has completed; listener_timer_cb not yet run *)
  (* ghost *)
  g_acc_calls : nat;                  (* calls of the transport's l_accept *)
  g_lpipes : list nat;                (* pipes handed to nni_pipe_start, newest first *)
  g_lclash : bool;                    (* an aio was started while in use *)
  g_llost : bool }.                   (* a result of class LaStop was seen while the listener was open *)

Definition listener_init : listener := mkListener false false false None None None 0 [] false false.

(* who completes the accept aio *)
Inductive lsrc :=
| SrcMatch (p : nat)                  (* a negotiated connection is matched with the pending accept *)
| SrcNego (rv : N)                    (* a connection's negotiation ended with stream result rv <> 0 *)
| SrcAccept (rv : N).                 (* the platform's accept failed with rv *)

Definition src_code (s : lsrc) : N * nat :=
  match s with
  | SrcMatch p => (L_OK, p)
  | SrcNego rv => ((if N.eqb rv L_ECLOSED then L_ECONNSHUT else rv), O)
  | SrcAccept rv => (rv, O)
  end.

(* what the streams / the platform may hand up while the endpoint is open -- the ASSUMPTION under
   which "the stop codes are produced only by close" is proved (see Properties_C14) *)
Definition src_ok (s : lsrc) : bool :=
  match s with
  | SrcMatch _ => true
  | SrcNego rv => negb (N.eqb rv L_OK) && negb (N.eqb rv L_ECONNABORTED || N.eqb rv L_ESTOPPED || N.eqb rv L_ECANCELED)
  | SrcAccept rv => negb (N.eqb rv L_OK) && negb (stop_code rv)
  end.

Inductive lop :=
| LoStart                              (* nni_listener_start (bind succeeded) *)
| LTran (s : lsrc)                    (* the transport completes the accept aio *)
| LAccCb                              (* listener_accept_cb *)
| LTimerFire                          (* the cool-down expires *)
| LTimerCb                            (* listener_timer_cb *)
| LoClose.                             (* nni_listener_close *)

(* listener_accept_start: l_ops.l_accept(l_data, &l_acc_aio) *)
Definition accept_start (l : listener) : listener :=
  if l_closed l then
    mkListener (l_closed l) (l_started l) (l_acc l) (Some (L_ECLOSED, O)) (l_tmo l) (l_tmo_done l)
               (S (g_acc_calls l)) (g_lpipes l)
               (g_lclash l || match l_acc_done l with Some _ => true | None => l_acc l end) (g_llost l)
  else
    mkListener (l_closed l) (l_started l) true (l_acc_done l) (l_tmo l) (l_tmo_done l)
               (S (g_acc_calls l)) (g_lpipes l)
               (g_lclash l || l_acc l || match l_acc_done l with Some _ => true | None => false end) (g_llost l).

Definition lstep (l : listener) (o : lop) : listener :=
  match o with
  | LoStart =>
      if l_started l then l
      else accept_start (mkListener (l_closed l) true (l_acc l) (l_acc_done l) (l_tmo l) (l_tmo_done l)
                                    (g_acc_calls l) (g_lpipes l) (g_lclash l) (g_llost l))
  | LTran s =>
      if l_acc l then
        mkListener (l_closed l) (l_started l) false (Some (src_code s)) (l_tmo l) (l_tmo_done l)
                   (g_acc_calls l) (g_lpipes l)
                   (g_lclash l || match l_acc_done l with Some _ => true | None => false end) (g_llost l)
      else l
  | LAccCb =>
      match l_acc_done l with
      | None => l
      | Some (rv, p) =>
          let l1 := mkListener (l_closed l) (l_started l) (l_acc l) None (l_tmo l) (l_tmo_done l)
                               (g_acc_calls l) (g_lpipes l) (g_lclash l) (g_llost l) in
          match listener_accept_decision rv with
          | LaStartRearm =>
              accept_start (mkListener (l_closed l) (l_started l) (l_acc l) None (l_tmo l) (l_tmo_done l)
                                       (g_acc_calls l) (p :: g_lpipes l) (g_lclash l) (g_llost l))
          | LaRearm => accept_start l1
          | LaCooldown =>
              if l_closed l then l1    (* l_tmo_aio is stopped: the sleep fails, its callback does nothing *)
              else mkListener (l_closed l) (l_started l) (l_acc l) None (Some L_COOLDOWN_MS) (l_tmo_done l)
                              (g_acc_calls l) (g_lpipes l)
                              (g_lclash l || match l_tmo l, l_tmo_done l with None, None => false | _, _ => true end)
                              (g_llost l)
          | LaStop =>
              mkListener (l_closed l) (l_started l) (l_acc l) None (l_tmo l) (l_tmo_done l)
                         (g_acc_calls l) (g_lpipes l) (g_lclash l) (g_llost l || negb (l_closed l))
          end
      end
  | LTimerFire =>
      match l_tmo l with
      | Some _ => mkListener (l_closed l) (l_started l) (l_acc l) (l_acc_done l) None (Some L_OK)
                             (g_acc_calls l) (g_lpipes l) (g_lclash l) (g_llost l)
      | None => l
      end
  | LTimerCb =>
      match l_tmo_done l with
      | Some r =>
          let l1 := mkListener (l_closed l) (l_started l) (l_acc l) (l_acc_done l) (l_tmo l) None
                               (g_acc_calls l) (g_lpipes l) (g_lclash l) (g_llost l) in
          if N.eqb r L_OK then accept_start l1 else l1
      | None => l
      end
  | LoClose =>
      if l_closed l then l
      else mkListener true (l_started l) false (if l_acc l then Some (L_ECLOSED, O) else l_acc_done l) None
                      (match l_tmo l with Some _ => Some L_ESTOPPED | None => l_tmo_done l end)
                      (g_acc_calls l) (g_lpipes l) (g_lclash l) (g_llost l)
  end.

Definition lrun (l : listener) (ops : list lop) : listener := fold_left lstep ops l.

Definition lb2n (b : bool) : nat := if b then 1%nat else 0%nat.
Definition ltokens (l : listener) : nat :=
  (lb2n (l_acc l) + lb2n (match l_acc_done l with Some _ => true | None => false end) +
   lb2n (match l_tmo l with Some _ => true | None => false end) +
   lb2n (match l_tmo_done l with Some r => N.eqb r L_OK | None => false end))%nat.

Definition lop_ok (o : lop) : bool := match o with LTran s => src_ok s | _ => true end.
