(* CloseTerm: termination of the shutdown protocol (property C10, close_terminates).
   A lexicographic measure (Phi, PS, L) over the states of Core/CloseModel.v (all repairs
   applied) strictly decreases along every internal step: a step of any thread inside the
   library, of the reaper, or a callback of an operation that close has aborted.  Hence every
   run contains only finitely many internal steps between two steps of the environment (new
   calls of the application, network events), whatever the interleaving.

   Phi  latches not yet set, summed over all objects (every latch is set at most once), plus
        the latches of the objects that pending create calls will still allocate;
   PS   for every endpoint waiting for / undergoing its reap: the pipe items queued behind it
        (decreases when dialer_reap / listener_reap re-queues the endpoint behind its pipes);
   L    work left in the continuations of all threads and the reaper, in the reap queue, and
        callbacks outstanding on objects whose transport side was closed. *)
From Coq Require Import List Arith NArith Bool Lia.
Import ListNotations.
From NngV Require Import Core.CloseModel Core.CloseProofs.

Definition b2n (b : bool) : nat := if b then 1 else 0.

(* ---------------------------------------------------------------- Phi *)
Definition phi_k (k : sockst) : nat :=
  b2n (negb (k_closing k)) + b2n (negb (k_closed k)) + b2n (negb (k_pclosed k)) + b2n (negb (k_shutdone k)) + b2n (negb (k_freed k)).
Definition phi_c (c : ctxst) : nat := b2n (negb (c_closed c)) + b2n (c_onlist c) + b2n (negb (c_freed c)).
Definition e_fresh (e : epst) : bool := negb (e_pub e) && negb (e_freed e).
Definition phi_e (e : epst) : nat :=
  b2n (e_fresh e) + b2n (negb (e_closed e)) + b2n (negb (e_tranclosed e)) + b2n (negb (e_stopped e)) +
  b2n (e_onlist e || e_fresh e) + b2n (negb (e_reapq e)) + b2n (negb (e_freed e)).
Definition phi_p (p : pipest) : nat :=
  b2n (negb (p_closed p)) + b2n (negb (p_tranclosed p)) + b2n (p_inmap p) + b2n (negb (p_stopped p)) +
  b2n (p_onlist p) + b2n (negb (p_freed p)).
Definition PC := 3.   (* phi_c of a new context *)
Definition PE := 7.   (* phi_e of a new endpoint *)
Definition wphi (a : act) : nat :=
  match a with
  | AFind UCtxOpen => PC + 2 | ACtxOpen1 => PC + 1
  | AFind (UEpCreate _) => PE + 2 | AEpCreate1 _ => PE + 1
  | _ => 0
  end.
Definition phi_obj (s : st) : nat := phi_k (sk s) + sum phi_c (ctxs s) + sum phi_e (eps s) + sum phi_p (pipes s).
Definition Phi (s : st) : nat := phi_obj s + sum (sum wphi) (threads s) + sum wphi (reaper s).

(* ---------------------------------------------------------------- PS *)
Fixpoint count_pipe (l : list ritem) : nat :=
  match l with [] => 0 | RPipe _ :: r => S (count_pipe r) | REp _ :: r => count_pipe r end.
Fixpoint count_ep (l : list ritem) : nat :=
  match l with [] => 0 | RPipe _ :: r => count_ep r | REp _ :: r => S (count_ep r) end.
Fixpoint ps_list (l : list ritem) : nat :=
  match l with [] => 0 | REp _ :: r => count_pipe r + ps_list r | RPipe _ :: r => ps_list r end.
Definition rhead (r : list act) : list ritem := match r with AEpReap e :: _ => [REp e] | _ => [] end.
Definition PS (s : st) : nat := ps_list (rhead (reaper s) ++ rq s).

(* ---------------------------------------------------------------- L *)
Definition BB := 9.   (* budget of one iteration of sock_shutdown's endpoint loop *)
Definition w (a : act) : nat :=
  match a with
  | ARet _ _ _ => 1
  | AShutBegin _ => 12 | AShutEp => 1 | AShutPipes => 1 | AMsgqClose => 1 | AShutCtxs => 1
  | AWaitCtxs => 1 | AWaitPipes => 1 | AProtoClose => 1
  | ASockClose2 _ => 4 | AWaitRefs => 1 | ASockDestroy => 1 | ASockRele => 1
  | ACtxOpen1 => 6 | ACtxOpen2 _ => 5 | ACtxClose _ => 1 | ACtxRele _ => 1 | ACtxDestroy _ => 1
  | AEpCreate1 _ => 4 | AEpCreate2 _ => 3
  | AEpClose _ => 7 | AEpTranClose _ => 1 | AEpStopWait _ => 1 | AEpClosePipes _ => 1
  | AEpSockRemove _ => 1 | AEpRele _ => 1 | AEpStart _ _ => 2 | AEpReap _ => 3 | AEpDestroy _ => 1
  | APipeClose _ => 1 | APipeRele _ => 1 | APipeTranClose _ => 1 | APipeIdRemove _ => 1
  | APipeStopWait _ => 1 | APipeRemove _ => 1
  | ASubmit _ _ _ => 1
  | AFind u => 2 + sum (fun a => match a with
                                 | AShutBegin _ => 12 | ACtxOpen1 => 6 | AEpCreate1 _ => 4 | AEpClose _ => 7
                                 | AEpStart _ _ => 2 | _ => 1 end) (after_find u)
  end.

(* endpoints still to be closed by the loop: on the list, not closed, not among those whose close is
   already ahead in the same continuation *)
Fixpoint nuo_from (i : nat) (cl : list nat) (es : list epst) : nat :=
  match es with
  | [] => 0
  | e :: r => b2n (e_onlist e && negb (e_closed e) && negb (existsb (Nat.eqb i) cl)) + nuo_from (S i) cl r
  end.
Definition nuo (s : st) (cl : list nat) : nat := nuo_from 0 cl (eps s).

Fixpoint Wt (s : st) (cl : list nat) (l : list act) : nat :=
  match l with
  | [] => 0
  | a :: r =>
      w a + (match a with AShutEp => BB * nuo s cl | _ => 0 end) +
      Wt s (match a with AEpClose e => e :: cl | _ => cl end) r
  end.

Definition wq (i : ritem) : nat := match i with RPipe _ => 6 | REp _ => 4 end.
Definition busy_e (e : epst) : nat := if e_tranclosed e then e_busy e else 0.
Definition busy_p (p : pipest) : nat := if p_tranclosed p then p_busy p else 0.
Definition Ltail (s : st) : nat := sum wq (rq s) + sum busy_e (eps s) + sum busy_p (pipes s).
Definition L (s : st) : nat := sum (Wt s []) (threads s) + Wt s [] (reaper s) + Ltail s.

Definition lt3 (a b : nat * nat * nat) : Prop :=
  let '(a1, a2, a3) := a in let '(b1, b2, b3) := b in
  a1 < b1 \/ (a1 = b1 /\ (a2 < b2 \/ (a2 = b2 /\ a3 < b3))).
Definition M3 (s : st) : nat * nat * nat := (Phi s, PS s, L s).

Lemma lt3_wf : well_founded lt3.
Proof.
  assert (H: forall a b c, Acc lt3 (a, b, c)).
  { induction a as [a IHa] using lt_wf_ind. induction b as [b IHb] using lt_wf_ind. induction c as [c IHc] using lt_wf_ind.
    constructor. intros [[a' b'] c'] Hlt. simpl in Hlt.
    destruct Hlt as [Hlt|[-> [Hlt|[-> Hlt]]]]; auto. }
  intros [[a b] c]; auto.
Qed.

(* ================================================================ helpers *)
Lemma nuo_from_cons_le i e cl es : nuo_from i (e :: cl) es <= nuo_from i cl es.
Proof.
  revert i; induction es as [|x r IH]; intros i; simpl; auto.
  specialize (IH (S i)).
  destruct (e_onlist x && negb (e_closed x)); simpl; [|lia].
  destruct (i =? e); simpl; [lia|]. destruct (existsb (Nat.eqb i) cl); simpl; lia.
Qed.

Lemma nuo_from_incl i cl cl' es : (forall j, In j cl -> In j cl') -> nuo_from i cl' es <= nuo_from i cl es.
Proof.
  intros H; revert i; induction es as [|x r IH]; intros i; simpl; auto.
  specialize (IH (S i)).
  destruct (e_onlist x && negb (e_closed x)); simpl; [|lia].
  destruct (existsb (Nat.eqb i) cl) eqn:E; simpl.
  - apply existsb_exists in E as (j & Hj & Ej). assert (X: existsb (Nat.eqb i) cl' = true) by (apply existsb_exists; eauto).
    rewrite X; simpl; lia.
  - destruct (existsb (Nat.eqb i) cl'); simpl; lia.
Qed.

(* pointwise: the flags that matter can only go down *)
Definition ep_le (y x : epst) : Prop := e_onlist y && negb (e_closed y) = true -> e_onlist x && negb (e_closed x) = true.

Lemma nuo_from_mono i cl es es' : Forall2 ep_le es' es -> nuo_from i cl es' <= nuo_from i cl es.
Proof.
  intros H; revert i; induction H as [|y x r' r Hyx _ IH]; intros i; simpl; auto.
  specialize (IH (S i)). unfold ep_le in Hyx.
  destruct (e_onlist y && negb (e_closed y)); simpl; [rewrite Hyx by auto; simpl; lia|].
  destruct (e_onlist x && negb (e_closed x) && negb (existsb (Nat.eqb i) cl)); simpl; lia.
Qed.

Lemma Forall2_refl {A} (R : A -> A -> Prop) l : (forall x, R x x) -> Forall2 R l l.
Proof. intros; induction l; constructor; auto. Qed.

Lemma Forall2_upd {A} (R : A -> A -> Prop) (l : list A) i f :
  (forall x, R x x) -> (forall x, R (f x) x) -> Forall2 R (upd l i f) l.
Proof.
  intros Hr Hf; revert i; induction l; intros [|i]; simpl; constructor; auto. apply Forall2_refl; auto.
Qed.

Lemma ep_le_refl x : ep_le x x.  Proof. unfold ep_le; auto. Qed.

Lemma nuo_from_skip i cl e es : e < i -> nuo_from i (e :: cl) es = nuo_from i cl es.
Proof.
  revert i; induction es as [|y r IH]; intros i H; simpl; auto.
  replace (i =? e) with false by (symmetry; apply Nat.eqb_neq; lia). simpl.
  rewrite IH by lia. reflexivity.
Qed.

(* an endpoint that is closed already does not count, whether or not its close is ahead *)
Lemma nuo_from_closed_at i j cl es x :
  nth_error es j = Some x -> e_closed x = true -> nuo_from i ((i + j) :: cl) es = nuo_from i cl es.
Proof.
  revert i j; induction es as [|y r IH]; intros i [|j] E Hc; simpl in *; try discriminate.
  - injection E as ->. rewrite Hc. rewrite !andb_false_r; simpl.
    apply nuo_from_skip; lia.
  - replace (i =? i + S j) with false by (symmetry; apply Nat.eqb_neq; lia). simpl.
    replace (i + S j) with (S i + j) by lia. rewrite (IH (S i) j E Hc). reflexivity.
Qed.

(* an endpoint on the list and not closed counts exactly once *)
Lemma nuo_from_open_at i j cl es x :
  nth_error es j = Some x -> e_onlist x = true -> e_closed x = false -> existsb (Nat.eqb (i + j)) cl = false ->
  nuo_from i ((i + j) :: cl) es + 1 <= nuo_from i cl es.
Proof.
  revert i j; induction es as [|y r IH]; intros i [|j] E Ho Hc Hn; simpl in *; try discriminate.
  - injection E as ->. rewrite Ho, Hc. replace (i + 0) with i in * by lia. rewrite Nat.eqb_refl, Hn. simpl.
    rewrite nuo_from_skip by lia. lia.
  - replace (i =? i + S j) with false by (symmetry; apply Nat.eqb_neq; lia). simpl.
    replace (i + S j) with (S i + j) in * by lia. specialize (IH (S i) j E Ho Hc Hn). lia.
Qed.

(* closing endpoint j: afterwards it counts as if its close were still ahead *)
Lemma nuo_from_close_at i j cl es f :
  (forall x, e_closed (f x) = true) -> (forall x, e_onlist (f x) = e_onlist x) ->
  nuo_from i cl (upd es j f) <= nuo_from i ((i + j) :: cl) es.
Proof.
  intros Hf Ho. revert i j; induction es as [|y r IH]; intros i [|j]; simpl; auto.
  - rewrite Hf. rewrite !andb_false_r; simpl. rewrite nuo_from_skip by lia. lia.
  - replace (i =? i + S j) with false by (symmetry; apply Nat.eqb_neq; lia). simpl.
    replace (i + S j) with (S i + j) by lia. specialize (IH (S i) j). lia.
Qed.

Definition eps_le (s1 s : st) : Prop := Forall2 ep_le (eps s1) (eps s).

Lemma nuo_mono s1 s cl : eps_le s1 s -> nuo s1 cl <= nuo s cl.
Proof. intros; apply nuo_from_mono; auto. Qed.

Lemma Wt_mono s1 s l : eps_le s1 s -> forall cl cl', (forall j, In j cl -> In j cl') -> Wt s1 cl' l <= Wt s cl l.
Proof.
  intros Hs; induction l as [|a r IH]; intros cl cl' Hc; simpl; auto.
  assert (Hn: nuo s1 cl' <= nuo s cl).
  { etransitivity; [apply nuo_mono; eauto|]. apply nuo_from_incl; auto. }
  assert (Hr: Wt s1 (match a with AEpClose e => e :: cl' | _ => cl' end) r <= Wt s (match a with AEpClose e => e :: cl | _ => cl end) r).
  { apply IH. destruct a; auto. intros j [->|Hj]; simpl; auto. }
  destruct a; simpl in *; unfold BB; nia.
Qed.

Lemma Wt_mono_same s1 s l cl : eps_le s1 s -> Wt s1 cl l <= Wt s cl l.
Proof. intros; eapply Wt_mono; eauto. Qed.

Lemma eps_le_refl s : eps_le s s.
Proof. apply Forall2_refl; apply ep_le_refl. Qed.

Lemma Wt_cl_le s l e cl : Wt s (e :: cl) l <= Wt s cl l.
Proof. apply Wt_mono; [apply eps_le_refl|]. simpl; auto. Qed.

Lemma sum_Wt_mono s1 s (ts : list (list act)) : eps_le s1 s -> sum (Wt s1 []) ts <= sum (Wt s []) ts.
Proof. intros; apply sum_le; intros; apply Wt_mono_same; auto. Qed.

(* ps_list *)
Lemma ps_list_app_pipe l p : ps_list (l ++ [RPipe p]) = ps_list l + count_ep l.
Proof. induction l as [|[q|e] r IH]; simpl; auto; try lia.
  assert (X: count_pipe (r ++ [RPipe p]) = S (count_pipe r)) by (clear; induction r as [|[]]; simpl; auto). lia. Qed.
Lemma count_pipe_app l1 l2 : count_pipe (l1 ++ l2) = count_pipe l1 + count_pipe l2.
Proof. induction l1 as [|[]]; simpl; auto. Qed.
Lemma ps_list_app_ep l e : ps_list (l ++ [REp e]) = ps_list l.
Proof. induction l as [|[q|e'] r IH]; simpl; auto. rewrite count_pipe_app; simpl. lia. Qed.

(* run_act leaves the continuations alone *)
Ltac inv_some H := injection H as <- <-.

Lemma run_act_frame fx s a s1 more : run_act fx s a = Some (s1, more) -> threads s1 = threads s /\ reaper s1 = reaper s.
Proof.
  unfold run_act; intros H.
  destruct a; repeat (match type of H with
                      | context[match ?x with _ => _ end] => destruct x eqn:?
                      | context[if ?x then _ else _] => destruct x eqn:?
                      end); try discriminate H; inv_some H; auto.
Qed.

(* ================================================================ one critical section *)
(* what one action does to the parts of the measure that do not depend on who runs it *)
Definition cert (s : st) (a : act) (s1 : st) (more : list act) : Prop :=
  phi_obj s1 + sum wphi more <= phi_obj s + wphi a /\
  ( phi_obj s1 + sum wphi more < phi_obj s + wphi a \/
    ( eps_le s1 s /\ rq s1 = rq s /\
      forall rest, Wt s1 [] (more ++ rest) + Ltail s1 < Wt s [] (a :: rest) + Ltail s ) \/
    ( exists e, a = AEpReap e /\ more = [] /\ s1 = set_rq s (rq s ++ [REp e]) /\ ep_has_pipes s e = true /\
                close_pipes 0 (fun p => p_ep p =? e) (pipes s) = (pipes s, []) ) ).

Lemma b2n_le b : b2n b <= 1.  Proof. destruct b; simpl; lia. Qed.

Ltac plain := right; left; split; [|split; [|intros rest]].

Ltac ele := unfold eps_le; simpl; try (apply Forall2_refl; apply ep_le_refl).

(* updating one endpoint *)
Lemma eps_le_upd s e f : (forall x, ep_le (f x) x) -> eps_le (set_eps s (upd (eps s) e f)) s.
Proof. intros; unfold eps_le; simpl. apply Forall2_upd; auto. apply ep_le_refl. Qed.

Lemma Wt_step_le s1 s rest : eps_le s1 s -> Wt s1 [] rest <= Wt s [] rest.
Proof. apply Wt_mono_same. Qed.

Lemma close_pipes_facts sel l : forall i ps q, close_pipes i sel l = (ps, q) ->
  sum phi_p ps + length q = sum phi_p l /\ sum busy_p ps = sum busy_p l /\ sum wq q = 6 * length q /\
  (q = [] -> ps = l).
Proof.
  induction l as [|p r IH]; intros i ps q H; simpl in H.
  - injection H as <- <-; simpl; auto.
  - destruct (close_pipes (S i) sel r) as [r' q'] eqn:E. specialize (IH _ _ _ E) as (H1 & H2 & H3 & H4).
    destruct (sel p && p_onlist p && negb (p_closed p)) eqn:Es; injection H as <- <-; simpl.
    + apply andb_prop in Es as [_ Ec]. destruct p; simpl in *. unfold phi_p, busy_p in *; simpl in *.
      destruct p_closed; [discriminate|]. simpl. repeat split; try lia. discriminate.
    + repeat split; try lia. intros ->. rewrite H4; auto.
Qed.

Lemma shut_ctxs_facts mk l : forall cs a, shut_ctxs mk l = (cs, a) -> sum phi_c cs <= sum phi_c l.
Proof.
  induction l as [|c r IH]; intros cs a H; simpl in H.
  - injection H as <- <-; simpl; auto.
  - destruct (shut_ctxs mk r) as [r' l'] eqn:E. specialize (IH _ _ eq_refl).
    destruct (c_onlist c) eqn:Eo; [destruct (c_ref c =? 0); [|destruct mk]|]; injection H as <- <-; simpl;
      destruct c; unfold phi_c in *; simpl in *; subst; simpl;
      repeat match goal with |- context[b2n (negb ?b)] => is_var b; destruct b; simpl end; lia.
Qed.

Ltac fin_plain_with tac :=
  right; left;
  match goal with |- eps_le ?s1 ?s /\ _ =>
    let Hle := fresh "Hle" in
    assert (Hle: eps_le s1 s) by tac;
    split; [exact Hle|split; [try reflexivity|
      let rest := fresh "rest" in intros rest;
      pose proof (Wt_mono_same s1 s rest [] Hle); cbn [Wt w app] in *; unfold Ltail; simpl; try lia]] end.
Ltac fin_plain := fin_plain_with ele.


(* Phi does not increase (tac proves it); then the plain certificate *)
Ltac cert_plain tac :=
  unfold cert;
  match goal with |- ?A <= ?B /\ _ =>
    let Hp := fresh "Hp" in
    assert (Hp: A <= B) by (unfold phi_obj, phi_k; simpl; tac);
    split; [exact Hp|fin_plain] end.
Ltac cert_strict tac :=
  unfold cert;
  match goal with |- ?A <= ?B /\ _ =>
    let Hp := fresh "Hp" in
    assert (Hp: A < B) by (unfold phi_obj, phi_k; simpl; tac);
    split; [lia|left; exact Hp] end.

Lemma cert_sock s a s1 more :
  match a with
  | AShutBegin _ | AShutPipes | AMsgqClose | AShutCtxs | AWaitCtxs | AWaitPipes | AProtoClose
  | ASockClose2 _ | AWaitRefs | ASockDestroy | ASockRele | ARet _ _ _ => True
  | _ => False
  end ->
  run_act fixes_all s a = Some (s1, more) -> cert s a s1 more.
Proof.
  intros Ha H.
  destruct a; try contradiction; simpl in H.
  - (* ARet *) inv_some H. cert_plain lia.
  - (* AShutBegin *)
    destruct (k_device (sk s) && negb dev).
    { inv_some H. cert_plain lia. }
    destruct (k_closing (sk s)) eqn:Ec.
    { inv_some H. cert_plain lia. }
    inv_some H. cert_strict ltac:(rewrite Ec; simpl; lia).
  - (* AShutPipes *)
    destruct (close_pipes 0 (fun _ => true) (pipes s)) as [ps q] eqn:E. inv_some H.
    apply close_pipes_facts in E as (H1 & H2 & H3 & H4).
    destruct q as [|i q].
    + rewrite H4 by auto. rewrite app_nil_r. cert_plain lia.
    + cert_strict ltac:(simpl in *; lia).
  - (* AMsgqClose *)
    destruct (k_phase (sk s)); inv_some H; cert_plain ltac:(destruct (k_pclosed (sk s)); simpl; lia).
  - (* AShutCtxs *)
    destruct (shut_ctxs true (ctxs s)) as [cs l] eqn:E. inv_some H. apply shut_ctxs_facts in E. cert_plain lia.
  - (* AWaitCtxs *) destruct (any_ctx_onlist s); [discriminate H|]. inv_some H. cert_plain lia.
  - (* AWaitPipes *) destruct (any_pipe_onlist s); [discriminate H|]. inv_some H. cert_plain lia.
  - (* AProtoClose *)
    destruct (k_phase (sk s)); inv_some H; cert_plain ltac:(destruct (k_pclosed (sk s)), (k_shutdone (sk s)); simpl; lia).
  - (* ASockClose2 *)
    destruct (k_closed (sk s)) eqn:Ec; inv_some H.
    + cert_plain lia.
    + cert_strict ltac:(rewrite Ec; simpl; lia).
  - (* AWaitRefs *) destruct ((k_ref (sk s) <=? 1) && negb (any_ctx_onlist s)); [|discriminate H]. inv_some H. cert_plain lia.
  - (* ASockDestroy *)
    destruct (k_finic (sk s) || true); inv_some H; cert_plain ltac:(destruct (k_freed (sk s)); simpl; lia).
  - (* ASockRele *)
    destruct (k_freed (sk s)); [inv_some H; cert_plain lia|].
    destruct (k_ref (sk s)); inv_some H; cert_plain lia.
Qed.

Lemma sum_upd_le {A} (g : A -> nat) l i f : (forall x, g (f x) <= g x) -> sum g (upd l i f) <= sum g l.
Proof. intros Hf; revert i; induction l; intros [|i]; simpl; auto. specialize (Hf a); lia. specialize (IHl i); lia. Qed.
Lemma sum_upd_lt {A} (g : A -> nat) l i f x : nth_error l i = Some x -> g (f x) < g x -> sum g (upd l i f) < sum g l.
Proof. intros E H. pose proof (sum_upd g l i f x E). lia. Qed.
Lemma sum_upd_eq {A} (g : A -> nat) l i f : (forall x, g (f x) = g x) -> sum g (upd l i f) = sum g l.
Proof. intros Hf; revert i; induction l; intros [|i]; simpl; auto; try (rewrite Hf; auto); try (rewrite IHl; auto). Qed.

Ltac bdestr := repeat (match goal with
  | |- context[b2n ?t] => match t with context[?b] => is_var b; match type of b with bool => destruct b; simpl in * end end
  | H : context[b2n ?t] |- _ => match t with context[?b] => is_var b; match type of b with bool => destruct b; simpl in * end end
  | H : context[if ?b then _ else _] |- _ => is_var b; destruct b; simpl in *
  | |- context[if ?b then _ else _] => is_var b; destruct b; simpl in *
  end).

Lemma cert_ctx s a s1 more :
  match a with ACtxOpen1 | ACtxOpen2 _ | ACtxClose _ | ACtxRele _ | ACtxDestroy _ => True | _ => False end ->
  run_act fixes_all s a = Some (s1, more) -> cert s a s1 more.
Proof.
  intros Ha H.
  destruct a; try contradiction; simpl in H.
  - (* ACtxOpen1 *)
    destruct (k_closed (sk s)); inv_some H.
    + cert_strict ltac:(unfold PC; lia).
    + cert_strict ltac:(rewrite sum_app; unfold PC, phi_c; simpl; lia).
  - (* ACtxOpen2 *)
    destruct (k_closing (sk s)); inv_some H.
    + cert_plain lia.
    + cert_plain ltac:(pose proof (sum_upd_le phi_c (ctxs s) c cset_pub) as X; lapply X; [lia|intros []; reflexivity]).
  - (* ACtxClose *)
    inv_some H. cert_plain ltac:(pose proof (sum_upd_le phi_c (ctxs s) c cset_closed) as X; lapply X; [lia|intros [] ; unfold phi_c; simpl; bdestr; lia]).
  - (* ACtxRele *)
    destruct (nth_error (ctxs s) c) as [x|] eqn:E; [|inv_some H; cert_plain lia].
    destruct (c_freed x); [inv_some H; cert_plain lia|].
    destruct (c_ref x) as [|n]; [inv_some H; cert_plain lia|].
    destruct ((0 <? n) || negb (c_closed x)); inv_some H.
    + cert_plain ltac:(pose proof (sum_upd_le phi_c (ctxs s) c (fun x => cset_ref x n)) as X; lapply X; [lia|intros []; reflexivity]).
    + cert_plain ltac:(pose proof (sum_upd_le phi_c (ctxs s) c (fun x => cset_fini (cset_unlink (cset_ref x n)))) as X; lapply X; [lia|intros []; unfold phi_c; simpl; bdestr; lia]).
  - (* ACtxDestroy *)
    destruct (nth_error (ctxs s) c) as [x|] eqn:E; [|inv_some H; cert_plain lia].
    destruct (k_freed (sk s)); inv_some H.
    + cert_plain lia.
    + cert_plain ltac:(pose proof (sum_upd_le phi_c (ctxs s) c (fun x => cset_fini (cset_unlink x))) as X; lapply X; [lia|intros []; unfold phi_c; simpl; bdestr; lia]).
Qed.

Lemma Wt_drop s1 s e : (forall cl, nuo s1 cl <= nuo s (e :: cl)) ->
  forall r cl cl', (forall j, In j cl' -> j = e \/ In j cl) -> Wt s1 cl r <= Wt s cl' r.
Proof.
  intros Hn; induction r as [|a r IH]; intros cl cl' Hc; simpl; auto.
  assert (Hn': nuo s1 cl <= nuo s cl').
  { etransitivity; [apply Hn|]. apply nuo_from_incl. intros j Hj. destruct (Hc j Hj) as [->|]; simpl; auto. }
  assert (Hr: Wt s1 (match a with AEpClose e0 => e0 :: cl | _ => cl end) r <= Wt s (match a with AEpClose e0 => e0 :: cl' | _ => cl' end) r).
  { apply IH. destruct a; auto. intros j [->|Hj]; simpl; auto. destruct (Hc j Hj); auto. }
  destruct a; simpl in *; unfold BB; nia.
Qed.

Lemma nuo_closed_irrel s e x cl : nth_error (eps s) e = Some x -> e_closed x = true -> nuo s cl <= nuo s (e :: cl).
Proof. intros E Hc. unfold nuo. rewrite <- (nuo_from_closed_at 0 e cl (eps s) x E Hc). simpl. lia. Qed.

Lemma nuo_close_upd s e f cl :
  (forall x, e_closed (f x) = true) -> (forall x, e_onlist (f x) = e_onlist x) ->
  nuo (set_eps s (upd (eps s) e f)) cl <= nuo s (e :: cl).
Proof. intros; unfold nuo; simpl. apply (nuo_from_close_at 0 e cl (eps s) f); auto. Qed.


(* ---- the general shape ---- *)
Definition simple (a : act) : bool := match a with AEpClose _ | AShutEp => false | _ => true end.

Lemma Wt_simple s cl more rest : forallb simple more = true -> Wt s cl (more ++ rest) = sum w more + Wt s cl rest.
Proof.
  induction more as [|a r IH]; simpl; auto. intros H; apply andb_prop in H as [Ha Hr].
  destruct a; simpl in *; try discriminate Ha; rewrite IH by auto; lia.
Qed.

Lemma cert_gen s a s1 more :
  simple a = true -> forallb simple more = true ->
  phi_obj s1 + sum wphi more <= phi_obj s + wphi a ->
  (phi_obj s1 + sum wphi more < phi_obj s + wphi a \/
   (eps_le s1 s /\ rq s1 = rq s /\ sum w more + Ltail s1 < w a + Ltail s)) ->
  cert s a s1 more.
Proof.
  intros Ha Hm Hp [Hlt|(Hle & Hq & Hl)]; split; auto.
  right; left. split; auto. split; auto. intros rest.
  rewrite Wt_simple by auto. pose proof (Wt_mono_same s1 s rest [] Hle).
  destruct a; simpl in *; try discriminate Ha; lia.
Qed.

Lemma Forall2_upd_at {A} (R : A -> A -> Prop) (l : list A) i f x :
  (forall y, R y y) -> nth_error l i = Some x -> R (f x) x -> Forall2 R (upd l i f) l.
Proof.
  intros Hr; revert i; induction l; intros [|i] E Hf; simpl in *; try discriminate.
  - injection E as ->. constructor; auto. apply Forall2_refl; auto.
  - constructor; auto.
Qed.

(* measure-relevant view of a state *)
Definition mview (s : st) := (sk s, ctxs s, eps s, pipes s, rq s).

Ltac ep_facts s e f x E :=
  pose proof (sum_upd phi_e (eps s) e f x E);
  pose proof (sum_upd busy_e (eps s) e f x E).
Ltac pipe_facts s p f x E :=
  pose proof (sum_upd phi_p (pipes s) p f x E);
  pose proof (sum_upd busy_p (pipes s) p f x E).

Ltac gen_strict := apply cert_gen; [reflexivity|reflexivity| |left]; unfold phi_obj; simpl.
Ltac gen_plain := apply cert_gen; [reflexivity|reflexivity| |right; split; [|split; [reflexivity|]]]; unfold phi_obj, Ltail; simpl.
Ltac ele_at E := unfold eps_le; simpl; eapply Forall2_upd_at; [apply ep_le_refl|exact E|unfold ep_le; simpl; let X := fresh in intros X; rewrite ?andb_false_r in X; simpl in X; try discriminate X; auto].
Ltac nochange s := (replace (set_eps s (eps s)) with s by (destruct s; reflexivity)); (replace (set_pipes s (pipes s)) with s by (destruct s; reflexivity)); (replace (set_ctxs s (ctxs s)) with s by (destruct s; reflexivity)).

Lemma cert_same s a s1 more : mview s1 = mview s -> simple a = true -> forallb simple more = true ->
  sum wphi more <= wphi a -> sum w more < w a -> cert s a s1 more.
Proof.
  unfold mview; intros Hv; injection Hv as H1 H2 H3 H4 H5. intros.
  apply cert_gen; auto; unfold phi_obj, Ltail, eps_le; rewrite ?H1, ?H2, ?H3, ?H4, ?H5; [lia|].
  right. split; [apply Forall2_refl; apply ep_le_refl|]. split; auto. lia.
Qed.
Ltac same := apply cert_same; [reflexivity|reflexivity|reflexivity|simpl; unfold PC, PE; lia|simpl; lia].
Ltac absum := repeat (match goal with
                      | |- context[sum ?g ?l] => let v := fresh "S" in set (v := sum g l) in *; clearbody v
                      | H : context[sum ?g ?l] |- _ => let v := fresh "S" in set (v := sum g l) in *; clearbody v
                      end).
Ltac ecs x := absum; destruct x; unfold phi_e, busy_e, e_fresh in *; simpl in *; subst; simpl in *.
Ltac pcs x := absum; destruct x; unfold phi_p, busy_p in *; simpl in *; subst; simpl in *.

Lemma cert_ep1 s a s1 more :
  match a with AEpTranClose _ | AEpStopWait _ | AEpSockRemove _ | AEpDestroy _ | AEpStart _ _ | AEpRele _ | AEpCreate1 _ | AEpCreate2 _ => True | _ => False end ->
  run_act fixes_all s a = Some (s1, more) -> cert s a s1 more.
Proof.
  intros Ha H.
  destruct a; try contradiction; simpl in H.
  - (* AEpCreate1 *)
    inv_some H. gen_strict; rewrite sum_app; unfold PE, phi_e, e_fresh; simpl; lia.
  - (* AEpCreate2 *)
    destruct (nth_error (eps s) e) as [x|] eqn:E; [|inv_some H; same].
    destruct (e_pub x || e_freed x || e_onlist x) eqn:Eg; [inv_some H; same|].
    apply orb_false_elim in Eg as [Eg Eo]; apply orb_false_elim in Eg as [Epb Ef].
    destruct (k_closing (sk s)); inv_some H.
    + ep_facts s e (fun x => eset_freed (eset_inmap (eset_ref x 0) false)) x E.
      gen_strict; ecs x; bdestr; lia.
    + ep_facts s e (fun x => eset_pub (eset_onlist (eset_ref x (S (e_ref x))) true)) x E.
      gen_strict; ecs x; bdestr; lia.
  - (* AEpTranClose *)
    inv_some H.
    destruct (nth_error (eps s) e) as [x|] eqn:E.
    + ep_facts s e eset_tranclosed x E.
      destruct (e_tranclosed x) eqn:Et.
      * gen_plain; [| ele_at E |]; ecs x; lia.
      * gen_strict; ecs x; lia.
    + rewrite nth_upd_none by auto. nochange s. same.
  - (* AEpStopWait *)
    destruct (nth_error (eps s) e) as [x|] eqn:E; [|inv_some H; same].
    destruct (e_busy x =? 0); [|discriminate H]. inv_some H.
    ep_facts s e eset_stopped x E.
    gen_plain; [| ele_at E |]; ecs x; bdestr; lia.
  - (* AEpSockRemove *)
    destruct (nth_error (eps s) e) as [x|] eqn:E; [|inv_some H; same].
    destruct (e_freed x); [inv_some H; same|].
    destruct (negb (e_closed x && e_stopped x)); [inv_some H; same|].
    destruct (e_onlist x) eqn:Eo; inv_some H; [|same].
    ep_facts s e (fun x => eset_onlist x false) x E.
    gen_plain; [| ele_at E |]; ecs x; bdestr; lia.
  - (* AEpRele *)
    destruct (nth_error (eps s) e) as [x|] eqn:E; [|inv_some H; same].
    destruct (e_freed x); [inv_some H; same|].
    destruct (e_ref x) as [|n]; [inv_some H; same|].
    destruct ((n =? 0) && e_closed x).
    + destruct (e_reapq x) eqn:Er; inv_some H; [same|].
      ep_facts s e (fun x => eset_reapq (eset_ref x n)) x E.
      gen_strict; ecs x; bdestr; lia.
    + inv_some H. ep_facts s e (fun x => eset_ref x n) x E.
      gen_plain; [| ele_at E |]; ecs x; lia.
  - (* AEpStart *)
    destruct (nth_error (eps s) e) as [x|] eqn:E; [|inv_some H; same].
    destruct (e_freed x); [inv_some H; same|].
    destruct (e_stopped x); inv_some H; [same|].
    ep_facts s e (fun x => eset_pend (eset_busy x (S (e_busy x))) (e_pend x ++ [a])) x E.
    gen_plain; [| ele_at E |]; ecs x; bdestr; lia.
  - (* AEpDestroy *)
    inv_some H.
    destruct (nth_error (eps s) e) as [x|] eqn:E.
    + ep_facts s e eset_freed x E.
      gen_plain; [| ele_at E |]; ecs x; bdestr; lia.
    + rewrite nth_upd_none by auto. nochange s. same.
Qed.

Lemma cert_pipe s a s1 more :
  match a with APipeClose _ | APipeRele _ | APipeTranClose _ | APipeIdRemove _ | APipeStopWait _ | APipeRemove _ | AEpClosePipes _ | ASubmit _ _ _ => True | _ => False end ->
  run_act fixes_all s a = Some (s1, more) -> cert s a s1 more.
Proof.
  intros Ha H.
  destruct a; try contradiction; simpl in H.
  - (* AEpClosePipes *)
    destruct (close_pipes 0 (fun p => p_ep p =? e) (pipes s)) as [ps q] eqn:E. inv_some H.
    apply close_pipes_facts in E as (H1 & H2 & H3 & H4).
    destruct q as [|i q].
    + rewrite H4 by auto. rewrite app_nil_r. same.
    + gen_strict; simpl in *; lia.
  - (* APipeClose *)
    destruct (nth_error (pipes s) p) as [x|] eqn:E; [|inv_some H; same].
    destruct (p_freed x); [inv_some H; same|].
    destruct (p_closed x) eqn:Ec; inv_some H; [same|].
    pipe_facts s p pset_closed x E. gen_strict; pcs x; bdestr; lia.
  - (* APipeRele *)
    destruct (nth_error (pipes s) p) as [x|] eqn:E; [|inv_some H; same].
    destruct (p_freed x); [inv_some H; same|].
    destruct (p_ref x) as [|n]; [inv_some H; same|].
    destruct (n =? 0); inv_some H.
    + pipe_facts s p (fun x => pset_freed (pset_ref x n)) x E.
      gen_plain; [|ele|]; pcs x; bdestr; lia.
    + pipe_facts s p (fun x => pset_ref x n) x E.
      gen_plain; [|ele|]; pcs x; bdestr; lia.
  - (* APipeTranClose *)
    inv_some H. destruct (nth_error (pipes s) p) as [x|] eqn:E.
    + pipe_facts s p pset_tranclosed x E.
      destruct (p_tranclosed x) eqn:Et.
      * gen_plain; [|ele|]; pcs x; lia.
      * gen_strict; pcs x; lia.
    + rewrite nth_upd_none by auto. nochange s. same.
  - (* APipeIdRemove *)
    inv_some H. destruct (nth_error (pipes s) p) as [x|] eqn:E.
    + pipe_facts s p pset_unmap x E. gen_plain; [|ele|]; pcs x; bdestr; lia.
    + rewrite nth_upd_none by auto. nochange s. same.
  - (* APipeStopWait *)
    destruct (nth_error (pipes s) p) as [x|] eqn:E; [|inv_some H; same].
    destruct (p_busy x =? 0); [|discriminate H]. inv_some H.
    pipe_facts s p pset_stopped x E. gen_plain; [|ele|]; pcs x; bdestr; lia.
  - (* APipeRemove *)
    destruct (nth_error (pipes s) p) as [x|] eqn:E; [|inv_some H; same].
    destruct (p_inmap x); inv_some H.
    + pipe_facts s p (fun x => pset_unlist (pset_unmap x)) x E. gen_plain; [|ele|]; pcs x; bdestr; lia.
    + pipe_facts s p pset_unlist x E. gen_plain; [|ele|]; pcs x; bdestr; lia.
  - (* ASubmit *)
    destruct k as [c|].
    + destruct (nth_error (ctxs s) c) as [x|] eqn:E; [|inv_some H; same].
      destruct (c_freed x); [inv_some H; same|].
      destruct (negb (c_pub x)); [inv_some H; same|].
      destruct (has_aio a (subm s)); [inv_some H; same|].
      destruct blocks; inv_some H; [|same].
      apply cert_gen; [reflexivity|reflexivity| |right; split; [ele|split; [reflexivity|unfold Ltail; simpl; lia]]].
      unfold phi_obj; simpl.
      pose proof (sum_upd_le phi_c (ctxs s) c (fun x0 => cset_pend x0 (c_pend x0 ++ [a]))) as X. lapply X; [lia|intros []; reflexivity].
    + destruct (k_freed (sk s)); [inv_some H; same|].
      destruct (has_aio a (subm s)); [inv_some H; same|].
      destruct (k_pclosed (sk s) && k_latch (sk s)); [inv_some H; same|].
      destruct blocks; inv_some H; [|same].
      apply cert_gen; [reflexivity|reflexivity|unfold phi_obj, phi_k; simpl; lia|right; split; [ele|split; [reflexivity|unfold Ltail; simpl; lia]]].
Qed.

Lemma w_find u : w (AFind u) = 2 + sum w (after_find u).
Proof. destruct u as [| | | | | | | |[c|] ? ?| | | |]; reflexivity. Qed.

Lemma find_idx_spec {A} (f : A -> bool) l : forall i j, find_idx f l i = Some j ->
  i <= j /\ exists x, nth_error l (j - i) = Some x /\ f x = true.
Proof.
  induction l as [|y r IH]; intros i j H; simpl in H; [discriminate|].
  destruct (f y) eqn:E.
  - injection H as <-. split; auto. exists y. rewrite Nat.sub_diag; auto.
  - apply IH in H as (Hle & x & Hn & Hf). split; [lia|]. exists x. split; auto.
    replace (j - i) with (S (j - S i)) by lia. auto.
Qed.

Lemma first_ep_onlist es e x : first_ep es = Some e -> nth_error es e = Some x -> e_onlist x = true.
Proof.
  unfold first_ep; intros H E.
  destruct (find_idx (fun e0 => e_onlist e0 && negb (e_dialer e0)) es 0) eqn:F.
  - injection H as ->. apply find_idx_spec in F as (_ & y & Hn & Hf). rewrite Nat.sub_0_r in Hn.
    rewrite E in Hn; injection Hn as <-. apply andb_prop in Hf as [Hf _]; auto.
  - apply find_idx_spec in H as (_ & y & Hn & Hf). rewrite Nat.sub_0_r in Hn.
    rewrite E in Hn; injection Hn as <-. auto.
Qed.

Lemma nuo_from_oob i cl e es : i + length es <= e -> nuo_from i (e :: cl) es = nuo_from i cl es.
Proof.
  revert i; induction es as [|y r IH]; intros i H; simpl in *; auto.
  replace (i =? e) with false by (symmetry; apply Nat.eqb_neq; lia). simpl. rewrite IH by lia. auto.
Qed.

Lemma cert_epclose s e s1 more : run_act fixes_all s (AEpClose e) = Some (s1, more) -> bad s1 = bad s -> cert s (AEpClose e) s1 more.
Proof.
  intros H Hb. simpl in H.
  destruct (nth_error (eps s) e) as [x|] eqn:E.
  - destruct (e_freed x).
    { inv_some H. simpl in Hb. exfalso. revert Hb. generalize (bad s). intros l X.
      assert (Y: length (l ++ [B_USE_FREED]) = length l) by (rewrite X; auto). rewrite app_length in Y; simpl in Y; lia. }
    destruct (e_closed x) eqn:Ec; inv_some H.
    + (* already closed: only the release *)
      unfold cert. split; [unfold phi_obj; simpl; lia|]. right; left.
      split; [apply eps_le_refl|]. split; auto. intros rest. cbn [Wt w app].
      assert (X: Wt s [] rest <= Wt s [e] rest).
      { apply (Wt_drop s s e); [intros cl; eapply nuo_closed_irrel; eauto|]. intros j [->|[]]; auto. }
      lia.
    + (* the close proper: the closed latch pays *)
      ep_facts s e eset_closed x E.
      unfold cert. assert (Hp: phi_obj (set_eps s (upd (eps s) e eset_closed)) + sum wphi [AEpTranClose e; AEpStopWait e; AEpClosePipes e; AEpSockRemove e; AEpRele e; AEpRele e] < phi_obj s + wphi (AEpClose e)).
      { unfold phi_obj; simpl. ecs x; bdestr; lia. }
      split; [lia|left; exact Hp].
  - inv_some H. unfold cert. split; [unfold phi_obj; simpl; lia|]. right; left.
    split; [apply eps_le_refl|]. split; auto. intros rest. cbn [Wt w app].
    assert (X: Wt s [] rest <= Wt s [e] rest).
    { apply (Wt_drop s s e); [|intros j [->|[]]; auto]. intros cl. unfold nuo. rewrite nuo_from_oob; auto.
      apply nth_error_None in E. simpl; lia. }
    lia.
Qed.

Lemma nuo_upd_same s e f cl : (forall x, e_onlist (f x) = e_onlist x) -> (forall x, e_closed (f x) = e_closed x) ->
  nuo (set_eps s (upd (eps s) e f)) cl = nuo s cl.
Proof.
  intros Ho Hc. unfold nuo; simpl. generalize 0. revert e. induction (eps s) as [|y r IH]; intros [|e] i; simpl; auto;
    rewrite ?Ho, ?Hc, ?IH; auto.
Qed.

Lemma cert_shutep s s1 more : run_act fixes_all s AShutEp = Some (s1, more) -> cert s AShutEp s1 more.
Proof.
  intros H. simpl in H.
  destruct (first_ep (eps s)) as [e|] eqn:F.
  2:{ inv_some H. unfold cert. split; [unfold phi_obj; simpl; lia|]. right; left.
      split; [apply eps_le_refl|]. split; auto. intros rest. cbn [Wt w app]. lia. }
  destruct (nth_error (eps s) e) as [x|] eqn:E.
  2:{ inv_some H. unfold cert. split; [unfold phi_obj; simpl; lia|]. right; left.
      split; [apply eps_le_refl|]. split; auto. intros rest. cbn [Wt w app]. lia. }
  destruct (e_closed x) eqn:Ec; [discriminate H|]. inv_some H.
  pose proof (first_ep_onlist _ _ _ F E) as Ho.
  set (s1 := set_eps s (upd (eps s) e (fun x0 => eset_ref x0 (S (e_ref x0))))).
  assert (Hn: forall cl, nuo s1 cl = nuo s cl) by (intros; apply nuo_upd_same; intros []; reflexivity).
  assert (Hle: eps_le s1 s) by (unfold s1; ele_at E).
  unfold cert. split.
  { unfold phi_obj; simpl. pose proof (sum_upd_le phi_e (eps s) e (fun x0 => eset_ref x0 (S (e_ref x0)))) as X.
    lapply X; [lia|intros []; reflexivity]. }
  right; left. split; auto. split; auto. intros rest. cbn [Wt w app].
  rewrite Hn.
  assert (X1: nuo s [e] + 1 <= nuo s []) by (apply (nuo_from_open_at 0 e [] (eps s) x); auto).
  assert (X2: Wt s1 [e] rest <= Wt s [] rest) by (apply Wt_mono; auto; intros j []).
  assert (X3: Ltail s1 = Ltail s).
  { unfold Ltail, s1; simpl. rewrite (sum_upd_eq busy_e) by (intros []; reflexivity). auto. }
  unfold BB. nia.
Qed.

Lemma cert_find s u s1 more : run_act fixes_all s (AFind u) = Some (s1, more) -> cert s (AFind u) s1 more.
Proof.
  intros H.
  assert (G: forall s1 more, (phi_obj s1 = phi_obj s /\ eps_le s1 s /\ rq s1 = rq s /\ Ltail s1 = Ltail s) ->
             (more = after_find u \/ exists rv, more = [ARet u rv R_NA]) \/ more = [] -> cert s (AFind u) s1 more).
  { clear. intros s1 more (P1 & Hle & P3 & P4) Hm.
    unfold cert. rewrite P1, P4.
    assert (W1: sum wphi more <= wphi (AFind u)).
    { destruct Hm as [[->|[rv ->]]| ->]; destruct u as [| | | | | | | |[c|] ? ?| | | |]; simpl; unfold PC, PE; lia. }
    split; [lia|]. right; left. split; auto. split; auto. intros rest.
    pose proof (Wt_mono_same s1 s rest [] Hle) as M0.
    destruct Hm as [[->|[rv ->]]| ->].
    - (* success *)
      destruct u as [| | | | | e| | |[c|] ? ?| | | |]; cbn [after_find Wt w app]; simpl; try lia;
        match goal with |- context[Wt s1 [?e0] rest] =>
          assert (M1: Wt s1 [e0] rest <= Wt s [] rest) by (apply Wt_mono; auto; intros j []); simpl; lia end.
    - cbn [Wt app]. rewrite w_find. destruct u as [| | | | | | | |[c|] ? ?| | | |]; simpl; lia.
    - cbn [Wt app]. rewrite w_find. simpl; lia. }
  simpl in H.
  destruct u as [| | |c|d|e|e a|p|[c|] a b| |c|e|p];
    repeat (match type of H with
            | context[match ?x with _ => _ end] => destruct x eqn:?
            | context[if ?x then _ else _] => destruct x eqn:?
            end); try discriminate H; inv_some H; apply G; try (left; left; reflexivity); eauto;
    (split; [|split; [|split]]);
    unfold phi_obj, phi_k, Ltail, eps_le; simpl;
    rewrite ?(sum_upd_eq phi_c), ?(sum_upd_eq phi_e), ?(sum_upd_eq phi_p), ?(sum_upd_eq busy_e), ?(sum_upd_eq busy_p) by (intros []; reflexivity); auto;
    first [apply Forall2_refl; apply ep_le_refl | apply Forall2_upd; [apply ep_le_refl|intros []; unfold ep_le; simpl; auto]].
Qed.

Lemma cert_reap s e s1 more : run_act fixes_all s (AEpReap e) = Some (s1, more) -> cert s (AEpReap e) s1 more.
Proof.
  intros H. simpl in H.
  destruct (ep_has_pipes s e) eqn:Ep; [|inv_some H; same].
  destruct (close_pipes 0 (fun p => p_ep p =? e) (pipes s)) as [ps q] eqn:E. inv_some H.
  pose proof (close_pipes_facts _ _ _ _ _ E) as (H1 & H2 & H3 & H4).
  destruct q as [|i q].
  - rewrite H4 in * by auto. nochange s. simpl. unfold cert. split; [unfold phi_obj; simpl; lia|].
    right; right. exists e. auto.
  - gen_strict; simpl in *; lia.
Qed.

Lemma cert_all s a s1 more : run_act fixes_all s a = Some (s1, more) -> bad s1 = bad s -> cert s a s1 more.
Proof.
  intros H Hb.
  destruct a eqn:Ea;
    first [ apply cert_sock; [exact I|exact H] | apply cert_ctx; [exact I|exact H] | apply cert_ep1; [exact I|exact H]
          | apply cert_pipe; [exact I|exact H] | apply cert_find; exact H | apply cert_shutep; exact H
          | apply cert_epclose; [exact H|exact Hb] | apply cert_reap; exact H ].
Qed.

(* ================================================================ the theorem *)
Definition noreap (l : list act) : bool := forallb (fun a => match a with AEpReap _ => false | _ => true end) l.

(* a closed pipe that is still on the socket's list is queued for the reaper or being reaped *)
Definition I2 (s : st) : Prop :=
  forall p x, nth_error (pipes s) p = Some x -> p_closed x = true -> p_onlist x = true ->
              In (RPipe p) (rq s) \/ In (APipeRemove p) (reaper s).
Definition reaper_shape (r : list act) : Prop :=
  match r with AEpReap _ :: r' => r' = [] | _ => noreap r = true end.
Definition TInv (s : st) : Prop :=
  I2 s /\ Forall (fun t => noreap t = true) (threads s) /\ reaper_shape (reaper s).

Lemma nuo_ext s1 s2 cl : eps s1 = eps s2 -> nuo s1 cl = nuo s2 cl.
Proof. unfold nuo; intros ->; auto. Qed.
Lemma Wt_ext s1 s2 : eps s1 = eps s2 -> forall l cl, Wt s1 cl l = Wt s2 cl l.
Proof. intros E; induction l; intros cl; simpl; auto. rewrite IHl. rewrite (nuo_ext s1 s2 cl E). auto. Qed.

Lemma sum_upd_mono {A} (g g' : A -> nat) l k x y :
  nth_error l k = Some x -> (forall z, g' z <= g z) -> sum g' (upd l k (fun _ => y)) + g x <= sum g l + g' y.
Proof.
  intros E Hg. revert k E; induction l as [|z r IH]; intros [|k] E; simpl in *; try discriminate.
  - injection E as ->. pose proof (sum_le g' g r Hg). lia.
  - specialize (IH k E). specialize (Hg z). lia.
Qed.

Lemma close_pipes_nil sel l : forall i ps, close_pipes i sel l = (ps, []) ->
  forall p x, nth_error l p = Some x -> sel x = true -> p_onlist x = true -> p_closed x = true.
Proof.
  induction l as [|y r IH]; intros i ps H p x E Hs Ho; [destruct p; discriminate|].
  simpl in H. destruct (close_pipes (S i) sel r) as [r' q'] eqn:Ec.
  destruct (sel y && p_onlist y && negb (p_closed y)) eqn:Eb; [discriminate H|].
  injection H as <- ->. destruct p as [|p]; simpl in E.
  - injection E as ->. rewrite Hs, Ho in Eb. simpl in Eb. destruct (p_closed x); auto.
  - eapply IH; eauto.
Qed.

Lemma count_pipe_In p l : In (RPipe p) l -> 1 <= count_pipe l.
Proof. induction l as [|[q|e] r IH]; simpl; [tauto| |]; intros [H|H]; try discriminate; try lia. apply IH in H; lia. Qed.

Lemma ep_has_pipes_ex s e : ep_has_pipes s e = true -> exists p x, nth_error (pipes s) p = Some x /\ p_onlist x = true /\ (p_ep x =? e) = true.
Proof.
  unfold ep_has_pipes. rewrite existsb_exists. intros (x & Hin & Hb). apply In_nth_error in Hin as [p Hp].
  apply andb_prop in Hb as [H1 H2]. eauto.
Qed.

Lemma run_act_noreap fx s a s1 more : run_act fx s a = Some (s1, more) -> noreap more = true.
Proof.
  unfold run_act; intros H.
  destruct a; repeat (match type of H with
                      | context[match ?x with _ => _ end] => destruct x eqn:?
                      | context[if ?x then _ else _] => destruct x eqn:?
                      end); try discriminate H; inv_some H; auto.
  all: match goal with |- noreap (after_find ?u) = true => destruct u as [| | | | | | | |[c|] ? ?| | | |]; reflexivity end.
Qed.

Lemma sum_ext {A} (f g : A -> nat) l : (forall x, f x = g x) -> sum f l = sum g l.
Proof. intros H; induction l; simpl; auto. Qed.

Lemma lt3_le a1 a2 a3 b1 b2 b3 :
  a1 <= b1 -> (a1 < b1 \/ (a2 <= b2 /\ (a2 < b2 \/ a3 < b3))) -> lt3 (a1, a2, a3) (b1, b2, b3).
Proof. unfold lt3; intros. lia. Qed.

Lemma reaper_shape_head r e rest : reaper_shape r -> r = AEpReap e :: rest -> rest = [].
Proof. intros H ->; exact H. Qed.

Theorem step_decreases s l s' :
  TInv s -> internal s l = true -> step fixes_all s l = Some s' -> bad s' = bad s -> lt3 (M3 s') (M3 s).
Proof.
  intros (Hi2 & Hnr & Hrs) Hint Hstep Hbad.
  destruct l; simpl in Hint; try discriminate Hint; simpl in Hstep.
  - (* LRun *)
    destruct (nth_error (threads s) k) as [[|a rest]|] eqn:Et; try discriminate Hstep.
    destruct (run_act fixes_all s a) as [[s1 more]|] eqn:Er; [|discriminate Hstep].
    injection Hstep as <-. simpl in Hbad.
    pose proof (run_act_frame _ _ _ _ _ Er) as [Ft Fr].
    pose proof (cert_all _ _ _ _ Er Hbad) as [Cle Cc].
    set (s' := set_threads s1 (upd (threads s1) k (fun _ => more ++ rest))).
    assert (P: Phi s' + wphi a + phi_obj s = Phi s + sum wphi more + phi_obj s1).
    { unfold Phi, s'; simpl. rewrite Ft, Fr.
      pose proof (sum_upd (sum wphi) (threads s) k (fun _ => more ++ rest) _ Et) as X. simpl in X.
      rewrite sum_app in X. unfold phi_obj in *; simpl. lia. }
    unfold M3. apply lt3_le; [lia|].
    destruct Cc as [Cs|[(Hle & Hq & Hw)|(e & -> & _)]].
    + left; lia.
    + right. split.
      * unfold PS, s'; simpl. rewrite Fr, Hq. auto.
      * right. unfold L.
        assert (W1: forall l cl, Wt s' cl l = Wt s1 cl l) by (apply Wt_ext; reflexivity).
        assert (X1: sum (Wt s' []) (threads s') + Wt s [] (a :: rest) <= sum (Wt s []) (threads s) + Wt s' [] (more ++ rest)).
        { unfold s' at 2. cbn [threads set_threads]. rewrite Ft. apply (sum_upd_mono (Wt s []) (Wt s' [])); auto. intros z. rewrite W1. apply Wt_mono_same; auto. }
        assert (X2: Wt s' [] (reaper s') <= Wt s [] (reaper s)).
        { rewrite W1. unfold s'. cbn [reaper set_threads]. rewrite Fr. apply Wt_mono_same; auto. }
        assert (X3: Ltail s' = Ltail s1) by reflexivity.
        specialize (Hw rest). rewrite W1 in X1. lia.
    + exfalso. eapply Forall_nth in Hnr; eauto. simpl in Hnr. discriminate Hnr.
  - (* LReap *)
    destruct (reaper s) as [|a rest] eqn:Erp.
    + (* next item *)
      destruct (rq s) as [|[p|e] q] eqn:Eq; [discriminate Hstep| |]; injection Hstep as <-; unfold M3; apply lt3_le.
      * unfold Phi, phi_obj; simpl. rewrite Erp; simpl. lia.
      * right. split; [unfold PS; simpl; rewrite Erp, Eq; simpl; lia|]. right.
        unfold L, Ltail; simpl. rewrite Erp, Eq. simpl.
        rewrite (sum_ext _ (Wt s [])) by (intros; apply Wt_ext; reflexivity). lia.
      * unfold Phi, phi_obj; simpl. rewrite Erp; simpl. lia.
      * right. split; [unfold PS; simpl; rewrite Erp, Eq; simpl; lia|]. right.
        unfold L, Ltail; simpl. rewrite Erp, Eq. simpl.
        rewrite (sum_ext _ (Wt s [])) by (intros; apply Wt_ext; reflexivity). lia.
    + destruct (run_act fixes_all s a) as [[s1 more]|] eqn:Er; [|discriminate Hstep].
      injection Hstep as <-. simpl in Hbad.
      pose proof (run_act_frame _ _ _ _ _ Er) as [Ft Fr].
      pose proof (cert_all _ _ _ _ Er Hbad) as [Cle Cc].
      set (s' := set_reaper s1 (more ++ rest)).
      assert (P: Phi s' + wphi a + phi_obj s = Phi s + sum wphi more + phi_obj s1).
      { unfold Phi, s'; simpl. rewrite Ft, Erp. simpl. rewrite sum_app. unfold phi_obj in *; simpl. lia. }
      assert (W1: forall l cl, Wt s' cl l = Wt s1 cl l) by (apply Wt_ext; reflexivity).
      unfold M3. apply lt3_le; [lia|].
      destruct Cc as [Cs|[(Hle & Hq & Hw)|(e & -> & -> & -> & Hep & Hcl)]].
      * left; lia.
      * right. split.
        -- (* PS: the reaper's head changes only away from AEpReap *)
           unfold PS, s'; simpl. rewrite Erp, Hq.
           pose proof (run_act_noreap _ _ _ _ _ Er) as Hm.
           assert (Hrest: noreap rest = true \/ rest = []).
           { unfold reaper_shape in Hrs. destruct a; simpl in Hrs; try (apply andb_prop in Hrs as [_ Hrs]; auto); auto. }
           assert (Hh: rhead (more ++ rest) = []).
           { destruct more as [|m0 mr]; simpl.
             - destruct Hrest as [Hr| ->]; auto. destruct rest as [|[] ?]; simpl in *; auto; discriminate Hr.
             - destruct m0; simpl in *; auto; discriminate Hm. }
           rewrite Hh. simpl. destruct a; simpl; lia.
        -- right. unfold L.
           assert (X1: sum (Wt s' []) (threads s') <= sum (Wt s []) (threads s)).
           { unfold s' at 2. cbn [threads set_reaper]. rewrite Ft. apply sum_le. intros z. rewrite W1. apply Wt_mono_same; auto. }
           assert (X3: Ltail s' = Ltail s1) by reflexivity.
           specialize (Hw rest). change (reaper s') with (more ++ rest). rewrite W1, Erp. lia.
      * (* the endpoint goes back to the end of the queue, behind its pipes *)
        assert (rest = []) by (exact Hrs). subst rest.
        right. split; [|left].
        -- unfold PS; simpl. rewrite Erp. simpl. rewrite ps_list_app_ep. lia.
        -- unfold PS; simpl. rewrite Erp. simpl. rewrite ps_list_app_ep.
           apply ep_has_pipes_ex in Hep as (p & x & Hn & Ho & Hpe).
           pose proof (close_pipes_nil _ _ _ _ Hcl p x Hn Hpe Ho) as Hc.
           destruct (Hi2 p x Hn Hc Ho) as [Hin|Hin].
           ++ apply count_pipe_In in Hin. lia.
           ++ rewrite Erp in Hin. simpl in Hin. destruct Hin as [Hin|[]]; discriminate Hin.
  - (* LEpCb *)
    destruct (nth_error (eps s) e) as [x|] eqn:E; [|discriminate Hint].
    destruct (e_busy x) as [|n] eqn:Eb; [discriminate Hstep|]. injection Hstep as <-.
    set (f := fun x0 => eset_pend (eset_busy x0 n) []).
    assert (Hn: forall l cl, Wt (set_done (set_eps s (upd (eps s) e f)) (done s ++ fail_all (if e_tranclosed x then C_ECLOSED else rv) (e_pend x))) cl l = Wt s cl l).
    { induction l as [|a r IH]; intros cl; simpl; auto. rewrite IH.
      replace (nuo _ cl) with (nuo s cl); auto. symmetry. apply (nuo_upd_same s e f cl); intros []; reflexivity. }
    unfold M3. apply lt3_le.
    + unfold Phi, phi_obj; simpl. rewrite (sum_upd_eq phi_e) by (intros []; reflexivity). lia.
    + right. split; [unfold PS; simpl; lia|]. right.
      unfold L, Ltail; simpl. rewrite Hn.
      rewrite (sum_ext _ (Wt s [])) by (intros; apply Hn).
      pose proof (sum_upd busy_e (eps s) e f x E) as X.
      assert (Y: busy_e (f x) + 1 = busy_e x) by (destruct x; unfold busy_e, f; simpl in *; rewrite Hint; subst; lia).
      lia.
  - (* LPipeCb *)
    destruct (nth_error (pipes s) p) as [x|] eqn:E; [|discriminate Hint].
    destruct (p_busy x) as [|n] eqn:Eb; [discriminate Hstep|]. injection Hstep as <-.
    set (f := fun x0 => pset_busy x0 n).
    unfold M3. apply lt3_le.
    + unfold Phi, phi_obj; simpl. rewrite (sum_upd_eq phi_p) by (intros []; reflexivity). lia.
    + right. split; [unfold PS; simpl; lia|]. right.
      unfold L, Ltail; simpl.
      rewrite (Wt_ext _ s) by reflexivity.
      rewrite (sum_ext _ (Wt s [])) by (intros; apply Wt_ext; reflexivity).
      pose proof (sum_upd busy_p (pipes s) p f x E) as X.
      assert (Y: busy_p (f x) + 1 = busy_p x) by (destruct x; unfold busy_p, f; simpl in *; rewrite Hint; subst; lia).
      lia.
Qed.

(* ================================================================ the invariant of the theorem *)
Lemma noreap_app l1 l2 : noreap (l1 ++ l2) = noreap l1 && noreap l2.
Proof. unfold noreap. apply forallb_app. Qed.
Lemma noreap_shape r : noreap r = true -> reaper_shape r.
Proof. destruct r as [|[] r]; simpl; auto; discriminate. Qed.

Lemma close_pipes_I2 sel l : forall i ps q, close_pipes i sel l = (ps, q) ->
  forall p x1, nth_error ps p = Some x1 -> p_closed x1 = true -> p_onlist x1 = true ->
    In (RPipe (i + p)) q \/ (exists x, nth_error l p = Some x /\ p_closed x = true /\ p_onlist x = true).
Proof.
  induction l as [|y r IH]; intros i ps q H p x1 E Hc Ho; simpl in H.
  - injection H as <- <-. destruct p; discriminate E.
  - destruct (close_pipes (S i) sel r) as [r' q'] eqn:Ec.
    destruct (sel y && p_onlist y && negb (p_closed y)) eqn:Eb; injection H as <- <-.
    + destruct p as [|p]; simpl in E.
      * left. left. f_equal; lia.
      * destruct (IH _ _ _ Ec p x1 E Hc Ho) as [Hin|Hex].
        -- left. right. replace (i + S p) with (S i + p) by lia. auto.
        -- right. auto.
    + destruct p as [|p]; simpl in E.
      * injection E as ->. right. exists x1. auto.
      * destruct (IH _ _ _ Ec p x1 E Hc Ho) as [Hin|Hex].
        -- left. replace (i + S p) with (S i + p) by lia. auto.
        -- right. auto.
Qed.

Definition pipes_kept (a : act) (s s1 : st) : Prop :=
  forall p x1, nth_error (pipes s1) p = Some x1 -> p_closed x1 = true -> p_onlist x1 = true ->
    In (RPipe p) (rq s1) \/ (a <> APipeRemove p /\ exists x, nth_error (pipes s) p = Some x /\ p_closed x = true /\ p_onlist x = true).

Lemma pipes_kept_same a s s1 : pipes s1 = pipes s -> (forall p, a <> APipeRemove p) -> pipes_kept a s s1.
Proof. intros E Ha p x1 H1 H2 H3. right. split; auto. rewrite E in H1. eauto. Qed.

Lemma pipes_kept_upd a s s1 p0 f : pipes s1 = upd (pipes s) p0 f ->
  (forall x, p_closed (f x) = p_closed x) -> (forall x, p_onlist (f x) = p_onlist x) -> (forall p, a <> APipeRemove p) ->
  pipes_kept a s s1.
Proof.
  intros E Hc Ho Ha p x1 H1 H2 H3. right. split; auto. rewrite E, nth_upd in H1.
  destruct (Nat.eq_dec p0 p) as [->|]; [|eauto].
  destruct (nth_error (pipes s) p) as [x|]; [|discriminate H1]. injection H1 as <-.
  rewrite Hc in H2; rewrite Ho in H3. eauto.
Qed.

Lemma run_act_I2 fx s a s1 more : run_act fx s a = Some (s1, more) ->
  (exists q, rq s1 = rq s ++ q) /\ pipes_kept a s s1.
Proof.
  intros H.
  assert (Hq0: rq s = rq s ++ []) by (rewrite app_nil_r; auto).
  destruct a; simpl in H;
    try (repeat (match type of H with
                 | context[match ?x with _ => _ end] => destruct x eqn:?
                 | context[if ?x then _ else _] => destruct x eqn:?
                 end); try discriminate H; inv_some H;
         (split; [first [exists []; exact Hq0 | eexists; reflexivity]|]);
         first [ apply pipes_kept_same; [reflexivity|intros; discriminate]
               | eapply pipes_kept_upd; [reflexivity|intros []; reflexivity|intros []; reflexivity|intros; discriminate] ]; fail).
  - (* AShutPipes *)
    destruct (close_pipes 0 (fun _ => true) (pipes s)) as [ps q] eqn:E. inv_some H.
    split; [eexists; reflexivity|]. intros p x1 H1 H2 H3. simpl in *.
    destruct (close_pipes_I2 _ _ _ _ _ E p x1 H1 H2 H3) as [Hin|Hex].
    + left. apply in_or_app; auto.
    + right. split; [discriminate|auto].
  - (* AEpClosePipes *)
    destruct (close_pipes 0 (fun p => p_ep p =? e) (pipes s)) as [ps q] eqn:E. inv_some H.
    split; [eexists; reflexivity|]. intros p x1 H1 H2 H3. simpl in *.
    destruct (close_pipes_I2 _ _ _ _ _ E p x1 H1 H2 H3) as [Hin|Hex].
    + left. apply in_or_app; auto.
    + right. split; [discriminate|auto].
  - (* AEpReap *)
    destruct (ep_has_pipes s e); [|inv_some H; split; [exists []; exact Hq0|apply pipes_kept_same; [reflexivity|intros; discriminate]]].
    destruct (close_pipes 0 (fun p => p_ep p =? e) (pipes s)) as [ps q] eqn:E. inv_some H.
    split; [eexists; reflexivity|]. intros p x1 H1 H2 H3. simpl in *.
    destruct (close_pipes_I2 _ _ _ _ _ E p x1 H1 H2 H3) as [Hin|Hex].
    + left. apply in_or_app; right. apply in_or_app; auto.
    + right. split; [discriminate|auto].
  - (* APipeClose *)
    destruct (nth_error (pipes s) p) as [x|] eqn:E; [|inv_some H; split; [exists []; exact Hq0|apply pipes_kept_same; [reflexivity|intros; discriminate]]].
    destruct (p_freed x); [inv_some H; split; [exists []; exact Hq0|apply pipes_kept_same; [reflexivity|intros; discriminate]]|].
    destruct (p_closed x) eqn:Ec; inv_some H; [split; [exists []; exact Hq0|apply pipes_kept_same; [reflexivity|intros; discriminate]]|].
    split; [eexists; reflexivity|]. intros p' x1 H1 H2 H3. simpl in *. rewrite nth_upd in H1.
    destruct (Nat.eq_dec p p') as [->|].
    + left. apply in_or_app; right; simpl; auto.
    + right. split; [discriminate|eauto].
  - (* APipeRemove *)
    destruct (nth_error (pipes s) p) as [x|] eqn:E.
    2:{ inv_some H. split; [exists []; exact Hq0|]. intros p' x1 H1 H2 H3. right. split; [|eauto].
        intros X; injection X as <-. rewrite E in H1; discriminate H1. }
    destruct (p_inmap x).
    { inv_some H. split; [exists []; exact Hq0|]. intros p' x1 H1 H2 H3. simpl in *. rewrite nth_upd in H1.
      destruct (Nat.eq_dec p p') as [->|].
      + rewrite E in H1. injection H1 as <-. destruct x; discriminate H3.
      + right. split; [congruence|eauto]. }
    inv_some H. split; [exists []; exact Hq0|]. intros p' x1 H1 H2 H3. simpl in *. rewrite nth_upd in H1.
    destruct (Nat.eq_dec p p') as [->|].
    + rewrite E in H1. injection H1 as <-. destruct x; discriminate H3.
    + right. split; [congruence|eauto].
Qed.

Lemma prog_noreap u : noreap (prog u) = true.
Proof. destruct u; reflexivity. Qed.

Lemma Forall_upd_set {A} (P : A -> Prop) (l : list A) i y : Forall P l -> P y -> Forall P (upd l i (fun _ => y)).
Proof. intros H Hy; revert i; induction H; intros [|i]; simpl; constructor; auto. Qed.

Theorem TInv_step fx s l s' : TInv s -> step fx s l = Some s' -> TInv s'.
Proof.
  intros (Hi2 & Hnr & Hrs) Hstep.
  destruct l; simpl in Hstep.
  - (* LSpawn *)
    destruct (handle_known s u); [|discriminate Hstep]. injection Hstep as <-.
    split; [exact Hi2|]. split; [|exact Hrs]. simpl. apply Forall_app1; auto. apply prog_noreap.
  - (* LRun *)
    destruct (nth_error (threads s) k) as [[|a rest]|] eqn:Et; try discriminate Hstep.
    destruct (run_act fx s a) as [[s1 more]|] eqn:Er; [|discriminate Hstep]. injection Hstep as <-.
    pose proof (run_act_frame _ _ _ _ _ Er) as [Ft Fr].
    pose proof (run_act_noreap _ _ _ _ _ Er) as Hm.
    pose proof (run_act_I2 _ _ _ _ _ Er) as [[q Hq] Hk].
    split; [|split].
    + intros p x1 H1 H2 H3. simpl in *.
      destruct (Hk p x1 H1 H2 H3) as [Hin|(_ & x & E1 & E2 & E3)]; [auto|].
      destruct (Hi2 p x E1 E2 E3) as [Hin|Hin]; [left; rewrite Hq; apply in_or_app; auto|right; rewrite Fr; auto].
    + simpl. rewrite Ft. apply Forall_upd_set; auto.
      rewrite noreap_app, Hm. simpl. pose proof (Forall_nth _ _ _ _ Hnr Et) as Hh. simpl in Hh. apply andb_prop in Hh as [_ Hn]; auto.
    + simpl. rewrite Fr; auto.
  - (* LReap *)
    destruct (reaper s) as [|a rest] eqn:Erp.
    + destruct (rq s) as [|[p|e] q] eqn:Eq; [discriminate Hstep| |]; injection Hstep as <-; (split; [|split; [exact Hnr|]]).
      * intros p' x H1 H2 H3. simpl in *. destruct (Hi2 p' x H1 H2 H3) as [Hin|Hin].
        -- rewrite Eq in Hin. destruct Hin as [Hin|Hin]; [injection Hin as ->; right; simpl; auto|auto].
        -- rewrite Erp in Hin. destruct Hin.
      * simpl. reflexivity.
      * intros p' x H1 H2 H3. simpl in *. destruct (Hi2 p' x H1 H2 H3) as [Hin|Hin].
        -- rewrite Eq in Hin. destruct Hin as [Hin|Hin]; [discriminate Hin|auto].
        -- rewrite Erp in Hin. destruct Hin.
      * simpl. reflexivity.
    + destruct (run_act fx s a) as [[s1 more]|] eqn:Er; [|discriminate Hstep]. injection Hstep as <-.
      pose proof (run_act_frame _ _ _ _ _ Er) as [Ft Fr].
      pose proof (run_act_noreap _ _ _ _ _ Er) as Hm.
      pose proof (run_act_I2 _ _ _ _ _ Er) as [[q Hq] Hk].
      split; [|split].
      * intros p x1 H1 H2 H3. simpl in *.
        destruct (Hk p x1 H1 H2 H3) as [Hin|(Hne & x & E1 & E2 & E3)]; [auto|].
        destruct (Hi2 p x E1 E2 E3) as [Hin|Hin]; [left; rewrite Hq; apply in_or_app; auto|].
        right. rewrite Erp in Hin. destruct Hin as [Hin|Hin]; [congruence|]. apply in_or_app; auto.
      * simpl. rewrite Ft; auto.
      * simpl. apply noreap_shape. rewrite noreap_app, Hm. simpl.
        unfold reaper_shape in Hrs. destruct a; simpl in Hrs; try (apply andb_prop in Hrs as [_ Hrs]; auto); auto.
        subst rest; reflexivity.
  - (* LEpCb *)
    destruct (nth_error (eps s) e) as [x|]; [|discriminate Hstep].
    destruct (e_busy x); [discriminate Hstep|]. injection Hstep as <-. split; [|split]; auto.
  - (* LPipeCb *)
    destruct (nth_error (pipes s) p) as [x|] eqn:E; [|discriminate Hstep].
    destruct (p_busy x) as [|n]; [discriminate Hstep|]. injection Hstep as <-. split; [|split]; auto.
    intros p' x1 H1 H2 H3. simpl in *. rewrite nth_upd in H1.
    destruct (Nat.eq_dec p p') as [->|]; [|eauto].
    rewrite E in H1. injection H1 as <-. destruct x; simpl in *. eapply Hi2; eauto.
  - (* LComplete *)
    destruct (has_aio a (k_pend (sk s))); [injection Hstep as <-; split; [|split]; auto|].
    destruct (existsb (fun c => has_aio a (c_pend c)) (ctxs s)); [|discriminate Hstep].
    injection Hstep as <-; split; [|split]; auto.
  - (* LPipeCreate *)
    destruct (nth_error (eps s) e) as [x|]; [|discriminate Hstep].
    destruct (e_tranclosed x || e_freed x || negb (e_onlist x)); [discriminate Hstep|]. injection Hstep as <-.
    split; [|split]; simpl; auto.
    + intros p x1 H1 H2 H3. simpl in *.
      destruct (lt_dec p (length (pipes s))) as [Hl|Hl].
      * rewrite nth_error_app1 in H1 by auto. eauto.
      * rewrite nth_error_app2 in H1 by lia. destruct (p - length (pipes s)) as [|[|]]; simpl in H1; try discriminate H1.
        injection H1 as <-. discriminate H2.
    + apply Forall_app1; auto.
  - (* LPipeOp *)
    destruct (nth_error (pipes s) p) as [x|] eqn:E; [|discriminate Hstep].
    destruct (p_stopped x || p_freed x); [discriminate Hstep|]. injection Hstep as <-. split; [|split]; auto.
    intros p' x1 H1 H2 H3. simpl in *. rewrite nth_upd in H1.
    destruct (Nat.eq_dec p p') as [->|]; [|eauto].
    rewrite E in H1. injection H1 as <-. destruct x; simpl in *. eapply Hi2; eauto.
  - (* LEpOp *)
    destruct (nth_error (eps s) e) as [x|]; [|discriminate Hstep].
    destruct (e_stopped x || e_freed x); [discriminate Hstep|]. injection Hstep as <-. split; [|split]; auto.
  - (* LDevStart *)
    destruct (k_closing (sk s) || k_closed (sk s) || k_device (sk s) || k_freed (sk s)); [discriminate Hstep|].
    injection Hstep as <-. split; [|split]; auto.
Qed.

Lemma TInv_init ph l f : TInv (init ph l f).
Proof. split; [|split]; simpl; auto. intros [|p] x H; discriminate H. Qed.

Theorem TInv_run fx ls : forall s s', TInv s -> run fx s ls = Some s' -> TInv s'.
Proof.
  induction ls as [|l r IH]; intros s s' Hi H; simpl in H.
  - injection H as <-; auto.
  - destruct (step fx s l) as [s1|] eqn:E; [|discriminate H]. apply (IH s1 s'); auto. eapply TInv_step; eauto.
Qed.

(* every state of every run of the repaired model satisfies the invariant, so: *)
Theorem reachable_step_decreases ph la fi ls s l s' :
  run fixes_all (init ph la fi) ls = Some s ->
  internal s l = true -> step fixes_all s l = Some s' -> bad s' = bad s ->
  lt3 (M3 s') (M3 s).
Proof. intros Hr. apply step_decreases. eapply TInv_run; [apply TInv_init|eauto]. Qed.

(* ================================================================ selection by the source's form *)
Definition all_fixed (fx : fixes) : bool := fx_ephold fx && fx_epid fx && fx_ctxfini fx && fx_lateop fx && fx_ctxopen fx && fx_ctxmark fx.

Lemma all_fixed_eq fx : all_fixed fx = true -> fx = fixes_all.
Proof. destruct fx as [[] [] [] [] [] []]; unfold all_fixed; simpl; intros H; try discriminate H; reflexivity. Qed.

(* the defect that the first repair missing from [fx] leaves in the model (Part 1 of CloseProofs) *)
Definition pinned_defect (fx : fixes) : Prop :=
  match fx with
  | mkFixes false _ _ _ _ _ =>
      exists s, run fx (init PhProto false false) w_ephold = Some s /\ bad s = [B_REF_UNDERFLOW]
  | mkFixes true false _ _ _ _ =>
      exists s, run fx (init PhProto false false) w_epid = Some s /\ bad s = [B_FIND_FREED]
  | mkFixes true true false _ _ _ =>
      exists s, run fx (init PhFini true true) w_ctxfini = Some s /\
                In (USockClose, C_OK, R_DESTROY) (rets s) /\ bad s = [] /\
                (exists x, nth_error (ctxs s) 0 = Some x /\ c_pend x = [1%N]) /\
                (exists s', step fx s (LRun 2) = Some s' /\ bad s' = [B_SOCK_FREED])
  | mkFixes true true true false _ _ =>
      exists s, run fx (init PhProto false false) w_lateop = Some s /\
                In (USockClose, C_OK, R_DESTROY) (rets s) /\ k_freed (sk s) = true /\
                k_pend (sk s) = [1%N] /\ done s = [] /\ no_internal_step fx s
  | mkFixes true true true true false _ =>
      exists s, run fx (init PhFini true true) w_ctxopen = Some s /\
                (exists r, nth_error (threads s) 1 = Some (AWaitCtxs :: r)) /\
                bad s = [] /\ no_internal_step fx s
  | mkFixes true true true true true false =>
      exists s, run fx (init PhFini true true) w_ctxmark = Some s /\
                (exists r, nth_error (threads s) 2 = Some (AWaitCtxs :: r)) /\
                bad s = [] /\ no_internal_step fx s /\ find_ctx s 0 = None
  | mkFixes true true true true true true => False
  end.

Lemma pinned_defect_holds fx : all_fixed fx = false -> pinned_defect fx.
Proof.
  destruct fx as [a b c d e g]. intros H.
  destruct a; [|exact (ephold_refuted b c d e g)].
  destruct b; [|exact (epid_refuted true c d e g)].
  destruct c; [|exact (ctxfini_refuted true true d e g)].
  destruct d; [|exact (lateop_refuted true true true e g)].
  destruct e; [|exact (ctxopen_refuted true true true true g)].
  destruct g; [|exact (ctxmark_refuted true true true true true)].
  unfold all_fixed in H; simpl in H; discriminate H.
Qed.

Definition Terminates (fx : fixes) : Prop :=
  well_founded lt3 /\
  forall ph la fi ls s l s',
    run fx (init ph la fi) ls = Some s ->
    internal s l = true -> step fx s l = Some s' -> bad s' = bad s -> lt3 (M3 s') (M3 s).

Theorem terminates_sel fx : if all_fixed fx then Terminates fx else pinned_defect fx.
Proof.
  destruct (all_fixed fx) eqn:E; [|apply pinned_defect_holds; auto].
  apply all_fixed_eq in E; subst. split; [apply lt3_wf|]. intros; eapply reachable_step_decreases; eauto.
Qed.
