(* CloseTerm: termination of the shutdown protocol (property C10, close_terminates).
   A lexicographic measure (Phi, PS, L) over the states of Core/CloseModel.v (all repairs
   applied) strictly decreases along every internal step: a step of any thread inside the
   library, of the reaper, or a callback of an operation that close has aborted.  Hence every
   run contains only finitely many internal steps between two steps of the environment (new
   calls of the application, network events), whatever the interleaving.

   Phi  latches not yet set, summed over all objects (every latch is set at most once), plus
        the latches of the objects that pending create calls will still allocate;
   PS   for every endpoint waiting for / undergoing its reap: the pipe items queued behind it
        (decreases when dialer_reap / listener_reap re-queues the endpoint behind its pipes);
   L    work left in the continuations of all threads and the reaper, in the reap queue, and
        callbacks outstanding on objects whose transport side was closed. *)
From Coq Require Import List Arith NArith Bool Lia.
Import ListNotations.
From NngV Require Import Core.CloseModel Core.CloseProofs.

Definition b2n (b : bool) : nat := if b then 1 else 0.

(* ---------------------------------------------------------------- Phi *)
Definition phi_k (k : sockst) : nat :=
  b2n (negb (k_closing k)) + b2n (negb (k_closed k)) + b2n (negb (k_pclosed k)) + b2n (negb (k_shutdone k)) + b2n (negb (k_freed k)).
Definition phi_c (c : ctxst) : nat := b2n (negb (c_closed c)) + b2n (c_onlist c) + b2n (negb (c_freed c)).
Definition e_fresh (e : epst) : bool := negb (e_pub e) && negb (e_freed e).
Definition phi_e (e : epst) : nat :=
  b2n (e_fresh e) + b2n (negb (e_closed e)) + b2n (negb (e_tranclosed e)) + b2n (negb (e_stopped e)) +
  b2n (e_onlist e || e_fresh e) + b2n (negb (e_reapq e)) + b2n (negb (e_freed e)).
Definition phi_p (p : pipest) : nat :=
  b2n (negb (p_closed p)) + b2n (negb (p_tranclosed p)) + b2n (p_inmap p) + b2n (negb (p_stopped p)) +
  b2n (p_onlist p) + b2n (negb (p_freed p)).
Definition PC := 3.   (* phi_c of a new context *)
Definition PE := 7.   (* phi_e of a new endpoint *)
Definition wphi (a : act) : nat :=
  match a with
  | AFind UCtxOpen => PC + 2 | ACtxOpen1 => PC + 1
  | AFind (UEpCreate _) => PE + 2 | AEpCreate1 _ => PE + 1
  | _ => 0
  end.
Definition phi_obj (s : st) : nat := phi_k (sk s) + sum phi_c (ctxs s) + sum phi_e (eps s) + sum phi_p (pipes s).
Definition Phi (s : st) : nat := phi_obj s + sum (sum wphi) (threads s) + sum wphi (reaper s).

(* ---------------------------------------------------------------- PS *)
Fixpoint count_pipe (l : list ritem) : nat :=
  match l with [] => 0 | RPipe _ :: r => S (count_pipe r) | REp _ :: r => count_pipe r end.
Fixpoint count_ep (l : list ritem) : nat :=
  match l with [] => 0 | RPipe _ :: r => count_ep r | REp _ :: r => S (count_ep r) end.
Fixpoint ps_list (l : list ritem) : nat :=
  match l with [] => 0 | REp _ :: r => count_pipe r + ps_list r | RPipe _ :: r => ps_list r end.
Definition rhead (r : list act) : list ritem := match r with AEpReap e :: _ => [REp e] | _ => [] end.
Definition PS (s : st) : nat := ps_list (rhead (reaper s) ++ rq s).

(* ---------------------------------------------------------------- L *)
Definition BB := 9.   (* budget of one iteration of sock_shutdown's endpoint loop *)
Definition w (a : act) : nat :=
  match a with
  | ARet _ _ _ => 1
  | AShutBegin _ => 12 | AShutEp => 1 | AShutPipes => 1 | AMsgqClose => 1 | AShutCtxs => 1
  | AWaitCtxs => 1 | AWaitPipes => 1 | AProtoClose => 1
  | ASockClose2 _ => 4 | AWaitRefs => 1 | ASockDestroy => 1 | ASockRele => 1
  | ACtxOpen1 => 6 | ACtxOpen2 _ => 5 | ACtxClose _ => 1 | ACtxRele _ => 1 | ACtxDestroy _ => 1
  | AEpCreate1 _ => 4 | AEpCreate2 _ => 3
  | AEpClose _ => 7 | AEpTranClose _ => 1 | AEpStopWait _ => 1 | AEpClosePipes _ => 1
  | AEpSockRemove _ => 1 | AEpRele _ => 1 | AEpStart _ _ => 2 | AEpReap _ => 3 | AEpDestroy _ => 1
  | APipeClose _ => 1 | APipeRele _ => 1 | APipeTranClose _ => 1 | APipeIdRemove _ => 1
  | APipeStopWait _ => 1 | APipeRemove _ => 1
  | ASubmit _ _ _ => 1
  | AFind u => 2 + sum (fun a => match a with
                                 | AShutBegin _ => 12 | ACtxOpen1 => 6 | AEpCreate1 _ => 4 | AEpClose _ => 7
                                 | AEpStart _ _ => 2 | _ => 1 end) (after_find u)
  end.

(* endpoints still to be closed by the loop: on the list, not closed, not among those whose close is
   already ahead in the same continuation *)
Fixpoint nuo_from (i : nat) (cl : list nat) (es : list epst) : nat :=
  match es with
  | [] => 0
  | e :: r => b2n (e_onlist e && negb (e_closed e) && negb (existsb (Nat.eqb i) cl)) + nuo_from (S i) cl r
  end.
Definition nuo (s : st) (cl : list nat) : nat := nuo_from 0 cl (eps s).

Fixpoint Wt (s : st) (cl : list nat) (l : list act) : nat :=
  match l with
  | [] => 0
  | a :: r =>
      w a + (match a with AShutEp => BB * nuo s cl | _ => 0 end) +
      Wt s (match a with AEpClose e => e :: cl | _ => cl end) r
  end.

Definition wq (i : ritem) : nat := match i with RPipe _ => 6 | REp _ => 4 end.
Definition busy_e (e : epst) : nat := if e_tranclosed e then e_busy e else 0.
Definition busy_p (p : pipest) : nat := if p_tranclosed p then p_busy p else 0.
Definition Ltail (s : st) : nat := sum wq (rq s) + sum busy_e (eps s) + sum busy_p (pipes s).
Definition L (s : st) : nat := sum (Wt s []) (threads s) + Wt s [] (reaper s) + Ltail s.

Definition lt3 (a b : nat * nat * nat) : Prop :=
  let '(a1, a2, a3) := a in let '(b1, b2, b3) := b in
  a1 < b1 \/ (a1 = b1 /\ (a2 < b2 \/ (a2 = b2 /\ a3 < b3))).
Definition M3 (s : st) : nat * nat * nat := (Phi s, PS s, L s).

Lemma lt3_wf : well_founded lt3.
Proof.
  assert (H: forall a b c, Acc lt3 (a, b, c)).
  { induction a as [a IHa] using lt_wf_ind. induction b as [b IHb] using lt_wf_ind. induction c as [c IHc] using lt_wf_ind.
    constructor. intros [[a' b'] c'] Hlt. simpl in Hlt.
    destruct Hlt as [Hlt|[-> [Hlt|[-> Hlt]]]]; auto. }
  intros [[a b] c]; auto.
Qed.

(* ================================================================ helpers *)
Lemma nuo_from_cons_le i e cl es : nuo_from i (e :: cl) es <= nuo_from i cl es.
Proof.
  revert i; induction es as [|x r IH]; intros i; simpl; auto.
  specialize (IH (S i)).
  destruct (e_onlist x && negb (e_closed x)); simpl; [|lia].
  destruct (i =? e); simpl; [lia|]. destruct (existsb (Nat.eqb i) cl); simpl; lia.
Qed.

Lemma nuo_from_incl i cl cl' es : (forall j, In j cl -> In j cl') -> nuo_from i cl' es <= nuo_from i cl es.
Proof.
  intros H; revert i; induction es as [|x r IH]; intros i; simpl; auto.
  specialize (IH (S i)).
  destruct (e_onlist x && negb (e_closed x)); simpl; [|lia].
  destruct (existsb (Nat.eqb i) cl) eqn:E; simpl.
  - apply existsb_exists in E as (j & Hj & Ej). assert (X: existsb (Nat.eqb i) cl' = true) by (apply existsb_exists; eauto).
    rewrite X; simpl; lia.
  - destruct (existsb (Nat.eqb i) cl'); simpl; lia.
Qed.

(* pointwise: the flags that matter can only go down *)
Definition ep_le (y x : epst) : Prop := e_onlist y && negb (e_closed y) = true -> e_onlist x && negb (e_closed x) = true.

Lemma nuo_from_mono i cl es es' : Forall2 ep_le es' es -> nuo_from i cl es' <= nuo_from i cl es.
Proof.
  intros H; revert i; induction H as [|y x r' r Hyx _ IH]; intros i; simpl; auto.
  specialize (IH (S i)). unfold ep_le in Hyx.
  destruct (e_onlist y && negb (e_closed y)); simpl; [rewrite Hyx by auto; simpl; lia|].
  destruct (e_onlist x && negb (e_closed x) && negb (existsb (Nat.eqb i) cl)); simpl; lia.
Qed.

Lemma Forall2_refl {A} (R : A -> A -> Prop) l : (forall x, R x x) -> Forall2 R l l.
Proof. intros; induction l; constructor; auto. Qed.

Lemma Forall2_upd {A} (R : A -> A -> Prop) (l : list A) i f :
  (forall x, R x x) -> (forall x, R (f x) x) -> Forall2 R (upd l i f) l.
Proof.
  intros Hr Hf; revert i; induction l; intros [|i]; simpl; constructor; auto. apply Forall2_refl; auto.
Qed.

Lemma ep_le_refl x : ep_le x x.  Proof. unfold ep_le; auto. Qed.

Lemma nuo_from_skip i cl e es : e < i -> nuo_from i (e :: cl) es = nuo_from i cl es.
Proof.
  revert i; induction es as [|y r IH]; intros i H; simpl; auto.
  replace (i =? e) with false by (symmetry; apply Nat.eqb_neq; lia). simpl.
  rewrite IH by lia. reflexivity.
Qed.

(* an endpoint that is closed already does not count, whether or not its close is ahead *)
Lemma nuo_from_closed_at i j cl es x :
  nth_error es j = Some x -> e_closed x = true -> nuo_from i ((i + j) :: cl) es = nuo_from i cl es.
Proof.
  revert i j; induction es as [|y r IH]; intros i [|j] E Hc; simpl in *; try discriminate.
  - injection E as ->. rewrite Hc. rewrite !andb_false_r; simpl.
    apply nuo_from_skip; lia.
  - replace (i =? i + S j) with false by (symmetry; apply Nat.eqb_neq; lia). simpl.
    replace (i + S j) with (S i + j) by lia. rewrite (IH (S i) j E Hc). reflexivity.
Qed.

(* an endpoint on the list and not closed counts exactly once *)
Lemma nuo_from_open_at i j cl es x :
  nth_error es j = Some x -> e_onlist x = true -> e_closed x = false -> existsb (Nat.eqb (i + j)) cl = false ->
  nuo_from i ((i + j) :: cl) es + 1 <= nuo_from i cl es.
Proof.
  revert i j; induction es as [|y r IH]; intros i [|j] E Ho Hc Hn; simpl in *; try discriminate.
  - injection E as ->. rewrite Ho, Hc. replace (i + 0) with i in * by lia. rewrite Nat.eqb_refl, Hn. simpl.
    rewrite nuo_from_skip by lia. lia.
  - replace (i =? i + S j) with false by (symmetry; apply Nat.eqb_neq; lia). simpl.
    replace (i + S j) with (S i + j) in * by lia. specialize (IH (S i) j E Ho Hc Hn). lia.
Qed.

(* closing endpoint j: afterwards it counts as if its close were still ahead *)
Lemma nuo_from_close_at i j cl es f :
  (forall x, e_closed (f x) = true) -> (forall x, e_onlist (f x) = e_onlist x) ->
  nuo_from i cl (upd es j f) <= nuo_from i ((i + j) :: cl) es.
Proof.
  intros Hf Ho. revert i j; induction es as [|y r IH]; intros i [|j]; simpl; auto.
  - rewrite Hf. rewrite !andb_false_r; simpl. rewrite nuo_from_skip by lia. lia.
  - replace (i =? i + S j) with false by (symmetry; apply Nat.eqb_neq; lia). simpl.
    replace (i + S j) with (S i + j) by lia. specialize (IH (S i) j). lia.
Qed.

Definition eps_le (s1 s : st) : Prop := Forall2 ep_le (eps s1) (eps s).

Lemma nuo_mono s1 s cl : eps_le s1 s -> nuo s1 cl <= nuo s cl.
Proof. intros; apply nuo_from_mono; auto. Qed.

Lemma Wt_mono s1 s l : eps_le s1 s -> forall cl cl', (forall j, In j cl -> In j cl') -> Wt s1 cl' l <= Wt s cl l.
Proof.
  intros Hs; induction l as [|a r IH]; intros cl cl' Hc; simpl; auto.
  assert (Hn: nuo s1 cl' <= nuo s cl).
  { etransitivity; [apply nuo_mono; eauto|]. apply nuo_from_incl; auto. }
  assert (Hr: Wt s1 (match a with AEpClose e => e :: cl' | _ => cl' end) r <= Wt s (match a with AEpClose e => e :: cl | _ => cl end) r).
  { apply IH. destruct a; auto. intros j [->|Hj]; simpl; auto. }
  destruct a; simpl in *; unfold BB; nia.
Qed.

Lemma Wt_mono_same s1 s l cl : eps_le s1 s -> Wt s1 cl l <= Wt s cl l.
Proof. intros; eapply Wt_mono; eauto. Qed.

Lemma eps_le_refl s : eps_le s s.
Proof. apply Forall2_refl; apply ep_le_refl. Qed.

Lemma Wt_cl_le s l e cl : Wt s (e :: cl) l <= Wt s cl l.
Proof. apply Wt_mono; [apply eps_le_refl|]. simpl; auto. Qed.

Lemma sum_Wt_mono s1 s (ts : list (list act)) : eps_le s1 s -> sum (Wt s1 []) ts <= sum (Wt s []) ts.
Proof. intros; apply sum_le; intros; apply Wt_mono_same; auto. Qed.

(* ps_list *)
Lemma ps_list_app_pipe l p : ps_list (l ++ [RPipe p]) = ps_list l + count_ep l.
Proof. induction l as [|[q|e] r IH]; simpl; auto; try lia.
  assert (X: count_pipe (r ++ [RPipe p]) = S (count_pipe r)) by (clear; induction r as [|[]]; simpl; auto). lia. Qed.
Lemma count_pipe_app l1 l2 : count_pipe (l1 ++ l2) = count_pipe l1 + count_pipe l2.
Proof. induction l1 as [|[]]; simpl; auto. Qed.
Lemma ps_list_app_ep l e : ps_list (l ++ [REp e]) = ps_list l.
Proof. induction l as [|[q|e'] r IH]; simpl; auto. rewrite count_pipe_app; simpl. lia. Qed.

(* run_act leaves the continuations alone *)
Ltac inv_some H := injection H as <- <-.

Lemma run_act_frame fx s a s1 more : run_act fx s a = Some (s1, more) -> threads s1 = threads s /\ reaper s1 = reaper s.
Proof.
  unfold run_act; intros H.
  destruct a; repeat (match type of H with
                      | context[match ?x with _ => _ end] => destruct x eqn:?
                      | context[if ?x then _ else _] => destruct x eqn:?
                      end); try discriminate H; inv_some H; auto.
Qed.

(* ================================================================ one critical section *)
(* what one action does to the parts of the measure that do not depend on who runs it *)
Definition cert (s : st) (a : act) (s1 : st) (more : list act) : Prop :=
  phi_obj s1 + sum wphi more <= phi_obj s + wphi a /\
  ( phi_obj s1 + sum wphi more < phi_obj s + wphi a \/
    ( eps_le s1 s /\ rq s1 = rq s /\
      forall rest, Wt s1 [] (more ++ rest) + Ltail s1 < Wt s [] (a :: rest) + Ltail s ) \/
    ( exists e, a = AEpReap e /\ more = [] /\ s1 = set_rq s (rq s ++ [REp e]) /\ ep_has_pipes s e = true ) ).

Lemma b2n_le b : b2n b <= 1.  Proof. destruct b; simpl; lia. Qed.

Ltac plain := right; left; split; [|split; [|intros rest]].

Ltac ele := unfold eps_le; simpl; try (apply Forall2_refl; apply ep_le_refl).

(* updating one endpoint *)
Lemma eps_le_upd s e f : (forall x, ep_le (f x) x) -> eps_le (set_eps s (upd (eps s) e f)) s.
Proof. intros; unfold eps_le; simpl. apply Forall2_upd; auto. apply ep_le_refl. Qed.

Lemma Wt_step_le s1 s rest : eps_le s1 s -> Wt s1 [] rest <= Wt s [] rest.
Proof. apply Wt_mono_same. Qed.

