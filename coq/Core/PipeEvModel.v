(* PipeEvModel: pipe notifications of one socket (src/core/socket.c nni_pipe_run_cb,
   listener_start_pipe / dialer_start_pipe, nni_pipe_remove, sock_shutdown;
   src/core/pipe.c nni_pipe_close, pipe_reap).  Definitions only.

   Threads and their program counters, per pipe:
     - the endpoint callback that runs nni_pipe_start for the pipe ([spc]);
     - the reaper running pipe_reap once the pipe has been closed ([rpc]);
   plus the thread in sock_shutdown.  One step = one critical section (the
   s_pipe_cbs_mtx section of nni_pipe_run_cb, its `serialize` section, an atomic
   flag operation, an s_mx section) or one call whose inside belongs to another
   model (the protocol's pipe_start / pipe_close, the transport's p_close).  The
   user's callback runs INSIDE the serialize section and is split into its own
   steps (what it does, then its return), so other threads interleave with it.
   A history is any list of [pop]; a step whose guard is false changes nothing,
   so "for all lists" covers exactly the interleavings the locks allow.

   Since /repo 91744d5 pipe_reap re-queues itself while nni_pipe_start is still running for
   the pipe (p_starting).  The model does not use that: the reaper may overtake the start
   thread here, as it could in the pinned tree -- strictly MORE interleavings than the code
   now has, so every theorem holds a fortiori (ocaml/drv_c14.ml follows the flag
   C14_REAP_WAITS_START when it plays the `racestart` schedule). *)
From Coq Require Import List Arith NArith Bool.
Import ListNotations.

(* nng_pipe_ev (values re-checked against Gen/Consts.v in Properties_C14) *)
Definition EV_NONE : N := 0.
Definition EV_ADD_PRE : N := 1.
Definition EV_ADD_POST : N := 2.
Definition EV_REM_POST : N := 3.
Definition EV_NUM : N := 4.

(* ---- the filter: the serialize section of nni_pipe_run_cb ----
     if (p->p_last_event == NNG_PIPE_EV_NONE && ev != NNG_PIPE_EV_ADD_PRE) return;
     if (p->p_last_event >= ev) return;
     p->p_last_event = ev;  cb(...)                                             *)
Definition run_cb_filter (last ev : N) : bool :=
  if N.eqb last EV_NONE && negb (N.eqb ev EV_ADD_PRE) then false
  else if N.leb ev last then false
  else true.

(* one whole call of nni_pipe_run_cb(p, ev) with the socket's s_want_evs as read:
   new p_last_event, and whether the event is delivered *)
Definition run_cb1 (want : bool) (last ev : N) : N * bool :=
  if want && run_cb_filter last ev then (ev, true) else (last, false).

(* any sequence of calls (each with its own reading of s_want_evs and ANY event
   argument): the list of events delivered, oldest first *)
Fixpoint run_cb_seq (calls : list (bool * N)) (last : N) : list N :=
  match calls with
  | [] => []
  | (w, ev) :: r =>
      let '(l', f) := run_cb1 w last ev in
      (if f then [ev] else []) ++ run_cb_seq r l'
  end.

(* what the property allows for one pipe *)
Definition ev_ordered (l : list N) : Prop :=
  l = [] \/ l = [EV_ADD_PRE] \/ l = [EV_ADD_PRE; EV_ADD_POST] \/ l = [EV_ADD_PRE; EV_REM_POST] \/
  l = [EV_ADD_PRE; EV_ADD_POST; EV_REM_POST].

(* the callbacks actually invoked are a subsequence of the events delivered *)
Inductive subseq {A : Type} : list A -> list A -> Prop :=
| ss_nil : subseq [] []
| ss_skip : forall x l1 l2, subseq l1 l2 -> subseq l1 (x :: l2)
| ss_take : forall x l1 l2, subseq l1 l2 -> subseq (x :: l1) (x :: l2).

(* ---- threads ---- *)
Inductive who := WStart | WReap.

(* the thread in listener_start_pipe / dialer_start_pipe *)
Inductive spc :=
| SIdle                          (* pipe_create done (on s_pipes and the endpoint's list); nni_pipe_start not called yet *)
| SPreRead                       (* nni_pipe_run_cb(p, ADD_PRE): about to read cb / s_want_evs *)
| SPreEnter (want cb : bool)     (* values read; about to take `serialize` *)
| SPreInCb                       (* inside the user's ADD_PRE callback *)
| SCheck                         (* about to test nni_pipe_is_closed(p) *)
| SProto                         (* about to call the protocol's pipe_start *)
| SPostRead
| SPostEnter (want cb : bool)
| SPostInCb
| SDone.                         (* nni_pipe_rele; the thread has left *)

(* pipe_reap *)
Inductive rpc :=
| RNone                          (* not closed *)
| RQueued                        (* nni_pipe_close: p_closed set, on the reap list *)
| RTranClose                     (* protocol pipe_close done *)
| RRemRead                       (* transport p_close done; nni_pipe_run_cb(p, REM_POST): about to read *)
| RRemEnter (want cb : bool)
| RRemInCb
| RStop                          (* run_cb returned; id removal, pipe_stop, p_stop *)
| RRemove                        (* about to call nni_pipe_remove *)
| RDone.                         (* off s_pipes (the dialer's kick is DialerModel's DPipeRemoved) *)

Record pipe := mkPipe {
  p_last : N;                    (* p_last_event *)
  p_closed : bool;               (* p_closed (atomic) *)
  p_spc : spc;
  p_rpc : rpc;
  p_onsock : bool;               (* linked on s_pipes *)
  p_pstarted : bool;             (* the protocol's pipe_start has been called for it *)
  (* ghost *)
  g_fired : list N;              (* events that passed the filter, oldest first *)
  g_cbs : list N;                (* events for which a registered callback was invoked *)
  g_closed_at_check : bool;      (* what *_start_pipe read from p_closed after ADD_PRE *)
  g_closed_in_pre : bool }.      (* nng_pipe_close(this pipe) was called inside its own ADD_PRE callback *)

Definition pipe_new : pipe := mkPipe EV_NONE false SIdle RNone true false [] [] false false.

Definition set_spc (p : pipe) (v : spc) : pipe :=
  mkPipe (p_last p) (p_closed p) v (p_rpc p) (p_onsock p) (p_pstarted p) (g_fired p) (g_cbs p)
         (g_closed_at_check p) (g_closed_in_pre p).
Definition set_rpc (p : pipe) (v : rpc) : pipe :=
  mkPipe (p_last p) (p_closed p) (p_spc p) v (p_onsock p) (p_pstarted p) (g_fired p) (g_cbs p)
         (g_closed_at_check p) (g_closed_in_pre p).

(* nni_pipe_close: atomic swap of p_closed; the first caller queues the pipe for the reaper *)
Definition close_pipe (p : pipe) : pipe :=
  if p_closed p then p
  else mkPipe (p_last p) true (p_spc p) RQueued (p_onsock p) (p_pstarted p) (g_fired p) (g_cbs p)
              (g_closed_at_check p) (g_closed_in_pre p).

(* the event passes the filter: p_last_event := ev; the callback is invoked if one was read *)
Definition fire (p : pipe) (ev : N) (cb : bool) : pipe :=
  mkPipe ev (p_closed p) (p_spc p) (p_rpc p) (p_onsock p) (p_pstarted p) (g_fired p ++ [ev])
         (if cb then g_cbs p ++ [ev] else g_cbs p) (g_closed_at_check p) (g_closed_in_pre p).

(* per-pipe labels: the part of a step that concerns one pipe *)
Inductive plabel :=
| LStart                              (* nni_pipe_start is called *)
| LRead (w : who) (want cb1 cb2 cb3 : bool)  (* run_cb's first section: s_want_evs and the three cb_fn != NULL as they are now *)
| LEnter (w : who)                    (* run_cb's serialize section up to (not including) the user's code *)
| LExit (w : who)                     (* the user's callback returns; serialize released *)
| LMarkPre                            (* nng_pipe_close(own pipe) from the start thread's callback (ghost mark if that is ADD_PRE) *)
| LCheck
| LProto (ok : bool)                  (* the protocol's pipe_start returns 0 / an error *)
| LClose                              (* nni_pipe_close by anybody *)
| LReap.                              (* the reaper performs the next step of pipe_reap that is not part of run_cb *)

(* after the run_cb call of a thread returns *)
Definition after_pre (p : pipe) : pipe := set_spc p SCheck.
Definition after_post (p : pipe) : pipe := set_spc p SDone.
Definition after_rem (p : pipe) : pipe := set_rpc p RStop.

Definition enter (p : pipe) (ev : N) (want cb : bool) (incb : pipe -> pipe) (after : pipe -> pipe) : pipe :=
  if want then
    if run_cb_filter (p_last p) ev then
      let p' := fire p ev cb in if cb then incb p' else after p'
    else after p
  else after p.

Definition pstep (p : pipe) (l : plabel) : pipe :=
  match l with
  | LStart => match p_spc p with SIdle => set_spc p SPreRead | _ => p end
  | LRead WStart want c1 c2 _ =>
      match p_spc p with
      | SPreRead => set_spc p (SPreEnter want c1)
      | SPostRead => set_spc p (SPostEnter want c2)
      | _ => p end
  | LRead WReap want _ _ c3 =>
      match p_rpc p with RRemRead => set_rpc p (RRemEnter want c3) | _ => p end
  | LEnter WStart =>
      match p_spc p with
      | SPreEnter want cb => enter p EV_ADD_PRE want cb (fun q => set_spc q SPreInCb) after_pre
      | SPostEnter want cb => enter p EV_ADD_POST want cb (fun q => set_spc q SPostInCb) after_post
      | _ => p end
  | LEnter WReap =>
      match p_rpc p with
      | RRemEnter want cb => enter p EV_REM_POST want cb (fun q => set_rpc q RRemInCb) after_rem
      | _ => p end
  | LExit WStart =>
      match p_spc p with SPreInCb => after_pre p | SPostInCb => after_post p | _ => p end
  | LExit WReap =>
      match p_rpc p with RRemInCb => after_rem p | _ => p end
  | LMarkPre =>
      let q := close_pipe p in
      match p_spc p with
      | SPreInCb => mkPipe (p_last q) (p_closed q) (p_spc q) (p_rpc q) (p_onsock q) (p_pstarted q)
                           (g_fired q) (g_cbs q) (g_closed_at_check q) true
      | _ => q end
  | LCheck =>
      match p_spc p with
      | SCheck => mkPipe (p_last p) (p_closed p) (if p_closed p then SDone else SProto) (p_rpc p) (p_onsock p)
                         (p_pstarted p) (g_fired p) (g_cbs p) (p_closed p) (g_closed_in_pre p)
      | _ => p end
  | LProto ok =>
      match p_spc p with
      | SProto =>
          let p1 := mkPipe (p_last p) (p_closed p) (if ok then SPostRead else SDone) (p_rpc p) (p_onsock p) true
                           (g_fired p) (g_cbs p) (g_closed_at_check p) (g_closed_in_pre p) in
          if ok then p1 else close_pipe p1        (* pipe_start failed: nni_pipe_close(p) *)
      | _ => p end
  | LClose => close_pipe p
  | LReap =>
      match p_rpc p with
      | RQueued => set_rpc p RTranClose           (* p_proto_ops.pipe_close *)
      | RTranClose => set_rpc p RRemRead          (* p_tran_ops.p_close *)
      | RStop => set_rpc p RRemove                (* id removed, pipe_stop, p_stop *)
      | RRemove => mkPipe (p_last p) (p_closed p) (p_spc p) RDone false (p_pstarted p) (g_fired p) (g_cbs p)
                          (g_closed_at_check p) (g_closed_in_pre p)   (* nni_pipe_remove: off s_pipes *)
      | _ => p end
  end.

(* does this LEnter leave the thread inside a user callback (holding serialize)? *)
Definition enter_holds (p : pipe) (w : who) : bool :=
  match w with
  | WStart => match p_spc p with
              | SPreEnter want cb => want && cb && run_cb_filter (p_last p) EV_ADD_PRE
              | SPostEnter want cb => want && cb && run_cb_filter (p_last p) EV_ADD_POST
              | _ => false end
  | WReap => match p_rpc p with
             | RRemEnter want cb => want && cb && run_cb_filter (p_last p) EV_REM_POST
             | _ => false end
  end.
(* is the thread at an LEnter at all, and did it read s_want_evs = true (needs the lock)? *)
Definition at_enter (p : pipe) (w : who) : option bool :=
  match w with
  | WStart => match p_spc p with SPreEnter want _ => Some want | SPostEnter want _ => Some want | _ => None end
  | WReap => match p_rpc p with RRemEnter want _ => Some want | _ => None end
  end.

(* ---- the socket ---- *)
Record sock := mkSock {
  pipes : list pipe;
  s_cb1 : bool; s_cb2 : bool; s_cb3 : bool;     (* s_pipe_cbs[ev].cb_fn != NULL *)
  s_want : bool;                                (* s_want_evs *)
  s_ser : option (nat * who);                   (* holder of `serialize` *)
  s_closing : bool;                             (* sock_shutdown has begun *)
  s_eps_stopped : bool;                         (* all endpoints closed and stopped: no endpoint callback runs any more *)
  s_pipes_closed : bool;                        (* sock_shutdown's loop over s_pipes done *)
  s_shut_returned : bool }.                     (* the wait for s_pipes to drain is over: nng_socket_close can return *)

Definition sock_init : sock := mkSock [] false false false false None false false false false.

Definition set_pipes (s : sock) (l : list pipe) : sock :=
  mkSock l (s_cb1 s) (s_cb2 s) (s_cb3 s) (s_want s) (s_ser s) (s_closing s) (s_eps_stopped s)
         (s_pipes_closed s) (s_shut_returned s).
Definition set_ser (s : sock) (v : option (nat * who)) : sock :=
  mkSock (pipes s) (s_cb1 s) (s_cb2 s) (s_cb3 s) (s_want s) v (s_closing s) (s_eps_stopped s)
         (s_pipes_closed s) (s_shut_returned s).

Fixpoint upd {A} (l : list A) (i : nat) (f : A -> A) : list A :=
  match l, i with
  | [], _ => []
  | x :: r, O => f x :: r
  | x :: r, S k => x :: upd r k f
  end.

Definition plocal (s : sock) (i : nat) (l : plabel) : sock := set_pipes s (upd (pipes s) i (fun p => pstep p l)).

(* nni_sock_set_pipe_cb *)
Definition set_cb (s : sock) (ev : N) (on : bool) : sock :=
  if N.ltb EV_NONE ev && N.ltb ev EV_NUM then
    let c1 := if N.eqb ev EV_ADD_PRE then on else s_cb1 s in
    let c2 := if N.eqb ev EV_ADD_POST then on else s_cb2 s in
    let c3 := if N.eqb ev EV_REM_POST then on else s_cb3 s in
    mkSock (pipes s) c1 c2 c3 (c1 || c2 || c3) (s_ser s) (s_closing s) (s_eps_stopped s)
           (s_pipes_closed s) (s_shut_returned s)
  else s.

(* what a user callback may do *)
Inductive cbact :=
| CbClose (q : nat)                 (* nng_pipe_close on any pipe, its own included *)
| CbNotify (ev : N) (on : bool).    (* nng_pipe_notify *)

Inductive pop :=
| OCreate                           (* a transport creates a pipe (pipe_create / nni_pipe_add) *)
| OStart (i : nat)                  (* the endpoint callback calls nni_pipe_start *)
| OCbRead (i : nat) (w : who)
| OCbEnter (i : nat) (w : who)
| OCbAct (i : nat) (w : who) (a : cbact)
| OCbExit (i : nat) (w : who)
| OCheck (i : nat)
| OProto (i : nat) (ok : bool)
| OClose (i : nat)                  (* nni_pipe_close from anywhere: user, protocol (peer loss), endpoint close *)
| OReap (i : nat)
| ONotify (ev : N) (on : bool)      (* nng_pipe_notify from any thread *)
| OShutBegin                        (* sock_shutdown: s_closing := true *)
| OShutEps                          (* its loops over listeners and dialers are done: all closed and stopped *)
| OShutPipes                        (* NNI_LIST_FOREACH (&sock->s_pipes, pipe) nni_pipe_close(pipe) *)
| OShutWait.                        (* while (!nni_list_empty(&sock->s_pipes)) wait -- passes *)

Definition start_quiet (p : pipe) : bool :=
  match p_spc p with SIdle | SDone => true | _ => false end.

Definition sstep (s : sock) (o : pop) : sock :=
  match o with
  | OCreate => if s_eps_stopped s then s else set_pipes s (pipes s ++ [pipe_new])
  | OStart i => if s_eps_stopped s then s else plocal s i LStart
  | OCbRead i w => plocal s i (LRead w (s_want s) (s_cb1 s) (s_cb2 s) (s_cb3 s))
  | OCbEnter i w =>
      match nth_error (pipes s) i with
      | None => s
      | Some p =>
          match at_enter p w with
          | None => s
          | Some false => plocal s i (LEnter w)        (* s_want_evs was false: returns without the lock *)
          | Some true =>
              match s_ser s with
              | Some _ => s                            (* serialize is held: blocked *)
              | None => set_ser (plocal s i (LEnter w)) (if enter_holds p w then Some (i, w) else None)
              end
          end
      end
  | OCbAct i w a =>
      match s_ser s with
      | Some (j, w') =>
          if Nat.eqb i j && (match w, w' with WStart, WStart => true | WReap, WReap => true | _, _ => false end) then
            match a with
            | CbClose q =>
                (* closing its own pipe from the start thread's callback: LMarkPre = the close, plus the ghost
                   mark when that callback is the ADD_PRE one *)
                if Nat.eqb q i && (match w with WStart => true | WReap => false end) then plocal s i LMarkPre
                else plocal s q LClose
            | CbNotify ev on => set_cb s ev on
            end
          else s
      | None => s
      end
  | OCbExit i w =>
      match s_ser s with
      | Some (j, w') =>
          if Nat.eqb i j && (match w, w' with WStart, WStart => true | WReap, WReap => true | _, _ => false end)
          then set_ser (plocal s i (LExit w)) None else s
      | None => s
      end
  | OCheck i => plocal s i LCheck
  | OProto i ok => plocal s i (LProto ok)
  | OClose i => plocal s i LClose
  | OReap i => plocal s i LReap
  | ONotify ev on => set_cb s ev on
  | OShutBegin =>
      mkSock (pipes s) (s_cb1 s) (s_cb2 s) (s_cb3 s) (s_want s) (s_ser s) true (s_eps_stopped s)
             (s_pipes_closed s) (s_shut_returned s)
  | OShutEps =>
      (* nni_listener_close / nni_dialer_close return only when the endpoint's aios are stopped,
         i.e. no accept/connect callback (hence no *_start_pipe) is running or will run (C02 aio_stop_quiesces) *)
      if s_closing s && forallb start_quiet (pipes s) then
        mkSock (pipes s) (s_cb1 s) (s_cb2 s) (s_cb3 s) (s_want s) (s_ser s) true true
               (s_pipes_closed s) (s_shut_returned s)
      else s
  | OShutPipes =>
      if s_eps_stopped s then
        mkSock (map (fun p => if p_onsock p then close_pipe p else p) (pipes s)) (s_cb1 s) (s_cb2 s) (s_cb3 s)
               (s_want s) (s_ser s) true true true (s_shut_returned s)
      else s
  | OShutWait =>
      if s_pipes_closed s && forallb (fun p => negb (p_onsock p)) (pipes s) then
        mkSock (pipes s) (s_cb1 s) (s_cb2 s) (s_cb3 s) (s_want s) (s_ser s) true true true true
      else s
  end.

Definition srun (s : sock) (ops : list pop) : sock := fold_left sstep ops s.

(* histories in which no registered callback is ever removed (so that "a registered
   notification" stays meaningful until close): no nng_pipe_notify(.., NULL) *)
Definition keeps_cbs (o : pop) : bool :=
  match o with
  | ONotify _ on => on
  | OCbAct _ _ (CbNotify _ on) => on
  | _ => true
  end.
