(* SfdqModel: the hand-over queue of the socket-fd stream listener (src/core/sockfd.c:
   sfd_listener_set_fd, sfd_listener_accept, sfd_start_conn, sfd_cancel_accept,
   sfd_listener_close / _stop).  Everything runs under l->mtx: one step = one entry point.
   The array listen_q is a list of fixed length [cap] read and written through checked
   primitives (None = out of bounds); the spec is a plain list queue.  Definitions only.

   Variant flags (regenerated into Gen/Consts.v from the source):
     fixed    : sfd_start_conn shifts with listen_q[i - 1] = listen_q[i]
                (pinned: listen_q[i] = listen_q[i + 1] from i = 1 -- slot 0 is kept, slot 1 is lost,
                 and listen_q[cap] is read when the queue was full)
     fixclose : sfd_listener_close empties the queue after closing the queued descriptors
                (pinned: listen_cnt is left alone, so sfd_listener_stop = close closes them again) *)
From Coq Require Import List Arith NArith Bool.
Import ListNotations.

Definition SF_OK : N := 0%N.
Definition SF_ENOMEM : N := 2%N.
Definition SF_ECLOSED : N := 7%N.
Definition SF_ENOSPC : N := 22%N.

Inductive sf_out :=
| SfDeliver (a : nat) (fd : N)      (* the accept aio a completes with a stream over fd *)
| SfFail (a : nat) (rv : N)         (* the accept aio a completes with an error *)
| SfCloseFd (fd : N)                (* nni_sfd_close_fd(fd) *)
| SfRet (rv : N)                    (* return value of the option setter *)
| SfOob.                            (* listen_q read beyond its last cell *)

Inductive sf_op :=
| SfSetFd (fd : N) (alloc_ok : bool)   (* nng_stream_listener_set_int(NNG_OPT_SOCKET_FD); alloc_ok: nni_sfd_conn_alloc succeeds if reached *)
| SfAccept (a : nat) (alloc_ok : bool) (* nng_stream_listener_accept with a fresh aio *)
| SfCancel (a : nat) (rv : N)          (* the aio is aborted (cancel / timeout / stop) *)
| SfClose.                             (* nng_stream_listener_close or _stop *)

Record sfdl := mkSfdl {
  sf_q : list N;            (* listen_q, always [cap] cells *)
  sf_cnt : nat;             (* listen_cnt *)
  sf_wait : list nat;       (* accept_q, oldest first *)
  sf_closed : bool;
  sf_poison : bool }.       (* an out-of-bounds read has happened: nothing is claimed afterwards *)

Definition sfdl_init (cap : nat) : sfdl := mkSfdl (repeat 0%N cap) 0 [] false false.

Fixpoint set_nth {A} (l : list A) (i : nat) (v : A) : list A :=
  match l, i with
  | [], _ => []
  | _ :: r, O => v :: r
  | x :: r, S k => x :: set_nth r k v
  end.

(* for (int i = start; i < listen_cnt; i++) listen_q[dst i] = listen_q[src i];   [n] iterations left *)
Fixpoint shift_loop (fixed : bool) (q : list N) (i n : nat) : option (list N) :=
  match n with
  | O => Some q
  | S n' =>
      let src := if fixed then i else S i in
      let dst := if fixed then pred i else i in
      match nth_error q src with
      | None => None
      | Some v => shift_loop fixed (set_nth q dst v) (S i) n'
      end
  end.
Definition shift (fixed : bool) (q : list N) (cnt : nat) : option (list N) := shift_loop fixed q 1 (cnt - 1).

(* sfd_start_conn(l, aio) *)
Definition start_conn (fixed : bool) (s : sfdl) (a : nat) (alloc_ok : bool) : sfdl * list sf_out :=
  match nth_error (sf_q s) 0 with
  | None => (mkSfdl (sf_q s) (sf_cnt s) (sf_wait s) (sf_closed s) true, [SfOob])
  | Some fd =>
      match shift fixed (sf_q s) (sf_cnt s) with
      | None => (mkSfdl (sf_q s) (sf_cnt s) (sf_wait s) (sf_closed s) true, [SfOob])
      | Some q' =>
          (mkSfdl q' (sf_cnt s - 1) (sf_wait s) (sf_closed s) (sf_poison s),
           if alloc_ok then [SfDeliver a fd] else [SfFail a SF_ENOMEM; SfCloseFd fd])
      end
  end.

Fixpoint remove_first (a : nat) (l : list nat) : list nat :=
  match l with [] => [] | x :: r => if Nat.eqb x a then r else x :: remove_first a r end.

Definition sf_step (fixed fixclose : bool) (cap : nat) (s : sfdl) (o : sf_op) : sfdl * list sf_out :=
  if sf_poison s then (s, []) else
  match o with
  | SfSetFd fd ok =>
      if sf_closed s then (s, [SfRet SF_ECLOSED])
      else if Nat.eqb (sf_cnt s) cap then (s, [SfRet SF_ENOSPC])
      else
        let s1 := mkSfdl (set_nth (sf_q s) (sf_cnt s) fd) (S (sf_cnt s)) (sf_wait s) (sf_closed s) (sf_poison s) in
        match sf_wait s1 with
        | [] => (s1, [SfRet SF_OK])
        | a :: r =>
            let '(s2, outs) := start_conn fixed (mkSfdl (sf_q s1) (sf_cnt s1) r (sf_closed s1) (sf_poison s1)) a ok in
            (s2, outs ++ [SfRet SF_OK])
        end
  | SfAccept a ok =>
      if sf_closed s then (s, [SfFail a SF_ECLOSED])
      else if Nat.ltb 0 (sf_cnt s) then start_conn fixed s a ok
      else (mkSfdl (sf_q s) (sf_cnt s) (sf_wait s ++ [a]) (sf_closed s) (sf_poison s), [])
  | SfCancel a rv =>
      if existsb (Nat.eqb a) (sf_wait s)
      then (mkSfdl (sf_q s) (sf_cnt s) (remove_first a (sf_wait s)) (sf_closed s) (sf_poison s), [SfFail a rv])
      else (s, [])
  | SfClose =>
      (mkSfdl (sf_q s) (if fixclose then 0 else sf_cnt s) [] true (sf_poison s),
       map (fun a => SfFail a SF_ECLOSED) (sf_wait s) ++ map SfCloseFd (firstn (sf_cnt s) (sf_q s)))
  end.

Fixpoint sf_run (fixed fixclose : bool) (cap : nat) (s : sfdl) (ops : list sf_op) : sfdl * list (sf_op * list sf_out) :=
  match ops with
  | [] => (s, [])
  | o :: r =>
      let '(s1, outs) := sf_step fixed fixclose cap s o in
      let '(s2, tr) := sf_run fixed fixclose cap s1 r in
      (s2, (o, outs) :: tr)
  end.

(* ---- the specification: a bounded FIFO of descriptors and a FIFO of waiting accepts ---- *)
Record sfspec := mkSfspec { sp_q : list N; sp_wait : list nat; sp_closed : bool }.
Definition sfspec_init : sfspec := mkSfspec [] [] false.

Definition hand_out (a : nat) (fd : N) (ok : bool) : list sf_out :=
  if ok then [SfDeliver a fd] else [SfFail a SF_ENOMEM; SfCloseFd fd].

Definition sp_step (cap : nat) (s : sfspec) (o : sf_op) : sfspec * list sf_out :=
  match o with
  | SfSetFd fd ok =>
      if sp_closed s then (s, [SfRet SF_ECLOSED])
      else if Nat.eqb (length (sp_q s)) cap then (s, [SfRet SF_ENOSPC])
      else match sp_wait s, sp_q s ++ [fd] with
           | a :: r, x :: q' => (mkSfspec q' r (sp_closed s), hand_out a x ok ++ [SfRet SF_OK])
           | _, q' => (mkSfspec q' (sp_wait s) (sp_closed s), [SfRet SF_OK])
           end
  | SfAccept a ok =>
      if sp_closed s then (s, [SfFail a SF_ECLOSED])
      else match sp_q s with
           | x :: q' => (mkSfspec q' (sp_wait s) (sp_closed s), hand_out a x ok)
           | [] => (mkSfspec [] (sp_wait s ++ [a]) (sp_closed s), [])
           end
  | SfCancel a rv =>
      if existsb (Nat.eqb a) (sp_wait s)
      then (mkSfspec (sp_q s) (remove_first a (sp_wait s)) (sp_closed s), [SfFail a rv])
      else (s, [])
  | SfClose =>
      (mkSfspec [] [] true, map (fun a => SfFail a SF_ECLOSED) (sp_wait s) ++ map SfCloseFd (sp_q s))
  end.

(* what a trace says: descriptors the listener took over (set_fd returned 0), in order ... *)
Definition took (e : sf_op * list sf_out) : list N :=
  match fst e with
  | SfSetFd fd _ => if existsb (fun o => match o with SfRet rv => N.eqb rv SF_OK | _ => false end) (snd e) then [fd] else []
  | _ => []
  end.
(* ... and descriptors that left it (delivered to an accept, or closed), in order *)
Definition left1 (o : sf_out) : list N :=
  match o with SfDeliver _ fd => [fd] | SfCloseFd fd => [fd] | _ => [] end.
Definition left_of (e : sf_op * list sf_out) : list N := flat_map left1 (snd e).
Definition delivered1 (o : sf_out) : list N := match o with SfDeliver _ fd => [fd] | _ => [] end.

Definition sf_abs (s : sfdl) : sfspec := mkSfspec (firstn (sf_cnt s) (sf_q s)) (sf_wait s) (sf_closed s).
