(* AioFw: the framework fields of an nni_aio and, per critical section of aio.c
   (= per record kind of the H2 trace), the function from the fields before to
   the fields after.  The trace conformance check replays every logged record
   through [fw_step]; the lemmas below show that [astep] (AioModel) changes the
   framework fields exactly by these functions, so the functions that are
   checked against the running code are the ones the theorems are about. *)
From Coq Require Import List Arith NArith Bool.
From NngV Require Import Core.AioModel.
Import ListNotations.

Record fw := mkFw { f_stop : bool; f_abort : bool; f_expiring : bool; f_expire_ok : bool; f_sleep : bool;
                    f_cancel : bool; f_on_eq : bool; f_result : N; f_done : bool }.

Definition fw_of (s : aio) : fw :=
  mkFw (a_stop s) (a_abort s) (a_expiring s) (a_expire_ok s) (a_sleep s) (a_cancel s) (a_on_eq s) (a_result s) (a_done s).

Inductive tkind :=
| TStartOk (has_cancel has_deadline : bool) | TStartStopped | TStartAborted | TStartTimeout
| TFinish (rv : N) | TAbort (rv : N) | TStop | TClose | TFini
| TExpire (rv : N) | TExpireDone | TSleepCancel (rv : N) | TReset | TSleepSetup
| TExpireMark | TExpireSkip.

(* None = a record of this kind cannot follow this state *)
Definition fw_step (fdone : bool) (k : tkind) (f : fw) : option fw :=
  let eok := if f_sleep f then f_expire_ok f else false in     (* nni_aio_start: if (!a_sleep) a_expire_ok = false *)
  match k with
  | TStartOk c dl =>
      if f_stop f || f_abort f then None else
      Some (mkFw false false (f_expiring f) eok (f_sleep f) c (dl && c) A_OK false)
  | TStartStopped =>
      (* a_stop, or the whole expire queue is stopping (library shutdown) *)
      Some (mkFw true (f_abort f) (f_expiring f) false false (f_cancel f) (f_on_eq f) A_STOPPED true)
  | TStartAborted =>
      if f_stop f || negb (f_abort f) then None else
      Some (mkFw false false (f_expiring f) false false (f_cancel f) (f_on_eq f) (f_result f) true)
  | TStartTimeout =>
      if f_stop f || f_abort f then None else
      Some (mkFw false false (f_expiring f) false false (f_cancel f) (f_on_eq f) (if eok then A_OK else A_TIMEDOUT) true)
  | TFinish rv =>
      Some (mkFw (f_stop f) (f_abort f) (f_expiring f) (f_expire_ok f) false false false rv true)
  | TAbort rv =>
      if f_cancel f then Some (mkFw (f_stop f) (f_abort f) (f_expiring f) (f_expire_ok f) (f_sleep f) false false (f_result f) (f_done f))
      else if fdone && f_done f
      then Some (mkFw (f_stop f) (f_abort f) (f_expiring f) (f_expire_ok f) (f_sleep f) false false (f_result f) (f_done f))
      else Some (mkFw (f_stop f) true (f_expiring f) (f_expire_ok f) (f_sleep f) false false rv (f_done f))
  | TStop | TFini =>
      if f_expiring f then None else
      Some (mkFw true (f_abort f) false (f_expire_ok f) (f_sleep f) false false (f_result f) (f_done f))
  | TClose =>
      Some (mkFw true (f_abort f) (f_expiring f) (f_expire_ok f) (f_sleep f) false false (f_result f) (f_done f))
  | TExpireMark =>
      (* the scan: a due aio is unlinked from the expire list and held *)
      if f_on_eq f && negb (f_expiring f)
      then Some (mkFw (f_stop f) (f_abort f) true (f_expire_ok f) (f_sleep f) (f_cancel f) false (f_result f) (f_done f))
      else None
  | TExpireSkip =>
      (* its turn in the batch: no longer due (repaired loop) *)
      if f_expiring f then Some (mkFw (f_stop f) (f_abort f) false (f_expire_ok f) (f_sleep f) (f_cancel f) (f_on_eq f) (f_result f) (f_done f))
      else None
  | TExpire rv =>
      (* its turn in the batch: unlinked, cancel function taken; rv = ESTOPPED when the whole queue
         is shutting down, else 0 iff a_expire_ok, else ETIMEDOUT *)
      if negb (f_expiring f) then None else
      let stopping := N.eqb rv A_STOPPED in
      if negb stopping && negb (N.eqb rv (if f_expire_ok f then A_OK else A_TIMEDOUT)) then None else
      let st := if stopping then true else f_stop f in
      let eok := if stopping then f_expire_ok f else false in
      if f_sleep f
      then Some (mkFw st (f_abort f) true eok false false false rv true)
      else Some (mkFw st (f_abort f) true eok (f_sleep f) false false (f_result f) (f_done f))
  | TExpireDone =>
      Some (mkFw (f_stop f) (f_abort f) false (f_expire_ok f) (f_sleep f) (f_cancel f) (f_on_eq f) (f_result f) (f_done f))
  | TSleepCancel rv =>
      if f_sleep f then Some (mkFw (f_stop f) (f_abort f) (f_expiring f) (f_expire_ok f) false (f_cancel f) false (f_result f) (f_done f))
      else None
  | TReset =>
      Some (mkFw (f_stop f) false (f_expiring f) false false (f_cancel f) (f_on_eq f) A_OK false)
  | TSleepSetup =>
      (* nni_sleep_aio after nni_aio_reset: a_sleep = true; a_expire_ok set from the timeouts (either value) *)
      Some (mkFw (f_stop f) (f_abort f) (f_expiring f) (f_expire_ok f) true (f_cancel f) (f_on_eq f) (f_result f) (f_done f))
  end.

Ltac simp_f := cbn [a_stop a_abort a_expiring a_expire_ok a_sleep a_cancel a_on_eq a_expire a_result
                    t_busy t_prep t_queued t_running p_owns p_sleep threads upd_threads fw_of
                    f_stop f_abort f_expiring f_expire_ok f_sleep f_cancel f_on_eq f_result f_done a_done] in *.

Lemma fw_spawn s k : fw_of (spawn s k) = fw_of s.
Proof. destruct k; reflexivity. Qed.
Lemma fw_upd s t : fw_of (upd_threads s t) = fw_of s.
Proof. reflexivity. Qed.

Section Fixed.
Variable fixed : bool.
Variable fdone : bool.

(* nni_aio_start: the four outcomes are the four record kinds *)
Lemma astep_fw_start s zero dl sleep eok s' :
  a_sleep s = sleep -> (sleep = true -> a_expire_ok s = eok) ->   (* nni_sleep_aio has set them (TSleepSetup) *)
  astep fixed fdone s (LStart zero dl sleep eok) = Some s' ->
  exists k, fw_step fdone k (fw_of s) = Some (fw_of s') /\
    k = (if a_stop s then TStartStopped else if a_abort s then TStartAborted else if zero then TStartTimeout
         else TStartOk true (match dl with Some _ => true | None => false end)).
Proof.
  intros SL EO H. cbn [astep] in H. destruct (outstanding s); [discriminate|].
  destruct (a_stop s) eqn:ST.
  - inversion H; subst; clear H. eexists; split; [|reflexivity]. unfold spawn. cbn [fw_step]. simp_f. reflexivity.
  - destruct (a_abort s) eqn:AB.
    + inversion H; subst; clear H. eexists; split; [|reflexivity]. unfold spawn. cbn [fw_step]. simp_f.
      rewrite ST, AB. reflexivity.
    + destruct zero.
      * inversion H; subst; clear H. eexists; split; [|reflexivity]. unfold spawn. cbn [fw_step]. simp_f.
        rewrite ST, AB. cbn [orb]. destruct (a_sleep s) eqn:S1.
        -- rewrite (EO eq_refl). reflexivity.
        -- reflexivity.
      * inversion H; subst; clear H. eexists; split; [|reflexivity]. cbn [fw_step]. simp_f.
        rewrite ST, AB. cbn [orb]. destruct (a_sleep s) eqn:S1.
        -- rewrite (EO eq_refl). destruct dl; reflexivity.
        -- destruct dl; reflexivity.
Qed.

Lemma astep_fw_abort s rv s' : astep fixed fdone s (LAbort rv) = Some s' -> fw_step fdone (TAbort rv) (fw_of s) = Some (fw_of s').
Proof.
  cbn [astep]. destruct (rv =? 0)%N; [discriminate|]. cbn [fw_step]. simp_f.
  destruct (a_cancel s); [|destruct (fdone && a_done s)]; intros H; inversion H; subst; unfold spawn; reflexivity.
Qed.

Lemma astep_fw_stop s s' : astep fixed fdone s LStop = Some s' -> fw_step fdone TStop (fw_of s) = Some (fw_of s').
Proof.
  cbn [astep fw_step]. simp_f. destruct (a_expiring s); [discriminate|]. intros H; inversion H; subst.
  unfold spawn. destruct (a_cancel s); reflexivity.
Qed.

Lemma astep_fw_close s s' : astep fixed fdone s LClose = Some s' -> fw_step fdone TClose (fw_of s) = Some (fw_of s').
Proof. cbn [astep fw_step]. intros H; inversion H; subst. unfold spawn. destruct (a_cancel s); reflexivity. Qed.

Lemma astep_fw_reset s s' : astep fixed fdone s LReset = Some s' -> fw_step fdone TReset (fw_of s) = Some (fw_of s').
Proof. cbn [astep fw_step]. destruct (outstanding s); [discriminate|]. intros H; inversion H; subst. reflexivity. Qed.

(* the expire loop's scan *)
Lemma astep_fw_expire_mark s now s' : astep fixed fdone s (LExpire now) = Some s' ->
  fw_step fdone TExpireMark (fw_of s) = Some (fw_of s').
Proof.
  intros H. cbn [astep] in H. cbn [fw_step]. simp_f. destruct (a_on_eq s && negb (a_expiring s)); [|discriminate].
  destruct (negb match a_expire s with Some e => (e <? now)%N | None => false end); [discriminate|].
  inversion H; subst; clear H. unfold spawn. reflexivity.
Qed.

(* continuations *)
Lemma run_pact_fw s a s1 more : run_pact fixed s a = Some (s1, more) ->
  match a with
  | PFinish rv => fw_step fdone (TFinish rv) (fw_of s) = Some (fw_of s1)
  | PExpireDone => fw_step fdone TExpireDone (fw_of s) = Some (fw_of s1)
  | PCallCancel rv =>
      if p_owns s && p_sleep s then a_sleep s = true -> fw_step fdone (TSleepCancel rv) (fw_of s) = Some (fw_of s1)
      else fw_of s1 = fw_of s        (* an ordinary provider's cancel function touches no framework field *)
  | PExpireProc now =>
      (* the aio's turn in the batch: TExpireSkip, or TExpire and - unless a cancel function is
         called with the lock dropped - TExpireDone in the same critical section *)
      a_expiring s = true ->
      let due := match a_expire s with Some e => (e <? now)%N | None => false end in
      if fixed && negb due then fw_step fdone TExpireSkip (fw_of s) = Some (fw_of s1)
      else
        let rv := if a_expire_ok s then A_OK else A_TIMEDOUT in
        exists f1, fw_step fdone (TExpire rv) (fw_of s) = Some f1 /\
          (if a_sleep s || negb (a_cancel s) then fw_step fdone TExpireDone f1 = Some (fw_of s1) else f1 = fw_of s1)
  | PDispatch | PStopWait => fw_of s1 = fw_of s
  end.
Proof.
  destruct a; cbn [run_pact]; intros H.
  - inversion H; subst. reflexivity.
  - inversion H; subst. reflexivity.
  - unfold do_call_cancel in H. destruct (p_owns s) eqn:O; cbn [andb].
    + destruct (p_sleep s) eqn:PS; inversion H; subst; clear H.
      * intros SL. cbn [fw_step]. simp_f. rewrite SL. reflexivity.
      * simp_f. reflexivity.
    + inversion H; subst. reflexivity.
  - intros EX. cbn zeta. unfold do_expire_proc in H.
    destruct (fixed && negb match a_expire s with Some e => (e <? now)%N | None => false end).
    + inversion H; subst; clear H. cbn [fw_step]. simp_f. rewrite EX. reflexivity.
    + cbn [fw_step]. simp_f. rewrite EX. cbn [negb].
      assert (E1: ((if a_expire_ok s then A_OK else A_TIMEDOUT) =? A_STOPPED)%N = false) by (destruct (a_expire_ok s); reflexivity).
      rewrite E1, N.eqb_refl. cbn [negb andb].
      destruct (a_sleep s) eqn:SL; [|destruct (a_cancel s) eqn:C]; inversion H; subst; clear H;
        (eexists; split; [reflexivity|]); cbn [orb negb]; simp_f; reflexivity.
  - inversion H; subst. reflexivity.
  - destruct (t_busy s =? 0); inversion H; subst. reflexivity.
Qed.
End Fixed.
