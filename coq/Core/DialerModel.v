(* DialerModel: the redial machinery of one nni_dialer (src/core/dialer.c: nni_dialer_start_aio,
   dialer_connect_cb, dialer_timer_cb, nni_dialer_setopt, nni_dialer_close/stop; src/core/socket.c:
   dialer_timer_start_locked, dialer_start_pipe's first section, nni_pipe_remove's kick).
   Definitions only.  One step = one critical section / one callback; the transport and
   the clock are the environment: DConnDone (the transport completes d_con_aio with a
   result code), DTimerFire (the sleep expires), DPipeRemoved (the reaper removes a pipe).
   The random draw of dialer_timer_start_locked is an argument [rnd] of the step.

   Durations are nng_duration = int32_t, modelled as Z; the two places where the C leaves
   the mathematical integers are explicit: `d_currtime *= 2` (signed overflow, flagged
   [g_ovf]) and `nni_random() % back_off` (the int32 is converted to uint32).

   Variant flags (regenerated into Gen/Consts.v from the source):
     fixmax : nni_dialer_setopt(RECONNMAXT) also resets d_currtime to d_inirtime
     wide   : the doubling cannot overflow (clamped before multiplying) *)
From Coq Require Import List Arith NArith ZArith Bool.
Import ListNotations.
Local Open Scope Z_scope.

Definition D_OK : N := 0%N.
Definition D_ECLOSED : N := 7%N.
Definition D_ECANCELED : N := 20%N.
Definition D_ESTOPPED : N := 999%N.
Definition D_EBUSY : N := 4%N.

Definition INT32_MAX : Z := 2147483647.
Definition to_u32 (z : Z) : Z := z mod 4294967296.
Definition to_i32 (z : Z) : Z := let m := z mod 4294967296 in if m <? 2147483648 then m else m - 4294967296.

(* the result classes of dialer_connect_cb's switch *)
Inductive dclass := DcStart | DcNothing | DcRetry.
Definition dialer_connect_class (rv : N) : dclass :=
  if N.eqb rv D_OK then DcStart
  else if N.eqb rv D_ECLOSED || N.eqb rv D_ECANCELED || N.eqb rv D_ESTOPPED then DcNothing
  else DcRetry.

(* d_currtime after dialer_timer_start_locked, and whether the multiplication overflowed *)
Definition backoff_next (wide : bool) (curr maxr : Z) : Z * bool :=
  if 0 <? maxr then
    if wide then
      ((if maxr / 2 <? curr then maxr else curr * 2), false)
    else
      let c2 := curr * 2 in
      let ovf := (INT32_MAX <? c2) || (c2 <? -2147483648) in
      let c2' := if ovf then to_i32 c2 else c2 in      (* what a two's-complement machine computes; undefined in C *)
      ((if maxr <? c2' then maxr else c2'), ovf)
  else (curr, false).

(* back_off ? (nng_duration) (nni_random() % back_off) : 0 *)
Definition draw_delay (back_off rnd : Z) : Z :=
  if back_off =? 0 then 0 else to_i32 (to_u32 rnd mod to_u32 back_off).

Record dialer := mkDialer {
  d_inir : Z; d_maxr : Z; d_curr : Z;       (* d_inirtime, d_maxrtime, d_currtime *)
  d_pipe : option nat;                      (* d_pipe *)
  d_closed : bool;                          (* nni_dialer_close has run: endpoint closed, both aios stopped *)
  d_started : bool;                         (* d_started *)
  d_user : bool;                            (* d_user_aio != NULL *)
  d_tmo : option Z;                         (* d_tmo_aio is sleeping, with this delay *)
  d_tmo_done : option N;                    (* ... has completed with this result; dialer_timer_cb not yet run *)
  d_conn : bool;                            (* d_con_aio is with the transport *)
  d_conn_done : option (N * nat);           (* ... has completed (result, pipe); dialer_connect_cb not yet run *)
  (* ghost *)
  g_att : nat;                              (* calls of the transport's d_connect *)
  g_delays : list (Z * Z * Z);              (* (delay drawn, d_inirtime, d_maxrtime at the draw), newest first *)
  g_ovf : bool;                             (* the doubling overflowed int32 *)
  g_clash : bool;                           (* an aio was started while in use, or d_pipe overwritten *)
  g_lost : bool;                            (* a result of class DcNothing arrived while the dialer was open *)
  g_user_res : list N }.                    (* results delivered to the user's aio, newest first *)

(* nni_dialer_init followed by nni_sock_add_dialer's option copy (socket values s_reconn / s_reconnmax) *)
Definition dialer_init (inir maxr : Z) : dialer :=
  mkDialer inir maxr inir None false false false None None false None 0 [] false false false [].

Inductive dop :=
| DStart (user : bool)            (* nni_dialer_start_aio: user = with an aio (the blocking form waits on it) *)
| DConnDone (rv : N) (p : nat)    (* the transport completes the connect *)
| DConnCb (rnd : Z)               (* dialer_connect_cb *)
| DTimerFire                      (* the sleep expires *)
| DTimerCb                        (* dialer_timer_cb *)
| DPipeRemoved (p : nat) (rnd : Z)(* nni_pipe_remove(p) for a pipe of this dialer *)
| DSetMin (v : Z)                 (* nni_dialer_setopt(NNG_OPT_RECONNMINT) *)
| DSetMax (v : Z)                 (* nni_dialer_setopt(NNG_OPT_RECONNMAXT) *)
| DClose.                         (* nni_dialer_close (nni_dialer_shutdown, nni_dialer_stop) *)

(* dialer_timer_start_locked *)
Definition timer_start (wide : bool) (d : dialer) (rnd : Z) : dialer :=
  let back_off := d_curr d in
  let '(c', ovf) := backoff_next wide (d_curr d) (d_maxr d) in
  let dl := draw_delay back_off rnd in
  if d_closed d then
    (* d_tmo_aio is stopped: nni_sleep_aio fails, its callback sees NNG_ESTOPPED and does nothing *)
    mkDialer (d_inir d) (d_maxr d) c' (d_pipe d) (d_closed d) (d_started d) (d_user d) (d_tmo d) (d_tmo_done d)
             (d_conn d) (d_conn_done d) (g_att d) (g_delays d) (g_ovf d || ovf) (g_clash d) (g_lost d) (g_user_res d)
  else
    let busy := match d_tmo d, d_tmo_done d with None, None => false | _, _ => true end in
    mkDialer (d_inir d) (d_maxr d) c' (d_pipe d) (d_closed d) (d_started d) (d_user d) (Some dl) (d_tmo_done d)
             (d_conn d) (d_conn_done d) (g_att d) ((dl, d_inir d, d_maxr d) :: g_delays d) (g_ovf d || ovf)
             (g_clash d || busy) (g_lost d) (g_user_res d).

(* dialer_connect_start: d_ops.d_connect(d_data, &d_con_aio) *)
Definition connect_start (d : dialer) : dialer :=
  if d_closed d then
    (* the endpoint is closed: the transport completes the aio with NNG_ECLOSED at once *)
    mkDialer (d_inir d) (d_maxr d) (d_curr d) (d_pipe d) (d_closed d) (d_started d) (d_user d) (d_tmo d) (d_tmo_done d)
             (d_conn d) (Some (D_ECLOSED, O)) (S (g_att d)) (g_delays d) (g_ovf d)
             (g_clash d || match d_conn_done d with Some _ => true | None => d_conn d end) (g_lost d) (g_user_res d)
  else
    mkDialer (d_inir d) (d_maxr d) (d_curr d) (d_pipe d) (d_closed d) (d_started d) (d_user d) (d_tmo d) (d_tmo_done d)
             true (d_conn_done d) (S (g_att d)) (g_delays d) (g_ovf d)
             (g_clash d || d_conn d || match d_conn_done d with Some _ => true | None => false end)
             (g_lost d) (g_user_res d).

Definition dstep (fixmax wide : bool) (d : dialer) (o : dop) : dialer :=
  match o with
  | DStart user =>
      if d_started d then d                        (* NNG_ESTATE *)
      else connect_start
        (mkDialer (d_inir d) (d_maxr d) (d_curr d) (d_pipe d) (d_closed d) true user (d_tmo d) (d_tmo_done d)
                  (d_conn d) (d_conn_done d) (g_att d) (g_delays d) (g_ovf d) (g_clash d) (g_lost d) (g_user_res d))
  | DConnDone rv p =>
      if d_conn d then
        mkDialer (d_inir d) (d_maxr d) (d_curr d) (d_pipe d) (d_closed d) (d_started d) (d_user d) (d_tmo d) (d_tmo_done d)
                 false (Some (rv, p)) (g_att d) (g_delays d) (g_ovf d)
                 (g_clash d || match d_conn_done d with Some _ => true | None => false end) (g_lost d) (g_user_res d)
      else d
  | DConnCb rnd =>
      match d_conn_done d with
      | None => d
      | Some (rv, p) =>
          let user := d_user d in
          let res := if user then rv :: g_user_res d else g_user_res d in
          match dialer_connect_class rv with
          | DcStart =>
              (* nni_pipe_start -> dialer_start_pipe: d_pipe = p; d_currtime = d_inirtime (under s_mx) *)
              mkDialer (d_inir d) (d_maxr d) (d_inir d) (Some p) (d_closed d) (d_started d) false (d_tmo d) (d_tmo_done d)
                       (d_conn d) None (g_att d) (g_delays d) (g_ovf d)
                       (g_clash d || match d_pipe d with Some _ => true | None => false end) (g_lost d) res
          | DcNothing =>
              mkDialer (d_inir d) (d_maxr d) (d_curr d) (d_pipe d) (d_closed d) (d_started d) false (d_tmo d) (d_tmo_done d)
                       (d_conn d) None (g_att d) (g_delays d) (g_ovf d) (g_clash d) (g_lost d || negb (d_closed d)) res
          | DcRetry =>
              let d1 := mkDialer (d_inir d) (d_maxr d) (d_curr d) (d_pipe d) (d_closed d)
                                 (if user then false else d_started d) false (d_tmo d) (d_tmo_done d)
                                 (d_conn d) None (g_att d) (g_delays d) (g_ovf d) (g_clash d) (g_lost d) res in
              if user then d1 else timer_start wide d1 rnd
          end
      end
  | DTimerFire =>
      match d_tmo d with
      | Some dl =>
          if dl =? -1 then d                       (* NNG_DURATION_INFINITE: never expires *)
          else mkDialer (d_inir d) (d_maxr d) (d_curr d) (d_pipe d) (d_closed d) (d_started d) (d_user d) None (Some D_OK)
                        (d_conn d) (d_conn_done d) (g_att d) (g_delays d) (g_ovf d) (g_clash d) (g_lost d) (g_user_res d)
      | None => d
      end
  | DTimerCb =>
      match d_tmo_done d with
      | Some r =>
          let d1 := mkDialer (d_inir d) (d_maxr d) (d_curr d) (d_pipe d) (d_closed d) (d_started d) (d_user d) (d_tmo d) None
                             (d_conn d) (d_conn_done d) (g_att d) (g_delays d) (g_ovf d) (g_clash d) (g_lost d) (g_user_res d) in
          if N.eqb r D_OK then connect_start d1 else d1
      | None => d
      end
  | DPipeRemoved p rnd =>
      match d_pipe d with
      | Some q =>
          if Nat.eqb p q then
            timer_start wide
              (mkDialer (d_inir d) (d_maxr d) (d_curr d) None (d_closed d) (d_started d) (d_user d) (d_tmo d) (d_tmo_done d)
                        (d_conn d) (d_conn_done d) (g_att d) (g_delays d) (g_ovf d) (g_clash d) (g_lost d) (g_user_res d)) rnd
          else d
      | None => d
      end
  | DSetMin v =>
      if v <? -1 then d                            (* nni_copyin_ms: NNG_EINVAL *)
      else mkDialer v (d_maxr d) v (d_pipe d) (d_closed d) (d_started d) (d_user d) (d_tmo d) (d_tmo_done d)
                    (d_conn d) (d_conn_done d) (g_att d) (g_delays d) (g_ovf d) (g_clash d) (g_lost d) (g_user_res d)
  | DSetMax v =>
      if v <? -1 then d
      else mkDialer (d_inir d) v (if fixmax then d_inir d else d_curr d) (d_pipe d) (d_closed d) (d_started d) (d_user d)
                    (d_tmo d) (d_tmo_done d) (d_conn d) (d_conn_done d) (g_att d) (g_delays d) (g_ovf d) (g_clash d)
                    (g_lost d) (g_user_res d)
  | DClose =>
      if d_closed d then d
      else
        (* d_ops.d_close: a pending connect completes with NNG_ECLOSED; nni_aio_stop(&d_tmo_aio): a sleeping
           timer completes with NNG_ESTOPPED; nni_aio_stop(&d_con_aio) *)
        mkDialer (d_inir d) (d_maxr d) (d_curr d) (d_pipe d) true (d_started d) (d_user d) None
                 (match d_tmo d with Some _ => Some D_ESTOPPED | None => d_tmo_done d end)
                 false (if d_conn d then Some (D_ECLOSED, O) else d_conn_done d)
                 (g_att d) (g_delays d) (g_ovf d) (g_clash d) (g_lost d) (g_user_res d)
  end.

Definition drun (fixmax wide : bool) (d : dialer) (ops : list dop) : dialer := fold_left (dstep fixmax wide) ops d.

(* the single token of a dialer: its pipe, its armed timer (or the timer's pending callback with
   result 0), its connect in flight (or the pending connect callback) *)
Definition b2n (b : bool) : nat := if b then 1%nat else 0%nat.
Definition tokens (d : dialer) : nat :=
  (b2n (match d_pipe d with Some _ => true | None => false end) +
   b2n (match d_tmo d with Some _ => true | None => false end) +
   b2n (match d_tmo_done d with Some r => N.eqb r D_OK | None => false end) +
   b2n (d_conn d) +
   b2n (match d_conn_done d with Some _ => true | None => false end))%nat.

(* option changes covered by the delay bound (see Properties_C14.redial_delay_bounded) *)
Definition HALF32 : Z := 1073741823.   (* 2^30 - 1: the largest value whose double fits int32 *)
Definition cfg_ok (wide : bool) (inir maxr : Z) : Prop :=
  0 <= inir <= INT32_MAX /\ 0 <= maxr <= INT32_MAX /\ (wide = true \/ maxr = 0 \/ (inir <= HALF32 /\ maxr <= HALF32)).
Definition op_cov (fixmax wide : bool) (d : dialer) (o : dop) : Prop :=
  match o with
  | DSetMin v => cfg_ok wide v (d_maxr d)
  | DSetMax v => cfg_ok wide (d_inir d) v /\ (fixmax = true \/ d_curr d <= Z.max (d_inir d) v)
  | _ => True
  end.
Fixpoint drun_cov (fixmax wide : bool) (d : dialer) (ops : list dop) : Prop :=
  match ops with
  | [] => True
  | o :: r => op_cov fixmax wide d o /\ drun_cov fixmax wide (dstep fixmax wide d o) r
  end.
