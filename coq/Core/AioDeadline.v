(* AioDeadline: which deadline does an operation get?  The three fields of an nni_aio that
   configure it (a_timeout, a_expire, a_use_expire) and every function of aio.c that reads or
   writes them: nni_aio_set_timeout, nni_aio_set_expire, nni_aio_normalize_timeout, the head of
   nni_aio_start, nni_sleep_aio, the tail of nni_aio_finish_impl.  The result of [dl_start] /
   [dl_sleep] is what Core/AioModel.astep receives as the [zero], [dl] and [eok] arguments of
   LStart, so the "timeout never early" theorems of AioProofs are about the deadline computed
   here.

   Durations are Z: 0 = NNG_DURATION_ZERO, -1 = NNG_DURATION_INFINITE, -2 = NNG_DURATION_DEFAULT,
   d > 0 = d milliseconds.  Times are N (milliseconds of nni_clock); NNI_TIME_NEVER is None.

   Three booleans select the form of the source (regenerated from aio.c on every run,
   tools/gen_consts_d/c02_deadline.py):
     fset  : nni_aio_set_timeout clears a_use_expire
     ffin  : nni_aio_finish_impl clears a_use_expire
     fcons : nni_aio_start consumes a_use_expire (clears it once the deadline is fixed) *)
From Coq Require Import ZArith NArith Bool List.
Import ListNotations.
Local Open Scope Z_scope.

Record dl := mkDl { d_timeout : Z; d_expire : option N; d_use : bool }.

(* nni_aio_init: a_expire = NNI_TIME_NEVER, a_timeout = NNG_DURATION_INFINITE, a_use_expire = false *)
Definition dl_init : dl := mkDl (-1) None false.

(* the outcome of the deadline computation at the head of nni_aio_start *)
Inductive verdict := VZero | VDeadline (t : option N).

Definition after (now : N) (d : Z) : N := Z.to_N (Z.of_N now + d).

Section Flags.
Variables fset ffin fcons : bool.

Definition dl_set_timeout (c : dl) (d : Z) : dl :=
  mkDl d (d_expire c) (if fset then false else d_use c).

Definition dl_set_expire (c : dl) (t : option N) : dl := mkDl (d_timeout c) t true.

Definition dl_normalize (c : dl) (d : Z) : dl :=
  mkDl (if d_timeout c =? -2 then d else d_timeout c) (d_expire c) (d_use c).

(* nni_aio_start of an operation that is not a sleep *)
Definition dl_start (c : dl) (now : N) : verdict * dl :=
  let use' := if fcons then false else d_use c in
  if negb (d_use c) then
    if d_timeout c =? 0 then (VZero, mkDl (d_timeout c) (d_expire c) use')
    else if d_timeout c <? 0 then (VDeadline None, mkDl (d_timeout c) None use')
    else (VDeadline (Some (after now (d_timeout c))), mkDl (d_timeout c) (Some (after now (d_timeout c))) use')
  else
    match d_expire c with
    | Some t => if (t <=? now)%N then (VZero, mkDl (d_timeout c) (d_expire c) use')
                else (VDeadline (Some t), mkDl (d_timeout c) (d_expire c) use')
    | None => (VDeadline None, mkDl (d_timeout c) (d_expire c) use')
    end.

(* nni_sleep_aio ms: the effective duration and whether waking up is a success *)
Definition sleep_eff (c : dl) (ms : Z) : Z * bool :=
  if (d_timeout c =? -1) || (d_timeout c =? -2) then (ms, true)
  else if (ms =? -1) || (d_timeout c <? ms) then (d_timeout c, false)
  else (ms, true).

Definition dl_sleep (c : dl) (now : N) (ms : Z) : (verdict * bool) * dl :=
  let '(ms', eok) := sleep_eff c ms in
  let e := if ms' =? -1 then None else Some (after now ms') in
  let use' := if fcons then false else d_use c in
  let zero := d_use c && match e with Some t => (t <=? now)%N | None => false end in
  ((if zero then VZero else VDeadline e, eok), mkDl (d_timeout c) e use').

(* the tail of nni_aio_finish_impl *)
Definition dl_finish (c : dl) : dl := mkDl (d_timeout c) None (if ffin then false else d_use c).

Inductive dop :=
| DSetTimeout (d : Z) | DSetExpire (t : option N) | DNormalize (d : Z)
| DStart (now : N) | DSleep (now : N) (ms : Z) | DFinish.

Inductive dout := ONone | OStart (v : verdict) | OSleep (v : verdict) (eok : bool).

Definition dl_step (c : dl) (o : dop) : dl * dout :=
  match o with
  | DSetTimeout d => (dl_set_timeout c d, ONone)
  | DSetExpire t => (dl_set_expire c t, ONone)
  | DNormalize d => (dl_normalize c d, ONone)
  | DStart now => let '(v, c') := dl_start c now in (c', OStart v)
  | DSleep now ms => let '(v, eok, c') := dl_sleep c now ms in (c', OSleep v eok)
  | DFinish => (dl_finish c, ONone)
  end.

Fixpoint dl_run (c : dl) (os : list dop) : list dout :=
  match os with
  | [] => []
  | o :: r => let '(c', x) := dl_step c o in x :: dl_run c' r
  end.

End Flags.

(* ---- the specification: what the documentation of nng_aio_set_timeout / nng_aio_set_expire
   promises.  The relative timeout is a standing setting; an absolute expiry set with
   nng_aio_set_expire applies to the next operation started on the aio, and only if neither a
   new timeout was set nor an operation was started or completed in between. *)
Record sp := mkSp { s_timeout : Z; s_abs : option (option N) }.
Definition sp_init : sp := mkSp (-1) None.

Definition sp_rel (tmo : Z) (now : N) : verdict :=
  if tmo =? 0 then VZero else if tmo <? 0 then VDeadline None else VDeadline (Some (after now tmo)).

Definition sp_verdict (s : sp) (now : N) : verdict :=
  match s_abs s with
  | Some (Some t) => if (t <=? now)%N then VZero else VDeadline (Some t)
  | Some None => VDeadline None
  | None => sp_rel (s_timeout s) now
  end.

Definition sp_sleep (s : sp) (now : N) (ms : Z) : verdict * bool :=
  let '(ms', eok) := sleep_eff (mkDl (s_timeout s) None false) ms in
  let e := if ms' =? -1 then None else Some (after now ms') in
  let zero := match s_abs s with Some _ => match e with Some t => (t <=? now)%N | None => false end | None => false end in
  (if zero then VZero else VDeadline e, eok).

Definition sp_step (s : sp) (o : dop) : sp * dout :=
  match o with
  | DSetTimeout d => (mkSp d None, ONone)
  | DSetExpire t => (mkSp (s_timeout s) (Some t), ONone)
  | DNormalize d => (mkSp (if s_timeout s =? -2 then d else s_timeout s) (s_abs s), ONone)
  | DStart now => (mkSp (s_timeout s) None, OStart (sp_verdict s now))
  | DSleep now ms => let '(v, eok) := sp_sleep s now ms in (mkSp (s_timeout s) None, OSleep v eok)
  | DFinish => (mkSp (s_timeout s) None, ONone)
  end.

Fixpoint sp_run (s : sp) (os : list dop) : list dout :=
  match os with
  | [] => []
  | o :: r => let '(s', x) := sp_step s o in x :: sp_run s' r
  end.

(* the histories on which the pinned forms differ from the specification *)
Definition dl_witness_set : list dop :=          (* set_timeout does not clear: a stale expiry overrides the new timeout *)
  [DSetExpire (Some 100%N); DSetTimeout 1500; DStart 200%N].
Definition dl_witness_fin : list dop :=          (* finish does not clear: the next operation on the aio has no deadline at all *)
  [DSetTimeout 200; DSetExpire (Some 300%N); DStart 150%N; DFinish; DStart 400%N].
Definition dl_witness_cons : list dop :=         (* a refused start leaves the expiry armed: the next operation times out at once *)
  [DSetTimeout 5000; DSetExpire (Some 10%N); DStart 20%N; DStart 30%N].
