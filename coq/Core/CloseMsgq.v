(* CloseMsgq: what Core/CloseModel.v assumes of nni_msgq_close (the step AMsgqClose of sock_shutdown, and its
   repetition in sock_close): "every reader and every writer waiting in the queue is completed with
   NNG_ECLOSED and the queue is left closed and without waiters", proved here of the msgq model of C18
   (Queue/MsgqModel.v, step MClose; tied to src/core/msgqueue.c by C18's correspondence), whatever the
   capacity, the fill and the number of waiters.  Gen/Consts.v C10_MSGQ_CLOSE_ALL says whether the loop in
   src/core/msgqueue.c still has the shape that step models. *)
From Coq Require Import List Arith NArith Bool Lia.
Import ListNotations.
From NngV Require Import Base.Ring Queue.LmqModel Queue.MsgqModel Core.CloseModel.

Lemma drain_keeps wrap : forall fuel q q' outs, drain wrap fuel q = Some (q', outs) ->
  mq_putq q' = mq_putq q /\ mq_getq q' = mq_getq q /\ mq_closed q' = mq_closed q.
Proof.
  induction fuel as [|f IH]; intros q q' outs H; cbn [drain] in H.
  - injection H as <- <-; auto.
  - destruct (mq_len q =? 0); [injection H as <- <-; auto|].
    destruct (ring_get wrap q) as [[m q1]|] eqn:R; [|discriminate H].
    destruct (drain wrap f q1) as [[q2 o2]|] eqn:D; [|discriminate H]. injection H as <- <-.
    apply IH in D as (A & B & C). rewrite A, B, C.
    unfold ring_get in R. destruct (rd (mq_cells q) (mq_get q)); [|discriminate R]. injection R as _ <-. auto.
Qed.

(* the waiters of a queue: aios of blocked readers and of blocked writers *)
Definition waiters (q : msgq) : list N := mq_getq q ++ map fst (mq_putq q).

Lemma fail_all_In rv l a : In a l -> In (Done a rv None) (MsgqModel.fail_all rv l).
Proof. induction l; simpl; [tauto|]. intros [->|H]; auto. Qed.

Theorem msgq_close_completes_waiters fixed q rv q' outs :
  msgq_step fixed q MClose = Some (rv, q', outs) ->
  mq_getq q' = [] /\ mq_putq q' = [] /\ mq_closed q' = true /\
  forall a, In a (waiters q) -> In (Done a ECLOSED None) outs.
Proof.
  cbn [msgq_step]. intros H.
  match type of H with context[drain ?w ?f ?q0] => destruct (drain w f q0) as [[q1 o1]|] eqn:E; [|discriminate H] end.
  injection H as <- <- <-.
  apply drain_keeps in E as (A & B & C). cbn in A, B, C.
  split; [reflexivity|]. split; [reflexivity|]. split; [exact C|].
  intros a Ha. unfold waiters in Ha. apply in_or_app; right. rewrite A, B.
  apply in_app_or in Ha as [Ha|Ha]; apply in_or_app; [left|right]; apply fail_all_In; auto.
Qed.

(* in the vocabulary of the close model: the completions AMsgqClose logs for the pending set *)
Corollary msgq_close_matches_model fixed q rv q' outs :
  msgq_step fixed q MClose = Some (rv, q', outs) ->
  forall ar, In ar (CloseModel.fail_all C_ECLOSED (waiters q)) -> In (Done (fst ar) (snd ar) None) outs.
Proof.
  intros H [a r] Hin. unfold CloseModel.fail_all in Hin. apply in_map_iff in Hin as (a' & Heq & Ha).
  injection Heq as <- <-. simpl. eapply (msgq_close_completes_waiters _ _ _ _ _ H); auto.
Qed.
