(* PipeEvConsts: the literals and decision tables used by the C14 models agree with what
   tools/gen_consts_d/c14_pipeev.py reads from the current source (Gen/Consts.v). *)
From Coq Require Import List Arith NArith ZArith Bool String Lia.
From NngV Require Import Gen.Consts Core.PipeEvModel Core.DialerModel Core.ListenerModel.
Import ListNotations.
Local Open Scope N_scope.

Fixpoint tab_lookup (t : list (N * N)) (dflt rv : N) : N :=
  match t with
  | [] => dflt
  | (k, a) :: r => if N.eqb rv k then a else tab_lookup r dflt rv
  end.

Definition lact_num (a : lact) : N :=
  match a with LaStartRearm => 0 | LaRearm => 1 | LaCooldown => 2 | LaStop => 3 end.
Definition dclass_num (c : dclass) : N :=
  match c with DcStart => 0 | DcNothing => 1 | DcRetry => 2 end.

Ltac by_codes rv :=
  repeat match goal with
  | |- context [N.eqb rv ?k] => destruct (N.eqb_spec rv k); [subst; reflexivity|]
  end; reflexivity.

(* listener_accept_cb's switch, as parsed from listener.c, is the model's decision function -- for every code *)
Lemma listener_table_matches : forall rv,
  lact_num (listener_accept_decision rv) = tab_lookup C14_LISTENER_CASES C14_LISTENER_DEFAULT rv.
Proof.
  intros rv. unfold listener_accept_decision, C14_LISTENER_CASES, C14_LISTENER_DEFAULT, tab_lookup,
    L_OK, L_ECONNABORTED, L_ECONNRESET, L_ETIMEDOUT, L_EPEERAUTH, L_ESTOPPED, L_ECLOSED, L_ECANCELED.
  by_codes rv.
Qed.

(* dialer_connect_cb's switch *)
Lemma dialer_table_matches : forall rv,
  dclass_num (dialer_connect_class rv) = tab_lookup C14_DIALER_CASES C14_DIALER_DEFAULT rv.
Proof.
  intros rv. unfold dialer_connect_class, C14_DIALER_CASES, C14_DIALER_DEFAULT, tab_lookup,
    D_OK, D_ECLOSED, D_ECANCELED, D_ESTOPPED.
  by_codes rv.
Qed.

Lemma c14_literals :
  EV_NONE = C14_PIPE_EV_NONE /\ EV_ADD_PRE = C14_PIPE_EV_ADD_PRE /\ EV_ADD_POST = C14_PIPE_EV_ADD_POST /\
  EV_REM_POST = C14_PIPE_EV_REM_POST /\ EV_NUM = C14_PIPE_EV_NUM /\
  D_ECLOSED = C14_ECLOSED /\ D_ECANCELED = C14_ECANCELED /\ D_ESTOPPED = C14_ESTOPPED /\ D_EBUSY = C14_EBUSY /\
  L_ECLOSED = C14_ECLOSED /\ L_ECANCELED = C14_ECANCELED /\ L_ESTOPPED = C14_ESTOPPED /\
  L_ECONNABORTED = C14_ECONNABORTED /\ L_ECONNRESET = C14_ECONNRESET /\ L_ETIMEDOUT = C14_ETIMEDOUT /\
  L_EPEERAUTH = C14_EPEERAUTH /\ L_ECONNSHUT = C14_ECONNSHUT /\ L_EBUSY = C14_EBUSY /\
  L_COOLDOWN_MS = C14_LISTENER_COOLDOWN_MS.
Proof. repeat split; reflexivity. Qed.

(* the shapes the models rely on are the shapes the source has *)
Lemma c14_shapes :
  C14_RUNCB_SHAPE_OK = true /\ C14_START_PIPE_ORDER_OK = true /\ C14_REAP_ORDER_OK = true /\
  C14_SHUTDOWN_ORDER_OK = true /\ C14_REMOVE_KICKS = true /\ C14_DIALER_RETRY_SHAPE = true /\
  C14_LISTENER_TIMER_REARMS = true /\ C14_ECONNABORTED_CLOSE_ONLY = true /\
  forallb snd C14_NEGO_MAPS_ECLOSED = true.
Proof. repeat split; reflexivity. Qed.

(* every code of the generated enum other than the four stop codes re-arms the accept (at once or after the cool-down) *)
Lemma enum_sweep :
  forallb (fun kv => negb (N.eqb (lact_num (listener_accept_decision (snd kv))) 3) || stop_code (snd kv)) C14_ERR_ENUM = true /\
  map snd (filter (fun kv => stop_code (snd kv)) C14_ERR_ENUM) = [C14_ECLOSED; C14_ECONNABORTED; C14_ECANCELED; C14_ESTOPPED].
Proof. split; vm_compute; reflexivity. Qed.

(* ---- the transports' literal failure codes (tools/gen_consts_d/c14_tranfail.py) ----
   every code a transport gives to the core's connect / accept aio OUTSIDE the context of the endpoint's own
   close makes the dialer redial (class DcRetry) and the listener re-arm (not a stop code) *)
Definition tran_site_ok (e : string * string * N * bool) : bool :=
  let '(_, _, code, own_close) := e in
  own_close || (N.eqb (dclass_num (dialer_connect_class code)) 2 && negb (stop_code code)).

Lemma tran_fail_sites_ok : forallb tran_site_ok C14_TRAN_FAIL_SITES = true.
Proof. vm_compute. reflexivity. Qed.

Lemma tran_fail_sites_counted : List.length C14_TRAN_FAIL_SITES = C14_TRAN_FAIL_SITE_COUNT /\ (40 <= C14_TRAN_FAIL_SITE_COUNT)%nat.
Proof. split; [reflexivity|]. unfold C14_TRAN_FAIL_SITE_COUNT. repeat constructor. Qed.
