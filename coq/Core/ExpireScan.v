(* ExpireScan: the scan of nni_aio_expire_loop (src/core/aio.c) over the expire queue's list:
   every entry whose deadline has passed is moved to the batch while the batch has room
   (NNI_EXPIRE_BATCH entries); every other entry - including a due one that no longer fits -
   lowers eq_next.  The loop sleeps only while now < eq_next, so a due entry left on the list
   makes it scan again at once.  Model: the list holds (aio id, a_expire); eq_next = None is
   NNI_TIME_NEVER.  Definitions, then the theorem that no due entry is ever forgotten. *)
From Coq Require Import List Arith NArith Bool Lia.
Import ListNotations.

Definition qent := (N * N)%type.            (* aio, deadline *)
Definition NNI_EXPIRE_BATCH_MODEL : nat := 100.   (* core/defs.h, tied to the source by Properties_C02.expire_batch_matches_source *)

Definition lower (next : option N) (e : N) : option N :=
  match next with None => Some e | Some n => if (e <? n)%N then Some e else Some n end.

(* one scan: (batch in order, entries left on the list in order, eq_next) *)
Fixpoint scan (now : N) (room : nat) (l : list qent) (next : option N) : list qent * list qent * option N :=
  match l with
  | [] => ([], [], next)
  | (a, e) :: r =>
      if (e <? now)%N && negb (Nat.eqb room 0) then
        let '(b, rest, nx) := scan now (pred room) r next in ((a, e) :: b, rest, nx)
      else
        let '(b, rest, nx) := scan now room r (lower next e) in (b, (a, e) :: rest, nx)
  end.

(* the loop: scan; when the batch is empty and now < eq_next it sleeps (the round sequence ends) *)
Definition sleeps (now : N) (next : option N) : bool := match next with None => true | Some n => (now <? n)%N end.

Fixpoint rounds (fuel : nat) (now : N) (batch : nat) (l : list qent) : list (list qent) * list qent :=
  match fuel with
  | O => ([], l)
  | S f =>
      let '(b, rest, nx) := scan now batch l None in
      match b with
      | [] => ([], rest)                      (* nothing due: the thread waits for eq_next *)
      | _ => if sleeps now nx then ([b], rest)
             else let (bs, fin) := rounds f now batch rest in (b :: bs, fin)
      end
  end.

Definition due (now : N) (x : qent) : bool := (snd x <? now)%N.

(* ---- proofs ---- *)
Lemma lower_le next e : match lower next e with Some n => (n <= e)%N | None => False end.
Proof. unfold lower. destruct next as [n|]; [|lia]. destruct (N.ltb_spec e n); lia. Qed.
Lemma lower_mono next e : forall n, next = Some n -> match lower next e with Some m => (m <= n)%N | None => False end.
Proof. intros n ->. cbn. destruct (N.ltb_spec e n); lia. Qed.

(* eq_next after a scan is not above the incoming value nor above any entry left on the list *)
Lemma scan_next now : forall l room next b rest nx, scan now room l next = (b, rest, nx) ->
  (forall n, next = Some n -> exists m, nx = Some m /\ (m <= n)%N) /\
  (forall x, In x rest -> exists m, nx = Some m /\ (m <= snd x)%N).
Proof.
  induction l as [|[a e] r IH]; intros room next b rest nx H; cbn [scan] in H.
  - inversion H; subst. split; [intros n ->; exists n; split; [reflexivity|lia]|intros x []].
  - destruct ((e <? now)%N && negb (Nat.eqb room 0)).
    + destruct (scan now (pred room) r next) as [[b1 rest1] nx1] eqn:E. inversion H; subst.
      exact (IH _ _ _ _ _ E).
    + destruct (scan now room r (lower next e)) as [[b1 rest1] nx1] eqn:E. inversion H; subst.
      destruct (IH _ _ _ _ _ E) as [A B]. split.
      * intros n Hn. pose proof (lower_mono next e n Hn) as L. destruct (lower next e) as [m|] eqn:EL; [|contradiction].
        destruct (A m eq_refl) as (m' & -> & Hm'). exists m'. split; [reflexivity|lia].
      * intros x [<-|Hin]; [|exact (B x Hin)]. cbn [snd].
        pose proof (lower_le next e) as L. destruct (lower next e) as [m|] eqn:EL; [|contradiction].
        destruct (A m eq_refl) as (m' & -> & Hm'). exists m'. split; [reflexivity|lia].
Qed.

(* the scan partitions the list, takes only due entries, and takes every due entry while there is room *)
Lemma scan_partition now : forall l room next b rest nx, scan now room l next = (b, rest, nx) ->
  (forall x, In x l <-> In x b \/ In x rest) /\ (forall x, In x b -> due now x = true) /\
  length b <= room /\ length b + length rest = length l /\
  (length b < room -> forall x, In x rest -> due now x = false).
Proof.
  induction l as [|[a e] r IH]; intros room next b rest nx H; cbn [scan] in H.
  - inversion H; subst. cbn. repeat split; try tauto; try lia; intros x []; tauto.
  - destruct (e <? now)%N eqn:D; cbn [andb] in H.
    + destruct (Nat.eqb room 0) eqn:R; cbn [negb] in H.
      * apply Nat.eqb_eq in R. subst room.
        destruct (scan now 0 r (lower next e)) as [[b1 rest1] nx1] eqn:E. inversion H; subst.
        destruct (IH _ _ _ _ _ E) as (P1 & P2 & P3 & P4 & P5). cbn [length In].
        split; [intros x; rewrite P1; tauto|]. split; [exact P2|]. split; [exact P3|]. split; [lia|]. intros; lia.
      * apply Nat.eqb_neq in R.
        destruct (scan now (pred room) r next) as [[b1 rest1] nx1] eqn:E. inversion H; subst.
        destruct (IH _ _ _ _ _ E) as (P1 & P2 & P3 & P4 & P5). cbn [length In].
        split; [intros x; rewrite P1; tauto|]. split.
        { intros x [<-|Hin]; [unfold due; cbn [snd]; exact D|exact (P2 x Hin)]. }
        split; [lia|]. split; [lia|]. intros Hlt x Hin. apply P5; [lia|exact Hin].
    + destruct (scan now room r (lower next e)) as [[b1 rest1] nx1] eqn:E. inversion H; subst.
      destruct (IH _ _ _ _ _ E) as (P1 & P2 & P3 & P4 & P5). cbn [length In].
      split; [intros x; rewrite P1; tauto|]. split; [exact P2|]. split; [exact P3|]. split; [lia|].
      intros Hlt x [<-|Hin]; [unfold due; cbn [snd]; exact D|exact (P5 Hlt x Hin)].
Qed.

(* a due entry left behind keeps the loop awake *)
Theorem scan_due_left_keeps_awake now room l b rest nx :
  scan now room l None = (b, rest, nx) -> forall x, In x rest -> due now x = true -> sleeps now nx = false.
Proof.
  intros H x Hin Hd. destruct (scan_next now l room None b rest nx H) as [_ B].
  destruct (B x Hin) as (m & -> & Hm). unfold due in Hd. apply N.ltb_lt in Hd. cbn [sleeps]. apply N.ltb_ge. lia.
Qed.

Lemma scan_no_due now : forall l room next, (forall x, In x l -> due now x = false) ->
  exists nx, scan now room l next = ([], l, nx).
Proof.
  induction l as [|[a e] r IH]; intros room next H; cbn [scan]; [eexists; reflexivity|].
  assert (D: (e <? now)%N = false) by (apply (H (a, e)); left; reflexivity). rewrite D. cbn [andb].
  destruct (IH room (lower next e)) as (nx & ->); [intros x Hx; apply H; right; exact Hx|]. eexists; reflexivity.
Qed.
Lemma rounds_no_due now batch : forall fuel l, (forall x, In x l -> due now x = false) ->
  rounds fuel now batch l = ([], l).
Proof.
  intros [|f] l H; cbn [rounds]; [reflexivity|]. destruct (scan_no_due now l batch None H) as (nx & ->). reflexivity.
Qed.

(* every due entry is marked within ceil(n / batch) rounds: none is forgotten *)
Theorem rounds_mark_all_due now batch : 0 < batch -> forall fuel l bs fin,
  length l < fuel * batch -> rounds fuel now (batch) l = (bs, fin) ->
  (forall x, In x fin -> due now x = false) /\
  (forall x, In x l <-> In x (concat bs) \/ In x fin) /\
  (forall x, In x (concat bs) -> due now x = true).
Proof.
  intros Hb. induction fuel as [|f IH]; intros l bs fin Hlen H; [cbn in Hlen; lia|].
  cbn [rounds] in H. destruct (scan now batch l None) as [[b rest] nx] eqn:E.
  destruct (scan_partition now l batch None b rest nx E) as (P1 & P2 & P3 & P4 & P5).
  destruct b as [|b0 br] eqn:EB.
  - inversion H; subst. cbn [concat]. split; [apply P5; cbn; lia|]. split; [intros x; rewrite P1; cbn; tauto|intros x []].
  - destruct (sleeps now nx) eqn:SL.
    + inversion H; subst. cbn [concat]. rewrite app_nil_r. split.
      * intros x Hin. destruct (due now x) eqn:D; [|reflexivity].
        rewrite (scan_due_left_keeps_awake now batch l _ _ _ E x Hin D) in SL. discriminate.
      * split; [intros x; apply P1|exact P2].
    + destruct (rounds f now batch rest) as [bs1 fin1] eqn:ER. inversion H; subst.
      destruct (Nat.eq_dec (length (b0 :: br)) batch) as [Hfull|Hnf].
      * assert (Hl: length rest < f * batch) by nia.
        destruct (IH rest bs1 fin Hl ER) as (Q1 & Q2 & Q3). cbn [concat]. split; [exact Q1|]. split.
        -- intros x. rewrite P1, Q2, in_app_iff. tauto.
        -- intros x Hin. apply in_app_or in Hin as [Hin|Hin]; [exact (P2 x Hin)|exact (Q3 x Hin)].
      * (* the batch was not full: nothing due is left, the next scan finds nothing *)
        assert (ND: forall x, In x rest -> due now x = false) by (apply P5; lia).
        rewrite (rounds_no_due now batch f rest ND) in ER. inversion ER; subst. cbn [concat]. rewrite app_nil_r.
        split; [exact ND|]. split; [intros x; apply P1|exact P2].
Qed.

Example rounds_nonvacuous :
  rounds 3 10%N 2 [(1, 3); (2, 50); (3, 4); (4, 5); (5, 9)]%N =
  ([[(1, 3); (3, 4)]; [(4, 5); (5, 9)]]%N, [(2, 50)]%N).
Proof. vm_compute. reflexivity. Qed.
