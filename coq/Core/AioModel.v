(* AioModel: interleaving semantics of one nni_aio (src/core/aio.c, taskq.c).
   One step = one critical section (eq_mtx / task_mtx / the provider's lock); what a
   thread still has to do after unlocking is a *continuation* that any other
   step may overtake -- so the set of runs covers every thread interleaving.
   Other aios interact only through the expire loop, which treats every list
   element independently.  Definitions only.  (DESIGN appendix A.1) *)
From Coq Require Import List Arith NArith Bool.
Import ListNotations.

Definition A_OK : N := 0.  Definition A_TIMEDOUT : N := 5.  Definition A_CANCELED : N := 20.
Definition A_STOPPED : N := 999.   (* NNG_ESTOPPED; value re-checked against Gen/Consts.v *)

(* continuations: what a thread does next, after it released the lock *)
Inductive pact :=
| PDispatch                 (* nni_task_dispatch(&aio->a_task) *)
| PFinish (rv : N)          (* nni_aio_finish*(aio, rv): the provider unlinked the aio and will complete it *)
| PCallCancel (rv : N)      (* the saved cancel function is called with rv *)
| PExpireProc (now : N)     (* expire loop: it gets to this aio of its batch (the lock was dropped in between) *)
| PExpireDone               (* expire loop: aio->a_expiring = false (after its cancel call returned) *)
| PStopWait.                (* nni_aio_stop: nni_aio_wait *)

Record aio := mkAio {
  (* framework fields (guarded by eq_mtx) *)
  a_stop : bool; a_abort : bool; a_expiring : bool; a_expire_ok : bool; a_sleep : bool;
  a_cancel : bool;                 (* a_cancel_fn != NULL *)
  a_on_eq : bool;                  (* linked on the expire list *)
  a_expire : option N;             (* None = NNI_TIME_NEVER *)
  a_result : N;
  (* task (task_mtx / tq_mtx) *)
  t_busy : nat; t_prep : bool; t_queued : nat; t_running : nat;
  (* provider: the aio is on the provider's list (for nni_sleep_aio this is a_sleep itself) *)
  p_owns : bool; p_sleep : bool;   (* p_sleep: the current operation is a sleep *)
  (* ghost *)
  g_subs : nat;                    (* operations submitted *)
  g_cbs : nat;                     (* callbacks started *)
  g_fin : option N;                (* result of the completion that won, for the outstanding operation *)
  g_bad_result : bool;             (* some callback read a result other than the winning one *)
  g_early : bool;                  (* a timeout result was produced before the deadline *)
  g_stop_returned : bool;          (* nni_aio_stop has returned *)
  g_cb_after_stop : bool;          (* a callback of an operation submitted before stop started after stop returned *)
  g_subs_at_stop : nat;
  threads : list (list pact);      (* continuations, one list per thread, executed in order *)
  a_done : bool }.                 (* the operation has completed (until the next one is set up); framework field since fix e9a11c8 *)

Definition aio_init : aio :=
  mkAio false false false false false false false None 0 0 false 0 0 false false 0 0 None false false false false 0 [] false.

Inductive alabel :=
| LStart (zero_timeout : bool) (deadline : option N) (sleep : bool) (expire_ok : bool)
                            (* a provider entry point reaches nni_aio_start (nni_sleep_aio when sleep) *)
| LProvFinish (rv : N)      (* the provider completes the operation: unlinks it under its lock *)
| LAbort (rv : N)           (* nni_aio_abort / nng_aio_cancel *)
| LExpire (now : N)         (* the expire loop's scan finds this aio due and marks it *)
| LStop                     (* nni_aio_stop, up to the unlock *)
| LClose                    (* nni_aio_close *)
| LRun (k : nat)            (* thread k performs its next continuation *)
| LRunCb                    (* a task thread starts the callback *)
| LCbDone                   (* the callback returns *)
| LReset.                   (* nni_aio_reset by the provider before a new operation *)

Definition upd_threads (s : aio) (t : list (list pact)) : aio :=
  mkAio (a_stop s) (a_abort s) (a_expiring s) (a_expire_ok s) (a_sleep s) (a_cancel s) (a_on_eq s) (a_expire s)
        (a_result s) (t_busy s) (t_prep s) (t_queued s) (t_running s) (p_owns s) (p_sleep s) (g_subs s) (g_cbs s)
        (g_fin s) (g_bad_result s) (g_early s) (g_stop_returned s) (g_cb_after_stop s) (g_subs_at_stop s) t (a_done s).

Definition spawn (s : aio) (k : list pact) : aio :=
  match k with [] => s | _ => upd_threads s (threads s ++ [k]) end.

(* nni_task_dispatch *)
Definition do_dispatch (s : aio) : aio :=
  mkAio (a_stop s) (a_abort s) (a_expiring s) (a_expire_ok s) (a_sleep s) (a_cancel s) (a_on_eq s) (a_expire s)
        (a_result s) (if t_prep s then t_busy s else S (t_busy s)) false (S (t_queued s)) (t_running s)
        (p_owns s) (p_sleep s) (g_subs s) (g_cbs s) (g_fin s) (g_bad_result s) (g_early s)
        (g_stop_returned s) (g_cb_after_stop s) (g_subs_at_stop s) (threads s) (a_done s).

(* nni_aio_finish_impl, the eq_mtx section; the dispatch is the thread's next action *)
Definition do_finish (s : aio) (rv : N) : aio :=
  mkAio (a_stop s) (a_abort s) (a_expiring s) (a_expire_ok s) false false false None
        rv (t_busy s) (t_prep s) (t_queued s) (t_running s) (p_owns s) (p_sleep s) (g_subs s) (g_cbs s)
        (match g_fin s with None => Some rv | x => x end) (g_bad_result s) (g_early s)
        (g_stop_returned s) (g_cb_after_stop s) (g_subs_at_stop s) (threads s) true.

(* the provider's cancel function (under the provider's lock; nni_sleep_cancel under eq_mtx) *)
Definition do_call_cancel (s : aio) (rv : N) : aio * list pact :=
  if p_owns s then
    (mkAio (a_stop s) (a_abort s) (a_expiring s) (a_expire_ok s) (if p_sleep s then false else a_sleep s)
           (a_cancel s) (if p_sleep s then false else a_on_eq s) (a_expire s) (a_result s)
           (t_busy s) (t_prep s) (t_queued s) (t_running s) false (p_sleep s) (g_subs s) (g_cbs s) (g_fin s)
           (g_bad_result s) (g_early s) (g_stop_returned s) (g_cb_after_stop s) (g_subs_at_stop s) (threads s) (a_done s),
     [PFinish rv])
  else (s, []).

(* the expire loop processing one aio of its batch.  [fixed]: the repaired loop expires
   only what is still due when its turn comes (a_expire < now); the pinned loop processed
   whatever operation the aio carried by then. *)
Definition do_expire_proc (fixed : bool) (s : aio) (now : N) : aio * list pact :=
  let due := match a_expire s with Some e => N.ltb e now | None => false end in
  if fixed && negb due then
    (mkAio (a_stop s) (a_abort s) false (a_expire_ok s) (a_sleep s) (a_cancel s) (a_on_eq s) (a_expire s)
           (a_result s) (t_busy s) (t_prep s) (t_queued s) (t_running s) (p_owns s) (p_sleep s) (g_subs s) (g_cbs s)
           (g_fin s) (g_bad_result s) (g_early s) (g_stop_returned s) (g_cb_after_stop s) (g_subs_at_stop s) (threads s) (a_done s), [])
  else
    let rv := if a_expire_ok s then A_OK else A_TIMEDOUT in
    (* a timeout delivered to an operation whose deadline has not passed *)
    let early := g_early s || (negb due && N.eqb rv A_TIMEDOUT && (a_sleep s || a_cancel s)) in
    if a_sleep s then
      (mkAio (a_stop s) (a_abort s) false false false false false (a_expire s) rv
             (t_busy s) (t_prep s) (t_queued s) (t_running s) false (p_sleep s) (g_subs s) (g_cbs s)
             (match g_fin s with None => Some rv | x => x end) (g_bad_result s) early
             (g_stop_returned s) (g_cb_after_stop s) (g_subs_at_stop s) (threads s) true, [PDispatch])
    else if a_cancel s then
      (mkAio (a_stop s) (a_abort s) true false (a_sleep s) false false (a_expire s) (a_result s)
             (t_busy s) (t_prep s) (t_queued s) (t_running s) (p_owns s) (p_sleep s) (g_subs s) (g_cbs s)
             (g_fin s) (g_bad_result s) early (g_stop_returned s) (g_cb_after_stop s)
             (g_subs_at_stop s) (threads s) (a_done s), [PCallCancel rv; PExpireDone])
    else
      (mkAio (a_stop s) (a_abort s) false false (a_sleep s) false false (a_expire s) (a_result s)
             (t_busy s) (t_prep s) (t_queued s) (t_running s) (p_owns s) (p_sleep s) (g_subs s) (g_cbs s)
             (g_fin s) (g_bad_result s) early (g_stop_returned s) (g_cb_after_stop s)
             (g_subs_at_stop s) (threads s) (a_done s), []).

Definition run_pact (fixed : bool) (s : aio) (a : pact) : option (aio * list pact) :=
  match a with
  | PDispatch => Some (do_dispatch s, [])
  | PFinish rv => Some (do_finish s rv, [PDispatch])
  | PCallCancel rv => Some (do_call_cancel s rv)
  | PExpireProc now => Some (do_expire_proc fixed s now)
  | PExpireDone =>
      Some (mkAio (a_stop s) (a_abort s) false (a_expire_ok s) (a_sleep s) (a_cancel s) (a_on_eq s) (a_expire s)
                  (a_result s) (t_busy s) (t_prep s) (t_queued s) (t_running s) (p_owns s) (p_sleep s) (g_subs s)
                  (g_cbs s) (g_fin s) (g_bad_result s) (g_early s) (g_stop_returned s) (g_cb_after_stop s)
                  (g_subs_at_stop s) (threads s) (a_done s), [])
  | PStopWait =>
      if t_busy s =? 0 then
        Some (mkAio (a_stop s) (a_abort s) (a_expiring s) (a_expire_ok s) (a_sleep s) (a_cancel s) (a_on_eq s)
                    (a_expire s) (a_result s) (t_busy s) (t_prep s) (t_queued s) (t_running s) (p_owns s) (p_sleep s)
                    (g_subs s) (g_cbs s) (g_fin s) (g_bad_result s) (g_early s) true (g_cb_after_stop s)
                    (g_subs s) (threads s) (a_done s), [])
      else None                  (* nni_task_wait blocks while busy *)
  end.

Fixpoint replace_nth {A} (l : list A) (k : nat) (x : option A) : list A :=
  match l, k with
  | [], _ => []
  | _ :: r, O => match x with Some y => y :: r | None => r end
  | a :: r, S j => a :: replace_nth r j x
  end.

(* is an operation outstanding (with the provider, being completed, or its callback not yet started)?
   The user's side of the contract: an aio carries one operation at a time; it may be
   resubmitted from inside its own callback. *)
Definition outstanding (s : aio) : bool :=
  p_owns s || negb (t_queued s =? 0) || existsb (fun t => existsb (fun a => match a with PFinish _ | PDispatch => true | _ => false end) t) (threads s).

Definition astep (fixed fdone : bool) (s : aio) (l : alabel) : option aio :=
  match l with
  | LStart zero dl sleep eok =>
      (* the caller's contract: one operation at a time *)
      if outstanding s then None else
      let busy := S (t_busy s) in                       (* nni_task_prep *)
      let eok' := if sleep then eok else false in
      let subs := S (g_subs s) in
      if a_stop s then
        Some (spawn (mkAio true (a_abort s) (a_expiring s) false false (a_cancel s) (a_on_eq s) dl A_STOPPED
                           busy true (t_queued s) (t_running s) false sleep subs (g_cbs s) (Some A_STOPPED)
                           (g_bad_result s) (g_early s) (g_stop_returned s) (g_cb_after_stop s) (g_subs_at_stop s)
                           (threads s) true) [PDispatch])
      else if a_abort s then
        Some (spawn (mkAio false false (a_expiring s) false false (a_cancel s) (a_on_eq s) dl (a_result s)
                           busy true (t_queued s) (t_running s) false sleep subs (g_cbs s) (Some (a_result s))
                           (g_bad_result s) (g_early s) (g_stop_returned s) (g_cb_after_stop s) (g_subs_at_stop s)
                           (threads s) true) [PDispatch])
      else if zero then
        let rv := if eok' then A_OK else A_TIMEDOUT in
        Some (spawn (mkAio false false (a_expiring s) false false (a_cancel s) (a_on_eq s) dl rv
                           busy true (t_queued s) (t_running s) false sleep subs (g_cbs s) (Some rv)
                           (g_bad_result s) (g_early s) (g_stop_returned s) (g_cb_after_stop s) (g_subs_at_stop s)
                           (threads s) true) [PDispatch])
      else
        Some (mkAio false false (a_expiring s) eok' sleep true (match dl with Some _ => true | None => false end) dl A_OK
                    busy true (t_queued s) (t_running s) true sleep subs (g_cbs s) None
                    (g_bad_result s) (g_early s) (g_stop_returned s) (g_cb_after_stop s) (g_subs_at_stop s)
                    (threads s) false)
  | LProvFinish rv =>
      if p_owns s && negb (p_sleep s) then
        Some (spawn (mkAio (a_stop s) (a_abort s) (a_expiring s) (a_expire_ok s) (a_sleep s) (a_cancel s) (a_on_eq s)
                           (a_expire s) (a_result s) (t_busy s) (t_prep s) (t_queued s) (t_running s) false (p_sleep s)
                           (g_subs s) (g_cbs s) (g_fin s) (g_bad_result s) (g_early s) (g_stop_returned s)
                           (g_cb_after_stop s) (g_subs_at_stop s) (threads s) (a_done s)) [PFinish rv])
      else None
  | LAbort rv =>
      if N.eqb rv 0 then None else      (* an abort always carries an error code *)
      if a_cancel s then
        Some (spawn (mkAio (a_stop s) (a_abort s) (a_expiring s) (a_expire_ok s) (a_sleep s) false false (a_expire s)
                           (a_result s) (t_busy s) (t_prep s) (t_queued s) (t_running s) (p_owns s) (p_sleep s)
                           (g_subs s) (g_cbs s) (g_fin s) (g_bad_result s) (g_early s) (g_stop_returned s)
                           (g_cb_after_stop s) (g_subs_at_stop s) (threads s) (a_done s)) [PCallCancel rv])
      else if fdone && a_done s then
        (* repaired nni_aio_abort (fix e9a11c8): the operation has completed, nothing left to abort
           (the expire list is touched only by nni_aio_expire_rm, a no-op here) *)
        Some (mkAio (a_stop s) (a_abort s) (a_expiring s) (a_expire_ok s) (a_sleep s) false false (a_expire s)
                    (a_result s) (t_busy s) (t_prep s) (t_queued s) (t_running s) (p_owns s) (p_sleep s)
                    (g_subs s) (g_cbs s) (g_fin s) (g_bad_result s) (g_early s) (g_stop_returned s)
                    (g_cb_after_stop s) (g_subs_at_stop s) (threads s) (a_done s))
      else
        Some (mkAio (a_stop s) true (a_expiring s) (a_expire_ok s) (a_sleep s) false false (a_expire s)
                    rv (t_busy s) (t_prep s) (t_queued s) (t_running s) (p_owns s) (p_sleep s)
                    (g_subs s) (g_cbs s) (g_fin s) (g_bad_result s) (g_early s) (g_stop_returned s)
                    (g_cb_after_stop s) (g_subs_at_stop s) (threads s) (a_done s))
  | LExpire now =>
      (* the scan: the aio is due, is unlinked and marked; it is processed later in the batch *)
      (* (one expire thread per queue scans and then processes its batch: an aio it still
          holds from the previous scan cannot be marked again) *)
      if a_on_eq s && negb (a_expiring s) then
        let due := match a_expire s with Some e => N.ltb e now | None => false end in
        if negb due then None else
        Some (spawn (mkAio (a_stop s) (a_abort s) true (a_expire_ok s) (a_sleep s) (a_cancel s) false (a_expire s)
                           (a_result s) (t_busy s) (t_prep s) (t_queued s) (t_running s) (p_owns s) (p_sleep s)
                           (g_subs s) (g_cbs s) (g_fin s) (g_bad_result s) (g_early s) (g_stop_returned s)
                           (g_cb_after_stop s) (g_subs_at_stop s) (threads s) (a_done s)) [PExpireProc now])
      else None
  | LStop =>
      if a_expiring s then None else     (* waits on eq_cv while the expire loop holds the aio *)
      Some (spawn (mkAio true (a_abort s) false (a_expire_ok s) (a_sleep s) false false (a_expire s) (a_result s)
                         (t_busy s) (t_prep s) (t_queued s) (t_running s) (p_owns s) (p_sleep s) (g_subs s) (g_cbs s)
                         (g_fin s) (g_bad_result s) (g_early s) (g_stop_returned s) (g_cb_after_stop s)
                         (g_subs_at_stop s) (threads s) (a_done s))
                  ((if a_cancel s then [PCallCancel A_STOPPED] else []) ++ [PStopWait]))
  | LClose =>
      Some (spawn (mkAio true (a_abort s) (a_expiring s) (a_expire_ok s) (a_sleep s) false false (a_expire s) (a_result s)
                         (t_busy s) (t_prep s) (t_queued s) (t_running s) (p_owns s) (p_sleep s) (g_subs s) (g_cbs s)
                         (g_fin s) (g_bad_result s) (g_early s) (g_stop_returned s) (g_cb_after_stop s)
                         (g_subs_at_stop s) (threads s) (a_done s))
                  (if a_cancel s then [PCallCancel A_STOPPED] else []))
  | LRun k =>
      match nth_error (threads s) k with
      | Some (a :: rest) =>
          match run_pact fixed s a with
          | Some (s1, more) =>
              let t := more ++ rest in
              Some (upd_threads s1 (replace_nth (threads s1) k (match t with [] => None | _ => Some t end)))
          | None => None
          end
      | _ => None
      end
  | LRunCb =>
      match t_queued s with
      | O => None
      | S q =>
          let bad := g_bad_result s || negb (match g_fin s with Some r => N.eqb r (a_result s) | None => false end) in
          let after := g_cb_after_stop s || (g_stop_returned s && (g_cbs s <? g_subs_at_stop s)) in
          Some (mkAio (a_stop s) (a_abort s) (a_expiring s) (a_expire_ok s) (a_sleep s) (a_cancel s) (a_on_eq s)
                      (a_expire s) (a_result s) (t_busy s) (t_prep s) q (S (t_running s)) (p_owns s) (p_sleep s)
                      (g_subs s) (S (g_cbs s)) None bad (g_early s) (g_stop_returned s) after
                      (g_subs_at_stop s) (threads s) (a_done s))
      end
  | LCbDone =>
      match t_running s with
      | O => None
      | S r =>
          Some (mkAio (a_stop s) (a_abort s) (a_expiring s) (a_expire_ok s) (a_sleep s) (a_cancel s) (a_on_eq s)
                      (a_expire s) (a_result s) (pred (t_busy s)) (t_prep s) (t_queued s) r (p_owns s) (p_sleep s)
                      (g_subs s) (g_cbs s) (g_fin s) (g_bad_result s) (g_early s) (g_stop_returned s)
                      (g_cb_after_stop s) (g_subs_at_stop s) (threads s) (a_done s))
      end
  | LReset =>
      if outstanding s then None else
      Some (mkAio (a_stop s) false (a_expiring s) false false (a_cancel s) (a_on_eq s) (a_expire s) A_OK
                  (t_busy s) (t_prep s) (t_queued s) (t_running s) (p_owns s) (p_sleep s) (g_subs s) (g_cbs s)
                  (g_fin s) (g_bad_result s) (g_early s) (g_stop_returned s) (g_cb_after_stop s)
                  (g_subs_at_stop s) (threads s) false)
  end.

Fixpoint arun (fixed fdone : bool) (s : aio) (ls : list alabel) : option aio :=
  match ls with
  | [] => Some s
  | l :: r => match astep fixed fdone s l with Some s1 => arun fixed fdone s1 r | None => None end
  end.
