(* ProvContract: the PROVIDER CONTRACT of the aio framework (src/core/aio.c) as an
   executable monitor over the event history of ONE nng_aio.

   The theorems of Core/AioProofs.v are about AioModel, in which the provider is
   well-behaved by construction ([LProvFinish] is enabled only while [p_owns]).
   What a real provider (a protocol's send/recv, a stream dialer, the device, ...)
   must do for those theorems to be about it is stated here, on what can be
   OBSERVED of one user aio: the submissions and callbacks (seen by the caller) and
   the framework's records for that aio (nni_aio_start accepted / refused, a
   completion through nni_aio_finish* or the sleep expiry, a_stop latched).

     pc_step m e = None   <=>   event e breaches the contract in monitor state m:
       - a completion for an operation that was already completed (second finish,
         finish after a refused nni_aio_start, finish with nothing submitted),
       - a second nni_aio_start for one submission, a start accepted on a stopped aio,
       - a callback without a completion, a second callback, a callback that reads a
         result other than that of the one completion,
       - nng_aio_stop returning while an operation is outstanding or a callback runs,
       - (the caller's side) a submission while the previous operation is outstanding.

   This file: definitions and the theorems about the monitor alone (what every
   accepted history satisfies, by induction over the history - no bound).  The link
   to AioModel (every run of the model projects to an accepted history, so the
   monitor is the model's interface and not a second specification) is in
   Core/ProvContractLink.v.  The monitor is extracted (coq/extract.d/c02-provc.txt)
   and run by ocaml/drv_provc.ml on the histories harness/wb_opkinds.c observes. *)
From Coq Require Import List Arith NArith Bool Lia.
Import ListNotations.

Inductive pcevent :=
| ESubmit                    (* the caller hands the aio to an operation (nng_socket_recv(s, aio), ...) *)
| EStartOk                   (* nni_aio_start returned true: the provider owns the operation *)
| EStartRefused (rv : N)     (* nni_aio_start returned false: the framework itself completes it with rv *)
| EFinish (rv : N)           (* nni_aio_finish* (or the expiry of a sleep): the provider's completion *)
| ECallback (rv : N)         (* the caller's callback starts (or its skip flag is set) and reads rv *)
| ECbDone                    (* the callback returns *)
| EFwStop                    (* critical section of nni_aio_stop / nni_aio_close / nni_aio_fini: a_stop latched *)
| EStopReturned              (* nng_aio_stop has returned to the caller *)
| EUser (code : N).          (* a disruption by the caller noted in the history (abort code, close of the object):
                                no contract content, never refused *)

Inductive pcphase :=
| PIdle                      (* no operation outstanding *)
| PSubmitted                 (* submitted; the provider has neither started nor completed it yet *)
| POwned                     (* accepted by nni_aio_start: exactly one completion is owed *)
| PCompleted (rv : N).       (* completed once with rv: exactly one callback reading rv is owed *)

Record pcstate := mkPc { pc_phase : pcphase; pc_stopped : bool; pc_running : nat }.

Definition pc_init : pcstate := mkPc PIdle false 0.

Definition pc_step (m : pcstate) (e : pcevent) : option pcstate :=
  match e with
  | ESubmit =>
      match pc_phase m with
      | PIdle => Some (mkPc PSubmitted (pc_stopped m) (pc_running m))
      | _ => None                                  (* one operation at a time (the caller's obligation) *)
      end
  | EStartOk =>
      match pc_phase m with
      | PSubmitted => if pc_stopped m then None    (* an operation accepted on a stopped aio *)
                      else Some (mkPc POwned false (pc_running m))
      | _ => None                                  (* start without submission / second start / start after completion *)
      end
  | EStartRefused rv =>
      match pc_phase m with
      | PSubmitted => Some (mkPc (PCompleted rv) (pc_stopped m) (pc_running m))
      | _ => None
      end
  | EFinish rv =>
      match pc_phase m with
      | PSubmitted | POwned => Some (mkPc (PCompleted rv) (pc_stopped m) (pc_running m))
      | PIdle => None                              (* completion of nothing *)
      | PCompleted _ => None                       (* second completion / completion after a refused start *)
      end
  | ECallback rv =>
      match pc_phase m with
      | PCompleted r => if N.eqb r rv then Some (mkPc PIdle (pc_stopped m) (S (pc_running m)))
                        else None                  (* the callback reads another result than the completion's *)
      | _ => None                                  (* callback without completion / second callback *)
      end
  | ECbDone =>
      match pc_running m with
      | S r => Some (mkPc (pc_phase m) (pc_stopped m) r)
      | O => None
      end
  | EFwStop => Some (mkPc (pc_phase m) true (pc_running m))
  | EStopReturned =>
      match pc_phase m, pc_running m with
      | PIdle, O => Some m
      | _, _ => None                               (* stop returned with an operation outstanding or a callback running *)
      end
  | EUser _ => Some m
  end.

Fixpoint pc_run (m : pcstate) (evs : list pcevent) : option pcstate :=
  match evs with
  | [] => Some m
  | e :: r => match pc_step m e with Some m1 => pc_run m1 r | None => None end
  end.

(* index of the first refused event, for the report of a breach *)
Fixpoint pc_first_breach (m : pcstate) (evs : list pcevent) (k : nat) : option (nat * pcstate) :=
  match evs with
  | [] => None
  | e :: r => match pc_step m e with Some m1 => pc_first_breach m1 r (S k) | None => Some (k, m) end
  end.

(* ---- what a history says ---- *)
Fixpoint omap {A B} (f : A -> option B) (l : list A) : list B :=
  match l with
  | [] => []
  | x :: r => match f x with Some y => y :: omap f r | None => omap f r end
  end.

Definition completion_of (e : pcevent) : option N :=
  match e with EFinish rv | EStartRefused rv => Some rv | _ => None end.
Definition callback_of (e : pcevent) : option N := match e with ECallback rv => Some rv | _ => None end.
Definition submit_of (e : pcevent) : option unit := match e with ESubmit => Some tt | _ => None end.
Definition cbdone_of (e : pcevent) : option unit := match e with ECbDone => Some tt | _ => None end.

Definition completions (evs : list pcevent) : list N := omap completion_of evs.  (* results, in order *)
Definition callbacks (evs : list pcevent) : list N := omap callback_of evs.       (* results read, in order *)
Definition submits (evs : list pcevent) : nat := length (omap submit_of evs).
Definition cbdones (evs : list pcevent) : nat := length (omap cbdone_of evs).

Definition owed_completion (p : pcphase) : nat := match p with PSubmitted | POwned => 1 | _ => 0 end.
Definition owed_callback (p : pcphase) : list N := match p with PCompleted rv => [rv] | _ => [] end.

Lemma omap_app {A B} (f : A -> option B) a b : omap f (a ++ b) = omap f a ++ omap f b.
Proof. induction a as [|x r IH]; cbn; [reflexivity|]. destruct (f x); cbn; rewrite IH; reflexivity. Qed.

Lemma pc_run_app m a b : pc_run m (a ++ b) = match pc_run m a with Some m1 => pc_run m1 b | None => None end.
Proof. revert m. induction a as [|e r IH]; intros m; cbn; [reflexivity|]. destruct (pc_step m e); [apply IH|reflexivity]. Qed.

(* accepted histories are prefix closed: the statements below hold at every moment of a history *)
Theorem pc_prefix_closed m a b m' : pc_run m (a ++ b) = Some m' -> exists m1, pc_run m a = Some m1.
Proof. rewrite pc_run_app. destruct (pc_run m a) as [m1|]; [eauto|discriminate]. Qed.

(* the accounting carried by the monitor state, relative to the history consumed so far *)
Definition Acc (evs : list pcevent) (m : pcstate) : Prop :=
  completions evs = callbacks evs ++ owed_callback (pc_phase m) /\
  submits evs = length (completions evs) + owed_completion (pc_phase m) /\
  length (callbacks evs) = cbdones evs + pc_running m.

Lemma acc_init : Acc [] pc_init.
Proof. repeat split. Qed.

Lemma app_single_length {A} (l : list A) x : length (l ++ [x]) = S (length l).
Proof. rewrite app_length. cbn. lia. Qed.

Ltac acc_fin :=
  cbn [pc_phase pc_running owed_callback owed_completion] in *; rewrite ?app_nil_r in *;
  rewrite ?app_single_length; repeat split; auto; try lia; try congruence.

Lemma acc_step evs m e m' : Acc evs m -> pc_step m e = Some m' -> Acc (evs ++ [e]) m'.
Proof.
  unfold Acc, completions, callbacks, submits, cbdones. intros (A1 & A2 & A3) H.
  rewrite !omap_app. destruct m as [ph st rn]. cbn [pc_phase pc_running pc_stopped] in *.
  destruct e; cbn [pc_step pc_phase pc_running pc_stopped] in H;
    cbn [omap completion_of callback_of submit_of cbdone_of app].
  - (* ESubmit *) destruct ph; inversion H; subst; clear H; acc_fin.
  - (* EStartOk *) destruct ph; try discriminate. destruct st; inversion H; subst; clear H; acc_fin.
  - (* EStartRefused *) destruct ph; inversion H; subst; clear H; acc_fin.
  - (* EFinish *) destruct ph; inversion H; subst; clear H; acc_fin.
  - (* ECallback *) destruct ph as [| | |r]; try discriminate. destruct (N.eqb r rv) eqn:E; [|discriminate].
    apply N.eqb_eq in E. subst r. inversion H; subst; clear H. acc_fin.
  - (* ECbDone *) destruct rn as [|r]; inversion H; subst; clear H. acc_fin.
  - (* EFwStop *) inversion H; subst; clear H. acc_fin.
  - (* EStopReturned *) destruct ph; try discriminate. destruct rn; inversion H; subst; clear H. acc_fin.
  - (* EUser *) inversion H; subst; clear H. acc_fin.
Qed.

Lemma acc_run evs : forall pre m m', Acc pre m -> pc_run m evs = Some m' -> Acc (pre ++ evs) m'.
Proof.
  induction evs as [|e r IH]; intros pre m m' A H; cbn [pc_run] in H.
  - inversion H; subst. rewrite app_nil_r. exact A.
  - destruct (pc_step m e) as [m1|] eqn:S; [|discriminate].
    replace (pre ++ e :: r) with ((pre ++ [e]) ++ r) by (rewrite <- app_assoc; reflexivity).
    eapply IH; [eapply acc_step; eauto|exact H].
Qed.

(* EXACTLY ONCE, for every accepted history of any length: the results of the completions, in
   order, are the results read by the callbacks, in order, plus the one completion whose
   callback is still owed; every submission has exactly one completion except the one
   operation still with the provider; callbacks started = callbacks returned + running. *)
Theorem pc_accepted_exactly_once evs m : pc_run pc_init evs = Some m ->
  completions evs = callbacks evs ++ owed_callback (pc_phase m) /\
  submits evs = length (completions evs) + owed_completion (pc_phase m) /\
  length (callbacks evs) = cbdones evs + pc_running m.
Proof. intros H. exact (acc_run evs [] pc_init m acc_init H). Qed.

(* ... hence once everything submitted has terminated: as many callbacks as submissions, the
   k-th callback read the result of the k-th completion, and there were no other completions *)
Corollary pc_terminated_exactly_once evs m : pc_run pc_init evs = Some m -> pc_phase m = PIdle ->
  submits evs = length (callbacks evs) /\ completions evs = callbacks evs.
Proof.
  intros H I. destruct (pc_accepted_exactly_once evs m H) as (A1 & A2 & _). rewrite I in *. cbn in *.
  rewrite app_nil_r in A1. rewrite A1 in A2. split; [lia|exact A1].
Qed.

(* at no moment of an accepted history are there more callbacks than completions, or more
   completions than submissions (prefix closure + the accounting) *)
Corollary pc_never_more a b m : pc_run pc_init (a ++ b) = Some m ->
  length (callbacks a) <= length (completions a) <= submits a.
Proof.
  intros H. destruct (pc_prefix_closed _ _ _ _ H) as [m1 H1].
  destruct (pc_accepted_exactly_once a m1 H1) as (A1 & A2 & _). rewrite A1 at 1. rewrite A1 in A2. rewrite A1.
  rewrite app_length in *. lia.
Qed.

(* a_stop is latched: after the framework's stop section no operation is accepted any more *)
Lemma pc_stopped_latched evs : forall m m', pc_stopped m = true -> pc_run m evs = Some m' ->
  pc_stopped m' = true /\ ~ In EStartOk evs.
Proof.
  induction evs as [|e r IH]; intros m m' S H; cbn [pc_run] in H.
  - inversion H; subst. split; [exact S|intros []].
  - destruct (pc_step m e) as [m1|] eqn:E; [|discriminate].
    assert (S1: pc_stopped m1 = true /\ e <> EStartOk).
    { destruct m as [ph st rn]. cbn [pc_stopped] in S. subst st.
      destruct e; cbn [pc_step pc_phase pc_stopped pc_running] in E; try (destruct ph; try discriminate);
        try (destruct rn; try discriminate); try (destruct (N.eqb _ _); try discriminate);
        inversion E; subst; cbn; split; auto; discriminate. }
    destruct S1 as [S1 NE]. destruct (IH m1 m' S1 H) as [S2 NI]. split; [exact S2|].
    intros [X|X]; [exact (NE X)|exact (NI X)].
Qed.

Theorem pc_no_start_after_stop a b m : pc_run pc_init (a ++ EFwStop :: b) = Some m -> ~ In EStartOk b.
Proof.
  rewrite pc_run_app. destruct (pc_run pc_init a) as [m1|]; [|discriminate]. cbn [pc_run pc_step]. intros H.
  eapply (pc_stopped_latched b); [|exact H]. reflexivity.
Qed.

(* when nng_aio_stop returns: every submission so far has had its callback, and every
   callback that started has returned - none is running, none is owed *)
Theorem pc_stop_returned_quiescent a b m : pc_run pc_init (a ++ EStopReturned :: b) = Some m ->
  submits a = length (callbacks a) /\ completions a = callbacks a /\ length (callbacks a) = cbdones a.
Proof.
  rewrite pc_run_app. destruct (pc_run pc_init a) as [m1|] eqn:H1; [|discriminate]. cbn [pc_run pc_step]. intros H.
  destruct (pc_accepted_exactly_once a m1 H1) as (A1 & A2 & A3).
  destruct (pc_phase m1) eqn:P; try discriminate. destruct (pc_running m1) eqn:R; [|discriminate].
  cbn in *. rewrite app_nil_r in A1. rewrite A1 in A2. repeat split; try lia. exact A1.
Qed.

(* the breaches named in the contract are refused (non-vacuity of the monitor): *)
Example pc_refuses_second_finish : pc_run pc_init [ESubmit; EStartOk; EFinish 0; EFinish 0] = None.
Proof. reflexivity. Qed.
Example pc_refuses_finish_after_refused_start :    (* seeded change C02/4: nng_dialer_start_aio on a stopped aio *)
  pc_run pc_init [EFwStop; EStopReturned; ESubmit; EStartRefused 999; EFinish 999] = None.
Proof. reflexivity. Qed.
Example pc_refuses_second_callback : pc_run pc_init [ESubmit; EStartOk; EFinish 0; ECallback 0; ECallback 0] = None.
Proof. reflexivity. Qed.
Example pc_refuses_foreign_result : pc_run pc_init [ESubmit; EStartOk; EFinish 0; EUser 20; ECallback 20] = None.
Proof. reflexivity. Qed.
Example pc_refuses_stop_return_while_owned : pc_run pc_init [ESubmit; EStartOk; EFwStop; EStopReturned] = None.
Proof. reflexivity. Qed.
Example pc_accepts_resubmission_from_callback :
  exists m, pc_run pc_init [ESubmit; EStartOk; EFinish 0; ECallback 0; ESubmit; EStartRefused 5; ECbDone; ECallback 5; ECbDone] = Some m
            /\ pc_phase m = PIdle.
Proof. eexists. split; reflexivity. Qed.
