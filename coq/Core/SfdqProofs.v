(* SfdqProofs: lemmas about Core/SfdqModel.v (statements repeated in Props/Properties_C14.v). *)
From Coq Require Import List Arith NArith Bool Lia.
From NngV Require Import Core.SfdqModel.
Import ListNotations.

(* ------------------------------------------------------------------ lists *)
Lemma set_nth_length : forall A (l : list A) i v, length (set_nth l i v) = length l.
Proof. induction l as [|x r IH]; intros [|i] v; simpl; auto. Qed.

Lemma nth_error_set_nth : forall A (l : list A) i v j,
  nth_error (set_nth l i v) j =
  if Nat.eqb j i then (if Nat.ltb i (length l) then Some v else None) else nth_error l j.
Proof.
  induction l as [|x r IH]; intros i v j.
  - simpl. destruct j; destruct (Nat.eqb _ i); reflexivity.
  - destruct i as [|i]; destruct j as [|j]; try reflexivity.
    simpl. rewrite IH. reflexivity.
Qed.

Lemma nth_error_firstn' : forall A (l : list A) n j,
  nth_error (firstn n l) j = if Nat.ltb j n then nth_error l j else None.
Proof.
  induction l as [|x r IH]; intros n j.
  - rewrite firstn_nil. destruct j; destruct (Nat.ltb _ n); reflexivity.
  - destruct n as [|n]; [destruct j; reflexivity|]. destruct j as [|j]; [reflexivity|].
    simpl. rewrite IH. reflexivity.
Qed.

Lemma list_ext : forall A (a b : list A), (forall j, nth_error a j = nth_error b j) -> a = b.
Proof.
  induction a as [|x r IH]; intros [|y s] H; auto.
  - specialize (H 0). discriminate.
  - specialize (H 0). discriminate.
  - pose proof (H 0) as H0. simpl in H0. inversion H0; subst. f_equal. apply IH. intros j. apply (H (S j)).
Qed.

Lemma nth_error_tl : forall A (l : list A) j, nth_error (tl l) j = nth_error l (S j).
Proof. destruct l; intros; simpl; auto. destruct j; reflexivity. Qed.

Lemma firstn_set_nth_snoc : forall (q : list N) n v, n < length q -> firstn (S n) (set_nth q n v) = firstn n q ++ [v].
Proof.
  induction q as [|x r IH]; intros n v H; simpl in H; [lia|].
  destruct n as [|n]; simpl; [reflexivity|]. f_equal. apply IH. lia.
Qed.

(* ------------------------------------------------------------------ the repaired shift *)
Lemma shift_loop_fixed : forall n q i, 1 <= i -> i + n <= length q ->
  exists q', shift_loop true q i n = Some q' /\ length q' = length q /\
    forall j, nth_error q' j =
      if Nat.leb (i - 1) j && Nat.ltb j (i - 1 + n) then nth_error q (S j) else nth_error q j.
Proof.
  induction n as [|n IH]; intros q i Hi Hl.
  - exists q. split; [reflexivity|]. split; auto. intros j.
    destruct (Nat.leb_spec (i - 1) j); destruct (Nat.ltb_spec j (i - 1 + 0)); simpl; auto; lia.
  - simpl. destruct (nth_error q i) as [v|] eqn:E.
    2: { apply nth_error_None in E. lia. }
    destruct (IH (set_nth q (pred i) v) (S i)) as (q' & R & L & P).
    + lia.
    + rewrite set_nth_length. lia.
    + exists q'. split; [exact R|]. rewrite set_nth_length in L. split; [exact L|].
      intros j. rewrite P. rewrite !nth_error_set_nth.
      destruct (Nat.leb_spec (S i - 1) j); destruct (Nat.ltb_spec j (S i - 1 + n));
        destruct (Nat.leb_spec (i - 1) j); destruct (Nat.ltb_spec j (i - 1 + S n)); cbn [andb]; try lia.
      all: repeat match goal with
           | |- context [Nat.eqb ?a ?b] => destruct (Nat.eqb_spec a b)
           | |- context [Nat.ltb ?a ?b] => destruct (Nat.ltb_spec a b)
           end; try lia; try reflexivity.
      all: try (assert (X : S j = i) by lia; change (Some v = nth_error q (S j)); rewrite X; symmetry; exact E).
Qed.

Definition SfInv (cap : nat) (s : sfdl) : Prop :=
  length (sf_q s) = cap /\ sf_cnt s <= cap /\ sf_poison s = false.

Lemma start_conn_fixed : forall cap s a ok,
  SfInv cap s -> 0 < sf_cnt s ->
  exists x rest s',
    firstn (sf_cnt s) (sf_q s) = x :: rest /\
    start_conn true s a ok = (s', hand_out a x ok) /\
    SfInv cap s' /\ firstn (sf_cnt s') (sf_q s') = rest /\ sf_cnt s' = sf_cnt s - 1 /\
    sf_wait s' = sf_wait s /\ sf_closed s' = sf_closed s.
Proof.
  intros cap s a ok (L & C & P) Hc. unfold start_conn.
  destruct (sf_q s) as [|x r] eqn:Q; [simpl in L; lia|].
  simpl nth_error. unfold shift.
  destruct (shift_loop_fixed (sf_cnt s - 1) (x :: r) 1) as (q' & R & L' & N'); [lia|simpl in *; lia|].
  rewrite R. exists x, (tl (firstn (sf_cnt s) (x :: r))), (mkSfdl q' (sf_cnt s - 1) (sf_wait s) (sf_closed s) (sf_poison s)).
  split.
  { destruct (sf_cnt s); [lia|]. reflexivity. }
  split; [unfold hand_out; destruct ok; reflexivity|].
  split; [unfold SfInv; simpl; repeat split; try lia; auto|].
  split; [|simpl; auto].
  simpl. apply list_ext. intros j. rewrite nth_error_firstn', nth_error_tl, nth_error_firstn', N'.
  destruct (Nat.ltb_spec j (sf_cnt s - 1)); destruct (Nat.ltb_spec (S j) (sf_cnt s)); try lia; auto.
  destruct (Nat.leb_spec (1 - 1) j); destruct (Nat.ltb_spec j (1 - 1 + (sf_cnt s - 1))); simpl; try lia. reflexivity.
Qed.

(* ------------------------------------------------------------------ refinement (both repairs present) *)
Lemma sf_step_refines : forall cap s o s' outs,
  SfInv cap s -> sf_step true true cap s o = (s', outs) ->
  SfInv cap s' /\ sp_step cap (sf_abs s) o = (sf_abs s', outs).
Proof.
  intros cap s o s' outs I H. pose proof I as (L & C & P). unfold sf_step in H. rewrite P in H.
  destruct o as [fd ok|a ok|a rv|]; unfold sp_step, sf_abs; simpl.
  - (* set_fd *)
    destruct (sf_closed s) eqn:CL; [inversion H; subst; rewrite CL; auto|].
    assert (LF : length (firstn (sf_cnt s) (sf_q s)) = sf_cnt s) by (rewrite firstn_length; lia).
    rewrite LF.
    destruct (Nat.eqb_spec (sf_cnt s) cap) as [E|NE]; [inversion H; subst; rewrite CL; auto|].
    assert (Hlt : sf_cnt s < length (sf_q s)) by lia.
    pose proof (firstn_set_nth_snoc (sf_q s) (sf_cnt s) fd Hlt) as FS.
    simpl in H. destruct (sf_wait s) as [|a r] eqn:W.
    + inversion H; subst. cbn [sf_cnt sf_q sf_wait sf_closed]. rewrite FS. split.
      * unfold SfInv; simpl. rewrite set_nth_length. repeat split; auto; lia.
      * reflexivity.
    + set (s1 := mkSfdl (set_nth (sf_q s) (sf_cnt s) fd) (S (sf_cnt s)) r false false) in *.
      assert (I1 : SfInv cap s1) by (unfold SfInv, s1; simpl; rewrite set_nth_length; repeat split; auto; lia).
      destruct (start_conn_fixed cap s1 a ok I1) as (x & rest & s2 & F1 & SC & I2 & F2 & C2 & W2 & CL2); [simpl; lia|].
      rewrite SC in H. inversion H; subst s' outs. split; [exact I2|].
      unfold s1 in F1, W2, CL2. cbn [sf_cnt sf_q sf_wait sf_closed] in F1, W2, CL2.
      rewrite FS in F1. rewrite F1. rewrite F2, W2, CL2. reflexivity.
  - (* accept *)
    destruct (sf_closed s) eqn:CL; [inversion H; subst; rewrite CL; auto|].
    destruct (Nat.ltb_spec 0 (sf_cnt s)) as [Hc|Hc].
    + destruct (start_conn_fixed cap s a ok I Hc) as (x & rest & s2 & F1 & SC & I2 & F2 & C2 & W2 & CL2).
      rewrite SC in H. inversion H; subst s' outs. split; [exact I2|]. rewrite F1, F2, W2, CL2. try rewrite CL. reflexivity.
    + inversion H; subst. simpl. assert (sf_cnt s = 0) by lia. rewrite H0 in *. simpl. try rewrite CL. split; [unfold SfInv; simpl; repeat split; auto; lia|reflexivity].
  - (* cancel *)
    destruct (existsb (Nat.eqb a) (sf_wait s)); inversion H; subst; simpl; (split; [unfold SfInv; simpl; repeat split; auto; lia|reflexivity]).
  - (* close *)
    inversion H; subst. simpl. split; [unfold SfInv; simpl; repeat split; auto; lia|reflexivity].
Qed.

Lemma sfdl_init_inv : forall cap, SfInv cap (sfdl_init cap).
Proof. intros. unfold SfInv, sfdl_init; simpl. rewrite repeat_length. repeat split; auto; lia. Qed.

(* ------------------------------------------------------------------ conservation on the specification *)
Lemma left_of_app : forall o a b, left_of (o, a ++ b) = left_of (o, a) ++ left_of (o, b).
Proof. intros. unfold left_of; simpl. apply flat_map_app. Qed.

Lemma flat_left_fail : forall (l : list nat) rv, flat_map left1 (map (fun a => SfFail a rv) l) = [].
Proof. induction l; simpl; auto. Qed.
Lemma flat_left_close : forall l, flat_map left1 (map SfCloseFd l) = l.
Proof. induction l; simpl; auto. f_equal. auto. Qed.

Lemma sp_step_conserves : forall cap s o s' outs,
  sp_step cap s o = (s', outs) ->
  sp_q s ++ took (o, outs) = left_of (o, outs) ++ sp_q s'.
Proof.
  intros cap s o s' outs H. destruct o as [fd ok|a ok|a rv|]; unfold sp_step in H; unfold took, left_of; simpl.
  - destruct (sp_closed s); [inversion H; subst; simpl; rewrite app_nil_r; auto|].
    destruct (Nat.eqb (length (sp_q s)) cap); [inversion H; subst; simpl; rewrite app_nil_r; auto|].
    destruct (sp_wait s) as [|a r].
    + inversion H; subst. simpl. destruct (sp_q s ++ [fd]); reflexivity.
    + destruct (sp_q s ++ [fd]) as [|x q'] eqn:X; [destruct (sp_q s); discriminate|].
      inversion H; subst. unfold hand_out. destruct ok; simpl; rewrite ?existsb_app; simpl; rewrite ?orb_true_r; simpl; auto.
  - destruct (sp_closed s); [inversion H; subst; simpl; rewrite app_nil_r; auto|].
    destruct (sp_q s) as [|x q']; inversion H; subst; simpl; auto.
    unfold hand_out. destruct ok; simpl; rewrite app_nil_r; auto.
  - destruct (existsb (Nat.eqb a) (sp_wait s)); inversion H; subst; simpl; rewrite app_nil_r; auto.
  - inversion H; subst. simpl. rewrite flat_map_app, flat_left_fail, flat_left_close, !app_nil_r. reflexivity.
Qed.

(* ------------------------------------------------------------------ the listener itself, every history *)
Lemma sp_step_closed_empty : forall cap s o s' outs,
  (sp_closed s = true -> sp_q s = []) -> sp_step cap s o = (s', outs) -> (sp_closed s' = true -> sp_q s' = []).
Proof.
  intros cap s o s' outs Z H. destruct o as [fd ok|a ok|a rv|]; unfold sp_step in H.
  - destruct (sp_closed s) eqn:C; [inversion H; subst; auto|].
    destruct (Nat.eqb (length (sp_q s)) cap); [inversion H; subst; intros X; congruence|].
    destruct (sp_wait s); [inversion H; subst; simpl; intros X; congruence|].
    destruct (sp_q s ++ [fd]); inversion H; subst; simpl; intros X; congruence.
  - destruct (sp_closed s) eqn:C; [inversion H; subst; auto|].
    destruct (sp_q s); inversion H; subst; simpl; intros X; congruence.
  - destruct (existsb (Nat.eqb a) (sp_wait s)); inversion H; subst; simpl; auto.
  - inversion H; subst. reflexivity.
Qed.

Lemma sp_step_no_oob : forall cap s o s' outs, sp_step cap s o = (s', outs) -> ~ In SfOob outs.
Proof.
  intros cap s o s' outs H X. destruct o as [fd ok|a ok|a rv|]; unfold sp_step in H.
  - destruct (sp_closed s); [inversion H; subst; simpl in X; intuition discriminate|].
    destruct (Nat.eqb (length (sp_q s)) cap); [inversion H; subst; simpl in X; intuition discriminate|].
    destruct (sp_wait s); [inversion H; subst; simpl in X; intuition discriminate|].
    destruct (sp_q s ++ [fd]); inversion H; subst; [simpl in X; intuition discriminate|].
    unfold hand_out in X. destruct ok; simpl in X; intuition discriminate.
  - destruct (sp_closed s); [inversion H; subst; simpl in X; intuition discriminate|].
    destruct (sp_q s); inversion H; subst; [simpl in X; contradiction|].
    unfold hand_out in X. destruct ok; simpl in X; intuition discriminate.
  - destruct (existsb (Nat.eqb a) (sp_wait s)); inversion H; subst; simpl in X; intuition discriminate.
  - inversion H; subst. apply in_app_iff in X. destruct X as [X|X]; apply in_map_iff in X; destruct X as (? & E & _); discriminate.
Qed.

Theorem sfdq_conservation : forall cap ops s tr,
  sf_run true true cap (sfdl_init cap) ops = (s, tr) ->
  flat_map took tr = flat_map left_of tr ++ firstn (sf_cnt s) (sf_q s) /\
  sf_poison s = false /\ ~ In SfOob (flat_map snd tr) /\
  (sf_closed s = true -> sf_cnt s = 0).
Proof.
  intros cap ops.
  assert (G : forall ops s0 s tr, SfInv cap s0 -> (sp_closed (sf_abs s0) = true -> sp_q (sf_abs s0) = []) ->
     sf_run true true cap s0 ops = (s, tr) ->
     firstn (sf_cnt s0) (sf_q s0) ++ flat_map took tr = flat_map left_of tr ++ firstn (sf_cnt s) (sf_q s) /\
     SfInv cap s /\ ~ In SfOob (flat_map snd tr) /\
     (sp_closed (sf_abs s) = true -> sp_q (sf_abs s) = [])).
  { induction ops0 as [|o r IH]; intros s0 s tr I Z R; simpl in R.
    - inversion R; subst. simpl. rewrite app_nil_r. auto.
    - destruct (sf_step true true cap s0 o) as [s1 outs] eqn:S1.
      destruct (sf_run true true cap s1 r) as [s2 tr2] eqn:R2. inversion R; subst.
      destruct (sf_step_refines cap s0 o s1 outs I S1) as [I1 SP].
      pose proof (sp_step_conserves cap _ _ _ _ SP) as CV. simpl in CV.
      pose proof (sp_step_closed_empty cap _ _ _ _ Z SP) as Z1.
      destruct (IH s1 s tr2 I1 Z1 R2) as (E & I2 & NO & Z2).
      split; [|split; [exact I2|split; [|exact Z2]]].
      + simpl. rewrite app_assoc, CV, <- app_assoc, E, app_assoc. reflexivity.
      + simpl. intros X. apply in_app_iff in X. destruct X as [X|X]; [|exact (NO X)].
        exact (sp_step_no_oob cap _ _ _ _ SP X). }
  intros s tr R.
  destruct (G ops _ s tr (sfdl_init_inv cap)) as (E & (L & C & P) & NO & Z); [intros X; discriminate|exact R|].
  simpl in E. split; [exact E|]. split; [exact P|]. split; [exact NO|].
  intros CLs. specialize (Z CLs). simpl in Z.
  assert (LN : length (firstn (sf_cnt s) (sf_q s)) = sf_cnt s) by (rewrite firstn_length; lia).
  rewrite Z in LN. simpl in LN. lia.
Qed.

(* nothing is handed out twice: if the descriptors taken over are pairwise different, so are those that leave *)
Lemma NoDup_app_l : forall (A : Type) (a b : list A), NoDup (a ++ b) -> NoDup a.
Proof. intros A a b H. induction a as [|x r IH]; [constructor|]. simpl in H. inversion H; subst. constructor; auto. intros X. apply H2. apply in_app_iff; auto. Qed.

Theorem sfdq_no_duplicates : forall cap ops s tr,
  sf_run true true cap (sfdl_init cap) ops = (s, tr) ->
  NoDup (flat_map took tr) -> NoDup (flat_map left_of tr).
Proof.
  intros cap ops s tr R ND. destruct (sfdq_conservation cap ops s tr R) as (E & _). rewrite E in ND.
  eapply NoDup_app_l; eauto.
Qed.

(* ------------------------------------------------------------------ witnesses for the pinned forms *)
Definition shift_witness : list sf_op := [SfSetFd 11 true; SfSetFd 12 true; SfSetFd 13 true;
                                          SfAccept 0 true; SfAccept 1 true; SfAccept 2 true; SfAccept 3 true; SfClose].
Lemma shift_witness_pinned : forall fixclose,
  flat_map left_of (snd (sf_run false fixclose 16 (sfdl_init 16) shift_witness)) = [11; 11; 11]%N /\
  flat_map took (snd (sf_run false fixclose 16 (sfdl_init 16) shift_witness)) = [11; 12; 13]%N.
Proof. intros [|]; vm_compute; split; reflexivity. Qed.
Lemma shift_witness_fixed :
  flat_map left_of (snd (sf_run true true 16 (sfdl_init 16) shift_witness)) = [11; 12; 13]%N.
Proof. vm_compute. reflexivity. Qed.

Definition full_queue_ops (cap : nat) : list sf_op := map (fun k => SfSetFd (N.of_nat (100 + k)) true) (seq 0 cap) ++ [SfAccept 0 true].
Lemma full_queue_oob_pinned : forall fixclose,
  In SfOob (flat_map snd (snd (sf_run false fixclose 16 (sfdl_init 16) (full_queue_ops 16)))).
Proof. intros [|]; vm_compute; auto 20. Qed.

Definition close_twice_witness : list sf_op := [SfSetFd 21 true; SfSetFd 22 true; SfClose; SfClose].
Lemma close_twice_pinned : forall fixed,
  flat_map left_of (snd (sf_run fixed false 16 (sfdl_init 16) close_twice_witness)) = [21; 22; 21; 22]%N.
Proof. intros [|]; vm_compute; reflexivity. Qed.
Lemma close_twice_fixed :
  flat_map left_of (snd (sf_run true true 16 (sfdl_init 16) close_twice_witness)) = [21; 22]%N.
Proof. vm_compute. reflexivity. Qed.
