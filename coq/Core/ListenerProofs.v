(* ListenerProofs: lemmas about Core/ListenerModel.v (statements repeated in Props/Properties_C14.v). *)
From Coq Require Import List Arith NArith Bool Lia.
From NngV Require Import Core.ListenerModel.
Import ListNotations.
Local Open Scope N_scope.

(* ---- the decision function, for every result code (all of N, not only the enum) ---- *)
Lemma decision_stop_iff : forall rv, listener_accept_decision rv = LaStop <-> stop_code rv = true.
Proof.
  intros rv. unfold listener_accept_decision, stop_code, L_OK, L_ECONNABORTED, L_ECONNRESET, L_ETIMEDOUT,
    L_EPEERAUTH, L_ESTOPPED, L_ECLOSED, L_ECANCELED.
  destruct (N.eqb_spec rv 0); [subst; simpl; split; discriminate|].
  destruct (N.eqb_spec rv 18); [subst; simpl; split; auto|].
  destruct (N.eqb_spec rv 19); [subst; simpl; split; discriminate|].
  destruct (N.eqb_spec rv 5); [subst; simpl; split; discriminate|].
  destruct (N.eqb_spec rv 27); [subst; simpl; split; discriminate|].
  destruct (N.eqb_spec rv 999); [subst; simpl; split; auto|].
  destruct (N.eqb_spec rv 7); [subst; simpl; split; auto|].
  destruct (N.eqb_spec rv 20); [subst; simpl; split; auto|].
  simpl. split; discriminate.
Qed.

Lemma decision_start_iff : forall rv, listener_accept_decision rv = LaStartRearm <-> rv = L_OK.
Proof.
  intros rv. unfold listener_accept_decision, L_OK. destruct (N.eqb_spec rv 0); [split; auto|].
  split; [|contradiction]. repeat match goal with |- context [if ?c then _ else _] => destruct c end; discriminate.
Qed.

(* ---- the single token ---- *)
Definition LInv (l : listener) : Prop :=
  g_lclash l = false /\ (ltokens l <= 1)%nat /\
  (l_started l = false -> ltokens l = 0%nat) /\
  (l_closed l = false -> l_tmo_done l = None \/ l_tmo_done l = Some L_OK) /\
  (l_closed l = true -> l_tmo l = None /\ l_acc l = false) /\
  (l_started l = true -> l_closed l = false -> g_llost l = false -> ltokens l = 1%nat).

Ltac ltdfix := try match goal with
  | TD : false = false -> Some ?r = None \/ Some ?r = Some L_OK |- _ =>
      let X := fresh in destruct (TD eq_refl) as [X|X]; [discriminate X|inversion X; subst; clear TD]
  end.
Ltac lfin := ltdfix; simpl in *; repeat split; intros; try discriminate; try congruence; try lia;
  try (intuition (try discriminate; try congruence; try lia); fail).

Lemma linit_LInv : LInv listener_init.
Proof. unfold LInv, listener_init, ltokens; simpl. repeat split; intros; auto; discriminate. Qed.

Lemma lstep_LInv : forall l o, LInv l -> LInv (lstep l o).
Proof.
  intros [closed started acc accd tmo tmod calls lp clash lost] o.
  unfold LInv, ltokens; simpl. intros (C & T & S0 & TD & CL & LV). subst clash.
  destruct o as [ | s | | | | ]; simpl.
  - destruct started; [lfin|]. specialize (S0 eq_refl). unfold accept_start; simpl.
    destruct closed, acc, accd, tmo; simpl in *; try lia;
      destruct tmod as [r|]; simpl in *; try (destruct (N.eqb r L_OK) eqn:?; simpl in *); try lia; lfin.
  - destruct acc; [|lfin].
    destruct closed, accd, tmo, started; simpl in *; try lia;
      destruct tmod as [r|]; simpl in *; try (destruct (N.eqb r L_OK) eqn:?; simpl in *); try lia; lfin.
  - destruct accd as [[rv p]|]; [|lfin].
    destruct (listener_accept_decision rv); simpl; unfold accept_start; simpl;
      destruct closed, acc, tmo, started; simpl in *; try lia;
      destruct tmod as [r|]; simpl in *; try (destruct (N.eqb r L_OK) eqn:?; simpl in *); try lia;
      try destruct lost; lfin.
  - destruct tmo; [|lfin].
    destruct closed, acc, accd, started; simpl in *; try lia;
      destruct tmod as [r|]; simpl in *; try (destruct (N.eqb r L_OK) eqn:?; simpl in *); try lia; lfin.
  - destruct tmod as [r|]; [|lfin]. destruct (N.eqb r L_OK) eqn:E; simpl.
    + unfold accept_start; simpl. destruct closed, acc, accd, tmo, started; simpl in *; try lia; lfin.
    + destruct closed; [|exfalso; destruct (TD eq_refl) as [X|X]; [discriminate|inversion X; subst; discriminate]].
      destruct acc, accd, tmo, started; simpl in *; try lia; lfin.
  - destruct closed; [lfin|].
    destruct acc, accd, tmo, started; simpl in *; try lia;
      destruct tmod as [r|]; simpl in *; try (destruct (N.eqb r L_OK) eqn:?; simpl in *); try lia; lfin.
Qed.

Lemma lrun_LInv : forall ops l, LInv l -> LInv (lrun l ops).
Proof. induction ops; intros; simpl; auto. apply IHops. apply lstep_LInv; auto. Qed.

(* ---- re-arming ---- *)
Theorem accept_rearmed : forall l rv p,
  LInv l -> l_acc_done l = Some (rv, p) -> l_closed l = false -> stop_code rv = false ->
  let l' := lstep l LAccCb in
  g_lclash l' = false /\
  ((l_acc l' = true /\ g_acc_calls l' = S (g_acc_calls l)) \/
   (l_tmo l' = Some L_COOLDOWN_MS /\
    let l'' := lstep (lstep l' LTimerFire) LTimerCb in
    l_acc l'' = true /\ g_acc_calls l'' = S (g_acc_calls l) /\ g_lclash l'' = false)).
Proof.
  intros l rv p I A NC SC l'.
  pose proof (lstep_LInv l LAccCb I) as I'. fold l' in I'.
  pose proof (lstep_LInv _ LTimerCb (lstep_LInv _ LTimerFire I')) as (C'' & _).
  destruct I' as (C' & _). split; auto.
  assert (ND : listener_accept_decision rv <> LaStop).
  { intros X. apply decision_stop_iff in X. congruence. }
  subst l'. revert C''. simpl. rewrite A.
  destruct (listener_accept_decision rv) eqn:D; try contradiction; unfold accept_start; simpl; rewrite NC; simpl; auto.
Qed.

(* ---- the stop codes arrive only after close, if the streams do not invent them ---- *)
Definition NoStop (l : listener) : Prop :=
  g_llost l = false /\
  (l_closed l = false -> forall rv p, l_acc_done l = Some (rv, p) -> stop_code rv = false).

Lemma src_ok_code : forall s, src_ok s = true -> stop_code (fst (src_code s)) = false.
Proof.
  intros [p|rv|rv]; simpl; intros H.
  - reflexivity.
  - apply andb_true_iff in H. destruct H as [_ H]. apply negb_true_iff in H.
    unfold stop_code, L_ECLOSED, L_ECONNSHUT, L_ECONNABORTED, L_ESTOPPED, L_ECANCELED in *.
    destruct (N.eqb_spec rv 7); [reflexivity|].
    destruct (N.eqb_spec rv 18), (N.eqb_spec rv 999), (N.eqb_spec rv 20); simpl in *; try discriminate.
    destruct (N.eqb_spec rv 7); [contradiction|reflexivity].
  - apply andb_true_iff in H. destruct H as [_ H]. apply negb_true_iff in H. exact H.
Qed.

Lemma lstep_NoStop : forall l o, lop_ok o = true -> NoStop l -> NoStop (lstep l o).
Proof.
  intros l o OK [L A]. destruct o as [ | s | | | | ]; simpl.
  - destruct (l_started l); [split; auto|]. unfold accept_start; simpl.
    destruct (l_closed l) eqn:C; split; simpl; auto; intros; try discriminate; try (eapply A; eauto).
  - destruct (l_acc l); [|split; auto]. split; simpl; auto. intros _ rv p E. inversion E.
    pose proof (src_ok_code s OK) as X. destruct (src_code s); simpl in *. inversion H0; subst. exact X.
  - destruct (l_acc_done l) as [[rv p]|] eqn:E; [|split; auto; intros; congruence].
    destruct (listener_accept_decision rv) eqn:D; unfold accept_start; simpl;
      destruct (l_closed l) eqn:C; split; simpl; auto; intros; try discriminate.
    all: rewrite L; simpl; try reflexivity.
    apply decision_stop_iff in D. rewrite (A eq_refl rv p eq_refl) in D. discriminate.
  - destruct (l_tmo l); split; simpl; auto.
  - destruct (l_tmo_done l); [|split; auto]. destruct (N.eqb n L_OK); [|split; simpl; auto].
    unfold accept_start; simpl. destruct (l_closed l) eqn:C; split; simpl; auto; intros; try discriminate;
    try (eapply A; eauto).
  - destruct (l_closed l) eqn:C; [split; auto; intros; congruence|]. split; simpl; auto. intros; discriminate.
Qed.

Theorem stop_codes_only_after_close : forall ops l,
  forallb lop_ok ops = true -> l = lrun listener_init ops -> g_llost l = false.
Proof.
  intros ops l OK ->.
  assert (H : forall ops l0, NoStop l0 -> forallb lop_ok ops = true -> NoStop (lrun l0 ops)).
  { induction ops0 as [|o r IH]; intros l0 N K; simpl in *; auto. apply andb_true_iff in K. destruct K.
    apply IH; auto. apply lstep_NoStop; auto. }
  destruct (H ops listener_init) as [X _]; auto. split; simpl; auto. intros; discriminate.
Qed.

(* the stop codes do end the loop -- including NNG_ECONNABORTED, which listener.c treats as close-only *)
Lemma econnaborted_stops :
  let l := lrun listener_init [LoStart; LTran (SrcNego L_ECONNABORTED); LAccCb] in
  ltokens l = 0%nat /\ l_closed l = false /\ g_llost l = true.
Proof. vm_compute. auto. Qed.
