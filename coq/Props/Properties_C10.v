(* Properties_C10 -- "Close always terminates, completes everything, invalidates handles".
   Statements only.  Model: Core/CloseModel.v (one socket with its contexts, endpoints and pipes;
   one step = one critical section; any number of threads).  The source's form of the five
   close-path defects found with the model is read from Gen/Consts.v (the C10_FX flags): each theorem is
   stated for that form -- the property for the repaired form, the defect's witness otherwise. *)
From Coq Require Import List Arith NArith Bool.
Import ListNotations.
From NngV Require Import Gen.Consts Queue.MsgqModel Core.CloseModel Core.CloseProofs Core.CloseTerm Core.CloseSafe Core.CloseMsgq.

Definition cur_fixes : fixes := mkFixes C10_FX_EPHOLD C10_FX_EPID C10_FX_CTXFINI C10_FX_LATEOP C10_FX_CTXOPEN C10_FX_CTXMARK.

Theorem c10_consts_match :
  C_EBUSY = C10_EBUSY /\ C_ECLOSED = C10_ECLOSED /\ C_ENOENT = C10_ENOENT /\ C_ENOTSUP = C10_ENOTSUP.
Proof. repeat split. Qed.
Print Assumptions c10_consts_match.

(* close_terminates, part 1: a well-founded measure strictly decreases along every internal step
   (a critical section of any thread inside the library, of the reaper, or a callback of an
   operation whose transport side close has shut) of every reachable state, for every interleaving
   and any number of threads, objects and pending operations.  (A step that trips an assertion
   -- the [bad] log grows -- is excluded; see double_close.) *)
Theorem close_terminates_measure :
  if all_fixed cur_fixes then
    well_founded lt3 /\
    forall ph la fi ls s l s',
      run cur_fixes (init ph la fi) ls = Some s ->
      internal s l = true -> step cur_fixes s l = Some s' -> bad s' = bad s ->
      lt3 (M3 s') (M3 s)
  else pinned_defect cur_fixes.
Proof. exact (terminates_sel cur_fixes). Qed.
Print Assumptions close_terminates_measure.

(* non-vacuity: a run with a context, a pending receive on it and one on the socket, then close *)
Example close_terminates_nonvacuous :
  exists s s', run fixes_all (init PhFini true true)
                 ([LSpawn UCtxOpen] ++ runs 0 6 ++ [LSpawn (USubmit (Some 0) 1%N true)] ++ runs 1 4 ++
                  [LSpawn USockClose] ++ runs 2 5) = Some s /\
               internal s (LRun 2) = true /\ step fixes_all s (LRun 2) = Some s' /\ bad s' = bad s.
Proof. eexists; eexists; split; [vm_compute; reflexivity|]. split; [reflexivity|]. split; vm_compute; reflexivity. Qed.

(* close_handles_invalid.  In every state of every run (any interleaving, any number of threads and
   objects): once the nng_socket_close that ran the shutdown has returned 0 (role R_SHUT: the first
   closer), a find on the socket's handle, on every context handle, on every dialer/listener handle the
   application was given and on every pipe handle fails (NNG_ECLOSED / NNG_ENOENT) -- in that state and,
   the log of returns only growing, in every later one.  For the close that destroyed the socket
   (R_DESTROY; it may be a second, concurrent closer) the socket's and the contexts' handles are invalid
   unconditionally, the endpoints' and pipes' once the first closer's shutdown has completed
   (k_shutdone) -- that it always has by then rests on the reference counts (the destroyer waits for
   s_ref <= 1 and the first closer holds a reference until it is done), which are cross-checked by the
   exhaustive search of checks/c10.py but not proved: close_handles_invalid is full for R_SHUT and
   PARTIAL for R_DESTROY in that one respect.  Returns of further concurrent closers: late_closer_refuted. *)
Theorem close_handles_invalid :
  if all_fixed cur_fixes then
    forall ph la fi ls s, run cur_fixes (init ph la fi) ls = Some s ->
      (In (USockClose, C_OK, R_SHUT) (rets s) -> handles_invalid s) /\
      (In (USockClose, C_OK, R_DESTROY) (rets s) ->
         find_sock s <> None /\ (forall c, find_ctx s c <> None) /\ (k_shutdone (sk s) = true -> handles_invalid s))
  else pinned_defect cur_fixes.
Proof. exact (handles_sel cur_fixes). Qed.
Print Assumptions close_handles_invalid.

(* close_completes_pending.  When the first closer has returned 0 no operation is pending on any context
   or on any endpoint the application knows; when the destroying closer has returned 0 nothing is pending
   on the socket or any context either (endpoints: as above).  What "pending on" means for a protocol is
   abstract here (the sets k_pend / c_pend / e_pend, emptied with NNG_ECLOSED by the protocol's
   sock_close / sock_fini / ctx_fini, nni_msgq_close and the dialer's connect callback).  An operation
   of a socket whose protocol completes only in sock_fini (req0) is completed by the destroying closer,
   not necessarily before the first closer returns. *)
Theorem close_completes_pending :
  if all_fixed cur_fixes then
    forall ph la fi ls s, run cur_fixes (init ph la fi) ls = Some s ->
      (In (USockClose, C_OK, R_SHUT) (rets s) ->
         (forall c x, nth_error (ctxs s) c = Some x -> c_pend x = []) /\
         (forall e x, nth_error (eps s) e = Some x -> e_pub x = true -> e_pend x = [])) /\
      (In (USockClose, C_OK, R_DESTROY) (rets s) ->
         k_pend (sk s) = [] /\ (forall c x, nth_error (ctxs s) c = Some x -> c_pend x = []) /\
         (k_shutdone (sk s) = true -> forall e x, nth_error (eps s) e = Some x -> e_pub x = true -> e_pend x = []))
  else pinned_defect cur_fixes.
Proof. exact (pending_sel cur_fixes). Qed.
Print Assumptions close_completes_pending.

(* non-vacuity of both: a run in which a context and the socket have a receive pending, a dialer exists,
   and one nng_socket_close runs to its end (it is the first closer and the destroyer) *)
Definition nv_run : option st :=
  run fixes_all (init PhFini true true)
      ([LSpawn UCtxOpen] ++ runs 0 6 ++ [LSpawn (USubmit (Some 0) 1%N true)] ++ runs 1 4 ++
       [LSpawn (USubmit None 2%N true)] ++ runs 2 4 ++ [LSpawn (UEpCreate true)] ++ runs 3 5 ++
       [LSpawn USockClose] ++ runs 4 18 ++ reaps 4 ++ runs 4 3).
Example close_returns_nonvacuous :
  match nv_run with
  | Some s => sock_ret R_DESTROY s = true /\ done s = [(1%N, C_ECLOSED); (2%N, C_ECLOSED)] /\
              length (ctxs s) = 1 /\ length (eps s) = 1 /\ bad s = []
  | None => False
  end.
Proof. vm_compute. repeat split. Qed.

(* double_close (PARTIAL).  Proved: a further nng_socket_close on a handle whose find fails returns an
   error and touches nothing (with close_handles_invalid: the second close after a completed close gets
   NNG_ECLOSED); a concurrent closer returns 0 or NNG_ECLOSED / NNG_EBUSY by construction of the
   program.  Not proved: that no step of the repaired model ever acts on released state (the [bad] log
   stays empty: reference counts never underflow, no action runs on a destroyed object) and that no
   state without an enabled step exists while a close is under way -- both are checked exhaustively over
   all interleavings of 27 small scenarios on every run (checks/c10.py, ocaml/drv_c10.ml explore), and are
   false of the pinned forms (pinned_defect); on the real library they are runtime facts (ASan, watchdog). *)
Theorem double_close_partial :
  forall fx s, find_sock s <> None ->
    exists rv, run_act fx s (AFind USockClose) = Some (s, [ARet USockClose rv R_NA]) /\ rv <> C_OK.
Proof. exact second_close_fails. Qed.
Print Assumptions double_close_partial.

(* contexts: sock_shutdown marks EVERY context closed and destroys the idle ones; a context that another
   thread's call references at that instant (between its nni_ctx_find and its nni_ctx_rele) is destroyed by
   its last release.  For all interleavings: a context is destroyed iff it has left s_ctxs, a destroyed
   context has nothing pending, ctx_fini runs only on contexts still on the list (at most once each), and
   when the destroying close has returned every context has been destroyed (exactly once).  Termination
   with busy contexts is part of close_terminates_measure.  With C10_FX_CTXMARK = false (only idle
   contexts marked) the selected statement is the witness: the busy context stays open, valid and on
   s_ctxs, no step is enabled, nng_socket_close never returns. *)
Theorem close_contexts_destroyed :
  if all_fixed cur_fixes then
    forall ph la fi ls s, run cur_fixes (init ph la fi) ls = Some s ->
      (forall c x, nth_error (ctxs s) c = Some x ->
         (c_freed x = true <-> c_onlist x = false) /\ (c_freed x = true -> c_pend x = [])) /\
      (In (USockClose, C_OK, R_DESTROY) (rets s) -> forall c x, nth_error (ctxs s) c = Some x -> c_freed x = true)
  else pinned_defect cur_fixes.
Proof. exact (contexts_sel cur_fixes). Qed.
Print Assumptions close_contexts_destroyed.

Theorem ctxmark_refuted_witness : forall a b c d e,
  exists s, run (mkFixes a b c d e false) (init PhFini true true) w_ctxmark = Some s /\
            (exists r, nth_error (threads s) 2 = Some (AWaitCtxs :: r)) /\
            bad s = [] /\ no_internal_step (mkFixes a b c d e false) s /\ find_ctx s 0 = None.
Proof. exact ctxmark_refuted. Qed.
Print Assumptions ctxmark_refuted_witness.

(* the step of the close model that closes the upper queues of a raw socket assumes that nni_msgq_close
   completes every waiting reader and writer with NNG_ECLOSED; this is that statement, proved of the msgq
   model of C18 (whatever capacity, fill and number of waiters) *)
Theorem msgq_close_completes_all_waiters :
  forall fixed q rv q' outs, msgq_step fixed q MClose = Some (rv, q', outs) ->
    mq_getq q' = [] /\ mq_putq q' = [] /\ mq_closed q' = true /\
    forall a, In a (waiters q) -> In (Done a ECLOSED None) outs.
Proof. exact msgq_close_completes_waiters. Qed.
Print Assumptions msgq_close_completes_all_waiters.

Example msgq_close_nonvacuous :
  match msgq_run true (msgq_init 1) [MAioPut 1%N 11%N true; MAioPut 2%N 12%N true; MAioPut 3%N 13%N true; MClose] with
  | Some (q, _) => mq_putq q = [] /\ mq_closed q = true
  | None => False
  end.
Proof. vm_compute. auto. Qed.

(* pipes: the strict reading ("after nng_pipe_close returns, further calls fail") is false of the
   code: nng_pipe_close marks the pipe and queues it for the reaper; the id leaves the map in
   pipe_reap, after the REM_POST callback (which may still query the pipe). *)
Theorem pipe_handle_refuted :
  exists s, run fixes_all (init PhProto false false) w_pipe = Some s /\
            (exists ro, In (UPipeClose 0, C_OK, ro) (rets s)) /\ find_pipe s 0 = None /\
            (exists x, nth_error (pipes s) 0 = Some x /\ p_closed x = true /\ p_freed x = false).
Proof. exact pipe_handle_witness. Qed.
Print Assumptions pipe_handle_refuted.

(* a third concurrent nng_socket_close returns 0 as soon as it sees s_closed, while the first
   closer may not have closed the endpoints yet: their handles are still valid at that moment *)
Theorem late_closer_refuted :
  exists s, run fixes_all (init PhProto false false) w_late = Some s /\
            In (USockClose, C_OK, R_LATE) (rets s) /\ find_ep s 0 = None /\ bad s = [] /\
            (exists x, nth_error (eps s) 0 = Some x /\ e_pub x = true).
Proof. exact late_closer_witness. Qed.
Print Assumptions late_closer_refuted.
