(* Properties_C10 -- "Close always terminates, completes everything, invalidates handles".
   Statements only.  Model: Core/CloseModel.v (one socket with its contexts, endpoints and pipes;
   one step = one critical section; any number of threads).  The source's form of the five
   close-path defects found with the model is read from Gen/Consts.v (the C10_FX flags): each theorem is
   stated for that form -- the property for the repaired form, the defect's witness otherwise. *)
From Coq Require Import List Arith NArith Bool.
Import ListNotations.
From NngV Require Import Gen.Consts Core.CloseModel Core.CloseProofs Core.CloseTerm Core.CloseSafe.

Definition cur_fixes : fixes := mkFixes C10_FX_EPHOLD C10_FX_EPID C10_FX_CTXFINI C10_FX_LATEOP C10_FX_CTXOPEN.

Theorem c10_consts_match :
  C_EBUSY = C10_EBUSY /\ C_ECLOSED = C10_ECLOSED /\ C_ENOENT = C10_ENOENT /\ C_ENOTSUP = C10_ENOTSUP.
Proof. repeat split. Qed.
Print Assumptions c10_consts_match.

(* close_terminates, part 1: a well-founded measure strictly decreases along every internal step
   (a critical section of any thread inside the library, of the reaper, or a callback of an
   operation whose transport side close has shut) of every reachable state, for every interleaving
   and any number of threads, objects and pending operations.  (A step that trips an assertion
   -- the [bad] log grows -- is excluded; see double_close.) *)
Theorem close_terminates_measure :
  if all_fixed cur_fixes then
    well_founded lt3 /\
    forall ph la fi ls s l s',
      run cur_fixes (init ph la fi) ls = Some s ->
      internal s l = true -> step cur_fixes s l = Some s' -> bad s' = bad s ->
      lt3 (M3 s') (M3 s)
  else pinned_defect cur_fixes.
Proof. exact (terminates_sel cur_fixes). Qed.
Print Assumptions close_terminates_measure.

(* non-vacuity: a run with a context, a pending receive on it and one on the socket, then close *)
Example close_terminates_nonvacuous :
  exists s s', run fixes_all (init PhFini true true)
                 ([LSpawn UCtxOpen] ++ runs 0 6 ++ [LSpawn (USubmit (Some 0) 1%N true)] ++ runs 1 4 ++
                  [LSpawn USockClose] ++ runs 2 5) = Some s /\
               internal s (LRun 2) = true /\ step fixes_all s (LRun 2) = Some s' /\ bad s' = bad s.
Proof. eexists; eexists; split; [vm_compute; reflexivity|]. split; [reflexivity|]. split; vm_compute; reflexivity. Qed.

(* pipes: the strict reading ("after nng_pipe_close returns, further calls fail") is false of the
   code: nng_pipe_close marks the pipe and queues it for the reaper; the id leaves the map in
   pipe_reap, after the REM_POST callback (which may still query the pipe). *)
Theorem pipe_handle_refuted :
  exists s, run fixes_all (init PhProto false false) w_pipe = Some s /\
            (exists ro, In (UPipeClose 0, C_OK, ro) (rets s)) /\ find_pipe s 0 = None /\
            (exists x, nth_error (pipes s) 0 = Some x /\ p_closed x = true /\ p_freed x = false).
Proof. exact pipe_handle_witness. Qed.
Print Assumptions pipe_handle_refuted.

(* a third concurrent nng_socket_close returns 0 as soon as it sees s_closed, while the first
   closer may not have closed the endpoints yet: their handles are still valid at that moment *)
Theorem late_closer_refuted :
  exists s, run fixes_all (init PhProto false false) w_late = Some s /\
            In (USockClose, C_OK, R_LATE) (rets s) /\ find_ep s 0 = None /\ bad s = [] /\
            (exists x, nth_error (eps s) 0 = Some x /\ e_pub x = true).
Proof. exact late_closer_witness. Qed.
Print Assumptions late_closer_refuted.
