(* Properties_C03: statements only.
   C03 -- message ownership, memory safety and no leaks for any API usage.

   The ownership LEDGER (Ledger/Ledger.v, defined once): message id -> reference count +
   multiset of owners {application, user aio (pending / completed), protocol slot, pipe
   (transport), lost}; events Alloc / Clone / Give / Free.  [replay_step] replays ONE STEP
   OF ANY PROTOCOL MODEL -- its operation and its outputs (Complete / TranSend / Free of
   Proto/Common.v) -- into the ledger, using the protocol's [view] (Ledger/Views.v: which
   messages of the state are references, the clones a step makes, frees the models do not
   output) and CHECKS the result against the new state: it returns None if a reference is
   freed / handed on / cloned by a non-holder (double free, use after free) or if the
   library-side holdings differ from what the new state stands for (leak, duplication).

   Proved (this file): for all op histories -- every entry point and callback in any order,
   option changes at every point, cancels, pipe loss, closes -- of every protocol model the
   replay never fails, the ledger stays balanced (reference count = number of owners > 0),
   a failed send leaves its message attached to the aio and the caller's, a successful send
   hands the reference to the library, a successful receive hands exactly one to the caller,
   every library-side reference that came in went out exactly once or is still held, and
   after the close sequence + the fini frees the library holds NOTHING.

   LEVEL.  These are theorems about the models.  MEMORY SAFETY ITSELF IS PARTIAL: the models
   have no addresses; a use-after-free / out-of-bounds access inside code the models do not
   cover is only OBSERVED (ASan/UBSan + accounting allocator on the generated programs,
   checks/c03.py) -- support for the correspondence, not a theorem.  Identity of a reference
   inside a protocol is its BODY BYTES (the models are value based; no protocol rewrites the
   body of a message it owns): messages with equal bodies are interchangeable there.

   All sixteen models (req, rep, xreq, xrep, pub, sub, xsub, push, pull, surveyor, respondent,
   xsurveyor, xrespondent, pair (K0 / K1 cooked / K1 raw), bus (cooked / raw)) are covered. *)
From Coq Require Import List Arith NArith Bool.
From NngV Require Import Gen.Consts Proto.Common Ledger.Ledger Ledger.LedgerProofs Ledger.LawTac Ledger.Views Ledger.LedgerThms
  Ledger.SizedFree Ledger.C03Lemmas.
From NngV Require Proto.PushModel Proto.PullModel Proto.PubModel Proto.SubModel Proto.XsubModel Proto.PairModel
  Proto.PairGuard Proto.BusModel Proto.XReqModel Proto.XRepModel Proto.SurveyModel Proto.XSurveyModel Proto.XRespondModel
  Proto.PushProofs Proto.PubSubProofs Proto.PubSubProofs3 Proto.BusProofs Queue.LmqModel Queue.MsgqModel Msg.MsgModel IdMap.IdMapModel
  Proto.RepModel Proto.RespondModel Proto.ReqModel Proto.ReqProofs
  Ledger.OwnReq Ledger.OwnPipeline Ledger.OwnPipelineClose Ledger.OwnPubSub Ledger.OwnPairBus Ledger.OwnSurvey Ledger.OwnXReqRep Ledger.OwnRepResp Ledger.ViewsCur.
Import ListNotations.

(* ================= 1. the ledger itself ================= *)
(* every event keeps: ids unique, reference count = number of owners, > 0 while the object lives *)
Theorem ledger_event_keeps_balance : forall l ev l', balanced l -> apply_ev l ev = Some l' -> balanced l'.
Proof. exact apply_ev_balanced. Qed.
Print Assumptions ledger_event_keeps_balance.

(* a free / hand-over / clone is accepted only from a holder of a reference to that object *)
Theorem ledger_free_needs_owner : forall l i o l', apply_ev l (LFree i o) = Some l' -> holds l i o.
Proof. exact free_needs_owner. Qed.
Print Assumptions ledger_free_needs_owner.
Theorem ledger_give_needs_owner : forall l i from to l', apply_ev l (LGive i from to) = Some l' -> holds l i from.
Proof. exact give_needs_owner. Qed.
Print Assumptions ledger_give_needs_owner.
Theorem ledger_clone_needs_owner : forall l i by_ to l', apply_ev l (LClone i by_ to) = Some l' -> holds l i by_.
Proof. exact clone_needs_owner. Qed.
Print Assumptions ledger_clone_needs_owner.

(* no double free: the second free of an object that had one reference is rejected *)
Theorem ledger_double_free_rejected : forall l i o l',
  balanced l -> apply_ev l (LFree i o) = Some l' ->
  (forall e, In e l -> e_id e = i -> e_rc e = 1) -> apply_ev l' (LFree i o) = None.
Proof. exact double_free_rejected. Qed.
Print Assumptions ledger_double_free_rejected.

(* ================= 2. uniformly: what the law of a protocol gives ================= *)
(* [proto_law V step Inv ok]: the invariant is kept and every step satisfies the ledger's
   weighted conservation equation (for every weight F on (owner, body) pairs) and clones only
   what it holds.  From it, for EVERY history that respects the environment contract [ok]: *)
Theorem ledger_balanced : forall St (V : view St) step Inv ok, proto_law V step Inv ok ->
  forall ops s L, Inv s -> linv V L s -> ops_ok step ok s ops ->
  exists L', replay_run V step L s ops = Some (L', run step s ops) /\
    balanced (ls_led L') /\ mseq (lib_refs (ls_led L')) (omega V (run step s ops)) /\
    lib_ref_count (ls_led L') = length (omega V (run step s ops)).
Proof. exact @ledger_balanced_run. Qed.
Print Assumptions ledger_balanced.

(* a failed send (any non-zero result: refused, cancelled, timed out, closed) leaves the message
   attached to the aio, and it is the caller's again (owner OBack a) *)
Theorem failed_send_leaves_message_with_caller : forall St (V : view St) step Inv ok, proto_law V step Inv ok ->
  forall L s o s' outs a rv k,
  Inv s -> ok s o -> linv V L s -> step s o = (s', outs) ->
  In (Complete a rv None) outs -> rv <> 0%N -> send_key V s o a = Some k -> has_id a (v_detach V s o) = false ->
  exists L', replay_step V L s o s' outs = Some L' /\ linv V L' s' /\ In (OBack a, k) (refs (ls_led L')).
Proof. exact @failed_send_keeps_message. Qed.
Print Assumptions failed_send_leaves_message_with_caller.

(* a successful send hands the reference that was attached to the aio to the library *)
Theorem successful_send_transfers_to_library : forall St (V : view St) s o outs a k,
  In (Complete a E_OK None) outs -> send_key V s o a = Some k ->
  In (AMove (OAio a) k OProto) (step_evs V s o outs).
Proof. exact @successful_send_transfers. Qed.
Print Assumptions successful_send_transfers_to_library.

(* a successful receive hands exactly one protocol reference to the caller, attached to its aio *)
Theorem successful_recv_transfers_one_reference : forall St (V : view St) step Inv ok, proto_law V step Inv ok ->
  forall L s o s' outs a m,
  Inv s -> ok s o -> linv V L s -> step s o = (s', outs) -> In (Complete a E_OK (Some m)) outs ->
  exists L', replay_step V L s o s' outs = Some L' /\ linv V L' s' /\
    In (AMove OProto (body m) (OBack a)) (step_evs V s o outs) /\ In (OBack a, body m) (refs (ls_led L')).
Proof. exact @successful_recv_transfers. Qed.
Print Assumptions successful_recv_transfers_one_reference.

(* released exactly once: over a whole history, per (owner, body), what the library acquired
   equals what it released plus what it still holds *)
Theorem library_releases_exactly_once : forall St (V : view St) step Inv ok, proto_law V step Inv ok ->
  forall ops s, Inv s -> ops_ok step ok s ops ->
  forall x, lib_owner (fst x) = true ->
    cnt x (omega V (run step s ops)) + cnt x (dels (hist_evs V step s ops)) = cnt x (omega V s) + cnt x (adds (hist_evs V step s ops)).
Proof. exact @lib_balance_run. Qed.
Print Assumptions library_releases_exactly_once.

(* once nothing is in flight or queued on an aio and only queue contents remain, the fini frees
   leave the library with no reference at all *)
Theorem fini_frees_leave_nothing : forall St (V : view St) L s, linv V L s -> drained V s ->
  exists L', do_aevs L (fini_evs V s) = Some L' /\ balanced (ls_led L') /\ lib_refs (ls_led L') = [].
Proof. exact @fini_clears. Qed.
Print Assumptions fini_frees_leave_nothing.

(* ================= 3. per protocol ================= *)
(* [ledger_ok V step init ok script] (Ledger/C03Lemmas.v): for every history from the initial state
   that respects [ok] -- the replay never fails, the ledger is balanced and equals the state's view;
   the close sequence [script] (pipe closes, failing completions of the sends in flight, context
   closes, socket close) is allowed and replays; the fini frees then leave NO library-side reference. *)
Theorem pull_ledger_balanced : ledger_ok view_pull PullModel.pull_step PullModel.pull_init (fun _ _ => True) OwnPipelineClose.pull_close_script.
Proof. exact pull_ledger_ok. Qed.
Print Assumptions pull_ledger_balanced.
(* PUSH: for either text of push0_set_send_buf_len (fr = blocked senders move into a resized buffer, the repair of
   finding push-resize-overtakes-blocked); the model driver runs ViewsCur.push_step_cur = push_step_r <flag of the source> *)
Theorem push_ledger_balanced : forall fr, ledger_ok view_push (PushModel.push_step_r fr) PushModel.push_init OwnPipeline.push_ok OwnPipelineClose.push_close_script.
Proof. exact push_ledger_ok. Qed.
Print Assumptions push_ledger_balanced.
Theorem push_current_source_step : ViewsCur.push_step_cur = PushModel.push_step_r Gen.Consts.C06_PUSH_RESIZE_ADMITS_FIXED.
Proof. reflexivity. Qed.
Print Assumptions push_current_source_step.
Theorem pub_ledger_balanced : ledger_ok view_pub PubModel.pub_step PubModel.pub_init PubSubProofs3.pub_op_ok OwnPubSub.pub_close_script.
Proof. exact pub_ledger_ok. Qed.
Print Assumptions pub_ledger_balanced.
Theorem sub_ledger_balanced : forall fixed,
  ledger_ok view_sub (SubModel.sub_step fixed) SubModel.sub_init PubSubProofs.sub_op_ok OwnPubSub.sub_close_script.
Proof. exact sub_ledger_ok. Qed.
Print Assumptions sub_ledger_balanced.
Theorem xsub_ledger_balanced : forall mq_fixed rs_fixed,
  ledger_ok view_xsub (XsubModel.xsub_step mq_fixed rs_fixed) XsubModel.xsub_init OwnPubSub.xsub_op_ok OwnPubSub.xsub_close_script.
Proof. exact xsub_ledger_ok. Qed.
Print Assumptions xsub_ledger_balanced.
(* PAIR0, PAIR1 cooked and raw (k), with and without the three repairs of pair.c (fx, fr, fs) *)
Theorem pair_ledger_balanced : forall k fx fr fs,
  ledger_ok (VPair.view k) (PairGuard.pair_step_g k fx fr fs) PairModel.pair_init OwnPairBus.pair_ok OwnPairBus.pair_close_script.
Proof. exact pair_ledger_ok. Qed.
Print Assumptions pair_ledger_balanced.
(* BUS cooked and raw, both forms of bus0_sock_send (fixed) and both orders of its first statements (keep) *)
Theorem bus_ledger_balanced : forall fixed keep raw,
  ledger_ok (VBus.view fixed keep) (BusModel.bus_step fixed) (BusModel.bus_init raw) BusProofs.op_ok OwnPairBus.bus_close_script.
Proof. exact bus_ledger_ok. Qed.
Print Assumptions bus_ledger_balanced.
Theorem surveyor_ledger_balanced : forall nbfix,
  ledger_ok view_surv (SurveyModel.surv_step nbfix) SurveyModel.surv_init OwnSurvey.surv_ok OwnSurvey.surv_close_script.
Proof. exact surv_ledger_ok. Qed.
Print Assumptions surveyor_ledger_balanced.
Theorem xsurveyor_ledger_balanced : forall fx,
  ledger_ok (VXsurv.view fx) (XSurveyModel.xsurv_step fx) XSurveyModel.xsurv_init OwnSurvey.xsurv_ok OwnSurvey.xsurv_close_script.
Proof. exact xsurv_ledger_ok. Qed.
Print Assumptions xsurveyor_ledger_balanced.
Theorem xrespondent_ledger_balanced : forall fx,
  ledger_ok view_xresp (XRespondModel.xresp_step fx) XRespondModel.xresp_init OwnSurvey.xresp_ok OwnSurvey.xresp_close_script.
Proof. exact xresp_ledger_ok. Qed.
Print Assumptions xrespondent_ledger_balanced.
Theorem xreq_ledger_balanced : forall mf,
  ledger_ok view_xreq (XReqModel.xreq_step mf) XReqModel.xreq_init OwnXReqRep.xreq_ok OwnXReqRep.xreq_close_script.
Proof. exact xreq_ledger_ok. Qed.
Print Assumptions xreq_ledger_balanced.
Theorem xrep_ledger_balanced : forall mf,
  ledger_ok view_xrep (XRepModel.xrep_step mf) XRepModel.xrep_init OwnXReqRep.xrep_ok OwnXReqRep.xrep_close_script.
Proof. exact xrep_ledger_ok. Qed.
Print Assumptions xrep_ledger_balanced.

(* cooked REQ, for the source with the repaired clone policy (req.c 7fbb191: clone / free / requeue keyed on
   the value NNG_OPT_REQ_RESENDTIME had when the request was submitted; flag read from the source): every
   history -- RESENDTIME changed at any point between request and reply included -- keeps the ledger balanced *)
Theorem req_ledger_balanced : forall fx, ReqModel.fx_clone fx = true ->
  ledger_ok (VReq.view fx) (ReqModel.req_step fx) ReqModel.req_init OwnReq.req_ok OwnReq.req_close_script.
Proof. exact req_ledger_ok. Qed.
Print Assumptions req_ledger_balanced.
Theorem req_clone_consts_match : C04_REQ_CLONE_FIXED = true.
Proof. reflexivity. Qed.
Print Assumptions req_clone_consts_match.
(* the policy of the tree as pinned (keyed on the CURRENT value of the option): the ledger is violated --
   RESENDTIME infinite at send time, finite before the reply: the request is freed although it was handed
   to the transport un-cloned (witness w_uaf of Proto/ReqProofs.v) *)
Theorem req_clone_policy_ledger_refuted :
  exists ops, replay_run (VReq.view ReqProofs.fx_pinned) (ReqModel.req_step ReqProofs.fx_pinned) ls_init ReqModel.req_init ops = None.
Proof. exact OwnReq.req_law_refuted_pinned. Qed.
Print Assumptions req_clone_policy_ledger_refuted.

(* cooked REP and RESPONDENT: for the source with the repair "a send while the context's previous reply
   still waits for its pipe is refused" (rep.c f74acd0, respond.c 08762d5; flags read from the source) ... *)
Theorem rep_ledger_balanced : forall pf, RepModel.pf_saio pf = true ->
  ledger_ok view_rep (RepModel.rep_step pf) RepModel.rep_init OwnRepResp.rep_ok OwnRepResp.rep_close_script.
Proof. exact rep_ledger_ok. Qed.
Print Assumptions rep_ledger_balanced.
Theorem respondent_ledger_balanced : forall fx, RespondModel.rf_sbusy fx = true ->
  ledger_ok view_resp (RespondModel.resp_step fx) RespondModel.resp_init OwnRepResp.resp_ok OwnRepResp.resp_close_script.
Proof. exact resp_ledger_ok. Qed.
Print Assumptions respondent_ledger_balanced.
Theorem rep_respondent_consts_match : C04_REP_SAIO_FIXED = true /\ C07_RESP_SBUSY_FIXED = true.
Proof. split; reflexivity. Qed.
Print Assumptions rep_respondent_consts_match.
(* ... and without it (the tree as pinned): the second reply overwrites the queued one, whose message
   leaves the aio's attachment list unaccounted -- the ledger is violated on a concrete history *)
Theorem rep_ledger_pinned_saio_refuted :
  exists ops, replay_run view_rep (RepModel.rep_step OwnRepResp.pf_bad) ls_init RepModel.rep_init ops = None.
Proof. exact OwnRepResp.rep_law_refuted_pinned_saio. Qed.
Print Assumptions rep_ledger_pinned_saio_refuted.
Theorem respondent_ledger_pinned_sbusy_refuted :
  exists ops, replay_run view_resp (RespondModel.resp_step OwnRepResp.rf_bad) ls_init RespondModel.resp_init ops = None.
Proof. exact OwnRepResp.resp_law_refuted_pinned_sbusy. Qed.
Print Assumptions respondent_ledger_pinned_sbusy_refuted.

(* ================= 4. BUS: a refused send and its message ================= *)
(* the order bus0_sock_send had when the tree was pinned (slot emptied, header trimmed, THEN
   nni_aio_start): a refused non-blocking send completes with NNG_EAGAIN and the message is
   neither on the aio (no OBack reference) nor the library's nor freed -- it is lost *)
Theorem bus_failed_send_detaches_refuted :
  match replay_run (VBus.view false false) (BusModel.bus_step false) ls_init (BusModel.bus_init false) w_bus_ops with
  | Some (L, s) =>
      snd (BusModel.bus_step false (fst (BusModel.bus_step false (BusModel.bus_init false) (PPipeStart 1%N BusModel.PROTO_BUS))) (PSend None 7%N true w_bus_msg))
        = [Complete 7%N E_AGAIN None] /\
      back_of (ls_led L) 7%N = [] /\ lost_count (ls_led L) = 1 /\ lib_ref_count (ls_led L) = 0
  | None => False
  end.
Proof. exact bus_failed_send_detaches_refuted_w. Qed.
Print Assumptions bus_failed_send_detaches_refuted.

(* the current source (fix 6932118: nni_aio_start first) -- the flag is read from bus.c on every run *)
Theorem bus_start_before_detach_consts_match : C03_BUS_START_BEFORE_DETACH = true.
Proof. reflexivity. Qed.
Print Assumptions bus_start_before_detach_consts_match.
Theorem bus_failed_send_keeps_message_holds : forall fixed L s o s' outs a rv k,
  BusProofs.BInv s -> BusProofs.op_ok s o -> linv (VBus.view fixed C03_BUS_START_BEFORE_DETACH) L s ->
  BusModel.bus_step fixed s o = (s', outs) ->
  In (Complete a rv None) outs -> rv <> 0%N -> send_key (VBus.view fixed C03_BUS_START_BEFORE_DETACH) s o a = Some k ->
  exists L', replay_step (VBus.view fixed C03_BUS_START_BEFORE_DETACH) L s o s' outs = Some L' /\
    linv (VBus.view fixed C03_BUS_START_BEFORE_DETACH) L' s' /\ In (OBack a, k) (refs (ls_led L')).
Proof. exact bus_failed_send_keeps. Qed.
Print Assumptions bus_failed_send_keeps_message_holds.

(* ================= 5. every free names the size of the allocation ================= *)
(* lmq.c keeps the ring's size in a field of its own: on every history the size handed to
   nni_free (lmq_alloc cells) is the size of the ring that is freed; lmq_alloc = 0 is the inline buffer *)
Theorem sized_free_matches_alloc_lmq : forall fixed ops q outs q',
  lmq_sized q -> LmqModel.lmq_run fixed q ops = Some (outs, q') -> lmq_sized q'.
Proof. exact lmq_sized_free_matches_alloc. Qed.
Print Assumptions sized_free_matches_alloc_lmq.
Theorem sized_free_lmq_init : forall fixed cap fail q, LmqModel.lmq_init fixed cap fail = Some q -> lmq_sized q.
Proof. exact lmq_init_sized. Qed.
Print Assumptions sized_free_lmq_init.
(* msgqueue.c, idhash.c, message.c: their models identify the size field with the length of the
   modelled buffer, so there the statement is definitional (the accounting allocator checks the C) *)
Theorem sized_free_matches_alloc_msgq : forall q, MsgqModel.mq_alloc q = length (MsgqModel.mq_cells q).
Proof. exact msgq_free_size_is_alloc_size. Qed.
Print Assumptions sized_free_matches_alloc_msgq.
Theorem sized_free_matches_alloc_idmap : forall m, IdMapModel.id_cap m = length (IdMapModel.id_entries m).
Proof. exact idmap_free_size_is_alloc_size. Qed.
Print Assumptions sized_free_matches_alloc_idmap.
Theorem sized_free_matches_alloc_chunk : forall c, MsgModel.ch_cap c = length (MsgModel.ch_buf c).
Proof. exact chunk_free_size_is_alloc_size. Qed.
Print Assumptions sized_free_matches_alloc_chunk.

From Coq Require Import Permutation.
From NngV Require Import Ledger.ChunkAlloc Ledger.ChunkAllocProofs Ledger.ChunkCur.
(* message.c again, this time with the cap FIELD kept apart from the size the block was allocated
   with (Ledger/ChunkAlloc.v: nni_chunk_grow / append / insert / trim / chop / dup / free, nni_msg_alloc /
   dup / realloc / reserve / free, the header operations; every function returns its allocator events).
   For every history of message operations in any number of slots, with any choice of failing
   allocations, messages handed to sends and adopted from receives: every event is acceptable to the
   allocator's books -- an id is allocated once, a free names a live block with the size it was
   allocated with -- and the books equal what the slots hold, so they are empty once every message
   has been freed or sent.  `sane` = in both re-allocating branches of nni_chunk_grow the old buffer is
   freed BEFORE the cap field is overwritten. *)
Theorem sized_free_matches_alloc_msg_ops : forall cf n ops st evs,
  sane cf -> mrun cf (ms_init n) ops = (st, evs) ->
  exists t, treplay [] evs = Some t /\ Permutation t (owned cf (s_slots st)).
Proof. exact chunk_events_sized. Qed.
Print Assumptions sized_free_matches_alloc_msg_ops.
Theorem msg_ops_books_empty_after_free : forall cf n ops st evs,
  sane cf -> mrun cf (ms_init n) ops = (st, evs) -> all_empty st -> treplay [] evs = Some [].
Proof. exact chunk_books_empty_after_free. Qed.
Print Assumptions msg_ops_books_empty_after_free.
(* what an accepted free says: the books hold that block with exactly that size and no other *)
Theorem accepted_free_names_allocated_size : forall t b n t',
  ids_unique t -> tstep t (EF b n) = Some t' -> In (b, n) t /\ (forall n', In (b, n') t -> n' = n).
Proof. exact free_names_allocated_size. Qed.
Print Assumptions accepted_free_names_allocated_size.
(* the current source has that order (both flags are read from message.c on every run) *)
Theorem msg_ops_current_source_sane : forall ssz, sane (chunk_cfg_cur ssz).
Proof. intros ssz. split; reflexivity. Qed.
Print Assumptions msg_ops_current_source_sane.
Theorem sized_free_matches_alloc_msg_ops_holds : forall ssz n ops st evs,
  mrun (chunk_cfg_cur ssz) (ms_init n) ops = (st, evs) ->
  exists t, treplay [] evs = Some t /\ Permutation t (owned (chunk_cfg_cur ssz) (s_slots st)).
Proof. intros ssz n ops st evs H. exact (chunk_events_sized _ n ops st evs (msg_ops_current_source_sane ssz) H). Qed.
Print Assumptions sized_free_matches_alloc_msg_ops_holds.
(* with the cap field overwritten first the statement is false: nng_msg_alloc(&m, 16) and
   nng_msg_append(m, buf, 300) free the block of 80 bytes as 348 *)
Theorem sized_free_matches_alloc_msg_ops_refuted_cap_first :
  exists ops st evs, mrun (cfg_of true) (ms_init 1) ops = (st, evs) /\ treplay [] evs = None.
Proof. exact chunk_events_sized_refuted_cap_first. Qed.
Print Assumptions sized_free_matches_alloc_msg_ops_refuted_cap_first.
(* not vacuous: 12 events, two blocks still held at the end, the last append refused *)
Example msg_ops_books_nonvacuous :
  let '(st, evs) := mrun (cfg_of false) (ms_init 2)
     [(MAlloc 0 4, None); (MInsert 0 100, None); (MDup 0 1, None); (MReserve 1 4096, None);
      (MAlloc 0 1, None); (MFree 0, None); (MRealloc 1 9000, None); (MAppend 1 8, Some 0%nat)] in
  evs = [EA 0 248; EA 1 68; EA 2 136; EF 1 68; EA 3 248; EA 4 136; EA 5 4096; EF 4 136; EF 2 136;
         EF 0 248; EA 6 9000; EF 5 4096] /\
  treplay [] evs = Some [(6%nat, 9000%N); (3%nat, 248%N)] /\ mobs st 1 = Some (9000, 0, 9000, 9000, 0)%N.
Proof. exact chunk_books_nonvacuous. Qed.

(* ================= 6. non-vacuity ================= *)
(* a history on which the ledger works: PUB, two subscribers, two sends (clones), one transport
   completion, one failed completion, a buffer shrink that frees a queued copy -- the contract
   holds, the replay succeeds, two references to one object remain *)
Example ledger_nonvacuous :
  ops_ok PubModel.pub_step PubSubProofs3.pub_op_ok PubModel.pub_init w_pub_ops /\
  match replay_run view_pub PubModel.pub_step ls_init PubModel.pub_init w_pub_ops with
  | Some (L, s) => lib_ref_count (ls_led L) = 2 /\ lib_obj_count (ls_led L) = 1 /\ forallb entry_okb (ls_led L) = true
  | None => False
  end.
Proof. exact ledger_nonvacuous_w. Qed.
(* the contracts of the other protocols are satisfiable on real exchanges: Examples *_ok_nonvacuous in
   Ledger/OwnPubSub.v, OwnPairBus.v, OwnSurvey.v, OwnXReqRep.v *)
