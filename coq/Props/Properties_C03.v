(* Properties_C03: statements only.  C03 -- message ownership, memory safety and no leaks
   for any API usage.  (UNDER CONSTRUCTION: the per-protocol theorems are added as their
   laws are proved.) *)
From Coq Require Import List Arith NArith Bool.
From NngV Require Import Proto.Common Proto.PushModel Proto.PullModel Proto.PushProofs
  Ledger.Ledger Ledger.LedgerProofs Ledger.LawTac Ledger.Views Ledger.OwnPipeline.
Import ListNotations.

(* the ledger: every event keeps "reference count = number of owners > 0, ids unique" *)
Theorem ledger_event_keeps_balance : forall l ev l', balanced l -> apply_ev l ev = Some l' -> balanced l'.
Proof. exact apply_ev_balanced. Qed.
Print Assumptions ledger_event_keeps_balance.

Theorem ledger_free_needs_owner : forall l i o l', apply_ev l (LFree i o) = Some l' -> holds l i o.
Proof. exact free_needs_owner. Qed.
Print Assumptions ledger_free_needs_owner.
