(* Properties_C01: statements only.  C01 -- whole-message integrity on every
   transport, under any segmentation.

   Models: Codec/IovModel.v (nni_aio_iov_advance / _count / set_iov, the send
   loop), Codec/SpFrameModel.v (tcp.c / ipc.c / sockfd.c sender, receiver,
   negotiation), Codec/InprocModel.v (inproc hand-off + nni_msg_pull_up),
   Codec/WsMsgModel.v (C16: websocket message mode), Proto/ReqRepBacktrace.v
   (the receiving protocol's re-parse of a raw header).  All theorems are
   unbounded (induction over message lists, chunk lists, count sequences,
   operation histories); none is a sweep. *)
From Coq Require Import List Arith NArith Bool Lia Sorted.
From NngV Require Import Gen.Consts Base.ListX Base.Bytes Codec.Staged Codec.IovModel Codec.IovProofs
  Codec.SpFrameModel Codec.SpFrameProofs Codec.SpNegoProofs Codec.SpHeaderProofs
  Msg.MsgModel Msg.MsgSpec Msg.MsgProofs Codec.InprocModel Codec.InprocProofs
  Codec.WsFrameModel Codec.WsMsgModel Codec.WsProofs Codec.WsBpModel Codec.WsBpProofs Proto.Common Proto.ReqRepBacktrace.
Import ListNotations.
Local Open Scope N_scope.

(* ------------------------------------------------------------ receive side *)
(* For ALL message lists [ms] (every message letin by the size limits of the
   configuration) and ALL ways [ps] of cutting the concatenation of their
   frames into pieces -- pieces of any size: what a readv does not take stays in
   the kernel and every readv returns min(asked, available) -- the receiver as
   coded runs without any out-of-range access (the result is not None), reports
   no error, and delivers exactly the messages, in order, each once: the event
   list is [RAlloc |m1|; RDeliver m1; RAlloc |m2|; RDeliver m2; ...].  It ends
   at a frame boundary (R ... sp_dinit: a read of the next length header is
   posted, nothing buffered). *)
Theorem rx_segmentation_independent : forall cfg ms ps st0,
  rx_init (r_kind cfg) = Some st0 -> Forall (msg_letin cfg) ms -> concat ps = frames cfg ms ->
  exists st', rx_feed_all cfg st0 ps = Some (st', frame_events ms) /\
              SpFrameModel.deliveries (frame_events ms) = map sp_wire ms /\ no_error (frame_events ms) /\
              R cfg st' sp_dinit.
Proof.
  intros cfg ms ps st0 H1 H2 H3. destruct (rx_all_cuts cfg ms ps st0 H1 H2 H3) as (st' & A & B).
  exists st'. split; [exact A|]. split; [apply deliveries_frame_events|]. split; [apply no_error_frame_events|exact B].
Qed.
Print Assumptions rx_segmentation_independent.

(* a prefix of the stream (a connection cut anywhere, the rest still to come or
   never coming), itself cut into pieces in any way: the deliveries are a
   prefix of the messages -- complete messages only -- and no error is raised *)
Theorem rx_prefix_delivers_prefix : forall cfg ms ps pre post st0,
  rx_init (r_kind cfg) = Some st0 -> Forall (msg_letin cfg) ms ->
  pre ++ post = frames cfg ms -> concat ps = pre ->
  exists st' ev, rx_feed_all cfg st0 ps = Some (st', ev) /\
    (exists n, ev = firstn n (frame_events ms)) /\
    (exists j, SpFrameModel.deliveries ev = firstn j (map sp_wire ms)) /\ no_error ev.
Proof. exact rx_all_cuts_prefix. Qed.
Print Assumptions rx_prefix_delivers_prefix.

(* the same through single completions: every piece is what ONE readv returned
   (non-empty, within what was asked for: [fits]) *)
Theorem rx_single_completions : forall cfg ms ps st0,
  rx_init (r_kind cfg) = Some st0 -> Forall (msg_letin cfg) ms -> concat ps = frames cfg ms ->
  fits cfg sp_dinit ps ->
  exists st', rx_steps cfg st0 ps = Some (st', frame_events ms) /\ R cfg st' sp_dinit.
Proof. exact rx_steps_cuts. Qed.
Print Assumptions rx_single_completions.

(* the receiver as coded refines the staged decoder on EVERY byte stream
   (well-formed or not), every piece size: same events, related states *)
Theorem rx_refines_staged : forall cfg c d x, R cfg c d ->
  exists c' ev, rx_feed cfg c x = Some (c', ev) /\ R cfg c' (fst (sp_feed cfg d x)) /\ snd (sp_feed cfg d x) = ev.
Proof. exact rx_feed_refines. Qed.
Print Assumptions rx_refines_staged.

Theorem rx_staged_segmentation_independent : forall cfg rest p d,
  sp_feed_all cfg d (p :: rest) = sp_feed cfg d (concat (p :: rest)).
Proof. intros cfg. exact (feed_all_concat sp_phase rx_event (sp_want (r_kind cfg)) (sp_cb cfg)). Qed.
Print Assumptions rx_staged_segmentation_independent.

(* --------------------------------------------------------------- send side *)
(* nni_aio_iov_advance / nni_aio_iov_count against their specification *)
Theorem iov_advance_correct : forall a n, WF a -> n <= total (live a) ->
  exists a' r, iov_advance a n = Some (a', r) /\ WF a' /\ live a' = drop_iov n (live a) /\
               (a_nio a' <= a_nio a)%nat /\ iov_count a' = Some (total (live a) - n) /\
               forall mem b, iov_bytes mem (live a) = Some b ->
                             iov_bytes mem (live a') = Some (skipn (N.to_nat n) b).
Proof.
  intros a n HW Hn. destruct (iov_advance_spec a n HW Hn) as (a' & r & H1 & H2 & H3 & H4).
  exists a', r. split; [exact H1|]. split; [exact H2|]. split; [exact H3|]. split; [exact H4|]. split.
  - rewrite (iov_count_spec a' H2), H3, (total_drop _ _ Hn). reflexivity.
  - intros mem b HB. rewrite H3. apply iov_bytes_drop; assumption.
Qed.
Print Assumptions iov_advance_correct.

(* For every message and every sequence [ks] of byte counts accepted by the
   stream (each clamped to what is offered): the run stays inside the iov array
   and the buffers (not None), the vector keeps NNI_AIO_MAX_IOV slots with at
   most 3 live entries, the bytes handed to the stream are a prefix of the
   frame, and exactly the frame when the loop finishes; while it has not
   finished, positive counts have made progress at every completion. *)
Theorem tx_partial_writes : forall k m ks,
  exists w a fin, send_msg k m ks = Some (w, a, fin) /\ WF a /\ (a_nio a <= 3)%nat /\
    prefix_of w (frame k m) /\ (fin = true -> w = frame k m) /\
    (fin = false -> Forall (fun x => 0 < x) ks ->
       (length ks <= length w)%nat /\ (ks <> [] -> (length w < length (frame k m))%nat)).
Proof. exact send_msg_spec. Qed.
Print Assumptions tx_partial_writes.

(* termination: positive counts finish the frame within |frame| completions *)
Theorem tx_terminates : forall k m ks, Forall (fun x => 0 < x) ks -> (length (frame k m) <= length ks)%nat ->
  exists a, send_msg k m ks = Some (frame k m, a, true).
Proof. exact send_msg_finishes. Qed.
Print Assumptions tx_terminates.

(* ------------------------------------------------ header in front of the body *)
(* the frame is length ++ header ++ body; one frame through the receiver (any
   cutting) delivers header ++ body; the receiving protocol's hop loop gives
   back exactly (header, body) for every backtrace within TTL and header size *)
Theorem header_travels_in_front : forall cfg m ps st0 ttl p,
  rx_init (r_kind cfg) = Some st0 -> msg_letin cfg m -> concat ps = frame (r_kind cfg) m ->
  backtrace (sp_hdr m) -> (length (sp_hdr m) <= 4 * ttl)%nat ->
  (exists h, N.of_nat (length h) = head_len (r_kind cfg) /\ frame (r_kind cfg) m = h ++ sp_hdr m ++ sp_body m) /\
  (exists st', rx_feed_all cfg st0 ps = Some (st', [RAlloc (N.of_nat (length (sp_wire m))); RDeliver (sp_hdr m ++ sp_body m)])) /\
  ((length (sp_hdr m) <= BT_HEADER_MAX)%nat ->
     rep_recv ttl (sp_hdr m ++ sp_body m) = BtDeliver (mkPmsg (sp_hdr m) (sp_body m))) /\
  ((4 + length (sp_hdr m) <= BT_HEADER_MAX)%nat ->
     xrep_recv p ttl (sp_hdr m ++ sp_body m) = BtDeliver (mkPmsg (be32 p ++ sp_hdr m) (sp_body m))).
Proof.
  intros cfg m ps st0 ttl p HI HA HC HB HT. split; [|split].
  - eexists. split; [apply tx_head_length|reflexivity].
  - destruct (rx_all_cuts cfg [m] ps st0 HI) as (st' & A & _).
    + constructor; [exact HA|constructor].
    + unfold frames. cbn [map concat]. rewrite app_nil_r. exact HC.
    + exists st'. exact A.
  - apply reparse_recovers_header; assumption.
Qed.
Print Assumptions header_travels_in_front.

(* ------------------------------------------------------------- negotiation *)
Theorem nego_tx_any_partial_writes : forall k proto ks,
  exists w st o, nego_tx_run (fst (nego_start k proto)) (sp_header proto) ks = Some (w, st, o) /\
    prefix_of w (sp_header proto) /\ ng_gottx st = N.of_nat (length w) /\ ng_gotrx st = 0 /\
    ((o = [NRecv 8] /\ w = sp_header proto) \/ (o = [] /\ (length w < 8)%nat)) /\
    (Forall (fun x => 0 < x) ks -> (8 <= length ks)%nat -> w = sp_header proto /\ o = [NRecv 8]).
Proof. exact nego_tx_exact. Qed.
Print Assumptions nego_tx_any_partial_writes.

Theorem nego_rx_any_segmentation : forall k proto cs, let s := concat cs in
  exists st o rest, nego_rx_all (nego_sent k proto) cs = Some (st, o, rest) /\
    ((length s < 8)%nat -> ng_done st = false /\ rest = [] /\ only_recv o) /\
    ((8 <= length s)%nat -> ng_done st = true /\ rest = skipn 8 s /\
        exists pre, only_recv pre /\ o = pre ++ [nego_verdict (firstn 8 s)]).
Proof. exact nego_rx_exact. Qed.
Print Assumptions nego_rx_any_segmentation.

Theorem nego_header_roundtrip : forall proto, proto < 65536 ->
  nego_verdict (sp_header proto) = NReady proto.
Proof.
  intros proto H.
  assert (L: length (sp_header proto) = 8%nat) by apply sp_header_length.
  assert (B: bytes_ok (sp_header proto)).
  { unfold sp_header. apply Forall_app. split; [repeat constructor; lia|].
    apply Forall_app. split; [apply be_enc_ok|repeat constructor; lia]. }
  destruct (nego_verdict_exact _ L B) as [Iff _]. apply Iff. auto.
Qed.
Print Assumptions nego_header_roundtrip.

(* ------------------------------------------------------------------ inproc *)
(* [chk]: nni_msg_pull_up tests the result of nni_msg_insert (the repaired
   form); the current source is C01_PULLUP_CHECKS_INSERT (Gen/Consts.v). *)
Theorem inproc_pullup_exact : forall chk m sh, Inv m ->
  exists m', ip_pull_up chk m sh false false = Some (Some m') /\ Inv m' /\ abs m' = ([], m_hdr m ++ body_of m).
Proof. exact pull_up_exact. Qed.
Print Assumptions inproc_pullup_exact.

(* under every allocation oracle: never out of bounds; dropped (None) only on
   an allocation failure; delivered with the header in front of the body --
   except, for the unrepaired text only, in the case exhibited next *)
Theorem inproc_pullup_total : forall chk m sh f1 f2, Inv m ->
  exists r, ip_pull_up chk m sh f1 f2 = Some r /\
    match r with
    | Some m' => Inv m' /\ m_hdr m' = [] /\
        (body_of m' = m_hdr m ++ body_of m \/
         (chk = false /\ f2 = true /\ sh = false /\ (chunk_room (m_body m) <? length (m_hdr m))%nat = false /\
          body_of m' = body_of m))
    | None => f1 || f2 = true
    end.
Proof. exact pull_up_spec. Qed.
Print Assumptions inproc_pullup_total.

(* "delivered completely or not at all" is FALSE of nni_msg_pull_up as pinned
   (chk = false) when the allocation inside nni_msg_insert fails: the failure is
   ignored and the header bytes are lost (the message is delivered truncated).
   Witness: 20 body bytes in a 64-byte chunk with 32 bytes of headroom, a
   40-byte header.  Replayed on the library: `pullup <20 bytes> <40 bytes> 0 0`
   in harness/wb_c01.c. *)
Theorem inproc_pullup_enomem_refuted :
  exists m', ip_pull_up false pullup_witness false false true = Some (Some m') /\
             m_hdr m' = [] /\ body_of m' = repeat 9%N 20 /\ m_hdr pullup_witness = repeat 7%N 40.
Proof. exact pull_up_enomem_loses_header. Qed.
Print Assumptions inproc_pullup_enomem_refuted.

(* every history of sends / receives / cancellations / close on one queue,
   every allocation oracle: each message leaves through the hand-off at most
   once, in the order of the sends; a dropped one had an allocation fail; a
   delivered one is the message sent under that number, pulled up *)
Theorem inproc_fifo_once_partial : forall chk ops, sends_inv ops ->
  exists q outs, ip_run chk ip_init ops = Some (q, outs) /\
    StronglySorted lt (fate_seqs outs) /\ NoDup (fate_seqs outs) /\
    Forall (handoff_ok chk (sent_msgs ops)) (handoffs outs) /\ Forall (drop_ok (sent_msgs ops)) (drops outs).
Proof. exact fifo_once. Qed.
Print Assumptions inproc_fifo_once_partial.
(* _partial: for chk = false [handoff_ok] lets in, for a message whose chunk
   allocation was made to fail, delivery of the body without its header (the
   defect above).  The full statement "delivered whole, in order, once, or
   dropped whole (allocation failure only)" holds of the repaired text under
   every oracle, and of both texts when no allocation fails: *)
Theorem inproc_fifo_once_repaired : forall ops, sends_inv ops ->
  exists q outs, ip_run true ip_init ops = Some (q, outs) /\
    StronglySorted lt (fate_seqs outs) /\ NoDup (fate_seqs outs) /\
    Forall (fun sm => exists m f1 f2, nth_error (sent_msgs ops) (fst sm) = Some (m, f1, f2) /\
                      abs (snd sm) = ([], m_hdr m ++ body_of m)) (handoffs outs) /\
    Forall (drop_ok (sent_msgs ops)) (drops outs).
Proof. exact fifo_whole_or_nothing. Qed.
Print Assumptions inproc_fifo_once_repaired.

Theorem inproc_fifo_once : forall chk ops, sends_inv ops -> no_alloc_failure ops ->
  exists q outs, ip_run chk ip_init ops = Some (q, outs) /\
    StronglySorted lt (map fst (handoffs outs)) /\ drops outs = [] /\
    Forall (fun sm => exists m f1 f2, nth_error (sent_msgs ops) (fst sm) = Some (m, f1, f2) /\
                      abs (snd sm) = ([], m_hdr m ++ body_of m)) (handoffs outs).
Proof. exact fifo_exact_no_failure. Qed.
Print Assumptions inproc_fifo_once.

(* which of the two texts the current source is *)
Theorem inproc_current_source :
  C01_PULLUP_CHECKS_INSERT = false \/ C01_PULLUP_CHECKS_INSERT = true.
Proof. destruct C01_PULLUP_CHECKS_INSERT; auto. Qed.
Print Assumptions inproc_current_source.

(* --------------------------------------------------- websocket message mode *)
(* (C16) the SP websocket transport sends header ++ body as one message:
   fragmented at any fragsize, encoded, cut anywhere, it is reassembled exactly *)
Theorem ws_message_roundtrip : forall cfg fragsize (m : sp_msg) keys,
  c_isstream cfg = false -> N.of_nat (length (sp_wire m)) < 2 ^ 64 ->
  let frs := ws_send_frames false false fragsize (sp_wire m) in
  (length frs <= length keys)%nat -> Forall (fun k => length k = 4%nat) keys ->
  letin_along cfg ws_init frs ->
  forall p rest, concat (p :: rest) = ws_encode_frames (negb (c_server cfg)) keys frs ->
  let '(d, e) := ws_feed_all cfg ws_dinit (p :: rest) in
  WsProofs.deliveries e = [sp_hdr m ++ sp_body m] /\ d = ws_dinit.
Proof.
  intros cfg fragsize m keys H1 H2. cbv zeta. intros H3 H4 H5 p rest H6.
  apply (ws_fragmentation_bytes cfg false fragsize (sp_wire m) keys H1); auto. discriminate.
Qed.
Print Assumptions ws_message_roundtrip.

(* back-pressure: receivers come and go while frames arrive.  With the gate of
   ws_start_read as written (the generated constant C01_WS_READ_GATE_RXQ, tied
   below), for ANY interleaving of frame arrivals and receive requests the
   messages handed over are a prefix of the FIN-delimited groups of the frames
   that arrived: the boundary of a message does not depend on whether a
   receiver was waiting.  (Frame level; data frames of well-formed sequences.) *)
Theorem ws_boundaries_independent_of_receivers : forall evs,
  let D := snd (bp_run true bp_init evs) in
  D = firstn (length D) (messages (arrived evs)).
Proof. exact bp_boundaries_independent_of_receivers. Qed.
Print Assumptions ws_boundaries_independent_of_receivers.

(* the read-ahead variant of the gate merges messages that arrive while nobody
   receives (why the gate matters) *)
Theorem ws_readahead_gate_refuted :
  let evs := [BRecv; BArrive (mkFr true [65]); BArrive (mkFr true [66]); BArrive (mkFr true [67]); BRecv; BRecv] in
  snd (bp_run false bp_init evs) = [[65]; [66; 67]] /\ snd (bp_run true bp_init evs) = [[65]; [66]; [67]].
Proof. exact bp_readahead_merges. Qed.
Print Assumptions ws_readahead_gate_refuted.

(* ------------------------------------------------------------------ consts *)
Theorem c01_consts_match :
  MAX_IOV = NNI_AIO_MAX_IOV /\
  (head_len KTcp, head_len KIpc) = (C01_TCP_HEAD_LEN, C01_IPC_HEAD_LEN) /\
  MAX_STREAM_MSGSZ = C01_MAX_STREAM_MSGSZ /\ RECVMAXSZ_DEFAULT = C01_RECVMAXSZ_DEFAULT /\
  (NNG_ENOMEM, NNG_EPROTO, NNG_EMSGSIZE, NNG_ECLOSED, NNG_ECONNSHUT) =
    (C01_NNG_ENOMEM, C01_NNG_EPROTO, C01_NNG_EMSGSIZE, C01_NNG_ECLOSED, C01_NNG_ECONNSHUT) /\
  sp_header 0 = C01_NEGO_HEADER /\ C01_RX_CHECKS_BEFORE_ALLOC = true /\ C01_IPC_TYPE_CHECK = true /\
  C01_WS_READ_GATE_RXQ = true.
Proof. repeat split; reflexivity. Qed.
Print Assumptions c01_consts_match.

(* ------------------------------------------------------------- non-vacuity *)
Example rx_nonvacuous :
  let cfg := mkRxCfg KIpc 100 1000 in
  let ms := [mkSp [128; 0; 0; 1] [3; 4; 5]; mkSp [] []; mkSp [] [9]] in
  Forall (msg_letin cfg) ms /\
  (exists st0, rx_init KIpc = Some st0 /\
     option_map snd (rx_feed_all cfg st0 [firstn 7 (frames cfg ms); skipn 7 (frames cfg ms)]) =
       Some [RAlloc 7; RDeliver [128; 0; 0; 1; 3; 4; 5]; RAlloc 0; RDeliver []; RAlloc 1; RDeliver [9]]).
Proof.
  cbv zeta. split.
  - repeat constructor; cbn; lia.
  - eexists. split; [reflexivity|]. vm_compute. reflexivity.
Qed.

Example tx_nonvacuous :
  option_map (fun r => fst (fst r)) (send_msg KTcp (mkSp [1; 2] [3; 4; 5]) [3; 1; 7; 100]) =
    Some [0; 0; 0; 0; 0; 0; 0; 5; 1; 2; 3; 4; 5].
Proof. vm_compute. reflexivity. Qed.

Example inproc_nonvacuous :
  exists m, msg_alloc 5 false false = Some (0%N, Some m) /\
    sends_inv [ISend 1 m false false false; IRecv 2] /\ no_alloc_failure [ISend 1 m false false false; IRecv 2].
Proof.
  destruct (alloc_spec 5) as (m & A & HI & _). exists m. split; [exact A|]. split.
  - intros a m0 sh f1 f2 [H|[H|[]]]; inversion H; subst; exact HI.
  - intros a m0 sh f1 f2 [H|[H|[]]]; inversion H; subst; auto.
Qed.
