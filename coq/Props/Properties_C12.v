(* Properties_C12: statements only.  C12 -- REQ keeps retrying until answered; no
   hang when retry is disabled.  Model: Proto/ReqModel.v (req.c); time is the N
   carried by PTick; `pending s k m' = context k is on the send queue holding
   request m (its request is intact). *)
From Coq Require Import List Arith NArith Bool ZArith.
From NngV Require Import Gen.Consts Proto.Common Proto.ReqRepBacktrace Proto.ReqModel Proto.ReqRepProofs Proto.ReqProofs.
From NngV Require Import Proto.PollModel Proto.PollReq Proto.ReqProgressProofs.
From NngV Require Proto.ReqIdsProofs Proto.ReqStashProofs.
Import ListNotations.

(* PARTIAL: stated for a pipe whose `contexts' list holds exactly this context (the
   walk over several contexts awaiting replies on one pipe is covered by the
   correspondence runs only).  Retry enabled: the context last written to the lost
   pipe is back on the send queue with its request intact, or already transmitted
   again because another pipe was ready *)
Theorem req_requeue_on_pipe_loss_partial : forall fx s p k c m s' outs,
  rq_plist s = [(p, k)] -> ctx_get s k = Some c -> retry_on fx c = true -> cx_req c = Some m ->
  req_step fx s (PPipeClose p) = (s', outs) ->
  pending s' k m \/ exists q, In (TranSend q m) outs.
Proof. exact req_pipe_loss_requeues. Qed.
Print Assumptions req_requeue_on_pipe_loss_partial.

(* the retry timer fires (strictly after its deadline) with the clock at or past
   the context's retry time: queued again, or transmitted at once *)
Theorem req_resend_on_tick : forall fx s now d k c m s' outs,
  rq_closed s = false -> rq_active s = true -> rq_tickdl s = Some d -> (d < now)%N ->
  In k (rq_retryq s) -> ctx_get s k = Some c -> cx_req c = Some m -> (cx_rtime c <= now)%N ->
  req_step fx s (PTick now) = (s', outs) ->
  pending s' k m \/ exists p, In (TranSend p m) outs.
Proof. exact req_tick_resends. Qed.
Print Assumptions req_resend_on_tick.

(* non-empty send queue and a ready pipe: the head request goes to the head pipe *)
Theorem req_sent_when_pipe_ready : forall fx s k sq p rd c m,
  rq_sendq s = k :: sq -> rq_ready s = p :: rd -> ctx_get s k = Some c -> cx_req c = Some m ->
  exists s' outs cl, run_send_queue fx s = (s', outs, cl) /\ In (TranSend p m) outs.
Proof. exact req_sent_when_ready. Qed.
Print Assumptions req_sent_when_pipe_ready.

(* running the send queue never loses a queued request: still queued and intact, or transmitted *)
Theorem req_queue_never_drops : forall fx s k m s' outs cl,
  pending s k m -> run_send_queue fx s = (s', outs, cl) -> pending s' k m \/ exists p, In (TranSend p m) outs.
Proof. exact run_send_queue_pending. Qed.
Print Assumptions req_queue_never_drops.

(* req_progress as bounded progress.  The single steps of the liveness argument:
   (1) pipe loss or (2) an expired retry time put the request back on the send
   queue (theorems above), (3) a pipe that becomes ready takes the head of the
   queue in that very step, (4) a matching reply completes the posted receive in
   that very step ... *)
Theorem req_progress_steps :
  (forall fx s p k sq c m s' outs,
     rq_ready s = [] -> rq_sendq s = k :: sq -> ctx_get s k = Some c -> cx_req c = Some m ->
     req_step fx s (PPipeStart p PROTO_REP) = (s', outs) -> In (TranSend p m) outs) /\
  (forall fx s p m id b k c a,
     req_recv (pm_body m) = Some (id, b) -> matchable s id k c -> cx_recv c = Some a ->
     exists s', exists outs, req_step fx s (PRecvDone p 0 m) = (s', outs) /\ In (Complete a E_OK (Some b)) outs).
Proof. split; [exact req_pipe_start_progress|exact req_match_completes]. Qed.
Print Assumptions req_progress_steps.
(* ... and (5) the induction over the position in the send queue: a request at
   position i of the queue is transmitted after i+1 pipe-ready events, on the
   (i+1)-th of those pipes, whatever else is queued before or behind it (`run_outs'
   = the outputs of a list of steps, `starts ps' = PPipeStart p for p in ps).
   First for any state whose queued contexts hold requests, then for every
   reachable state of the repaired model (where that, and "no pipe idle while
   requests wait", are consequences of the reachable-state invariant RInv). *)
Theorem req_queue_position_progress : forall fx ps s pre k post c m,
  rq_ready s = [] ->
  rq_sendq s = pre ++ k :: post ->
  (forall k', In k' (rq_sendq s) -> exists c' m', ctx_get s k' = Some c' /\ cx_req c' = Some m') ->
  ctx_get s k = Some c -> cx_req c = Some m ->
  length ps = S (length pre) ->
  exists p, In p ps /\ In (TranSend p m) (snd (run_outs fx s (starts ps))).
Proof. exact ReqProgressProofs.req_queue_position_progress. Qed.
Print Assumptions req_queue_position_progress.
Theorem req_queue_position_exact : forall fx ps s pre k post c m,
  rq_ready s = [] -> rq_sendq s = pre ++ k :: post ->
  (forall k', In k' (rq_sendq s) -> exists c' m', ctx_get s k' = Some c' /\ cx_req c' = Some m') ->
  ctx_get s k = Some c -> cx_req c = Some m ->
  length pre < length ps ->
  In (TranSend (nth (length pre) ps 0%N) m) (snd (run_outs fx s (starts ps))).
Proof. exact ReqProgressProofs.req_queue_position_exact. Qed.
Print Assumptions req_queue_position_exact.
Theorem req_queue_position_progress_reachable : forall fx ps s pre k post,
  fx_rdclr fx = true -> reachable (M_req fx) s ->
  rq_sendq s = pre ++ k :: post ->
  length ps = S (length pre) ->
  exists c m, ctx_get s k = Some c /\ cx_req c = Some m /\
    exists p, In p ps /\ In (TranSend p m) (snd (run_outs fx s (starts ps))).
Proof. exact ReqProgressProofs.req_queue_position_progress_reachable. Qed.
Print Assumptions req_queue_position_progress_reachable.
(* non-vacuity: three requests queued with no pipe; three pipes; the third request
   leaves on the third pipe *)
Example req_queue_position_nonvacuous :
  rq_ready s_queue3 = [] /\ rq_sendq s_queue3 = [0%N; 1%N] ++ 2%N :: [] /\
  reachable (M_req fx_repaired) s_queue3 /\
  In (TranSend 3%N w_wire3) (snd (run_outs fx_repaired s_queue3 (starts [1%N; 2%N; 3%N]))).
Proof.
  destruct ReqProgressProofs.req_queue_position_nonvacuous as (A & B & _ & _ & R & O).
  split; [exact A|]. split; [exact B|]. split; [exact R|]. rewrite O. cbn. tauto.
Qed.
(* PARTIAL (what is still missing of req_progress): the composition of (1)-(5)
   into one statement over whole histories (loss or tick, requeue, position
   argument, reply) under a fairness assumption on pipe arrivals. *)

(* resending disabled (PARTIAL in the same sense as above: single context on the
   pipe's list): the loss of the connection never queues the request again; it
   completes the pending receive with NNG_ECONNRESET, or marks the context so that
   the next receive reports NNG_ECONNRESET (req_state_errors, third clause) *)
Theorem req_noretry_at_most_once_and_reset_partial : forall fx s p k c s' outs,
  rq_plist s = [(p, k)] -> ctx_get s k = Some c -> retry_on fx c = false ->
  req_step fx s (PPipeClose p) = (s', outs) ->
  ~ In k (rq_sendq s') /\
  exists c', ctx_get s' k = Some c' /\ cx_req c' = None /\ cx_recv c' = None /\
    (forall a, cx_recv c = Some a -> In (Complete a E_CONNRESET None) outs) /\
    (cx_recv c = None -> cx_creset c' = true).
Proof. exact req_pipe_loss_noretry. Qed.
Print Assumptions req_noretry_at_most_once_and_reset_partial.

(* pinned req.c: with resending disabled a reply that was received and stashed is
   thrown away when its connection goes afterwards (the receive reports
   NNG_ECONNRESET); repaired: it is delivered *)
Theorem req_stashed_reply_survives_refuted :
  nth 6 (outs_of (snd (req_run fx_pinned req_init w_stash))) [] = [Complete 9%N E_CONNRESET None].
Proof. exact req_stashed_reply_survives_refuted_w. Qed.
Print Assumptions req_stashed_reply_survives_refuted.
Theorem req_stashed_reply_survives_repaired_witness :
  nth 6 (outs_of (snd (req_run fx_repaired req_init w_stash))) [] = [Complete 9%N E_OK (Some (mkPmsg [] [187%N]))].
Proof. exact req_stashed_reply_survives_repaired_w. Qed.
Print Assumptions req_stashed_reply_survives_repaired_witness.
(* ... and for every reachable state of the repaired model (fx_stash = true;
   reachability = ReqIdsProofs.req_reach, contract: a context number is not
   opened twice), whatever the resend time: a context that holds a stashed reply
   is on no pipe's list and not on the send queue (invariant stash_inv), so the
   loss of ANY connection leaves that context exactly as it was -- the reply,
   conn_reset and the posted receive -- and the next receive delivers the reply *)
Theorem req_stash_invariant : forall fx s,
  fx_stash fx = true -> ReqIdsProofs.req_reach fx s -> ReqStashProofs.stash_inv s.
Proof. exact ReqStashProofs.reach_stash. Qed.
Print Assumptions req_stash_invariant.
Theorem req_stashed_ctx_untouched_by_pipe_loss : forall fx s k c m p s' outs,
  fx_stash fx = true -> ReqIdsProofs.req_reach fx s -> ctx_get s k = Some c -> cx_rep c = Some m ->
  req_step fx s (PPipeClose p) = (s', outs) -> ctx_get s' k = Some c.
Proof. exact ReqStashProofs.req_stashed_ctx_untouched_by_pipe_loss. Qed.
Print Assumptions req_stashed_ctx_untouched_by_pipe_loss.
Theorem req_stashed_reply_delivered_after_pipe_loss : forall fx s k c m p s' outs,
  fx_stash fx = true -> ReqIdsProofs.req_reach fx s -> ctx_get s k = Some c -> cx_rep c = Some m -> cx_recv c = None ->
  req_step fx s (PPipeClose p) = (s', outs) ->
  forall co a nb, ckey co = k -> exists s'', req_step fx s' (PRecv co a nb) = (s'', [Complete a E_OK (Some m)]).
Proof. exact ReqStashProofs.req_stashed_reply_delivered_after_pipe_loss. Qed.
Print Assumptions req_stashed_reply_delivered_after_pipe_loss.
(* the pinned recv_cb really breaks the invariant (so fx_stash = true is needed), and
   the hypotheses above are met by a concrete reachable state with resending disabled *)
Theorem req_stash_invariant_pinned_refuted :
  exists s, ReqIdsProofs.req_reach fx_pinned s /\ ~ ReqStashProofs.stash_inv s.
Proof. eexists. exact ReqStashProofs.req_stash_inv_refuted_pinned_w. Qed.
Print Assumptions req_stash_invariant_pinned_refuted.
Example req_stashed_nonvacuous :
  fx_stash fx_repaired = true /\ ReqIdsProofs.req_reach fx_repaired ReqStashProofs.w_stashed /\
  ctx_get ReqStashProofs.w_stashed 0%N = Some ReqStashProofs.w_stashed_ctx /\
  cx_rep ReqStashProofs.w_stashed_ctx = Some (mkPmsg [] [187%N]) /\ cx_recv ReqStashProofs.w_stashed_ctx = None /\
  retry_on fx_repaired ReqStashProofs.w_stashed_ctx = false.
Proof. destruct ReqStashProofs.req_stashed_hypotheses_w as (A & B & C & D & E & F & _). repeat (split; [assumption|]). assumption. Qed.

Theorem req_retry_consts_match :
  REQ_RESEND_DEFAULT = Z.of_N C04_REQ_RESEND_DEFAULT /\ REQ_TICK_DEFAULT = Z.of_N C04_REQ_TICK_DEFAULT /\
  rq_retry req_init = REQ_RESEND_DEFAULT /\ rq_tick req_init = REQ_TICK_DEFAULT /\ E_CONNRESET = C04_NNG_ECONNRESET.
Proof. repeat split; reflexivity. Qed.
Print Assumptions req_retry_consts_match.

(* non-vacuity: a request is sent, its pipe is lost, a new pipe appears: it goes out
   again with the same id; a tick past the resend time sends it a third time *)
Example req_retry_nonvacuous :
  let ops := [PSetOpt None (OResendTime 5000); PPipeStart 1%N PROTO_REP; PSend None 0%N false w_req; PPipeClose 1%N;
              PPipeStart 2%N PROTO_REP; PSendDone 2%N 0%N; PTick 7000%N] in
  nth 2 (outs_of (snd (req_run fx_repaired req_init ops))) [] = [Arm 1000%N; Complete 0%N E_OK None; TranSend 1%N w_wire] /\
  nth 4 (outs_of (snd (req_run fx_repaired req_init ops))) [] = [TranSend 2%N w_wire; TranRecv 2%N] /\
  nth 6 (outs_of (snd (req_run fx_repaired req_init ops))) [] = [Arm 8000%N; TranSend 2%N w_wire].
Proof. vm_compute. repeat split; reflexivity. Qed.
