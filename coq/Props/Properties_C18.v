(* Properties_C18: statements only.  C18 -- socket buffers are bounded FIFOs;
   identifiers unique and in range (the id-map statements live in IdMap/IdMapProps.v). *)
From Coq Require Import List Arith NArith.
From NngV Require Import Base.Ring Queue.LmqModel Queue.LmqSpec Queue.LmqProofs Queue.MsgqModel Queue.MsgqProofs.
Import ListNotations.

(* lmq (the per-protocol queues behind RECVBUF/SENDBUF): every history of
   put/get/flush/resize from any state satisfying the invariant runs without an
   out-of-range ring access (the model returns None for those) and is
   observationally the bounded FIFO of LmqSpec: put appends unless full
   (EAGAIN, unchanged), get pops the oldest, resize keeps the first min(len,cap')
   messages in order and frees exactly the rest, flush frees all. *)
Theorem lmq_refines_fifo : forall ops q, LInv q ->
  exists outs q', lmq_run true q ops = Some (outs, q') /\ LInv q' /\ (outs, labs q') = fifo_run (labs q) ops.
Proof. exact lmq_run_refines. Qed.
Print Assumptions lmq_refines_fifo.

Theorem lmq_init_ok : forall cap fail, exists q, lmq_init true cap fail = Some q /\ LInv q /\
  snd (labs q) = [] /\ (fail = false -> q_cap q = cap) /\ (fail = true -> q_cap q = Nat.min cap 2).
Proof. exact lmq_init_inv. Qed.
Print Assumptions lmq_init_ok.

Theorem lmq_ring_indices_in_range : forall q, LInv q ->
  q_len q <= q_cap q /\ q_get q < length (q_cells q) /\ q_put q < length (q_cells q).
Proof. exact lmq_bounded. Qed.
Print Assumptions lmq_ring_indices_in_range.

(* the pinned tree (before the fix: commit) wrote outside the ring *)
Theorem lmq_resize_pinned_refuted : lmq_unfixed_witness = None.
Proof. exact lmq_resize_unfixed_refuted. Qed.
Print Assumptions lmq_resize_pinned_refuted.

(* msgq (raw sockets' queues): one step = one critical section.  Every step
   is total (no out-of-range access), keeps ring, waiter and depth invariants,
   and obeys the per-operation law (FIFO in acceptance order, resize frees only
   the oldest and only as many as exceed cap+1, failed operations change nothing). *)
Theorem msgq_step_ok : forall q o, AllInv q ->
  exists rv q' outs, msgq_step true q o = Some (rv, q', outs) /\ AllInv q' /\ step_law q o rv q' outs.
Proof. exact msgq_step_spec. Qed.
Print Assumptions msgq_step_ok.

(* every history from any invariant state: total, invariants kept, and the
   concatenation of everything accepted equals the concatenation of everything
   delivered or freed followed by what is still buffered -- never reordered,
   duplicated or lost *)
Theorem msgq_refines_fifo : forall ops q, AllInv q ->
  exists q' res, msgq_run true q ops = Some (q', res) /\ AllInv q' /\ length res = length ops /\
    items q ++ run_acc ops res = run_con res ++ items q'.
Proof. exact msgq_run_spec. Qed.
Print Assumptions msgq_refines_fifo.

Theorem msgq_init_ok : forall cap, AllInv (msgq_init cap) /\ items (msgq_init cap) = [].
Proof. exact msgq_init_inv. Qed.
Print Assumptions msgq_init_ok.

(* depth: never more than cap + 1 (the documented in-flight slot, reachable
   only through a shrink); ring indices in range; a blocked reader implies an
   empty queue and no blocked writer *)
Theorem msgq_ring_indices_in_range : forall q, AllInv q ->
  mq_len q <= mq_cap q + 1 /\ mq_get q < mq_alloc q /\ mq_put q < mq_alloc q /\
  (mq_getq q <> [] -> mq_len q = 0 /\ mq_putq q = []).
Proof. exact msgq_bounded. Qed.
Print Assumptions msgq_ring_indices_in_range.

Theorem msgq_depth_le_cap_without_shrink : forall q o rv q' outs, AllInv q -> mq_len q <= mq_cap q ->
  (forall c f, o <> MResize c f) ->
  msgq_step true q o = Some (rv, q', outs) -> mq_len q' <= mq_cap q'.
Proof. exact msgq_len_le_cap. Qed.
Print Assumptions msgq_depth_le_cap_without_shrink.

Theorem msgq_resize_pinned_refuted : msgq_unfixed_witness = None.
Proof. exact msgq_resize_unfixed_refuted. Qed.
Print Assumptions msgq_resize_pinned_refuted.

(* no blocked writer while the queue has room: an invariant of every history since fix
   e654d99 (nni_msgq_aio_get runs the writer side too); the pinned form kept a writer waiting
   on an empty queue (witness; replayed through raw REQ, findings/known_findings.txt) *)
Theorem msgq_no_writer_waits_with_room : forall ops q q' res, AllInv q -> WaitInv q ->
  msgq_run true q ops = Some (q', res) -> WaitInv q'.
Proof. exact msgq_waitinv_run. Qed.
Print Assumptions msgq_no_writer_waits_with_room.
Theorem msgq_get_leaves_writer_pinned_refuted :
  exists q res, msgq_get_witness false = Some (q, res) /\ mq_putq q = [(201, 2)]%N /\ mq_len q = 0 /\ mq_cap q = 1.
Proof. exact msgq_get_leaves_writer_refuted. Qed.
Print Assumptions msgq_get_leaves_writer_pinned_refuted.
Example msgq_waitinv_nonvacuous : AllInv (msgq_init 1) /\ WaitInv (msgq_init 1) /\
  exists q res, msgq_get_witness true = Some (q, res) /\ mq_putq q = [] /\ mq_len q = 1.
Proof. split; [apply msgq_init_inv|]. split; [intros H; exfalso; apply H; reflexivity|exact msgq_get_takes_writer_on_witness]. Qed.

(* non-vacuity: reachable non-trivial states satisfy the invariants *)
Example lmq_inv_nonvacuous : exists q, lmq_run true (mkLmq 2 0 1 0 0 0 [0;0]%N) [LResize 5 false; LPut 1%N; LPut 2%N; LGet] = Some (fst (fifo_run (2, []) [LResize 5 false; LPut 1%N; LPut 2%N; LGet]), q) /\ LInv q /\ q_len q = 1.
Proof.
  destruct (lmq_run_refines [LResize 5 false; LPut 1%N; LPut 2%N; LGet] (mkLmq 2 0 1 0 0 0 [0;0]%N)) as (outs & q & R & HI & E).
  { exists 1. cbn. repeat split; auto. }
  exists q. vm_compute in R. inversion R; subst. repeat split; auto.
Qed.
Example msgq_inv_nonvacuous : exists q r, msgq_run true (msgq_init 2) [MTryPut 1%N; MAioGet 7%N true; MTryPut 2%N] = Some (q, r) /\ AllInv q /\ mq_len q = 1.
Proof.
  destruct (msgq_run_spec [MTryPut 1%N; MAioGet 7%N true; MTryPut 2%N] (msgq_init 2) (proj1 (msgq_init_inv 2))) as (q & r & R & HI & _).
  exists q, r. split; [exact R|]. split; [exact HI|]. vm_compute in R. inversion R; subst. reflexivity.
Qed.
