(* Properties_C07: statements only.  C07 -- SURVEY: only responses to the current
   survey, only before its deadline; the respondent answers the origin of the survey it
   most recently received, once.  Models: Proto/SurveyModel (survey.c), RespondModel
   (respond.c), XSurveyModel (xsurvey.c + msgqueue.c entry points), XRespondModel
   (xrespond.c), SurveyBacktrace (the pure header/body transformers, shared with C13).

   Not proved in this round (stated so rather than weakened silently): the surveyor's
   receive-descriptor mirror as an invariant over histories (the model raises/clears it
   where survey.c does; checked by the correspondence only), the respondent's mirror
   invariant for the fully repaired source, and the cnt-style conservation laws of
   PROTO_GUIDE 4(c) for the four models. *)
From Coq Require Import List Arith NArith Bool ZArith.
From NngV Require Import Gen.Consts Proto.Common Proto.SurveyBacktrace Proto.SurveyModel Proto.RespondModel
  Proto.XSurveyModel Proto.XRespondModel Proto.SurveyCur Proto.SurveyProofs Proto.RespondProofs Proto.XSurveyProofs.
Import ListNotations.

(* ---------------------------------------------------------------- surveyor *)
(* every message the model hands to the application -- in any step, from any state satisfying the
   invariant -- carries the current (non-zero) survey id of the context that gets it, and gets there
   either through the receive being posted (deadline not passed) or as that context's oldest pending
   receive being completed by an arriving response *)
Theorem survey_only_current_id : forall fx s o s' outs a m,
  SInv s -> surv_op_ok o -> surv_step fx s o = (s', outs) -> In (Complete a E_OK (Some m)) outs ->
  exists k c, kget k (sv_ctxs s) = Some c /\ sc_survey c <> 0%N /\ hdr_id (pm_hdr m) = sc_survey c /\
    ((exists cc nb, o = PRecv cc a nb /\ ckey cc = k /\ (Z.of_N (sv_now s) < sc_expire c)%Z) \/
     (exists r p rv w, sc_rq c = a :: r /\ o = PRecvDone p rv w)).
Proof. exact surv_delivery_only_current. Qed.
Print Assumptions survey_only_current_id.

(* the invariant holds initially and is kept by every step (the contract: transports deliver the wire
   message in the body) *)
Theorem survey_invariant : SInv surv_init /\
  forall fx s o s' outs, SInv s -> surv_op_ok o -> surv_step fx s o = (s', outs) -> SInv s'.
Proof. exact (conj surv_init_inv surv_step_inv). Qed.
Print Assumptions survey_invariant.

(* a response whose id no context owns (stale, foreign, unknown, without the high bit, zero) is freed;
   no context, pipe or descriptor changes and the pipe goes on receiving *)
Theorem survey_only_current_id_unowned : forall fx s p m id h b,
  surv_recv (pm_body m) = Some (id, h, b) -> find_owner id (sv_ctxs s) = None ->
  surv_step fx s (PRecvDone p 0 m) = (s, [Free (mkPmsg (pm_hdr m ++ h) b); TranRecv p]).
Proof. exact surv_unowned_response_discarded. Qed.
Print Assumptions survey_only_current_id_unowned.

(* a response whose id a context owns reaches that context only; all others are untouched *)
Theorem survey_only_current_id_owned : forall fx s p m id h b k c s' outs,
  NoDup (map fst (sv_ctxs s)) ->
  surv_recv (pm_body m) = Some (id, h, b) -> find_owner id (sv_ctxs s) = Some (k, c) ->
  surv_step fx s (PRecvDone p 0 m) = (s', outs) ->
  sc_survey c = id /\ id <> 0%N /\
  (forall k', k' <> k -> kget k' (sv_ctxs s') = kget k' (sv_ctxs s)) /\
  sv_pipes s' = sv_pipes s /\
  (forall a rv x, In (Complete a rv x) outs ->
     rv = E_OK /\ x = Some (mkPmsg (pm_hdr m ++ h) b) /\ exists r, sc_rq c = a :: r) /\
  (sc_rq c = [] -> length (sc_lmq c) < SURV_RECV_BUF ->
     exists c', kget k (sv_ctxs s') = Some c' /\ sc_lmq c' = sc_lmq c ++ [mkPmsg (pm_hdr m ++ h) b] /\ sc_survey c' = id).
Proof. exact surv_owned_response. Qed.
Print Assumptions survey_only_current_id_owned.

(* a response shorter than 4 bytes disconnects its sender *)
Theorem survey_short_response_disconnects : forall fx s p m,
  length (pm_body m) < 4 -> surv_step fx s (PRecvDone p 0 m) = (s, [Free m; ClosePipe p]).
Proof. exact surv_short_response_disconnects. Qed.
Print Assumptions survey_short_response_disconnects.

(* a new survey cancels the context's pending receives (NNG_ECANCELED), frees its queued responses,
   retires the old id and installs a fresh one: in range, different from every other context's;
   deadline = clock + survey time; no other context changes *)
Theorem survey_new_aborts_old : forall fx s c a nb m cx s' outs,
  (ID_LO <= sv_cur s <= ID_HI)%N ->
  get_ctx s c = Some cx -> surv_step fx s (PSend c a nb m) = (s', outs) ->
  (forall r, In r (sc_rq cx) -> In (Complete r E_CANCELED None) outs) /\
  (forall x, In x (sc_lmq cx) -> In (Free x) outs) /\
  (forall r rv x, In (Complete r rv x) outs -> r <> a -> In r (sc_rq cx) /\ rv = E_CANCELED /\ x = None) /\
  (In (Complete a E_OK None) outs ->
     exists cx', get_ctx s' c = Some cx' /\ sc_lmq cx' = [] /\ sc_rq cx' = [] /\
       (ID_LO <= sc_survey cx' <= ID_HI)%N /\
       sc_expire cx' = (Z.of_N (sv_now s) + sc_stime cx)%Z /\
       (forall k' c', k' <> ckey c -> In (k', c') (sv_ctxs s) -> sc_survey c' <> sc_survey cx') /\
       (forall k', k' <> ckey c -> kget k' (sv_ctxs s') = kget k' (sv_ctxs s))).
Proof. exact surv_new_survey_aborts_old. Qed.
Print Assumptions survey_new_aborts_old.

(* id freshness: what the generator hands out is in range (= 32 bits, high bit set), not in use, and
   leaves the cursor in range *)
Theorem survey_id_fresh : forall fuel live cur id cur',
  (ID_LO <= cur <= ID_HI)%N -> id_alloc fuel live cur = Some (id, cur') ->
  ~ In id live /\ (ID_LO <= id <= ID_HI)%N /\ (ID_LO <= cur' <= ID_HI)%N.
Proof. exact id_alloc_fresh. Qed.
Print Assumptions survey_id_fresh.
Theorem survey_id_high_bit : forall id, (ID_LO <= id <= ID_HI)%N <-> (N.testbit id 31 = true /\ id < 4294967296)%N.
Proof. exact id_range_high_bit. Qed.
Print Assumptions survey_id_high_bit.

Theorem survey_recv_estate_without_survey : forall fx s c a nb cx,
  get_ctx s c = Some cx -> sc_survey cx = 0%N ->
  surv_step fx s (PRecv c a nb) = (s, [Complete a E_STATE None]).
Proof. exact surv_recv_estate_no_survey. Qed.
Print Assumptions survey_recv_estate_without_survey.

Theorem survey_recv_estate_after_deadline : forall fx s c a nb cx,
  get_ctx s c = Some cx -> (sc_expire cx <= Z.of_N (sv_now s))%Z ->
  surv_step fx s (PRecv c a nb) = (s, [Complete a E_STATE None]).
Proof. exact surv_recv_estate_after_deadline. Qed.
Print Assumptions survey_recv_estate_after_deadline.

(* the expiry event: receives pending at the deadline complete with NNG_ETIMEDOUT, the id is retired,
   nothing is delivered (this is the clamped expiry; a receive's own shorter timeout is survey_recv_own_timeout_retires) *)
Theorem survey_pending_times_out : forall fx s now k c a s' outs,
  kget k (sv_ctxs s) = Some c -> In a (sc_rq c) -> (sc_expire c < Z.of_N now)%Z ->
  surv_step fx s (PTick now) = (s', outs) ->
  In (Complete a E_TIMEDOUT None) outs /\
  (exists c', kget k (sv_ctxs s') = Some c' /\ sc_survey c' = 0%N /\ sc_rq c' = []) /\
  (forall a' rv x, In (Complete a' rv x) outs -> rv = E_TIMEDOUT /\ x = None).
Proof. exact surv_pending_times_out. Qed.
Print Assumptions survey_pending_times_out.

(* a receive whose own timeout ends before the survey's deadline (the link layer's PCancel a 5), or one that
   the application cancels: it completes with that error, nothing is delivered, the survey is retired (as coded) *)
Theorem survey_recv_own_timeout_retires : forall fx s a rv k c s' outs,
  kget k (sv_ctxs s) = Some c -> In a (sc_rq c) ->
  (forall k' c', In (k', c') (sv_ctxs s) -> In a (sc_rq c') -> k' = k) ->
  surv_step fx s (PCancel a rv) = (s', outs) ->
  outs = [Complete a rv None] /\
  exists c', kget k (sv_ctxs s') = Some c' /\ sc_survey c' = 0%N /\ sc_rq c' = remove_id a (sc_rq c) /\ sc_lmq c' = sc_lmq c.
Proof. exact surv_recv_cancel_retires. Qed.
Print Assumptions survey_recv_own_timeout_retires.

(* late responses: from a state in which the context has nothing pending and the clock is at or past the
   deadline (reached when the expiry event has run, or by time passing with no receive posted), no history
   whatsoever -- responses with any ids, other contexts' traffic, receives, cancels, ticks forward in time --
   delivers a message to that context until the application sends a new survey on it.  (While a receive is
   pending a response can still win the race against the expiry event itself: that window closes with
   survey_pending_times_out.) *)
Theorem survey_late_response_never_delivered : forall fx ops s k,
  SInv s -> dead_ctx s k -> surv_ops_ok fx s k ops ->
  forall o s1 outs a m, In (o, s1, outs) (snd (surv_run fx s ops)) -> In (Complete a E_OK (Some m)) outs ->
  forall c, kget k (sv_ctxs s1) = Some c -> ~ In a (sc_rq c) /\ (forall cc nb, o = PRecv cc a nb -> ckey cc <> k).
Proof. exact surv_late_never_delivered. Qed.
Print Assumptions survey_late_response_never_delivered.

(* fan-out: each pipe on s->pipes is offered the survey exactly once (idle: transmitted now; busy with
   room: queued; busy and full: not -- the drop rule as coded; closed: skipped) *)
Theorem survey_fanout_each_pipe_once : forall m l,
  fst (fanout m l) = map (fun px => (fst px, offer m (snd px))) l /\
  snd (fanout m l) = map (fun px => TranSend (fst px) m) (filter (fun px => negb (sp_closed (snd px)) && negb (sp_busy (snd px))) l).
Proof. exact surv_fanout_each_pipe_once. Qed.
Print Assumptions survey_fanout_each_pipe_once.

(* non-blocking receive: with the repair of surv0_ctx_recv's clamp test (present in the source iff
   C07_SURV_NBRECV_FIXED) it completes at once, EAGAIN exactly when the blocking form would wait, state unchanged *)
Theorem surveyor_nb_recv_immediate : forall s c a s' outs,
  surv_step true s (PRecv c a true) = (s', outs) ->
  exists rv x, outs = [Complete a rv x] /\
    (rv = E_AGAIN <-> surv_recv_would_wait s c = true) /\ (rv = E_AGAIN -> s' = s /\ x = None) /\
    (forall k cx', In (k, cx') (sv_ctxs s') -> exists k0 cx, In (k0, cx) (sv_ctxs s) /\ sc_rq cx' = sc_rq cx).
Proof. exact surv_nb_recv_immediate. Qed.
Print Assumptions surveyor_nb_recv_immediate.
(* ... and without it (the source as pinned; fixed by 73ad6a8) the NONBLOCK receive is queued until the deadline *)
Theorem surveyor_nb_recv_immediate_refuted :
  exists s a, snd (surv_step false s (PRecv None a true)) = [Arm 1000%N] /\
              exists cx, kget 0%N (sv_ctxs (fst (surv_step false s (PRecv None a true)))) = Some cx /\ sc_rq cx = [a].
Proof. exact surv_nb_recv_immediate_refuted. Qed.
Print Assumptions surveyor_nb_recv_immediate_refuted.

(* ---------------------------------------------------------------- respondent *)
Theorem respond_to_origin_once : forall fx s c a m cx s' outs,
  rget_ctx s c = Some cx -> rc_bt cx <> [] -> (rf_sbusy fx = true -> rc_saio cx = None) ->
  resp_step fx s (PSend c a false m) = (s', outs) ->
  (exists cx', rget_ctx s' c = Some cx' /\ rc_bt cx' = [] /\ rc_pipe cx' = 0%N) /\
  (forall q w, In (q, w) (rtxs outs) -> q = rc_pipe cx /\ w = mkPmsg (rc_bt cx) (pm_body m)) /\
  length (rtxs outs) <= 1 /\
  match live_pipe (rc_pipe cx) (rs_pipes s) with
  | None => outs = [Complete a E_OK None; Free (mkPmsg (rc_bt cx) (pm_body m))]
  | Some x => if rp_busy x
              then outs = [] /\ exists cx', rget_ctx s' c = Some cx' /\ rc_saio cx' = Some (a, mkPmsg (rc_bt cx) (pm_body m))
              else outs = [TranSend (rc_pipe cx) (mkPmsg (rc_bt cx) (pm_body m)); Complete a E_OK None]
  end.
Proof. exact resp_to_origin_once. Qed.
Print Assumptions respond_to_origin_once.

(* the origin recorded is that of the survey most recently received by the context (either delivery path) *)
Theorem respond_origin_is_latest_survey : forall fx s p m hdr body x k rest c a s' outs,
  pm_hdr m = [] -> resp_recv (rs_ttl s) (pm_body m) = BtDeliver hdr body ->
  live_pipe p (rs_pipes s) = Some x -> rs_recvq s = k :: rest -> kget k (rs_ctxs s) = Some c -> rc_raio c = Some a ->
  resp_step fx s (PRecvDone p 0 m) = (s', outs) ->
  outs = [TranRecv p; Complete a E_OK (Some (mkPmsg [] body))] /\
  exists c', kget k (rs_ctxs s') = Some c' /\ rc_pipe c' = p /\ rc_bt c' = hdr /\ rc_raio c' = None.
Proof. exact resp_recv_records_origin_cb. Qed.
Print Assumptions respond_origin_is_latest_survey.
Theorem respond_origin_is_latest_survey_waiting : forall fx s c a nb cx p rest x msg tl s' outs,
  rget_ctx s c = Some cx -> rs_recvpipes s = p :: rest -> kget p (rs_pipes s) = Some x -> rp_rmsg x = msg :: tl ->
  resp_step fx s (PRecv c a nb) = (s', outs) ->
  outs = [TranRecv p; Complete a E_OK (Some (mkPmsg [] (pm_body msg)))] /\
  exists cx', rget_ctx s' c = Some cx' /\ rc_pipe cx' = p /\ rc_bt cx' = pm_hdr msg.
Proof. exact resp_recv_records_origin_direct. Qed.
Print Assumptions respond_origin_is_latest_survey_waiting.
Theorem respond_queued_response_same_pipe : forall fx s p x k rest c a m s' outs,
  kget p (rs_pipes s) = Some x -> rp_sendq x = k :: rest -> kget k (rs_ctxs s) = Some c -> rc_saio c = Some (a, m) ->
  resp_step fx s (PSendDone p 0) = (s', outs) -> outs = [TranSend p m; Complete a E_OK None].
Proof. exact resp_send_done_takes_queued. Qed.
Print Assumptions respond_queued_response_same_pipe.

Theorem respond_estate : forall fx s c a m cx s' outs,
  rget_ctx s c = Some cx -> rc_bt cx = [] ->
  resp_step fx s (PSend c a false m) = (s', outs) ->
  outs = [Complete a E_STATE None] /\ rs_ctxs s' = rs_ctxs s /\ rs_pipes s' = rs_pipes s.
Proof. exact resp_send_estate. Qed.
Print Assumptions respond_estate.
Theorem respond_estate_second_recv : forall fx s c a cx a0,
  rget_ctx s c = Some cx -> rc_raio cx = Some a0 -> rs_recvpipes s = [] ->
  resp_step fx s (PRecv c a false) = (s, [Complete a E_STATE None]).
Proof. exact resp_second_recv_estate. Qed.
Print Assumptions respond_estate_second_recv.

(* NONBLOCK send: holds for the model with every repair; refuted for the source as it is (respond.c
   resp0_ctx_send starts the aio first -- known finding respondent-nb-send-eagain, kept because the
   repository's own respond_test expects ETIMEDOUT there) *)
Theorem respondent_nb_send_immediate : forall s c a m s' outs,
  resp_step rfix_all s (PSend c a true m) = (s', outs) ->
  exists rv, In (Complete a rv None) outs /\
    (rv = E_AGAIN <-> resp_send_would_wait s c = true) /\ (rv = E_AGAIN -> s' = s /\ outs = [Complete a E_AGAIN None]) /\
    (forall k cx', In (k, cx') (rs_ctxs s') -> forall w, rc_saio cx' = Some (a, w) -> exists cx, In (k, cx) (rs_ctxs s) /\ rc_saio cx = Some (a, w)).
Proof. exact resp_nb_send_immediate. Qed.
Print Assumptions respondent_nb_send_immediate.
Theorem respondent_nb_send_refuted :
  resp_poll resp_w1 = mkPoll (Some false) (Some true) /\ resp_send_would_wait resp_w1 None = false /\
  snd (resp_step rfix_none resp_w1 (PSend None 2%N true (mkPmsg [] [9%N]))) = [Complete 2%N E_AGAIN None] /\
  resp_poll (fst (resp_step rfix_none resp_w1 (PSend None 2%N true (mkPmsg [] [9%N])))) = mkPoll (Some false) (Some false) /\
  snd (resp_step rfix_none resp_w1 (PSend None 2%N false (mkPmsg [] [9%N]))) =
    [TranSend 1%N (mkPmsg [128%N; 0%N; 0%N; 1%N] [9%N]); Complete 2%N E_OK None].
Proof. exact resp_nb_send_refuted. Qed.
Print Assumptions respondent_nb_send_refuted.
(* descriptor mirror of the respondent: refuted on the source as pinned (witnesses; each repaired since:
   8bf1af0, 2483f2a, e658c2e -- the same histories on the repaired model show the descriptor down) *)
Theorem respondent_poll_w_mirror_refuted :
  resp_poll (rrun rfix_none resp_w_busy) = mkPoll (Some false) (Some true) /\ resp_send_would_wait (rrun rfix_none resp_w_busy) None = true /\
  resp_poll (rrun rfix_all resp_w_busy) = mkPoll (Some false) (Some false).
Proof. exact resp_poll_w_mirror_refuted. Qed.
Print Assumptions respondent_poll_w_mirror_refuted.
Theorem respondent_poll_r_mirror_refuted :
  resp_poll (rrun rfix_none resp_r_close) = mkPoll (Some true) (Some false) /\
  snd (resp_step rfix_none (rrun rfix_none resp_r_close) (PRecv None 5%N true)) = [Complete 5%N E_AGAIN None] /\
  resp_poll (rrun rfix_all resp_r_close) = mkPoll (Some false) (Some false).
Proof. exact resp_poll_r_mirror_refuted. Qed.
Print Assumptions respondent_poll_r_mirror_refuted.
(* a second response while the context's first is still queued: the pinned source links the context twice
   into the pipe's list (the C panics in nni_list_append; repaired by 08762d5: NNG_ESTATE) *)
Theorem respondent_second_queued_send_refuted :
  (exists x, kget 1%N (rs_pipes (rrun rfix_none resp_two_sends)) = Some x /\ rp_sendq x = [0%N; 0%N]) /\
  (exists x, kget 1%N (rs_pipes (rrun rfix_all resp_two_sends)) = Some x /\ rp_sendq x = [0%N]) /\
  snd (resp_step rfix_all (rrun rfix_all (removelast resp_two_sends)) (PSend None 6%N false (mkPmsg [] [11%N]))) = [Complete 6%N E_STATE None].
Proof. exact resp_second_queued_send_refuted. Qed.
Print Assumptions respondent_second_queued_send_refuted.

(* ---------------------------------------------------------------- backtrace functions (shared with C13) *)
Theorem backtrace_header_bounded : forall n hdr body,
  match bt_move n hdr body with BtDeliver h _ => length h <= HDR_MAX | _ => True end.
Proof. exact bt_move_header_bounded. Qed.
Print Assumptions backtrace_header_bounded.
Theorem backtrace_bytes_conserved : forall n hdr body h b,
  bt_move n hdr body = BtDeliver h b ->
  h ++ b = hdr ++ body /\ length h <= HDR_MAX /\ length hdr < length h /\ length h <= length hdr + 4 * n.
Proof. exact bt_move_deliver. Qed.
Print Assumptions backtrace_bytes_conserved.
(* k hop words and a terminating id: delivered iff k + 1 <= ttl, else dropped *)
Theorem backtrace_ttl_rule : forall ws n hdr wend rest,
  Forall (fun w => is_end (wfirst w) = false) ws -> is_end (wfirst wend) = true ->
  length hdr + 4 * (length ws + 1) <= HDR_MAX ->
  bt_move n hdr (flat ws ++ wbytes wend ++ rest) =
    if length ws <? n then BtDeliver (hdr ++ flat ws ++ wbytes wend) rest else BtDrop.
Proof. exact bt_move_terminated. Qed.
Print Assumptions backtrace_ttl_rule.
(* k hop words and then fewer than 4 bytes: disconnect if k < ttl, else dropped *)
Theorem backtrace_short_body_rule : forall ws n hdr (tl : list N),
  Forall (fun w => is_end (wfirst w) = false) ws -> length tl < 4 ->
  length hdr + 4 * length ws <= HDR_MAX ->
  bt_move n hdr (flat ws ++ tl) = if length ws <? n then BtClose else BtDrop.
Proof. exact bt_move_unterminated. Qed.
Print Assumptions backtrace_short_body_rule.
(* for ttl <= 15 the header (empty or holding the pipe id) always has room: "header full => drop" is dead code *)
Theorem backtrace_header_never_full : forall (hdr : list N) n k,
  length hdr <= 4 -> n <= TTL_MAX -> k < n -> length hdr + 4 * (k + 1) <= HDR_MAX.
Proof. exact bt_room. Qed.
Print Assumptions backtrace_header_never_full.
(* what the raw respondent passes up routes back: pipe id first, popped again by its send, the rest is the
   cooked respondent's backtrace *)
Theorem xrespond_backtrace_roundtrip : forall p ttl wire h b,
  (p < 4294967296)%N -> xresp_recv p ttl wire = BtDeliver h b ->
  exists bt, h = be32 p ++ bt /\ xresp_send h = Some (p, bt) /\ bt ++ b = wire /\ resp_recv ttl wire = BtDeliver bt b.
Proof. exact xresp_roundtrip. Qed.
Print Assumptions xrespond_backtrace_roundtrip.
Theorem surveyor_id_roundtrip : forall id body, (id < 4294967296)%N ->
  surv_recv (surv_send id body) = Some (id, be32 id, body).
Proof. exact surv_send_recv. Qed.
Print Assumptions surveyor_id_roundtrip.
Theorem xsurveyor_recv_never_drops : forall wire, xsurv_recv wire <> BtDrop.
Proof. exact xsurv_recv_never_drops. Qed.
Print Assumptions xsurveyor_recv_never_drops.

(* ---------------------------------------------------------------- raw sockets *)
Theorem xrespond_recv_drop : forall fx s p m,
  xresp_recv p (xr_ttl s) (pm_body m) = BtDrop -> xresp_step fx s (PRecvDone p 0 m) = (s, [Free m; TranRecv p]).
Proof. exact xresp_recv_drop. Qed.
Print Assumptions xrespond_recv_drop.
Theorem xrespond_recv_close : forall fx s p m,
  xresp_recv p (xr_ttl s) (pm_body m) = BtClose -> xresp_step fx s (PRecvDone p 0 m) = (s, [Free m; ClosePipe p]).
Proof. exact xresp_recv_close. Qed.
Print Assumptions xrespond_recv_close.
Theorem xrespond_send_routes : forall fx s a m p bt x s' outs,
  (p < 4294967296)%N -> pm_hdr m = be32 p ++ bt -> kget p (xr_pipes s) = Some x -> xp_closed x = false -> xp_busy x = false ->
  xresp_step fx s (PSend None a false m) = (s', outs) ->
  outs = [Complete a E_OK None; TranSend p (mkPmsg bt (pm_body m))].
Proof. exact xresp_send_routes. Qed.
Print Assumptions xrespond_send_routes.
Theorem xsurveyor_recv_malformed_disconnects : forall fx s p m,
  (forall h b, xsurv_recv (pm_body m) <> BtDeliver h b) -> xsurv_step fx s (PRecvDone p 0 m) = (s, [Free m; ClosePipe p]).
Proof. exact xsurv_recv_malformed. Qed.
Print Assumptions xsurveyor_recv_malformed_disconnects.
(* NONBLOCK receive on the raw sockets' upper queue, repaired msgqueue.c (fc1e6a0) / refuted for the pinned one *)
Theorem raw_nb_recv_immediate : forall u a u' outs,
  urq_user_recv mqfix_all u a true = (u', outs) ->
  (urq_get_waits u = true -> u' = u /\ outs = [Complete a E_AGAIN None]) /\
  (urq_get_waits u = false -> exists m r, outs = Complete a E_OK (Some m) :: r /\ uq_readers u' = []).
Proof. exact urq_nb_recv_immediate. Qed.
Print Assumptions raw_nb_recv_immediate.
Theorem raw_nb_recv_refuted :
  exists u a, urq_recvable u = true /\ urq_get_waits u = false /\ urq_user_recv mqfix_none u a true = (u, [Complete a E_AGAIN None]).
Proof. exact urq_nb_recv_refuted. Qed.
Print Assumptions raw_nb_recv_refuted.
Theorem raw_recv_descriptor_mirror : forall u, uq_readers u = [] -> urq_recvable u = negb (urq_get_waits u).
Proof. exact urq_recvable_mirror. Qed.
Print Assumptions raw_recv_descriptor_mirror.
(* the upper read queue of the raw sockets under the repaired msgqueue.c (65cda67 resize runs the queues,
   e654d99 aio_get runs the writers): blocked readers <=> nothing to read, blocked writers => queue full.
   Kept by every step of both raw models; a user receive establishes it from any state *)
Theorem raw_queue_invariant_xsurveyor : forall fx s o s' outs, mf_resize fx = true -> mf_getput fx = true ->
  UInv (xs_urq s) -> xsurv_step fx s o = (s', outs) -> UInv (xs_urq s').
Proof. exact xsurv_urq_inv. Qed.
Print Assumptions raw_queue_invariant_xsurveyor.
Theorem raw_queue_invariant_xrespondent : forall fx s o s' outs, mf_resize fx = true -> mf_getput fx = true ->
  UInv (xr_urq s) -> xresp_step fx s o = (s', outs) -> UInv (xr_urq s').
Proof. exact xresp_urq_inv. Qed.
Print Assumptions raw_queue_invariant_xrespondent.
Theorem raw_queue_invariant_init : UInv (xs_urq xsurv_init) /\ UInv (xr_urq xresp_init).
Proof. exact (conj uinv_init uinv_init). Qed.
Print Assumptions raw_queue_invariant_init.
Theorem raw_get_establishes_invariant : forall fx u a, mf_getput fx = true ->
  UInv (fst (urq_get_fx fx u a)) /\ uq_cap (fst (urq_get_fx fx u a)) = uq_cap u.
Proof. exact uinv_get. Qed.
Print Assumptions raw_get_establishes_invariant.
(* ... refuted for nni_msgq_aio_get as pinned: the reader takes the buffered message, the blocked writer stays
   blocked although the queue has room (repaired by e654d99) *)
Theorem raw_get_leaves_writer_blocked_refuted :
  exists u a, UInv u /\ ~ UInv (fst (urq_get_fx mqfix_none u a)) /\ UInv (fst (urq_get_fx mqfix_all u a)).
Proof. exact XSurveyProofs.raw_get_leaves_writer_blocked_refuted. Qed.
Print Assumptions raw_get_leaves_writer_blocked_refuted.
(* descriptor mirror of the raw sockets, exact on every state satisfying the invariant: the receive descriptor
   is raised iff a NONBLOCK receive would not return EAGAIN; the send descriptor is always raised and a NONBLOCK
   send is always accepted (xsurveyor_nb_send_immediate / xrespondent_nb_send_immediate) *)
Theorem xsurveyor_poll_mirror : forall fx s a, mf_nb fx = true -> UInv (xs_urq s) ->
  (poll_r (xsurv_poll s) = Some true <-> snd (xsurv_step fx s (PRecv None a true)) <> [Complete a E_AGAIN None]) /\
  poll_w (xsurv_poll s) = Some true.
Proof. intros fx s a H1 H2. exact (conj (xsurv_poll_r_mirror fx s a H1 H2) (xsurv_poll_w_mirror s)). Qed.
Print Assumptions xsurveyor_poll_mirror.
Theorem xrespondent_poll_mirror : forall fx s a, mf_nb fx = true -> UInv (xr_urq s) ->
  (poll_r (xresp_poll s) = Some true <-> snd (xresp_step fx s (PRecv None a true)) <> [Complete a E_AGAIN None]) /\
  poll_w (xresp_poll s) = Some true.
Proof. intros fx s a H1 H2. exact (conj (xresp_poll_r_mirror fx s a H1 H2) (xresp_poll_w_mirror s)). Qed.
Print Assumptions xrespondent_poll_mirror.
Theorem raw_recv_descriptor_mirror_inv : forall u, UInv u -> urq_recvable u = negb (urq_get_waits u).
Proof. exact urq_recvable_mirror_inv. Qed.
Print Assumptions raw_recv_descriptor_mirror_inv.

Theorem xsurveyor_nb_send_immediate : forall s a m s' outs c,
  xsurv_step mqfix_all s (PSend c a true m) = (s', outs) -> exists r, outs = Complete a E_OK None :: r.
Proof. exact xsurv_nb_send_immediate. Qed.
Print Assumptions xsurveyor_nb_send_immediate.
Theorem xrespondent_nb_send_immediate : forall s a m s' outs c,
  xresp_step mqfix_all s (PSend c a true m) = (s', outs) -> exists r, outs = Complete a E_OK None :: r.
Proof. exact xresp_nb_send_immediate. Qed.
Print Assumptions xrespondent_nb_send_immediate.

(* ---------------------------------------------------------------- constants *)
Theorem survey_consts_match :
  PROTO_SURVEYOR = C07_SURV_SELF /\ PROTO_RESPONDENT = C07_SURV_PEER /\ C07_XSURV_SELF = PROTO_SURVEYOR /\ C07_XSURV_PEER = PROTO_RESPONDENT /\
  C07_RESP_SELF = PROTO_RESPONDENT /\ C07_RESP_PEER = PROTO_SURVEYOR /\ C07_XRESP_SELF = PROTO_RESPONDENT /\ C07_XRESP_PEER = PROTO_SURVEYOR /\
  SURV_TIME_DEFAULT = Z.of_N C07_SURVEY_TIME_DEFAULT /\ SURV_RECV_BUF = C07_SURV_RECV_BUF /\ SURV_SEND_BUF = C07_SURV_SEND_BUF /\
  ID_LO = C07_SURVEY_ID_LO /\ ID_HI = C07_SURVEY_ID_HI /\ ID_LO = IDMAP_SURVEY_LO /\ ID_HI = IDMAP_SURVEY_HI /\
  TTL_DEFAULT = C07_TTL_DEFAULT /\ TTL_MAX = NNI_MAX_MAX_TTL /\ C07_TTL_MIN = 1 /\
  HDR_MAX = 4 * (NNI_MAX_MAX_TTL + MSG_HEADER_WORDS_EXTRA) /\
  XSURV_SENDQ = C07_XSURV_SENDQ /\ XRESP_SENDQ = C07_XRESP_SENDQ /\ URQ_DEFAULT = C07_URQ_DEFAULT /\ UWQ_DEFAULT = C07_UWQ_DEFAULT /\
  BUF_OPT_MAX = C07_BUF_OPT_MAX /\ C07_BUF_OPT_MIN = 0%N /\
  E_STATE = C07_NNG_ESTATE /\ E_TIMEDOUT = C07_NNG_ETIMEDOUT /\ E_CANCELED = C07_NNG_ECANCELED /\ E_AGAIN = C07_NNG_EAGAIN /\
  E_CLOSED = C07_NNG_ECLOSED /\ E_PROTO = C07_NNG_EPROTO /\ E_INVAL = C07_NNG_EINVAL /\ E_NOTSUP = C07_NNG_ENOTSUP /\ E_NOMEM = C07_NNG_ENOMEM.
Proof. repeat split; reflexivity. Qed.
Print Assumptions survey_consts_match.

(* non-vacuity: a concrete history meets the hypotheses of the late-response theorem -- a survey is sent,
   a receive is posted, the clock passes the deadline (ETIMEDOUT), then a response with the right id arrives *)
Example survey_history_nonvacuous :
  let s0 := fst (surv_run true surv_init [PPipeStart 1%N PROTO_RESPONDENT; PSend None 1%N false (mkPmsg [] [7%N]); PRecv None 2%N false; PTick 2000%N]) in
  SInv s0 /\ dead_ctx s0 0%N /\
  surv_ops_ok true s0 0%N [PRecvDone 1%N 0%N (mkPmsg [] [128%N; 0%N; 0%N; 1%N; 9%N]); PRecv None 3%N false] /\
  map (fun x => snd x) (snd (surv_run true s0 [PRecvDone 1%N 0%N (mkPmsg [] [128%N; 0%N; 0%N; 1%N; 9%N]); PRecv None 3%N false])) =
    [[Free (mkPmsg [128%N; 0%N; 0%N; 1%N] [9%N]); TranRecv 1%N]; [Complete 3%N E_STATE None]].
Proof.
  cbv zeta. split; [|split; [|split]].
  - repeat (eapply surv_step_inv; [|exact I|reflexivity]) || idtac.
    assert (H: forall ops s, SInv s -> Forall surv_op_ok ops -> SInv (fst (surv_run true s ops))).
    { induction ops as [|o r IH]; intros s HS HF; cbn [surv_run]; [exact HS|]. inversion HF; subst.
      destruct (surv_step true s o) as [s1 outs] eqn:E. specialize (IH s1 (surv_step_inv _ _ _ _ _ HS H1 E) H2).
      destruct (surv_run true s1 r). exact IH. }
    apply H; [exact surv_init_inv|]. repeat constructor.
  - intros c Hc. vm_compute in Hc. inversion Hc; subst. cbn. split; [reflexivity|]. vm_compute. discriminate.
  - cbn [surv_ops_ok]. repeat split; try exact I; try (intros (c & a & nb & m & E & _); discriminate); try (intros (c & E & _); discriminate).
  - vm_compute. reflexivity.
Qed.
