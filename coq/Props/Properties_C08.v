(* Properties_C08: statements only.  C08 -- PAIR (v0, and v1 outside polyamorous mode):
   one peer at a time, ordered lossless exchange, send blocks rather than drops, hop limit.

   Models: Proto/PairModel.v (one parametric step function, k = K0 for pair0/pair.c,
   K1 raw for pair1/pair.c cooked/raw; fx = the pipe_stop repair of the send descriptor is
   present in the source; fr = the set_send_buf_len repair (blocked senders are letin, in
   order, when the buffer grows; fix 7c956d7) is present -- both read from the current tree,
   Gen/Consts.v).  All theorems are for every k, fx and fr unless they say otherwise.  One step = one critical section of s->mtx,
   so a theorem over all op lists covers all interleavings of entry points and callbacks.

   Environment contract op_ok (PairProofs): pipe ids are fresh; a send completion belongs to
   a send in flight; SUCCESSFUL completions of a pipe's aios are processed while that pipe is
   still attached (the transport fails whatever is pending when a pipe closes) -- see
   pair_stale_send_completion_refuted for what the code does when that is violated; an aio is
   submitted once at a time; cancellations carry a non-zero error. *)
From Coq Require Import List Arith NArith Bool.
From NngV Require Import Gen.Consts Proto.Common Proto.PairModel Proto.PairGuard Proto.Pair0Model Proto.Pair1Model Proto.PushProofs Proto.PairProofs Proto.PairGuardProofs.
Import ListNotations.

(* ---------- one peer at a time ---------- *)
(* while a peer is attached every further pipe_start is refused -- NNG_EBUSY for the right
   peer protocol, NNG_EPROTO for a wrong one -- and changes nothing at all; a wrong peer
   protocol is refused in every state; after the attached pipe is reaped (pipe_close ;
   pipe_stop) the next pipe of the right protocol is accepted and its receive is armed *)
Theorem pair_one_peer : forall k fx fr,
  (forall s q p peer, pr_p s = Some q ->
     pair_step k fx fr s (PPipeStart p peer) = (s, [Reject (if N.eqb peer (pair_peer k) then E_BUSY else E_PROTO)])) /\
  (forall s p peer, peer <> pair_peer k -> pair_step k fx fr s (PPipeStart p peer) = (s, [Reject E_PROTO])) /\
  (forall s q s1 o1, pr_p s = Some q -> pair_step k fx fr s (PPipeClose q) = (s1, o1) ->
     pr_p s1 = None /\
     forall p s2 o2, pair_step k fx fr s1 (PPipeStart p (pair_peer k)) = (s2, o2) ->
       pr_p s2 = Some p /\ In (TranRecv p) o2 /\ forall rv, ~ In (Reject rv) o2).
Proof.
  intros k fx fr. split; [|split].
  - apply pair_second_peer_rejected.
  - apply pair_wrong_peer_rejected.
  - apply pair_peer_released_then_accepted.
Qed.
Print Assumptions pair_one_peer.

(* ---------- one step: invariants, conservation with Free, order, traffic only to the peer ---------- *)
(* PInv contains: wr_ready => a peer is attached, its aio_send is idle, the send buffer is
   empty and no sender is blocked; rd_ready => a peer is attached and no receiver is
   blocked; a blocked receiver => the receive buffer is empty; both buffers within capacity.
   C1..C4 together are the conservation law: every message accepted from the application is
   (as a sequence, in acceptance order) handed to the transport, still buffered, or an
   explicit buffer-shrink / socket-close loss; every message handed to the transport is in
   flight, taken by it, or freed because that transport send failed; every letin message
   from the peer is delivered, still buffered / parked, or an explicit loss (shrink, close,
   the message parked in a connection that goes down); and every Free is one of: a message
   the hop rules reject, one of those explicit losses, the message of a failed transport send. *)
Theorem pair_conservation_step : forall k fx fr s o s' outs,
  PInv s -> op_ok s o -> pair_step k fx fr s o = (s', outs) ->
  PInv s' /\
  map (wire_form k) (pr_wmq s ++ paccepted k s o outs) = txs outs ++ map (wire_form k) (pr_wmq s' ++ wloss s o) /\
  (forall x, cnt x (sendingl s ++ txs outs) = cnt x (sendingl s' ++ wire_taken s o ++ snd_freed s o)) /\
  (forall x, cnt x (inq s ++ arrived_ok k s o) = cnt x (pdelivered outs ++ inq s' ++ rloss s o)) /\
  (rloss s o = [] -> inq s ++ arrived_ok k s o = pdelivered outs ++ inq s') /\
  sublist (pdelivered outs ++ inq s') (inq s ++ arrived_ok k s o) /\
  (forall x, cnt x (freed outs) = cnt x (rx_rejected k s o ++ rloss s o ++ wloss s o ++ snd_freed s o)) /\
  (forall q m, In (TranSend q m) outs -> pr_p s' = Some q) /\
  (forall q, In (TranRecv q) outs -> pr_p s' = Some q).
Proof. exact pair_step_law. Qed.
Print Assumptions pair_conservation_step.

(* the invariant on every reachable state: wr_ready => send queue empty and no blocked sender
   (and the rest of PInv).  The companion "a blocked sender => the send buffer is full" is an
   invariant exactly since fix 7c956d7 (fr = true): pair_blocked_sender_implies_full below;
   for the pinned resize it is refuted (pair_blocked_sender_not_full_refuted). *)
Theorem pair_wr_ready_invariant : forall k fx fr ops, ops_ok k fx fr pair_init ops ->
  let s := fst (pair_run k fx fr pair_init ops) in
  PInv s /\ (pr_wr s = true -> pr_p s <> None /\ pr_wmq s = [] /\ pr_waq s = []).
Proof.
  intros k fx fr ops Hok. pose proof (pair_run_law k fx fr ops pair_init (proj1 pair_init_inv) Hok) as L.
  destruct (pair_run k fx fr pair_init ops) as [s tr]. cbn [fst]. destruct L as (HI & _). split; [exact HI|].
  intros W. destruct HI as (I1 & _). destruct (I1 W) as (A & B & C). repeat split; auto.
  destruct (pr_p s); [discriminate|contradiction].
Qed.
Print Assumptions pair_wr_ready_invariant.

(* ---------- ordered and lossless, both directions, including resizes ---------- *)
(* for every well-formed history from any invariant state: what reached the transport
   followed by what is still in the send buffer is an in-order sub-sequence of what was
   accepted from the application, and EQUAL to it when no buffer shrink / socket close
   dropped anything (tr_wloss = those drops, and the multiset difference is exactly them);
   likewise what was delivered followed by what is still held is an in-order sub-sequence of
   what the peer's letin messages, equal when nothing was explicitly dropped (tr_rloss =
   receive-buffer shrink, socket close, the message parked in a connection that went down).
   Each message at most once: the equalities / multiset equations leave no room for a copy. *)
Theorem pair_fifo_lossless_while_up : forall k fx fr ops s, PInv s -> ops_ok k fx fr s ops ->
  let (s', tr) := pair_run k fx fr s ops in
  PInv s' /\
  sublist (tr_tx tr ++ map (wire_form k) (pr_wmq s')) (map (wire_form k) (pr_wmq s ++ tr_acc k tr)) /\
  (tr_wloss tr = [] -> tr_tx tr ++ map (wire_form k) (pr_wmq s') = map (wire_form k) (pr_wmq s ++ tr_acc k tr)) /\
  (forall x, cnt x (map (wire_form k) (pr_wmq s ++ tr_acc k tr)) = cnt x (tr_tx tr ++ map (wire_form k) (pr_wmq s' ++ tr_wloss tr))) /\
  sublist (tr_dlv tr ++ inq s') (inq s ++ tr_arr k tr) /\
  (tr_rloss tr = [] -> tr_dlv tr ++ inq s' = inq s ++ tr_arr k tr) /\
  (forall x, cnt x (inq s ++ tr_arr k tr) = cnt x (tr_dlv tr ++ inq s' ++ tr_rloss tr)).
Proof. exact pair_run_law. Qed.
Print Assumptions pair_fifo_lossless_while_up.

(* ---------- send blocks rather than discards ---------- *)
(* when nothing can be taken (peer's send not idle and buffer full -- in particular the
   unbuffered socket whose peer is not reading) a blocking send is queued: no completion, no
   transmission, no Free, nothing else changes ... *)
Theorem pair_send_blocks_not_drops : forall k fx fr s c a m m',
  norm_send k m = Some m' -> can_send s = false ->
  pair_step k fx fr s (PSend c a false m) =
    (mkPair (pr_p s) (pr_ttl s) (pr_wmq s) (pr_wcap s) (pr_waq s ++ [(a, m')]) (pr_rmq s) (pr_rcap s) (pr_raq s)
            (pr_rd s) (pr_wr s) (pr_sending s) (pr_readable s) (pr_writable s), []).
Proof. exact pair_send_blocks_not_drops. Qed.
Print Assumptions pair_send_blocks_not_drops.

(* ... a non-blocking send completes in the same step, never enqueues, never frees; NNG_EAGAIN
   exactly when the blocking form would have been queued, NNG_EPROTO exactly for a malformed
   raw header; in both failures the state is unchanged and the message stays with the caller
   (completion carries no message: Common.Complete a rv None = still attached to the aio) *)
Theorem pair_nb_send_immediate : forall k fx fr s c a m s' outs,
  pair_step k fx fr s (PSend c a true m) = (s', outs) ->
  exists rv rest, outs = Complete a rv None :: rest /\ pr_waq s' = pr_waq s /\ (forall x, ~ In (Free x) outs) /\
    (rv = E_AGAIN <-> (norm_send k m <> None /\ can_send s = false)) /\
    (rv = E_PROTO <-> norm_send k m = None) /\
    (rv <> E_OK -> s' = s /\ rest = []) /\
    (rv = E_OK \/ rv = E_AGAIN \/ rv = E_PROTO).
Proof. exact pair_send_nonblocking. Qed.
Print Assumptions pair_nb_send_immediate.

(* ... and whenever it can be taken a send (blocking or not) succeeds at once *)
Theorem pair_send_succeeds_if_possible : forall k fx fr s c a nb m s' outs,
  PInv s -> norm_send k m <> None -> can_send s = true ->
  pair_step k fx fr s (PSend c a nb m) = (s', outs) -> exists rest, outs = Complete a E_OK None :: rest /\ pr_waq s' = pr_waq s.
Proof. exact pair_send_accepts_when_possible. Qed.
Print Assumptions pair_send_succeeds_if_possible.

(* non-blocking receive: immediate; NNG_EAGAIN exactly when nothing is buffered or parked
   (then nothing changes); otherwise the OLDEST undelivered message *)
Theorem pair_nb_recv_immediate : forall k fx fr s c a s' outs,
  PInv s -> pair_step k fx fr s (PRecv c a true) = (s', outs) ->
  exists rv mo rest, outs = Complete a rv mo :: rest /\ pr_raq s' = pr_raq s /\ (forall x, ~ In (Free x) outs) /\
    (rv = E_AGAIN <-> can_recv s = false) /\
    (rv = E_AGAIN -> s' = s /\ mo = None /\ rest = []) /\
    (rv <> E_AGAIN -> rv = E_OK /\ exists x, mo = Some x /\ hd_error (inq s) = Some x).
Proof. exact pair_recv_nonblocking. Qed.
Print Assumptions pair_nb_recv_immediate.

Theorem pair_recv_blocks_when_empty : forall k fx fr s c a,
  can_recv s = false ->
  pair_step k fx fr s (PRecv c a false) =
    (mkPair (pr_p s) (pr_ttl s) (pr_wmq s) (pr_wcap s) (pr_waq s) [] (pr_rcap s) (pr_raq s ++ [a])
            None (pr_wr s) (pr_sending s) (pr_readable s) (pr_writable s), []).
Proof. exact pair_recv_blocks. Qed.
Print Assumptions pair_recv_blocks_when_empty.

(* ---------- poll descriptors ---------- *)
(* receive descriptor raised <=> a non-blocking receive would not return NNG_EAGAIN: kept by
   every step but the socket close, hence on every reachable state of an open socket *)
Theorem pair_poll_r_mirror : forall k fx fr s o s' outs,
  PInv s -> op_ok s o -> o <> PSockClose -> RInv s -> pair_step k fx fr s o = (s', outs) -> RInv s'.
Proof. exact pair_readable_mirror. Qed.
Print Assumptions pair_poll_r_mirror.

(* send descriptor raised <=> a non-blocking send would not return NNG_EAGAIN.
   Parametric form: kept by every step when the pipe_stop repair is present (fx = true: clear
   only when the send buffer is full); for the unrepaired form (fx = false) kept by every
   step except pipe_stop, where it is refuted (below).  The full statement for the current
   source is pair_poll_w_mirror_holds. *)
Theorem pair_poll_w_mirror_partial : forall k fx fr s o s' outs,
  PInv s -> op_ok s o -> o <> PSockClose -> (fx = true \/ forall p, o <> PPipeClose p) ->
  WInv s -> pair_step k fx fr s o = (s', outs) -> WInv s'.
Proof. exact pair_writable_mirror. Qed.
Print Assumptions pair_poll_w_mirror_partial.

Theorem pair_poll_mirror_histories : forall k fx fr ops s, PInv s -> ops_ok k fx fr s ops -> ~ In PSockClose ops ->
  RInv s -> (fx = true \/ forall p, ~ In (PPipeClose p) ops) -> WInv s ->
  RInv (fst (pair_run k fx fr s ops)) /\ ((fx = true \/ forall p, ~ In (PPipeClose p) ops) -> WInv (fst (pair_run k fx fr s ops))).
Proof. exact pair_run_mirror. Qed.
Print Assumptions pair_poll_mirror_histories.

(* for the source as it is now (the instances of Pair0Model / Pair1Model, whose fx is read
   from the current tree): the send descriptor mirror is kept by EVERY step of an open
   socket.  Holds since fix 6a91792; if pipe_stop regresses to the unconditional clear the
   generated flag becomes false and this theorem no longer checks. *)
Theorem pair_poll_w_mirror_holds : forall s o s' outs,
  PInv s -> op_ok s o -> o <> PSockClose -> WInv s ->
  pair0_step s o = (s', outs) \/ pair1_step s o = (s', outs) \/ pair1_raw_step s o = (s', outs) -> WInv s'.
Proof.
  intros s o s' outs HI Hok Hn HW [H|[H|H]];
    unfold pair0_step, pair1_step, pair1_raw_step in H; rewrite (pair_step_g_contract _ _ _ _ s o Hok) in H;
    (eapply pair_writable_mirror; [exact HI|exact Hok|exact Hn|left; reflexivity|exact HW|exact H]).
Qed.
Print Assumptions pair_poll_w_mirror_holds.

(* the pipe_stop of the tree as first pinned (fx = false, before fix 6a91792): send buffer
   of 2, a peer comes and goes => descriptor not raised, yet a non-blocking send succeeds (a
   missed wake-up; before the peer came the same state had the descriptor raised).  It
   replayed on the implementation (findings/known_findings.txt, fixed: property=C15 6a91792). *)
Theorem pair_poll_w_mirror_refuted : forall k fr,
  let s := fst (pair_run k false fr pair_init (poll_w_witness k)) in
  ops_ok k false fr pair_init (poll_w_witness k) /\
  pr_writable s = false /\ can_send s = true /\
  exists s' rest, pair_step k false fr s (PSend None 7%N true (mkPmsg [0; 0; 0; 0]%N [1%N])) = (s', Complete 7%N E_OK None :: rest).
Proof. exact pair_poll_w_mirror_refuted_pinned. Qed.
Print Assumptions pair_poll_w_mirror_refuted.

(* ---------- PAIRv1 hop rules, for ALL 32-bit header values ---------- *)
(* a wire message b0 b1 b2 b3 ++ rest from the peer, v its first big-endian word (no
   restriction on the bytes): v > 0xff => freed, the sender disconnected, state unchanged,
   hence never delivered; 0xff >= v > ttl => freed, receive re-armed, state unchanged,
   connection kept; otherwise letin with header = the hop count (which for byte values
   is the four bytes received) and the body trimmed -- pair_conservation_step /
   pair_fifo_lossless_while_up then deliver exactly that message in order; fewer than four
   bytes => disconnect; on the way out pipe_send adds one to the header word (mod 2^32;
   headers accepted from the application are < 0xff, so the result is <= 0xff) *)
Theorem pair1_hop_rules : forall raw fx fr s p hdr b0 b1 b2 b3 rest,
  let m := mkPmsg hdr (b0 :: b1 :: b2 :: b3 :: rest) in
  let v := word32 b0 b1 b2 b3 in
  ((255 < v)%N -> pair_step (K1 raw) fx fr s (PRecvDone p 0 m) = (s, [Free m; ClosePipe p])) /\
  ((v <= 255)%N -> (N.of_nat (pr_ttl s) < v)%N -> pair_step (K1 raw) fx fr s (PRecvDone p 0 m) = (s, [Free m; TranRecv p])) /\
  ((v <= 255)%N -> (v <= N.of_nat (pr_ttl s))%N ->
     rx_decode (K1 raw) (pr_ttl s) m = RxOk (mkPmsg (hdr ++ [0; 0; 0; v]%N) rest) /\
     arrived_ok (K1 raw) s (PRecvDone p 0 m) = [mkPmsg (hdr ++ [0; 0; 0; v]%N) rest] /\
     rx_rejected (K1 raw) s (PRecvDone p 0 m) = []).
Proof. exact pair1_hop_rules_law. Qed.
Print Assumptions pair1_hop_rules.

Theorem pair1_hop_header_is_received_bytes : forall b0 b1 b2 b3,
  byte_ok b0 -> byte_ok b1 -> byte_ok b2 -> byte_ok b3 ->
  (word32 b0 b1 b2 b3 <= 255)%N -> [0; 0; 0; word32 b0 b1 b2 b3]%N = [b0; b1; b2; b3].
Proof. exact word32_small_bytes. Qed.
Print Assumptions pair1_hop_header_is_received_bytes.

Theorem pair1_short_message_disconnects : forall raw fx fr s p m,
  length (pm_body m) < 4 -> pair_step (K1 raw) fx fr s (PRecvDone p 0 m) = (s, [Free m; ClosePipe p]).
Proof. exact pair1_short_message_law. Qed.
Print Assumptions pair1_short_message_disconnects.

Theorem pair1_outgoing_hop_plus_one :
  (forall b0 b1 b2 b3 body, bump (mkPmsg [b0; b1; b2; b3] body) = mkPmsg (be32 ((word32 b0 b1 b2 b3 + 1) mod 4294967296)) body) /\
  (forall v body, (v <= 254)%N -> bump (mkPmsg [0; 0; 0; v]%N body) = mkPmsg [0; 0; 0; v + 1]%N body).
Proof. split; [exact pair1_bump_law|exact pair1_bump_small]. Qed.
Print Assumptions pair1_outgoing_hop_plus_one.

(* raw-mode header handling (and the cooked rule it contrasts with): a cooked socket replaces
   whatever header the application supplied by hop 0; a raw socket takes exactly a four-byte
   header whose word is below 0xff, unchanged, and refuses every other message with NNG_EPROTO,
   touching nothing and leaving the message with the caller *)
Theorem pair1_raw_header_handling :
  (forall m, norm_send (K1 false) m = Some (mkPmsg [0; 0; 0; 0]%N (pm_body m))) /\
  (forall m,
    (forall m', norm_send (K1 true) m = Some m' -> m' = m /\ exists b0 b1 b2 b3, pm_hdr m = [b0; b1; b2; b3] /\ (word32 b0 b1 b2 b3 < 255)%N) /\
    (forall b0 b1 b2 b3, pm_hdr m = [b0; b1; b2; b3] -> (word32 b0 b1 b2 b3 < 255)%N -> norm_send (K1 true) m = Some m) /\
    (forall fx fr s c a nb, norm_send (K1 true) m = None -> pair_step (K1 true) fx fr s (PSend c a nb m) = (s, [Complete a E_PROTO None]))).
Proof. split; [exact pair1_cooked_send_header|exact pair1_raw_send_header]. Qed.
Print Assumptions pair1_raw_header_handling.

(* ---------- outside the contract: completions of a pipe that has been replaced ---------- *)
(* The instances Pair0Model / Pair1Model are PairGuard.pair_step_g, whose two switches are read
   from the current source.  Under the contract op_ok the guarded step IS pair_step, so every
   theorem above holds of the source as it is now: *)
Theorem pair_guard_is_step_under_contract : forall k fx fr fs s o,
  op_ok s o -> pair_step_g k fx fr fs s o = pair_step k fx fr s o.
Proof. exact pair_step_g_contract. Qed.
Print Assumptions pair_guard_is_step_under_contract.
Theorem pair_guard_run_under_contract : forall k fx fr fs ops s,
  ops_ok k fx fr s ops -> pair_run_g k fx fr fs s ops = pair_run k fx fr s ops.
Proof. exact pair_run_g_contract. Qed.
Print Assumptions pair_guard_run_under_contract.

(* the pinned callbacks (before fix ec0a8f1): a successful send completion of an already
   stopped pipe, processed after a new peer was attached (it was queued before the close;
   pipe_stop waits for it only after its critical section): three messages accepted, three
   handed to transports, but the second one is overwritten in the new pipe's busy aio_send
   (only the third is in flight).  Replayed on the real library with the callback delayed
   (findings/c08/stale_demo.c: assertion in nni_aio_start on the second start of the new
   pipe's aio_send) and repaired. *)
Theorem pair_stale_send_completion_refuted : forall fx fr,
  let (s, tr) := pair_run K0 fx fr pair_init stale_witness in
  tr_acc K0 tr = [mkPmsg [] [1%N]; mkPmsg [] [2%N]; mkPmsg [] [3%N]] /\
  tr_tx tr = [mkPmsg [] [1%N]; mkPmsg [] [2%N]; mkPmsg [] [3%N]] /\
  pr_p s = Some 2%N /\ sendingl s = [mkPmsg [] [3%N]] /\ tr_wloss tr = [].
Proof. exact pair_stale_send_completion_refuted. Qed.
Print Assumptions pair_stale_send_completion_refuted.

(* the source as it is now: such a completion schedules nothing and changes nothing else,
   a message completing on a replaced pipe is never parked for the new peer, and on the
   witness message 2 stays in flight on pipe 2 with message 3 still queued *)
Theorem pair_stale_send_ignored_holds : forall k fx fr s p, is_cur s p = false ->
  pair_step_g k fx fr true s (PSendDone p 0%N) =
  (mkPair (pr_p s) (pr_ttl s) (pr_wmq s) (pr_wcap s) (pr_waq s) (pr_rmq s) (pr_rcap s) (pr_raq s)
          (pr_rd s) (pr_wr s) (set_snd (pr_sending s) p None) (pr_readable s) (pr_writable s), []).
Proof. exact pair_stale_send_ignored. Qed.
Print Assumptions pair_stale_send_ignored_holds.
Theorem pair_stale_recv_never_parked_holds : forall k fx fr s p m s' outs, is_cur s p = false ->
  pair_step_g k fx fr true s (PRecvDone p 0%N m) = (s', outs) -> pr_rd s' = pr_rd s.
Proof. exact pair_stale_recv_never_parked. Qed.
Print Assumptions pair_stale_recv_never_parked_holds.
Theorem pair_stale_send_completion_holds : forall fx fr,
  let (s, tr) := pair_run_g K0 fx fr true pair_init stale_witness in
  tr_tx tr = [mkPmsg [] [1%N]; mkPmsg [] [2%N]] /\
  pr_p s = Some 2%N /\ sendingl s = [mkPmsg [] [2%N]] /\ pr_wmq s = [mkPmsg [] [3%N]] /\ tr_wloss tr = [].
Proof. exact PairGuardProofs.pair_stale_send_completion_holds. Qed.
Print Assumptions pair_stale_send_completion_holds.
(* the switches of the source-configured instances: both repairs are present *)
Theorem pair_current_source_repaired :
  C08_PAIR0_STALE_FIXED = true /\ C08_PAIR1_STALE_FIXED = true /\
  C08_PAIR0_STOP_WRITABLE_FIXED = true /\ C08_PAIR1_STOP_WRITABLE_FIXED = true.
Proof. repeat split; reflexivity. Qed.
Print Assumptions pair_current_source_repaired.

(* ---------- send order = SUBMISSION order (since fix 7c956d7, fr = true) ---------- *)
(* pend s = the send buffer followed by the messages of the blocked senders (oldest first);
   submitted s o = the message of a PSend unless the call is refused on the spot (NNG_EPROTO /
   NNG_EAGAIN); sub_loss = a buffer shrink, the message of a cancelled blocked send, what the
   socket close drops.  One step: "a blocked sender => the buffer is full" is kept, and the
   messages handed to the transport followed by those still pending are an in-order
   sub-sequence of pending ++ submitted -- equal to it when nothing is dropped. *)
Theorem pair_submission_order_step : forall k fx s o s' outs,
  PInv s -> QInv s -> op_ok s o -> pair_step k fx true s o = (s', outs) ->
  QInv s' /\
  (sub_loss s o = [] -> map (wire_form k) (pend s ++ submitted k s o) = txs outs ++ map (wire_form k) (pend s')) /\
  sublist (txs outs ++ map (wire_form k) (pend s')) (map (wire_form k) (pend s ++ submitted k s o)) /\
  (forall x, cnt x (map (wire_form k) (pend s ++ submitted k s o)) = cnt x (txs outs ++ map (wire_form k) (pend s' ++ sub_loss s o))).
Proof. intros k fx s o s' outs HI Q Hok H. exact (pair_submission_step k fx true s o s' outs eq_refl HI Q Hok H). Qed.
Print Assumptions pair_submission_order_step.

(* every history, resizes included: the sequence handed to the transport (then the buffer, then
   the blocked senders) respects the order in which the sends were submitted; when nothing was
   dropped by a shrink / cancel / close it IS that sequence, i.e. what the peer is sent is a
   prefix of the submissions and no later-submitted message is ahead of an earlier one *)
Theorem pair_submission_order : forall k fx ops s, PInv s -> QInv s -> ops_ok k fx true s ops ->
  let (s', tr) := pair_run k fx true s ops in
  QInv s' /\
  sublist (tr_tx tr ++ map (wire_form k) (pend s')) (map (wire_form k) (pend s ++ tr_sub k tr)) /\
  (tr_subloss tr = [] -> tr_tx tr ++ map (wire_form k) (pend s') = map (wire_form k) (pend s ++ tr_sub k tr)) /\
  (forall x, cnt x (map (wire_form k) (pend s ++ tr_sub k tr)) = cnt x (tr_tx tr ++ map (wire_form k) (pend s' ++ tr_subloss tr))).
Proof. intros k fx ops s HI Q Hok. exact (pair_submission_order_law k fx true ops s eq_refl HI Q Hok). Qed.
Print Assumptions pair_submission_order.

(* ... for the source as it is now: the instances' runs are those of pair_step with the
   generated flags, and the resize flag is set in both files *)
Theorem pair_submission_order_holds :
  C08_PAIR0_RESIZE_ADMITS_FIXED = true /\ C08_PAIR1_RESIZE_ADMITS_FIXED = true /\
  forall k fx ops, ops_ok k fx true pair_init ops ->
    let (s', tr) := pair_run k fx true pair_init ops in
    sublist (tr_tx tr ++ map (wire_form k) (pend s')) (map (wire_form k) (tr_sub k tr)) /\
    (tr_subloss tr = [] -> tr_tx tr ++ map (wire_form k) (pend s') = map (wire_form k) (tr_sub k tr)).
Proof.
  split; [reflexivity|]. split; [reflexivity|]. intros k fx ops Hok.
  pose proof (pair_submission_order_law k fx true ops pair_init eq_refl (proj1 pair_init_inv)) as L.
  assert (Q: QInv pair_init) by (intros H; exfalso; apply H; reflexivity).
  specialize (L Q Hok). destruct (pair_run k fx true pair_init ops) as [s' tr]. destruct L as (_ & A & B & _). split; assumption.
Qed.
Print Assumptions pair_submission_order_holds.

(* "a blocked sender => the send buffer is full" on every reachable state (replaces the
   Appendix-D exception, which the repair removed) *)
Theorem pair_blocked_sender_implies_full : forall k fx ops, ops_ok k fx true pair_init ops ->
  let s := fst (pair_run k fx true pair_init ops) in
  pr_waq s <> [] -> lmq_full (pr_wmq s) (pr_wcap s) = true /\ pr_wr s = false.
Proof.
  intros k fx ops Hok.
  pose proof (pair_submission_order_law k fx true ops pair_init eq_refl (proj1 pair_init_inv)) as L.
  assert (Q: QInv pair_init) by (intros H; exfalso; apply H; reflexivity).
  specialize (L Q Hok). pose proof (pair_run_law k fx true ops pair_init (proj1 pair_init_inv) Hok) as R.
  destruct (pair_run k fx true pair_init ops) as [s tr]. cbn [fst]. destruct L as (Q' & _). destruct R as (HI & _).
  intros Hne. split; [exact (Q' Hne)|]. destruct (pr_wr s) eqn:W; [|reflexivity].
  destruct HI as (I1 & _). destruct (I1 W) as (_ & _ & C). contradiction.
Qed.
Print Assumptions pair_blocked_sender_implies_full.

(* the resize as first pinned (fr = false): unbuffered socket, sends 1 2 3 submitted in turn
   (2 and 3 block), the buffer grows to 2 leaving them on the wait list, send 4 finds the room
   and overtakes them: the transport is handed 1 4 2 3 although nothing was dropped.  Replayed
   on the implementation (findings/c08/resize_order_demo.c; fixed: 7c956d7); on the same
   history the repaired resize hands over 1 2 3 4. *)
Theorem pair_submission_order_refuted : forall fx,
  ops_ok K0 fx false pair_init resize_witness /\
  let (s, tr) := pair_run K0 fx false pair_init resize_witness in
  tr_sub K0 tr = [mkPmsg [] [1%N]; mkPmsg [] [2%N]; mkPmsg [] [3%N]; mkPmsg [] [4%N]] /\
  tr_tx tr = [mkPmsg [] [1%N]; mkPmsg [] [4%N]; mkPmsg [] [2%N]; mkPmsg [] [3%N]] /\
  tr_subloss tr = [] /\ pend s = [].
Proof. exact pair_submission_order_refuted_pinned. Qed.
Print Assumptions pair_submission_order_refuted.
Theorem pair_blocked_sender_not_full_refuted : forall fx,
  let s := fst (pair_run K0 fx false pair_init (firstn 5 resize_witness)) in
  pr_waq s <> [] /\ lmq_full (pr_wmq s) (pr_wcap s) = false.
Proof. exact pair_blocked_sender_not_full_refuted_pinned. Qed.
Print Assumptions pair_blocked_sender_not_full_refuted.
Theorem pair_submission_order_on_resize_witness : forall fx,
  let (s, tr) := pair_run K0 fx true pair_init resize_witness in
  tr_tx tr = [mkPmsg [] [1%N]; mkPmsg [] [2%N]; mkPmsg [] [3%N]; mkPmsg [] [4%N]] /\ tr_sub K0 tr = tr_tx tr.
Proof. exact pair_submission_order_on_witness. Qed.
Print Assumptions pair_submission_order_on_resize_witness.

(* ---------- the literals of the model are those of the current source ---------- *)
Theorem pair_consts_match :
  PROTO_PAIR0 = C08_PAIR0_SELF /\ PROTO_PAIR0 = C08_PAIR0_PEER /\ PROTO_PAIR1 = C08_PAIR1_SELF /\ PROTO_PAIR1 = C08_PAIR1_PEER /\
  PAIR_BUF_DEFAULT = C08_PAIR0_RMQ_DEFAULT /\ PAIR_BUF_DEFAULT = C08_PAIR0_WMQ_DEFAULT /\
  PAIR_BUF_DEFAULT = C08_PAIR1_RMQ_DEFAULT /\ PAIR_BUF_DEFAULT = C08_PAIR1_WMQ_DEFAULT /\
  0%N = C08_PAIR0_BUF_MIN /\ 0%N = C08_PAIR1_BUF_MIN /\ PAIR_BUF_MAX = C08_PAIR0_BUF_MAX /\ PAIR_BUF_MAX = C08_PAIR1_BUF_MAX /\
  PAIR_TTL_DEFAULT = C08_PAIR1_TTL_DEFAULT /\ PAIR_TTL_MIN = C08_PAIR1_TTL_MIN /\ PAIR_TTL_MAX = C08_PAIR1_TTL_MAX /\
  PAIR_TTL_MAX = NNI_MAX_MAX_TTL /\
  255%N = C08_PAIR1_RX_HOP_LIMIT /\ 255%N = C08_PAIR1_TX_HOP_LIMIT /\
  E_INVAL = C08_NNG_EINVAL /\ E_BUSY = C08_NNG_EBUSY /\ E_CLOSED = C08_NNG_ECLOSED /\ E_AGAIN = C08_NNG_EAGAIN /\
  E_NOTSUP = C08_NNG_ENOTSUP /\ E_PROTO = C08_NNG_EPROTO /\
  pair0_step = pair_step_g K0 C08_PAIR0_STOP_WRITABLE_FIXED C08_PAIR0_RESIZE_ADMITS_FIXED C08_PAIR0_STALE_FIXED /\
  pair1_step = pair_step_g (K1 false) C08_PAIR1_STOP_WRITABLE_FIXED C08_PAIR1_RESIZE_ADMITS_FIXED C08_PAIR1_STALE_FIXED /\
  pair1_raw_step = pair_step_g (K1 true) C08_PAIR1_STOP_WRITABLE_FIXED C08_PAIR1_RESIZE_ADMITS_FIXED C08_PAIR1_STALE_FIXED.
Proof. repeat split; reflexivity. Qed.
Print Assumptions pair_consts_match.

(* ---------- non-vacuity ---------- *)
Definition c08_demo : list pop :=
  [PSetOpt None (OSendBuf 1); PSetOpt None (OMaxTtl 3);
   PSend None 1%N true (mkPmsg [] [7%N]);                    (* buffered: no peer yet *)
   PSend None 2%N false (mkPmsg [] [8%N]);                   (* blocks: buffer full *)
   PPipeStart 5%N PROTO_PAIR1;                               (* 7 goes out with hop 1, 8 moves into the buffer *)
   PPipeStart 6%N PROTO_PAIR1;                               (* refused: busy *)
   PSendDone 5%N 0%N;                                        (* 8 goes out *)
   PRecvDone 5%N 0%N (mkPmsg [] [0; 0; 0; 3; 9]%N);          (* hop 3 = ttl: letin, parked (no receive buffer) *)
   PRecv None 3%N true;                                      (* delivered with header 00000003 *)
   PRecvDone 5%N 0%N (mkPmsg [] [0; 0; 0; 4; 10]%N);         (* hop 4 > ttl: dropped, connection kept *)
   PSetOpt None (OSendBuf 4)].
Example pair_history_nonvacuous :
  ops_ok (K1 false) false true pair_init c08_demo /\
  let (s, tr) := pair_run (K1 false) false true pair_init c08_demo in
  tr_tx tr = [mkPmsg [0; 0; 0; 1]%N [7%N]; mkPmsg [0; 0; 0; 1]%N [8%N]] /\
  tr_dlv tr = [mkPmsg [0; 0; 0; 3]%N [9%N]] /\ pr_p s = Some 5%N /\ tr_wloss tr = [] /\ tr_rloss tr = [].
Proof. vm_compute. repeat split; auto; try tauto; try discriminate; intros [H|H]; try discriminate H; auto. Qed.

