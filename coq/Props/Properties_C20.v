(* Properties_C20: statements only.  C20 -- a failed allocation yields a clean error,
   never a crash, hang or leak.

   PROOF ONLY FOR THE MODELLED ALLOCATION SITES (coq/AllocFail):
     message.c    NNI_ALLOC_STRUCT in nni_msg_alloc / nni_msg_dup, nni_zalloc in
                  nni_chunk_grow (append, insert, realloc, reserve, the _uN forms,
                  nni_msg_alloc) and nni_chunk_dup; nni_msg_unique, nni_msg_pull_up
     idhash.c     NNI_ALLOC_STRUCTS in id_resize (nni_id_set / nni_id_alloc / nni_id_remove)
     lmq.c        nni_alloc in nni_lmq_resize (and nni_lmq_init's use of it)
     msgqueue.c   NNI_ALLOC_STRUCT + nni_zalloc in nni_msgq_init, nni_zalloc in nni_msgq_resize
     url.c        NNI_ALLOC_STRUCT in nng_url_parse / nng_url_clone, the long-URL nni_strdup,
                  nni_alloc in nni_url_clone_inline
     sub.c        NNI_ALLOC_STRUCT + nni_alloc in sub0_ctx_subscribe
     websocket.c  nni_msg_alloc in ws_read_finish_msg and the lock it runs under
   Every theorem quantifies over EVERY oracle (every combination of failing positions,
   not only a single failure).  All other allocation sites of the library are reached
   only by the generated site table (a check of shape) and by the fault enumeration
   of checks/c20.py, which is not proof.

   Sizes of C structs (SZ_MSG ...) are universally quantified positive parameters;
   the white-box harness reads the real values from the library. *)
From Coq Require Import List Arith NArith Bool Permutation.
From Coq Require String.
From NngV Require Import Gen.Consts Base.ListX Base.Bytes
  Msg.MsgModel Msg.MsgSpec Msg.MsgProofs
  Queue.LmqModel Queue.LmqSpec Queue.LmqProofs Queue.MsgqModel Queue.MsgqProofs
  AllocFail.AfBase AllocFail.AfMsg AllocFail.AfMsgProofs AllocFail.AfQueue AllocFail.AfQueueProofs.
Import ListNotations.

(* ================================================================== message.c *)

(* One public operation on a message, every oracle: it runs to completion (no
   out-of-bounds access, no panic), keeps the invariant, calls the allocator at most
   once; if that call is refused the operation returns NNG_ENOMEM and the message
   is EXACTLY as before (concretely, not only as two strings) and nothing is leaked;
   otherwise it does what the two-strings specification says.  In both cases the blocks
   the message owns afterwards are the blocks it owned before plus what the call
   allocated minus what it freed. *)
Theorem msg_step_enomem_clean : forall SZ_MSG m o (orc : oracle), Inv m ->
  step_clean SZ_MSG m o (run (msg_step_o true m o) orc) (ledger (msg_step_o true m o) orc).
Proof. exact msg_step_o_clean. Qed.
Print Assumptions msg_step_enomem_clean.

(* nng_msg_alloc: two allocations; whichever is refused, NNG_ENOMEM, no message, and
   what was allocated has been freed again *)
Theorem msg_alloc_enomem_clean : forall SZ_MSG, 0 < SZ_MSG -> forall sz (orc : oracle),
  alloc_clean SZ_MSG (run (msg_alloc_o SZ_MSG sz) orc) (ledger (msg_alloc_o SZ_MSG sz) orc) sz.
Proof. exact msg_alloc_o_clean. Qed.
Print Assumptions msg_alloc_enomem_clean.

Theorem msg_dup_enomem_clean : forall SZ_MSG, 0 < SZ_MSG -> forall m (orc : oracle), Inv m ->
  dup_clean SZ_MSG m (run (msg_dup_o SZ_MSG m) orc) (ledger (msg_dup_o SZ_MSG m) orc).
Proof. exact msg_dup_o_clean. Qed.
Print Assumptions msg_dup_enomem_clean.

(* freeing returns every block the message owns *)
Theorem msg_free_balanced : forall SZ_MSG, 0 < SZ_MSG -> forall m (orc : oracle), Inv m ->
  balanced (msg_owned SZ_MSG m) (ledger (msg_free_o SZ_MSG m) orc) [] /\
  ncalls (ledger (msg_free_o SZ_MSG m) orc) = 0.
Proof. exact msg_free_o_balanced. Qed.
Print Assumptions msg_free_balanced.

(* nni_msg_unique on a shared message: the documented best-effort loss of that one
   message (NULL), never of memory; the original stays with its other owners *)
Theorem msg_unique_enomem_clean : forall SZ_MSG, 0 < SZ_MSG -> forall m shared (orc : oracle), Inv m ->
  let r := run (msg_unique_o SZ_MSG m shared) orc in
  let t := ledger (msg_unique_o SZ_MSG m shared) orc in
  (shared = false -> r = Some (Some m) /\ t = []) /\
  (shared = true ->
     (failed t = true -> r = Some None /\ self_balanced t) /\
     (failed t = false -> exists m', r = Some (Some m') /\ Inv m' /\ abs m' = abs m /\
                                     balanced [] t (msg_owned SZ_MSG m'))).
Proof. exact msg_unique_o_clean. Qed.
Print Assumptions msg_unique_enomem_clean.

(* nni_msg_pull_up, duplicate path (shared, or no room for the header): NULL, the
   original untouched (the caller -- inproc -- frees it: loss of one message) *)
Theorem msg_pull_up_dup_enomem_clean : forall SZ_MSG, 0 < SZ_MSG -> forall insert_checked m shared (orc : oracle),
  Inv m -> (chunk_room (m_body m) <? length (m_hdr m)) || shared = true ->
  let r := run (msg_pull_up_o SZ_MSG true insert_checked m shared) orc in
  let t := ledger (msg_pull_up_o SZ_MSG true insert_checked m shared) orc in
  (failed t = true -> r = Some None /\ self_balanced t) /\
  (failed t = false -> r = msg_pull_up true m shared false false).
Proof. exact msg_pull_up_o_dup_clean. Qed.
Print Assumptions msg_pull_up_dup_enomem_clean.

(* nni_msg_pull_up, in-place path, THE CODE AS IT IS: the result of nni_msg_insert is
   ignored; when that insert has to grow the chunk (room for the header but not the 8
   bytes of slack the split needs) and the allocation is refused, the message is
   delivered with its header silently dropped.  Witness: nng_msg_alloc(0),
   nng_msg_insert(30 bytes), a 32-byte header.  Replayed on the library by
   harness/wb_allocfail.c (`pullup` script); see findings/c20-proposed.txt. *)
Theorem msg_pull_up_enomem_lost_header_refuted : forall SZ_MSG, 0 < SZ_MSG ->
  exists m, Inv m /\ m_hdr m <> [] /\
    run (msg_pull_up_o SZ_MSG true false m false) [false] = Some (Some (mkMsg [] (m_body m))).
Proof. exact pull_up_lost_header_refuted. Qed.
Print Assumptions msg_pull_up_enomem_lost_header_refuted.

(* any history of operations, one oracle threaded through all of them: runs to the
   end, invariant kept (so every later call behaves), ledger balanced over the whole
   history; with no refusal the outputs are those of the specification *)
Theorem msg_history_enomem_clean : forall SZ_MSG, 0 < SZ_MSG -> forall ops m (orc : oracle), Inv m ->
  exists outs m', run (msg_run_o true m ops) orc = Some (outs, m') /\ Inv m' /\
    length outs = length ops /\
    balanced (msg_owned SZ_MSG m) (ledger (msg_run_o true m ops) orc) (msg_owned SZ_MSG m') /\
    (failed (ledger (msg_run_o true m ops) orc) = false ->
       exists fl, spec_run (abs m) (combine ops fl) outs (abs m') /\ length fl = length ops).
Proof. exact msg_run_o_clean. Qed.
Print Assumptions msg_history_enomem_clean.

(* ================================================================== lmq.c *)
Theorem lmq_resize_enomem_clean : forall SZ_PTR, 0 < SZ_PTR -> forall q cap (orc : oracle), LInv q ->
  let r := run (lmq_resize_o SZ_PTR true q cap) orc in
  let t := ledger (lmq_resize_o SZ_PTR true q cap) orc in
  exists rv q' freed, r = Some (rv, q', freed) /\ LInv q' /\
    balanced (lmq_owned SZ_PTR q) t (lmq_owned SZ_PTR q') /\ ncalls t = 1 /\
    (failed t = true -> rv = ENOMEM_q /\ q' = q /\ freed = [] /\ self_balanced t) /\
    (failed t = false -> (LFreed rv freed, labs q') = fifo_step (labs q) (LResize cap false)).
Proof. exact lmq_resize_o_clean. Qed.
Print Assumptions lmq_resize_enomem_clean.

(* nni_lmq_init never fails: the documented fallback of a refused ring is capacity 2 *)
Theorem lmq_init_enomem_clean : forall SZ_PTR, 0 < SZ_PTR -> forall cap (orc : oracle),
  let r := run (lmq_init_o SZ_PTR true cap) orc in
  let t := ledger (lmq_init_o SZ_PTR true cap) orc in
  exists q, r = Some q /\ LInv q /\ balanced [] t (lmq_owned SZ_PTR q) /\ snd (labs q) = [] /\
    (failed t = false -> q_cap q = cap) /\
    (failed t = true -> q_cap q = 2 /\ 2 < cap /\ self_balanced t).
Proof. exact lmq_init_o_clean. Qed.
Print Assumptions lmq_init_enomem_clean.

Theorem lmq_history_enomem_clean : forall SZ_PTR, 0 < SZ_PTR -> forall ops q (orc : oracle), LInv q ->
  exists outs q', run (lmq_run_o SZ_PTR true q ops) orc = Some (outs, q') /\ LInv q' /\
    balanced (lmq_owned SZ_PTR q) (ledger (lmq_run_o SZ_PTR true q ops) orc) (lmq_owned SZ_PTR q') /\
    q_len q' <= q_cap q' /\ length outs = length ops.
Proof. exact lmq_run_o_clean. Qed.
Print Assumptions lmq_history_enomem_clean.

Theorem lmq_fini_balanced : forall SZ_PTR q (orc : oracle),
  balanced (lmq_owned SZ_PTR q) (ledger (lmq_fini_o SZ_PTR q) orc) [] /\
  ncalls (ledger (lmq_fini_o SZ_PTR q) orc) = 0.
Proof. exact lmq_fini_o_balanced. Qed.
Print Assumptions lmq_fini_balanced.

(* ================================================================== msgqueue.c *)
Theorem msgq_init_enomem_clean : forall SZ_PTR SZ_MSGQ, 0 < SZ_PTR -> 0 < SZ_MSGQ -> forall cap (orc : oracle),
  let r := run (msgq_init_o SZ_PTR SZ_MSGQ cap) orc in
  let t := ledger (msgq_init_o SZ_PTR SZ_MSGQ cap) orc in
  ncalls t <= 2 /\
  (failed t = true -> r = (ENOMEM_q, None) /\ self_balanced t) /\
  (failed t = false -> exists q, r = (0%N, Some q) /\ AllInv q /\ items q = [] /\ mq_cap q = cap /\
                                 balanced [] t (msgq_owned SZ_PTR SZ_MSGQ q)).
Proof. exact msgq_init_o_clean. Qed.
Print Assumptions msgq_init_enomem_clean.

Theorem msgq_resize_enomem_clean : forall SZ_PTR SZ_MSGQ, 0 < SZ_PTR -> 0 < SZ_MSGQ -> forall q cap (orc : oracle), AllInv q ->
  let r := run (msgq_resize_o SZ_PTR true q cap) orc in
  let t := ledger (msgq_resize_o SZ_PTR true q cap) orc in
  exists rv q' outs, r = Some (rv, q', outs) /\ AllInv q' /\
    balanced (msgq_owned SZ_PTR SZ_MSGQ q) t (msgq_owned SZ_PTR SZ_MSGQ q') /\ ncalls t <= 1 /\
    (failed t = true -> rv = ENOMEM_q /\ q' = q /\ outs = [] /\ self_balanced t) /\
    (failed t = false -> step_law q (MResize cap false) rv q' outs).
Proof. exact msgq_resize_o_clean. Qed.
Print Assumptions msgq_resize_enomem_clean.

Theorem msgq_fini_balanced : forall SZ_PTR SZ_MSGQ q (orc : oracle),
  balanced (msgq_owned SZ_PTR SZ_MSGQ q) (ledger (msgq_fini_o SZ_PTR SZ_MSGQ q) orc) [] /\
  ncalls (ledger (msgq_fini_o SZ_PTR SZ_MSGQ q) orc) = 0.
Proof. exact msgq_fini_o_balanced. Qed.
Print Assumptions msgq_fini_balanced.

(* ================================================================== the ledger *)
(* ledgers of consecutive calls add up; other objects' blocks are a frame *)
Theorem ledger_compose : forall a t1 b t2 c, balanced a t1 b -> balanced b t2 c -> balanced a (t1 ++ t2) c.
Proof. exact balanced_trans. Qed.
Print Assumptions ledger_compose.
Theorem ledger_frame : forall a t b f, balanced a t b -> balanced (a ++ f) t (b ++ f).
Proof. exact balanced_frame. Qed.
Print Assumptions ledger_frame.

(* allocate; any history under any oracle; free: everything is returned
   ("fini after failure balances to zero", for the message object) *)
Theorem msg_fini_after_failure_balanced : forall SZ_MSG, 0 < SZ_MSG -> forall sz ops (o1 o2 o3 : oracle),
  failed (ledger (msg_alloc_o SZ_MSG sz) o1) = false ->
  exists m m', run (msg_alloc_o SZ_MSG sz) o1 = Some (0%N, Some m) /\
    run (msg_run_o true m ops) o2 = Some (fst (match run (msg_run_o true m ops) o2 with Some x => x | None => ([], m) end), m') /\
    balanced [] (ledger (msg_alloc_o SZ_MSG sz) o1 ++ ledger (msg_run_o true m ops) o2 ++ ledger (msg_free_o SZ_MSG m') o3) [].
Proof.
  intros SZ_MSG Hp sz ops o1 o2 o3 F.
  destruct (msg_alloc_o_clean SZ_MSG Hp sz o1) as (_ & _ & S). destruct (S F) as (m & R & HI & _ & _ & B0).
  destruct (msg_run_o_clean SZ_MSG Hp ops m o2 HI) as (outs & m' & R1 & HI' & _ & B1 & _).
  destruct (msg_free_o_balanced SZ_MSG Hp m' o3 HI') as [B2 _].
  exists m, m'. split; [exact R|]. split; [rewrite R1; reflexivity|].
  eapply balanced_trans; [exact B0|]. eapply balanced_trans; [exact B1|exact B2].
Qed.
Print Assumptions msg_fini_after_failure_balanced.

(* ================================================================== non-vacuity *)
Example c20_inv_nonvacuous : exists m, msg_alloc 100 false false = Some (0%N, Some m) /\ Inv m.
Proof. destruct (alloc_spec 100) as (m & A & HI & _). eauto. Qed.

(* the failure branch of the step theorem is reachable: a freshly allocated message,
   an append that must grow, an oracle that refuses *)
Example c20_failure_reachable :
  exists m, Inv m /\ failed (ledger (msg_step_o true m (Append (repeat 1%N 200))) [false]) = true.
Proof.
  destruct (alloc_spec 10) as (m & A & HI & _). exists m. split; [exact HI|].
  unfold msg_alloc in A. vm_compute in A. inversion A; subst. vm_compute. reflexivity.
Qed.

Example c20_lmq_nonvacuous : exists q, lmq_init true 8 false = Some q /\ LInv q.
Proof. destruct (lmq_init_inv 8 false) as (q & I & HI & _). eauto. Qed.

Example c20_msgq_nonvacuous : AllInv (msgq_init 4).
Proof. apply msgq_init_inv. Qed.

(* ================================================================== idhash.c *)
From NngV Require IdMap.IdMapModel IdMap.IdMapSpec IdMap.IdMapProofs AllocFail.AfIdMap AllocFail.AfIdMapProofs.

(* nni_id_set: a refused table allocation gives NNG_ENOMEM with the map exactly as it
   was (up to the "registered" mark of a static map), the invariant -- hence every later
   call -- intact, nothing leaked; otherwise the finite-map specification *)
Theorem idmap_set_enomem_clean : forall SZ_ENT, 0 < SZ_ENT -> forall fixed m k v (orc : oracle),
  IdMapProofs.Inv fixed m ->
  let r := run (AfIdMap.id_set_o SZ_ENT m k v) orc in
  let t := ledger (AfIdMap.id_set_o SZ_ENT m k v) orc in
  exists rv m', r = IdMapModel.IdOk (rv, m') /\ IdMapProofs.Inv fixed m' /\
    IdMapSpec.id_spec_rel (IdMapProofs.abs m) (IdMapModel.IoSet k v (failed t)) (IdMapModel.OutRv rv) (IdMapProofs.abs m') /\
    balanced (AfIdMap.idmap_owned SZ_ENT m) t (AfIdMap.idmap_owned SZ_ENT m') /\ ncalls t <= 1 /\
    (failed t = true -> rv = IdMapModel.id_ENOMEM /\ m' = AfIdMapProofs.reg m /\ self_balanced t) /\
    (failed t = false -> rv = 0%N).
Proof. exact AfIdMapProofs.id_set_o_clean. Qed.
Print Assumptions idmap_set_enomem_clean.

(* nni_id_remove: the shrink is best effort ("it's ok if we can't"): the removal
   succeeds, the table keeps its size *)
Theorem idmap_remove_enomem_clean : forall SZ_ENT, 0 < SZ_ENT -> forall fixed m k (orc : oracle),
  IdMapProofs.Inv fixed m ->
  let r := run (AfIdMap.id_remove_o SZ_ENT m k) orc in
  let t := ledger (AfIdMap.id_remove_o SZ_ENT m k) orc in
  exists rv m', r = IdMapModel.IdOk (rv, m') /\ IdMapProofs.Inv fixed m' /\
    IdMapSpec.id_spec_rel (IdMapProofs.abs m) (IdMapModel.IoRemove k (failed t)) (IdMapModel.OutRv rv) (IdMapProofs.abs m') /\
    balanced (AfIdMap.idmap_owned SZ_ENT m) t (AfIdMap.idmap_owned SZ_ENT m') /\ ncalls t <= 1 /\
    (failed t = true -> rv = 0%N /\ self_balanced t /\ IdMapModel.id_cap m' = IdMapModel.id_cap m).
Proof. exact AfIdMapProofs.id_remove_o_clean. Qed.
Print Assumptions idmap_remove_enomem_clean.

(* nni_id_alloc: NNG_ENOMEM, no id issued, contents unchanged (IdMapSpec.id_spec_fail_step:
   only the cursor has moved past the id that would have been issued) *)
Theorem idmap_alloc_enomem_clean : forall SZ_ENT, 0 < SZ_ENT -> forall fixed m v rnd (orc : oracle),
  IdMapProofs.Inv fixed m ->
  let r := run (AfIdMap.id_alloc_o SZ_ENT fixed m v rnd) orc in
  let t := ledger (AfIdMap.id_alloc_o SZ_ENT fixed m v rnd) orc in
  exists rv ido m', r = IdMapModel.IdOk (rv, ido, m') /\ IdMapProofs.Inv fixed m' /\
    IdMapSpec.id_spec_rel (IdMapProofs.abs m) (IdMapModel.IoAlloc v rnd (failed t)) (IdMapModel.OutAlloc rv ido) (IdMapProofs.abs m') /\
    balanced (AfIdMap.idmap_owned SZ_ENT m) t (AfIdMap.idmap_owned SZ_ENT m') /\ ncalls t <= 1 /\
    (failed t = true -> rv = IdMapModel.id_ENOMEM /\ ido = None /\ self_balanced t /\
                        IdMapModel.id_cap m' = IdMapModel.id_cap m).
Proof. exact AfIdMapProofs.id_alloc_o_clean. Qed.
Print Assumptions idmap_alloc_enomem_clean.

Theorem idmap_history_enomem_clean : forall SZ_ENT, 0 < SZ_ENT -> forall fixed ops m (orc : oracle),
  IdMapProofs.Inv fixed m ->
  exists outs m', run (AfIdMap.id_run_o SZ_ENT fixed m ops) orc = IdMapModel.IdOk (outs, m') /\
    IdMapProofs.Inv fixed m' /\
    balanced (AfIdMap.idmap_owned SZ_ENT m) (ledger (AfIdMap.id_run_o SZ_ENT fixed m ops) orc) (AfIdMap.idmap_owned SZ_ENT m') /\
    length outs = length ops /\ ncalls (ledger (AfIdMap.id_run_o SZ_ENT fixed m ops) orc) <= length ops.
Proof. exact AfIdMapProofs.id_run_o_clean. Qed.
Print Assumptions idmap_history_enomem_clean.

Theorem idmap_fini_balanced : forall SZ_ENT m (orc : oracle),
  balanced (AfIdMap.idmap_owned SZ_ENT m) (ledger (AfIdMap.id_fini_o SZ_ENT m) orc) [] /\
  IdMapModel.id_cap (run (AfIdMap.id_fini_o SZ_ENT m) orc) = 0.
Proof. exact AfIdMapProofs.id_fini_o_balanced. Qed.
Print Assumptions idmap_fini_balanced.

(* ================================================================== url.c *)
From NngV Require Url.UrlParseModel Url.UrlParseProofs AllocFail.AfUrl AllocFail.AfUrlProofs.

(* nng_url_parse with the long-URL copy TESTED (the repaired form), every oracle,
   every input: NNG_ENOMEM with everything returned, or exactly the verdict of C19's
   parser; a successful parse owns the struct and, for a long URL, one buffer *)
Theorem url_parse_enomem_clean : forall SZ_URL, 0 < SZ_URL -> forall fx resolver raw (orc : oracle),
  let r := run (AfUrl.url_parse_o SZ_URL true fx resolver raw) orc in
  let t := ledger (AfUrl.url_parse_o SZ_URL true fx resolver raw) orc in
  ncalls t <= 2 /\
  (failed t = true -> r = AfUrl.URes AfUrl.U_ENOMEM None /\ self_balanced t) /\
  (failed t = false ->
     match UrlParseModel.url_parse fx resolver raw with
     | UrlParseModel.UVal u => r = AfUrl.URes 0%N (Some u) /\ balanced [] t (AfUrl.url_owned SZ_URL u)
     | UrlParseModel.UErr rv => r = AfUrl.URes rv None /\ self_balanced t
     | UrlParseModel.UOob => r = AfUrl.UCrash
     end).
Proof. exact AfUrlProofs.url_parse_o_clean. Qed.
Print Assumptions url_parse_enomem_clean.

(* the code as pinned does not test nni_strdup: struct granted, copy refused, a URL of
   >= 128 bytes after the scheme => NULL dereference.  Replayed on the library
   (API program `url`, k = 8: SEGV in nni_url_parse_inline_inner). *)
Theorem url_parse_strdup_enomem_refuted : forall SZ_URL, 0 < SZ_URL ->
  run (AfUrl.url_parse_o SZ_URL false UrlParseModel.fx_repaired (fun _ => None) AfUrlProofs.long_raw) [true; false]
  = AfUrl.UCrash.
Proof. exact AfUrlProofs.url_parse_strdup_unchecked_refuted. Qed.
Print Assumptions url_parse_strdup_enomem_refuted.

(* which of the two speaks about the tree as it is: the generated flag *)
Theorem url_parse_current_source : forall SZ_URL, 0 < SZ_URL ->
  if URL_STRDUP_CHECKED
  then forall fx resolver raw (orc : oracle),
         failed (ledger (AfUrl.url_parse_o SZ_URL URL_STRDUP_CHECKED fx resolver raw) orc) = true ->
         run (AfUrl.url_parse_o SZ_URL URL_STRDUP_CHECKED fx resolver raw) orc = AfUrl.URes AfUrl.U_ENOMEM None
  else exists raw (orc : oracle),
         run (AfUrl.url_parse_o SZ_URL URL_STRDUP_CHECKED UrlParseModel.fx_repaired (fun _ => None) raw) orc = AfUrl.UCrash.
Proof.
  intros SZ Hp. destruct URL_STRDUP_CHECKED eqn:E.
  - intros fx res raw orc F. now destruct (AfUrlProofs.url_parse_o_clean SZ Hp fx res raw orc) as (_ & X & _); destruct (X F).
  - exists AfUrlProofs.long_raw, [true; false]. now apply AfUrlProofs.url_parse_strdup_unchecked_refuted.
Qed.
Print Assumptions url_parse_current_source.

Theorem url_clone_enomem_clean : forall SZ_URL, 0 < SZ_URL -> forall u (orc : oracle), UrlParseProofs.buf_ok u ->
  let r := run (AfUrl.url_clone_o SZ_URL true u) orc in
  let t := ledger (AfUrl.url_clone_o SZ_URL true u) orc in
  ncalls t <= 2 /\
  (failed t = true -> r = AfUrl.URes AfUrl.U_ENOMEM None /\ self_balanced t) /\
  (failed t = false -> r = AfUrl.URes 0%N (Some u) /\ balanced [] t (AfUrl.url_owned SZ_URL u)).
Proof. exact AfUrlProofs.url_clone_o_clean. Qed.
Print Assumptions url_clone_enomem_clean.

Theorem url_free_balanced : forall SZ_URL u (orc : oracle),
  balanced (AfUrl.url_owned SZ_URL u) (ledger (AfUrl.url_free_o SZ_URL u) orc) [] /\
  ncalls (ledger (AfUrl.url_free_o SZ_URL u) orc) = 0.
Proof. exact AfUrlProofs.url_free_o_balanced. Qed.
Print Assumptions url_free_balanced.

(* ================================================================== sub.c *)
From NngV Require Proto.Common Proto.SubModel AllocFail.AfSub AllocFail.AfWs AllocFail.AfSubWsProofs.

Theorem sub_subscribe_enomem_clean : forall SZ_TOPIC, 0 < SZ_TOPIC -> forall fixed s k t (orc : oracle),
  let r := run (AfSub.sub_subscribe_o SZ_TOPIC fixed s k t) orc in
  let l := ledger (AfSub.sub_subscribe_o SZ_TOPIC fixed s k t) orc in
  ncalls l <= 2 /\
  (failed l = true -> r = (s, [Common.OptRv Common.E_NOMEM]) /\ self_balanced l) /\
  (failed l = false ->
     r = SubModel.sub_step fixed s (Common.PSetOpt k (Common.OSub t)) /\ frees l = [] /\
     allocs l = if AfSub.sub_adds s k t then AfSub.topic_blocks SZ_TOPIC t else []).
Proof. exact AfSubWsProofs.sub_subscribe_o_clean. Qed.
Print Assumptions sub_subscribe_enomem_clean.

Theorem sub_unsubscribe_balanced : forall SZ_TOPIC fixed s k t (orc : oracle),
  let r := run (AfSub.sub_unsubscribe_o SZ_TOPIC fixed s k t) orc in
  let l := ledger (AfSub.sub_unsubscribe_o SZ_TOPIC fixed s k t) orc in
  r = SubModel.sub_step fixed s (Common.PSetOpt k (Common.OUnsub t)) /\ ncalls l = 0 /\ allocs l = [] /\
  Permutation (frees l) (if AfSub.sub_drops s k t then AfSub.topic_blocks SZ_TOPIC t else []).
Proof. exact AfSubWsProofs.sub_unsubscribe_o_clean. Qed.
Print Assumptions sub_unsubscribe_balanced.

(* ================================================================== websocket.c *)
(* the code as pinned: ws_read_finish_msg, running with ws->mtx held, answers a refused
   nni_msg_alloc with ws_close_error, which locks ws->mtx: self-deadlock.  Replayed on
   the library (API programs *:ws; "pthread_mutex_lock: Resource deadlock avoided"). *)
Theorem ws_enomem_deadlock_refuted : forall SZ_MSG SZ_FRAME, 0 < SZ_MSG ->
  AfWs.w_held AfSubWsProofs.ws_witness = true /\
  In AfWs.WDeadlock (snd (fst (run (AfWs.ws_read_finish_msg_o SZ_MSG SZ_FRAME false AfSubWsProofs.ws_witness) [false]))).
Proof. exact AfSubWsProofs.ws_enomem_deadlock_refuted. Qed.
Print Assumptions ws_enomem_deadlock_refuted.

(* the repaired form (ws_close called directly): never a second lock; a refused
   allocation fails the receive with NNG_ENOMEM and closes the connection (the
   documented loss of one connection) with the queued frames still owned by it *)
Theorem ws_read_finish_enomem_clean : forall SZ_MSG SZ_FRAME, 0 < SZ_MSG -> forall w (orc : oracle),
  AfWs.w_held w = true ->
  let r := run (AfWs.ws_read_finish_msg_o SZ_MSG SZ_FRAME true w) orc in
  let t := ledger (AfWs.ws_read_finish_msg_o SZ_MSG SZ_FRAME true w) orc in
  let w' := fst (fst r) in let outs := snd (fst r) in
  ~ In AfWs.WDeadlock outs /\ AfWs.w_held w' = true /\
  (failed t = true ->
     exists a rest, AfWs.w_recvq w = a :: rest /\ snd r = None /\ self_balanced t /\
       hd_error outs = Some (AfWs.WFinish a ENOMEM 0) /\ AfWs.w_closed w' = true /\ AfWs.w_recvq w' = [] /\
       AfWs.w_rxq w' = AfWs.w_rxq w) /\
  (failed t = false ->
     (outs = [] /\ w' = w /\ snd r = None /\ t = []) \/
     (exists a rest m, AfWs.w_recvq w = a :: rest /\ outs = [AfWs.WFinish a 0%N (list_sum (AfWs.w_rxq w))] /\
        snd r = Some m /\ Inv m /\ abs m = ([], zeros (list_sum (AfWs.w_rxq w))) /\
        AfWs.w_rxq w' = [] /\ AfWs.w_recvq w' = rest /\
        balanced (AfWs.ws_owned SZ_FRAME w) t (msg_owned SZ_MSG m))).
Proof. exact AfSubWsProofs.ws_read_finish_msg_o_clean. Qed.
Print Assumptions ws_read_finish_enomem_clean.

Theorem ws_current_source : forall SZ_MSG SZ_FRAME, 0 < SZ_MSG ->
  if WS_FINISH_RELOCK_FIXED
  then forall w (orc : oracle), AfWs.w_held w = true ->
         ~ In AfWs.WDeadlock (snd (fst (run (AfWs.ws_read_finish_msg_o SZ_MSG SZ_FRAME WS_FINISH_RELOCK_FIXED w) orc)))
  else exists w (orc : oracle), AfWs.w_held w = true /\
         In AfWs.WDeadlock (snd (fst (run (AfWs.ws_read_finish_msg_o SZ_MSG SZ_FRAME WS_FINISH_RELOCK_FIXED w) orc))).
Proof.
  intros SM SF Hp. destruct WS_FINISH_RELOCK_FIXED.
  - intros w orc H. apply (AfSubWsProofs.ws_read_finish_msg_o_clean SM SF Hp w orc H).
  - exists AfSubWsProofs.ws_witness, [false]. apply (AfSubWsProofs.ws_enomem_deadlock_refuted SM SF Hp).
Qed.
Print Assumptions ws_current_source.

(* ================================================================== the site table *)
(* Every direct allocation call in src/ outside tests / TLS / Windows / tools
   (nni_alloc, nni_zalloc, NNI_ALLOC_STRUCT(S), nni_strdup, nni_msg_alloc, nni_aio_alloc,
   nni_asprintf, the resize / id-map / url entry points ...) either has its result
   compared with NULL (its status tested) before the first use -- as decided by the
   scanner tools/gen_consts_d/c20_sites.py, or by its table of hand-read justifications
   for the idioms it cannot see -- or is one of the sites below, which are genuinely
   unchecked in the pinned tree and were each confirmed by an injection run.
   A check of SHAPE regenerated from the source on every run; not a semantic proof.
   PARTIAL: the full statement `forallb as_checked ALLOC_SITES = true` is false of the
   pinned tree because of exactly these sites. *)
Section SiteTable.
Import String.
Definition KNOWN_UNCHECKED : list (String.string * String.string) :=
  [ ("nni_aio_sys_init", "nni_zalloc");               (* aio.c: the expire-queue array; init k=6 *)
    ("nni_url_parse_inline_inner", "nni_strdup");     (* url.c: the long-URL copy; url k=8 *)
    ("nni_msg_pull_up", "nni_msg_insert") ]%string.   (* message.c: result ignored; wb pullup script *)
Definition site_known (s : alloc_site) : bool :=
  existsb (fun k => String.eqb (as_fn s) (fst k) && String.eqb (as_callee s) (snd k)) KNOWN_UNCHECKED.

Theorem alloc_sites_checked_partial :
  forallb (fun s => as_checked s || site_known s) ALLOC_SITES = true /\
  List.length ALLOC_SITES = ALLOC_SITES_COUNT /\ 100 <= ALLOC_SITES_COUNT.
Proof. split; [vm_compute; reflexivity|]. split; [vm_compute; reflexivity|]. apply Nat.leb_le. vm_compute. reflexivity. Qed.
Print Assumptions alloc_sites_checked_partial.
End SiteTable.

(* the literals of the wrappers are those of the current source *)
Theorem c20_consts_match :
  ENOMEM = C20_NNG_ENOMEM /\ ENOMEM_q = C20_NNG_ENOMEM /\ IdMapModel.id_ENOMEM = C20_NNG_ENOMEM /\
  AfUrl.U_ENOMEM = C20_NNG_ENOMEM /\ Common.E_NOMEM = C20_NNG_ENOMEM /\
  AfWs.WS_ECLOSED = C20_NNG_ECLOSED /\ AfWs.WS_CLOSE_INTERNAL = C20_WS_CLOSE_INTERNAL /\
  C20_WS_SHORT_FRAME = 126 /\ UrlParseModel.STATIC_SZ = C20_URL_STATIC /\
  MSG_HEADROOM = 32 /\ MSG_HEADROOM2 = 32 /\ MSG_BIG = 1024.
Proof. repeat split; reflexivity. Qed.
Print Assumptions c20_consts_match.
