(* Properties_C11: statements only.  C11 -- hostile or broken peers cannot
   crash, wedge or bypass size limits.

   The receive paths are TOTAL Gallina functions over ARBITRARY byte streams:
   the stream transports' receiver as coded (SpFrameModel.rx_feed) and its staged
   form (sp_feed), the negotiation (the nego_rx functions), the composed connection
   (SpConnModel.conn_feed), the protocols' header checks (proto_check over
   Proto/ReqRepBacktrace.v, SurveyBacktrace.v, PairModel.rx_decode), the UDP
   datagram classifier (udp_classify), the endpoint bookkeeping (ep_step), and
   C16's WebSocket / HTTP decoders.  What is proved is the logic of these
   decoders; that the C neither crashes nor corrupts memory outside them is
   observed (ASan/UBSan runs of checks/c11.py), not proved: C11 is PARTIAL. *)
From Coq Require Import List Arith NArith Bool Lia.
From NngV Require Import Gen.Consts Base.ListX Base.Bytes Codec.Staged Codec.IovModel Codec.IovProofs
  Codec.SpFrameModel Codec.SpFrameProofs Codec.SpNegoProofs Codec.SpHeaderProofs
  Codec.SpConnModel Codec.SpConnProofs Codec.SpLedgerModel Codec.SpLedgerProofs
  Proto.Common Proto.ReqRepBacktrace Proto.SurveyBacktrace Proto.PairModel
  Codec.WsFrameModel Codec.WsMsgModel Codec.WsProofs Codec.HttpLineModel Codec.HttpProofs.
Import ListNotations.
Local Open Scope N_scope.

(* ------------------------------------------------------------- rx_total *)
(* Every byte stream, cut into pieces in any way, from any reachable state of
   the receiver as coded (R cfg c d: in particular the initial one): the run is
   defined (Gallina totality = termination; the fuel of rx_feed is proved
   sufficient by the refinement; no array / buffer access out of range), it ends
   either closed (rx_posted = false) or waiting for a positive number of bytes
   (NeedMore), every event is an allocation request, a delivery or an error,
   and every allocation request -- made BEFORE anything of the body is read --
   and every delivery is within NNI_MAX_STREAM_MSGSZ and within a non-zero
   RECVMAXSZ ([ev_ok]). *)
Theorem rx_total : forall cfg ps c d, R cfg c d -> phase_ok cfg (d_inner d) ->
  exists c' ev, rx_feed_all cfg c ps = Some (c', ev) /\ Forall (ev_ok cfg) ev /\ rx_outcome_ok c' /\
                exists d', R cfg c' d' /\ phase_ok cfg (d_inner d').
Proof. exact rx_total_all. Qed.
Print Assumptions rx_total.

Theorem rx_total_from_start : forall cfg ps st0, rx_init (r_kind cfg) = Some st0 ->
  exists c' ev, rx_feed_all cfg st0 ps = Some (c', ev) /\ Forall (ev_ok cfg) ev /\ rx_outcome_ok c'.
Proof.
  intros cfg ps st0 HI. destruct (rx_init_R cfg) as (st & HI' & HR). rewrite HI in HI'.
  assert (E: st0 = st) by congruence. subst st.
  destruct (rx_total_all cfg ps st0 sp_dinit HR I) as (c' & ev & H1 & H2 & H3 & _). eauto.
Qed.
Print Assumptions rx_total_from_start.

(* truncation at any point (EOF, reset, timeout): the message being filled is
   discarded, the user aio fails, nothing partial is delivered, nothing is read
   any more *)
Theorem rx_truncation_closes : forall st rv, rx_posted st = true ->
  rx_fail st rv = (mkRx (rx_head st) None (rx_aio st) false, [RError rv]).
Proof. intros st rv H. unfold rx_fail. rewrite H. reflexivity. Qed.
Print Assumptions rx_truncation_closes.

(* the limits hold of the staged decoder on every stream (and, through
   rx_refines_staged, of the receiver as coded) *)
Theorem rx_limits_every_stream : forall cfg d x, phase_ok cfg (d_inner d) ->
  phase_ok cfg (d_inner (fst (sp_feed cfg d x))) /\ Forall (ev_ok cfg) (snd (sp_feed cfg d x)).
Proof. exact feed_events_ok. Qed.
Print Assumptions rx_limits_every_stream.

(* --------------------------------------------- rcvmax_never_delivered *)
(* a length field above a non-zero RECVMAXSZ (or invalid: > NNI_MAX_STREAM_MSGSZ)
   closes the connection with NNG_EMSGSIZE before any allocation; nothing of it
   and nothing after it is delivered *)
Theorem rcvmax_never_delivered : forall cfg len rest,
  len < 2 ^ 64 -> msg_size_valid len = false \/ (0 < r_rcvmax cfg /\ r_rcvmax cfg < len) ->
  sp_feed cfg sp_dinit (tx_head (r_kind cfg) len ++ rest) = (mkD PDead [], [RError NNG_EMSGSIZE]) /\
  forall more, sp_feed cfg (mkD PDead []) more = (mkD PDead [], []).
Proof.
  intros cfg len rest H1 H2. split; [apply oversize_closes; assumption|]. intros more. apply feed_dead.
Qed.
Print Assumptions rcvmax_never_delivered.

(* and no delivery at all exceeds a non-zero RECVMAXSZ, on any stream *)
Theorem rcvmax_bounds_every_delivery : forall cfg x m, 0 < r_rcvmax cfg ->
  In (RDeliver m) (snd (sp_feed cfg sp_dinit x)) -> N.of_nat (length m) <= r_rcvmax cfg.
Proof.
  intros cfg x m HP HIn. destruct (feed_events_ok cfg sp_dinit x I) as [_ HF].
  pose proof (proj1 (Forall_forall _ _) HF _ HIn) as H. cbn in H. destruct H as [_ H]. auto.
Qed.
Print Assumptions rcvmax_bounds_every_delivery.

(* ------------------------------------------------------- negotiation *)
(* whatever 8 bytes come first, however they are cut, whatever follows: unless
   they are exactly 00 'S' 'P' 00 <the protocol pipe_start insists on> 00 00 the
   connection is closed with NNG_EPROTO and nothing is delivered *)
Theorem negotiation_rejects_all_but_expected : forall cfg ps, let s := concat ps in
  (8 <= length s)%nat -> bytes_ok (firstn 8 s) -> cc_expect cfg < 65536 ->
  firstn 8 s <> sp_header (cc_expect cfg) ->
  conn_feed_all cfg (conn_init cfg) ps = Some (CClosed, [CClose NNG_EPROTO]).
Proof. exact conn_rejects_bad_header. Qed.
Print Assumptions negotiation_rejects_all_but_expected.

Theorem negotiation_short_then_gone : forall cfg ps rv, (length (concat ps) < 8)%nat ->
  exists ng', conn_feed_all cfg (conn_init cfg) ps = Some (CNego ng', []) /\
              conn_eof (CNego ng') rv = (CClosed, [CClose rv]).
Proof. exact conn_short_header. Qed.
Print Assumptions negotiation_short_then_gone.

(* the composed connection is total on every stream and a closed connection
   stays closed and silent *)
Theorem conn_total_every_stream : forall cfg ps,
  exists st' ev, conn_feed_all cfg (conn_init cfg) ps = Some (st', ev).
Proof.
  intros cfg ps. destruct (conn_total cfg ps (conn_init cfg) (conn_init_inv cfg)) as (st' & ev & H & _). eauto.
Qed.
Print Assumptions conn_total_every_stream.

Theorem conn_no_delivery_after_close : forall cfg ps, conn_feed_all cfg CClosed ps = Some (CClosed, []).
Proof. exact conn_closed_absorbs. Qed.
Print Assumptions conn_no_delivery_after_close.

(* -------------------------------- malformed_header_never_delivered *)
Theorem malformed_header_never_delivered :
  (* REP / raw REP: only a backtrace (hops without, request id with the high bit) within TTL and header size *)
  (forall ttl pipe wire h b,
     (proto_check (PrRep ttl) pipe wire = AppDeliver h b ->
        backtrace h /\ wire = h ++ b /\ (length h <= 4 * ttl)%nat /\ (length h <= BT_HEADER_MAX)%nat) /\
     (proto_check (PrXRep ttl) pipe wire = AppDeliver h b ->
        exists w, backtrace w /\ h = ReqRepBacktrace.be32 pipe ++ w /\ wire = w ++ b /\ (length w <= 4 * ttl)%nat /\
                  (length h <= BT_HEADER_MAX)%nat)) /\
  (* every protocol with a header: fewer than 4 bytes => the connection is closed, nothing delivered *)
  (forall p pipe wire, (length wire < 4)%nat -> p <> PrPlain -> (0 < proto_ttl p)%nat ->
     proto_check p pipe wire = PipeClose) /\
  (* PAIRv1: the hop count is a byte within the TTL *)
  (forall raw ttl pipe wire h b, proto_check (PrPair1 raw ttl) pipe wire = AppDeliver h b ->
     exists v, v <= 255 /\ v <= N.of_nat ttl /\ h = PairModel.be32 v /\ (length wire = 4 + length b)%nat).
Proof. split; [exact rep_delivers_only_backtraces|]. split; [exact short_header_closes|exact pair1_hop_rules]. Qed.
Print Assumptions malformed_header_never_delivered.
(* _partial in this respect: for the SURVEY family (surveyor, respondent and
   their raw forms) only the "too short => close" clause is stated here; the
   shape of what their hop loop delivers is Properties_C07 / C13's business. *)

(* -------------------------------------------------------------- SP / UDP *)
Theorem udp_classifier_total_and_bounded :
  (forall ep dgram payload, udp_classify ep dgram = UData payload ->
     exists p hdr rest, ue_pipe ep = Some p /\ dgram = hdr ++ rest /\ length hdr = UDP_HDR /\
       N.of_nat (length payload) <= up_rcvmax p /\ (length payload <= length rest)%nat /\
       payload = firstn (length payload) rest /\ nth 0 hdr 0 = 1 /\ nth 1 hdr 0 = OPCODE_DATA) /\
  (forall ep dgram, ((length dgram < UDP_HDR)%nat -> udp_classify ep dgram = UIgnore) /\
                    (nth 0 dgram 0 <> 1 -> udp_classify ep dgram = UIgnore)) /\
  (forall ep ver op t0 t1 p0 p1 q0 q1 rest, ver = 1 -> 4 <= op ->
     udp_classify ep (ver :: op :: t0 :: t1 :: p0 :: p1 :: q0 :: q1 :: rest) = UDisc DISC_PROTO).
Proof. split; [exact udp_data_bounded|]. split; [exact udp_ignores_garbage|exact udp_unknown_opcode]. Qed.
Print Assumptions udp_classifier_total_and_bounded.

(* ------------------------------------------------ only_offender_dropped *)
(* As far as the models carry it:
   (1) a connection's receive path is a function of that connection's bytes
       and configuration alone (conn_feed has no other argument): nothing a
       peer sends can change the state of another connection's decoder;
   (2) at the endpoint, a failed negotiation of pipe p closes p only, leaves
       every other negotiating / waiting pipe where it was, and completes at
       most the one pending accept (with the error); the core then posts the
       next accept, and an accept posted while negotiated pipes wait completes
       at once with the longest-waiting one; a pipe is only ever accepted after
       its own negotiation succeeded.
   NOT modelled (observed by checks/c11.py only): the listener's 100 ms pause
   after an accept failed with NNG_EPROTO / NNG_ECONNSHUT, the protocols'
   per-pipe state after a close (C04..C09), socket-level resources. *)
Theorem only_offender_dropped_partial :
  (forall s p rv, let '(s', o) := ep_step s (EpNegoFail p rv) in
     e_wait s' = e_wait s /\ e_nego s' = remove_id p (e_nego s) /\ e_closed s' = e_closed s /\
     (forall q, In (EpPipeClosed q) o -> q = p) /\ (forall q, ~ In (EpAccepted q) o) /\
     (length (filter (fun x => match x with EpAcceptFail _ => true | _ => false end) o) <= 1)%nat /\
     (forall q, q <> p -> In q (e_nego s) -> In q (e_nego s'))) /\
  (forall ops, EpInv (fst (ep_run ep_init ops))) /\
  (forall s p r, e_closed s = false -> e_user s = false -> e_wait s = p :: r ->
     ep_step s EpAccept = (mkEp false (e_nego s) r false, [EpAccepted p])) /\
  (forall ops p, In (EpAccepted p) (snd (ep_run ep_init ops)) -> In (EpNegoOk p) ops).
Proof.
  split; [exact nego_fail_only_offender|]. split; [intros ops; apply ep_inv_run; exact ep_init_inv|].
  split; [exact accept_takes_first_waiting|exact ep_accepts_only_negotiated].
Qed.
Print Assumptions only_offender_dropped_partial.

(* --------------------------------------------------- nothing stays behind *)
(* The ledger of one connection (descriptor, the transport's pipe reference,
   list membership, the message being filled) under the release actions the
   source has (C11_NEGO_ERR_RELEASES, tied below): on EVERY byte stream, every
   cutting, a connection that has reached the dropped state holds nothing, a
   live one holds exactly [held], and its going away at any point (EOF, reset,
   negotiation timeout) empties the ledger.  Correspondence: the flood family
   of checks/c11.py (descriptor count back at the baseline, listener still
   accepting under a lowered RLIMIT_NOFILE). *)
Theorem dropped_connection_ledger_empty : forall cfg ps,
  exists st l, lconn_feed_all cfg good (linit cfg) ps = Some (st, l) /\
    (st = CClosed -> l = []) /\ l = held st /\ snd (lconn_eof good (st, l)) = [].
Proof. exact dropped_means_empty. Qed.
Print Assumptions dropped_connection_ledger_empty.

(* without the nni_pipe_rele of the negotiation error path every refused
   handshake keeps its descriptor and its pipe *)
Theorem nego_error_path_without_rele_refuted :
  let cfg := mkCC (mkRxCfg KTcp 0 1000) 80 81 PrPlain 1 in
  lconn_feed_all cfg (mkLF false) (linit cfg) [[78; 79; 84; 45; 83; 80; 33; 33]] = Some (CClosed, [RFd; RPipeRef]) /\
  lconn_feed_all cfg good (linit cfg) [[78; 79; 84; 45; 83; 80; 33; 33]] = Some (CClosed, []) /\
  snd (lconn_eof (mkLF false) (linit cfg)) = [RFd; RPipeRef].
Proof. exact nego_leak_without_rele. Qed.
Print Assumptions nego_error_path_without_rele_refuted.

(* ------------------------------------------------ WebSocket / HTTP (C16) *)
(* the WebSocket frame decoder and the HTTP head parser are total functions of
   the byte stream, independent of its segmentation; after the first rule
   violation nothing is delivered any more *)
Theorem ws_http_total :
  (forall cfg rest p d, ws_feed_all cfg d (p :: rest) = ws_feed cfg d (concat (p :: rest))) /\
  (forall cfg pieces d, w_stage (d_inner d) = SHalt -> snd (ws_feed_all cfg d pieces) = []) /\
  (forall keep strict isreq rest p st,
     http_feed_all keep strict isreq st (p :: rest) = http_feed keep strict isreq st (concat (p :: rest))).
Proof.
  split; [intros cfg; exact (feed_all_concat ws_state ws_event ws_want (ws_cb cfg))|].
  split; [exact ws_no_delivery_after_halt|exact http_feed_all_concat].
Qed.
Print Assumptions ws_http_total.

(* ------------------------------------------------------------------ consts *)
Theorem c11_consts_match :
  (OPCODE_DATA, OPCODE_CREQ, OPCODE_CACK, OPCODE_DISC, OPCODE_MESH) =
    (C11_UDP_OPCODE_DATA, C11_UDP_OPCODE_CREQ, C11_UDP_OPCODE_CACK, C11_UDP_OPCODE_DISC, C11_UDP_OPCODE_MESH) /\
  (DISC_TYPE, DISC_REFUSED, DISC_MSGSIZE, DISC_NEGO, DISC_PROTO, DISC_NOBUF) =
    (C11_UDP_DISC_TYPE, C11_UDP_DISC_REFUSED, C11_UDP_DISC_MSGSIZE, C11_UDP_DISC_NEGO, C11_UDP_DISC_PROTO, C11_UDP_DISC_NOBUF) /\
  N.of_nat UDP_HDR = C11_UDP_HDR_LEN /\ C11_UDP_DATA_CHECKS = true /\
  C01_RX_CHECKS_BEFORE_ALLOC = true /\ C01_IPC_TYPE_CHECK = true /\ C11_NEGO_ERR_RELEASES = true /\
  MAX_STREAM_MSGSZ = C01_MAX_STREAM_MSGSZ /\ sp_header 0 = C01_NEGO_HEADER /\
  (NNG_EPROTO, NNG_EMSGSIZE, NNG_ECONNSHUT) = (C01_NNG_EPROTO, C01_NNG_EMSGSIZE, C01_NNG_ECONNSHUT).
Proof. repeat split; reflexivity. Qed.
Print Assumptions c11_consts_match.

(* ------------------------------------------------------------- non-vacuity *)
Example oversize_nonvacuous :
  let cfg := mkRxCfg KTcp 100 1000 in
  snd (sp_feed cfg sp_dinit (tx_head KTcp 101 ++ [1; 2; 3])) = [RError NNG_EMSGSIZE] /\
  snd (sp_feed cfg sp_dinit (tx_head KTcp 3 ++ [1; 2; 3])) = [RAlloc 3; RDeliver [1; 2; 3]].
Proof. split; vm_compute; reflexivity. Qed.

Example bad_header_nonvacuous :
  let cfg := mkCC (mkRxCfg KTcp 0 1000) 16 16 PrPlain 1 in
  conn_feed_all cfg (conn_init cfg) [[0; 83; 80]; [0; 0; 17; 0; 0; 0; 0]] = Some (CClosed, [CClose NNG_EPROTO]) /\
  option_map snd (conn_feed_all cfg (conn_init cfg) [[0; 83; 80]; [0; 0; 16; 0; 0; 0; 0]; [0; 0; 0; 0; 0; 1; 7]]) =
    Some [CDeliver [] [7]].
Proof. split; vm_compute; reflexivity. Qed.

Example udp_nonvacuous :
  udp_classify (mkUE false false (Some (mkUP 16 100 false)) false) [1; 0; 16; 0; 2; 0; 0; 0; 65; 66; 67] = UData [65; 66] /\
  udp_classify (mkUE false false (Some (mkUP 16 1 false)) false) [1; 0; 16; 0; 2; 0; 0; 0; 65; 66; 67] = UDisc DISC_MSGSIZE /\
  udp_classify (mkUE false false (Some (mkUP 16 100 false)) false) [1; 0; 16; 0; 9; 0; 0; 0; 65; 66; 67] = UDisc DISC_MSGSIZE.
Proof. repeat split; vm_compute; reflexivity. Qed.
