(* Properties_C15: non-blocking calls never block; poll descriptors mirror readiness.
   Statements only (proofs are `exact <lemma>`); definitions of the clauses are in
   Proto/PollModel.v, the packs with the current source's repairs in Proto/PollTable.v.

   Reading guide.  For a protocol pack M (state, init, step, poll, environment
   contract, invariant):
     C15_nb_immediate M   every NONBLOCK send/receive, in every reachable state, emits exactly one
                          completion of its aio in the same step, the aio is not queued, a receive
                          carries a message iff it succeeded, and a failed send left the message with
                          the caller (the whole step is independent of the message)
     C15_nb_possible M    where the blocking form would succeed at once the NONBLOCK form does exactly
                          the same (so it does not answer NNG_EAGAIN)
     C15_nb_strict M      NNG_EAGAIN is answered only where the blocking form would have been queued
     C15_mirror M         (the property's words) the operation would succeed => descriptor raised;
                          descriptor raised => the operation does not answer NNG_EAGAIN; no descriptor
                          => NNG_ENOTSUP -- for both descriptors, in every reachable state
     C15_mirror_exact M   raised <-> the operation would succeed
     C15_mirror_iff M     raised <-> the operation would not answer NNG_EAGAIN (DESIGN's form)
   `reachable` = any history of steps that respects the environment contract and does not close
   the socket.  "_now" = the pack with the repairs found in the source on this run.
   [now b P] = P if the source has the repair b, ~ P if it has not.

   Which strengthenings are FALSE and why (none of them is required by the property text):
     * C15_nb_strict, REP and RESPONDENT: a context with a receive already pending answers NNG_EAGAIN
       to a NONBLOCK receive where the blocking form answers NNG_ESTATE at once (send half holds).
     * C15_mirror_iff, every protocol with a state machine (REQ, REP, SURVEYOR, RESPONDENT): an
       operation the state machine forbids answers NNG_ESTATE with the descriptor down.
     * C15_mirror_exact, REP / RESPONDENT: the socket's previous reply is still queued behind a busy
       pipe and a new request arrived from an idle one: descriptor raised, send answers NNG_ESTATE;
       SURVEYOR: responses queued when the survey expires keep the descriptor raised, receive
       answers NNG_ESTATE.  (Replayed on the library: it behaves like the model.)
   Recorded, unrepaired defects of the source (findings/known_findings.txt) show as [now false _]:
     * BUS: bus0_sock_send calls nni_aio_start, which refuses every NONBLOCK send (key
       bus-nonblock-send-eagain): C15_nb_possible and C15_mirror are false of the source.
     * RESPONDENT: resp0_ctx_send calls nni_aio_start before it looks at its state (key
       respondent-nb-send-eagain): C15_nb_possible and C15_mirror (send half) are false. *)
From Coq Require Import List NArith Bool ZArith.
From NngV Require Proto.ReqModel Proto.RepModel Proto.RepProofs Proto.XReqModel Proto.RespondModel Proto.PairModel Proto.PushModel.
From NngV Require Import Gen.Consts Proto.Common Proto.PollModel Proto.PollProofs Proto.PollPipeline Proto.PollPubSub
  Proto.PollReq Proto.PollRepX Proto.PollSurvey Proto.PollPairBus Proto.PollTable.
Import ListNotations.

(* ================================================================== pollable.c *)
Theorem pollable_level : forall ops,
  match plb_readable (plb_run plb_init ops) with
  | Some sig => In PlGetFd ops /\ sig = plb_level false ops
  | None => ~ In PlGetFd ops
  end.
Proof. exact plb_level_holds. Qed.
Print Assumptions pollable_level.

Theorem pollable_level_whenever_first_requested : forall ops1 ops2,
  plb_mutators ops1 = plb_mutators ops2 -> In PlGetFd ops1 -> In PlGetFd ops2 ->
  plb_readable (plb_run plb_init ops1) = plb_readable (plb_run plb_init ops2) /\
  plb_readable (plb_run plb_init ops1) = Some (plb_level false (plb_mutators ops1)).
Proof. exact plb_level_any_time. Qed.
Print Assumptions pollable_level_whenever_first_requested.

Theorem pollable_calls_without_overlap_are_the_sequential_model : forall ops p,
  plb_arun false (mkPlc p PcIdle PcIdle) (flat_map seq_acts ops) = mkPlc (plb_run p ops) PcIdle PcIdle.
Proof. exact plb_sequential_refines. Qed.
Print Assumptions pollable_calls_without_overlap_are_the_sequential_model.

Theorem pollable_level_first_getfd_racing_raise_holds : forall l,
  Forall (fun a => In a acts_noclear) l ->
  let c := plb_arun false plc_init l in
  plc_quiescent c -> match plb_fd (pc_p c) with None => True | Some sig => sig = plb_raised (pc_p c) end.
Proof. exact plb_concurrent_raise_holds. Qed.
Print Assumptions pollable_level_first_getfd_racing_raise_holds.

(* the form of nni_pollable_getfd the tree was pinned with *)
Theorem pollable_level_first_getfd_racing_clear_refuted :
  exists l, Forall (fun a => In a acts_all) l /\
    let c := plb_arun false plc_init l in
    plc_quiescent c /\ plb_raised (pc_p c) = false /\ plb_fd (pc_p c) = Some true /\
    plb_fd (pc_p (plb_arun false c [ActMut PlClear; ActMutStep; ActMutStep])) = Some true.
Proof. exact plb_concurrent_clear_refuted. Qed.
Print Assumptions pollable_level_first_getfd_racing_clear_refuted.

(* the form the source has now (C15_POLLABLE_GETFD_SYNC): every interleaving of one raise/clear thread with the first getfd *)
Theorem pollable_level_concurrent_now : now C15_POLLABLE_GETFD_SYNC (plb_conc_level C15_POLLABLE_GETFD_SYNC).
Proof. exact (plb_conc_level_by_form C15_POLLABLE_GETFD_SYNC). Qed.
Print Assumptions pollable_level_concurrent_now.

(* ================================================================== nng.c: NNG_FLAG_NONBLOCK *)
Theorem nonblock_sendmsg_never_waits_keeps_message_on_failure : forall msg pr,
  let '(rv, kept, waited) := api_sendmsg true msg pr in
  waited = false /\ (kept = true <-> rv <> E_OK) /\
  match pr with
  | PrStart _ _ => rv = E_AGAIN /\ kept = true
  | PrDone r _ => rv = (if N.eqb r E_TIMEDOUT then E_AGAIN else r)
  end.
Proof. exact api_sendmsg_nonblock. Qed.
Print Assumptions nonblock_sendmsg_never_waits_keeps_message_on_failure.

Theorem nonblock_recvmsg_never_waits : forall pr,
  let '(rv, got, waited) := api_recvmsg true pr in
  waited = false /\ (got <> None -> rv = E_OK) /\
  match pr with
  | PrStart _ _ => rv = E_AGAIN /\ got = None
  | PrDone r m => rv = (if N.eqb r E_TIMEDOUT then E_AGAIN else r) /\ (r = E_OK -> got = m)
  end.
Proof. exact api_recvmsg_nonblock. Qed.
Print Assumptions nonblock_recvmsg_never_waits.

Theorem nonblock_flag_matters_only_where_the_protocol_waits : forall msg rv m,
  api_sendmsg true msg (PrDone rv m) = (api_map true rv, negb (N.eqb rv 0), false) /\
  api_sendmsg false msg (PrDone rv m) = (rv, negb (N.eqb rv 0), false) /\
  api_recvmsg true (PrDone rv m) = (api_map true rv, (if N.eqb rv 0 then m else None), false) /\
  api_recvmsg false (PrDone rv m) = (rv, (if N.eqb rv 0 then m else None), false).
Proof. exact api_nonblock_same_when_ready. Qed.
Print Assumptions nonblock_flag_matters_only_where_the_protocol_waits.

Theorem nng_send_frees_exactly_its_own_copy_on_failure : forall nb body pr,
  let '(rv, freed, waited) := api_send nb body pr in
  (rv <> E_OK -> freed = [mkPmsg [] body]) /\ (rv = E_OK -> freed = []).
Proof. exact api_send_frees_own_copy. Qed.
Print Assumptions nng_send_frees_exactly_its_own_copy_on_failure.

Theorem nonblock_api_over_a_protocol_step : forall a outs rv x msg,
  compl_of a outs = [(rv, x)] -> rv <> E_TIMEDOUT ->
  api_sendmsg true msg (reply_of_step a outs) = (rv, negb (N.eqb rv 0), false) /\
  api_recvmsg true (reply_of_step a outs) = (rv, (if N.eqb rv 0 then x else None), false).
Proof. exact api_over_model. Qed.
Print Assumptions nonblock_api_over_a_protocol_step.

(* ================================================================== the packs run the daemon's step functions *)
Theorem c15_packs_are_the_extracted_models :
  pm_step Req_now = c15_req_step /\ pm_step Rep_now = c15_rep_step /\ pm_step XReq_now = c15_xreq_step /\
  pm_step XRep_now = c15_xrep_step /\ pm_step Pub_now = c15_pub_step /\ pm_step Sub_now = c15_sub_step /\
  pm_step XSub_now = c15_xsub_step /\ pm_step Push_now = c15_push_step /\ pm_step Pull_now = c15_pull_step /\
  pm_step Surv_now = c15_surv_step /\ pm_step Resp_now = c15_resp_step /\ pm_step XSurv_now = c15_xsurv_step /\
  pm_step XResp_now = c15_xresp_step /\ pm_step Pair0_now = c15_pair0_step /\ pm_step Pair1_now = c15_pair1_step /\
  pm_step Pair1raw_now = c15_pair1raw_step /\ (forall raw, pm_step (Bus_now raw) = c15_bus_step).
Proof. exact now_steps. Qed.
Print Assumptions c15_packs_are_the_extracted_models.

(* ================================================================== the protocols
   Per protocol P:  P_c15 = the three clauses of the property for the source as it is now
   (P_nb_immediate, P_nb_succeeds_if_possible, P_poll_mirror are its components, named below it);
   P_c15_more = the reachable-state invariant, the stronger readings where they hold, the
   `_refuted` witnesses where they do not, and the `_refuted` forms of the tree as first pinned. *)
Theorem req_c15 :
  C15_nb_immediate Req_now /\
  C15_nb_possible Req_now /\
  C15_mirror Req_now.
Proof. split; [apply (req_c15_nb_immediate c15_req_fix); reflexivity|]. split; [apply (req_c15_nb_possible c15_req_fix); reflexivity|]. apply (req_c15_mirror c15_req_fix); reflexivity. Qed.
Print Assumptions req_c15.
Definition req_nb_immediate : C15_nb_immediate Req_now := proj1 req_c15.
Definition req_nb_succeeds_if_possible : C15_nb_possible Req_now := proj1 (proj2 req_c15).
Definition req_poll_mirror : C15_mirror Req_now := proj2 (proj2 req_c15).

(* req_reachable_invariant *)
(* req_nb_eagain_only_where_blocking_waits *)
(* req_poll_mirror_exact_partial: PARTIAL for the pack without a resource bound: the exact form (raised <-> would
   succeed) for the receive descriptor in full, for the send descriptor except where a send answers NNG_ENOMEM (a state
   with 2^31 live request ids is reachable in principle when nothing bounds the number of contexts).
   req_poll_mirror_exact_bounded: FULL under the contract that fewer than 2^31 - 1 contexts are opened (M_req_b: same
   step function, contract = M_req's plus that bound); every reachable state of M_req_b is a reachable state of M_req.
   C15_mirror (req_poll_mirror) needs no bound. *)
(* req_poll_mirror_iff_refuted: not a defect: a receive before any request answers NNG_ESTATE, descriptor down *)
(* req_poll_mirror_pinned_refuted: the tree as pinned (repaired by 8784c89) *)
Theorem req_c15_more :
  C15_inv Req_now /\
  C15_nb_strict Req_now /\
  (forall s, reachable Req_now s ->
    mirror_r_exact_at Req_now s /\
    (forall a m, pm_ok Req_now s (PSend None a true m) -> rv_send Req_now s a m <> Some E_NOMEM ->
       match poll_w (pm_poll Req_now s) with
       | None => rv_send Req_now s a m = Some E_NOTSUP
       | Some b => b = true <-> rv_send Req_now s a m = Some E_OK
       end)) /\
  C15_mirror_exact (M_req_b c15_req_fix) /\
  (forall s, reachable (M_req_b c15_req_fix) s -> reachable Req_now s) /\
  ~ C15_mirror_iff Req_now /\
  (forall fx, ReqModel.fx_rdclr fx = false -> ~ C15_mirror (M_req fx)).
Proof. split; [apply (req_c15_inv c15_req_fix); reflexivity|]. split; [apply (req_c15_nb_strict c15_req_fix); reflexivity|]. split; [apply (req_c15_mirror_exact_partial c15_req_fix); reflexivity|]. split; [apply (reqb_c15_mirror_exact c15_req_fix); reflexivity|]. split; [exact (reqb_reachable_req c15_req_fix)|]. split; [exact (req_c15_mirror_iff_refuted c15_req_fix)|]. exact (req_c15_mirror_refuted_without_rdclr). Qed.
Print Assumptions req_c15_more.

(* rep_poll_mirror: holds since fix ca9024c (found by this property's check) *)
Theorem rep_c15 :
  C15_nb_immediate Rep_now /\
  C15_nb_possible Rep_now /\
  C15_mirror Rep_now.
Proof. split; [exact (rep_c15_nb_immediate c15_rep_fix)|]. split; [exact (rep_c15_nb_possible c15_rep_fix)|]. apply (rep_c15_mirror c15_rep_fix); reflexivity. Qed.
Print Assumptions rep_c15.
Definition rep_nb_immediate : C15_nb_immediate Rep_now := proj1 rep_c15.
Definition rep_nb_succeeds_if_possible : C15_nb_possible Rep_now := proj1 (proj2 rep_c15).
Definition rep_poll_mirror : C15_mirror Rep_now := proj2 (proj2 rep_c15).

(* rep_reachable_invariant *)
(* rep_nb_send_eagain_only_where_blocking_waits *)
(* rep_nb_strict_refuted: not a defect: a context with a receive already pending -- NONBLOCK answers NNG_EAGAIN, blocking NNG_ESTATE *)
(* rep_poll_mirror_recv_exact *)
(* rep_poll_mirror_exact_refuted: not required by the property: previous reply still queued behind a busy pipe, new request from an idle pipe: raised, send answers NNG_ESTATE *)
(* rep_poll_mirror_iff_refuted *)
(* rep_poll_mirror_pinned_refuted: before fix ca9024c: GENUINE DEFECT found here (send descriptor raised while the socket's reply pipe is busy) *)
Theorem rep_c15_more :
  C15_inv Rep_now /\
  (forall s, reachable Rep_now s -> nb_send_eagain_queues_at Rep_now s) /\
  ~ C15_nb_strict Rep_now /\
  (forall s, reachable Rep_now s -> mirror_r_exact_at Rep_now s) /\
  ~ C15_mirror_exact Rep_now /\
  ~ C15_mirror_iff Rep_now /\
  ~ C15_mirror (M_rep (RepModel.mkPfix true true true false)).
Proof. split; [apply (rep_c15_inv c15_rep_fix); reflexivity|]. split; [exact (rep_c15_nb_send_strict c15_rep_fix)|]. split; [exact (rep_c15_nb_strict_refuted c15_rep_fix)|]. split; [apply (rep_c15_mirror_r_exact c15_rep_fix); reflexivity|]. split; [exact (rep_c15_mirror_exact_refuted)|]. split; [exact (rep_c15_mirror_iff_refuted c15_rep_fix)|]. exact (rep_c15_mirror_refuted_pinned). Qed.
Print Assumptions rep_c15_more.

Theorem xreq_c15 :
  C15_nb_immediate XReq_now /\
  C15_nb_possible XReq_now /\
  C15_mirror XReq_now.
Proof. split; [apply (xreq_c15_nb_immediate c15_mq_fix); reflexivity|]. split; [apply (xreq_c15_nb_possible c15_mq_fix); reflexivity|]. apply (xreq_c15_mirror c15_mq_fix); reflexivity. Qed.
Print Assumptions xreq_c15.
Definition xreq_nb_immediate : C15_nb_immediate XReq_now := proj1 xreq_c15.
Definition xreq_nb_succeeds_if_possible : C15_nb_possible XReq_now := proj1 (proj2 xreq_c15).
Definition xreq_poll_mirror : C15_mirror XReq_now := proj2 (proj2 xreq_c15).

(* xreq_reachable_invariant *)
(* xreq_nb_eagain_only_where_blocking_waits *)
(* xreq_poll_mirror_exact *)
(* xreq_poll_mirror_iff *)
(* xreq_poll_mirror_pinned_refuted: before fix e654d99: GENUINE DEFECT found here (nni_msgq_aio_get left blocked writers waiting although there is room) *)
Theorem xreq_c15_more :
  C15_inv XReq_now /\
  C15_nb_strict XReq_now /\
  C15_mirror_exact XReq_now /\
  C15_mirror_iff XReq_now /\
  ~ C15_mirror (M_xreq (XReqModel.mkMqfix true true false)).
Proof. split; [apply (xreq_c15_inv c15_mq_fix); reflexivity|]. split; [apply (xreq_c15_nb_strict c15_mq_fix); reflexivity|]. split; [apply (xreq_c15_mirror_exact c15_mq_fix); reflexivity|]. split; [apply (xreq_c15_mirror_iff c15_mq_fix); reflexivity|]. exact (xreq_c15_mirror_refuted_pinned). Qed.
Print Assumptions xreq_c15_more.

Theorem xrep_c15 :
  C15_nb_immediate XRep_now /\
  C15_nb_possible XRep_now /\
  C15_mirror XRep_now.
Proof. split; [apply (xrep_c15_nb_immediate c15_mq_fix); reflexivity|]. split; [apply (xrep_c15_nb_possible c15_mq_fix); reflexivity|]. apply (xrep_c15_mirror c15_mq_fix); reflexivity. Qed.
Print Assumptions xrep_c15.
Definition xrep_nb_immediate : C15_nb_immediate XRep_now := proj1 xrep_c15.
Definition xrep_nb_succeeds_if_possible : C15_nb_possible XRep_now := proj1 (proj2 xrep_c15).
Definition xrep_poll_mirror : C15_mirror XRep_now := proj2 (proj2 xrep_c15).

(* xrep_reachable_invariant *)
(* xrep_nb_eagain_only_where_blocking_waits *)
(* xrep_poll_mirror_exact *)
(* xrep_poll_mirror_iff *)
Theorem xrep_c15_more :
  C15_inv XRep_now /\
  C15_nb_strict XRep_now /\
  C15_mirror_exact XRep_now /\
  C15_mirror_iff XRep_now.
Proof. split; [apply (xrep_c15_inv c15_mq_fix); reflexivity|]. split; [apply (xrep_c15_nb_strict c15_mq_fix); reflexivity|]. split; [apply (xrep_c15_mirror_exact c15_mq_fix); reflexivity|]. apply (xrep_c15_mirror_iff c15_mq_fix); reflexivity. Qed.
Print Assumptions xrep_c15_more.

Theorem pub_c15 :
  C15_nb_immediate Pub_now /\
  C15_nb_possible Pub_now /\
  C15_mirror Pub_now.
Proof. split; [exact (pub_c15_nb_immediate)|]. split; [exact (pub_c15_nb_possible)|]. exact (pub_c15_mirror). Qed.
Print Assumptions pub_c15.
Definition pub_nb_immediate : C15_nb_immediate Pub_now := proj1 pub_c15.
Definition pub_nb_succeeds_if_possible : C15_nb_possible Pub_now := proj1 (proj2 pub_c15).
Definition pub_poll_mirror : C15_mirror Pub_now := proj2 (proj2 pub_c15).

(* pub_reachable_invariant *)
(* pub_nb_eagain_only_where_blocking_waits *)
(* pub_poll_mirror_exact *)
(* pub_poll_mirror_iff *)
Theorem pub_c15_more :
  C15_inv Pub_now /\
  C15_nb_strict Pub_now /\
  C15_mirror_exact Pub_now /\
  C15_mirror_iff Pub_now.
Proof. split; [exact (pub_c15_inv)|]. split; [exact (pub_c15_nb_strict)|]. split; [exact (pub_c15_mirror_exact)|]. exact (pub_c15_mirror_iff). Qed.
Print Assumptions pub_c15_more.

Theorem sub_c15 :
  C15_nb_immediate Sub_now /\
  C15_nb_possible Sub_now /\
  C15_mirror Sub_now.
Proof. split; [exact (sub_c15_nb_immediate)|]. split; [exact (sub_c15_nb_possible)|]. exact (sub_c15_mirror). Qed.
Print Assumptions sub_c15.
Definition sub_nb_immediate : C15_nb_immediate Sub_now := proj1 sub_c15.
Definition sub_nb_succeeds_if_possible : C15_nb_possible Sub_now := proj1 (proj2 sub_c15).
Definition sub_poll_mirror : C15_mirror Sub_now := proj2 (proj2 sub_c15).

(* sub_reachable_invariant *)
(* sub_nb_eagain_only_where_blocking_waits *)
(* sub_poll_mirror_exact *)
(* sub_poll_mirror_iff *)
(* sub_poll_mirror_pinned_refuted: the tree as pinned (repaired by 47b57d2) *)
Theorem sub_c15_more :
  C15_inv Sub_now /\
  C15_nb_strict Sub_now /\
  C15_mirror_exact Sub_now /\
  C15_mirror_iff Sub_now /\
  ~ C15_mirror (M_sub false).
Proof. split; [exact (sub_c15_inv)|]. split; [exact (sub_c15_nb_strict)|]. split; [exact (sub_c15_mirror_exact)|]. split; [exact (sub_c15_mirror_iff)|]. exact (sub_c15_mirror_refuted_pinned). Qed.
Print Assumptions sub_c15_more.

Theorem xsub_c15 :
  C15_nb_immediate XSub_now /\
  C15_nb_possible XSub_now /\
  C15_mirror XSub_now.
Proof. split; [exact (xsub_c15_nb_immediate)|]. split; [exact (xsub_c15_nb_possible)|]. exact (xsub_c15_mirror). Qed.
Print Assumptions xsub_c15.
Definition xsub_nb_immediate : C15_nb_immediate XSub_now := proj1 xsub_c15.
Definition xsub_nb_succeeds_if_possible : C15_nb_possible XSub_now := proj1 (proj2 xsub_c15).
Definition xsub_poll_mirror : C15_mirror XSub_now := proj2 (proj2 xsub_c15).

(* xsub_reachable_invariant *)
(* xsub_nb_eagain_only_where_blocking_waits *)
(* xsub_poll_mirror_exact *)
(* xsub_poll_mirror_iff *)
(* xsub_nb_succeeds_if_possible_pinned_refuted: the tree as pinned (repaired by fc1e6a0) *)
Theorem xsub_c15_more :
  C15_inv XSub_now /\
  C15_nb_strict XSub_now /\
  C15_mirror_exact XSub_now /\
  C15_mirror_iff XSub_now /\
  ~ C15_nb_possible (M_xsub false true).
Proof. split; [exact (xsub_c15_inv)|]. split; [exact (xsub_c15_nb_strict)|]. split; [exact (xsub_c15_mirror_exact)|]. split; [exact (xsub_c15_mirror_iff)|]. exact (xsub_c15_nb_possible_refuted_pinned). Qed.
Print Assumptions xsub_c15_more.

Theorem push_c15 :
  C15_nb_immediate Push_now /\
  C15_nb_possible Push_now /\
  C15_mirror Push_now.
Proof. split; [exact (push_c15_nb_immediate)|]. split; [exact (push_c15_nb_possible)|]. exact (push_c15_mirror). Qed.
Print Assumptions push_c15.
Definition push_nb_immediate : C15_nb_immediate Push_now := proj1 push_c15.
Definition push_nb_succeeds_if_possible : C15_nb_possible Push_now := proj1 (proj2 push_c15).
Definition push_poll_mirror : C15_mirror Push_now := proj2 (proj2 push_c15).

(* push_reachable_invariant *)
(* push_nb_eagain_only_where_blocking_waits *)
(* push_poll_mirror_exact *)
(* push_poll_mirror_iff *)
Theorem push_c15_more :
  C15_inv Push_now /\
  C15_nb_strict Push_now /\
  C15_mirror_exact Push_now /\
  C15_mirror_iff Push_now.
Proof. split; [exact (push_c15_inv)|]. split; [exact (push_c15_nb_strict)|]. split; [exact (push_c15_mirror_exact)|]. exact (push_c15_mirror_iff). Qed.
Print Assumptions push_c15_more.

Theorem pull_c15 :
  C15_nb_immediate Pull_now /\
  C15_nb_possible Pull_now /\
  C15_mirror Pull_now.
Proof. split; [exact (pull_c15_nb_immediate)|]. split; [exact (pull_c15_nb_possible)|]. exact (pull_c15_mirror). Qed.
Print Assumptions pull_c15.
Definition pull_nb_immediate : C15_nb_immediate Pull_now := proj1 pull_c15.
Definition pull_nb_succeeds_if_possible : C15_nb_possible Pull_now := proj1 (proj2 pull_c15).
Definition pull_poll_mirror : C15_mirror Pull_now := proj2 (proj2 pull_c15).

(* pull_reachable_invariant *)
(* pull_nb_eagain_only_where_blocking_waits *)
(* pull_poll_mirror_exact *)
(* pull_poll_mirror_iff *)
Theorem pull_c15_more :
  C15_inv Pull_now /\
  C15_nb_strict Pull_now /\
  C15_mirror_exact Pull_now /\
  C15_mirror_iff Pull_now.
Proof. split; [exact (pull_c15_inv)|]. split; [exact (pull_c15_nb_strict)|]. split; [exact (pull_c15_mirror_exact)|]. exact (pull_c15_mirror_iff). Qed.
Print Assumptions pull_c15_more.

Theorem surveyor_c15 :
  C15_nb_immediate Surv_now /\
  C15_nb_possible Surv_now /\
  C15_mirror Surv_now.
Proof. split; [exact (surv_c15_nb_immediate)|]. split; [exact (surv_c15_nb_possible C07_SURV_NBRECV_FIXED)|]. exact (surv_c15_mirror). Qed.
Print Assumptions surveyor_c15.
Definition surveyor_nb_immediate : C15_nb_immediate Surv_now := proj1 surveyor_c15.
Definition surveyor_nb_succeeds_if_possible : C15_nb_possible Surv_now := proj1 (proj2 surveyor_c15).
Definition surveyor_poll_mirror : C15_mirror Surv_now := proj2 (proj2 surveyor_c15).

(* surveyor_reachable_invariant *)
(* surveyor_nb_eagain_only_where_blocking_waits *)
(* surveyor_poll_mirror_exact_refuted: not required by the property: responses queued when the survey expires keep the descriptor raised; receive answers NNG_ESTATE *)
(* surveyor_poll_mirror_iff_refuted *)
(* surveyor_nb_immediate_pinned_refuted: the tree as pinned (repaired by 73ad6a8) *)
Theorem surveyor_c15_more :
  C15_inv Surv_now /\
  C15_nb_strict Surv_now /\
  ~ C15_mirror_exact Surv_now /\
  ~ C15_mirror_iff Surv_now /\
  ~ C15_nb_immediate (M_surv false).
Proof. split; [exact (surv_c15_inv C07_SURV_NBRECV_FIXED)|]. split; [exact (surv_c15_nb_strict)|]. split; [exact (surv_c15_mirror_exact_refuted)|]. split; [exact (surv_c15_mirror_iff_refuted)|]. exact (surv_c15_nb_immediate_refuted_pinned). Qed.
Print Assumptions surveyor_c15_more.

(* respondent_nb_succeeds_if_possible_now: KNOWN unrepaired defect respondent-nb-send-eagain: false of the source while C07_RESP_NB_FIXED = false *)
(* respondent_poll_mirror_now: KNOWN unrepaired defect respondent-nb-send-eagain *)
Theorem respondent_c15 :
  C15_nb_immediate Resp_now /\
  now C07_RESP_NB_FIXED (C15_nb_possible Resp_now) /\
  now C07_RESP_NB_FIXED (C15_mirror Resp_now).
Proof. split; [exact (resp_nb_immediate_any C07_RESP_NB_FIXED)|]. split; [exact (resp_nb_possible_by_flag C07_RESP_NB_FIXED)|]. exact (resp_mirror_by_flag C07_RESP_NB_FIXED). Qed.
Print Assumptions respondent_c15.
Definition respondent_nb_immediate : C15_nb_immediate Resp_now := proj1 respondent_c15.
Definition respondent_nb_succeeds_if_possible_now : now C07_RESP_NB_FIXED (C15_nb_possible Resp_now) := proj1 (proj2 respondent_c15).
Definition respondent_poll_mirror_now : now C07_RESP_NB_FIXED (C15_mirror Resp_now) := proj2 (proj2 respondent_c15).

(* respondent_reachable_invariant *)
(* respondent_nb_recv_succeeds_if_possible *)
(* respondent_poll_mirror_recv *)
(* respondent_poll_mirror_holds_when_repaired *)
(* respondent_nb_succeeds_if_possible_holds_when_repaired *)
(* respondent_nb_send_strict_when_repaired *)
(* respondent_nb_strict_refuted: not a defect: receive with one already pending *)
(* respondent_poll_mirror_exact_refuted *)
(* respondent_poll_mirror_iff_refuted *)
Theorem respondent_c15_more :
  C15_inv Resp_now /\
  C15_nb_recv_possible Resp_now /\
  C15_mirror_r Resp_now /\
  C15_mirror (M_resp RespondModel.rfix_all) /\
  C15_nb_possible (M_resp RespondModel.rfix_all) /\
  (forall s, reachable (M_resp RespondModel.rfix_all) s -> nb_send_eagain_queues_at (M_resp RespondModel.rfix_all) s) /\
  ~ C15_nb_strict (M_resp RespondModel.rfix_all) /\
  ~ C15_mirror_exact (M_resp RespondModel.rfix_all) /\
  ~ C15_mirror_iff (M_resp RespondModel.rfix_all).
Proof. split; [exact (resp_inv_any C07_RESP_NB_FIXED)|]. split; [exact (resp_nb_recv_possible_any C07_RESP_NB_FIXED)|]. split; [exact (resp_mirror_r_any C07_RESP_NB_FIXED)|]. split; [exact (resp_c15_mirror)|]. split; [exact (resp_c15_nb_possible)|]. split; [exact (resp_c15_nb_send_strict)|]. split; [exact (resp_c15_nb_strict_refuted)|]. split; [exact (resp_c15_mirror_exact_refuted)|]. exact (resp_c15_mirror_iff_refuted). Qed.
Print Assumptions respondent_c15_more.

Theorem xsurveyor_c15 :
  C15_nb_immediate XSurv_now /\
  C15_nb_possible XSurv_now /\
  C15_mirror XSurv_now.
Proof. split; [exact (xsurv_c15_nb_immediate)|]. split; [exact (xsurv_c15_nb_possible)|]. exact (xsurv_c15_mirror). Qed.
Print Assumptions xsurveyor_c15.
Definition xsurveyor_nb_immediate : C15_nb_immediate XSurv_now := proj1 xsurveyor_c15.
Definition xsurveyor_nb_succeeds_if_possible : C15_nb_possible XSurv_now := proj1 (proj2 xsurveyor_c15).
Definition xsurveyor_poll_mirror : C15_mirror XSurv_now := proj2 (proj2 xsurveyor_c15).

(* xsurveyor_reachable_invariant *)
(* xsurveyor_nb_eagain_only_where_blocking_waits *)
(* xsurveyor_poll_mirror_exact *)
(* xsurveyor_poll_mirror_iff *)
Theorem xsurveyor_c15_more :
  C15_inv XSurv_now /\
  C15_nb_strict XSurv_now /\
  C15_mirror_exact XSurv_now /\
  C15_mirror_iff XSurv_now.
Proof. split; [exact (xsurv_c15_inv)|]. split; [exact (xsurv_c15_nb_strict)|]. split; [exact (xsurv_c15_mirror_exact)|]. exact (xsurv_c15_mirror_iff). Qed.
Print Assumptions xsurveyor_c15_more.

Theorem xrespondent_c15 :
  C15_nb_immediate XResp_now /\
  C15_nb_possible XResp_now /\
  C15_mirror XResp_now.
Proof. split; [exact (xresp_c15_nb_immediate)|]. split; [exact (xresp_c15_nb_possible)|]. exact (xresp_c15_mirror). Qed.
Print Assumptions xrespondent_c15.
Definition xrespondent_nb_immediate : C15_nb_immediate XResp_now := proj1 xrespondent_c15.
Definition xrespondent_nb_succeeds_if_possible : C15_nb_possible XResp_now := proj1 (proj2 xrespondent_c15).
Definition xrespondent_poll_mirror : C15_mirror XResp_now := proj2 (proj2 xrespondent_c15).

(* xrespondent_reachable_invariant *)
(* xrespondent_nb_eagain_only_where_blocking_waits *)
(* xrespondent_poll_mirror_exact *)
(* xrespondent_poll_mirror_iff *)
Theorem xrespondent_c15_more :
  C15_inv XResp_now /\
  C15_nb_strict XResp_now /\
  C15_mirror_exact XResp_now /\
  C15_mirror_iff XResp_now.
Proof. split; [exact (xresp_c15_inv)|]. split; [exact (xresp_c15_nb_strict)|]. split; [exact (xresp_c15_mirror_exact)|]. exact (xresp_c15_mirror_iff). Qed.
Print Assumptions xrespondent_c15_more.

Theorem pair0_c15 :
  C15_nb_immediate Pair0_now /\
  C15_nb_possible Pair0_now /\
  C15_mirror Pair0_now.
Proof. split; [exact (pair_c15_nb_immediate PairModel.K0 C08_PAIR0_STOP_WRITABLE_FIXED C08_PAIR0_RESIZE_ADMITS_FIXED C08_PAIR0_STALE_FIXED)|]. split; [exact (pair_c15_nb_possible PairModel.K0 C08_PAIR0_STOP_WRITABLE_FIXED C08_PAIR0_RESIZE_ADMITS_FIXED C08_PAIR0_STALE_FIXED)|]. exact (pair_c15_mirror PairModel.K0 C08_PAIR0_RESIZE_ADMITS_FIXED C08_PAIR0_STALE_FIXED). Qed.
Print Assumptions pair0_c15.
Definition pair0_nb_immediate : C15_nb_immediate Pair0_now := proj1 pair0_c15.
Definition pair0_nb_succeeds_if_possible : C15_nb_possible Pair0_now := proj1 (proj2 pair0_c15).
Definition pair0_poll_mirror : C15_mirror Pair0_now := proj2 (proj2 pair0_c15).

(* pair0_reachable_invariant *)
(* pair0_nb_eagain_only_where_blocking_waits *)
(* pair0_poll_mirror_exact *)
(* pair0_poll_mirror_iff *)
Theorem pair0_c15_more :
  C15_inv Pair0_now /\
  C15_nb_strict Pair0_now /\
  C15_mirror_exact Pair0_now /\
  C15_mirror_iff Pair0_now.
Proof. split; [exact (pair_c15_inv PairModel.K0 C08_PAIR0_RESIZE_ADMITS_FIXED C08_PAIR0_STALE_FIXED)|]. split; [exact (pair_c15_nb_strict PairModel.K0 C08_PAIR0_STOP_WRITABLE_FIXED C08_PAIR0_RESIZE_ADMITS_FIXED C08_PAIR0_STALE_FIXED)|]. split; [exact (pair_c15_mirror_exact PairModel.K0 C08_PAIR0_RESIZE_ADMITS_FIXED C08_PAIR0_STALE_FIXED)|]. exact (pair_c15_mirror_iff PairModel.K0 C08_PAIR0_RESIZE_ADMITS_FIXED C08_PAIR0_STALE_FIXED). Qed.
Print Assumptions pair0_c15_more.

Theorem pair1_c15 :
  C15_nb_immediate Pair1_now /\
  C15_nb_possible Pair1_now /\
  C15_mirror Pair1_now.
Proof. split; [exact (pair_c15_nb_immediate (PairModel.K1 false) C08_PAIR1_STOP_WRITABLE_FIXED C08_PAIR1_RESIZE_ADMITS_FIXED C08_PAIR1_STALE_FIXED)|]. split; [exact (pair_c15_nb_possible (PairModel.K1 false) C08_PAIR1_STOP_WRITABLE_FIXED C08_PAIR1_RESIZE_ADMITS_FIXED C08_PAIR1_STALE_FIXED)|]. exact (pair_c15_mirror (PairModel.K1 false) C08_PAIR1_RESIZE_ADMITS_FIXED C08_PAIR1_STALE_FIXED). Qed.
Print Assumptions pair1_c15.
Definition pair1_nb_immediate : C15_nb_immediate Pair1_now := proj1 pair1_c15.
Definition pair1_nb_succeeds_if_possible : C15_nb_possible Pair1_now := proj1 (proj2 pair1_c15).
Definition pair1_poll_mirror : C15_mirror Pair1_now := proj2 (proj2 pair1_c15).

(* pair1_reachable_invariant *)
(* pair1_nb_eagain_only_where_blocking_waits *)
(* pair1_poll_mirror_exact *)
(* pair1_poll_mirror_iff *)
Theorem pair1_c15_more :
  C15_inv Pair1_now /\
  C15_nb_strict Pair1_now /\
  C15_mirror_exact Pair1_now /\
  C15_mirror_iff Pair1_now.
Proof. split; [exact (pair_c15_inv (PairModel.K1 false) C08_PAIR1_RESIZE_ADMITS_FIXED C08_PAIR1_STALE_FIXED)|]. split; [exact (pair_c15_nb_strict (PairModel.K1 false) C08_PAIR1_STOP_WRITABLE_FIXED C08_PAIR1_RESIZE_ADMITS_FIXED C08_PAIR1_STALE_FIXED)|]. split; [exact (pair_c15_mirror_exact (PairModel.K1 false) C08_PAIR1_RESIZE_ADMITS_FIXED C08_PAIR1_STALE_FIXED)|]. exact (pair_c15_mirror_iff (PairModel.K1 false) C08_PAIR1_RESIZE_ADMITS_FIXED C08_PAIR1_STALE_FIXED). Qed.
Print Assumptions pair1_c15_more.

Theorem pair1raw_c15 :
  C15_nb_immediate Pair1raw_now /\
  C15_nb_possible Pair1raw_now /\
  C15_mirror Pair1raw_now.
Proof. split; [exact (pair_c15_nb_immediate (PairModel.K1 true) C08_PAIR1_STOP_WRITABLE_FIXED C08_PAIR1_RESIZE_ADMITS_FIXED C08_PAIR1_STALE_FIXED)|]. split; [exact (pair_c15_nb_possible (PairModel.K1 true) C08_PAIR1_STOP_WRITABLE_FIXED C08_PAIR1_RESIZE_ADMITS_FIXED C08_PAIR1_STALE_FIXED)|]. exact (pair_c15_mirror (PairModel.K1 true) C08_PAIR1_RESIZE_ADMITS_FIXED C08_PAIR1_STALE_FIXED). Qed.
Print Assumptions pair1raw_c15.
Definition pair1raw_nb_immediate : C15_nb_immediate Pair1raw_now := proj1 pair1raw_c15.
Definition pair1raw_nb_succeeds_if_possible : C15_nb_possible Pair1raw_now := proj1 (proj2 pair1raw_c15).
Definition pair1raw_poll_mirror : C15_mirror Pair1raw_now := proj2 (proj2 pair1raw_c15).

(* pair1raw_reachable_invariant *)
(* pair1raw_nb_eagain_only_where_blocking_waits *)
(* pair1raw_poll_mirror_exact *)
(* pair1raw_poll_mirror_iff *)
Theorem pair1raw_c15_more :
  C15_inv Pair1raw_now /\
  C15_nb_strict Pair1raw_now /\
  C15_mirror_exact Pair1raw_now /\
  C15_mirror_iff Pair1raw_now.
Proof. split; [exact (pair_c15_inv (PairModel.K1 true) C08_PAIR1_RESIZE_ADMITS_FIXED C08_PAIR1_STALE_FIXED)|]. split; [exact (pair_c15_nb_strict (PairModel.K1 true) C08_PAIR1_STOP_WRITABLE_FIXED C08_PAIR1_RESIZE_ADMITS_FIXED C08_PAIR1_STALE_FIXED)|]. split; [exact (pair_c15_mirror_exact (PairModel.K1 true) C08_PAIR1_RESIZE_ADMITS_FIXED C08_PAIR1_STALE_FIXED)|]. exact (pair_c15_mirror_iff (PairModel.K1 true) C08_PAIR1_RESIZE_ADMITS_FIXED C08_PAIR1_STALE_FIXED). Qed.
Print Assumptions pair1raw_c15_more.

(* pair_poll_mirror_pinned_refuted: the tree as pinned (repaired by 6a91792) *)
Theorem pairs_c15_more :
  (forall k fr fs, ~ C15_mirror (M_pair k false fr fs)).
Proof. exact (pair_c15_mirror_refuted_pinned). Qed.
Print Assumptions pairs_c15_more.

(* bus_nb_immediate: holds since fix 6932118 (a refused send keeps its message) *)
(* bus_nb_succeeds_if_possible_now: KNOWN unrepaired defect bus-nonblock-send-eagain: false of the source while BUS_SEND_NO_AIO_START = false *)
(* bus_poll_mirror_now: KNOWN unrepaired defect bus-nonblock-send-eagain *)
Theorem bus_c15 :
  (forall raw, C15_nb_immediate (Bus_now raw)) /\
  (forall raw, now BUS_SEND_NO_AIO_START (C15_nb_possible (Bus_now raw))) /\
  (forall raw, now BUS_SEND_NO_AIO_START (C15_mirror (Bus_now raw))).
Proof. split; [exact (fun raw => bus_c15_nb_immediate_keep BUS_SEND_NO_AIO_START raw)|]. split; [exact (fun raw => bus_c15_nb_possible_by_flag BUS_SEND_NO_AIO_START raw)|]. exact (fun raw => bus_c15_mirror_by_flag BUS_SEND_NO_AIO_START raw). Qed.
Print Assumptions bus_c15.
Definition bus_nb_immediate : forall raw, C15_nb_immediate (Bus_now raw) := proj1 bus_c15.
Definition bus_nb_succeeds_if_possible_now : forall raw, now BUS_SEND_NO_AIO_START (C15_nb_possible (Bus_now raw)) := proj1 (proj2 bus_c15).
Definition bus_poll_mirror_now : forall raw, now BUS_SEND_NO_AIO_START (C15_mirror (Bus_now raw)) := proj2 (proj2 bus_c15).

(* bus_reachable_invariant *)
(* bus_nb_recv_succeeds_if_possible *)
(* bus_poll_mirror_recv *)
(* bus_nb_immediate_holds_when_repaired *)
(* bus_nb_succeeds_if_possible_holds_when_repaired *)
(* bus_nb_eagain_only_where_blocking_waits_holds_when_repaired *)
(* bus_poll_mirror_holds_when_repaired *)
(* bus_poll_mirror_exact_holds_when_repaired *)
(* bus_poll_mirror_iff_holds_when_repaired *)
(* bus_nb_immediate_pinned_refuted: the tree as pinned: the refused send had already detached the message (repaired by 6932118) *)
Theorem bus_c15_more :
  (forall raw, C15_inv (Bus_now raw)) /\
  (forall raw, C15_nb_recv_possible (Bus_now raw)) /\
  (forall raw, C15_mirror_r (Bus_now raw)) /\
  (forall keep raw, C15_nb_immediate (M_bus true keep raw)) /\
  (forall keep raw, C15_nb_possible (M_bus true keep raw)) /\
  (forall keep raw, C15_nb_strict (M_bus true keep raw)) /\
  (forall keep raw, C15_mirror (M_bus true keep raw)) /\
  (forall keep raw, C15_mirror_exact (M_bus true keep raw)) /\
  (forall keep raw, C15_mirror_iff (M_bus true keep raw)) /\
  (forall raw, ~ C15_nb_immediate (M_bus false false raw)).
Proof. split; [exact (fun raw => bus_c15_inv BUS_SEND_NO_AIO_START C03_BUS_START_BEFORE_DETACH raw)|]. split; [exact (fun raw => bus_c15_nb_recv_possible BUS_SEND_NO_AIO_START C03_BUS_START_BEFORE_DETACH raw)|]. split; [exact (fun raw => bus_c15_mirror_r BUS_SEND_NO_AIO_START C03_BUS_START_BEFORE_DETACH raw)|]. split; [exact (bus_c15_nb_immediate)|]. split; [exact (bus_c15_nb_possible)|]. split; [exact (bus_c15_nb_strict)|]. split; [exact (bus_c15_mirror)|]. split; [exact (bus_c15_mirror_exact)|]. split; [exact (bus_c15_mirror_iff)|]. exact (bus_c15_nb_immediate_refuted_pinned). Qed.
Print Assumptions bus_c15_more.

(* ================================================================== the table: for every protocol the three clauses, for the source as it is now *)
Theorem c15_table_now :
  (C15_nb_immediate Req_now /\ C15_nb_possible Req_now /\ C15_mirror Req_now) /\
  (C15_nb_immediate Rep_now /\ C15_nb_possible Rep_now /\ C15_mirror Rep_now) /\
  (C15_nb_immediate XReq_now /\ C15_nb_possible XReq_now /\ C15_mirror XReq_now) /\
  (C15_nb_immediate XRep_now /\ C15_nb_possible XRep_now /\ C15_mirror XRep_now) /\
  (C15_nb_immediate Pub_now /\ C15_nb_possible Pub_now /\ C15_mirror Pub_now) /\
  (C15_nb_immediate Sub_now /\ C15_nb_possible Sub_now /\ C15_mirror Sub_now) /\
  (C15_nb_immediate XSub_now /\ C15_nb_possible XSub_now /\ C15_mirror XSub_now) /\
  (C15_nb_immediate Push_now /\ C15_nb_possible Push_now /\ C15_mirror Push_now) /\
  (C15_nb_immediate Pull_now /\ C15_nb_possible Pull_now /\ C15_mirror Pull_now) /\
  (C15_nb_immediate Surv_now /\ C15_nb_possible Surv_now /\ C15_mirror Surv_now) /\
  (C15_nb_immediate Resp_now /\ now C07_RESP_NB_FIXED (C15_nb_possible Resp_now) /\ now C07_RESP_NB_FIXED (C15_mirror Resp_now)) /\
  (C15_nb_immediate XSurv_now /\ C15_nb_possible XSurv_now /\ C15_mirror XSurv_now) /\
  (C15_nb_immediate XResp_now /\ C15_nb_possible XResp_now /\ C15_mirror XResp_now) /\
  (C15_nb_immediate Pair0_now /\ C15_nb_possible Pair0_now /\ C15_mirror Pair0_now) /\
  (C15_nb_immediate Pair1_now /\ C15_nb_possible Pair1_now /\ C15_mirror Pair1_now) /\
  (C15_nb_immediate Pair1raw_now /\ C15_nb_possible Pair1raw_now /\ C15_mirror Pair1raw_now) /\
  ((forall raw, C15_nb_immediate (Bus_now raw)) /\ (forall raw, now BUS_SEND_NO_AIO_START (C15_nb_possible (Bus_now raw))) /\ (forall raw, now BUS_SEND_NO_AIO_START (C15_mirror (Bus_now raw)))).
Proof. split; [exact req_c15|]. split; [exact rep_c15|]. split; [exact xreq_c15|]. split; [exact xrep_c15|]. split; [exact pub_c15|]. split; [exact sub_c15|]. split; [exact xsub_c15|]. split; [exact push_c15|]. split; [exact pull_c15|]. split; [exact surveyor_c15|]. split; [exact respondent_c15|]. split; [exact xsurveyor_c15|]. split; [exact xrespondent_c15|]. split; [exact pair0_c15|]. split; [exact pair1_c15|]. split; [exact pair1raw_c15|]. exact bus_c15. Qed.
Print Assumptions c15_table_now.

(* ================================================================== non-vacuity: the hypotheses are satisfiable, both values occur *)
Example req_reachable_nonvacuous : forall fx,
  (exists s, reachable (M_req fx) s /\ poll_w (pm_poll (M_req fx) s) = Some true) /\
  (exists s, reachable (M_req fx) s /\ poll_r (pm_poll (M_req fx) s) = Some true).
Proof. intros fx. split; [exact (req_reachable_w_raised fx)|exact (req_reachable_r_raised fx)]. Qed.
Example rep_reachable_nonvacuous :
  (exists s, reachable (M_rep RepProofs.pf_repaired) s /\ poll_r (pm_poll (M_rep RepProofs.pf_repaired) s) = Some true) /\
  (exists s, reachable (M_rep RepProofs.pf_repaired) s /\ poll_w (pm_poll (M_rep RepProofs.pf_repaired) s) = Some true).
Proof. split; [exact rep_reachable_readable|exact rep_reachable_writable]. Qed.
Example push_pull_reachable_nonvacuous :
  (exists s, reachable M_push s /\ poll_w (pm_poll M_push s) = Some true) /\
  (reachable M_push PushModel.push_init /\ poll_w (pm_poll M_push PushModel.push_init) = Some false) /\
  (exists s, reachable M_pull s /\ poll_r (pm_poll M_pull s) = Some true).
Proof. split; [exact push_reachable_raised|]. split; [exact push_reachable_lowered|exact pull_reachable_raised]. Qed.
Example respondent_reachable_nonvacuous :
  (exists s, reachable (M_resp RespondModel.rfix_all) s /\ poll_r (pm_poll (M_resp RespondModel.rfix_all) s) = Some true) /\
  (exists s, reachable (M_resp RespondModel.rfix_all) s /\ pm_poll (M_resp RespondModel.rfix_all) s = mkPoll (Some false) (Some true)).
Proof. split; [exact resp_reachable_r_raised|exact resp_reachable_w_raised]. Qed.
Example surveyor_reachable_nonvacuous :
  exists s, reachable (M_surv true) s /\ poll_r (pm_poll (M_surv true) s) = Some true.
Proof. exact surv_reachable_raised. Qed.
Example pollable_nonvacuous :
  plb_readable (plb_run plb_init [PlRaise; PlGetFd]) = Some true /\
  plb_readable (plb_run plb_init [PlGetFd; PlRaise; PlClear]) = Some false /\
  plb_readable (plb_run plb_init [PlRaise; PlClear]) = None.
Proof. repeat split. Qed.

(* ================================================================== constants and repairs the statements above rest on *)
Theorem c15_consts_match :
  E_AGAIN = C15_NNG_EAGAIN /\ E_TIMEDOUT = C15_NNG_ETIMEDOUT /\ E_NOTSUP = C15_NNG_ENOTSUP /\ E_STATE = C15_NNG_ESTATE /\
  E_CLOSED = C15_NNG_ECLOSED /\ E_PROTO = C15_NNG_EPROTO /\ E_NOMEM = C15_NNG_ENOMEM /\
  C15_API_NONBLOCK_ZERO_TIMEOUT_EAGAIN = true /\ C15_AIO_START_REFUSES_ZERO_TIMEOUT = true /\
  (* every repair the positive theorems need is in the source; the two recorded defects are the only flags allowed to be false *)
  forallb (fun b => b)
    [C04_REQ_RDCLR_FIXED; C04_REP_RCLOSE_FIXED; C04_REP_SAIO_FIXED; C04_REP_WBUSY_FIXED; C04_MSGQ_NB_FIXED; C04_MSGQ_RESIZE_FIXED;
     C04_MSGQ_GET_RUNS_PUTQ; C05_SUB_UNSUB_CLEARS_POLL; C05_MSGQ_GET_TRIES_FIRST; C07_SURV_NBRECV_FIXED; C07_RESP_WBUSY_FIXED;
     C07_RESP_RCLOSE_FIXED; C07_RESP_SBUSY_FIXED; C07_RESP_WOTHER_FIXED; C07_RESP_WSTALE_FIXED; C07_MSGQ_NB_FIXED; C07_MSGQ_RESIZE_FIXED;
     C07_MSGQ_GET_RUNS_PUTQ; C08_PAIR0_STOP_WRITABLE_FIXED; C08_PAIR1_STOP_WRITABLE_FIXED; C03_BUS_START_BEFORE_DETACH] = true.
Proof. repeat split. Qed.
Print Assumptions c15_consts_match.
