(* Properties_C15 (under construction): statements only. *)
From Coq Require Import List NArith Bool.
From NngV Require Import Proto.Common Proto.PollModel.
Import ListNotations.

Theorem pollable_level_stub : plb_readable (plb_run plb_init [PlRaise; PlGetFd]) = Some true.
Proof. reflexivity. Qed.
Print Assumptions pollable_level_stub.
