(* Properties_C17: statements only.  C17 -- nng_msg behaves as two byte strings. *)
From Coq Require Import List Arith NArith.
From NngV Require Import Gen.Consts Base.ListX Base.Bytes Msg.MsgModel Msg.MsgSpec Msg.MsgProofs.
Import ListNotations.

(* Every history of public operations from any state satisfying the
   invariant (in particular from nng_msg_alloc n, for every n) runs to the end
   without any out-of-bounds access or panic (the model returns None for those),
   keeps the invariant, and is observationally the history of string
   operations of MsgSpec: same return codes (EINVAL exactly where the spec
   says), same values read, same two byte strings; ENOMEM only where an
   allocation was made to fail, and then with no change. *)
Theorem msg_refines_spec : forall ops m, Inv m ->
  exists outs m', run m ops = Some (outs, m') /\ Inv m' /\ spec_run (abs m) ops outs (abs m').
Proof. exact run_refines. Qed.
Print Assumptions msg_refines_spec.

Theorem msg_alloc_ok : forall sz,
  exists m, msg_alloc sz false false = Some (0%N, Some m) /\ Inv m /\
            abs m = ([], zeros sz) /\ sz <= msg_capacity m.
Proof. exact alloc_spec. Qed.
Print Assumptions msg_alloc_ok.

(* single step: never out of bounds, never a panic *)
Theorem msg_in_bounds : forall m o fail, Inv m -> exists r, msg_step true m o fail = Some r.
Proof. exact step_total. Qed.
Print Assumptions msg_in_bounds.

Theorem msg_step_refines : forall m o fail rv v m',
  Inv m -> msg_step true m o fail = Some (rv, v, m') -> step_ok m o fail rv v m'.
Proof. exact step_refines. Qed.
Print Assumptions msg_step_refines.

Theorem msg_cap_ge_len : forall m, Inv m -> msg_len m <= msg_capacity m.
Proof. exact cap_ge_len. Qed.
Print Assumptions msg_cap_ge_len.

Theorem msg_be_codec_insert_trim : forall m k u m1,
  Inv m -> msg_step true m (InsertU k u) false = Some (0%N, None, m1) ->
  exists m2, msg_step true m1 (TrimU k) false = Some (0%N, Some (u mod 256 ^ N.of_nat k)%N, m2)
             /\ abs m2 = abs m /\ Inv m2.
Proof. exact insert_trim_u. Qed.
Print Assumptions msg_be_codec_insert_trim.

Theorem msg_be_codec_append_chop : forall m k u m1,
  Inv m -> msg_step true m (AppendU k u) false = Some (0%N, None, m1) ->
  exists m2, msg_step true m1 (ChopU k) false = Some (0%N, Some (u mod 256 ^ N.of_nat k)%N, m2)
             /\ abs m2 = abs m /\ Inv m2.
Proof. exact append_chop_u. Qed.
Print Assumptions msg_be_codec_append_chop.

Theorem be_roundtrip : forall n v, (v < 256 ^ N.of_nat n)%N -> be_dec (be_enc n v) = v.
Proof. exact be_dec_enc_small. Qed.
Print Assumptions be_roundtrip.

(* a duplicate is an equal message with its own store: in the model a
   message is a value, so operations on either cannot affect the other; that
   the C shares nothing is what the correspondence run observes *)
Theorem msg_dup_equal : forall m, Inv m ->
  exists m', msg_dup m false false = Some (0%N, Some m') /\ Inv m' /\ abs m' = abs m /\
             msg_capacity m' = msg_capacity m.
Proof. exact msg_dup_spec. Qed.
Print Assumptions msg_dup_equal.

(* the insert of the tree as pinned (before the fix: commit) lost data *)
Theorem msg_insert_unfixed_refuted :
  exists m3, insert_witness = Some (0%N, None, m3) /\
             snd (abs m3) <> repeat 120%N 40 ++ [65;66;67;68;69;70;71;72]%N.
Proof. exact insert_unfixed_refuted. Qed.
Print Assumptions msg_insert_unfixed_refuted.

(* the literals of the model are those of the current source (Gen/Consts.v is
   regenerated from /repo on every run) *)
Theorem msg_consts_match :
  HDR_CAP = 4 * (NNI_MAX_MAX_TTL + MSG_HEADER_WORDS_EXTRA) /\ MSG_HEADROOM = 32 /\ MSG_HEADROOM2 = 32 /\ MSG_BIG = 1024.
Proof. repeat split; reflexivity. Qed.
Print Assumptions msg_consts_match.

(* non-vacuity: a concrete non-trivial state satisfies the invariant *)
Example inv_nonvacuous :
  exists m, msg_alloc 100 false false = Some (0%N, Some m) /\ Inv m /\ msg_len m = 100.
Proof.
  destruct (alloc_spec 100) as (m & A & HI & Ha & _). exists m. repeat split; try apply HI; auto.
  unfold msg_len. destruct HI as [HC _]. rewrite <- (cabs_length _ HC).
  unfold abs in Ha. inversion Ha as [[H0 H1]]. rewrite H1. apply zeros_length.
Qed.
