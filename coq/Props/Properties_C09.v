(* Properties_C09: statements only.  C09 -- BUS: a message sent on a BUS socket is
   offered to every currently connected peer at most once and never comes back
   to the sender; raw mode spares the pipe named in the header; send never
   blocks; per-peer order; whole-message drops.

   Model: Proto/BusModel.v (src/sp/protocol/bus0/bus.c, cooked and raw), one step
   = one critical section of bus0_sock.mtx.  [fixed] selects the form of
   bus0_sock_send: false = the pinned code (nni_aio_start(aio, NULL, NULL) before
   the fan-out), true = without that call; which one the current source has is
   read from it on every run (Gen/Consts.v BUS_SEND_NO_AIO_START) and that is what
   the correspondence run executes.  Everything below holds for both forms unless
   it says otherwise; the one clause the pinned form violates is
   bus_nonblock_send_refuted.

   BInv: pipe ids distinct, queue lengths within capacity, an idle pipe has an
   empty queue and nothing in flight, at most one message attached per pipe,
   receive queue within capacity, a waiting receiver implies an empty receive
   queue, the receive descriptor mirrors "receive queue non-empty".
   op_ok (the environment's contract): a pipe is started once with an id in the
   pipe id range (non-zero, 32 bit: Properties_C18), a transport completion
   belongs to a transport send in flight, an aio is submitted once at a time. *)
From Coq Require Import List Arith NArith Bool.
From NngV Require Import Gen.Consts Proto.Common Proto.PushModel Proto.PushProofs Proto.PullModel Proto.PullProofs
  Proto.BusModel Proto.BusProofs.
Import ListNotations.

(* ---- the invariant is one: it holds initially and every step keeps it ---- *)
Theorem bus_invariant :
  (forall raw, BInv (bus_init raw)) /\
  (forall fixed s o s' outs, BInv s -> op_ok s o -> bus_step fixed s o = (s', outs) -> BInv s').
Proof. split; [exact bus_init_inv|exact bus_step_inv]. Qed.
Print Assumptions bus_invariant.

(* ---- fan-out: an accepted send is offered to every started pipe exactly as
   offer_kind says -- skipped (raw, named in the header), handed to the transport
   (idle pipe), appended whole to the pipe's queue (busy, room), or dropped
   (busy, queue full) -- and to nobody else; per pipe at most one copy leaves the
   step (transport or queue), never two ---- *)
Theorem bus_fanout_each_peer_at_most_once : forall fixed s c a nb m s' outs,
  BInv s -> bus_step fixed s (PSend c a nb m) = (s', outs) -> accepts fixed nb = true ->
  forall p,
    find_pipe p (bs_pipes s') = option_map (offer_pipe (bs_raw s) (origin s m) (sent_as s m)) (find_pipe p (bs_pipes s)) /\
    txs_on p outs = match find_pipe p (bs_pipes s) with
                    | Some bp => match offer_kind (bs_raw s) (origin s m) bp with ODirect => [sent_as s m] | _ => [] end
                    | None => []
                    end /\
    length (txs_on p outs) + (length (pq p s') - length (pq p s)) <= 1.
Proof. exact bus_fanout_law. Qed.
Print Assumptions bus_fanout_each_peer_at_most_once.

(* ---- never echoed.
   (1) any mode: a send step delivers nothing to the sender's own application and
       leaves its receive side alone; messages go to started pipes only (a socket
       has no pipe to itself);
   (2) raw: if the header starts with the id of pipe p, then p is the origin, the
       word is removed (the rest of the header travels), nothing is transmitted
       or queued on p, and every other started pipe is offered the message
       (transmitted at once if idle, appended to its queue if busy with room);
   (3) a message that arrives on pipe p is delivered or buffered -- in raw mode
       with p's id appended to its header, in cooked mode as it is -- or, with no
       receiver waiting and the receive queue full, freed whole. ---- *)
Theorem bus_never_echo :
  (forall fixed s c a nb m s' outs,
     bus_step fixed s (PSend c a nb m) = (s', outs) ->
     delivered outs = [] /\ bs_rq s' = bs_rq s /\ bs_wait s' = bs_wait s /\ bs_readable s' = bs_readable s /\
     forall p, txs_on p outs <> [] -> In p (pipe_ids s)) /\
  (forall fixed s c a nb m s' outs p hdr_rest,
     BInv s -> bs_raw s = true -> (p < 4294967296)%N -> pm_hdr m = enc32 p ++ hdr_rest ->
     bus_step fixed s (PSend c a nb m) = (s', outs) ->
     origin s m = p /\ sent_as s m = mkPmsg hdr_rest (pm_body m) /\
     txs_on p outs = [] /\ find_pipe p (bs_pipes s') = find_pipe p (bs_pipes s) /\
     (accepts fixed nb = true -> forall q bq, q <> p -> find_pipe q (bs_pipes s) = Some bq ->
        offer_kind true p bq <> OSkip /\
        (bp_busy bq = false -> txs_on q outs = [mkPmsg hdr_rest (pm_body m)]) /\
        (bp_busy bq = true -> length (bp_q bq) < bp_cap bq -> pq q s' = bp_q bq ++ [mkPmsg hdr_rest (pm_body m)]))) /\
  (forall fixed s p m s' outs,
     bus_step fixed s (PRecvDone p 0 m) = (s', outs) ->
     let m' := if bs_raw s then mkPmsg (pm_hdr m ++ enc32 p) (pm_body m) else m in
     (delivered outs = [m'] /\ bs_rq s' = bs_rq s) \/
     (delivered outs = [] /\ bs_rq s' = bs_rq s ++ [m']) \/
     (delivered outs = [] /\ s' = s /\ outs = [Free m'; TranRecv p] /\ bs_wait s = [] /\ bs_rcap s <= length (bs_rq s))).
Proof. split; [exact bus_send_no_self_delivery|split; [exact bus_raw_skips_origin|exact bus_recv_stamps_origin]]. Qed.
Print Assumptions bus_never_echo.

(* the one-socket raw device (src/core/device.c forwards the message with its
   header untouched): what arrived on p and is sent again as delivered goes out
   with an empty header and never on p *)
Theorem bus_raw_device_never_echo : forall fixed s p body c a nb s' outs,
  BInv s -> bs_raw s = true -> (p < 4294967296)%N ->
  bus_step fixed s (PSend c a nb (mkPmsg ([] ++ enc32 p) body)) = (s', outs) ->
  origin s (mkPmsg ([] ++ enc32 p) body) = p /\ sent_as s (mkPmsg ([] ++ enc32 p) body) = mkPmsg [] body /\ txs_on p outs = [].
Proof. exact bus_raw_device_roundtrip. Qed.
Print Assumptions bus_raw_device_never_echo.

(* ---- send never blocks: whatever the state and the flags, the send completes in
   the same step and no aio is queued (the model has no send wait list at all);
   the completion is success, except for the pinned form's refusal of a
   non-blocking send (bus_nonblock_send_refuted) ---- *)
Theorem bus_send_never_blocks : forall fixed s c a nb m s' outs,
  bus_step fixed s (PSend c a nb m) = (s', outs) ->
  bs_wait s' = bs_wait s /\
  ((accepts fixed nb = true /\ completions outs = [(a, E_OK)]) \/
   (fixed = false /\ nb = true /\ outs = [Complete a E_AGAIN None])).
Proof. exact bus_send_immediate. Qed.
Print Assumptions bus_send_never_blocks.

(* ---- per-peer FIFO.  One step, any pipe p: queue before ++ accepted for p =
   handed to p's transport ++ queue after ++ cut off the tail (pipe close, queue
   shrink); only a send step accepts anything (taken), so BUS never forwards what
   it received.  Any well-formed history: transmissions on p followed by p's queue
   are a subsequence of (queue before ++ everything accepted for p, in order) --
   no reordering, no duplication -- and exactly equal when nothing was cut ---- *)
Theorem bus_per_peer_fifo :
  (forall fixed p s o s' outs, BInv s -> op_ok s o -> bus_step fixed s o = (s', outs) ->
     pq p s ++ taken p fixed s o = txs_on p outs ++ pq p s' ++ cut p s o) /\
  (forall fixed p ops s, BInv s -> ops_ok fixed s ops ->
     let (s', tr) := bus_run fixed s ops in
     sublist (tr_txs p tr ++ pq p s') (pq p s ++ tr_taken p fixed tr) /\
     (tr_cut p tr = [] -> tr_txs p tr ++ pq p s' = pq p s ++ tr_taken p fixed tr)).
Proof. split; [exact bus_fifo_step|exact bus_run_fifo]. Qed.
Print Assumptions bus_per_peer_fifo.

(* ---- dropped whole: a pipe whose queue is full keeps exactly its state (no partial
   message, survivors untouched), nothing is transmitted on it, the sender's
   reference is released once; every queue after a send is the queue before or
   the queue before with the whole message appended; on the receive side a full
   queue (no receiver waiting) frees the whole message and changes nothing ---- *)
Theorem bus_drop_whole : forall fixed s, BInv s ->
  (forall c a nb m s' outs p bp, bus_step fixed s (PSend c a nb m) = (s', outs) -> accepts fixed nb = true ->
     find_pipe p (bs_pipes s) = Some bp -> offer_kind (bs_raw s) (origin s m) bp = ODropped ->
     find_pipe p (bs_pipes s') = Some bp /\ txs_on p outs = [] /\ bp_cap bp <= length (bp_q bp) /\
     freed outs = [sent_as s m]) /\
  (forall c a nb m s' outs p, bus_step fixed s (PSend c a nb m) = (s', outs) ->
     pq p s' = pq p s \/ pq p s' = pq p s ++ [sent_as s m]) /\
  (forall p m s' outs, bus_step fixed s (PRecvDone p 0 m) = (s', outs) ->
     bs_wait s = [] -> bs_rcap s <= length (bs_rq s) ->
     s' = s /\ outs = [Free (if bs_raw s then mkPmsg (pm_hdr m ++ enc32 p) (pm_body m) else m); TranRecv p]).
Proof. exact bus_drop_whole_law. Qed.
Print Assumptions bus_drop_whole.

(* ---- receive side: one step: buffered ++ arrived (stamped) = delivered ++
   buffered after ++ dropped (and what is dropped is freed in the same step);
   histories: deliveries followed by the buffer are a subsequence of the arrivals
   of all peers in arrival order -- so each peer's messages come in that peer's
   order, none twice -- and exactly the arrivals when nothing was dropped ---- *)
Theorem bus_recv_per_peer_order :
  (forall fixed s o s' outs, BInv s -> bus_step fixed s o = (s', outs) ->
     bs_rq s ++ stamped s o = delivered outs ++ bs_rq s' ++ rcut s o /\
     (forall x, In x (rcut s o) -> In (Free x) outs)) /\
  (forall fixed ops s, BInv s -> ops_ok fixed s ops ->
     let (s', tr) := bus_run fixed s ops in
     sublist (tr_delivered tr ++ bs_rq s') (bs_rq s ++ tr_stamped tr) /\
     (tr_rcut tr = [] -> tr_delivered tr ++ bs_rq s' = bs_rq s ++ tr_stamped tr)).
Proof. split; [exact bus_recv_fifo_step|exact bus_run_recv_order]. Qed.
Print Assumptions bus_recv_per_peer_order.

(* ---- conservation of references (the C clones once per pipe that takes the
   message and frees the sender's reference): as multisets, owned + lost + taken
   out of user aios + clones + arrivals = owned' + lost' + consumed by the
   transports + freed + delivered; never both, never neither ---- *)
Theorem bus_conservation_one_step : forall fixed s o s' outs,
  BInv s -> op_ok s o -> bus_step fixed s o = (s', outs) ->
  forall x, cnt x (owned s ++ bs_lost s ++ slot s o ++ clones fixed s o ++ stamped s o) =
            cnt x (owned s' ++ bs_lost s' ++ bwire s o ++ freed outs ++ delivered outs).
Proof. exact bus_conservation_step. Qed.
Print Assumptions bus_conservation_one_step.

Theorem bus_conservation : forall fixed ops s, BInv s -> ops_ok fixed s ops ->
  let (s', tr) := bus_run fixed s ops in
  BInv s' /\
  forall x, cnt x (owned s ++ bs_lost s ++ tr_in fixed tr) = cnt x (owned s' ++ bs_lost s' ++ tr_out tr).
Proof. exact bus_run_conservation. Qed.
Print Assumptions bus_conservation.

(* "lost" (taken out of the aio, then neither sent, freed nor put back) grows only
   in the refused non-blocking send of the pinned form; never when fixed *)
Theorem bus_nothing_lost : forall fixed s o s' outs,
  bus_step fixed s o = (s', outs) ->
  bs_lost s' = bs_lost s \/
  (exists c a m, o = PSend c a true m /\ fixed = false /\ bs_lost s' = bs_lost s ++ [sent_as s m] /\
                 outs = [Complete a E_AGAIN None]).
Proof. exact bus_lost_only_by_refused_send. Qed.
Print Assumptions bus_nothing_lost.

(* ---- non-blocking receive and the receive descriptor: immediate; EAGAIN exactly
   when the descriptor is not raised (= nothing buffered = the blocking form would
   be queued: bus_recv_blocks_when_empty); nothing changes then ---- *)
Theorem bus_nonblock_recv : forall fixed s c a s' outs,
  BInv s -> bus_step fixed s (PRecv c a true) = (s', outs) ->
  exists rv m, outs = [Complete a rv m] /\ bs_wait s' = bs_wait s /\
    (rv = E_AGAIN <-> poll_r (bus_poll s) = Some false) /\ (rv = E_AGAIN -> s' = s /\ m = None) /\
    (rv <> E_AGAIN -> rv = E_OK /\ exists x r, bs_rq s = x :: r /\ m = Some x /\ bs_rq s' = r).
Proof. exact bus_nb_recv. Qed.
Print Assumptions bus_nonblock_recv.

Theorem bus_recv_blocks_when_empty : forall fixed s c a,
  bs_rq s = [] ->
  bus_step fixed s (PRecv c a false) =
    (mkBus (bs_raw s) (bs_pipes s) [] (bs_rcap s) (bs_wait s ++ [a]) (bs_sendbuf s) (bs_sending s) (bs_readable s) (bs_lost s), []).
Proof. exact bus_recv_blocks. Qed.
Print Assumptions bus_recv_blocks_when_empty.

(* ---- non-blocking send and the send descriptor ("always writable").
   Without the nni_aio_start call: the non-blocking send IS the blocking one
   (which never queues): success at once, descriptor raised -- both halves of
   the mirror. ---- *)
Theorem bus_nonblock_send_holds_when_fixed : forall s c a m,
  bus_step true s (PSend c a true m) = bus_step true s (PSend c a false m) /\
  completions (snd (bus_step true s (PSend c a true m))) = [(a, E_OK)] /\
  poll_w (bus_poll s) = Some true.
Proof. exact bus_nb_send_fixed. Qed.
Print Assumptions bus_nonblock_send_holds_when_fixed.

(* The pinned form violates it (vm_compute witness: one idle peer): the descriptor
   is raised and the blocking send transmits at once, yet the non-blocking send
   returns EAGAIN, transmits nothing, and the message has already left the aio
   (with its header cleared / trimmed).  Replayed on the library by checks/c09.py
   (open bus0; conn 112; sendnb => rv=8, pipe idle, poll w=1). *)
Theorem bus_nonblock_send_refuted :
  BInv bus_nb_witness_state /\ poll_w (bus_poll bus_nb_witness_state) = Some true /\
  snd (bus_step false bus_nb_witness_state (PSend None 5%N false bus_nb_witness_msg)) =
    [TranSend 1%N bus_nb_witness_msg; Free bus_nb_witness_msg; Complete 5%N E_OK None] /\
  snd (bus_step false bus_nb_witness_state (PSend None 5%N true bus_nb_witness_msg)) = [Complete 5%N E_AGAIN None] /\
  bs_lost (fst (bus_step false bus_nb_witness_state (PSend None 5%N true bus_nb_witness_msg))) = [bus_nb_witness_msg].
Proof. exact bus_nb_send_pinned_refuted. Qed.
Print Assumptions bus_nonblock_send_refuted.

(* ---- poll descriptors, on every state satisfying the invariant (hence every
   reachable one): the receive descriptor is raised exactly when a non-blocking
   receive succeeds and lowered exactly when it says EAGAIN (no missed wake-up, no
   busy loop); the send descriptor is always raised, and -- without the
   nni_aio_start call -- a non-blocking send always succeeds (the pinned form:
   bus_nonblock_send_refuted) ---- *)
Theorem bus_poll_mirror : forall fixed s c a,
  BInv s ->
  (poll_r (bus_poll s) = Some true <-> completions (snd (bus_step fixed s (PRecv c a true))) = [(a, E_OK)]) /\
  (poll_r (bus_poll s) = Some false <-> completions (snd (bus_step fixed s (PRecv c a true))) = [(a, E_AGAIN)]) /\
  poll_w (bus_poll s) = Some true /\
  (fixed = true -> forall m, completions (snd (bus_step fixed s (PSend c a true m))) = [(a, E_OK)]).
Proof. exact bus_poll_mirror_law. Qed.
Print Assumptions bus_poll_mirror.

(* ---- the literals of the model are those of the current source ---- *)
Theorem bus_consts_match :
  PROTO_BUS = BUS_PROTO_SELF /\ PROTO_BUS = BUS_PROTO_PEER /\ BUS_SENDBUF_DEFAULT = BUS_SENDBUF /\
  BUS_RECVBUF_DEFAULT = BUS_RECVBUF /\ BUS_BUF_MIN = BUS_BUF_LO /\ BUS_BUF_MAX = BUS_BUF_HI /\
  E_AGAIN = 8%N /\ E_PROTO = 13%N.
Proof. repeat split; reflexivity. Qed.
Print Assumptions bus_consts_match.

(* ---- non-vacuity: a raw socket, depth 1, three peers; a message whose header
   names pipe 2 goes to pipes 1 and 3 only; two more fill and overflow the queues
   (the third is dropped whole); completions drain them in order; a message
   arriving on pipe 3 is delivered with [3] in its header ---- *)
Definition nv_ops : list pop :=
  [PSetOpt None (OSendBuf 1); PPipeStart 1%N PROTO_BUS; PPipeStart 2%N PROTO_BUS; PPipeStart 3%N PROTO_BUS;
   PSend None 10%N false (mkPmsg [0%N; 0%N; 0%N; 2%N] [1%N]);
   PSend None 11%N false (mkPmsg [] [2%N]);
   PSend None 12%N false (mkPmsg [] [3%N]);
   PSendDone 1%N 0%N; PSendDone 1%N 0%N;
   PRecvDone 3%N 0%N (mkPmsg [] [9%N]); PRecv None 13%N true].
Example bus_history_nonvacuous :
  ops_ok true (bus_init true) nv_ops /\
  tr_txs 1%N (snd (bus_run true (bus_init true) nv_ops)) = [mkPmsg [] [1%N]; mkPmsg [] [2%N]] /\
  tr_txs 2%N (snd (bus_run true (bus_init true) nv_ops)) = [mkPmsg [] [2%N]] /\
  tr_taken 1%N true (snd (bus_run true (bus_init true) nv_ops)) = [mkPmsg [] [1%N]; mkPmsg [] [2%N]] /\
  tr_taken 2%N true (snd (bus_run true (bus_init true) nv_ops)) = [mkPmsg [] [2%N]; mkPmsg [] [3%N]] /\
  tr_delivered (snd (bus_run true (bus_init true) nv_ops)) = [mkPmsg [0%N; 0%N; 0%N; 3%N] [9%N]].
Proof.
  split; [|vm_compute; repeat split; reflexivity].
  vm_compute. repeat split; auto; try discriminate; try (intros H; repeat destruct H as [H|H]; try discriminate; try contradiction).
Qed.
