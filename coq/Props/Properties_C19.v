(* Properties_C19: statements only.  C19 -- URL parsing: strict acceptance,
   canonical and idempotent output. *)
From Coq Require Import List Arith NArith Bool.
From NngV Require Import Gen.Consts Base.ListX Url.Utf8Model Url.Utf8Spec Url.Utf8Proofs
  Url.CanonModel Url.CanonSpec Url.UrlParseModel Url.UrlSpec.
Import ListNotations.
Local Open Scope N_scope.

(* ---- (a) the UTF-8 validator ------------------------------------------- *)

(* The repaired validator (accumulate, then advance) accepts exactly the
   strings of the RFC 3629 grammar: no overlong form, no surrogate, nothing
   above U+10FFFF, no stray continuation byte, no truncated sequence.  [l] is
   the NUL-free text, [tail] whatever follows the NUL in the buffer. *)
Theorem utf8_validate_iff_wf : forall l tail, Forall byte_nz l ->
  (utf8_validate true (l ++ 0 :: tail) = Some true <-> wf_utf8 l).
Proof. exact utf8_validate_fixed_iff_wf. Qed.
Print Assumptions utf8_validate_iff_wf.

(* both variants: no read beyond the terminating NUL, fuel never runs out *)
Theorem utf8_validate_in_bounds : forall fixed l tail, Forall byte_nz l ->
  exists r, utf8_validate fixed (l ++ 0 :: tail) = Some r.
Proof. exact utf8_validate_total. Qed.
Print Assumptions utf8_validate_in_bounds.

(* the validator of the pinned tree (advance, then accumulate) accepts the
   overlong E0 9F BF and the surrogate ED A0 80 followed by 'x' *)
Theorem utf8_refuted :
  exists l, Forall byte_nz l /\ utf8_validate false (l ++ [0]) = Some true /\ ~ wf_utf8 l.
Proof. exact utf8_validate_pinned_refuted. Qed.
Print Assumptions utf8_refuted.

(* the boolean grammar the check evaluates is the inductive grammar *)
Theorem wf_utf8b_is_wf_utf8 : forall l, wf_utf8b l = true <-> wf_utf8 l.
Proof. exact wf_utf8b_iff. Qed.
Print Assumptions wf_utf8b_is_wf_utf8.

(* ---- the literals of the model are those of the current source ---------- *)
Theorem url_consts_match :
  schemes = URL_SCHEMES /\ default_ports = URL_DEFAULT_PORTS /\
  path_only_schemes = URL_PATH_ONLY_SCHEMES /\ STATIC_SZ = URL_STATIC_SIZE /\ HOST_MAX = URL_HOST_MAX.
Proof. repeat split; reflexivity. Qed.
Print Assumptions url_consts_match.

Example utf8_nonvacuous : Forall byte_nz [226; 130; 172] /\ wf_utf8 [226; 130; 172].
Proof. split; [repeat constructor | apply wf_utf8b_iff; reflexivity]. Qed.
