(* Properties_C19: statements only.  C19 -- URL parsing: strict acceptance,
   canonical and idempotent output.

   Conventions: [s] is the NUL-free input text ([nz s]: every byte in 1..255),
   [tail] whatever lies behind its terminating NUL in memory; the parser's
   argument is the memory [s ++ 0 :: tail].  [UOob] = an access outside an
   allocation (or a NULL dereference), [UErr rv] = the function returned rv,
   [UVal u] = success.  The flag record [fx] selects, per known defect of the
   pinned tree, the pinned (false) or the repaired (true) code; which one the
   current source has is read from it on every run (the URL_FIX_ constants of Gen/Consts.v)
   and that is what the correspondence run executes. *)
From Coq Require Import List Arith NArith Bool.
From NngV Require Import Gen.Consts Base.ListX Url.Utf8Model Url.Utf8Spec Url.Utf8Proofs
  Url.CanonModel Url.CanonPure Url.CanonSpec Url.CanonRefine Url.CanonProofs
  Url.UrlParseModel Url.UrlSpec Url.UrlParseProofs.
Import ListNotations.
Local Open Scope N_scope.

(* ---- (a) the UTF-8 validator ------------------------------------------- *)

(* The repaired validator (accumulate, then advance) accepts exactly the
   strings of the RFC 3629 grammar: no overlong form, no surrogate, nothing
   above U+10FFFF, no stray continuation byte, no truncated sequence. *)
Theorem utf8_validate_iff_wf : forall l tail, Forall byte_nz l ->
  (utf8_validate true (l ++ 0 :: tail) = Some true <-> wf_utf8 l).
Proof. exact utf8_validate_fixed_iff_wf. Qed.
Print Assumptions utf8_validate_iff_wf.

(* both variants: no read beyond the terminating NUL, fuel never runs out *)
Theorem utf8_validate_in_bounds : forall fixed l tail, Forall byte_nz l ->
  exists r, utf8_validate fixed (l ++ 0 :: tail) = Some r.
Proof. exact utf8_validate_total. Qed.
Print Assumptions utf8_validate_in_bounds.

(* the validator of the pinned tree (advance, then accumulate) accepts the
   overlong E0 9F BF (and the surrogate ED A0 80 'x': utf8_pinned_accepts_surrogate) *)
Theorem utf8_refuted :
  exists l, Forall byte_nz l /\ utf8_validate false (l ++ [0]) = Some true /\ ~ wf_utf8 l.
Proof. exact utf8_validate_pinned_refuted. Qed.
Print Assumptions utf8_refuted.

(* the boolean grammar the check evaluates is the inductive grammar *)
Theorem wf_utf8b_is_wf_utf8 : forall l, wf_utf8b l = true <-> wf_utf8 l.
Proof. exact wf_utf8b_iff. Qed.
Print Assumptions wf_utf8b_is_wf_utf8.

(* ---- (c) totality and bounds -------------------------------------------- *)

(* nni_url_canonify_uri on any NUL-terminated buffer: the three in-place
   passes (explicit src/dst indices, every read and write checked) never
   leave the buffer and never run out of fuel, keep its length, and compute
   exactly the pure function [canon_pure] on the text; NNG_EINVAL exactly
   when that is None.  Both validator variants. *)
Theorem canon_total_in_bounds : forall fx s tail, Forall byte_nz s ->
  match canon_pure fx s with
  | Some out => exists tail', canonify fx (s ++ 0 :: tail) = Some (NNG_OK, out ++ 0 :: tail') /\
                              length (out ++ 0 :: tail') = length (s ++ 0 :: tail)
  | None => canonify fx (s ++ 0 :: tail) = Some (NNG_EINVAL, s ++ 0 :: tail)
  end.
Proof. exact canonify_refines. Qed.
Print Assumptions canon_total_in_bounds.

(* nng_url_parse on any NUL-terminated input, any flags, any resolver oracle:
   no checked access fails (scheme scan, table lookup, copy into u_static or
   the heap block, the memmove of the authority, '@', tolower, canonify, the
   query/fragment split, brackets, host length, port) ... *)
Theorem parse_total_in_bounds : forall fx resolver s tail, nz s ->
  url_parse fx resolver (s ++ 0 :: tail) <> UOob.
Proof. exact url_parse_total. Qed.
Print Assumptions parse_total_in_bounds.

(* ... and on success every accessor, nng_url_sprintf and (repaired)
   nng_url_clone stay inside the URL's storage, whose size is the inline 128
   bytes or the recorded heap size *)
Theorem parse_result_in_bounds : forall fx resolver s tail u, nz s ->
  url_parse fx resolver (s ++ 0 :: tail) = UVal u ->
  buf_ok u /\ exists v, url_view u = Some v /\ v_scheme v = u_scheme u.
Proof.
  intros fx resolver s tail u Hs E. pose proof (url_parse_spec fx resolver s tail Hs) as H.
  rewrite E in H. destruct H as (len & rest & v & _ & _ & _ & Hv & Hsc & Hb & _). eauto.
Qed.
Print Assumptions parse_result_in_bounds.

(* ---- (b) strict acceptance ---------------------------------------------- *)

(* with the exact table lookup, success means the text before "://" EQUALS a
   table scheme (the generated table: url_consts_match below) *)
Theorem parse_scheme_exact : forall fx resolver s tail u, nz s -> fx_scheme fx = true ->
  url_parse fx resolver (s ++ 0 :: tail) = UVal u ->
  In (u_scheme u) schemes /\ exists rest, s = u_scheme u ++ [58; 47; 47] ++ rest.
Proof. exact url_parse_scheme_exact. Qed.
Print Assumptions parse_scheme_exact.

(* the pinned lookup (strncmp with the scanned length) accepts "ht://h/" as http *)
Theorem scheme_prefix_refuted :
  exists u, url_parse fx_pinned no_resolver ([104; 116; 58; 47; 47; 104; 47] ++ [0]) = UVal u /\
            u_scheme u = http_ /\ firstn 2 (u_scheme u) = [104; 116] /\ length (u_scheme u) = 4%nat.
Proof. exact scheme_prefix_witness. Qed.
Print Assumptions scheme_prefix_refuted.

(* parse_accepts_only, the part that is proved (hence _partial): for an
   accepted URL of a scheme with an authority, the input is
   scheme "://" authority rem with the authority free of '/', '?', '#'; the
   authority is [userinfo "@"] hostport with the userinfo returned verbatim
   (a second '@' is rejected: the host text then contains none -- see
   parse_userinfo_spec); the host returned is a piece of the lower-cased
   hostport and is shorter than 256 bytes; rem canonicalises (canon_pure, so
   every '%' in it is followed by two hex digits) to the text
   path ++ ["?" query] ++ ["#" fragment] that is returned, and the path
   returned is its part before the first '?' or '#'.
   MISSING for the full statement of DESIGN section 5: (i) the bracket and
   port clauses are proved as in-bounds/shape facts only (parse_hostport_spec:
   an IPv6 literal must be closed and followed by ':' or the end, the host
   name is what precedes ':'), the value of the port (strtol reading / the
   resolver oracle) is not tied to UrlSpec.port_numeric by a theorem -- the
   check's oracle compares it on every run; (ii) "the DECODED path is
   wf_utf8": proved is that the stored path itself is wf_utf8 (repaired
   validator; parse_canonical below) and that every escape left in it is an
   upper-case escape of a non-unreserved byte below 0x80 (P1), from which the
   decoded statement follows by a list lemma that is not proved here. *)
Theorem parse_accepts_only_partial : forall fx resolver s tail u, nz s ->
  url_parse fx resolver (s ++ 0 :: tail) = UVal u -> parse_post fx s u.
Proof.
  intros fx resolver s tail u Hs E. pose proof (url_parse_spec fx resolver s tail Hs) as H.
  rewrite E in H. exact H.
Qed.
Print Assumptions parse_accepts_only_partial.

(* ---- (d) canonical form --------------------------------------------------- *)

(* the canonicaliser's result: every '%' is followed by two upper-case hex
   digits and escapes no unreserved character; no "//" and no "/." or "/.."
   segment before the first '?' or '#' *)
Theorem canon_canonical : forall fx s t, canon_pure fx s = Some t ->
  escapes_canonical t = true /\ no_double_slash (path_part t) = true /\ no_dot_segments (path_part t) = true.
Proof. exact canon_pure_canonical. Qed.
Print Assumptions canon_canonical.

(* an accepted URL (scheme with an authority): canonical path, lower-case
   host shorter than 256 bytes; with the repaired validator the path is
   well-formed UTF-8 *)
Theorem parse_canonical : forall fx resolver s tail u v, nz s ->
  url_parse fx resolver (s ++ 0 :: tail) = UVal u -> is_path_only (u_scheme u) = false ->
  url_view u = Some v ->
  escapes_canonical (v_path v) = true /\ no_double_slash (v_path v) = true /\
  no_dot_segments (v_path v) = true /\
  (exists host, v_hostname v = Some host /\ host_lower host = true /\ (length host < HOST_MAX)%nat) /\
  (fx_utf8 fx = true -> wf_utf8 (v_path v)).
Proof. exact url_parse_canonical. Qed.
Print Assumptions parse_canonical.

(* ---- (e) idempotence ------------------------------------------------------ *)
Theorem canon_idempotent : forall fx s t, canon_pure fx s = Some t -> canon_pure fx t = Some t.
Proof. exact canon_pure_idempotent. Qed.
Print Assumptions canon_idempotent.

(* parse_sprintf_roundtrip, the part that is proved: the text
   path ["?" query] ["#" fragment] of an accepted URL -- which is what
   nng_url_sprintf prints after the authority -- canonicalises to itself and
   splits into the same path.
   MISSING for the full statement (parse (sprintf u) = Some u' with equal
   scheme, host, port, path, query, fragment): the authority part -- that
   re-reading "[" host "]" / host and ":" decimal-port gives the same host and
   port -- is not proved; the check compares the round trip on every accepted
   URL it generates. *)
Theorem parse_sprintf_roundtrip_partial : forall fx resolver s tail u v, nz s ->
  url_parse fx resolver (s ++ 0 :: tail) = UVal u -> is_path_only (u_scheme u) = false ->
  url_view u = Some v ->
  let text := v_path v ++ qf_text (v_query v) (v_fragment v) in
  canon_pure (fx_utf8 fx) text = Some text /\ path_part text = v_path v.
Proof. exact url_parse_text_stable. Qed.
Print Assumptions parse_sprintf_roundtrip_partial.

(* today (pinned bracket scan): the accepted "tcp://[[x]" does not survive the
   round trip -- host "[x" is printed without brackets and "tcp://[x:0" is
   rejected; the repaired scan rejects the input *)
Theorem bracket_host_roundtrip_refuted :
  (exists u, url_parse fx_bracket_pinned no_resolver (bracket_url ++ [0]) = UVal u) /\
  reparse fx_bracket_pinned (bracket_url ++ [0]) = UErr NNG_EINVAL /\
  url_parse fx_repaired no_resolver (bracket_url ++ [0]) = UErr NNG_EINVAL.
Proof. exact bracket_host_witness. Qed.
Print Assumptions bracket_host_roundtrip_refuted.

(* ---- clone ------------------------------------------------------------------ *)

(* the repaired clone, for every URL whose storage is the inline buffer or a
   heap block of the recorded size (every URL parse returns:
   parse_result_in_bounds): all copies in bounds, rv 0, and the clone has the
   same storage contents and component offsets -- in the model the same
   value, so every accessor and sprintf agree.  A model value cannot share
   storage; that the C clone shares nothing is what the correspondence run
   observes (the original is freed before the clone is read, under ASan). *)
Theorem clone_equal_independent : forall u, buf_ok u -> url_clone true true u = UVal (0, Some u).
Proof. exact url_clone_equal. Qed.
Print Assumptions clone_equal_independent.

(* pinned: the clone of a URL longer than the inline buffer fails with rv 1
   (allocation of dst->u_bufsz = 0 bytes) while the repaired clone succeeds *)
Theorem clone_long_refuted :
  exists u, url_parse fx_pinned no_resolver (long_url ++ [0]) = UVal u /\ buf_ok u /\
            url_clone false false u = UVal (1, None) /\ url_clone true true u = UVal (0, Some u).
Proof. exact clone_long_witness. Qed.
Print Assumptions clone_long_refuted.

(* pinned: the clone of ipc://a has a (wild) host-name pointer although the
   original's is NULL; following it leaves the allocation *)
Theorem clone_null_host_refuted :
  exists u c, url_parse fx_pinned no_resolver ([105; 112; 99; 58; 47; 47; 97] ++ [0]) = UVal u /\
              u_hostname u = None /\ url_clone false false u = UVal (0, Some c) /\
              is_wild (u_buf c) (u_hostname c) = true /\ url_view c = None.
Proof. exact clone_null_host_witness. Qed.
Print Assumptions clone_null_host_refuted.

(* ---- the literals of the model are those of the current source ---------- *)
Theorem url_consts_match :
  schemes = URL_SCHEMES /\ default_ports = URL_DEFAULT_PORTS /\
  path_only_schemes = URL_PATH_ONLY_SCHEMES /\ STATIC_SZ = URL_STATIC_SIZE /\ HOST_MAX = URL_HOST_MAX.
Proof. repeat split; reflexivity. Qed.
Print Assumptions url_consts_match.

(* ---- non-vacuity ------------------------------------------------------------ *)
Example utf8_nonvacuous : Forall byte_nz [226; 130; 172] /\ wf_utf8 [226; 130; 172].
Proof. split; [repeat constructor | apply wf_utf8b_iff; reflexivity]. Qed.

(* an accepted URL with userinfo, upper-case host, port, dot segments, a
   decodable escape, query and fragment, under the repaired flags *)
Example parse_nonvacuous :
  let s := [104;116;116;112;58;47;47;85;64;72;58;56;48;47;97;47;46;46;47;37;55;101;63;113;35;102] in
  nz s /\ exists u v, url_parse fx_repaired no_resolver (s ++ [0]) = UVal u /\ is_path_only (u_scheme u) = false /\
    url_view u = Some v /\ v_path v = [47; 126] /\ v_hostname v = Some [104] /\ v_port v = 80 /\
    v_userinfo v = Some [85] /\ v_query v = Some [113] /\ v_fragment v = Some [102].
Proof.
  cbv zeta. split.
  - unfold nz. repeat constructor.
  - vm_compute. eexists. eexists. repeat split.
Qed.
