(* Properties_C06: statements only.  C06 -- PUSH/PULL: each message to at most
   one puller, none lost while connected; back-pressure. *)
From Coq Require Import List Arith NArith Bool.
From NngV Require Import Gen.Consts Proto.Common Proto.PushModel Proto.PushGuard Proto.PullModel Proto.PushProofs Proto.PullProofs Proto.PipelineProofs.
Import ListNotations.

(* one step of the pusher (= one critical section of push.c), under the
   environment's contract op_ok (pipes started once, completions only for sends
   in flight, an aio submitted once at a time): invariants kept and, as
   multisets, owned + accepted (+ discarded input) = owned' + taken by the
   transport of exactly that pipe + freed -- nothing duplicated, nothing lost *)
Theorem push_conservation_step : forall s o s' outs,
  PInv s -> op_ok s o -> push_step s o = (s', outs) ->
  PInv s' /\ forall x, cnt x (owned s ++ accepted s o outs ++ arrived o) = cnt x (owned s' ++ wire s o ++ freed outs).
Proof. exact push_step_law. Qed.
Print Assumptions push_conservation_step.

(* every well-formed history, from any invariant state *)
Theorem push_conservation : forall ops s, PInv s -> WInv s -> ops_ok s ops ->
  let (s', tr) := push_run s ops in
  PInv s' /\ WInv s' /\ forall x, cnt x (owned s ++ tr_accepted tr) = cnt x (owned s' ++ tr_out tr).
Proof. exact push_run_law. Qed.
Print Assumptions push_conservation.

(* messages are handed to the transports in exactly the order they were
   accepted (hence in send order on every connection), for every step that is
   not a buffer resize *)
Theorem push_per_pipe_fifo : forall s o s' outs,
  PInv s -> op_ok s o -> (forall c op, o <> PSetOpt c op) ->
  push_step s o = (s', outs) ->
  ps_wq s ++ accepted s o outs = txs outs ++ ps_wq s'.
Proof. exact push_order_law. Qed.
Print Assumptions push_per_pipe_fifo.

(* back-pressure: with no ready pipe and a full buffer a blocking send is queued
   (no completion, nothing transmitted, nothing dropped) ... *)
Theorem push_blocks_when_full : forall s c a m,
  can_accept s = false ->
  push_step s (PSend c a false m) = (mkPush (ps_pl s) (ps_wq s) (ps_cap s) (ps_aq s ++ [(a, m)]) (ps_sending s) (ps_writable s), []).
Proof. exact push_backpressure. Qed.
Print Assumptions push_blocks_when_full.

(* ... and a non-blocking send completes at once: with NNG_EAGAIN, no change of
   state and the message left with the caller, exactly when it cannot be
   accepted; otherwise with success *)
Theorem push_nonblocking_send : forall s c a m s' outs,
  push_step s (PSend c a true m) = (s', outs) ->
  exists rv rest, outs = Complete a rv None :: rest /\ ps_aq s' = ps_aq s /\
    (rv = E_AGAIN <-> can_accept s = false) /\ (rv = E_AGAIN -> s' = s /\ rest = []) /\
    (rv <> E_AGAIN -> rv = E_OK).
Proof. exact push_nb_immediate. Qed.
Print Assumptions push_nonblocking_send.

(* the puller: invariants, conservation (held + arrived = held' + delivered + freed),
   and delivery in arrival order for every step other than a pipe close *)
Theorem pull_conservation_step : forall s o s' outs,
  LInvP s -> pull_step s o = (s', outs) ->
  LInvP s' /\
  (forall x, cnt x (lheld s ++ arrived o) = cnt x (lheld s' ++ delivered outs ++ freed outs)) /\
  ((forall p, o <> PPipeClose p) -> (forall p m, o = PRecvDone p 0 m -> has_id p (pl_closed s) = false) ->
     lheld s ++ arrived o = delivered outs ++ lheld s').
Proof. exact pull_step_law. Qed.
Print Assumptions pull_conservation_step.

Theorem pull_conservation : forall ops s, LInvP s ->
  let (s', tr) := pull_run s ops in
  LInvP s' /\ forall x, cnt x (lheld s ++ ptr_arrived tr) = cnt x (lheld s' ++ ptr_delivered tr ++ ptr_freed tr).
Proof. exact pull_run_law. Qed.
Print Assumptions pull_conservation.

(* end to end: one pusher, any number of pullers, each behind a connection
   that stays up and loses nothing (the link law, the only hypothesis about the
   environment besides the contract op_ok): every accepted message is, as a
   multiset, delivered to exactly one pulling application, or still buffered /
   in flight / held, or was explicitly freed (buffer shrink, failed transport
   send, pipe close).  Stated with Section variables; see PipelineProofs. *)
Theorem pushpull_conservation :
  forall (push_ops : list pop) (pipes : list N) (pull_ops : N -> list pop) (inflight : N -> list pmsg),
    ops_ok push_init push_ops -> NoDup pipes ->
    (forall o s outs q rv, In (o, s, outs) (snd (push_run push_init push_ops)) -> o = PSendDone q rv -> wire s o <> [] -> In q pipes) ->
    (forall p x, In p pipes ->
       cnt x (wire_on p (snd (push_run push_init push_ops))) =
       cnt x (ptr_arrived (snd (pull_run pull_init (pull_ops p)))) + cnt x (inflight p)) ->
    forall x,
    cnt x (tr_accepted (snd (push_run push_init push_ops))) =
      sumf pipes (fun p => cnt x (ptr_delivered (snd (pull_run pull_init (pull_ops p)))))
      + cnt x (owned (fst (push_run push_init push_ops))) + sumf pipes (fun p => cnt x (inflight p))
      + sumf pipes (fun p => cnt x (lheld (fst (pull_run pull_init (pull_ops p)))))
      + cnt x (tr_freed (snd (push_run push_init push_ops)))
      + sumf pipes (fun p => cnt x (ptr_freed (snd (pull_run pull_init (pull_ops p))))).
Proof. exact pipeline_conservation. Qed.
Print Assumptions pushpull_conservation.

Theorem pushpull_init_invariants : (PInv push_init /\ WInv push_init) /\ LInvP pull_init.
Proof. split; [exact push_init_inv|exact pull_init_inv]. Qed.
Print Assumptions pushpull_init_invariants.

(* push.c as it is now (fix 8475361): the model run against the code is PushGuard.push0_step =
   push_step with the closed-pipe guard; outside the successful send completion of a closed pipe
   it IS push_step, so every theorem above is about the code as it is *)
Theorem push_guard_is_push_step : forall fc g o, stale_done g o = false ->
  pg_s (fst (push_step_g fc g o)) = fst (push_step (pg_s g) o) /\ snd (push_step_g fc g o) = snd (push_step (pg_s g) o).
Proof. intros fc g o H. exact (proj2 (PushGuard_contract fc g o H)). Qed.
Print Assumptions push_guard_is_push_step.
(* a pipe whose pipe_close has run is never on the ready list again (so no message is handed to
   a pipe that is being destroyed), over every history in which pipe ids are not reused *)
Theorem push_closed_pipe_never_ready : forall ops g, CInv g -> fresh_all true g ops -> CInv (push_run_g true g ops).
Proof. exact push_closed_never_ready. Qed.
Print Assumptions push_closed_pipe_never_ready.
Theorem push_closed_pipe_ready_pinned_refuted :
  let g := push_run_g false pushg_init push_stale_witness in
  fresh_all false pushg_init push_stale_witness /\ In 1%N (pg_closed g) /\ In 1%N (ps_pl (pg_s g)) /\
  exists g' rest, push_step_g false g (PSend None 2%N true (mkPmsg [] [2%N])) = (g', Complete 2%N E_OK None :: TranSend 1%N (mkPmsg [] [2%N]) :: rest).
Proof. exact push_closed_pipe_ready_refuted. Qed.
Print Assumptions push_closed_pipe_ready_pinned_refuted.
Theorem push_current_source_guarded : C06_PUSH_CLOSED_GUARD_FIXED = true /\ push0_step = push_step_g true.
Proof. split; reflexivity. Qed.
Print Assumptions push_current_source_guarded.

(* non-vacuity: a concrete well-formed history moves a message end to end *)
Example push_history_nonvacuous :
  ops_ok push_init [PSetOpt None (OSendBuf 2); PSend None 1%N true (mkPmsg [] [7%N]); PPipeStart 5%N PROTO_PULL; PSendDone 5%N 0%N] /\
  tr_out (snd (push_run push_init [PSetOpt None (OSendBuf 2); PSend None 1%N true (mkPmsg [] [7%N]); PPipeStart 5%N PROTO_PULL; PSendDone 5%N 0%N])) = [mkPmsg [] [7%N]].
Proof. split; [cbn; repeat split; auto; tauto|vm_compute; reflexivity]. Qed.
