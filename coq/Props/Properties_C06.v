(* Properties_C06: statements only.  C06 -- PUSH/PULL: each message to at most
   one puller, none lost while connected; back-pressure. *)
From Coq Require Import List Arith NArith Bool.
From NngV Require Import Gen.Consts Proto.Common Proto.PushModel Proto.PushGuard Proto.PullModel Proto.PushProofs Proto.PullProofs Proto.PipelineProofs Proto.PushSubmit.
Import ListNotations.

(* one step of the pusher (= one critical section of push.c), under the
   environment's contract op_ok (pipes started once, completions only for sends
   in flight, an aio submitted once at a time): invariants kept and, as
   multisets, owned + accepted (+ discarded input) = owned' + taken by the
   transport of exactly that pipe + freed -- nothing duplicated, nothing lost *)
Theorem push_conservation_step : forall s o s' outs,
  PInv s -> op_ok s o -> push_step s o = (s', outs) ->
  PInv s' /\ forall x, cnt x (owned s ++ accepted s o outs ++ arrived o) = cnt x (owned s' ++ wire s o ++ freed outs).
Proof. exact push_step_law. Qed.
Print Assumptions push_conservation_step.

(* every well-formed history, from any invariant state *)
Theorem push_conservation : forall ops s, PInv s -> WInv s -> ops_ok s ops ->
  let (s', tr) := push_run s ops in
  PInv s' /\ WInv s' /\ forall x, cnt x (owned s ++ tr_accepted tr) = cnt x (owned s' ++ tr_out tr).
Proof. exact push_run_law. Qed.
Print Assumptions push_conservation.

(* messages are handed to the transports in exactly the order they were
   ACCEPTED into the buffer, for every step that is not a buffer resize.  (Kept from round 1; it says
   nothing about the order among blocked senders -- the property's "send order" is the submission-order
   law further down.) *)
Theorem push_per_pipe_fifo : forall s o s' outs,
  PInv s -> op_ok s o -> (forall c op, o <> PSetOpt c op) ->
  push_step s o = (s', outs) ->
  ps_wq s ++ accepted s o outs = txs outs ++ ps_wq s'.
Proof. exact push_order_law. Qed.
Print Assumptions push_per_pipe_fifo.

(* back-pressure: with no ready pipe and a full buffer a blocking send is queued
   (no completion, nothing transmitted, nothing dropped) ... *)
Theorem push_blocks_when_full : forall s c a m,
  can_accept s = false ->
  push_step s (PSend c a false m) = (mkPush (ps_pl s) (ps_wq s) (ps_cap s) (ps_aq s ++ [(a, m)]) (ps_sending s) (ps_writable s), []).
Proof. exact push_backpressure. Qed.
Print Assumptions push_blocks_when_full.

(* ... and a non-blocking send completes at once: with NNG_EAGAIN, no change of
   state and the message left with the caller, exactly when it cannot be
   accepted; otherwise with success *)
Theorem push_nonblocking_send : forall s c a m s' outs,
  push_step s (PSend c a true m) = (s', outs) ->
  exists rv rest, outs = Complete a rv None :: rest /\ ps_aq s' = ps_aq s /\
    (rv = E_AGAIN <-> can_accept s = false) /\ (rv = E_AGAIN -> s' = s /\ rest = []) /\
    (rv <> E_AGAIN -> rv = E_OK).
Proof. exact push_nb_immediate. Qed.
Print Assumptions push_nonblocking_send.

(* the puller: invariants, conservation (held + arrived = held' + delivered + freed),
   and delivery in arrival order for every step other than a pipe close *)
Theorem pull_conservation_step : forall s o s' outs,
  LInvP s -> pull_step s o = (s', outs) ->
  LInvP s' /\
  (forall x, cnt x (lheld s ++ arrived o) = cnt x (lheld s' ++ delivered outs ++ freed outs)) /\
  ((forall p, o <> PPipeClose p) -> (forall p m, o = PRecvDone p 0 m -> has_id p (pl_closed s) = false) ->
     lheld s ++ arrived o = delivered outs ++ lheld s').
Proof. exact pull_step_law. Qed.
Print Assumptions pull_conservation_step.

Theorem pull_conservation : forall ops s, LInvP s ->
  let (s', tr) := pull_run s ops in
  LInvP s' /\ forall x, cnt x (lheld s ++ ptr_arrived tr) = cnt x (lheld s' ++ ptr_delivered tr ++ ptr_freed tr).
Proof. exact pull_run_law. Qed.
Print Assumptions pull_conservation.

(* end to end: one pusher, any number of pullers, each behind a connection
   that stays up and loses nothing (the link law, the only hypothesis about the
   environment besides the contract op_ok): every accepted message is, as a
   multiset, delivered to exactly one pulling application, or still buffered /
   in flight / held, or was explicitly freed (buffer shrink, failed transport
   send, pipe close).  Stated with Section variables; see PipelineProofs. *)
Theorem pushpull_conservation :
  forall (push_ops : list pop) (pipes : list N) (pull_ops : N -> list pop) (inflight : N -> list pmsg),
    ops_ok push_init push_ops -> NoDup pipes ->
    (forall o s outs q rv, In (o, s, outs) (snd (push_run push_init push_ops)) -> o = PSendDone q rv -> wire s o <> [] -> In q pipes) ->
    (forall p x, In p pipes ->
       cnt x (wire_on p (snd (push_run push_init push_ops))) =
       cnt x (ptr_arrived (snd (pull_run pull_init (pull_ops p)))) + cnt x (inflight p)) ->
    forall x,
    cnt x (tr_accepted (snd (push_run push_init push_ops))) =
      sumf pipes (fun p => cnt x (ptr_delivered (snd (pull_run pull_init (pull_ops p)))))
      + cnt x (owned (fst (push_run push_init push_ops))) + sumf pipes (fun p => cnt x (inflight p))
      + sumf pipes (fun p => cnt x (lheld (fst (pull_run pull_init (pull_ops p)))))
      + cnt x (tr_freed (snd (push_run push_init push_ops)))
      + sumf pipes (fun p => cnt x (ptr_freed (snd (pull_run pull_init (pull_ops p))))).
Proof. exact pipeline_conservation. Qed.
Print Assumptions pushpull_conservation.

Theorem pushpull_init_invariants : (PInv push_init /\ WInv push_init) /\ LInvP pull_init.
Proof. split; [exact push_init_inv|exact pull_init_inv]. Qed.
Print Assumptions pushpull_init_invariants.

(* push.c as it is now: the model run against the code is PushGuard.push0_step = push_step_g fc fr, i.e.
   push_step with the closed-pipe guard (fc, fix 8475361) and the text of push0_set_send_buf_len the source has
   (fr: blocked senders move into a resized buffer -- the repair of finding push-resize-overtakes-blocked).
   Outside the successful send completion of a closed pipe it is push_step_r fr; push_step_r fr is push_step on
   everything but NNG_OPT_SENDBUF, and with fr = false on that too -- so every theorem above is about the code
   as it is, and push_repaired_resize_keeps_laws carries conservation and the descriptor mirror over to fr = true *)
Theorem push_guard_is_push_step : forall fc fr g o, stale_done g o = false -> (fr = false \/ is_resize o = false) ->
  pg_s (fst (push_step_g fc fr g o)) = fst (push_step (pg_s g) o) /\ snd (push_step_g fc fr g o) = snd (push_step (pg_s g) o).
Proof. intros fc fr g o H R. exact (proj2 (PushGuard_contract fc fr g o H R)). Qed.
Print Assumptions push_guard_is_push_step.
Theorem push_guard_is_push_step_r : forall fc fr g o, stale_done g o = false ->
  pg_s (fst (push_step_g fc fr g o)) = fst (push_step_r fr (pg_s g) o) /\ snd (push_step_g fc fr g o) = snd (push_step_r fr (pg_s g) o).
Proof. exact PushGuard_contract_r. Qed.
Print Assumptions push_guard_is_push_step_r.
Theorem push_repaired_resize_keeps_laws : forall fr s o s' outs,
  PInv s -> op_ok s o -> push_step_r fr s o = (s', outs) ->
  (PInv s' /\ forall x, cnt x (owned s ++ accepted s o outs ++ arrived o) = cnt x (owned s' ++ wire s o ++ freed outs)) /\
  (WInv s -> WInv s').
Proof. intros fr s o s' outs HI Hok H. split; [exact (push_step_r_law fr s o s' outs HI Hok H)|intros W; exact (push_r_writable_mirror fr s o s' outs HI W H)]. Qed.
Print Assumptions push_repaired_resize_keeps_laws.
(* a pipe whose pipe_close has run is never on the ready list again (so no message is handed to
   a pipe that is being destroyed), over every history in which pipe ids are not reused *)
Theorem push_closed_pipe_never_ready : forall fr ops g, CInv g -> fresh_all true fr g ops -> CInv (push_run_g true fr g ops).
Proof. exact push_closed_never_ready. Qed.
Print Assumptions push_closed_pipe_never_ready.
Theorem push_closed_pipe_ready_pinned_refuted : forall fr,
  let g := push_run_g false fr pushg_init push_stale_witness in
  fresh_all false fr pushg_init push_stale_witness /\ In 1%N (pg_closed g) /\ In 1%N (ps_pl (pg_s g)) /\
  exists g' rest, push_step_g false fr g (PSend None 2%N true (mkPmsg [] [2%N])) = (g', Complete 2%N E_OK None :: TranSend 1%N (mkPmsg [] [2%N]) :: rest).
Proof. exact push_closed_pipe_ready_refuted. Qed.
Print Assumptions push_closed_pipe_ready_pinned_refuted.
Theorem push_current_source_guarded :
  C06_PUSH_CLOSED_GUARD_FIXED = true /\ push0_step = push_step_g true C06_PUSH_RESIZE_ADMITS_FIXED.
Proof. split; reflexivity. Qed.
Print Assumptions push_current_source_guarded.

(* ---------------- send order is SUBMISSION order ----------------
   pend s = send buffer ++ blocked senders (queue order); entered o outs = the message of a send that was not
   refused on the spot.  One step of the guarded model (any fc; fr = true, or any step that is not a
   NNG_OPT_SENDBUF call), from a state with QInv (a blocked sender => the buffer is full), under the contract
   op_ok: QInv is kept;  pend s ++ entered = handed to the transports ++ pend s'  exactly, unless the step removes
   submitted messages on purpose (sub_loss: the message of a cancelled / timed-out blocked send -- exactly that
   one --, the excess of a buffer shrink, the waiters at socket close); then the right side is an in-order
   sub-sequence of the left and the multisets differ by exactly sub_loss.
   (A buffer shrink drops the newest excess messages: nni_lmq_resize, documented and expected by push_test --
   outside the property, stated as sub_loss / freed, never silently.) *)
Theorem push_submission_order_step : forall fc fr g o g' outs,
  PInv (pg_s g) -> QInv (pg_s g) -> op_ok (pg_s g) o -> (fr = true \/ is_resize o = false) ->
  push_step_g fc fr g o = (g', outs) ->
  (QInv (pg_s g') /\
   (sub_loss (pg_s g) o = [] -> pend (pg_s g) ++ entered o outs = txs outs ++ pend (pg_s g')) /\
   sublist (txs outs ++ pend (pg_s g')) (pend (pg_s g) ++ entered o outs) /\
   (forall x, cnt x (pend (pg_s g) ++ entered o outs) = cnt x (txs outs ++ pend (pg_s g') ++ sub_loss (pg_s g) o))) /\
  PInv (pg_s g').
Proof. exact push_submission_step_g. Qed.
Print Assumptions push_submission_order_step.

(* every history: what reached the transports (all connections together, in hand-over order), then the buffer,
   then the blocked senders, is an in-order sub-sequence of the sends in the order they were submitted; with
   nothing removed on purpose the transmitted sequence is a PREFIX of the submitted one *)
Theorem push_submission_order : forall fc fr ops g,
  (fr = true \/ no_resize ops) -> PInv (pg_s g) -> QInv (pg_s g) -> ops_ok_g fc fr g ops ->
  let (g', tr) := push_run_gt fc fr g ops in
  PInv (pg_s g') /\ QInv (pg_s g') /\
  sublist (tr_tx tr ++ pend (pg_s g')) (pend (pg_s g) ++ tr_entered tr) /\
  (tr_subloss tr = [] -> tr_tx tr ++ pend (pg_s g') = pend (pg_s g) ++ tr_entered tr) /\
  (forall x, cnt x (pend (pg_s g) ++ tr_entered tr) = cnt x (tr_tx tr ++ pend (pg_s g') ++ tr_subloss tr)).
Proof. exact push_submission_order_law. Qed.
Print Assumptions push_submission_order.

(* the property's clause: what ONE connection carries is an in-order sub-sequence of the application's sends in
   submission order *)
Theorem push_per_connection_send_order : forall fc fr ops p g,
  (fr = true \/ no_resize ops) -> PInv (pg_s g) -> QInv (pg_s g) -> ops_ok_g fc fr g ops ->
  sublist (tr_tx_on p (snd (push_run_gt fc fr g ops))) (pend (pg_s g) ++ tr_entered (snd (push_run_gt fc fr g ops))).
Proof. exact push_per_pipe_submission_order. Qed.
Print Assumptions push_per_connection_send_order.

(* a cancelled / timed-out blocked send leaves with exactly its own message *)
Theorem push_cancel_removes_exactly_that_message : forall s a rv m,
  PInv s -> In (a, m) (ps_aq s) -> rv <> 0%N ->
  exists s', push_step s (PCancel a rv) = (s', [Complete a rv None]) /\
    ps_wq s' = ps_wq s /\ ps_aq s' = remove_aio a (ps_aq s) /\ sub_loss s (PCancel a rv) = [m] /\
    sublist (pend s') (pend s) /\ forall x, cnt x (pend s) = cnt x (pend s') + cnt x [m].
Proof. exact push_cancel_removes_only_that. Qed.
Print Assumptions push_cancel_removes_exactly_that_message.

(* the pinned push0_set_send_buf_len (fr = false): the law is FALSE once the buffer grows under blocked senders --
   sends 1 2 3 on one connection arrive as 3 1 2 (finding push-resize-overtakes-blocked; replayed on the
   implementation by checks/c06.py) -- and right after the resize senders are blocked although there is room *)
Theorem push_submission_order_pinned_resize_refuted : forall fc,
  ops_ok_g fc false pushg_init resize_witness /\
  let (g, tr) := push_run_gt fc false pushg_init resize_witness in
  tr_entered tr = [m_ 1; m_ 2; m_ 3] /\ tr_tx tr = [m_ 3; m_ 1; m_ 2] /\ tr_tx_on 1%N tr = tr_tx tr /\
  tr_subloss tr = [] /\ pend (pg_s g) = [] /\
  ~ sublist (tr_tx_on 1%N tr) (pend push_init ++ tr_entered tr).
Proof. exact push_submission_order_refuted_pinned. Qed.
Print Assumptions push_submission_order_pinned_resize_refuted.
Theorem push_blocked_sender_with_room_pinned_refuted : forall fc,
  let s := pg_s (fst (push_run_gt fc false pushg_init (firstn 3 resize_witness))) in
  ps_aq s <> [] /\ wq_full s = false /\ ps_writable s = true.
Proof. exact push_blocked_sender_not_full_refuted_pinned. Qed.
Print Assumptions push_blocked_sender_with_room_pinned_refuted.
Theorem push_submission_order_repaired_on_witness : forall fc,
  ops_ok_g fc true pushg_init resize_witness /\
  let (g, tr) := push_run_gt fc true pushg_init resize_witness in
  tr_tx tr = [m_ 1; m_ 2; m_ 3] /\ tr_entered tr = tr_tx tr /\ tr_subloss tr = [].
Proof. exact push_submission_order_on_resize_witness. Qed.
Print Assumptions push_submission_order_repaired_on_witness.

(* a pipe the protocol refuses at start (the peer is not a PULL socket) takes nothing: no receive armed, no
   message handed over, no completion, state untouched -- a message is never lost to a connection that was
   never valid *)
Theorem push_rejected_pipe_takes_nothing : forall fc fr g p peer,
  peer <> PROTO_PULL -> push_step_g fc fr g (PPipeStart p peer) = (g, [Reject E_PROTO]).
Proof. exact PushSubmit.push_rejected_pipe_takes_nothing. Qed.
Print Assumptions push_rejected_pipe_takes_nothing.
(* the numbers and the shape of push.c these statements rest on, read from the source on every run *)
Theorem push_source_shape :
  PROTO_PULL = C06_PUSH_PEER /\ PROTO_PUSH = C06_PUSH_SELF /\ C06_PUSH_BUF_MAX = 8192%N /\
  C06_PUSH_START_CHECKS_PEER_FIRST = true /\ C06_PUSH_WAITERS_FIFO = true.
Proof. exact push_consts_match. Qed.
Print Assumptions push_source_shape.

(* non-vacuity of the order laws: four senders blocked at once (SENDBUF 1) drained by one puller; a cancel in the
   middle of the queue; buffered + blocked messages surviving two wrong-protocol peers *)
Example push_submission_order_nonvacuous : forall fc fr,
  ops_ok_g fc fr pushg_init blocked_witness /\
  let (g, tr) := push_run_gt fc fr pushg_init blocked_witness in
  tr_entered tr = [m_ 1; m_ 2; m_ 3; m_ 4] /\ tr_tx tr = [m_ 1; m_ 2; m_ 3; m_ 4] /\ tr_tx_on 1%N tr = tr_tx tr /\
  tr_subloss tr = [] /\ pend (pg_s g) = [].
Proof. exact push_submission_order_on_blocked_witness. Qed.
Example push_cancel_nonvacuous : forall fc fr,
  ops_ok_g fc fr pushg_init cancel_witness /\
  let (g, tr) := push_run_gt fc fr pushg_init cancel_witness in
  tr_entered tr = [m_ 1; m_ 2; m_ 3; m_ 4] /\ tr_tx tr = [m_ 1; m_ 2; m_ 4] /\ tr_subloss tr = [m_ 3] /\ pend (pg_s g) = [].
Proof. exact push_submission_order_on_cancel_witness. Qed.
Example push_rejected_pipe_nonvacuous : forall fc fr,
  ops_ok_g fc fr pushg_init reject_witness /\
  let (g, tr) := push_run_gt fc fr pushg_init reject_witness in
  tr_tx_on 1%N tr = [] /\ tr_tx_on 2%N tr = [] /\ tr_tx_on 3%N tr = [m_ 1; m_ 2; m_ 3] /\ tr_entered tr = [m_ 1; m_ 2; m_ 3].
Proof. exact push_rejected_pipe_witness. Qed.
Example push_qinv_init : PInv (pg_s pushg_init) /\ QInv (pg_s pushg_init).
Proof. split; [exact (proj1 push_init_inv)|exact push_init_qinv]. Qed.

(* non-vacuity: a concrete well-formed history moves a message end to end *)
Example push_history_nonvacuous :
  ops_ok push_init [PSetOpt None (OSendBuf 2); PSend None 1%N true (mkPmsg [] [7%N]); PPipeStart 5%N PROTO_PULL; PSendDone 5%N 0%N] /\
  tr_out (snd (push_run push_init [PSetOpt None (OSendBuf 2); PSend None 1%N true (mkPmsg [] [7%N]); PPipeStart 5%N PROTO_PULL; PSendDone 5%N 0%N])) = [mkPmsg [] [7%N]].
Proof. split; [cbn; repeat split; auto; tauto|vm_compute; reflexivity]. Qed.
