(* Properties_C04: statements only.  C04 -- REQ/REP: replies reach only the
   matching outstanding request; REP answers the origin of the request it most
   recently received, once; out-of-order use fails with NNG_ESTATE.
   Models: Proto/ReqModel.v (req.c), RepModel.v (rep.c), XReqModel.v (xreq.c +
   msgqueue.c entry points), XRepModel.v (xrep.c), ReqRepBacktrace.v (headers).
   The models take the repairs present in the source as boolean parameters
   (rfix / pfix / mqfix, read from Gen/Consts.v by the driver); theorems are
   stated for every value of the parameters unless they say otherwise;
   `..._refuted_w' are vm_compute witnesses on the pinned variant and
   `..._repaired_w' the same history on the repaired variant. *)
From Coq Require Import List Arith NArith Bool ZArith.
From NngV Require Import Gen.Consts Proto.Common Proto.ReqRepBacktrace Proto.ReqModel Proto.RepModel Proto.XReqModel Proto.XRepModel
  Proto.ReqRepProofs Proto.ReqProofs Proto.RepProofs Proto.XReqRepProofs Proto.ReqIdsProofs.
From NngV Require Proto.PollModel Proto.PollReq Proto.PollRepX.
Import ListNotations.

(* ---- REQ ---- *)
(* a transport completion hands a message to the application only if the arriving
   id is registered (live) for that context -- `matchable': requests[id] = k, the
   request has been handed to a pipe (no send aio), no reply is stashed -- and the
   context has a receive posted; the message is the wire message minus the id *)
Theorem req_reply_only_matching : forall fx s p rv m s' outs a b,
  req_step fx s (PRecvDone p rv m) = (s', outs) ->
  In (Complete a E_OK (Some b)) outs ->
  rv = 0%N /\ exists id k c, req_recv (pm_body m) = Some (id, b) /\ matchable s id k c /\ cx_recv c = Some a.
Proof. exact req_recvdone_delivery. Qed.
Print Assumptions req_reply_only_matching.

(* the only other way a reply reaches the application: a receive posted after a
   matching reply was stashed; and a stash is created by a matching reply only *)
Theorem req_reply_only_matching_stash :
  (forall s k c a nb s' outs b, req_ctx_recv s k c a nb = (s', outs) -> In (Complete a E_OK (Some b)) outs ->
     cx_rep c = Some b /\ cx_recv c = None) /\
  (forall fx s p m s' outs k c' b, req_step fx s (PRecvDone p 0 m) = (s', outs) ->
     ctx_get s' k = Some c' -> cx_rep c' = Some b ->
     (exists c, ctx_get s k = Some c /\ cx_rep c = Some b) \/
     (exists id c, req_recv (pm_body m) = Some (id, b) /\ matchable s id k c /\ cx_recv c = None)).
Proof.
  split; [exact req_recv_delivery|].
  intros fx s p m s' outs k c' b H. eapply req_recvdone_stash; eauto.
Qed.
Print Assumptions req_reply_only_matching_stash.

(* at most once: a match retires the id and empties the context, so a duplicate
   (or any later reply with that id) finds nothing to match *)
Theorem req_at_most_once : forall fx s p m s' outs id b k c,
  req_step fx s (PRecvDone p 0 m) = (s', outs) ->
  req_recv (pm_body m) = Some (id, b) -> matchable s id k c ->
  lookup id (rq_ids s') = None /\
  (forall p' m', req_recv (pm_body m') = Some (id, b) ->
     req_step fx s' (PRecvDone p' 0 m') = (s', [TranRecv p'; Free b])) /\
  exists c', ctx_get s' k = Some c' /\ cx_rid c' = 0%N /\ cx_req c' = None /\ cx_recv c' = None /\
             (cx_recv c = None -> cx_rep c' = Some b) /\
             (forall a, cx_recv c = Some a -> In (Complete a E_OK (Some b)) outs /\ cx_rep c' = None).
Proof.
  intros fx s p m s' outs id b k c H ER HM.
  destruct (req_match_consumes fx s p m s' outs id b k c H ER HM) as [H1 H2].
  split; [exact H1|]. split; [|exact H2].
  intros p' m' ER'. apply (proj2 (req_discard_silent fx s' p' m') id b ER').
  unfold matchable_b. now rewrite H1.
Qed.
Print Assumptions req_at_most_once.

(* a discarded reply -- stale, duplicate, another context's already answered id,
   unknown id, id without the high bit, reply before the request is on the wire,
   reply for a context that already holds one: every case is `matchable_b = false'
   -- changes no context (nothing at all) and emits nothing but the re-armed
   receive and Free; a reply shorter than an id disconnects its sender *)
Theorem req_discard_is_silent : forall fx s p m,
  (req_recv (pm_body m) = None -> req_step fx s (PRecvDone p 0 m) = (s, [Free m; ClosePipe p])) /\
  (forall id m', req_recv (pm_body m) = Some (id, m') -> matchable_b s id = false ->
     req_step fx s (PRecvDone p 0 m) = (s, [TranRecv p; Free m'])).
Proof. exact req_discard_silent. Qed.
Print Assumptions req_discard_is_silent.

Theorem req_discard_cases : forall s id,
  (lookup id (rq_ids s) = None -> matchable_b s id = false) /\                                   (* unknown / stale / duplicate / no high bit *)
  (forall k c sa, lookup id (rq_ids s) = Some k -> ctx_get s k = Some c -> cx_send c = Some sa -> matchable_b s id = false) /\   (* not yet on the wire *)
  (forall k c r, lookup id (rq_ids s) = Some k -> ctx_get s k = Some c -> cx_rep c = Some r -> matchable_b s id = false).       (* already has a reply *)
Proof.
  intros s id. unfold matchable_b. split; [intros ->; reflexivity|]. split.
  - intros k c sa -> -> ->. reflexivity.
  - intros k c r -> -> ->. destruct (cx_send c); reflexivity.
Qed.
Print Assumptions req_discard_cases.

(* state errors as coded: receive with nothing outstanding => ESTATE; second
   concurrent receive => ESTATE (no change of state); with the conn_reset mark
   both report ECONNRESET once; a new request cancels the old send / receive pair
   with ECANCELED *)
Theorem req_state_errors :
  (forall s k c a nb, cx_recv c = None -> cx_req c = None -> cx_rep c = None -> cx_creset c = false ->
     req_ctx_recv s k c a nb = (s, [Complete a E_STATE None])) /\
  (forall s k c a nb ra, cx_recv c = Some ra -> cx_creset c = false ->
     req_ctx_recv s k c a nb = (s, [Complete a E_STATE None])) /\
  (forall s k c a nb, (cx_recv c <> None \/ (cx_req c = None /\ cx_rep c = None)) -> cx_creset c = true ->
     exists s', req_ctx_recv s k c a nb = (s', [Complete a E_CONNRESET None]) /\
                exists c', ctx_get s' k = Some c' /\ cx_creset c' = false) /\
  (forall fx s k c a nb m s' outs cl, rq_closed s = false -> req_ctx_send fx s k c a nb m = (s', outs, cl) ->
     (forall ra, cx_recv c = Some ra -> In (Complete ra E_CANCELED None) outs) /\
     (forall sa, cx_send c = Some sa -> In (Complete sa E_CANCELED None) outs)).
Proof.
  split; [exact req_recv_before_send|]. split; [exact req_second_recv|]. split; [exact req_recv_connreset|exact req_send_cancels_old].
Qed.
Print Assumptions req_state_errors.

(* ---- which ids are registered (live) ---- *)
(* `registered' above means: the request the context holds NOW.  In every state
   reachable from req_init (any history of entry points, callbacks, ticks; op_ok: a
   context number is not opened twice while open) the id map holds, for a context,
   exactly the id of the request message it currently holds -- whose header is that
   id.  Ids are allocated at send time, also for requests that never reach the wire
   (id_alloc: cursor, skip of live ids, wrap -- nni_id_alloc). *)
Theorem req_registered_ids_are_current : forall fx s id k,
  req_reach fx s -> lookup id (rq_ids s) = Some k ->
  exists c r, ctx_get s k = Some c /\ cx_rid c = id /\ cx_req c = Some r /\ pm_hdr r = be32 id /\ cursor_ok id.
Proof. exact req_registered_is_current. Qed.
Print Assumptions req_registered_ids_are_current.
(* hence a request that was abandoned -- send cancelled / timed out / replaced by a
   new send / its receive cancelled / context closed, before or after it reached the
   wire; a refused non-blocking send; an answered request -- leaves no id behind: a
   context without a request message, and a context that is gone, own no id, so a
   reply naming such an id (ids are consecutive, hence predictable) is discarded
   (req_discard_cases, first clause) *)
Theorem req_abandoned_request_leaves_no_id : forall fx s k,
  req_reach fx s -> (ctx_get s k = None \/ exists c, ctx_get s k = Some c /\ cx_req c = None) ->
  forall id, lookup id (rq_ids s) <> Some k.
Proof. exact req_no_request_no_id. Qed.
Print Assumptions req_abandoned_request_leaves_no_id.
(* delivery, full form: only to the context whose current request carries the arriving
   id, after that request has left the send queue, and before any reply was taken *)
Theorem req_reply_only_current_request : forall fx s p rv m s' outs a b,
  req_reach fx s -> req_step fx s (PRecvDone p rv m) = (s', outs) -> In (Complete a E_OK (Some b)) outs ->
  exists id k c r, req_recv (pm_body m) = Some (id, b) /\ ctx_get s k = Some c /\ cx_recv c = Some a /\
    cx_rid c = id /\ cx_req c = Some r /\ pm_hdr r = be32 id /\ cx_send c = None /\ cx_rep c = None.
Proof. exact req_reply_current. Qed.
Print Assumptions req_reply_only_current_request.
Theorem req_ids_invariant_step : forall fx s o s' outs,
  ids_inv s -> op_ok s o -> req_step fx s o = (s', outs) -> ids_inv s' /\ tx_ok outs.
Proof. exact req_step_inv. Qed.
Print Assumptions req_ids_invariant_step.
(* whatever header the application leaves on the message: what a step hands to a
   transport is one request id followed by the body, and the step does not depend on
   that header at all *)
Theorem req_wire_is_id_then_body : forall fx s o s' outs p x,
  req_reach fx s -> op_ok s o -> req_step fx s o = (s', outs) -> In (TranSend p x) outs ->
  exists id, cursor_ok id /\ pm_hdr x = be32 id /\ wire_of x = be32 id ++ pm_body x.
Proof. exact req_step_tx. Qed.
Print Assumptions req_wire_is_id_then_body.
Theorem req_send_ignores_app_header : forall fx s c a nb h h' b,
  req_step fx s (PSend c a nb (mkPmsg h b)) = req_step fx s (PSend c a nb (mkPmsg h' b)).
Proof. exact req_send_header_independent. Qed.
Print Assumptions req_send_ignores_app_header.
(* witness (non-vacuity): a send queued for want of a pipe and cancelled; the peer
   names its never-transmitted id REQ_ID_MIN+1: ignored; the reply to the next request
   (sent with a 4-byte application header, transmitted as id REQ_ID_MIN+2 ++ body) is
   delivered once *)
Theorem req_abandoned_id_witness :
  let outs := outs_of (snd (req_run fx_repaired req_init w_abandon)) in
  nth 1 outs [] = [Complete 0%N E_CANCELED None] /\
  nth 3 outs [] = [Complete 1%N E_OK None; TranSend 1%N (mkPmsg (be32 (REQ_ID_MIN + 2)) [170%N; 2%N])] /\
  nth 5 outs [] = [TranRecv 1%N; Free (mkPmsg [] [187%N])] /\
  nth 6 outs [] = [TranRecv 1%N; Free (mkPmsg (be32 (REQ_ID_MIN + 2)) [170%N; 2%N]); Complete 2%N E_OK (Some (mkPmsg [] [188%N]))] /\
  nth 7 outs [] = [TranRecv 1%N; Free (mkPmsg [] [189%N])].
Proof. exact req_abandoned_id_w. Qed.
Print Assumptions req_abandoned_id_witness.

(* ids: what nni_id_alloc hands out is not registered (fresh among live requests)
   and lies in 0x80000000..0xffffffff; the cursor stays in range *)
Theorem req_id_fresh : forall f ids cur id cur',
  id_alloc f ids cur = Some (id, cur') -> cursor_ok cur ->
  lookup id ids = None /\ cursor_ok id /\ cursor_ok cur'.
Proof. exact id_alloc_fresh. Qed.
Print Assumptions req_id_fresh.

(* ---- ownership of the request message (C03 clause threaded through ReqModel) ---- *)
(* pinned req.c: clone and free are keyed on the current ctx->retry.  Three
   histories: the reference balance of the request goes negative (use after free /
   double free), stays positive with no pointer left (leak), goes negative on a
   timer resend *)
Theorem req_clone_policy_refuted :
  (let '(bal, ok, s) := ledger fx_pinned w_wire req_init w_uaf 0%Z true in ok = false) /\
  (let '(bal, ok, s) := ledger fx_pinned w_wire req_init w_leak 0%Z true in (0 < bal)%Z /\ n_pointers w_wire s = 0) /\
  (let '(bal, ok, s) := ledger fx_pinned w_wire req_init w_resend 0%Z true in ok = false).
Proof. exact req_clone_policy_refuted_w. Qed.
Print Assumptions req_clone_policy_refuted.
(* repaired req.c (per-request snapshot req_retry): the same histories balance.
   PARTIAL: the general conservation law (balance = number of owned pointers for
   every history) is not proved; the repaired policy is checked on these
   histories and by the correspondence runs under ASan/LSan only. *)
Theorem req_ledger_balanced_partial :
  (let '(bal, ok, s) := ledger fx_repaired w_wire req_init w_uaf 0%Z true in ok = true /\ bal = 0%Z /\ n_pointers w_wire s = 0) /\
  (let '(bal, ok, s) := ledger fx_repaired w_wire req_init w_leak 0%Z true in ok = true /\ bal = 0%Z /\ n_pointers w_wire s = 0) /\
  (let '(bal, ok, s) := ledger fx_repaired w_wire req_init w_resend 0%Z true in ok = true /\ bal = Z.of_nat (n_pointers w_wire s)).
Proof. exact req_clone_policy_repaired_w. Qed.
Print Assumptions req_ledger_balanced_partial.

(* the other pinned defects of req.c as witnesses, with the repaired behaviour *)
Theorem req_cancel_send_orphans_recv_refuted :
  nth 2 (outs_of (snd (req_run fx_pinned req_init w_cancel))) [] = [Complete 0%N E_CANCELED None] /\
  exists c, ctx_get (fst (req_run fx_pinned req_init w_cancel)) 0%N = Some c /\ cx_recv c = Some 1%N /\ cx_req c = None.
Proof. exact req_cancel_send_orphans_recv_refuted_w. Qed.
Print Assumptions req_cancel_send_orphans_recv_refuted.
Theorem req_cancel_send_repaired :
  nth 2 (outs_of (snd (req_run fx_repaired req_init w_cancel))) [] = [Complete 1%N E_CANCELED None; Complete 0%N E_CANCELED None].
Proof. exact req_cancel_send_repaired_w. Qed.
Print Assumptions req_cancel_send_repaired.

(* ---- REQ: non-blocking calls and poll descriptors (C15 clauses) ---- *)
Theorem req_nonblocking_recv : forall s k c a,
  exists rv mo s', req_ctx_recv s k c a true = (s', [Complete a rv mo]) /\
    (rv = E_AGAIN -> s' = s /\ mo = None /\ cx_recv c = None /\ cx_req c <> None /\ cx_rep c = None) /\
    (cx_recv c = None -> cx_req c <> None -> cx_rep c = None -> rv = E_AGAIN) /\
    (cx_recv c = None -> forall m, cx_rep c = Some m -> rv = E_OK /\ mo = Some m).
Proof. exact req_nb_recv. Qed.
Print Assumptions req_nonblocking_recv.
(* a refused non-blocking send is not a no-op in either variant: it has cancelled
   the context's previous request (by design of req0_ctx_send) *)
Theorem req_nb_send_state_unchanged_refuted : forall fx, fx = fx_pinned \/ fx = fx_repaired ->
  nth 5 (outs_of (snd (req_run fx req_init w_nbsend))) [] = [Free (mkPmsg [] [187%N]); Complete 9%N E_AGAIN None] /\
  nth 6 (outs_of (snd (req_run fx req_init w_nbsend))) [] = [Complete 9%N E_STATE None].
Proof. exact req_nb_send_state_refuted_w. Qed.
Print Assumptions req_nb_send_state_unchanged_refuted.
Theorem req_poll_mirror_refuted :
  let s := fst (req_run fx_pinned req_init w_rdpoll) in
  poll_r (req_poll s) = Some true /\ req_step fx_pinned s (PRecv None 9%N true) = (s, [Complete 9%N E_AGAIN None]).
Proof. exact req_poll_mirror_refuted_w. Qed.
Print Assumptions req_poll_mirror_refuted.
Theorem req_poll_mirror_repaired_witness :
  let s := fst (req_run fx_repaired req_init w_rdpoll) in poll_r (req_poll s) = Some false.
Proof. exact req_poll_mirror_repaired_w. Qed.
Print Assumptions req_poll_mirror_repaired_witness.
(* ... and over ALL reachable states of the repaired model (fx_rdclr = true): the mirror clause of C15 in the
   uniform interface of Proto/PollModel.v (would succeed => descriptor raised; raised => not NNG_EAGAIN), both
   descriptors; the invariant is PollReq.RInv (proved there, restated here because the clause is C04's too) *)
Theorem req_poll_mirror_holds : forall fx, fx_rdclr fx = true -> PollModel.C15_mirror (PollReq.M_req fx).
Proof. exact PollReq.req_c15_mirror. Qed.
Print Assumptions req_poll_mirror_holds.

(* ---- REP ---- *)
(* TranSend p x out of rep0_ctx_send only with p = origin pipe and header =
   backtrace of the request the context holds (the one it received last:
   rep_recv_records), body = the caller's; the slot is consumed, so a second send
   fails with ESTATE (rep_send_before_recv_estate) *)
Theorem rep_reply_to_origin_once : forall pf s k c a nb m s' outs p x,
  rep_ctx_send pf s k c a nb m = (s', outs) -> In (TranSend p x) outs ->
  p = rc_pipe c /\ x = rep_send (rc_bt c) m /\ rc_bt c <> [] /\
  exists c', rp_get s' k = Some c' /\ rc_bt c' = [] /\ rc_pipe c' = 0%N.
Proof. exact rep_send_to_origin. Qed.
Print Assumptions rep_reply_to_origin_once.
(* rep0_ctx_send begins with nni_msg_header_clear: for ANY header h the application
   leaves on the reply, what goes to the pipe is backtrace ++ body (at once, or from
   ctx->saio when the pipe was busy), and the whole step is independent of h *)
Theorem rep_reply_wire_is_backtrace_then_body :
  (forall pf s k c a nb h b s' outs p x,
     rep_ctx_send pf s k c a nb (mkPmsg h b) = (s', outs) -> In (TranSend p x) outs ->
     p = rc_pipe c /\ pm_hdr x = rc_bt c /\ pm_body x = b /\ wire_of x = rc_bt c ++ b) /\
  (forall pf s k c a h b s', rep_ctx_send pf s k c a false (mkPmsg h b) = (s', []) ->
     exists c', rp_get s' k = Some c' /\ rc_saio c' = Some (a, mkPmsg (rc_bt c) b)).
Proof. split; [exact rep_reply_wire|exact rep_reply_wire_queued]. Qed.
Print Assumptions rep_reply_wire_is_backtrace_then_body.
Theorem rep_send_ignores_app_header : forall pf s c a nb h h' b,
  rep_step pf s (PSend c a nb (mkPmsg h b)) = rep_step pf s (PSend c a nb (mkPmsg h' b)).
Proof. exact rep_send_header_independent. Qed.
Print Assumptions rep_send_ignores_app_header.
Theorem rep_reply_to_origin_queued :
  (forall pf s k c a m s', rep_ctx_send pf s k c a false m = (s', []) ->
     rp_sendq s' = rp_sendq s ++ [(rc_pipe c, k)] /\
     exists c', rp_get s' k = Some c' /\ rc_saio c' = Some (a, rep_send (rc_bt c) m) /\ rc_bt c' = [] /\ rc_pipe c' = 0%N) /\
  (forall pf s p k c a m, first_on p (rp_sendq s) = Some k -> rp_get s k = Some c -> rc_saio c = Some (a, m) ->
     exists s', rep_step pf s (PSendDone p 0) = (s', [TranSend p m; Complete a E_OK None])).
Proof. split; [exact rep_send_queued|exact rep_senddone_transmits_queued]. Qed.
Print Assumptions rep_reply_to_origin_queued.
Theorem rep_remembers_last_request : forall pf s k c a nb p m rest,
  rp_holding s = (p, m) :: rest ->
  exists s', rep_ctx_recv pf s k c a nb = (s', [TranRecv p; Complete a E_OK (Some (rep_deliver m))]) /\
             exists c', rp_get s' k = Some c' /\ rc_pipe c' = p /\ rc_bt c' = pm_hdr m.
Proof. exact rep_recv_records. Qed.
Print Assumptions rep_remembers_last_request.
Theorem rep_send_before_recv_estate : forall pf s k c a nb m,
  rc_bt c = [] -> exists s', rep_ctx_send pf s k c a nb m = (s', [Complete a E_STATE None]).
Proof. exact rep_send_without_request. Qed.
Print Assumptions rep_send_before_recv_estate.
Theorem rep_second_recv_estate : forall pf s k c a r,
  rp_holding s = [] -> rc_raio c = Some r -> rep_ctx_recv pf s k c a false = (s, [Complete a E_STATE None]).
Proof. exact rep_second_recv. Qed.
Print Assumptions rep_second_recv_estate.

(* REP non-blocking / poll *)
Theorem rep_nonblocking_recv : forall pf s k c a,
  (rp_holding s = [] -> rep_ctx_recv pf s k c a true = (s, [Complete a E_AGAIN None])) /\
  (forall p m rest, rp_holding s = (p, m) :: rest ->
     exists s', rep_ctx_recv pf s k c a true = (s', [TranRecv p; Complete a E_OK (Some (rep_deliver m))])).
Proof. exact rep_nb_recv. Qed.
Print Assumptions rep_nonblocking_recv.
Theorem rep_nb_send_keeps_slot_refuted :
  nth 8 (snd (rep_run pf_pinned rep_init w_rep_ops)) [] = [Complete 9%N E_AGAIN None] /\
  nth 10 (snd (rep_run pf_pinned rep_init w_rep_ops)) [] = [Complete 9%N E_STATE None].
Proof. exact rep_nb_send_keeps_slot_refuted_w. Qed.
Print Assumptions rep_nb_send_keeps_slot_refuted.
Theorem rep_nb_send_keeps_slot_holds : forall pf s k c a m s',
  pf_nbsend pf = true -> rp_get s k = Some c ->
  rep_ctx_send pf s k c a true m = (s', [Complete a E_AGAIN None]) -> rp_get s' k = Some c.
Proof. exact rep_nb_send_refused_keeps. Qed.
Print Assumptions rep_nb_send_keeps_slot_holds.
Theorem rep_poll_mirror_refuted :
  let s := fst (rep_run pf_pinned rep_init w_rep_poll) in
  poll_r (rep_poll s) = Some true /\ fst (rep_step pf_pinned s (PRecv None 9%N true)) = s /\
  snd (rep_step pf_pinned s (PRecv None 9%N true)) = [Complete 9%N E_AGAIN None].
Proof. exact rep_poll_mirror_refuted_w. Qed.
Print Assumptions rep_poll_mirror_refuted.
(* repaired rep.c (rep0_pipe_close clears the descriptor; any values of the other
   flags): in every state reached from rep_init the receive descriptor is raised
   exactly when a non-blocking receive -- on any context -- does not return
   NNG_EAGAIN, and then the receive delivers a request *)
Theorem rep_recv_poll_mirror_holds : forall pf ops k c a,
  pf_rclose pf = true ->
  let s := fst (rep_run pf rep_init ops) in
  (poll_r (rep_poll s) = Some true <->
     snd (rep_ctx_recv pf s k c a true) <> [Complete a E_AGAIN None]) /\
  (poll_r (rep_poll s) = Some true -> exists p m, snd (rep_ctx_recv pf s k c a true) = [TranRecv p; Complete a E_OK (Some (rep_deliver m))]).
Proof. exact rep_recv_poll_mirror. Qed.
Print Assumptions rep_recv_poll_mirror_holds.
Theorem rep_recv_poll_invariant : forall pf s o,
  pf_rclose pf = true -> rep_rinv s -> rep_rinv (fst (rep_step pf s o)).
Proof. exact rep_rinv_step. Qed.
Print Assumptions rep_recv_poll_invariant.
(* the send descriptor and a busy reply pipe: pinned rep.c (only ever raised on
   receive) leaves it raised while another context occupies the socket's reply
   pipe and a non-blocking reply is refused; repaired: cleared, raised again when
   the pipe has sent.  PARTIAL for the repaired variant: witness history only (no
   send-half invariant over all histories is proved in this file) *)
Theorem rep_send_poll_mirror_refuted :
  let s := fst (rep_run (mkPfix true true true false) rep_init w_rep_wbusy) in
  poll_w (rep_poll s) = Some true /\
  snd (rep_step (mkPfix true true true false) s (PSend None 9%N true (mkPmsg [] [4%N]))) = [Complete 9%N E_AGAIN None].
Proof. exact rep_send_poll_mirror_refuted_w. Qed.
Print Assumptions rep_send_poll_mirror_refuted.
Theorem rep_send_poll_mirror_repaired_partial :
  let s := fst (rep_run pf_repaired rep_init w_rep_wbusy) in
  poll_w (rep_poll s) = Some false /\
  poll_w (rep_poll (fst (rep_step pf_repaired s (PSendDone 1%N 0%N)))) = Some true.
Proof. exact rep_send_poll_mirror_repaired_w. Qed.
Print Assumptions rep_send_poll_mirror_repaired_partial.
(* ... the witness above; over ALL reachable states of the repaired REP model both halves of the descriptor mirror
   (C15's clause in the uniform interface of Proto/PollModel.v) hold -- proved in Proto/PollRepX.v, restated here *)
Theorem rep_poll_mirror_holds : forall pf, pf_rclose pf = true -> pf_saio pf = true -> pf_wbusy pf = true ->
  PollModel.C15_mirror (PollRepX.M_rep pf).
Proof. exact PollRepX.rep_c15_mirror. Qed.
Print Assumptions rep_poll_mirror_holds.

(* ---- headers (shared with C13) ---- *)
Theorem xrep_header_push_pop : forall p ttl wire m,
  (p < 4294967296)%N -> xrep_recv p ttl wire = BtDeliver m ->
  exists m0, xrep_send m = Some (p, m0) /\ pm_hdr m = be32 p ++ pm_hdr m0 /\ pm_body m0 = pm_body m /\
             pm_hdr m0 ++ pm_body m0 = wire /\ length (pm_hdr m0) <= 4 * ttl.
Proof. exact xrep_push_pop. Qed.
Print Assumptions xrep_header_push_pop.
Theorem backtrace_total_bounded : forall n hdr body,
  match bt_loop n hdr body with BtDeliver m => length (pm_hdr m) <= BT_HEADER_MAX | _ => True end.
Proof. exact bt_loop_total. Qed.
Print Assumptions backtrace_total_bounded.
Theorem req_id_roundtrip : forall id m, (id < 4294967296)%N ->
  req_recv (wire_of (req_send id m)) = Some (id, mkPmsg [] (pm_body m)).
Proof. exact req_send_recv. Qed.
Print Assumptions req_id_roundtrip.

(* ---- raw REQ / raw REP: msgq entry points ---- *)
Theorem xreq_nonblocking_recv_holds : forall r g s c a,
  (mq_get_waits (xq_urq s) = true -> xreq_step (mkMqfix true r g) s (PRecv c a true) = (s, [Complete a E_AGAIN None])) /\
  (mq_get_waits (xq_urq s) = false ->
     exists s' outs m, xreq_step (mkMqfix true r g) s (PRecv c a true) = (s', outs) /\ In (Complete a E_OK (Some m)) outs).
Proof. exact xreq_nb_recv_repaired. Qed.
Print Assumptions xreq_nonblocking_recv_holds.
Theorem xreq_nonblocking_send_holds : forall r g s c a m,
  (mq_put_waits (xq_uwq s) = true -> xreq_step (mkMqfix true r g) s (PSend c a true m) = (s, [Complete a E_AGAIN None])) /\
  (mq_put_waits (xq_uwq s) = false ->
     exists s' outs, xreq_step (mkMqfix true r g) s (PSend c a true m) = (s', outs) /\ In (Complete a E_OK None) outs).
Proof. exact xreq_nb_send_repaired. Qed.
Print Assumptions xreq_nonblocking_send_holds.
Theorem xrep_nonblocking_holds :
  (forall r g s c a, (mq_get_waits (xp_urq s) = true -> xrep_step (mkMqfix true r g) s (PRecv c a true) = (s, [Complete a E_AGAIN None])) /\
     (mq_get_waits (xp_urq s) = false ->
        exists s' outs m, xrep_step (mkMqfix true r g) s (PRecv c a true) = (s', outs) /\ In (Complete a E_OK (Some m)) outs)) /\
  (forall r g s c a m, exists s' outs, xrep_step (mkMqfix true r g) s (PSend c a true m) = (s', Complete a E_OK None :: outs)).
Proof. split; [exact xrep_nb_recv_repaired|exact xrep_nb_send_repaired]. Qed.
Print Assumptions xrep_nonblocking_holds.
Theorem xreq_nonblocking_recv_refuted :     (* pinned msgqueue.c: nni_aio_start first *)
  let s := xreq_run mf_pinned xreq_init w_xreq_ops in
  poll_r (xreq_poll s) = Some true /\
  xreq_step mf_pinned s (PRecv None 9%N true) = (s, [Complete 9%N E_AGAIN None]) /\
  exists s' m, xreq_step mf_pinned s (PRecv None 9%N false) = (s', [Complete 9%N E_OK (Some m)]).
Proof. exact xreq_nb_recv_refuted_w. Qed.
Print Assumptions xreq_nonblocking_recv_refuted.
Theorem xreq_resize_wakes_refuted :         (* pinned nni_msgq_resize *)
  let s := xreq_run mf_pinned xreq_init w_resize_ops in
  mq_putq (xq_uwq s) <> [] /\ length (mq_q (xq_uwq s)) < mq_cap (xq_uwq s).
Proof. exact xreq_resize_refuted_w. Qed.
Print Assumptions xreq_resize_wakes_refuted.
Theorem xreq_resize_wakes_repaired_partial :   (* PARTIAL: witness history only *)
  let s := xreq_run mf_repaired xreq_init w_resize_ops in mq_putq (xq_uwq s) = [] /\ length (mq_q (xq_uwq s)) = 1.
Proof. exact xreq_resize_repaired_w. Qed.
Print Assumptions xreq_resize_wakes_repaired_partial.
(* nni_msgq_aio_get and blocked writers: pinned (reader side only) leaves a writer
   blocked although the reader made room -- the send descriptor is raised and a
   non-blocking send is still refused; repaired (writer side run as well) *)
Theorem xreq_get_runs_putq_refuted :
  let s := xreq_run (mkMqfix true true false) xreq_init w_getput_ops in
  mq_putq (xq_uwq s) <> [] /\ length (mq_q (xq_uwq s)) < mq_cap (xq_uwq s) /\
  poll_w (xreq_poll s) = Some true /\
  xreq_step (mkMqfix true true false) s (PSend None 9%N true (mkPmsg (be32 2147483651) [7%N])) = (s, [Complete 9%N E_AGAIN None]).
Proof. exact xreq_get_runs_putq_refuted_w. Qed.
Print Assumptions xreq_get_runs_putq_refuted.
Theorem xreq_get_runs_putq_repaired_partial :     (* PARTIAL: witness history only *)
  let s := xreq_run mf_repaired xreq_init w_getput_ops in
  mq_putq (xq_uwq s) = [] /\ length (mq_q (xq_uwq s)) = 1 /\
  In (Complete 2%N E_OK None) (snd (xreq_step mf_repaired (xreq_run mf_repaired xreq_init (firstn 3 w_getput_ops)) (PPipeStart 1%N PROTO_REP))).
Proof. exact xreq_get_runs_putq_repaired_w. Qed.
Print Assumptions xreq_get_runs_putq_repaired_partial.
(* ... the two witnesses above; over ALL reachable states of the raw REQ model with the repaired message queue
   (non-blocking first, resize wakes, get runs the put queue) the mirror holds in its exact form: a descriptor is
   raised IF AND ONLY IF the non-blocking operation succeeds -- proved in Proto/PollRepX.v, restated here *)
Theorem xreq_poll_mirror_holds : forall mf, mf_nb mf = true -> mf_resize mf = true -> mf_getput mf = true ->
  PollModel.C15_mirror_iff (PollRepX.M_xreq mf) /\ PollModel.C15_mirror (PollRepX.M_xreq mf).
Proof. intros mf F1 F2 F3. split; [exact (PollRepX.xreq_c15_mirror_iff mf F1 F2 F3)|exact (PollRepX.xreq_c15_mirror mf F1 F2 F3)]. Qed.
Print Assumptions xreq_poll_mirror_holds.
Theorem xreq_xrep_poll_mirror :
  (forall s, (mq_getq (xq_urq s) = [] -> (poll_r (xreq_poll s) = Some true <-> mq_get_waits (xq_urq s) = false)) /\
             (mq_putq (xq_uwq s) = [] -> (poll_w (xreq_poll s) = Some true <-> mq_put_waits (xq_uwq s) = false))) /\
  (forall s, mq_getq (xp_urq s) = [] -> (poll_r (xrep_poll s) = Some true <-> mq_get_waits (xp_urq s) = false)).
Proof. split; [exact xreq_poll_mirror|exact xrep_poll_mirror]. Qed.
Print Assumptions xreq_xrep_poll_mirror.
Theorem xrep_route_conservation : forall s m s' outs,
  xrep_route s m = (s', outs) ->
  (exists p x, xrep_send m = Some (p, x) /\
     ((outs = [TranSend p x] /\ xp_sendq s' = xp_sendq s) \/
      (outs = [] /\ xp_sendq s' = xp_sendq s ++ [(p, x)]) \/
      (outs = [Free x] /\ xp_sendq s' = xp_sendq s))) \/
  (xrep_send m = None /\ outs = [Free m] /\ s' = s).
Proof. exact xrep_route_conserves. Qed.
Print Assumptions xrep_route_conservation.

(* ---- constants tie ---- *)
Theorem reqrep_consts_match :
  PROTO_REQ = C04_REQ_SELF /\ PROTO_REP = C04_REQ_PEER /\ PROTO_REP = C04_REP_SELF /\ PROTO_REQ = C04_REP_PEER /\
  PROTO_REQ = C04_XREQ_SELF /\ PROTO_REP = C04_XREQ_PEER /\ PROTO_REP = C04_XREP_SELF /\ PROTO_REQ = C04_XREP_PEER /\
  REQ_ID_MIN = C04_REQ_ID_MIN /\ REQ_ID_MAX = C04_REQ_ID_MAX /\
  REQ_RESEND_DEFAULT = Z.of_N C04_REQ_RESEND_DEFAULT /\ REQ_TICK_DEFAULT = Z.of_N C04_REQ_TICK_DEFAULT /\ C04_MS_MIN_NEG = 1%N /\
  BT_TTL_DEFAULT = C04_REQ_TTL_DEFAULT /\ BT_TTL_DEFAULT = C04_REP_TTL_DEFAULT /\ BT_TTL_DEFAULT = C04_XREQ_TTL_DEFAULT /\ BT_TTL_DEFAULT = C04_XREP_TTL_DEFAULT /\
  BT_TTL_MIN = C04_REQ_TTL_MIN /\ BT_TTL_MIN = C04_REP_TTL_MIN /\ BT_TTL_MIN = C04_XREQ_TTL_MIN /\ BT_TTL_MIN = C04_XREP_TTL_MIN /\
  BT_TTL_MAX = C04_TTL_MAX /\ BT_HEADER_MAX = C04_HEADER_BYTES /\ rq_ttl req_init = C04_REQ_TTL_DEFAULT /\ rp_ttl rep_init = C04_REP_TTL_DEFAULT /\
  XREP_PIPE_SENDQ_CAP = C04_XREP_PIPE_SENDQ /\ mq_cap (xq_uwq xreq_init) = C04_SOCK_UWQ_DEFAULT /\ mq_cap (xq_urq xreq_init) = C04_SOCK_URQ_DEFAULT /\
  C04_SOCK_BUF_MAX = 8192%N /\
  E_NOMEM = C04_NNG_ENOMEM /\ E_INVAL = C04_NNG_EINVAL /\ E_CLOSED = C04_NNG_ECLOSED /\ E_AGAIN = C04_NNG_EAGAIN /\ E_NOTSUP = C04_NNG_ENOTSUP /\
  E_STATE = C04_NNG_ESTATE /\ E_PROTO = C04_NNG_EPROTO /\ E_CONNRESET = C04_NNG_ECONNRESET /\ E_CANCELED = C04_NNG_ECANCELED.
Proof. repeat split; reflexivity. Qed.
Print Assumptions reqrep_consts_match.

(* ---- non-vacuity ---- *)
Example req_exchange_nonvacuous :
  let ops := [PPipeStart 1%N PROTO_REP; PSend None 0%N false w_req; PRecv None 1%N false; PSendDone 1%N 0%N; PRecvDone 1%N 0%N w_reply] in
  nth 4 (outs_of (snd (req_run fx_repaired req_init ops))) [] = [TranRecv 1%N; Free w_wire; Complete 1%N E_OK (Some (mkPmsg [] [187%N]))] /\
  exists k c, matchable (fst (req_run fx_repaired req_init (firstn 4 ops))) (REQ_ID_MIN + 1) k c.
Proof. vm_compute. split; [reflexivity|]. do 2 eexists. repeat split. Qed.
Example rep_exchange_nonvacuous :
  let ops := [PPipeStart 1%N PROTO_REQ; PRecvDone 1%N 0%N (mkPmsg [] ([1%N;2%N;3%N;4%N] ++ be32 2147483649 ++ [9%N])); PRecv None 1%N true;
              PSend None 2%N true (mkPmsg [] [7%N])] in
  nth 3 (snd (rep_run pf_repaired rep_init ops)) [] =
    [TranSend 1%N (mkPmsg ([1%N;2%N;3%N;4%N] ++ be32 2147483649) [7%N]); Complete 2%N E_OK None].
Proof. vm_compute. reflexivity. Qed.
