(* Properties_C14: statements only.  C14 -- pipe events are ordered; dialers redial,
   listeners keep accepting.

   Objects (all in Core/):
     PipeEvModel   one socket's pipes: nni_pipe_run_cb's filter, the threads in
                   listener_start_pipe / dialer_start_pipe, the reaper in pipe_reap, callbacks
                   that close pipes or change the registration, sock_shutdown.  A history
                   [srun s ops] is any list of critical sections by any number of threads, in
                   any order the locks allow (a step whose guard is false changes nothing).
     DialerModel   one dialer: d_pipe, d_currtime/d_inirtime/d_maxrtime, the back-off timer
                   with the random draw as an argument, dialer_connect_cb by result class.
     ListenerModel one listener: listener_accept_cb as a function of the result code.
   What is proved is the decision logic over all histories of these steps (PARTIAL with
   respect to real schedules exactly as C02: mutual exclusion of the mutexes, the atomicity
   of p_closed, nni_aio_stop's guarantee and the transports' behaviour are assumptions named
   at the theorems that use them). *)
From Coq Require Import List Arith NArith ZArith Bool String.
From NngV Require Import Gen.Consts Core.PipeEvModel Core.PipeEvProofs Core.DialerModel Core.DialerProofs
  Core.ListenerModel Core.ListenerProofs Core.PipeEvConsts Core.SfdqModel Core.SfdqProofs.
Import ListNotations.

(* ------------------------------------------------------------------------------------ *)
(* 1. ORDER.  (a) For ANY sequence of nni_pipe_run_cb calls on a pipe -- any event arguments
   the three call sites can pass, any interleaving, each call with its own reading of
   s_want_evs -- the events delivered are ADD_PRE, ADD_POST, REM_POST in that order, each at
   most once, never ADD_POST or REM_POST without ADD_PRE.  (b) The same for every pipe in
   every reachable state of the whole socket model (callbacks closing pipes or
   re-registering, closes from any thread, socket shutdown at any point); the callbacks
   actually invoked are a subsequence of the events delivered. *)
Theorem events_ordered_at_most_once :
  (forall calls : list (bool * N), (forall w ev, In (w, ev) calls -> (1 <= ev <= 3)%N) ->
     ev_ordered (run_cb_seq calls EV_NONE)) /\
  (forall ops s p, s = srun sock_init ops -> In p (pipes s) ->
     ev_ordered (g_fired p) /\ subseq (g_cbs p) (g_fired p)).
Proof. split; [exact run_cb_seq_ordered|exact events_ordered_all_histories]. Qed.
Print Assumptions events_ordered_at_most_once.

Example events_ordered_nonvacuous :
  (* a pipe accepted, then closed by the peer: ADD_PRE, ADD_POST, REM_POST, callbacks for all three *)
  let ops := [ONotify 1 true; ONotify 2 true; ONotify 3 true; OCreate; OStart 0;
              OCbRead 0 WStart; OCbEnter 0 WStart; OCbExit 0 WStart; OCheck 0; OProto 0 true;
              OCbRead 0 WStart; OCbEnter 0 WStart; OCbExit 0 WStart;
              OClose 0; OReap 0; OReap 0; OCbRead 0 WReap; OCbEnter 0 WReap; OCbExit 0 WReap; OReap 0; OReap 0] in
  map g_fired (pipes (srun sock_init ops)) = [[EV_ADD_PRE; EV_ADD_POST; EV_REM_POST]] /\
  map g_cbs (pipes (srun sock_init ops)) = [[EV_ADD_PRE; EV_ADD_POST; EV_REM_POST]] /\
  (* the racy order: the reaper's REM_POST call comes before the start thread's ADD_POST call *)
  let ops2 := [ONotify 3 true; OCreate; OStart 0; OCbRead 0 WStart; OCbEnter 0 WStart; OCheck 0; OProto 0 true;
               OCbRead 0 WStart; OClose 0; OReap 0; OReap 0; OCbRead 0 WReap; OCbEnter 0 WReap; OCbExit 0 WReap;
               OCbEnter 0 WStart] in
  map g_fired (pipes (srun sock_init ops2)) = [[EV_ADD_PRE; EV_REM_POST]] /\
  map g_cbs (pipes (srun sock_init ops2)) = [[EV_REM_POST]].
Proof. vm_compute. repeat split; reflexivity. Qed.

(* ------------------------------------------------------------------------------------ *)
(* 2. REM_POST BY CLOSE.  In histories in which no registered callback is removed again
   (so that "a registered notification" exists until the end: [keeps_cbs]; at least one
   callback is registered before the first pipe exists), when sock_shutdown's wait for s_pipes to drain is
   over -- nng_socket_close cannot return earlier -- every pipe that was delivered ADD_POST
   has been delivered REM_POST.  More precisely (second part) this holds as soon as
   pipe_reap's nni_pipe_run_cb(REM_POST) has returned, and pipe_reap removes the pipe from
   s_pipes only after that.  Assumptions visible in the model: endpoints are closed and
   stopped before the pipes are closed, and a stopped endpoint starts no pipe (C02
   aio_stop_quiesces); nni_pipe_remove is the only place that unlinks a pipe. *)
Theorem addpost_implies_rempost_by_close :
  (forall s0 ops s p,
     pipes s0 = [] -> s_want s0 = true -> s_shut_returned s0 = false ->
     forallb keeps_cbs ops = true -> s = srun s0 ops -> s_shut_returned s = true -> In p (pipes s) ->
     In EV_ADD_POST (g_fired p) -> In EV_REM_POST (g_fired p)) /\
  (forall s0 ops s p,
     pipes s0 = [] -> s_want s0 = true -> forallb keeps_cbs ops = true -> s = srun s0 ops -> In p (pipes s) ->
     rem_done (p_rpc p) = true -> In EV_ADD_POST (g_fired p) -> In EV_REM_POST (g_fired p)).
Proof. split; [exact addpost_rempost_at_close|exact rempost_when_reaped]. Qed.
Print Assumptions addpost_implies_rempost_by_close.

Example addpost_rempost_nonvacuous :
  let s0 := srun sock_init [ONotify 2 true] in
  let ops := [OCreate; OStart 0; OCbRead 0 WStart; OCbEnter 0 WStart; OCheck 0; OProto 0 true;
              OCbRead 0 WStart; OCbEnter 0 WStart; OCbExit 0 WStart;
              OShutBegin; OShutEps; OShutPipes; OReap 0; OReap 0; OCbRead 0 WReap; OCbEnter 0 WReap;
              OReap 0; OShutWait; OReap 0; OShutWait] in
  pipes s0 = [] /\ s_want s0 = true /\ forallb keeps_cbs ops = true /\
  s_shut_returned (srun s0 ops) = true /\
  map g_fired (pipes (srun s0 ops)) = [[EV_ADD_PRE; EV_ADD_POST; EV_REM_POST]] /\
  (* the first OShutWait is refused: the pipe is still on s_pipes *)
  s_shut_returned (srun s0 (firstn 18 ops)) = false.
Proof. vm_compute. repeat split; reflexivity. Qed.

(* the hypothesis matters: if the application unregisters everything while the pipe is being
   removed and registers again before ADD_POST is attempted, ADD_POST is delivered and REM_POST never *)
Example addpost_without_rempost_when_unregistered :
  let ops := [ONotify 2 true; OCreate; OStart 0; OCbRead 0 WStart; OCbEnter 0 WStart; OCheck 0; OProto 0 true;
              ONotify 2 false; OClose 0; OReap 0; OReap 0; OCbRead 0 WReap; OCbEnter 0 WReap; OReap 0; OReap 0;
              ONotify 2 true; OCbRead 0 WStart; OCbEnter 0 WStart; OCbExit 0 WStart] in
  map g_fired (pipes (srun sock_init ops)) = [[EV_ADD_PRE; EV_ADD_POST]] /\
  map p_rpc (pipes (srun sock_init ops)) = [RDone] /\ map p_onsock (pipes (srun sock_init ops)) = [false].
Proof. vm_compute. repeat split; reflexivity. Qed.
(* (the ADD_POST callback runs for a pipe that has already been removed; no REM_POST will follow) *)

(* ------------------------------------------------------------------------------------ *)
(* 3. REJECTED IN ADD_PRE.  A pipe that was closed inside its own ADD_PRE callback -- more
   generally, any pipe that *_start_pipe finds closed after ADD_PRE -- never reaches the
   protocol's pipe_start, in any history.  The protocol models of coq/Proto learn of a pipe
   only through PPipeStart, post their first receive and send there, and an [op_ok]
   environment never delivers PSendDone/PRecvDone for a pipe that was not started: such
   a pipe carries no application message. *)
Theorem reject_in_addpre_carries_nothing : forall ops s p,
  s = srun sock_init ops -> In p (pipes s) ->
  (g_closed_in_pre p = true -> p_pstarted p = false) /\
  (g_closed_at_check p = true -> p_pstarted p = false).
Proof. exact closed_in_addpre_never_started. Qed.
Print Assumptions reject_in_addpre_carries_nothing.

Example reject_in_addpre_nonvacuous :
  let ops := [ONotify 1 true; OCreate; OStart 0; OCbRead 0 WStart; OCbEnter 0 WStart;
              OCbAct 0 WStart (CbClose 0); OCbExit 0 WStart; OCheck 0; OProto 0 true;
              OReap 0; OReap 0; OCbRead 0 WReap; OCbEnter 0 WReap] in
  map g_closed_in_pre (pipes (srun sock_init ops)) = [true] /\
  map p_pstarted (pipes (srun sock_init ops)) = [false] /\
  map g_fired (pipes (srun sock_init ops)) = [[EV_ADD_PRE; EV_REM_POST]].
Proof. vm_compute. repeat split; reflexivity. Qed.

(* What the model also shows (outside C14's words; reported as a defect of the pinned tree, key
   pipe-start-overtaken-by-reap, repaired by /repo 91744d5): nothing in the model orders pipe_reap after
   *_start_pipe, and nothing in the pinned code did.  A pipe closed by
   another thread right after the closed-check is torn down completely -- protocol pipe_close and
   pipe_stop, statistics unregistered, removed from the socket -- and only THEN handed to the
   protocol's pipe_start (and its statistics registered) by the start thread.  The events are
   ADD_PRE, REM_POST, as the theorems above demand; the memory-safety consequence (statistics node and
   protocol list entry of a freed pipe) was reproduced on the library under ASan with exactly this
   schedule (`racestart` in harness/wb_pipeev.c). *)
Example startup_overtaken_by_teardown_witness :
  let ops := [ONotify 1 true; ONotify 3 true; OCreate; OStart 0; OCbRead 0 WStart; OCbEnter 0 WStart; OCbExit 0 WStart;
              OCheck 0;                                  (* not closed: go on to pipe_start *)
              OClose 0; OReap 0; OReap 0; OCbRead 0 WReap; OCbEnter 0 WReap; OCbExit 0 WReap; OReap 0; OReap 0] in
  map p_rpc (pipes (srun sock_init ops)) = [RDone] /\ map p_pstarted (pipes (srun sock_init ops)) = [false] /\
  map p_pstarted (pipes (srun sock_init (ops ++ [OProto 0 true]))) = [true] /\
  map g_fired (pipes (srun sock_init (ops ++ [OProto 0 true; OCbRead 0 WStart; OCbEnter 0 WStart]))) = [[EV_ADD_PRE; EV_REM_POST]].
Proof. vm_compute. repeat split; reflexivity. Qed.

(* ------------------------------------------------------------------------------------ *)
(* 4. ONE PIPE PER DIALER.  In every history (both variants of the two repairs, any
   settings, any draws, any result codes, close at any point) a dialer holds at most one
   of: its pipe (d_pipe), its armed back-off timer, a connect in flight (or the pending
   callback of either); in particular a new pipe is handed to nni_pipe_start only when
   d_pipe is NULL, a timer is never armed twice and connect is never called while one is
   pending ([g_clash] records any such event). *)
Theorem dialer_one_pipe : forall fixmax wide inir maxr ops d,
  d = drun fixmax wide (dialer_init inir maxr) ops ->
  (tokens d <= 1)%nat /\ g_clash d = false /\ (d_started d = false -> tokens d = 0%nat).
Proof.
  intros fixmax wide inir maxr ops d ->.
  destruct (drun_DInv fixmax wide ops _ (dinit_DInv inir maxr)) as (A & B & C & _). auto.
Qed.
Print Assumptions dialer_one_pipe.

Example dialer_one_pipe_nonvacuous :
  (* connect, pipe, pipe lost, timer, redial, failure, timer, redial, second pipe, close with the pipe up *)
  let ops := [DStart false; DConnDone 0%N 1; DConnCb 0%Z; DPipeRemoved 1 5%Z; DTimerFire; DTimerCb; DConnDone 6%N 0;
              DConnCb 7%Z; DTimerFire; DTimerCb; DConnDone 0%N 2; DConnCb 0%Z] in
  let d := drun false false (dialer_init 10 100) ops in
  d_pipe d = Some 2 /\ tokens d = 1%nat /\ g_att d = 3 /\ g_clash d = false /\
  tokens (drun false false d [DClose; DPipeRemoved 2 0%Z]) = 0%nat.
Proof. vm_compute. repeat split; reflexivity. Qed.

(* ------------------------------------------------------------------------------------ *)
(* 5. DELAY BOUND.  Every delay drawn is non-negative and strictly below the larger of the
   two reconnect times configured at the moment of the draw (0 when both are 0), for all
   draws, all result codes and all histories in which
     - the configured times are durations 0 <= t <= INT32_MAX, and, in the pinned form of
       dialer_timer_start_locked (`d_currtime *= 2`), not above 2^30-1 whenever a non-zero
       maximum is set (otherwise the doubling overflows int32: [redial_backoff_overflow]);
     - a change of RECONNMAXT to v happens when d_currtime <= max(d_inirtime, v) -- always
       true when the maximum is raised, when no back-off is in progress, or in the repaired
       form in which the option restarts the back-off (flag fixmax).  RECONNMINT may be
       changed at any time (it restarts the back-off).
   The condition is exact for the pinned form: [redial_delay_exactness].  No overflow
   occurs under these conditions ([g_ovf] = false). *)
Theorem redial_delay_bounded : forall fixmax wide inir maxr ops d,
  cfg_ok wide inir maxr -> drun_cov fixmax wide (dialer_init inir maxr) ops ->
  d = drun fixmax wide (dialer_init inir maxr) ops ->
  g_ovf d = false /\ (0 <= d_curr d <= Z.max (d_inir d) (d_maxr d))%Z /\
  forall dl i m, In (dl, i, m) (g_delays d) -> (0 <= dl /\ (dl < Z.max i m \/ (dl = 0 /\ Z.max i m = 0)))%Z.
Proof. exact delay_bounded. Qed.
Print Assumptions redial_delay_bounded.

(* ... and for the tree as it is now (both repairs present: the flags regenerated from the source are
   true, otherwise this proof no longer checks): NO condition on when the options are changed, any
   durations 0 <= t <= INT32_MAX *)
Theorem redial_delay_bounded_holds : forall inir maxr ops d,
  (0 <= inir <= INT32_MAX)%Z -> (0 <= maxr <= INT32_MAX)%Z -> Forall op_in_range ops ->
  d = drun C14_RECONNMAX_RESETS C14_BACKOFF_WIDE (dialer_init inir maxr) ops ->
  g_ovf d = false /\ (0 <= d_curr d <= Z.max (d_inir d) (d_maxr d))%Z /\
  forall dl i m, In (dl, i, m) (g_delays d) -> (0 <= dl /\ (dl < Z.max i m \/ (dl = 0 /\ Z.max i m = 0)))%Z.
Proof. exact delay_bounded_repaired. Qed.
Print Assumptions redial_delay_bounded_holds.

Example redial_delay_holds_nonvacuous :
  (* the maximum lowered to 0 in the middle of a back-off, huge times *)
  Forall op_in_range midchange_run /\
  map fst (map fst (firstn 2 (g_delays (drun C14_RECONNMAX_RESETS C14_BACKOFF_WIDE (dialer_init 10 1000) midchange_run)))) = [9; 0]%Z /\
  g_ovf (drun C14_RECONNMAX_RESETS C14_BACKOFF_WIDE (dialer_init 1073741824 2147483647) overflow_run) = false.
Proof.
  split; [|vm_compute; split; reflexivity].
  unfold midchange_run, fail_round. repeat (constructor; [simpl; try exact I; unfold INT32_MAX; split; discriminate|]). constructor.
Qed.

Example redial_delay_nonvacuous :
  let ops := [DStart false; DConnDone 6%N 0; DConnCb 123456789%Z; DTimerFire; DTimerCb; DConnDone 5%N 0; DConnCb 77%Z;
              DSetMax 5000%Z; DSetMin 200%Z; DTimerFire; DTimerCb; DConnDone 0%N 7; DConnCb 0%Z; DPipeRemoved 7 4242%Z] in
  cfg_ok false 100 1000 /\ drun_cov false false (dialer_init 100 1000) ops /\
  map fst (map fst (g_delays (drun false false (dialer_init 100 1000) ops))) = [42; 77; 89]%Z /\
  d_curr (drun false false (dialer_init 100 1000) ops) = 400%Z.
Proof.
  vm_compute.
  repeat match goal with
  | |- _ /\ _ => split
  | |- True => exact I
  | |- _ = _ => reflexivity
  | |- _ -> False => let X := fresh in intro X; discriminate X
  | |- false = true \/ _ => right
  | |- _ \/ _ => left; split; let X := fresh in intro X; discriminate X
  | |- _ \/ _ => right
  end.
Qed.

(* exactness of the condition on RECONNMAXT (pinned form): if after the change d_currtime
   exceeds both configured times, the next draw can be as long as d_currtime - 1 *)
Theorem redial_delay_exactness : forall wide d v,
  (0 <= v)%Z -> (Z.max (d_inir d) v < d_curr d <= INT32_MAX)%Z -> d_closed d = false ->
  exists rnd, forall d', d' = timer_start wide (dstep false wide d (DSetMax v)) rnd ->
    exists dl, hd_error (g_delays d') = Some (dl, d_inir d, v) /\ (Z.max (d_inir d) v <= dl)%Z.
Proof. exact uncovered_change_exceeds. Qed.
Print Assumptions redial_delay_exactness.

(* ... a lowered non-zero maximum is in force again after one more timer start; a maximum lowered
   to 0 is not, until the next successful connection or change of RECONNMINT: *)
Theorem redial_lowered_max_recovers : forall d v rnd,
  (0 < v <= HALF32)%Z -> (0 <= d_curr d <= HALF32)%Z ->
  (d_curr (timer_start false (dstep false false d (DSetMax v)) rnd) <= v)%Z.
Proof. exact lowered_max_recovers. Qed.
Print Assumptions redial_lowered_max_recovers.

(* The unconditional statement was FALSE of the pinned tree (replayed on the library: the delays
   stayed below 1000 ms although 10 ms / 0 were configured; repaired by /repo 2107908, after which
   the flag reads true, the first conjunct is vacuous and [redial_delay_bounded_holds] applies). *)
Theorem redial_delay_midchange_refuted :
  (C14_RECONNMAX_RESETS = false ->
     hd_error (g_delays (drun C14_RECONNMAX_RESETS C14_BACKOFF_WIDE (dialer_init 10 1000) midchange_run)) = Some (999, 10, 0)%Z) /\
  hd_error (g_delays (drun true C14_BACKOFF_WIDE (dialer_init 10 1000) midchange_run)) = Some (9, 10, 0)%Z.
Proof.
  split; [|vm_compute; reflexivity].
  destruct C14_RECONNMAX_RESETS; intros H; [discriminate H|]. vm_compute. reflexivity.
Qed.
Print Assumptions redial_delay_midchange_refuted.

(* `d_currtime *= 2` overflowed int32 for configured times of 2^30 ms and more (UBSan on the pinned
   library: "signed integer overflow: 1073741824 * 2"); the repaired form (/repo 4a05a49) does not *)
Theorem redial_backoff_overflow_refuted :
  (C14_BACKOFF_WIDE = false ->
     g_ovf (drun C14_RECONNMAX_RESETS C14_BACKOFF_WIDE (dialer_init 1073741824 2147483647) overflow_run) = true) /\
  g_ovf (drun C14_RECONNMAX_RESETS true (dialer_init 1073741824 2147483647) overflow_run) = false.
Proof.
  split; [|vm_compute; reflexivity].
  destruct C14_BACKOFF_WIDE; intros H; [discriminate H|]. vm_compute. reflexivity.
Qed.
Print Assumptions redial_backoff_overflow_refuted.

(* ------------------------------------------------------------------------------------ *)
(* 6. REDIAL UNTIL CLOSED (progress form).  In every reachable state of an open dialer:
   (a) when its pipe is removed the timer is armed (with a delay bounded by 5);
   (b) when a background dial fails with any code other than the three close codes the
       timer is armed;
   (c) when the armed timer expires the transport's connect is called again;
   (d) hence a started, open dialer that has not been handed a close code always holds
       exactly one of {pipe, armed timer, connect in flight}: it is never idle.
   The three codes after which dialer_connect_cb does nothing (NNG_ECLOSED, NNG_ECANCELED,
   NNG_ESTOPPED) are the ones nni_dialer_close produces; that a transport does not produce
   them for another reason is the assumption [g_lost d = false] of (d). *)
Theorem redial_until_closed : forall fixmax wide inir maxr ops d,
  d = drun fixmax wide (dialer_init inir maxr) ops ->
  (forall p rnd, d_pipe d = Some p -> d_closed d = false ->
     let d' := dstep fixmax wide d (DPipeRemoved p rnd) in
     d_pipe d' = None /\ d_tmo d' = Some (draw_delay (d_curr d) rnd) /\ g_clash d' = false) /\
  (forall rv q rnd, d_conn_done d = Some (rv, q) -> dialer_connect_class rv = DcRetry -> d_user d = false ->
     d_closed d = false ->
     let d' := dstep fixmax wide d (DConnCb rnd) in
     d_tmo d' = Some (draw_delay (d_curr d) rnd) /\ g_clash d' = false /\ d_started d' = d_started d) /\
  (forall dl, d_tmo d = Some dl -> dl <> (-1)%Z ->
     let d' := dstep fixmax wide (dstep fixmax wide d DTimerFire) DTimerCb in
     d_conn d' = true /\ g_att d' = S (g_att d) /\ g_clash d' = false /\ d_tmo d' = None) /\
  (d_started d = true -> d_closed d = false -> g_lost d = false -> tokens d = 1%nat) /\
  (forall rv, dialer_connect_class rv = DcRetry <-> rv <> D_OK /\ rv <> D_ECLOSED /\ rv <> D_ECANCELED /\ rv <> D_ESTOPPED).
Proof.
  intros fixmax wide inir maxr ops d ->.
  pose proof (drun_DInv fixmax wide ops _ (dinit_DInv inir maxr)) as I.
  split; [intros; apply pipe_loss_arms_timer; auto|].
  split; [intros; eapply failed_dial_arms_timer; eauto|].
  split; [intros; eapply timer_expiry_dials; eauto|].
  split; [destruct I as (_ & _ & _ & _ & _ & L); exact L|].
  intros rv. unfold dialer_connect_class, D_OK, D_ECLOSED, D_ECANCELED, D_ESTOPPED.
  destruct (N.eqb_spec rv 0), (N.eqb_spec rv 7), (N.eqb_spec rv 20), (N.eqb_spec rv 999); simpl;
    split; intros H; try discriminate; try (destruct H as (H1 & H2 & H3 & H4); congruence); auto.
Qed.
Print Assumptions redial_until_closed.

Example redial_until_closed_nonvacuous :
  let d := drun false false (dialer_init 100 0) [DStart false; DConnDone 0%N 3; DConnCb 0%Z] in
  d_pipe d = Some 3 /\ d_closed d = false /\ tokens d = 1%nat /\
  let d2 := drun false false d [DPipeRemoved 3 250%Z; DTimerFire; DTimerCb; DConnDone 6%N 0] in
  d_conn_done d2 = Some (6%N, 0) /\ dialer_connect_class 6%N = DcRetry /\ d_user d2 = false /\ g_att d2 = 2.
Proof. vm_compute. repeat split; reflexivity. Qed.

(* 6b. WHICH DIAL FAILURES END THE REDIALING.  dialer_connect_cb's switch, as parsed from dialer.c on this run, is
   the model's classification: exactly NNG_ECLOSED, NNG_ECANCELED and NNG_ESTOPPED end it (they mean "the
   application closed / stopped this dialer"), success starts the pipe, EVERY other code arms the timer.
   And no transport gives one of the three codes (nor, to a listener, one of its four stop codes) to the core's
   connect / accept aio outside the context of the endpoint's own close: [C14_TRAN_FAIL_SITES] lists every literal
   completion code of the endpoint functions of src/sp/transport with its context (regenerated from the source:
   inproc listener close / no listener -> ECONNREFUSED, negotiation failure -> EPROTO / ECONNSHUT, busy -> EBUSY,
   allocation -> ENOMEM, udp handshake timeout -> ETIMEDOUT; own close -> ECLOSED / ECONNABORTED).  A transport that
   starts to report NNG_ECLOSED for a peer-side event (e.g. the peer's listener going away while a connect is
   queued on it) breaks this proof.  Codes that are not literals (results of the stream layer handed through) are
   outside this table: assumption [src_ok] of 7. *)
Theorem dial_failure_classification :
  (forall rv, dialer_connect_class rv = DcNothing <-> rv = D_ECLOSED \/ rv = D_ECANCELED \/ rv = D_ESTOPPED) /\
  (forall rv, dialer_connect_class rv = DcStart <-> rv = D_OK) /\
  (forall rv, dclass_num (dialer_connect_class rv) = tab_lookup C14_DIALER_CASES C14_DIALER_DEFAULT rv) /\
  C14_DIALER_RETRY_SHAPE = true.
Proof.
  split; [|split; [|split; [exact dialer_table_matches|reflexivity]]];
    intros rv; unfold dialer_connect_class, D_OK, D_ECLOSED, D_ECANCELED, D_ESTOPPED;
    destruct (N.eqb_spec rv 0), (N.eqb_spec rv 7), (N.eqb_spec rv 20), (N.eqb_spec rv 999); simpl;
    split; intros H; try discriminate; try congruence; auto;
    try (destruct H as [H|[H|H]]; congruence).
Qed.
Print Assumptions dial_failure_classification.

Theorem transport_failure_codes_redial :
  (forall f fn code, In (f, fn, code, false) C14_TRAN_FAIL_SITES ->
     dialer_connect_class code = DcRetry /\ listener_accept_decision code <> LaStop) /\
  List.length C14_TRAN_FAIL_SITES = C14_TRAN_FAIL_SITE_COUNT /\ (40 <= C14_TRAN_FAIL_SITE_COUNT)%nat.
Proof.
  split; [|exact tran_fail_sites_counted].
  intros f fn code H. pose proof tran_fail_sites_ok as A. rewrite forallb_forall in A. specialize (A _ H).
  unfold tran_site_ok in A. simpl in A. apply andb_true_iff in A. destruct A as [A B].
  split.
  - destruct (dialer_connect_class code); simpl in A; try discriminate; reflexivity.
  - intros X. apply decision_stop_iff in X. rewrite X in B. discriminate.
Qed.
Print Assumptions transport_failure_codes_redial.

Example transport_failure_codes_nonvacuous :
  In ("inproc.c"%string, "inproc_ep_close"%string, 6%N, false) C14_TRAN_FAIL_SITES /\
  In ("inproc.c"%string, "inproc_ep_close"%string, 7%N, true) C14_TRAN_FAIL_SITES /\
  In ("tcp.c"%string, "tcptran_pipe_nego_cb"%string, 31%N, false) C14_TRAN_FAIL_SITES.
Proof. vm_compute. auto 80. Qed.

(* ------------------------------------------------------------------------------------ *)
(* 7. THE LISTENER KEEPS ACCEPTING.  listener_accept_cb, for EVERY result code rv (all of N,
   a fortiori every value of the generated nng_err enum):
     (a) the accept is not re-armed exactly for the four codes NNG_ECONNABORTED, NNG_ESTOPPED,
         NNG_ECLOSED, NNG_ECANCELED;
     (b) for every other code, in every reachable state of an open listener, the transport's
         accept is called again by the callback itself, or the 100 ms cool-down is armed and
         its expiry calls it; an open started listener that has not seen a stop code always
         holds exactly one of {accept pending, cool-down armed};
     (c) the switch parsed from listener.c on this run is this decision function. *)
Theorem listener_rearms :
  (forall rv, listener_accept_decision rv = LaStop <-> stop_code rv = true) /\
  (forall ops l rv p, l = lrun listener_init ops -> l_acc_done l = Some (rv, p) -> l_closed l = false ->
     stop_code rv = false ->
     let l' := lstep l LAccCb in
     g_lclash l' = false /\
     ((l_acc l' = true /\ g_acc_calls l' = S (g_acc_calls l)) \/
      (l_tmo l' = Some L_COOLDOWN_MS /\
       let l'' := lstep (lstep l' LTimerFire) LTimerCb in
       l_acc l'' = true /\ g_acc_calls l'' = S (g_acc_calls l) /\ g_lclash l'' = false))) /\
  (forall ops l, l = lrun listener_init ops ->
     g_lclash l = false /\ (l_started l = true -> l_closed l = false -> g_llost l = false -> ltokens l = 1%nat)) /\
  (forall rv, lact_num (listener_accept_decision rv) = tab_lookup C14_LISTENER_CASES C14_LISTENER_DEFAULT rv).
Proof.
  split; [exact decision_stop_iff|].
  split; [intros ops l rv p -> A C S; apply (accept_rearmed (lrun listener_init ops) rv p); auto; apply lrun_LInv; apply linit_LInv|].
  split; [|exact listener_table_matches].
  intros ops l ->. destruct (lrun_LInv ops _ linit_LInv) as (A & _ & _ & _ & _ & B). auto.
Qed.
Print Assumptions listener_rearms.

Example listener_rearms_nonvacuous :
  (* ENOMEM (2): cool-down, then re-armed; EPROTO (13) likewise; ECONNRESET (19) at once *)
  let l := lrun listener_init [LoStart; LTran (SrcAccept 2%N)] in
  l_acc_done l = Some (2%N, 0) /\ l_closed l = false /\ stop_code 2%N = false /\
  l_tmo (lstep l LAccCb) = Some 100%N /\
  l_acc (lrun l [LAccCb; LTimerFire; LTimerCb]) = true /\
  l_acc (lrun listener_init [LoStart; LTran (SrcNego 19%N); LAccCb]) = true /\
  l_tmo (lrun listener_init [LoStart; LTran (SrcNego 13%N); LAccCb]) = Some 100%N.
Proof. vm_compute. repeat split; reflexivity. Qed.

(* The four stop codes are produced only by close -- PARTIAL: proved for the transport shape of
   tcp.c / ipc.c / tls.c / sockfd.c (the accept aio is completed by a match, by the negotiation
   callback's error path, which maps NNG_ECLOSED to NNG_ECONNSHUT, by the accept callback's error
   path, or by the endpoint's close) under the ASSUMPTION [src_ok] that streams and the platform
   accept do not hand up NNG_ECONNABORTED / NNG_ESTOPPED / NNG_ECANCELED (nor, for the accept
   path, NNG_ECLOSED) while the endpoint is open.  What is missing: models of the stream layers
   that would discharge [src_ok]; the generated shape facts cover the literal occurrences
   (C14_ECONNABORTED_CLOSE_ONLY, C14_NEGO_MAPS_ECLOSED), not codes translated from errno.
   If a stream did deliver NNG_ECONNABORTED the loop would end for good ([listener_econnaborted_stops]). *)
Theorem listener_stop_codes_only_by_close_partial : forall ops l,
  forallb lop_ok ops = true -> l = lrun listener_init ops -> g_llost l = false.
Proof. exact stop_codes_only_after_close. Qed.
Print Assumptions listener_stop_codes_only_by_close_partial.

Example listener_stop_codes_nonvacuous :
  let ops := [LoStart; LTran (SrcNego L_ECLOSED); LAccCb; LTimerFire; LTimerCb; LTran (SrcAccept 2%N); LAccCb;
              LTimerFire; LTimerCb; LTran (SrcMatch 4); LAccCb; LoClose; LAccCb] in
  forallb lop_ok ops = true /\ g_llost (lrun listener_init ops) = false /\
  g_lpipes (lrun listener_init ops) = [4] /\ l_closed (lrun listener_init ops) = true.
Proof. vm_compute. repeat split; reflexivity. Qed.

Theorem listener_econnaborted_stops :
  let l := lrun listener_init [LoStart; LTran (SrcNego L_ECONNABORTED); LAccCb] in
  ltokens l = 0%nat /\ l_closed l = false /\ g_llost l = true.
Proof. exact econnaborted_stops. Qed.
Print Assumptions listener_econnaborted_stops.

(* ------------------------------------------------------------------------------------ *)
(* 8. THE SOCKET-FD LISTENER'S HAND-OVER QUEUE (src/core/sockfd.c).  "A listener keeps accepting
   further connections": every descriptor the listener takes over (NNG_OPT_SOCKET_FD returns 0) is
   handed to exactly one accept, in FIFO order, or closed by the listener (at close, or when the
   stream cannot be allocated) -- none lost, none handed out or closed twice.
   Object: Core/SfdqModel.v, one step per entry point (all run under l->mtx), the array listen_q
   with checked accesses, flags [fixed] (the shift in sfd_start_conn) and [fixclose] (close empties
   the queue).  Spec: a plain list queue ([sp_step]).
   (a) refinement: with both repairs every step of the listener is the step of the list queue, with
       equal outputs, and no access leaves the array;
   (b) conservation over ALL histories: the descriptors taken over, in order, are exactly those that
       left (delivered or closed), in order, followed by those still queued; after close nothing is
       queued; consequently nothing leaves twice;
   (c) the statement for the tree as it is, behind the flags regenerated from the source. *)
Theorem sfdq_refines_fifo : forall cap s o s' outs,
  SfInv cap s -> sf_step true true cap s o = (s', outs) ->
  SfInv cap s' /\ sp_step cap (sf_abs s) o = (sf_abs s', outs).
Proof. exact sf_step_refines. Qed.
Print Assumptions sfdq_refines_fifo.

Theorem sfdq_none_lost_none_duplicated : forall cap ops s tr,
  sf_run true true cap (sfdl_init cap) ops = (s, tr) ->
  (flat_map took tr = flat_map left_of tr ++ firstn (sf_cnt s) (sf_q s) /\
   sf_poison s = false /\ ~ In SfOob (flat_map snd tr) /\ (sf_closed s = true -> sf_cnt s = 0)) /\
  (NoDup (flat_map took tr) -> NoDup (flat_map left_of tr)).
Proof. intros. split; [eapply sfdq_conservation; eauto|eapply sfdq_no_duplicates; eauto]. Qed.
Print Assumptions sfdq_none_lost_none_duplicated.

Theorem sfdq_holds_when_repaired :
  C14_SFDQ_SHIFT_FIXED = true -> C14_SFDQ_CLOSE_RESETS = true ->
  forall ops s tr,
  sf_run C14_SFDQ_SHIFT_FIXED C14_SFDQ_CLOSE_RESETS C14_SFD_LISTEN_QUEUE (sfdl_init C14_SFD_LISTEN_QUEUE) ops = (s, tr) ->
  flat_map took tr = flat_map left_of tr ++ firstn (sf_cnt s) (sf_q s) /\
  ~ In SfOob (flat_map snd tr) /\ (sf_closed s = true -> sf_cnt s = 0) /\
  (NoDup (flat_map took tr) -> NoDup (flat_map left_of tr)).
Proof.
  intros H1 H2 ops s tr R. rewrite H1, H2 in R.
  destruct (sfdq_conservation _ _ _ _ R) as (A & _ & B & C). repeat split; auto.
  eapply sfdq_no_duplicates; eauto.
Qed.
Print Assumptions sfdq_holds_when_repaired.

(* the tree as it is: both repairs are present and sfd_listener_set_fd has the shape the model was written from
   (closed -> ECLOSED, full -> ENOSPC, append, serve the oldest waiting accept); any of the three flags reading
   false makes this proof fail, and an unrecognised shift / close function is reported by the drop-in itself *)
Theorem sfdq_shapes_current :
  C14_SFDQ_SHIFT_FIXED = true /\ C14_SFDQ_CLOSE_RESETS = true /\ C14_SFDQ_SETFD_SHAPE_OK = true.
Proof. repeat split; reflexivity. Qed.
Print Assumptions sfdq_shapes_current.

Theorem sfdq_holds_current : forall ops s tr,
  sf_run C14_SFDQ_SHIFT_FIXED C14_SFDQ_CLOSE_RESETS C14_SFD_LISTEN_QUEUE (sfdl_init C14_SFD_LISTEN_QUEUE) ops = (s, tr) ->
  flat_map took tr = flat_map left_of tr ++ firstn (sf_cnt s) (sf_q s) /\
  ~ In SfOob (flat_map snd tr) /\ (sf_closed s = true -> sf_cnt s = 0) /\
  (NoDup (flat_map took tr) -> NoDup (flat_map left_of tr)).
Proof. destruct sfdq_shapes_current as (A & B & _). exact (sfdq_holds_when_repaired A B). Qed.
Print Assumptions sfdq_holds_current.

Example sfdq_nonvacuous :
  (* accepts before and after the descriptors, a full queue (ENOSPC for the 17th), a failed stream allocation,
     a cancelled accept, close with descriptors queued, a second close (= stop) *)
  let ops := [SfAccept 0 true; SfAccept 1 true; SfSetFd 1 true; SfCancel 1 20%N] ++
             map (fun k => SfSetFd (N.of_nat (10 + k)) true) (seq 0 17) ++
             [SfAccept 2 true; SfAccept 3 false; SfSetFd 40 true; SfClose; SfClose; SfSetFd 41 true; SfAccept 4 true] in
  let tr := snd (sf_run true true 16 (sfdl_init 16) ops) in
  flat_map took tr = ([1] ++ map (fun k => N.of_nat (10 + k)) (seq 0 16) ++ [40])%N /\
  flat_map left_of tr = flat_map took tr /\
  flat_map delivered1 (flat_map snd tr) = [1; 10]%N /\
  NoDup (flat_map took tr).
Proof.
  vm_compute. repeat split.
  repeat (constructor; [simpl; intros X; repeat (destruct X as [X|X]; [discriminate X|]); exact X|]). constructor.
Qed.

(* The pinned forms do not satisfy it.  [sfdq_shift_refuted]: three descriptors queued, three accepts:
   the first descriptor is handed out three times, the other two are never delivered and not even closed
   at close (replayed on the library: findings/c14/sfd-listen-queue-shift.txt); with a full queue the shift
   reads listen_q[NNG_SFD_LISTEN_QUEUE].  [sfdq_close_twice_refuted]: close followed by stop closes the
   queued descriptors twice (on the library the second close hits whatever the application opened in
   between).  Both statements are behind the flags: vacuous once the source is repaired. *)
Theorem sfdq_shift_refuted :
  C14_SFDQ_SHIFT_FIXED = false ->
  (let tr := snd (sf_run C14_SFDQ_SHIFT_FIXED C14_SFDQ_CLOSE_RESETS C14_SFD_LISTEN_QUEUE (sfdl_init C14_SFD_LISTEN_QUEUE) shift_witness) in
   flat_map took tr = [11; 12; 13]%N /\ flat_map left_of tr = [11; 11; 11]%N) /\
  In SfOob (flat_map snd (snd (sf_run C14_SFDQ_SHIFT_FIXED C14_SFDQ_CLOSE_RESETS C14_SFD_LISTEN_QUEUE
                                  (sfdl_init C14_SFD_LISTEN_QUEUE) (full_queue_ops C14_SFD_LISTEN_QUEUE)))).
Proof.
  destruct C14_SFDQ_SHIFT_FIXED; intros H; [discriminate H|].
  destruct C14_SFDQ_CLOSE_RESETS; vm_compute; auto 30.
Qed.
Print Assumptions sfdq_shift_refuted.

Theorem sfdq_close_twice_refuted :
  C14_SFDQ_CLOSE_RESETS = false ->
  flat_map left_of (snd (sf_run C14_SFDQ_SHIFT_FIXED C14_SFDQ_CLOSE_RESETS C14_SFD_LISTEN_QUEUE
                           (sfdl_init C14_SFD_LISTEN_QUEUE) close_twice_witness)) = [21; 22; 21; 22]%N.
Proof.
  destruct C14_SFDQ_CLOSE_RESETS; intros H; [discriminate H|].
  destruct C14_SFDQ_SHIFT_FIXED; vm_compute; reflexivity.
Qed.
Print Assumptions sfdq_close_twice_refuted.

Theorem sfdq_repaired_witnesses :
  flat_map left_of (snd (sf_run true true C14_SFD_LISTEN_QUEUE (sfdl_init C14_SFD_LISTEN_QUEUE) shift_witness)) = [11; 12; 13]%N /\
  flat_map left_of (snd (sf_run true true C14_SFD_LISTEN_QUEUE (sfdl_init C14_SFD_LISTEN_QUEUE) close_twice_witness)) = [21; 22]%N /\
  SF_ENOSPC = C14_ENOSPC /\ SF_ENOMEM = C14_ENOMEM /\ SF_ECLOSED = C14_ECLOSED.
Proof. vm_compute. repeat split; reflexivity. Qed.
Print Assumptions sfdq_repaired_witnesses.

(* ------------------------------------------------------------------------------------ *)
(* the literals, tables and code shapes the models use are those of the current source *)
Theorem c14_consts_match :
  (EV_NONE = C14_PIPE_EV_NONE /\ EV_ADD_PRE = C14_PIPE_EV_ADD_PRE /\ EV_ADD_POST = C14_PIPE_EV_ADD_POST /\
   EV_REM_POST = C14_PIPE_EV_REM_POST /\ EV_NUM = C14_PIPE_EV_NUM /\
   D_ECLOSED = C14_ECLOSED /\ D_ECANCELED = C14_ECANCELED /\ D_ESTOPPED = C14_ESTOPPED /\ D_EBUSY = C14_EBUSY /\
   L_ECLOSED = C14_ECLOSED /\ L_ECANCELED = C14_ECANCELED /\ L_ESTOPPED = C14_ESTOPPED /\
   L_ECONNABORTED = C14_ECONNABORTED /\ L_ECONNRESET = C14_ECONNRESET /\ L_ETIMEDOUT = C14_ETIMEDOUT /\
   L_EPEERAUTH = C14_EPEERAUTH /\ L_ECONNSHUT = C14_ECONNSHUT /\ L_EBUSY = C14_EBUSY /\
   L_COOLDOWN_MS = C14_LISTENER_COOLDOWN_MS) /\
  (C14_RUNCB_SHAPE_OK = true /\ C14_START_PIPE_ORDER_OK = true /\ C14_REAP_ORDER_OK = true /\
   C14_SHUTDOWN_ORDER_OK = true /\ C14_REMOVE_KICKS = true /\ C14_DIALER_RETRY_SHAPE = true /\
   C14_LISTENER_TIMER_REARMS = true /\ C14_ECONNABORTED_CLOSE_ONLY = true /\
   forallb snd C14_NEGO_MAPS_ECLOSED = true) /\
  (forall rv, dclass_num (dialer_connect_class rv) = tab_lookup C14_DIALER_CASES C14_DIALER_DEFAULT rv) /\
  (forallb (fun kv => negb (N.eqb (lact_num (listener_accept_decision (snd kv))) 3) || stop_code (snd kv)) C14_ERR_ENUM = true /\
   map snd (filter (fun kv => stop_code (snd kv)) C14_ERR_ENUM) = [C14_ECLOSED; C14_ECONNABORTED; C14_ECANCELED; C14_ESTOPPED]).
Proof. split; [exact c14_literals|]. split; [exact c14_shapes|]. split; [exact dialer_table_matches|exact enum_sweep]. Qed.
Print Assumptions c14_consts_match.
