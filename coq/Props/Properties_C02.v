(* Properties_C02: statements only.  C02 -- every asynchronous operation completes
   exactly once.  The object is the interleaving semantics of one nni_aio
   (Core/AioModel.v): a run [arun aio_init ls] is any sequence of critical
   sections of aio.c / taskq.c / the provider, by any number of threads, in any
   order the locks allow; continuations a thread has not yet executed may be
   overtaken by any other step.  Every theorem quantifies over all runs, and (except where said) over both forms
   of the expire loop ([fixed] = false: the pinned tree; true: the repaired one). *)
From Coq Require Import List Arith NArith ZArith Bool.
From NngV Require Import Gen.Consts Core.AioModel Core.AioProofs Core.AioFw Core.ExpireScan Core.AioDeadline Core.AioDeadlineProofs.
Import ListNotations.

(* exactly once: in every reachable state each submitted operation has exactly one
   completion token -- with the provider, being finished, being dispatched,
   queued, or already run as a callback; never more callbacks than submissions;
   at most one completion in flight; the task's busy count is exact *)
Theorem aio_at_most_once : forall fixed fdone ls s, arun fixed fdone aio_init ls = Some s ->
  g_subs s = g_cbs s + t_queued s + tokens s /\ g_cbs s <= g_subs s /\ tokens s + t_queued s <= 1 /\
  t_busy s = (if t_prep s then 1 else 0) + t_queued s + t_running s.
Proof. exact aio_exactly_once. Qed.
Print Assumptions aio_at_most_once.

(* once nni_aio_stop has returned, every operation submitted before has had its
   callback, and no callback of such an operation starts afterwards *)
Theorem aio_stop_quiesces : forall fixed fdone ls s, arun fixed fdone aio_init ls = Some s ->
  g_cb_after_stop s = false /\ (g_stop_returned s = true -> g_subs_at_stop s <= g_cbs s).
Proof. exact AioProofs.aio_stop_quiesces. Qed.
Print Assumptions aio_stop_quiesces.

(* the state in which nni_aio_stop returns: nothing queued, running or in flight *)
Theorem aio_stop_returns_idle : forall fixed fdone s k rest s',
  Inv1 s -> nth_error (threads s) k = Some (PStopWait :: rest) -> astep fixed fdone s (LRun k) = Some s' ->
  t_queued s' = 0 /\ t_running s' = 0 /\ tokens s' = 0 /\ g_cbs s' = g_subs s' /\ a_stop s' = a_stop s.
Proof. exact aio_stop_return_state. Qed.
Print Assumptions aio_stop_returns_idle.

(* result consistency, the part that holds: in runs where no abort arrives between
   the completion of an operation and its callback ("late" abort), every callback
   reads the result of the completion that won *)
Theorem aio_result_consistent_partial : forall fixed fdone ls s s',
  Inv1 s -> Inv2 s -> InvR s -> arun_nl fixed fdone s ls -> arun fixed fdone s ls = Some s' -> g_bad_result s' = false.
Proof. exact AioProofs.aio_result_consistent_partial. Qed.
Print Assumptions aio_result_consistent_partial.

(* in full, for the source as it is now (the form of nni_aio_abort is read from aio.c on every
   run; fix e9a11c8): in EVERY run every callback reads the result of the completion that won *)
Theorem aio_result_consistent : forall fixed ls s,
  arun fixed C02_ABORT_DONE_FIXED aio_init ls = Some s -> g_bad_result s = false.
Proof.
  intros fixed ls s H.
  exact (aio_result_consistent_holds fixed ls aio_init s inv1_init inv2_init invR_init invD_init H).
Qed.
Print Assumptions aio_result_consistent.

(* ... and the pinned nni_aio_abort (before fix e9a11c8), for which it did not hold: an abort that arrives
   after an operation has completed with success, before its callback has run,
   makes the callback read the abort's code (the known finding aio-late-abort) *)
Theorem aio_result_refuted : forall fixed, exists s, arun fixed false aio_init late_abort_run = Some s /\ g_bad_result s = true.
Proof. exact AioProofs.aio_result_refuted. Qed.
Print Assumptions aio_result_refuted.

(* when nni_aio_stop / nni_aio_fini has returned the expire thread holds no reference to the
   aio (not marked, no continuation of the expire loop pending, off the expire list for good):
   the memory may be released *)
Theorem aio_stop_no_expire_reference : forall fixed fdone ls s,
  arun fixed fdone aio_init ls = Some s -> g_stop_returned s = true ->
  a_expiring s = false /\ exp_threads (threads s) = 0 /\ a_on_eq s = false.
Proof. intros fixed fdone ls s H. exact (proj2 (AioProofs.aio_stop_no_expire_reference fixed fdone ls aio_init s invE_init H)). Qed.
Print Assumptions aio_stop_no_expire_reference.

(* the expire loop's scan over the whole queue (Core/ExpireScan.v: batch limit and eq_next):
   no due operation is forgotten - a due entry that does not fit into the batch keeps the loop
   awake, and within ceil(n / batch) rounds every due entry has been taken, in queue order,
   and nothing that is not due *)
Theorem expire_scan_due_left_keeps_awake : forall now room l b rest nx,
  scan now room l None = (b, rest, nx) -> forall x, In x rest -> due now x = true -> sleeps now nx = false.
Proof. exact scan_due_left_keeps_awake. Qed.
Print Assumptions expire_scan_due_left_keeps_awake.
Theorem expire_rounds_mark_all_due : forall now batch, 0 < batch -> forall fuel l bs fin,
  length l < fuel * batch -> rounds fuel now batch l = (bs, fin) ->
  (forall x, In x fin -> due now x = false) /\
  (forall x, In x l <-> In x (concat bs) \/ In x fin) /\
  (forall x, In x (concat bs) -> due now x = true).
Proof. exact rounds_mark_all_due. Qed.
Print Assumptions expire_rounds_mark_all_due.
Theorem expire_batch_matches_source : NNI_EXPIRE_BATCH_MODEL = C02_NNI_EXPIRE_BATCH.
Proof. reflexivity. Qed.
Print Assumptions expire_batch_matches_source.
(* a check of the code's shape, regenerated on every run: the scan loop of the source still has
   the two-branch form that [scan] models (due and room: into the batch; else: lower eq_next) *)
Theorem expire_scan_shape_current : C02_EXPIRE_SCAN_SHAPE = true.
Proof. reflexivity. Qed.
Print Assumptions expire_scan_shape_current.

(* progress: every step of the library's own threads strictly decreases a measure, so
   from any state the completion machinery reaches quiescence within mu steps
   once the environment stops issuing new operations *)
Theorem aio_bounded_to_completion : forall fixed fdone s l s', internal l -> astep fixed fdone s l = Some s' -> mu s' < mu s.
Proof. exact aio_internal_decreases. Qed.
Print Assumptions aio_bounded_to_completion.

(* the expire loop's scan marks only operations whose deadline has passed ... *)
Theorem aio_scan_marks_only_due : forall fixed fdone s now s',
  astep fixed fdone s (LExpire now) = Some s' -> exists e, a_expire s = Some e /\ (e < now)%N.
Proof.
  intros fixed fdone s now s' H. cbn [astep] in H. destruct (a_on_eq s && negb (a_expiring s)); [|discriminate].
  destruct (a_expire s) as [e|]; cbn in H; [|discriminate].
  destruct (e <? now)%N eqn:E; cbn in H; [|discriminate]. exists e. split; auto. now apply N.ltb_lt.
Qed.
Print Assumptions aio_scan_marks_only_due.

(* ... and, in the source as it is now (the form of the loop is read from aio.c on every
   run), the expire loop never DECIDES to time out an operation whose deadline has not passed
   ([g_early] is set at the moment the loop, holding the lock, picks the result for a batch
   entry).  Partial: the property also needs the decision to reach the operation it was made
   for - see aio_timeout_stale_cancel_refuted below. *)
Theorem aio_timeout_never_early_partial : forall fdone ls s s',
  g_early s = false -> arun C02_EXPIRE_RECHECK_FIXED fdone s ls = Some s' -> g_early s' = false.
Proof. exact aio_timeout_not_early_holds. Qed.
Print Assumptions aio_timeout_never_early_partial.

(* the full statement - no operation completes with a timeout before its own deadline - is
   false of the faithful model, in both forms of the loop: the loop drops its lock before it
   calls the cancel function it took from operation 1; operation 1 completes by another cause,
   its callback runs, operation 2 (deadline 1000) starts on the same aio, and the pending call
   cancels operation 2 with A_TIMEDOUT while no clock reading exceeded 10.  On the real code:
   known finding expire-stale-cancel-early-timeout (checks/c02_opkinds.py reproduces it). *)
Theorem aio_timeout_stale_cancel_refuted : forall fixed fdone, exists s1 s2,
  arun fixed fdone aio_init (firstn 9 stale_cancel_run) = Some s1 /\
  a_expire s1 = Some 1000%N /\ p_owns s1 = true /\ g_subs s1 = 2 /\ g_cbs s1 = 1 /\
  arun fixed fdone s1 (skipn 9 stale_cancel_run) = Some s2 /\
  g_cbs s2 = 2 /\ a_result s2 = A_TIMEDOUT /\ g_early s2 = false /\ g_bad_result s2 = false.
Proof. exact stale_cancel_delivers_early. Qed.
Print Assumptions aio_timeout_stale_cancel_refuted.

(* the pinned tree did deliver one (repaired by a fix: commit): operation 1 is marked by the
   scan; while the loop has its lock dropped for an earlier entry of the batch it completes
   and operation 2 with a later deadline starts on the same aio; the loop cancels it *)
Theorem aio_timeout_early_refuted : forall fdone,
  exists s, arun false fdone aio_init early_timeout_run = Some s /\ g_early s = true.
Proof. exact AioProofs.aio_timeout_early_refuted. Qed.
Print Assumptions aio_timeout_early_refuted.
Theorem aio_timeout_early_repaired : forall fdone,
  exists s, arun true fdone aio_init early_timeout_run = Some s /\ g_early s = false /\ p_owns s = true /\ a_expiring s = false.
Proof. exact AioProofs.aio_timeout_early_repaired. Qed.
Print Assumptions aio_timeout_early_repaired.

(* the functions the H2 trace conformance replays are the framework-field
   projections of the model's steps *)
Theorem aio_model_steps_are_trace_functions : forall fixed fdone,
  (forall s rv s', astep fixed fdone s (LAbort rv) = Some s' -> fw_step fdone (TAbort rv) (fw_of s) = Some (fw_of s')) /\
  (forall s s', astep fixed fdone s LStop = Some s' -> fw_step fdone TStop (fw_of s) = Some (fw_of s')) /\
  (forall s s', astep fixed fdone s LClose = Some s' -> fw_step fdone TClose (fw_of s) = Some (fw_of s')) /\
  (forall s s', astep fixed fdone s LReset = Some s' -> fw_step fdone TReset (fw_of s) = Some (fw_of s')) /\
  (forall s now s', astep fixed fdone s (LExpire now) = Some s' -> fw_step fdone TExpireMark (fw_of s) = Some (fw_of s')).
Proof.
  intros fixed fdone. repeat split;
    [apply astep_fw_abort|apply astep_fw_stop|apply astep_fw_close|apply astep_fw_reset|apply astep_fw_expire_mark].
Qed.
Print Assumptions aio_model_steps_are_trace_functions.

Theorem aio_model_start_is_trace_function : forall fixed fdone s zero dl sleep eok s',
  a_sleep s = sleep -> (sleep = true -> a_expire_ok s = eok) ->
  astep fixed fdone s (LStart zero dl sleep eok) = Some s' ->
  exists k, fw_step fdone k (fw_of s) = Some (fw_of s') /\
    k = (if a_stop s then TStartStopped else if a_abort s then TStartAborted else if zero then TStartTimeout
         else TStartOk true (match dl with Some _ => true | None => false end)).
Proof. exact astep_fw_start. Qed.
Print Assumptions aio_model_start_is_trace_function.

Theorem aio_model_continuations_are_trace_functions : forall fixed fdone s a s1 more, run_pact fixed s a = Some (s1, more) ->
  match a with
  | PFinish rv => fw_step fdone (TFinish rv) (fw_of s) = Some (fw_of s1)
  | PExpireDone => fw_step fdone TExpireDone (fw_of s) = Some (fw_of s1)
  | PCallCancel rv =>
      if p_owns s && p_sleep s then a_sleep s = true -> fw_step fdone (TSleepCancel rv) (fw_of s) = Some (fw_of s1)
      else fw_of s1 = fw_of s
  | PExpireProc now =>
      a_expiring s = true ->
      let due := match a_expire s with Some e => (e <? now)%N | None => false end in
      if fixed && negb due then fw_step fdone TExpireSkip (fw_of s) = Some (fw_of s1)
      else
        let rv := if a_expire_ok s then A_OK else A_TIMEDOUT in
        exists f1, fw_step fdone (TExpire rv) (fw_of s) = Some f1 /\
          (if a_sleep s || negb (a_cancel s) then fw_step fdone TExpireDone f1 = Some (fw_of s1) else f1 = fw_of s1)
  | PDispatch | PStopWait => fw_of s1 = fw_of s
  end.
Proof. exact run_pact_fw. Qed.
Print Assumptions aio_model_continuations_are_trace_functions.

Theorem aio_consts_match : A_STOPPED = NNG_ESTOPPED /\ A_TIMEDOUT = NNG_ETIMEDOUT /\ A_CANCELED = NNG_ECANCELED.
Proof. repeat split; reflexivity. Qed.
Print Assumptions aio_consts_match.

(* non-vacuity: a run with a submission, a timeout and a stop reaches a state that has
   run its callback exactly once *)
Example aio_run_nonvacuous :
  exists s, arun true true aio_init [LStart false (Some 100%N) false false; LExpire 200%N; LRun 0; LRun 0; LRun 0; LRun 0; LRun 0; LRunCb; LCbDone; LStop; LRun 0]
            = Some s /\ g_subs s = 1 /\ g_cbs s = 1 /\ g_stop_returned s = true.
Proof. eexists. split; [vm_compute; reflexivity|auto]. Qed.

(* a check of the code's *shape*, regenerated from the source on every run: at every
   call site of nni_aio_start outside the tests the result is honoured (tested,
   returned, or explicitly discarded where documented) -- the one obligation of the
   provider contract that is syntactic, extended to the providers that have no model *)
Theorem aio_start_sites_guarded : forallb (fun x => snd x) AIO_START_SITES = true.
Proof. vm_compute. reflexivity. Qed.
Print Assumptions aio_start_sites_guarded.

(* ---- the PROVIDER CONTRACT as a monitor over the observable history of one aio
   (Core/ProvContract.v: submissions, nni_aio_start accepted/refused, completions, callbacks,
   a_stop, return of nng_aio_stop).  The theorems above are about AioModel, whose provider is
   well-behaved by construction; [pc_step] says what that means on observations, so that it can
   be checked of the REAL providers (harness/wb_opkinds.c feeds the extracted monitor the
   histories of user aios on every operation kind).  For every accepted history, of any length: *)
From NngV Require Import Core.ProvContract Core.ProvContractLink.

(* exactly once, with one result: the completions' results, in order, are the results the
   callbacks read, in order (plus the one whose callback is owed); every submission has
   exactly one completion (except the one still with the provider) *)
Theorem provider_contract_exactly_once : forall evs m, pc_run pc_init evs = Some m ->
  completions evs = callbacks evs ++ owed_callback (pc_phase m) /\
  submits evs = length (completions evs) + owed_completion (pc_phase m) /\
  length (callbacks evs) = cbdones evs + pc_running m.
Proof. exact pc_accepted_exactly_once. Qed.
Print Assumptions provider_contract_exactly_once.

Theorem provider_contract_terminated : forall evs m, pc_run pc_init evs = Some m -> pc_phase m = PIdle ->
  submits evs = length (callbacks evs) /\ completions evs = callbacks evs.
Proof. exact pc_terminated_exactly_once. Qed.
Print Assumptions provider_contract_terminated.

(* ... at every moment of the history (accepted histories are prefix closed) *)
Theorem provider_contract_never_more : forall a b m, pc_run pc_init (a ++ b) = Some m ->
  length (callbacks a) <= length (completions a) <= submits a.
Proof. exact pc_never_more. Qed.
Print Assumptions provider_contract_never_more.

(* once nng_aio_stop has returned: nothing owed, nothing running; once a_stop is latched
   no operation is accepted any more *)
Theorem provider_contract_stop_returned : forall a b m, pc_run pc_init (a ++ EStopReturned :: b) = Some m ->
  submits a = length (callbacks a) /\ completions a = callbacks a /\ length (callbacks a) = cbdones a.
Proof. exact pc_stop_returned_quiescent. Qed.
Print Assumptions provider_contract_stop_returned.
Theorem provider_contract_no_start_after_stop : forall a b m,
  pc_run pc_init (a ++ EFwStop :: b) = Some m -> ~ In EStartOk b.
Proof. exact pc_no_start_after_stop. Qed.
Print Assumptions provider_contract_no_start_after_stop.

(* the link: the monitor is the model's interface, not a second specification.  For the source
   as it is now (form of nni_aio_abort read from aio.c) EVERY run of AioModel, under every
   interleaving, projects (ProvContractLink.ev_of_step: what the caller and the trace see of each
   critical section) to a history the monitor accepts, ending in the monitor state that
   corresponds to the model state; and the monitor's counts are the model's ghost counters *)
Theorem aio_model_histories_accepted : forall fixed ls s,
  arun fixed C02_ABORT_DONE_FIXED aio_init ls = Some s ->
  exists m, pc_run pc_init (history fixed C02_ABORT_DONE_FIXED aio_init ls) = Some m /\ Rel s m.
Proof. exact model_histories_accepted. Qed.
Print Assumptions aio_model_histories_accepted.
Theorem aio_model_history_counts : forall fixed fdone ls s, arun fixed fdone aio_init ls = Some s ->
  g_subs s = submits (history fixed fdone aio_init ls) /\
  g_cbs s = length (callbacks (history fixed fdone aio_init ls)).
Proof. intros fixed fdone ls s H. exact (history_counts fixed fdone ls aio_init s H). Qed.
Print Assumptions aio_model_history_counts.

(* the pinned nni_aio_abort (before fix e9a11c8) is refused by the monitor: the late-abort run
   makes the callback read a result other than the completion's *)
Theorem provider_contract_refuses_late_abort :
  pc_run pc_init (history true false aio_init late_abort_run) = None.
Proof. vm_compute. reflexivity. Qed.
Print Assumptions provider_contract_refuses_late_abort.

(* the two breaches the seeded changes C02/4 and C02/5 are instances of: a completion after a
   refused nni_aio_start is refused; an accepted operation that is never completed is accepted
   as a history (it breaches nothing yet) but owes a completion for ever - liveness, which the
   harness checks as "lost completion" *)
Example provider_contract_refuses_finish_after_refused_start :
  pc_run pc_init [EFwStop; EStopReturned; ESubmit; EStartRefused NNG_ESTOPPED; EFinish NNG_ESTOPPED] = None.
Proof. reflexivity. Qed.
Example provider_contract_owed_completion :
  exists m, pc_run pc_init [ESubmit; EStartOk] = Some m /\ owed_completion (pc_phase m) = 1.
Proof. eexists. split; reflexivity. Qed.

(* "the configured duration": which deadline an operation gets (Core/AioDeadline.v: a_timeout, a_expire,
   a_use_expire and every function of aio.c that touches them; the result is the [zero]/[dl] argument of
   LStart above).  For the source as it is now (the three places that retire an absolute expiry are read
   from aio.c on every run) and for every history of nng_aio_set_timeout, nng_aio_set_expire,
   nni_aio_normalize_timeout, starts (accepted or refused), sleeps and completions: the deadline used is the
   one the specification names - the relative timeout counted from the start, unless an absolute expiry
   was set for exactly this operation *)
Theorem aio_deadline_is_configured : forall os,
  dl_run C02_DL_SET_CLEARS C02_DL_FINISH_CLEARS C02_DL_START_CONSUMES dl_init os = sp_run sp_init os.
Proof. exact deadline_is_configured. Qed.
Print Assumptions aio_deadline_is_configured.

(* a relative timeout d > 0 in force and no absolute expiry pending: the deadline is now + d *)
Theorem aio_deadline_relative : forall (s : sp) (now : N), s_abs s = None -> (0 < s_timeout s)%Z ->
  sp_verdict s now = VDeadline (Some (after now (s_timeout s))).
Proof. exact sp_verdict_rel. Qed.
Print Assumptions aio_deadline_relative.

(* each of the three is needed: without any one of them some history gets another deadline
   (the pinned tree lacked the third: finding stale-use-expire) *)
Theorem aio_deadline_refuted : forall fset ffin fcons, fset && ffin && fcons = false ->
  exists os, dl_run fset ffin fcons dl_init os <> sp_run sp_init os.
Proof. exact deadline_refuted. Qed.
Print Assumptions aio_deadline_refuted.
