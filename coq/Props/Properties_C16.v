(* Properties_C16: statements only (in progress) *)
From Coq Require Import List.
