(* Properties_C16: statements only.  C16 -- WebSocket/HTTP codecs:
   segmentation-independent and rule-enforcing. *)
From Coq Require Import List Arith NArith Bool Lia.
From NngV Require Import Gen.Consts Base.ListX Base.Bytes Codec.Staged Codec.WsFrameModel Codec.WsMsgModel
  Codec.ChunkedModel Codec.B64Model Codec.HttpLineModel Codec.CodecSpec
  Codec.HttpBufModel Codec.WsProofs Codec.ChunkedProofs Codec.HttpProofs Codec.HttpBufProofs Codec.B64Proofs
  Codec.HttpIov Codec.HttpIovProofs.
Import ListNotations.
Local Open Scope N_scope.

(* ---------------------------------------------------------------- (a) *)
(* What ws_frame_prep_tx / ws_msg_init_control write as a header is read back
   by the header part of ws_read_cb as the same opcode, FIN bit, mask bit,
   payload length (for every length below 2^64, in particular below 2^63), with
   the "minimal encoding" test passing, the header length the decoder asks
   for, and the masking key. *)
Theorem ws_hdr_roundtrip : forall op final len, op < 128 -> len < 2 ^ 63 ->
  hdr_decodes (ws_hdr op final len) op final false len [] /\
  forall key, length key = 4%nat ->
    hdr_decodes (set_mask_bit (ws_hdr op final len) ++ key) op final true len key.
Proof.
  intros op final len Ho Hl.
  assert (H64: len < 2 ^ 64) by (eapply N.lt_trans; [exact Hl|reflexivity]).
  split; [exact (ws_hdr_unmasked op final len Ho H64)|].
  intros key Hk. exact (ws_hdr_masked op final len key Ho H64 Hk).
Qed.
Print Assumptions ws_hdr_roundtrip.

(* every emitted frame uses the shortest length form and is masked iff the sender is a client *)
Theorem ws_encode_minimal : forall server key op final payload,
  N.of_nat (length payload) < 2 ^ 64 ->
  exists h0 h1 rest, ws_encode server key op final payload = h0 :: h1 :: rest /\
    hd_masked h1 = negb server /\ minimal_form (hd_len7 h1) (N.of_nat (length payload)).
Proof. exact ws_encode_minimal_lemma. Qed.
Print Assumptions ws_encode_minimal.

Theorem mask_involutive : forall key l, mask_bytes key (mask_bytes key l) = l.
Proof. exact mask_involutive_lemma. Qed.
Print Assumptions mask_involutive.

(* the 16/8/4/1 stride loop of ws_apply_mask computes the bytewise definition *)
Theorem mask_strided_eq_bytewise : forall key l, mask_strided key l = mask_bytes key l.
Proof. exact mask_strided_eq. Qed.
Print Assumptions mask_strided_eq_bytewise.

(* decode after encode, through the staged decoder: a frame emitted by the
   opposite role and letin by the size limits produces exactly the effect of
   ws_read_frame_cb on (opcode, FIN, unmasked payload) *)
Theorem ws_frame_roundtrip : forall cfg s key op final payload,
  w_stage s = SHead -> op < 128 -> length key = 4%nat -> N.of_nat (length payload) < 2 ^ 64 ->
  frame_letin cfg s op (N.of_nat (length payload)) ->
  ws_feed cfg (mkD s []) (ws_encode (negb (c_server cfg)) key op final payload) =
    let '(s1, e1) := ws_frame_cb cfg s op final payload in (mkD s1 [], e1).
Proof. exact ws_feed_frame. Qed.
Print Assumptions ws_frame_roundtrip.

(* ---------------------------------------------------------------- (b) *)
(* feeding a ++ b = feeding a, then b: same final state, events concatenated *)
Theorem ws_segmentation_independent : forall cfg d a b,
  ws_feed cfg d (a ++ b) =
    let '(d1, e1) := ws_feed cfg d a in let '(d2, e2) := ws_feed cfg d1 b in (d2, e1 ++ e2).
Proof. exact ws_feed_app. Qed.
Print Assumptions ws_segmentation_independent.

(* hence every way of cutting a stream into pieces gives the events of the uncut stream *)
Theorem ws_any_split_same_events : forall cfg rest p d,
  ws_feed_all cfg d (p :: rest) = ws_feed cfg d (concat (p :: rest)).
Proof. intros cfg. exact (feed_all_concat ws_state ws_event ws_want (ws_cb cfg)). Qed.
Print Assumptions ws_any_split_same_events.

Theorem chunk_segmentation_independent : forall st a b,
  chunk_feed st (a ++ b) =
    let '(s1, e1) := chunk_feed st a in let '(s2, e2) := chunk_feed s1 b in (s2, e1 ++ e2).
Proof. exact chunk_feed_app. Qed.
Print Assumptions chunk_segmentation_independent.

(* HTTP head parser (http_rd_buf keeps the unconsumed bytes and repeats
   nni_http_req_parse / nni_http_res_parse when more arrive): for both variants
   of the parser text and for requests and responses *)
Theorem http_segmentation_independent : forall keep strict isreq st a b,
  http_feed keep strict isreq st (a ++ b) =
    let '(s1, e1) := http_feed keep strict isreq st a in
    let '(s2, e2) := http_feed keep strict isreq s1 b in (s2, e1 ++ e2).
Proof. exact http_feed_app. Qed.
Print Assumptions http_segmentation_independent.

Theorem http_any_split_same_events : forall keep strict isreq rest p st,
  http_feed_all keep strict isreq st (p :: rest) = http_feed keep strict isreq st (concat (p :: rest)).
Proof. exact http_feed_all_concat. Qed.
Print Assumptions http_any_split_same_events.

(* The read buffer of the connection (http_rd_buf / http_rd_cb, flavors REQ and
   RES): bufsz bytes, every physical read limited to the room left, complete
   lines consumed, the incomplete line pulled up to the front, "too large"
   only when that line then fills the whole buffer.  For a stream of ANY total
   length in which no stretch of bufsz bytes is without a line feed (every line
   fits), read in whatever pieces, the events and the connection state are
   those of the unbounded parser on the whole stream: the buffer is
   transparent, and so the outcome does not depend on the cuts. *)
Theorem http_rdbuf_transparent : forall keep strict isreq bufsz pieces, (0 < bufsz)%nat ->
  lines_fit bufsz (concat pieces) ->
  let '(r, e1) := rd_feed_all true keep strict isreq bufsz rd_init pieces in
  let '(u, e2) := http_feed keep strict isreq hfeed_init (concat pieces) in
  e1 = e2 /\ rd_conn r = hf_conn u /\ rd_done r = hf_done u.
Proof. exact rd_buffer_transparent. Qed.
Print Assumptions http_rdbuf_transparent.

Theorem http_rdbuf_segmentation_independent : forall keep strict isreq bufsz p1 p2, (0 < bufsz)%nat ->
  concat p1 = concat p2 -> lines_fit bufsz (concat p1) ->
  snd (rd_feed_all true keep strict isreq bufsz rd_init p1) = snd (rd_feed_all true keep strict isreq bufsz rd_init p2) /\
  rd_conn (fst (rd_feed_all true keep strict isreq bufsz rd_init p1)) =
  rd_conn (fst (rd_feed_all true keep strict isreq bufsz rd_init p2)).
Proof. exact rd_segmentation_independent. Qed.
Print Assumptions http_rdbuf_segmentation_independent.

(* with the full-buffer test made BEFORE the pull-up ([pull_first] = false) a
   53-byte request with lines of at most 16 bytes, buffer of 40 bytes, is
   answered 431 when it arrives in one piece and 200 when cut at byte 30; the
   code as it is (C16_RDBUF_PULLUP_FIRST = true) answers 200 both times *)
Theorem http_rdbuf_test_before_pullup_refuted :
  (let '(r, e) := rd_feed_all false true true true 40 rd_init [small_req] in get_status (rd_conn r) = 431) /\
  (let '(r, e) := rd_feed_all false true true true 40 rd_init [firstn 30 small_req; skipn 30 small_req] in
     get_status (rd_conn r) = 200) /\
  (let '(r, e) := rd_feed_all true true true true 40 rd_init [small_req] in get_status (rd_conn r) = 200) /\
  (let '(r, e) := rd_feed_all true true true true 40 rd_init [firstn 30 small_req; skipn 30 small_req] in
     get_status (rd_conn r) = 200).
Proof. exact test_before_pullup_depends_on_cuts. Qed.
Print Assumptions http_rdbuf_test_before_pullup_refuted.

(* ---- reads with several io-vector elements (nng_http_read_all / nng_http_read, HTTP_RD_FULL / RAW) ----
   Codec/HttpIov.v: part of the read is served from the connection's read buffer, the used-up
   elements are dropped from the front of the user aio's vector (nni_aio_set_iov: ascending copy
   inside one array), the rest is a physical read into the user's buffers.  Repaired code: the
   vector the physical read gets, and the one the user aio keeps, are exactly the elements not
   yet used up, whatever the vector and however many elements the buffered bytes consumed. *)
Theorem http_read_iov_physical_read_gets_the_rest : forall a off, (off <= length a)%nat ->
  rd_vector true a off = skipn off a /\ user_vector a off = skipn off a.
Proof. intros a off H. split; [exact (rd_vector_fixed a off H)|exact (user_vector_spec a off H)]. Qed.
Print Assumptions http_read_iov_physical_read_gets_the_rest.
(* the code as pinned passed the pointer from before the copy: with one element used up and two
   left, the physical read got the LAST element twice -- the body ABCDEFGHIJKL read into three
   elements of 4 with 6 bytes buffered arrives as ABCD / EF?? / KLIJ with count 12 and no error *)
Theorem http_read_iov_stale_pointer_pinned_refuted :
  (1 <= length w_vec)%nat /\ rd_vector false w_vec 1 <> skipn 1 w_vec /\
  http_read_full false w_body 6 [4; 4; 4]%nat = ([[65; 66; 67; 68]; [69; 70; 238; 238]; [75; 76; 73; 74]]%N, 12%nat).
Proof.
  destruct rd_vector_pinned_w as (A & B & C). split; [exact A|]. split; [rewrite B, C; discriminate|exact http_read_full_pinned_w].
Qed.
Print Assumptions http_read_iov_stale_pointer_pinned_refuted.
Example http_read_iov_nonvacuous :
  http_read_full true w_body 6 [4; 4; 4]%nat = ([[65; 66; 67; 68]; [69; 70; 71; 72]; [73; 74; 75; 76]]%N, 12%nat) /\
  http_read_full true w_body 5 [2; 3; 7]%nat = ([[65; 66]; [67; 68; 69]; [70; 71; 72; 73; 74; 75; 76]]%N, 12%nat).
Proof. destruct http_read_full_fixed_w as (A & _ & C). split; assumption. Qed.

(* the line scanner itself: a decision taken on a prefix is never revised *)
Theorem http_line_scan_restartable : forall a b,
  http_scan_line (a ++ b) =
    match http_scan_line a with
    | SLine line rest => SLine line (rest ++ b)
    | SProto => SProto
    | SAgain => http_scan_line (a ++ b)
    end.
Proof. exact scan_line_split. Qed.
Print Assumptions http_line_scan_restartable.

Theorem http_scan_continues : forall l lc acc m,
  scan_from lc acc l = SAgain ->
  scan_from lc acc (l ++ m) = scan_from (fst (scan_state lc acc l)) (snd (scan_state lc acc l)) m.
Proof. exact scan_from_app_again. Qed.
Print Assumptions http_scan_continues.

(* ---------------------------------------------------------------- (c) *)
(* every listed rule violation fails the connection with the code computed by
   the checks in code order; [ws_fail] is: queue a close frame with the code,
   report CloseConn code, deliver nothing, stop reading *)
Theorem ws_decoder_rejects :
  (forall cfg s h0 h1 ext, snd (hd_len h1 ext) = false ->
     ws_header_done cfg s h0 h1 ext = ws_fail s WS_CLOSE_PROTOCOL_ERR) /\
  (forall cfg s h0 h1 ext len, hd_len h1 ext = (len, true) -> 0 < c_maxframe cfg -> c_maxframe cfg < len ->
     ws_header_done cfg s h0 h1 ext = ws_fail s WS_CLOSE_TOO_BIG) /\
  (forall cfg s h0 h1 ext len, hd_len h1 ext = (len, true) ->
     (c_maxframe cfg <? len) && (0 <? c_maxframe cfg) = false ->
     c_isstream cfg = false -> 0 < c_recvmax cfg -> c_ctl_counts cfg || (N.land (hd_op h0) 8 =? 0) = true ->
     c_recvmax cfg < len + sum_len (w_rxq s) ->
     ws_header_done cfg s h0 h1 ext = ws_fail s WS_CLOSE_TOO_BIG) /\
  (forall cfg s h0 h1 ext len, hd_len h1 ext = (len, true) ->
     (c_maxframe cfg <? len) && (0 <? c_maxframe cfg) = false ->
     recvmax_exceeded cfg s (hd_op h0) len = false ->
     hd_masked h1 = negb (c_server cfg) ->
     ws_header_done cfg s h0 h1 ext = ws_fail s WS_CLOSE_PROTOCOL_ERR) /\
  (forall cfg s op final payload, known_op op = false ->
     ws_frame_cb cfg s op final payload = ws_fail s WS_CLOSE_PROTOCOL_ERR) /\
  (forall h0, h0 < 256 -> negb (N.land h0 112 =? 0) = true -> known_op (hd_op h0) = false) /\
  (forall cfg s final payload, w_inmsg s = false ->
     ws_frame_cb cfg s WS_CONT final payload = ws_fail s WS_CLOSE_PROTOCOL_ERR) /\
  (forall cfg s final payload, w_inmsg s = true ->
     ws_frame_cb cfg s WS_BINARY final payload = ws_fail s WS_CLOSE_PROTOCOL_ERR) /\
  (forall cfg s final payload, c_recv_text cfg = false ->
     ws_frame_cb cfg s WS_TEXT final payload = ws_fail s WS_CLOSE_UNSUPP_FORMAT) /\
  (forall cfg s op final payload, op = WS_PING \/ op = WS_PONG -> 125 < N.of_nat (length payload) ->
     ws_frame_cb cfg s op final payload = ws_fail s WS_CLOSE_PROTOCOL_ERR) /\
  (forall s code, snd (ws_fail s code) = [ETx WS_CLOSE (be_enc 2 code); EClose code] /\
                  w_stage (fst (ws_fail s code)) = SHalt).
Proof.
  repeat split.
  - exact reject_nonminimal.
  - exact reject_maxframe.
  - exact reject_recvmax.
  - exact reject_mask.
  - exact reject_unknown_op.
  - exact rsv_is_unknown_op.
  - exact reject_cont_without_start.
  - exact reject_data_in_message.
  - exact reject_text.
  - exact reject_big_control.
Qed.
Print Assumptions ws_decoder_rejects.

(* once failed (or closed), whatever arrives in whatever pieces produces no event at all *)
Theorem ws_no_delivery_after_error : forall cfg pieces d,
  w_stage (d_inner d) = SHalt -> snd (ws_feed_all cfg d pieces) = [].
Proof. exact ws_no_delivery_after_halt. Qed.
Print Assumptions ws_no_delivery_after_error.

(* RECVMAXSZ and interleaved control frames.  In the text pinned at e917035
   (and as long as C16_RECVMAX_COUNTS_CONTROL is true) the running test of
   ws_read_cb adds the payload of ping/pong/close frames to the size of the
   message being assembled: a 10-byte message with RECVMAXSZ 10 is refused
   (1009) when a 5-byte ping arrives between its two fragments -- the
   reassembly property fails for that configuration; with the control frames
   left out of the sum ([c_ctl_counts] = false) it is delivered. *)
Definition ctl_recvmax_witness : list byte :=
  ws_encode_frames false (repeat [17; 34; 51; 68] 3)
    [(WS_BINARY, false, [49; 50; 51; 52; 53; 54; 55; 56]); (WS_PING, true, [65; 66; 67; 68; 69]); (WS_CONT, true, [57; 48])].
Theorem ws_recvmax_control_pinned_refuted :
  snd (ws_feed (mkCfg true false DEF_MAXRXFRAME 10 false (2 ^ 40) true) ws_dinit ctl_recvmax_witness) =
    [ETx WS_CLOSE (be_enc 2 WS_CLOSE_TOO_BIG); EClose WS_CLOSE_TOO_BIG].
Proof. vm_compute. reflexivity. Qed.
Print Assumptions ws_recvmax_control_pinned_refuted.
Theorem ws_recvmax_control_holds :
  snd (ws_feed (mkCfg true false DEF_MAXRXFRAME 10 false (2 ^ 40) false) ws_dinit ctl_recvmax_witness) =
    [ETx WS_PONG [65; 66; 67; 68; 69]; EDeliver [49; 50; 51; 52; 53; 54; 55; 56; 57; 48]] /\
  (forall cfg s len, c_ctl_counts cfg = false -> recvmax_exceeded cfg s WS_PING len = false /\
                     recvmax_exceeded cfg s WS_PONG len = false /\ recvmax_exceeded cfg s WS_CLOSE len = false).
Proof.
  split; [vm_compute; reflexivity|]. intros cfg s len H. unfold recvmax_exceeded. rewrite H.
  repeat split; cbn; rewrite !andb_false_r; reflexivity.
Qed.
Print Assumptions ws_recvmax_control_holds.

(* ---------------------------------------------------------------- (d) *)
(* A well-formed frame sequence [msg_seq]: any number of messages, each a single
   final data frame or a first frame followed by continuation frames, with
   ping/pong frames (<= 125 bytes) anywhere, also inside messages.  Its
   encoding by the opposite role, cut into pieces in any way, makes the
   decoder deliver exactly the concatenations of the data frames of each
   message, and leaves it in its initial state.  [letin_along]: every frame
   passes the configured size limits (see ws_limits_unlimited below). *)
Theorem ws_reassembly_exact : forall cfg frs ms keys,
  c_isstream cfg = false -> msg_seq cfg frs ms -> frames_encodable keys frs -> letin_along cfg ws_init frs ->
  forall p rest, concat (p :: rest) = ws_encode_frames (negb (c_server cfg)) keys frs ->
  let '(d, e) := ws_feed_all cfg ws_dinit (p :: rest) in deliveries e = ms /\ d = ws_dinit.
Proof. exact ws_reassembly_bytes. Qed.
Print Assumptions ws_reassembly_exact.

(* the same at the level of complete frames (effect of ws_read_frame_cb / ws_read_finish_msg) *)
Theorem ws_reassembly_frames : forall cfg, c_isstream cfg = false -> forall frs ms, msg_seq cfg frs ms ->
  let '(s1, e1) := ws_frames_run cfg (mkWs SHead false []) frs in
  deliveries e1 = ms /\ s1 = mkWs SHead false [].
Proof. exact ws_sequence_reassembles. Qed.
Print Assumptions ws_reassembly_frames.

(* reassemble (fragment fs m) = m, through the bytes and the decoder of the
   opposite role, for every fragment size (0 = no fragmentation) and every
   way of cutting the byte stream *)
Theorem ws_fragmentation_roundtrip : forall cfg send_text fragsize data keys,
  c_isstream cfg = false -> (send_text = true -> c_recv_text cfg = true) ->
  N.of_nat (length data) < 2 ^ 64 ->
  let frs := ws_send_frames false send_text fragsize data in
  (length frs <= length keys)%nat -> Forall (fun k => length k = 4%nat) keys ->
  letin_along cfg ws_init frs ->
  forall p rest, concat (p :: rest) = ws_encode_frames (negb (c_server cfg)) keys frs ->
  let '(d, e) := ws_feed_all cfg ws_dinit (p :: rest) in deliveries e = [data] /\ d = ws_dinit.
Proof. exact ws_fragmentation_bytes. Qed.
Print Assumptions ws_fragmentation_roundtrip.

(* the shape of the fragments: first has the data opcode, the others CONT,
   exactly the last is final, none exceeds fragsize, together they are the data *)
Theorem ws_fragment_shape_holds : forall send_text fragsize data, 0 < fragsize ->
  let frs := ws_send_frames false send_text fragsize data in
  concat (map fr_payload frs) = data /\
  frs <> [] /\ fr_final (last frs (0, true, [])) = true /\
  Forall (fun f => fr_final f = false -> N.of_nat (length (fr_payload f)) = fragsize) frs /\
  Forall (fun f => N.of_nat (length (fr_payload f)) <= fragsize) frs /\
  fr_op (hd (0, true, []) frs) = (if send_text then WS_TEXT else WS_BINARY) /\
  Forall (fun f => fr_op f = WS_CONT) (tl frs).
Proof.
  intros send_text fragsize data H. unfold ws_send_frames. split.
  - apply ws_fragment_concat. auto.
  - exact (ws_fragment_shape send_text fragsize (S (length data)) 0 data (Nat.lt_succ_diag_r _) H).
Qed.
Print Assumptions ws_fragment_shape_holds.

(* without configured limits every frame the allocator can hold is letin *)
Theorem ws_limits_unlimited : forall cfg, c_maxframe cfg = 0 -> c_recvmax cfg = 0 -> forall frs s,
  Forall (fun f => N.of_nat (length (fr_payload f)) <= c_allocmax cfg) frs -> letin_along cfg s frs.
Proof. exact letin_unlimited. Qed.
Print Assumptions ws_limits_unlimited.

(* ---------------------------------------------------------------- (e) *)
(* a hex digit multiplies the size by 16 and adds its value exactly when that
   does not exceed SIZE_MAX (otherwise EMSGSIZE): no wrap is reachable; a
   chunk is letin only if size + 2 and total + size do not wrap and the total
   stays within maxsz; the total stays within maxsz along every run *)
Theorem chunked_value_and_limits :
  (forall cl c d, hex_digit c = Some d -> d < 16 ->
     if SIZE_MAX <? cl_size cl * 16 + d
     then ingest_len cl c = (cl, NNG_EMSGSIZE)
     else exists cl', ingest_len cl c = (cl', 0) /\ cl_size cl' = cl_size cl * 16 + d /\
                      cl_total cl' = cl_total cl /\ cl_maxsz cl' = cl_maxsz cl /\ cl_state cl' = cl_state cl) /\
  (forall cl cl', ingest_newline cl 10 = (cl', 0) -> cl_size cl <> 0 ->
     cl_total cl' = cl_total cl + cl_size cl /\ cl_total cl + cl_size cl <= SIZE_MAX /\
     cl_size cl + 2 <= SIZE_MAX /\ (0 < cl_maxsz cl -> cl_total cl' <= cl_maxsz cl) /\
     cl_maxsz cl' = cl_maxsz cl /\ cl_state cl' = CS_DATA) /\
  (forall buf cl used c r n, chunks_loop cl buf used = (c, r, n) -> total_ok cl -> total_ok c).
Proof. exact (conj ingest_len_digit (conj ingest_newline_limits chunks_loop_total)). Qed.
Print Assumptions chunked_value_and_limits.

(* ---------------------------------------------------------------- (f) *)
(* every frame the encoder emits -- any known opcode, control frames final and
   at most 125 bytes (what ws_msg_init_control enforces), any payload below
   2^63 bytes -- satisfies the independent grammar of RFC 6455 5.2 for a sender
   of that role *)
Theorem emit_well_formed : forall (server : bool) (key : list byte) (op : N) (final : bool) (payload : list byte),
  ws_known_op op -> (8 <= op -> final = true /\ N.of_nat (length payload) <= 125) ->
  N.of_nat (length payload) < 2 ^ 63 -> bytes_ok payload -> bytes_ok key -> length key = 4%nat ->
  wf_ws_frame server (ws_encode server key op final payload).
Proof. exact ws_encode_wf. Qed.
Print Assumptions emit_well_formed.

(* corollary: it is accepted by the decoder model of the opposite role *)
Theorem emit_accepted_by_peer : forall cfg s key op final payload,
  w_stage s = SHead -> op < 128 -> length key = 4%nat -> N.of_nat (length payload) < 2 ^ 64 ->
  frame_letin cfg s op (N.of_nat (length payload)) ->
  fst (ws_feed cfg (mkD s []) (ws_encode (negb (c_server cfg)) key op final payload)) =
    mkD (fst (ws_frame_cb cfg s op final payload)) [].
Proof.
  intros. rewrite ws_feed_frame by assumption. destruct (ws_frame_cb cfg s op final payload). reflexivity.
Qed.
Print Assumptions emit_accepted_by_peer.
(* The HTTP heads nng emits (http_snprintf) are not modelled; wf_http_head is
   evaluated on every head observed in the correspondence run. *)

(* ---------------------------------------------------------------- (g) *)
(* a request line without two spaces, or with an unsupported version, yields
   400 / 505 (and the status stays there while the headers are read); a status
   line without two spaces or with a bad code yields EPROTO and changes
   nothing; a header line without ':' yields EPROTO; a bare CR or a control
   character ends the scan with EPROTO wherever the buffer was cut *)
Theorem http_malformed_rejected :
  (forall h line, get_status h < 400 -> ~ In 32 line -> req_parse_line h line = set_code h 400 None) /\
  (forall h a b, get_status h < 400 -> ~ In 32 a -> ~ In 32 b ->
     req_parse_line h (a ++ 32 :: b) = set_code h 400 None) /\
  (forall h m u v, get_status h < 400 -> ~ In 32 m -> ~ In 32 u -> canon_simple u = CanonOk u ->
     version_ok v = false -> req_parse_line h (m ++ 32 :: u ++ 32 :: v) = set_code h 505 None) /\
  (forall isreq h l, h_code (fst (parse_header isreq h l)) = h_code h) /\
  (forall strict h line, ~ In 32 line -> res_parse_line strict h line = (h, NNG_EPROTO)) /\
  (forall strict h v c r, ~ In 32 v -> ~ In 32 c -> status_code strict c = None ->
     res_parse_line strict h (v ++ 32 :: c ++ 32 :: r) = (h, NNG_EPROTO)) /\
  (forall isreq h line, ~ In 58 line -> parse_header isreq h line = (h, NNG_EPROTO)) /\
  (forall pre lc acc c rest, scan_from lc acc pre = SAgain -> fst (scan_state lc acc pre) = 13 -> c <> 10 ->
     scan_from lc acc (pre ++ c :: rest) = SProto) /\
  (forall pre lc acc c rest, scan_from lc acc pre = SAgain -> c < 32 -> c <> 10 -> c <> 13 ->
     scan_from lc acc (pre ++ c :: rest) = SProto).
Proof.
  exact (conj req_line_no_space (conj req_line_one_space (conj req_line_bad_version (conj parse_header_code
        (conj res_line_no_space (conj res_line_bad_code (conj header_no_colon (conj scan_bare_cr scan_control_char)))))))).
Qed.
Print Assumptions http_malformed_rejected.

(* request header line without ':' -- the text pinned at e917035 ([keep] = false)
   dropped it silently; since 8f01e0e ([keep] = true) the parse ends with
   EPROTO at that line wherever it stands, and nothing is delivered as valid *)
Theorem http_req_header_nocolon_pinned_refuted :
  let '(h, rv, rest) := req_parse false hconn_init req_nocolon_witness in
  rv = 0 /\ get_status h = 200 /\ h_hdrs h = [] /\ rest = [].
Proof. exact req_header_nocolon_pinned. Qed.
Print Assumptions http_req_header_nocolon_pinned_refuted.

Theorem http_req_header_nocolon_holds :
  (forall f h buf line rest, http_scan_line buf = SLine line rest -> line <> [] -> h_parsed h = true ->
     ~ In 58 line ->
     parse_loop (handle_req true) (fun h => set_parsed h false) (S f) h buf = (set_parsed h false, NNG_EPROTO, rest)) /\
  (let '(h, rv, rest) := req_parse true hconn_init req_nocolon_witness in rv = NNG_EPROTO /\ rest = [13; 10]).
Proof. exact (conj req_nocolon_stops req_header_nocolon_fixed). Qed.
Print Assumptions http_req_header_nocolon_holds.

(* status code -- the pinned text read it with atoi ("200x" = 200); since
   df9e40d an accepted status line is  version SP 3DIGIT SP reason  with the
   first digit 1-9, and the status stored is the value of the three digits *)
Theorem http_status_3digit_pinned_refuted :
  let '(h, rv, rest) := res_parse false hconn_init res_200x_witness in rv = 0 /\ get_status h = 200.
Proof. exact res_status_200x_pinned. Qed.
Print Assumptions http_status_3digit_pinned_refuted.

Theorem http_status_3digit_holds :
  (forall h line h', res_parse_line true h line = (h', 0) ->
     exists v a b c reason, line = v ++ 32 :: [a; b; c] ++ 32 :: reason /\ version_ok v = true /\
       49 <= a <= 57 /\ 48 <= b <= 57 /\ 48 <= c <= 57 /\
       h_code h' = (a - 48) * 100 + (b - 48) * 10 + (c - 48) /\ 100 <= h_code h' <= 999) /\
  (let '(h, rv, rest) := res_parse true hconn_init res_200x_witness in rv = NNG_EPROTO).
Proof. exact (conj res_line_strict_shape res_status_200x_fixed). Qed.
Print Assumptions http_status_3digit_holds.

(* the response parser reports a header without ':' in both variants *)
Theorem http_res_header_nocolon_rejected : forall strict,
  let '(h, rv, rest) := res_parse strict hconn_init res_nocolon_witness in rv = NNG_EPROTO.
Proof. exact res_header_nocolon_rejected. Qed.
Print Assumptions http_res_header_nocolon_rejected.

(* ------------------------------------------------------------- base64 *)
(* nni_base64_encode computes the RFC 4648 encoding and nni_base64_decode
   inverts it, for byte strings of every length; only alphabet and pad
   characters are emitted *)
Theorem b64_roundtrip_holds : forall l, bytes_ok l ->
  b64_encode_all l = spec_b64_encode l /\ b64_decode_all (b64_encode_all l) = l.
Proof. exact b64_roundtrip. Qed.
Print Assumptions b64_roundtrip_holds.

Theorem b64_alphabet_only : forall l, bytes_ok l ->
  forallb (fun c => b64_alphabet c || (c =? 61)) (spec_b64_encode l) = true.
Proof. exact spec_alphabet. Qed.
Print Assumptions b64_alphabet_only.

(* ------------------------------------------------------------- consts *)
(* the literals of the models are those of the current source *)
Theorem codec_consts_match :
  (WS_CONT, WS_TEXT, WS_BINARY, WS_CLOSE, WS_PING, WS_PONG) =
    (C16_WS_CONT, C16_WS_TEXT, C16_WS_BINARY, C16_WS_CLOSE, C16_WS_PING, C16_WS_PONG) /\
  (WS_CLOSE_NORMAL_CLOSE, WS_CLOSE_PROTOCOL_ERR, WS_CLOSE_UNSUPP_FORMAT, WS_CLOSE_TOO_BIG, WS_CLOSE_INTERNAL) =
    (C16_WS_CLOSE_NORMAL_CLOSE, C16_WS_CLOSE_PROTOCOL_ERR, C16_WS_CLOSE_UNSUPP_FORMAT, C16_WS_CLOSE_TOO_BIG,
     C16_WS_CLOSE_INTERNAL) /\
  (DEF_RECVMAX, DEF_MAXRXFRAME, DEF_MAXTXFRAME, WS_INIT_FRAGSIZE) =
    (C16_WS_DEF_RECVMAX, C16_WS_DEF_MAXRXFRAME, C16_WS_DEF_MAXTXFRAME, C16_WS_INIT_FRAGSIZE) /\
  (C16_WS_CONTROL_MAX, C16_WS_LEN7_LIMIT, C16_WS_LEN16_LIMIT, C16_WS_MIN64, C16_WS_MIN16) = (125, 126, 65536, 65536, 126) /\
  (C16_CHUNK_RADIX, C16_CHUNK_RADIX_MUL, C16_CHUNK_TAIL, C16_CHUNK_TAIL_GUARD) = (16, 16, 2, 2) /\
  (NNG_ENOMEM, NNG_EAGAIN, NNG_ENOTSUP, NNG_EPROTO, NNG_EMSGSIZE) =
    (C16_NNG_ENOMEM, C16_NNG_EAGAIN, C16_NNG_ENOTSUP, C16_NNG_EPROTO, C16_NNG_EMSGSIZE) /\
  http_versions = C16_HTTP_VERSIONS /\
  map b64_char (map N.of_nat (seq 0 64)) = C16_B64_ENCODE /\
  map b64_val (map N.of_nat (seq 0 256)) = C16_B64_DECODE.
Proof. repeat split; vm_compute; reflexivity. Qed.
Print Assumptions codec_consts_match.

(* The correspondence run instantiates the models with these generated flags
   (req_parse C16_REQ_PARSE_KEEPS_ERR, res_parse C16_STATUS_STRICT, eff_recvmax /
   eff_fragsize with the C16_DIALER_COPIES flags): the current source is the repaired text,
   for which the _holds theorems above are the relevant ones.  Should one of
   the repairs be undone, the flag flips, the model follows, this theorem stops
   checking, and the probes of checks/c16.py report the defect with a replay. *)
Theorem codec_current_source_repaired :
  (C16_REQ_PARSE_KEEPS_ERR, C16_STATUS_STRICT, C16_DIALER_COPIES_RECVMAX, C16_DIALER_COPIES_FRAGSIZE,
   C16_RDBUF_PULLUP_FIRST, C16_RDBUF_IOV_REFETCH) = (true, true, true, true, true, true) /\ (0 < N.to_nat C16_HTTP_BUFSIZE)%nat.
Proof. split; [reflexivity|]. apply Nat.ltb_lt. vm_compute. reflexivity. Qed.
Print Assumptions codec_current_source_repaired.

(* a client built from the current dialer code has no message limit and the ws_init fragment size *)
Theorem ws_dialer_limits_as_coded : forall recvmax fragsize,
  eff_recvmax C16_DIALER_COPIES_RECVMAX false recvmax = (if C16_DIALER_COPIES_RECVMAX then recvmax else 0) /\
  eff_fragsize C16_DIALER_COPIES_FRAGSIZE false fragsize = (if C16_DIALER_COPIES_FRAGSIZE then fragsize else WS_INIT_FRAGSIZE) /\
  eff_recvmax C16_DIALER_COPIES_RECVMAX true recvmax = recvmax /\ eff_fragsize C16_DIALER_COPIES_FRAGSIZE true fragsize = fragsize.
Proof. intros. unfold eff_recvmax, eff_fragsize. repeat split; destruct C16_DIALER_COPIES_RECVMAX, C16_DIALER_COPIES_FRAGSIZE; reflexivity. Qed.
Print Assumptions ws_dialer_limits_as_coded.

(* ------------------------------------------------------- non-vacuity *)
(* the hypotheses of ws_frame_roundtrip are satisfiable with the default
   configuration, and the decoder then delivers the payload *)
Example frame_roundtrip_nonvacuous :
  let cfg := mkCfg true false DEF_MAXRXFRAME DEF_RECVMAX false (2 ^ 40) false in
  frame_letin cfg ws_init WS_BINARY 5 /\
  snd (ws_feed cfg ws_dinit (ws_encode false [1; 2; 3; 4] WS_BINARY true [72; 101; 108; 108; 111])) =
    [EDeliver [72; 101; 108; 108; 111]].
Proof. split; [repeat split|]; vm_compute; reflexivity. Qed.

Example reassembly_nonvacuous :
  let cfg := mkCfg true false 0 0 false (2 ^ 40) false in
  let frs := [(WS_BINARY, false, [1]); (WS_PING, true, [9]); (WS_CONT, false, [2]); (WS_PONG, true, []);
              (WS_CONT, true, [3]); (WS_BINARY, true, [4; 5])] in
  msg_seq cfg frs [[1; 2; 3]; [4; 5]] /\ frames_encodable (repeat [7; 7; 7; 7] 6) frs /\
  letin_along cfg ws_init frs /\
  deliveries (snd (ws_feed cfg ws_dinit (ws_encode_frames false (repeat [7; 7; 7; 7] 6) frs))) = [[1; 2; 3]; [4; 5]].
Proof.
  cbv zeta. split; [|split; [|split]].
  - apply (MS_frag _ WS_BINARY [1] [(WS_PING, true, [9]); (WS_CONT, false, [2]); (WS_PONG, true, []); (WS_CONT, true, [3])]
             [[2]; [3]] [(WS_BINARY, true, [4; 5])] [[4; 5]]).
    + left; reflexivity.
    + apply MT_ctl; [reflexivity|]. apply MT_cont. apply MT_ctl; [reflexivity|]. apply MT_last.
    + apply MS_single; [left; reflexivity|apply MS_nil].
  - split; [|split; [cbn; lia|repeat constructor]]. repeat constructor; cbn; lia.
  - apply letin_unlimited; try reflexivity. repeat constructor; cbn; lia.
  - vm_compute. reflexivity.
Qed.

Example chunk_feed_nonvacuous :
  snd (chunk_feed (cfeed_init 0 (2 ^ 40)) [52; 13; 10; 119; 105; 107; 105; 13; 10; 48; 13; 10; 13; 10]) =
    [CDeliver [[119; 105; 107; 105]]].
Proof. vm_compute. reflexivity. Qed.
