(* Properties_C05: statements only.  C05 -- PUB/SUB: delivery iff a current
   subscription prefixes the body (src/sp/protocol/pubsub0/sub.c, pub.c, xsub.c).

   Models: SubModel.sub_step fixed   (fixed = sub0_ctx_unsubscribe clears the recv pollable)
           PubModel.pub_step
           XsubModel.xsub_step mq_fixed rs_fixed   (the two repairs of src/core/msgqueue.c)
   One step = one critical section of the protocol's mutex, so a theorem over all
   lists of steps covers all interleavings.  Theorems that do not mention `fixed`
   hold for both variants.  The variant the current source has is tied to
   Gen/Consts.v by pubsub_consts_match. *)
From Coq Require Import List Arith NArith Bool.
From NngV Require Import Gen.Consts Proto.Common Proto.PushModel Proto.PushProofs Proto.SubModel Proto.PubModel Proto.XsubModel
  Proto.PubSubCur Proto.PubSubProofs Proto.PubSubProofs2 Proto.PubSubProofs3.
Import ListNotations.

(* ------------------------------------------------------------------ the prefix decision *)
(* sub0_matches decides "some topic of the list is a prefix of the body"; the empty topic
   matches every body, no topic matches nothing, a topic longer than the body never matches *)
Theorem prefix_dec_correct : forall topics body,
  (sub0_matches topics body = true <-> exists t, In t topics /\ is_prefix t body) /\
  (In [] topics -> sub0_matches topics body = true) /\
  sub0_matches [] body = false /\
  ((forall t, In t topics -> length body < length t) -> sub0_matches topics body = false).
Proof.
  intros. split; [apply matches_correct|]. split; [apply matches_empty_topic|]. split; [reflexivity|apply matches_longer_never].
Qed.
Print Assumptions prefix_dec_correct.

(* ------------------------------------------------------------------ SUB: arrival *)
(* For each arriving body and each context: the context takes the message (hands it to its
   oldest waiting receiver, or appends it to its buffer) if and only if one of ITS current topics
   is a prefix of the body at that moment (and the buffer rule lets it in: see
   sub_full_drops_exactly_one); otherwise the context, its waiters and its buffer are untouched.
   arrival_spec spells out both directions case by case; completions of the step are exactly the
   per-context ones. *)
Theorem sub_delivery_iff_prefix : forall fixed s p m s' outs,
  sub_step fixed s (PRecvDone p 0%N m) = (s', outs) ->
  sb_ctxs s' = map (fun c => ctx_after c m) (sb_ctxs s) /\
  (forall a rv x, In (Complete a rv x) outs <-> exists c, In c (sb_ctxs s) /\ In (Complete a rv x) (ctx_compl c m)) /\
  (forall c, In c (sb_ctxs s) ->
     (ctx_accepts c m = true <-> subscribed c m /\ has_room c) /\
     arrival_spec c m (ctx_after c m) (ctx_compl c m) (ctx_dropped c m)).
Proof.
  intros fixed s p m s' outs H. destruct (sub_arrival_law fixed s p m s' outs H) as (A & B & C).
  split; [exact A|]. split; [exact B|]. intros c Hc. split; [apply ctx_accepts_iff|apply C; exact Hc].
Qed.
Print Assumptions sub_delivery_iff_prefix.

(* contexts filter independently: (1) what an arrival does to a context depends on that context
   and the message only, wherever it sits and whatever the other contexts are; (2) an operation
   addressed to context k (receive, option, subscribe, unsubscribe, open, close) leaves the list
   of all other contexts exactly as it was *)
Theorem sub_contexts_independent :
  (forall fixed s1 s2 p1 p2 m i j c,
     nth_error (sb_ctxs s1) i = Some c -> nth_error (sb_ctxs s2) j = Some c ->
     nth_error (sb_ctxs (fst (sub_step fixed s1 (PRecvDone p1 0%N m)))) i =
     nth_error (sb_ctxs (fst (sub_step fixed s2 (PRecvDone p2 0%N m)))) j) /\
  (forall fixed s o k s' outs, targets o k -> sub_step fixed s o = (s', outs) ->
     filter (fun c => negb (cid_eqb (sc_id c) k)) (sb_ctxs s') = filter (fun c => negb (cid_eqb (sc_id c) k)) (sb_ctxs s)).
Proof. split; [exact sub_arrival_independent|exact sub_targeted_independent]. Qed.
Print Assumptions sub_contexts_independent.

(* unsubscribe: the topic is gone, the buffer keeps exactly the bodies that still match a
   remaining topic, in their old order (filter), the others are freed; nothing else changes *)
Theorem sub_unsubscribe_purges : forall fixed s k c t s' outs,
  find_ctx k (sb_ctxs s) = Some c -> In t (sc_topics c) -> NoDup (sc_topics c) ->
  sub_step fixed s (PSetOpt k (OUnsub t)) = (s', outs) ->
  exists c', find_ctx k (sb_ctxs s') = Some c' /\
    (forall x, In x (sc_topics c') <-> In x (sc_topics c) /\ x <> t) /\ NoDup (sc_topics c') /\
    sc_lmq c' = filter (fun m => sub0_matches (sc_topics c') (pm_body m)) (sc_lmq c) /\
    (forall m, In m (sc_lmq c') -> subscribed c' m) /\
    (forall m, In m (sc_lmq c) -> subscribed c' m -> In m (sc_lmq c')) /\
    freed outs = filter (fun m => negb (sub0_matches (sc_topics c') (pm_body m))) (sc_lmq c) /\
    In (OptRv E_OK) outs /\
    sc_id c' = sc_id c /\ sc_cap c' = sc_cap c /\ sc_rq c' = sc_rq c /\ sc_prefnew c' = sc_prefnew c.
Proof. exact sub_unsubscribe_law. Qed.
Print Assumptions sub_unsubscribe_purges.

(* full buffer, subscribed, nobody waiting: exactly one message goes per arrival -- the oldest
   if PREFNEW (the new one is appended, the length stays), otherwise the new one (nothing changes) *)
Theorem sub_full_drops_exactly_one : forall c m,
  subscribed c m -> sc_rq c = [] -> sc_cap c <= length (sc_lmq c) -> 1 <= sc_cap c ->
  (sc_prefnew c = true ->
     exists old r, sc_lmq c = old :: r /\ ctx_after c m = set_lmq c (r ++ [m]) /\ ctx_dropped c m = [old] /\
                   length (sc_lmq (ctx_after c m)) = length (sc_lmq c)) /\
  (sc_prefnew c = false -> ctx_after c m = c /\ ctx_compl c m = [] /\ ctx_dropped c m = [] /\ ctx_accepts c m = false).
Proof. exact sub_full_law. Qed.
Print Assumptions sub_full_drops_exactly_one.

Theorem sub_subscribe_duplicate_ignored : forall fixed s k c t,
  find_ctx k (sb_ctxs s) = Some c -> In t (sc_topics c) ->
  sub_step fixed s (PSetOpt k (OSub t)) = (s, [OptRv E_OK]).
Proof. exact sub_subscribe_duplicate. Qed.
Print Assumptions sub_subscribe_duplicate_ignored.

Theorem sub_subscribe_adds : forall fixed s k c t,
  find_ctx k (sb_ctxs s) = Some c -> ~ In t (sc_topics c) ->
  exists s', sub_step fixed s (PSetOpt k (OSub t)) = (s', [OptRv E_OK]) /\
    find_ctx k (sb_ctxs s') = Some (set_topics c (sc_topics c ++ [t])) /\ sb_readable s' = sb_readable s.
Proof. exact sub_subscribe_new. Qed.
Print Assumptions sub_subscribe_adds.

Theorem sub_unsubscribe_unknown_enoent : forall fixed s k c t,
  find_ctx k (sb_ctxs s) = Some c -> ~ In t (sc_topics c) ->
  sub_step fixed s (PSetOpt k (OUnsub t)) = (s, [OptRv E_NOENT]).
Proof. exact sub_unsubscribe_unknown. Qed.
Print Assumptions sub_unsubscribe_unknown_enoent.

(* the invariant (one step, then every history from the initial state): every queued body
   matches some current topic of its own context; waiting receivers imply an empty buffer;
   depth within 1..cap; topics and context ids without duplicates *)
Theorem sub_invariant_step : forall fixed s o s' outs,
  SInv s -> sub_op_ok s o -> sub_step fixed s o = (s', outs) -> SInv s'.
Proof. exact sub_step_inv. Qed.
Print Assumptions sub_invariant_step.

Theorem sub_queue_invariant : forall fixed ops,
  sub_ops_ok fixed sub_init ops ->
  let s := fst (sub_run fixed sub_init ops) in
  SInv s /\ forall c m, In c (sb_ctxs s) -> In m (sc_lmq c) -> subscribed c m.
Proof. exact sub_queue_invariant_run. Qed.
Print Assumptions sub_queue_invariant.

(* per receiver (context k, alive throughout the history) and per publisher: what k was handed
   followed by what it still buffers is a subsequence d of the arrivals (tagged with the pipe they
   came on); hence, restricted to any one publisher p, a subsequence of p's messages: nothing
   invented, altered, duplicated or reordered *)
Theorem sub_order_no_dup_per_publisher : forall fixed k ops s,
  SInv s -> sub_ops_ok fixed s ops -> Forall (keeps_ctx k) ops -> lmq_of k s = [] ->
  let (s', tr) := sub_run fixed s ops in
  exists d : list (N * pmsg),
    Sublist d (tr_arrivals tr) /\ map snd d = tr_got k tr ++ lmq_of k s' /\
    forall p, Sublist (filter (fun x => N.eqb (fst x) p) d) (filter (fun x => N.eqb (fst x) p) (tr_arrivals tr)).
Proof. exact sub_order_per_publisher. Qed.
Print Assumptions sub_order_no_dup_per_publisher.

Theorem sub_order_step_law : forall fixed s o s' outs k,
  SInv s -> keeps_ctx k o -> sub_step fixed s o = (s', outs) ->
  Sublist (got_of k s o outs ++ lmq_of k s') (lmq_of k s ++ arrived o) /\
  (find_ctx k (sb_ctxs s) <> None -> find_ctx k (sb_ctxs s') <> None).
Proof. exact sub_order_step. Qed.
Print Assumptions sub_order_step_law.

(* conservation with duplicates: owned + arrived + copies made = owned' + handed to the
   application + freed, as multisets, for every step and every history *)
Theorem sub_conservation_step : forall fixed s o s' outs,
  SInv s -> sub_step fixed s o = (s', outs) ->
  forall x, cnt x (owned s ++ arrived o ++ dups s o) = cnt x (owned s' ++ delivered outs ++ freed outs).
Proof. exact sub_conservation_step_law. Qed.
Print Assumptions sub_conservation_step.

Theorem sub_conservation : forall fixed ops s, SInv s -> sub_ops_ok fixed s ops ->
  let (s', tr) := sub_run fixed s ops in
  forall x, cnt x (owned s ++ tr_in tr) = cnt x (owned s' ++ tr_outm tr).
Proof. exact sub_conservation_run. Qed.
Print Assumptions sub_conservation.

(* non-blocking receive: completes in the same step and is never queued; NNG_EAGAIN exactly
   when that context's buffer is empty -- exactly when the blocking form would have been queued --
   with the state unchanged; otherwise the oldest buffered message *)
Theorem sub_nb_immediate : forall fixed s k a s' outs,
  sub_step fixed s (PRecv k a true) = (s', outs) ->
  exists rv x, outs = [Complete a rv x] /\
    (forall c, In c (sb_ctxs s') -> ~ In a (sc_rq c) \/ exists c0, In c0 (sb_ctxs s) /\ In a (sc_rq c0)) /\
    (rv = E_AGAIN -> s' = s /\ x = None /\ exists c, find_ctx k (sb_ctxs s) = Some c /\ sc_lmq c = []) /\
    (rv = E_OK -> exists c m rest, find_ctx k (sb_ctxs s) = Some c /\ sc_lmq c = m :: rest /\ x = Some m /\
                  find_ctx k (sb_ctxs s') = Some (set_lmq c rest)) /\
    (rv = E_AGAIN \/ rv = E_OK \/ (rv = E_CLOSED /\ find_ctx k (sb_ctxs s) = None /\ s' = s)).
Proof. exact sub_nb_recv. Qed.
Print Assumptions sub_nb_immediate.

Theorem sub_nb_succeeds_if_possible : forall fixed s k a c,
  find_ctx k (sb_ctxs s) = Some c ->
  (sc_lmq c = [] <-> snd (sub_step fixed s (PRecv k a false)) = []) /\
  (sc_lmq c = [] <-> snd (sub_step fixed s (PRecv k a true)) = [Complete a E_AGAIN None]).
Proof. exact sub_blocking_queues_iff. Qed.
Print Assumptions sub_nb_succeeds_if_possible.

(* the recv descriptor.  Repaired sub0_ctx_unsubscribe (what the current source has, see
   pubsub_consts_match): in every reachable state it is raised iff a non-blocking receive on the
   socket would succeed.  Pinned form: refuted (sub "a", publish "abc", unsubscribe "a"), but the
   "no missed wake-up" half holds for both. *)
Theorem sub_poll_mirror_holds : forall ops,
  sub_ops_ok true sub_init ops ->
  let s := fst (sub_run true sub_init ops) in
  forall a, poll_r (sub_poll s) = Some true <-> exists m, snd (sub_step true s (PRecv None a true)) = [Complete a E_OK (Some m)].
Proof. exact sub_mirror_holds. Qed.
Print Assumptions sub_poll_mirror_holds.

Theorem sub_poll_mirror_pinned_refuted :
  (exists ops, sub_ops_ok false sub_init ops /\ ~ RInv (fst (sub_run false sub_init ops))) /\
  (sub_ops_ok false sub_init refute_ops /\
   let s := fst (sub_run false sub_init refute_ops) in
   poll_r (sub_poll s) = Some true /\ snd (sub_step false s (PRecv None 9%N true)) = [Complete 9%N E_AGAIN None]).
Proof. split; [exact sub_mirror_pinned_refuted|exact sub_mirror_refuted_witness]. Qed.
Print Assumptions sub_poll_mirror_pinned_refuted.

Theorem sub_poll_no_missed_wakeup : forall fixed ops,
  sub_ops_ok fixed sub_init ops ->
  let s := fst (sub_run fixed sub_init ops) in
  forall a m, snd (sub_step fixed s (PRecv None a true)) = [Complete a E_OK (Some m)] -> poll_r (sub_poll s) = Some true.
Proof. exact sub_no_missed_wakeup. Qed.
Print Assumptions sub_poll_no_missed_wakeup.

(* ------------------------------------------------------------------ PUB *)
(* a send always completes at once with success -- blocking or not makes no difference -- and
   the state has no place where a user aio could be queued *)
Theorem pub_send_never_blocks : forall s c a nb m,
  exists pre, pub_step s (PSend c a nb m) =
    (mkPub (map (fun p => fst (pipe_send p m)) (pb_pipes s)) (pb_sendbuf s), pre ++ [Free m; Complete a E_OK None]) /\
    (forall a' rv x, ~ In (Complete a' rv x) pre) /\
    pub_step s (PSend c a true m) = pub_step s (PSend c a false m).
Proof. exact pub_send_immediate. Qed.
Print Assumptions pub_send_never_blocks.

(* fan-out: every started, not yet closed pipe gets the message exactly once -- straight to its
   transport if idle, else at the tail of its queue, dropping the oldest queued message when the
   queue is full; closed pipes get nothing *)
Theorem pub_fanout_each_pipe_once : forall p m, fanout_spec p m (fst (pipe_send p m)) (snd (pipe_send p m)).
Proof. exact pub_fanout_law. Qed.
Print Assumptions pub_fanout_each_pipe_once.

(* per-pipe FIFO: what pipe p's transport is handed in a step, followed by what p still queues,
   is a subsequence of what it queued followed by what the application sent in that step *)
Theorem pub_per_pipe_fifo : forall s o s' outs p,
  PubInv s -> pub_step s o = (s', outs) -> (forall peer, o <> PPipeStart p peer) ->
  Sublist (txs_on p outs ++ q_of p s') (q_of p s ++ sent_by_app o).
Proof. exact pub_pipe_fifo_step. Qed.
Print Assumptions pub_per_pipe_fifo.

Theorem pub_invariant_step : forall s o s' outs, PubInv s -> pub_op_ok s o -> pub_step s o = (s', outs) -> PubInv s'.
Proof. exact pub_step_inv. Qed.
Print Assumptions pub_invariant_step.

(* conservation: owned + (the caller's message and one clone per open pipe | a received message)
   = owned' + taken by the transports + freed *)
Theorem pub_conservation : forall ops s, PubInv s -> pub_ops_ok s ops ->
  let (s', tr) := pub_run s ops in
  PubInv s' /\ forall y, cnt y (pub_owned s ++ ptr_in tr) = cnt y (pub_owned s' ++ ptr_out tr).
Proof. exact pub_conservation_run. Qed.
Print Assumptions pub_conservation.

(* the send descriptor is always raised and a non-blocking send never answers NNG_EAGAIN *)
Theorem pub_poll_mirror_holds : forall s c a m,
  poll_w (pub_poll s) = Some true /\ In (Complete a E_OK None) (snd (pub_step s (PSend c a true m))) /\
  ~ In (Complete a E_AGAIN None) (snd (pub_step s (PSend c a true m))).
Proof. exact pub_poll_mirror. Qed.
Print Assumptions pub_poll_mirror_holds.

(* ------------------------------------------------------------------ raw SUB *)
(* no filtering: an arriving message goes to the oldest waiting reader, else into the socket's
   upper read queue if there is room, else it is discarded -- whatever its body *)
Theorem xsub_no_filtering : forall mf rf s p m,
  xs_closed s = false ->
  (forall a r, xs_rq s = a :: r ->
     xsub_step mf rf s (PRecvDone p 0%N m) = (run_notify (mkXsub (xs_q s) (xs_cap s) r false (xs_recvable s)), [Complete a E_OK (Some m); TranRecv p])) /\
  (xs_rq s = [] -> length (xs_q s) < xs_cap s ->
     xsub_step mf rf s (PRecvDone p 0%N m) = (run_notify (mkXsub (xs_q s ++ [m]) (xs_cap s) [] false (xs_recvable s)), [TranRecv p])) /\
  (xs_rq s = [] -> xs_cap s <= length (xs_q s) ->
     xsub_step mf rf s (PRecvDone p 0%N m) = (s, [Free m; TranRecv p])).
Proof. exact xsub_arrival_law. Qed.
Print Assumptions xsub_no_filtering.

(* everything goes through the queue in order, and is conserved *)
Theorem xsub_through_urq : forall mf rf s o s' outs,
  XInv s -> xsub_step mf rf s o = (s', outs) ->
  XInv s' /\
  Sublist (delivered outs ++ xs_q s') (xs_q s ++ arrived o) /\
  (forall x, cnt x (xs_q s ++ arrived o) = cnt x (xs_q s' ++ delivered outs ++ freed outs)).
Proof. exact xsub_step_law. Qed.
Print Assumptions xsub_through_urq.

(* non-blocking receive and descriptor, repaired nni_msgq_aio_get (current source): immediate,
   NNG_EAGAIN iff nothing is queued iff the blocking form would wait, state unchanged then; the
   descriptor is raised iff the non-blocking receive would succeed.  Pinned form: refuted. *)
Theorem xsub_nb_holds : forall rf s k a s' outs,
  XInv s -> xsub_step true rf s (PRecv k a true) = (s', outs) ->
  exists rv x, outs = [Complete a rv x] /\ xs_rq s' = xs_rq s /\
    (rv = E_AGAIN <-> xs_q s = []) /\ (rv = E_AGAIN -> s' = s /\ x = None) /\
    (rv <> E_AGAIN -> rv = E_OK /\ exists m r, xs_q s = m :: r /\ x = Some m /\ xs_q s' = r) /\
    (xs_q s = [] <-> snd (xsub_step true rf s (PRecv k a false)) = []) /\
    (poll_r (xsub_poll s) = Some true <-> rv <> E_AGAIN).
Proof. exact xsub_nb_fixed. Qed.
Print Assumptions xsub_nb_holds.

Theorem xsub_nb_succeeds_if_possible_pinned_refuted :
  exists s, XInv s /\ poll_r (xsub_poll s) = Some true /\
    snd (xsub_step false false s (PRecv None 9%N true)) = [Complete 9%N E_AGAIN None] /\
    snd (xsub_step false false s (PRecv None 9%N false)) <> [].
Proof. exact xsub_nb_pinned_refuted. Qed.
Print Assumptions xsub_nb_succeeds_if_possible_pinned_refuted.

(* ------------------------------------------------------------------ constants and variants *)
(* the literals of the models are those of the current source, and the current source has the
   repaired variants (Gen/Consts.v is regenerated from /repo on every run) *)
Theorem pubsub_consts_match :
  PROTO_PUB = C05_PROTO_PUB /\ PROTO_SUB = C05_PROTO_SUB /\
  SUB_DEFAULT_RECV_BUF = C05_SUB_DEFAULT_RECV_BUF_LEN /\ SUB_DEFAULT_PREFNEW = C05_SUB_DEFAULT_PREFER_NEW /\
  SUB_RECVBUF_MIN = C05_SUB_RECVBUF_MIN /\ SUB_RECVBUF_MAX = C05_SUB_RECVBUF_MAX /\
  PUB_DEFAULT_SENDBUF = C05_PUB_DEFAULT_SENDBUF /\ PUB_SENDBUF_MIN = C05_PUB_SENDBUF_MIN /\ PUB_SENDBUF_MAX = C05_PUB_SENDBUF_MAX /\
  XSUB_DEFAULT_RECVBUF = C05_SOCK_URQ_DEFAULT /\ C05_SOCK_RECVBUF_MIN = 0%N /\ C05_SOCK_RECVBUF_MAX = 8192%N /\
  E_INVAL = C05_NNG_EINVAL /\ E_CLOSED = C05_NNG_ECLOSED /\ E_AGAIN = C05_NNG_EAGAIN /\ E_NOTSUP = C05_NNG_ENOTSUP /\
  E_NOENT = C05_NNG_ENOENT /\ E_PROTO = C05_NNG_EPROTO /\
  sub_step_cur = sub_step true /\ xsub_step_cur = xsub_step true true.
Proof. repeat split; reflexivity. Qed.
Print Assumptions pubsub_consts_match.

(* ------------------------------------------------------------------ non-vacuity *)
Example sub_history_nonvacuous :
  let ops := [PPipeStart 1%N PROTO_PUB; PCtxOpen 5%N; PSetOpt (Some 5%N) (OSub [97%N]); PSetOpt None (OSub []);
              PRecv (Some 5%N) 3%N false; PRecvDone 1%N 0%N (mkPmsg [] [97%N; 98%N]); PRecvDone 1%N 0%N (mkPmsg [] [98%N])] in
  sub_ops_ok true sub_init ops /\ Forall (keeps_ctx None) ops /\
  tr_got (Some 5%N) (snd (sub_run true sub_init ops)) = [mkPmsg [] [97%N; 98%N]] /\
  lmq_of None (fst (sub_run true sub_init ops)) = [mkPmsg [] [97%N; 98%N]; mkPmsg [] [98%N]] /\
  lmq_of (Some 5%N) (fst (sub_run true sub_init ops)) = [].
Proof.
  cbv zeta. split; [vm_compute; repeat split; auto; intros [H|[]]; discriminate|]. split; [apply Forall_forall; intros o Ho; cbn in Ho; repeat (destruct Ho as [<-|Ho]; [cbn; try exact I; discriminate|]); contradiction|]. vm_compute. repeat split; reflexivity.
Qed.

Example pub_history_nonvacuous :
  let ops := [PSetOpt None (OSendBuf 1); PPipeStart 1%N PROTO_SUB; PSend None 1%N true (mkPmsg [] [1%N]);
              PSend None 2%N true (mkPmsg [] [2%N]); PSend None 3%N true (mkPmsg [] [3%N]); PSendDone 1%N 0%N] in
  pub_ops_ok pub_init ops /\ PubInv pub_init /\
  q_of 1%N (fst (pub_run pub_init ops)) = [] /\
  txs_on 1%N (flat_map (fun x => snd x) (snd (pub_run pub_init ops))) = [mkPmsg [] [1%N]; mkPmsg [] [3%N]].
Proof.
  cbv zeta. split; [vm_compute; repeat split; auto|]. split; [exact pub_init_inv|]. vm_compute. split; reflexivity.
Qed.
