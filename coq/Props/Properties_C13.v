(* Properties_C13: statements only.  C13 -- devices route replies back correctly and hop limits
   kill loops.

   Model: Route/RouteModel.v.  nng_device (core/device.c) is the composition
       raw receive of socket A  ;  device_cb leaves the message in the aio  ;  raw send of socket B
   where the raw receive / send header transformers are the ones the protocol models of C04 / C07 /
   C08 / C09 already use (Proto/ReqRepBacktrace.v, SurveyBacktrace.v, PairModel.v, BusModel.v).
   F ranges over the two routed families reqrep_ops (REQ/REP) and survey_ops (SURVEYOR/RESPONDENT);
   every theorem about F is proved for ANY family that satisfies RouteWords.famlaws, and both do
   (routed_families_satisfy_laws).

   Environment contract (read from the sources by tools/gen_consts_d/c13_route.py, consts match below):
     pid_ok p  : pipe ids are < 2^31 (core/pipe.c allocates them in [1, 0x7fffffff]);
     id_ok id  : request / survey ids are in [0x80000000, 0xffffffff] (req.c, survey.c);
     ttl       : NNG_OPT_MAXTTL is settable only to 1 .. NNI_MAX_MAX_TTL (= 15);
     transports hand a received message to the protocol with an empty nni_msg header.

   What is NOT modelled here: the queues between the sockets and the device (best-effort drops under
   back-pressure: C06/C18), the aio machinery of device_cb (C02), close/teardown (C10).  A message
   that is lost to back-pressure is "not forwarded" -- the theorems say what happens to messages that
   ARE forwarded and bound how often that can be. *)
From Coq Require Import List Arith NArith Bool Lia.
From NngV Require Import Gen.Consts Proto.Common Route.RouteModel Route.RouteWords Route.RouteProofs Route.RoutePairBus Route.DeviceOrder.
From NngV Require Proto.ReqRepBacktrace Proto.SurveyBacktrace Proto.PairModel Proto.BusModel.
Import ListNotations.

Theorem routed_families_satisfy_laws : famlaws reqrep_ops /\ famlaws survey_ops.
Proof. split; [exact reqrep_laws|exact survey_laws]. Qed.
Print Assumptions routed_families_satisfy_laws.

(* ---------- device_body_unchanged ---------- *)
(* device.c: the message a path hands to the destination socket is the very message the source
   socket delivered (header and body); over any sequence of callbacks of a path (any results, any
   d->rv seen) the messages sent are, in order, the messages received, except that the last received
   one may instead be freed when the device is shutting down (stated for the form of device_cb the
   current source has, Gen/Consts.C13_DEVICE_FREES_ATTACHED = true; the form first pinned leaked a
   message whose receive completed just before the path was aborted: device_pinned_form_leaked).
   Per direction, on ANY wire message (no well-formedness assumed): what a REQ/REP or SURVEY device
   forwards is the wire it got with exactly one word (the receiving pipe's id) put in front; what it
   forwards back is the wire it got with exactly one word taken off the front; a PAIRv1 device
   replaces the leading hop word by hop + 1; a BUS device forwards the wire unchanged. *)
Theorem device_body_unchanged :
  (forall m, device_pass m = m) /\
  (forall evs p p' o, device_run C13_DEVICE_FREES_ATTACHED p evs = (p', o) ->
     exists rest, gots o = sents o ++ rest /\ (rest = [] \/ exists m, rest = [m] /\ In m (frees o))) /\
  (forall F, famlaws F -> forall h w w', dev_request F h w = FwdSend w' -> w' = be32 (h_pid h) ++ w) /\
  (forall F, famlaws F -> forall w p w', dev_reply F w = Some (p, w') -> exists a b c d, w = [a; b; c; d] ++ w') /\
  (forall ttl w w', ttl <= 254 -> pair1_dev ttl w = FwdSend w' ->
     exists a b c d rest, w = [a; b; c; d] ++ rest /\ (PairModel.word32 a b c d <= N.of_nat ttl)%N /\
       w' = be32 (PairModel.word32 a b c d + 1) ++ rest) /\
  (forall p w, (p < W32)%N -> bus_dev p w = (p, w)).
Proof.
  split; [exact device_pass_id|]. split; [exact device_forwards|]. split; [exact dev_request_any|].
  split; [exact dev_reply_any|]. split; [exact pair1_dev_any|exact bus_dev_spec].
Qed.
Print Assumptions device_body_unchanged.

(* the tree as first pinned (device_cb freed the attached message only in the SEND state; repaired by
   f044c32): receive completes with a message, the path is aborted before the callback runs (result
   replaced by the abort's code 20 = NNG_ECANCELED) -> the message is neither sent nor freed *)
Theorem device_pinned_form_leaked : forall m,
  let o := snd (device_run false (fst device_start) [(0%N, 20%N, Some m)]) in
  gots o = [m] /\ sents o = [] /\ frees o = [].
Proof. exact device_pinned_leak. Qed.
Print Assumptions device_pinned_form_leaked.

(* ---------- device_keeps_order ---------- *)
(* device_init runs one forwarder (recv ; send ; recv ...) per direction: a single one when the far socket
   cannot receive, a single one for a reflector (s1 == s2), two otherwise (one per direction, each reading
   its own socket) -- so with the rule the current source has (C13_DEVICE_REFLECTOR_ONE_PATH) no socket is
   read by more than one forwarder.  One forwarder on a socket, under EVERY schedule of its receive
   completions and sends: what it has handed to the destination socket is an initial segment of what the
   source socket delivered, in the same order -- hence in order per source pipe / per sender (any predicate
   on messages) -- and a fair schedule forwards everything.  (Messages the sockets drop under back-pressure
   never reach / leave the forwarder: dropped, never reordered.) *)
Theorem device_keeps_order :
  (forall one rcv1 rcv2 same, device_paths one rcv1 rcv2 same =
     if negb (rcv1 && rcv2) then 1 else if same && one then 1 else 2) /\
  (forall rcv1 rcv2 same, device_readers C13_DEVICE_REFLECTOR_ONE_PATH rcv1 rcv2 same = 1) /\
  (forall input sched, exists rest, input = fs_out (fwd_run 1 input sched) ++ rest) /\
  (forall input sched (f : pmsg -> bool), exists rest, filter f input = filter f (fs_out (fwd_run 1 input sched)) ++ rest) /\
  (forall input, fs_out (fwd_run 1 input (drain (length input))) = input).
Proof.
  split; [exact device_paths_spec|]. split; [exact device_one_reader_per_socket|].
  split; [exact one_forwarder_keeps_order|]. split; [exact one_forwarder_keeps_order_per_source|exact one_forwarder_forwards_all].
Qed.
Print Assumptions device_keeps_order.

(* without the reflector rule (`|| (s1 == s2)` missing in device_init) a reflector runs two forwarders on
   its one socket, and two forwarders on one socket reorder: both receives complete (m0 to path 0, m1 to
   path 1), path 1's callback runs first -- m1 is forwarded before m0.  Replayed on the real library by the
   `order` cases of checks/c13.py against a tree with that change (seeded/C09/6). *)
Theorem device_two_forwarders_keep_order_refuted :
  device_readers false true true true = 2 /\
  forall m0 m1, fs_out (fwd_run 2 [m0; m1] [FTake 0; FTake 1; FPut 1; FPut 0]) = [m1; m0].
Proof. split; [exact device_reflector_two_readers_without_rule|exact two_forwarders_reorder]. Qed.
Print Assumptions device_two_forwarders_keep_order_refuted.

(* ---------- chain_roundtrip ---------- *)
(* A requester (surveyor) sends id ++ body through devices 1..n (hops, in travel order: device i
   receives on pipe h_pid and its receiving raw socket has ttl h_ttl) to a replier (respondent) with
   ttl tr, which answers rbody.
   - The request that reaches device i carries i words.  It is forwarded by every device up to the
     first one with ttl < i (first_fail) and discarded there; the wires put on the far side of the
     devices crossed are exactly id-terminated backtraces growing by one pipe id per device
     (trace_spec), and there is no further wire: nothing is forwarded past the failing hop, nothing
     is delivered.
   - If no device fails, the replier gets it iff n + 1 <= tr; otherwise it is discarded there.
   - If delivered, the replier sees the original body, saves the backtrace [p_n .. p_1 id]; its reply
     is routed by device n to pipe p_n, ..., by device 1 to pipe p_1 -- each device popping exactly
     one word -- and what arrives on the requester's connection is id ++ rbody: the requester's socket
     finds the ORIGINAL id and the reply body (C04 / C07 then hand it to the context owning id). *)
Theorem chain_roundtrip : forall F, famlaws F -> forall hops tr id body rbody,
  Forall hop_ok hops -> tr <= RT_TTL_MAX -> id_ok id ->
  chain_req F 1 hops (orig_send id body) =
    (match first_fail 1 hops with
     | None => CArrive (flatp (rev (map h_pid hops)) ++ be32 id ++ body)
     | Some k => CDropAt k
     end,
     trace_spec [] (map h_pid (firstn (crossed 1 hops) hops)) (be32 id ++ body)) /\
  roundtrip F hops tr id body rbody =
    match first_fail 1 hops with
    | Some k => RtLostAt k (k - 1)
    | None =>
        if length hops <? tr
        then RtDone body (flatp (rev (map h_pid hops)) ++ be32 id) (rev (map h_pid hops)) id rbody
        else RtLostAtReplier (length hops)
    end /\
  (first_fail 1 hops = None <-> forall j h, nth_error hops j = Some h -> 1 + j <= h_ttl h) /\
  (forall k, first_fail 1 hops = Some k ->
     exists h, nth_error hops (k - 1) = Some h /\ h_ttl h < k /\
               forall j x, j < k - 1 -> nth_error hops j = Some x -> 1 + j <= h_ttl x).
Proof.
  intros F L hops tr id body rbody Hh Ht Hid. split; [|split; [|split]].
  - pose proof (chain_req_wf F L hops [] 1 id body Hh (Forall_nil _) Hid eq_refl) as H.
    rewrite app_nil_r in H. exact H.
  - apply roundtrip_wf; assumption.
  - apply first_fail_none.
  - apply first_fail_some.
Qed.
Print Assumptions chain_roundtrip.

(* the reply leg on its own: n devices unwind n words and choose exactly the pipes the request came in on *)
Theorem chain_reply_unwinds : forall F, famlaws F -> forall ps id rbody,
  Forall pid_ok ps -> id_ok id -> length ps <= 15 ->
  chain_rep F (length ps) (flatp ps ++ be32 id ++ rbody) = (Some (be32 id ++ rbody), ps) /\
  f_orig_recv F (be32 id ++ rbody) = Some (id, rbody).
Proof.
  intros F L ps id rbody Hp Hid Hl. split; [apply chain_rep_wf; assumption|].
  apply (law_orig F L). unfold id_ok, REQ_ID_MIN, REQ_ID_MAX, W32 in *. lia.
Qed.
Print Assumptions chain_reply_unwinds.

(* ---------- ttl_kills_loops ---------- *)
(* ANY topology: nodes are devices, `edges v` lists where the far side of device v is connected
   (node, pipe id there) -- an arbitrary function, so cycles, fan-out and self-loops are included;
   `live` is any list of wire messages arriving anywhere (arbitrary bytes: a raw peer may inject
   anything).  A forwarded message is assumed to reach EVERY out-edge (an over-approximation of
   REQ's "one ready pipe").  With every receiving socket's ttl <= T:
     - after T + 1 generations nothing is alive, and the number of forwards does not grow after
       generation T (so it is finite, whatever the graph);
     - along a single path at most T forwards happen.
   Unbounded in the size of the graph, the number of messages and their content; by induction. *)
Theorem ttl_kills_loops : forall F, famlaws F ->
  forall (ttl : nat -> nat) (edges : nat -> list (nat * N)) T live,
  (forall v, ttl v <= T) ->
  (forall v u p, In (u, p) (edges v) -> pid_ok p) ->
  (forall v p w, In (v, p, w) live -> pid_ok p) ->
  flood nat (fam_forward F ttl) edges (S T) live = [] /\
  (forall k, flood_forwards nat (fam_forward F ttl) edges (T + k) live = flood_forwards nat (fam_forward F ttl) edges T live).
Proof.
  intros F L ttl edges T live H1 H2 H3. split.
  - apply fam_loops_die; assumption.
  - intros k. apply fam_forwards_bounded; assumption.
Qed.
Print Assumptions ttl_kills_loops.

Theorem ttl_bounds_every_path : forall F, famlaws F -> forall hops w T i,
  Forall (fun h => pid_ok (h_pid h) /\ h_ttl h <= T) hops ->
  length (snd (chain_req F i hops w)) <= T.
Proof. intros F L hops w T i H. apply fam_walk_bounded; assumption. Qed.
Print Assumptions ttl_bounds_every_path.

(* PAIRv1 (hop count instead of a backtrace): T + 1 forwards for an arbitrary wire (a raw peer may
   start at hop 0; a cooked sender starts at 1), nothing alive after T + 2 generations *)
Theorem ttl_kills_loops_pair1 : forall (ttl : nat -> nat) (edges : nat -> list (nat * N)) T live,
  (forall v, ttl v <= T) -> T <= 254 ->
  flood nat (pair1_forward ttl) edges (S (S T)) live = [] /\
  (forall k, flood_forwards nat (pair1_forward ttl) edges (S T + k) live = flood_forwards nat (pair1_forward ttl) edges (S T) live) /\
  (forall ttls w i, Forall (fun t => t <= T) ttls -> length (snd (pair1_chain i ttls w)) <= S T).
Proof.
  intros ttl edges T live H1 H2. split; [apply pair1_loops_die; assumption|].
  split; [intros k; apply pair1_forwards_bounded; assumption|].
  intros ttls w i H. apply pair1_walk_bounded; assumption.
Qed.
Print Assumptions ttl_kills_loops_pair1.

(* BUS has no hop limit at all (bus.c has no NNG_OPT_MAXTTL and its header carries only the pipe to
   skip): the statement "forwarding loops always die out" is FALSE for raw BUS devices -- on every
   graph in which each device has somewhere to forward to (e.g. two devices in a ring) a single
   message is forwarded for ever.  What BUS does guarantee is the one-socket rule: the raw send never
   returns a message to the pipe it came from. *)
Theorem ttl_kills_loops_bus_refuted :
  (forall (edges : nat -> list (nat * N)) live, (forall v, edges v <> []) -> live <> [] ->
     forall g, flood nat bus_forward edges g live <> [] /\ g <= flood_forwards nat bus_forward edges g live) /\
  (forall p w bp, (p < W32)%N -> BusModel.bp_id bp = p ->
     BusModel.offer_kind true (fst (bus_dev p w)) bp = BusModel.OSkip).
Proof. split; [exact bus_ring_never_dies|exact bus_no_echo]. Qed.
Print Assumptions ttl_kills_loops_bus_refuted.

(* ---------- backtrace_total_bounded ---------- *)
(* For EVERY wire message (any list, any length, any values) and every pipe id and ttl the receive
   functions are total with the three outcomes Deliver / Drop / Close (by construction: rres), and
     - a delivered message consists of exactly the bytes received (after the pipe id for the raw
       REP / RESPONDENT), split into header and body; nothing is invented or lost;
     - its header never exceeds the header capacity (and 4 + 4 * ttl bytes);
     - the raw REQ / SURVEYOR receive never drops silently: it delivers or disconnects;
     - a wire that starts with ttl or more hop words (no end mark among them) is never letin by
       REP / raw REP / RESPONDENT / raw RESPONDENT; one with 16 or more is a disconnect for raw REQ /
       raw SURVEYOR (the header is full);
     - nni_msg_header_append_u32's panic is unreachable on a message from a transport (empty header),
       and would fire exactly when the header already held 60 bytes or more;
     - the raw REP / RESPONDENT send frees a message whose header is shorter than a pipe id. *)
Theorem backtrace_total_bounded : forall F, famlaws F -> forall p ttl w,
  (match f_front_recv F p ttl w with
   | RDeliver m => wire_of m = be32 p ++ w /\ length (pm_hdr m) <= RT_HEADER_MAX /\ length (pm_hdr m) <= 4 + 4 * ttl
   | _ => True end) /\
  (match f_cooked_recv F ttl w with
   | RDeliver m => wire_of m = w /\ length (pm_hdr m) <= RT_HEADER_MAX /\ length (pm_hdr m) <= 4 * ttl
   | _ => True end) /\
  (match f_back_recv F w with
   | RDeliver m => wire_of m = w /\ length (pm_hdr m) <= RT_HEADER_MAX
   | RDrop => False
   | RClose => True end) /\
  (forall ws rest, Forall (nonend F) ws -> ttl <= length ws ->
     (forall m, f_front_recv F p ttl (flat ws ++ rest) <> RDeliver m) /\
     (forall m, f_cooked_recv F ttl (flat ws ++ rest) <> RDeliver m)) /\
  (forall ws rest, Forall (nonend F) ws -> 16 <= length ws -> f_back_recv F (flat ws ++ rest) = RClose) /\
  (forall m, length (pm_hdr m) < 4 -> f_front_send F m = None).
Proof.
  intros F L p ttl w. pose proof (fam_total_bounded F L p ttl w) as (A & B & C).
  split; [exact A|]. split; [exact B|]. split; [exact C|].
  split; [intros ws rest; apply fam_overlong_never_letin; assumption|].
  split; [intros ws rest; apply fam_back_overlong; assumption|]. apply (law_send_short F L).
Qed.
Print Assumptions backtrace_total_bounded.

Theorem header_guard_unreachable_from_transports : forall h0 p ttl w,
  xrep_recv_h [] p ttl w = Some (f_front_recv reqrep_ops p ttl w) /\
  xresp_recv_h [] p ttl w = Some (f_front_recv survey_ops p ttl w) /\
  (xrep_recv_h h0 p ttl w = None <-> RT_HEADER_MAX <= length h0 + 4) /\
  (xresp_recv_h h0 p ttl w = None <-> RT_HEADER_MAX <= length h0 + 4).
Proof.
  intros h0 p ttl w. split; [apply xrep_recv_h_transport|]. split; [apply xresp_recv_h_transport|].
  apply recv_h_panics_iff.
Qed.
Print Assumptions header_guard_unreachable_from_transports.

(* well-formed backtraces: letin iff the number of hop words is below the ttl, for every ttl 1..15 *)
Theorem backtrace_wellformed_classified : forall F, famlaws F -> forall ws wend rest p ttl,
  Forall (nonend F) ws -> isend F wend -> ttl <= RT_TTL_MAX ->
  f_front_recv F p ttl (flat ws ++ wb wend ++ rest) =
    (if length ws <? ttl then RDeliver (mkPmsg (be32 p ++ flat ws ++ wb wend) rest) else RDrop) /\
  f_cooked_recv F ttl (flat ws ++ wb wend ++ rest) =
    (if length ws <? ttl then RDeliver (mkPmsg (flat ws ++ wb wend) rest) else RDrop) /\
  (length ws < 16 -> f_back_recv F (flat ws ++ wb wend ++ rest) = RDeliver (mkPmsg (flat ws ++ wb wend) rest)).
Proof.
  intros F L ws wend rest p ttl Hw He Ht. split; [apply (law_front F L); assumption|].
  split; [apply (law_cooked F L); assumption|]. intros Hl. apply (law_back F L); assumption.
Qed.
Print Assumptions backtrace_wellformed_classified.

(* ---------- pair1_hops_all_values ---------- *)
(* every 32-bit hop value v, every ttl: > 0xff disconnects, > ttl is discarded with the connection
   kept, otherwise letin with header v; fewer than 4 bytes disconnects; a device forwards an
   letin message with v + 1 and its send never fails (which would stop the device); through a
   chain of devices with ttls t_1..t_n a message that left its sender with hop h is discarded by the
   first device j with t_j < h + j - 1 and otherwise arrives with hop h + n *)
Theorem pair1_hops_all_values :
  (forall v body ttl, (v < W32)%N ->
     pair1_recv ttl (be32 v ++ body) =
       if (255 <? v)%N then RClose else if (N.of_nat ttl <? v)%N then RDrop else RDeliver (mkPmsg (be32 v) body)) /\
  (forall ttl w, length w < 4 -> pair1_recv ttl w = RClose) /\
  (forall v body ttl, (v < W32)%N -> ttl <= 254 ->
     pair1_dev ttl (be32 v ++ body) =
       if (255 <? v)%N then FwdClose else if (N.of_nat ttl <? v)%N then FwdDrop else FwdSend (be32 (v + 1) ++ body)) /\
  (forall ttl w, ttl <= 254 -> pair1_dev ttl w <> FwdStop) /\
  (forall m, pair1_send false m = Some (be32 1 ++ pm_body m)) /\
  (forall ttls h i body, Forall (fun t => t <= RT_TTL_MAX) ttls -> (h <= 255)%N ->
     fst (pair1_chain i ttls (be32 h ++ body)) =
       match pfirst_fail h i ttls with
       | None => CArrive (be32 (h + N.of_nat (length ttls)) ++ body)
       | Some k => CDropAt k
       end /\
     length (snd (pair1_chain i ttls (be32 h ++ body))) =
       match pfirst_fail h i ttls with None => length ttls | Some k => k - i end).
Proof.
  split; [exact pair1_recv_values|]. split; [exact pair1_recv_short|]. split; [exact pair1_dev_values|].
  split; [exact pair1_dev_never_stops|]. split; [exact pair1_send_cooked|exact pair1_chain_wf].
Qed.
Print Assumptions pair1_hops_all_values.

(* ---------- constants ---------- *)
Theorem route_consts_match :
  RT_HEADER_MAX = C13_MAX_HEADER_SIZE /\ RT_HEADER_MAX = C13_HEADER_BUF_BYTES /\
  RT_HEADER_MAX = (NNI_MAX_MAX_TTL + MSG_HEADER_WORDS_EXTRA) * 4 /\
  ReqRepBacktrace.BT_HEADER_MAX = RT_HEADER_MAX /\ SurveyBacktrace.HDR_MAX = RT_HEADER_MAX /\
  RT_TTL_MAX = C13_MAX_TTL /\ RT_TTL_MAX = NNI_MAX_MAX_TTL /\
  ReqRepBacktrace.BT_TTL_MAX = RT_TTL_MAX /\ SurveyBacktrace.TTL_MAX = RT_TTL_MAX /\ PairModel.PAIR_TTL_MAX = RT_TTL_MAX /\
  RT_TTL_MIN = C13_REP_TTL_MIN /\ RT_TTL_MIN = C13_XREP_TTL_MIN /\ RT_TTL_MIN = C13_RESPOND_TTL_MIN /\
  RT_TTL_MIN = C13_XRESPOND_TTL_MIN /\ RT_TTL_MIN = C13_PAIR1_TTL_MIN /\
  PIPE_ID_MIN = C13_PIPE_ID_MIN /\ PIPE_ID_MAX = C13_PIPE_ID_MAX /\ (PIPE_ID_MAX + 1 = HI32)%N /\
  REQ_ID_MIN = C13_REQ_ID_MIN /\ REQ_ID_MAX = C13_REQ_ID_MAX /\
  REQ_ID_MIN = C13_SURVEY_ID_MIN /\ REQ_ID_MAX = C13_SURVEY_ID_MAX /\
  REQ_ID_MIN = HI32 /\ (REQ_ID_MAX + 1 = W32)%N /\
  4 + 4 * RT_TTL_MAX = RT_HEADER_MAX /\
  C13_DEVICE_FREES_ATTACHED = true /\
  C13_DEVICE_REFLECTOR_ONE_PATH = true /\
  (forall p, (PIPE_ID_MIN <= p <= PIPE_ID_MAX)%N -> pid_ok p).
Proof.
  repeat (split; [reflexivity|]). intros p H. unfold pid_ok, PIPE_ID_MIN, PIPE_ID_MAX, HI32 in *. lia.
Qed.
Print Assumptions route_consts_match.

(* ---------- non-vacuity ---------- *)
Definition c13_hops : list hop := [mkHop 5 8; mkHop 77 2; mkHop 1000 15].
Definition c13_id : N := 2147483651.      (* 0x80000003 *)

Example c13_contract_nonvacuous :
  Forall hop_ok c13_hops /\ id_ok c13_id /\ Forall pid_ok [1000; 77; 5]%N.
Proof.
  unfold hop_ok, id_ok, pid_ok, c13_hops, c13_id, HI32, REQ_ID_MIN, REQ_ID_MAX, RT_TTL_MAX. cbn [h_pid h_ttl].
  repeat constructor; lia.
Qed.

(* three devices, all ttls large enough, replier ttl 4: delivered; the reply comes back through pipes
   1000, 77, 5 to the requester, with the original id *)
Example c13_roundtrip_delivered_nonvacuous :
  roundtrip reqrep_ops c13_hops 4 c13_id [170; 1]%N [187; 2]%N =
    RtDone [170; 1]%N
           ([0; 0; 3; 232;  0; 0; 0; 77;  0; 0; 0; 5;  128; 0; 0; 3]%N)%N
           [1000; 77; 5]%N c13_id [187; 2]%N
  /\ roundtrip survey_ops c13_hops 4 c13_id [170; 1]%N [187; 2]%N =
    RtDone [170; 1]%N
           ([0; 0; 3; 232;  0; 0; 0; 77;  0; 0; 0; 5;  128; 0; 0; 3]%N)%N
           [1000; 77; 5]%N c13_id [187; 2]%N.
Proof. split; vm_compute; reflexivity. Qed.
(* replier ttl 3 < 4 words: discarded at the replier after three forwards; second device with ttl 1:
   discarded there after one forward *)
Example c13_roundtrip_dropped_nonvacuous :
  roundtrip reqrep_ops c13_hops 3 c13_id [170; 1]%N [187; 2]%N = RtLostAtReplier 3 /\
  roundtrip survey_ops [mkHop 5 8; mkHop 77 1; mkHop 1000 15] 15 c13_id [170; 1]%N [187; 2]%N = RtLostAt 2 1 /\
  first_fail 1 [mkHop 5 8; mkHop 77 1; mkHop 1000 15] = Some 2.
Proof. repeat split; vm_compute; reflexivity. Qed.

(* a two-device cycle (0 -> 1 -> 0 ...) with ttl 3 and 2: a request injected at device 0 is forwarded
   3 times in all and then nothing is left *)
Definition c13_ring (v : nat) : list (nat * N) := match v with 0 => [(1, 9%N)] | _ => [(0, 8%N)] end.
Definition c13_ring_ttl (v : nat) : nat := match v with 0 => 3 | _ => 2 end.
Example c13_loop_nonvacuous :
  let live := [(0, 7%N, orig_send c13_id [1; 2; 3]%N)] in
  flood nat (fam_forward reqrep_ops c13_ring_ttl) c13_ring 2 live <> [] /\
  flood nat (fam_forward reqrep_ops c13_ring_ttl) c13_ring 4 live = [] /\
  flood_forwards nat (fam_forward reqrep_ops c13_ring_ttl) c13_ring 10 live = 3 /\
  flood_forwards nat (pair1_forward c13_ring_ttl) c13_ring 10 [(0, 7%N, be32 1 ++ [9]%N)] = 3 /\
  flood_forwards nat bus_forward c13_ring 10 [(0, 7%N, [9]%N)] = 10.
Proof. cbv zeta. repeat split; try (vm_compute; reflexivity). vm_compute. discriminate. Qed.

(* malformed input from a raw peer: 16 hop words and no id -> discarded (ttl 15) by the raw REP,
   disconnect by the raw REQ; three bytes -> disconnect *)
Example c13_malformed_nonvacuous :
  let long := flat_map (fun _ => [0; 0; 0; 1]%N) (seq 0 16) ++ [1; 2]%N in
  f_front_recv reqrep_ops 5 15 long = RDrop /\ f_back_recv reqrep_ops long = RClose /\
  f_front_recv survey_ops 5 15 [1; 2; 3]%N = RClose /\ f_cooked_recv reqrep_ops 15 [128; 0; 0; 1; 66]%N = RDeliver (mkPmsg [128; 0; 0; 1]%N [66]%N) /\
  pair1_recv 8 (be32 9 ++ [1]%N) = RDrop /\ pair1_recv 8 (be32 256 ++ [1]%N) = RClose /\
  pair1_dev 8 (be32 8 ++ [1]%N) = FwdSend (be32 9 ++ [1]%N).
Proof. cbv zeta. repeat split; vm_compute; reflexivity. Qed.
