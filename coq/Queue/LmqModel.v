(* LmqModel: executable model of src/core/lmq.c.  Definitions only.
   Messages are identifiers (N); the ring's cells hold them. *)
From Coq Require Import List Arith Lia NArith Bool.
From NngV Require Import Base.Ring.
Import ListNotations.

Definition EAGAIN : N := 8%N.
Definition ENOMEM_q : N := 2%N.

Record lmq := mkLmq {
  q_cap : nat; q_alloc : nat;    (* q_alloc = 0: the inline 2-cell buffer lmq_buf *)
  q_mask : nat; q_len : nat; q_get : nat; q_put : nat;
  q_cells : list N }.

(* nni_lmq_put *)
Definition lmq_put (q : lmq) (x : N) : option (N * lmq) :=
  if q_cap q <=? q_len q then Some (EAGAIN, q) else
  match wr (q_cells q) (q_put q) x with
  | None => None
  | Some cs => Some (0%N, mkLmq (q_cap q) (q_alloc q) (q_mask q) (q_len q + 1) (q_get q)
                              (Nat.land (q_put q + 1) (q_mask q)) cs)
  end.

(* nni_lmq_get *)
Definition lmq_get (q : lmq) : option (N * option N * lmq) :=
  if q_len q =? 0 then Some (EAGAIN, None, q) else
  match rd (q_cells q) (q_get q) with
  | None => None
  | Some m => Some (0%N, Some m, mkLmq (q_cap q) (q_alloc q) (q_mask q) (q_len q - 1)
                                      (Nat.land (q_get q + 1) (q_mask q)) (q_put q) (q_cells q))
  end.

(* take up to [k] messages with nni_lmq_get *)
Fixpoint lmq_get_n (q : lmq) (k : nat) : option (list N * lmq) :=
  match k with
  | O => Some ([], q)
  | S k' =>
      match lmq_get q with
      | None => None
      | Some (rv, Some m, q1) =>
          match lmq_get_n q1 k' with
          | None => None
          | Some (l, q2) => Some (m :: l, q2)
          end
      | Some (_, None, q1) => Some ([], q1)
      end
  end.

(* nni_lmq_flush: returns the freed messages, oldest first *)
Definition lmq_flush (q : lmq) : option (list N * lmq) := lmq_get_n q (q_len q).

(* alloc = 2; while (alloc < cap) alloc *= 2; *)
Fixpoint pow2ge (fuel a cap : nat) : nat :=
  match fuel with
  | O => a
  | S f => if a <? cap then pow2ge f (2 * a) cap else a
  end.

(* nni_lmq_resize.  [fixed]: lmq_put = len & mask (repaired) vs lmq_put = len
   (pinned tree).  Result: rv, queue, messages freed (oldest first). *)
Definition lmq_resize (fixed : bool) (q : lmq) (cap : nat) (fail : bool) : option (N * lmq * list N) :=
  let alloc := pow2ge cap 2 cap in
  if fail then Some (ENOMEM_q, q, []) else
  match lmq_get_n q cap with
  | None => None
  | Some (taken, q1) =>
      match lmq_flush q1 with
      | None => None
      | Some (freed, _) =>
          let len := length taken in
          Some (0%N, mkLmq cap alloc (alloc - 1) len 0
                       (if fixed then Nat.land len (alloc - 1) else len)
                       (taken ++ repeat 0%N (alloc - len)), freed)
      end
  end.

(* nni_lmq_init: guaranteed to succeed; if the ring cannot be allocated the capacity is 2 *)
Definition lmq_init (fixed : bool) (cap : nat) (fail : bool) : option lmq :=
  let q0 := mkLmq 2 0 1 0 0 0 [0%N; 0%N] in
  if 2 <? cap then
    match lmq_resize fixed q0 cap fail with
    | None => None
    | Some (_, q, _) => Some q
    end
  else Some (mkLmq cap 0 1 0 0 0 [0%N; 0%N]).

Definition lmq_full (q : lmq) : bool := q_cap q <=? q_len q.
Definition lmq_empty (q : lmq) : bool := q_len q =? 0.

Inductive lop := LPut (x : N) | LGet | LFlush | LResize (cap : nat) (fail : bool).
Inductive lout := LRv (rv : N) (m : option N) | LFreed (rv : N) (l : list N).

Definition lmq_step (fixed : bool) (q : lmq) (o : lop) : option (lout * lmq) :=
  match o with
  | LPut x => match lmq_put q x with None => None | Some (rv, q') => Some (LRv rv None, q') end
  | LGet => match lmq_get q with None => None | Some (rv, m, q') => Some (LRv rv m, q') end
  | LFlush => match lmq_flush q with None => None | Some (l, q') => Some (LFreed 0%N l, q') end
  | LResize c f => match lmq_resize fixed q c f with None => None | Some (rv, q', l) => Some (LFreed rv l, q') end
  end.

Fixpoint lmq_run (fixed : bool) (q : lmq) (ops : list lop) : option (list lout * lmq) :=
  match ops with
  | [] => Some ([], q)
  | o :: r => match lmq_step fixed q o with
              | None => None
              | Some (out, q1) => match lmq_run fixed q1 r with
                                  | None => None
                                  | Some (outs, q2) => Some (out :: outs, q2) end
              end
  end.
