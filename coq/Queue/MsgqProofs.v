(* MsgqProofs: ring indices in range, FIFO order, bounds, waiter invariants. *)
From Coq Require Import List Arith Lia NArith Bool.
From NngV Require Import Base.Ring Queue.LmqModel Queue.MsgqModel.
Import ListNotations.

Ltac simp_m := cbn [fst snd mq_cap mq_len mq_get mq_put mq_closed mq_cells mq_putq mq_getq
                    mq_sendable mq_recvable set_ring set_qs run_notify] in *.

Definition items (q : msgq) : list N := window 0%N (mq_cells q) (mq_get q) (mq_len q).
Definition pending (q : msgq) : list N := items q ++ map snd (mq_putq q).

Definition MInv (q : msgq) : Prop :=
  mq_cap q + 2 <= mq_alloc q /\ mq_len q <= mq_alloc q /\ mq_get q < mq_alloc q /\
  mq_put q = (mq_get q + mq_len q) mod mq_alloc q.

(* waiter invariants: a blocked reader means nothing is queued or waiting to be
   written; a blocked writer means the buffer is at capacity *)
Definition QInv (q : msgq) : Prop :=
  (mq_getq q <> [] -> mq_len q = 0 /\ mq_putq q = []) /\
  (mq_putq q <> [] -> mq_cap q <= mq_len q).

Fixpoint consumed (outs : list mout) : list N :=
  match outs with
  | [] => []
  | Done _ _ (Some m) :: r => m :: consumed r
  | MFree m :: r => m :: consumed r
  | _ :: r => consumed r
  end.

Fixpoint accepted (outs : list mout) : list N :=
  match outs with
  | [] => []
  | Accept _ m :: r => m :: accepted r
  | _ :: r => accepted r
  end.

Ltac law_nil := (split; [cbn [accepted consumed app]; now rewrite app_nil_r | reflexivity]).

Lemma wrap_eqb g n : 0 < n -> g <= n -> (if g =? n then 0 else g) = g mod n.
Proof.
  intros Hn Hg. destruct (g =? n) eqn:E.
  - apply Nat.eqb_eq in E. subst. now rewrite Nat.mod_same by lia.
  - apply Nat.eqb_neq in E. now rewrite Nat.mod_small by lia.
Qed.
Lemma wrap_geb g n : 0 < n -> g <= n -> (if is_geb g n then 0 else g) = g mod n.
Proof.
  intros Hn Hg. unfold is_geb. destruct (n <=? g) eqn:E.
  - apply Nat.leb_le in E. assert (g = n) by lia. subst. now rewrite Nat.mod_same by lia.
  - apply Nat.leb_gt in E. now rewrite Nat.mod_small by lia.
Qed.

Definition good_wrap (w : nat -> nat -> bool) : Prop :=
  forall g n, 0 < n -> g <= n -> (if w g n then 0 else g) = g mod n.

Lemma ring_put_spec q m : MInv q -> mq_len q < mq_alloc q ->
  exists q', ring_put q m = Some q' /\ MInv q' /\ items q' = items q ++ [m] /\
             mq_len q' = mq_len q + 1 /\ mq_cap q' = mq_cap q /\ mq_putq q' = mq_putq q /\
             mq_getq q' = mq_getq q /\ mq_alloc q' = mq_alloc q /\ mq_closed q' = mq_closed q.
Proof.
  intros (Hc & Hl & Hg & Hp) Hlt. unfold ring_put, mq_alloc in *.
  assert (Hpl: mq_put q < length (mq_cells q)) by (rewrite Hp; apply Nat.mod_upper_bound; lia).
  rewrite wr_Some by exact Hpl. eexists; split; [reflexivity|].
  unfold MInv, items, mq_alloc. simp_m. rewrite upd_length.
  rewrite wrap_eqb by lia.
  repeat split; auto; try lia.
  - rewrite Hp, Nat.add_mod_idemp_l by lia. f_equal. lia.
  - rewrite Hp, Nat.add_1_r. apply window_put. exact Hlt.
Qed.

Lemma ring_get_spec w q : good_wrap w -> MInv q -> 0 < mq_len q ->
  exists m q', ring_get w q = Some (m, q') /\ MInv q' /\ items q = m :: items q' /\
             mq_len q' = mq_len q - 1 /\ mq_cap q' = mq_cap q /\ mq_putq q' = mq_putq q /\
             mq_getq q' = mq_getq q /\ mq_alloc q' = mq_alloc q /\ mq_closed q' = mq_closed q /\
             mq_cells q' = mq_cells q.
Proof.
  intros Hw (Hc & Hl & Hg & Hp) Hlt. unfold ring_get, mq_alloc in *.
  rewrite (rd_Some 0%N) by exact Hg. do 2 eexists; split; [reflexivity|].
  unfold MInv, items, mq_alloc. simp_m. rewrite Hw by lia.
  repeat split; auto; try lia.
  - apply Nat.mod_upper_bound. lia.
  - rewrite Hp, Nat.add_mod_idemp_l by lia. f_equal. lia.
  - destruct (mq_len q) as [|n]; [lia|]. rewrite window_get by exact Hg.
    replace (S n - 1) with n by lia. reflexivity.
Qed.

Lemma set_qs_inv q a b : MInv q -> MInv (set_qs q a b).
Proof. unfold MInv, mq_alloc. simp_m. auto. Qed.

Lemma run_putq_spec fuel : forall q, MInv q -> (mq_getq q <> [] -> mq_len q = 0) ->
  exists q' outs, run_putq fuel q = Some (q', outs) /\ MInv q' /\
    (items q ++ accepted outs = consumed outs ++ items q' /\
     map snd (mq_putq q) = accepted outs ++ map snd (mq_putq q')) /\
    mq_cap q' = mq_cap q /\ mq_alloc q' = mq_alloc q /\ mq_closed q' = mq_closed q /\
    mq_len q <= mq_len q' /\ mq_len q' <= Nat.max (mq_len q) (mq_cap q) /\
    (mq_getq q' <> [] -> mq_len q' = mq_len q) /\ (mq_getq q = [] -> mq_getq q' = []) /\
    (length (mq_putq q) <= fuel ->
       (mq_getq q' <> [] -> mq_putq q' = []) /\ (mq_putq q' <> [] -> mq_cap q <= mq_len q')).
Proof.
  induction fuel as [|f IH]; intros q HI Hr; cbn [run_putq].
  - exists q, []. split; [reflexivity|]. split; [exact HI|]. split; [law_nil|].
    repeat split; auto; try lia.
    + intros _. destruct (mq_putq q); [reflexivity|cbn in H; lia].
    + intros Hw. destruct (mq_putq q); [congruence|cbn in H; lia].
  - destruct (mq_putq q) as [|[wa m] wrest] eqn:EW.
    { exists q, []. rewrite EW. split; [reflexivity|]. split; [exact HI|]. split; [law_nil|].
      repeat split; auto; try lia; congruence. }
    destruct (mq_getq q) as [|ra rrest] eqn:ER.
    + (* no reader *)
      destruct (mq_len q <? mq_cap q) eqn:EL.
      * apply Nat.ltb_lt in EL.
        pose proof HI as (Hc & _).
        destruct (ring_put_spec (set_qs q wrest []) m (set_qs_inv _ _ _ HI)) as
            (q1 & P & HI1 & Hit & Hl1 & Hc1 & Hp1 & Hg1 & Ha1 & Hcl1).
        { unfold mq_alloc in *. simp_m. lia. }
        rewrite P. simp_m.
        destruct (IH q1 HI1) as (q' & outs & R & HI' & (Hi & Hw) & Hc' & Ha' & Hcl' & Hmono & Hmax & Hgl & Hge & Hfin).
        { rewrite Hg1. congruence. }
        rewrite R. exists q', (Accept wa m :: outs).
        unfold mq_alloc in *. simp_m.
        split; [reflexivity|]. split; [exact HI'|]. split.
        { cbn [consumed accepted]. split.
          - rewrite <- Hi, Hit. unfold items. simp_m. now rewrite <- app_assoc.
          - cbn [map snd app]. rewrite <- Hw, Hp1. reflexivity. }
        assert (G': mq_getq q' = []) by (apply Hge; exact Hg1).
        split; [congruence|]. split; [congruence|]. split; [congruence|]. split; [lia|]. split; [lia|].
        split; [intros Hne; congruence|]. split; [auto|].
        intros Hf. cbn [length] in Hf. destruct Hfin as [F1 F2]; [rewrite Hp1; lia|].
        split; [exact F1|]. intros Hw'. rewrite <- Hc1. auto.
      * apply Nat.ltb_ge in EL. exists q, []. rewrite EW, ER.
        split; [reflexivity|]. split; [exact HI|]. split; [law_nil|].
        repeat split; auto; try lia; try congruence.
    + (* a reader is waiting: hand over directly *)
      assert (HL0: mq_len q = 0) by (apply Hr; congruence).
      destruct (IH (set_qs q wrest rrest) (set_qs_inv _ _ _ HI)) as
          (q' & outs & R & HI' & (Hi & Hw) & Hc' & Ha' & Hcl' & Hmono & Hmax & Hgl & Hge & Hfin).
      { simp_m. auto. }
      rewrite R. exists q', (Done ra 0%N (Some m) :: Accept wa m :: outs).
      unfold mq_alloc in *. simp_m.
      split; [reflexivity|]. split; [exact HI'|]. split.
      { cbn [consumed accepted]. split.
        - rewrite <- app_comm_cons, <- Hi. unfold items. simp_m. rewrite HL0. reflexivity.
        - cbn [map snd app]. rewrite <- Hw. simp_m. try rewrite EW. reflexivity. }
      split; [congruence|]. split; [congruence|]. split; [congruence|]. split; [lia|]. split; [lia|].
      split; [intros Hne; rewrite Hgl by exact Hne; reflexivity|]. split; [congruence|].
      intros Hf. cbn [length] in Hf. apply Hfin. lia.
Qed.

Lemma good_eqb : good_wrap Nat.eqb.
Proof. intros g n. apply wrap_eqb. Qed.
Lemma good_geb : good_wrap is_geb.
Proof. intros g n. apply wrap_geb. Qed.

Lemma run_getq_spec fuel : forall q, MInv q ->
  exists q' outs, run_getq fuel q = Some (q', outs) /\ MInv q' /\
    (items q ++ accepted outs = consumed outs ++ items q' /\
     map snd (mq_putq q) = accepted outs ++ map snd (mq_putq q')) /\
    mq_cap q' = mq_cap q /\ mq_alloc q' = mq_alloc q /\ mq_closed q' = mq_closed q /\
    mq_len q' <= mq_len q /\
    (length (mq_getq q) <= fuel -> mq_getq q' <> [] -> mq_len q' = 0 /\ mq_putq q' = []).
Proof.
  induction fuel as [|f IH]; intros q HI; cbn [run_getq].
  - exists q, []. split; [reflexivity|]. split; [exact HI|]. split; [law_nil|].
    split; [reflexivity|]. split; [reflexivity|]. split; [reflexivity|]. split; [lia|].
    intros Hf Hne. destruct (mq_getq q); [congruence|cbn in Hf; lia].
  - destruct (mq_getq q) as [|ra rrest] eqn:ER.
    { exists q, []. rewrite ER. split; [reflexivity|]. split; [exact HI|]. split; [law_nil|].
      split; [reflexivity|]. split; [reflexivity|]. split; [reflexivity|]. split; [lia|].
      intros _ Hne. congruence. }
    destruct (mq_len q =? 0) eqn:EL; cbn [negb].
    + apply Nat.eqb_eq in EL.
      destruct (mq_putq q) as [|[wa m] wrest] eqn:EW.
      * exists q, []. rewrite ER, EW. split; [reflexivity|]. split; [exact HI|]. split; [law_nil|].
        split; [reflexivity|]. split; [reflexivity|]. split; [reflexivity|]. split; [lia|]. auto.
      * destruct (IH (set_qs q wrest rrest) (set_qs_inv _ _ _ HI)) as
            (q' & outs & R & HI' & (Hi & Hw) & Hc' & Ha' & Hcl' & Hmono & Hfin).
        rewrite R. exists q', (Accept wa m :: Done ra 0%N (Some m) :: outs).
        unfold mq_alloc in *. simp_m.
        split; [reflexivity|]. split; [exact HI'|]. split.
        { cbn [consumed accepted]. split.
          - rewrite <- app_comm_cons, <- Hi. unfold items. simp_m. rewrite EL. reflexivity.
          - cbn [map snd app]. rewrite <- Hw. simp_m. try rewrite EW. reflexivity. }
        split; [congruence|]. split; [congruence|]. split; [congruence|]. split; [lia|].
        intros Hf. cbn [length] in Hf. apply Hfin. lia.
    + apply Nat.eqb_neq in EL.
      destruct (ring_get_spec Nat.eqb q good_eqb HI ltac:(lia)) as
          (m & q1 & G & HI1 & Hit & Hl1 & Hc1 & Hp1 & Hg1 & Ha1 & Hcl1 & _).
      rewrite G.
      destruct (IH (set_qs q1 (mq_putq q1) rrest) (set_qs_inv _ _ _ HI1)) as
          (q' & outs & R & HI' & (Hi & Hw) & Hc' & Ha' & Hcl' & Hmono & Hfin).
      rewrite R. exists q', (Done ra 0%N (Some m) :: outs).
      unfold mq_alloc in *. simp_m.
      split; [reflexivity|]. split; [exact HI'|]. split.
      { cbn [consumed accepted]. split.
        - rewrite <- app_comm_cons, <- Hi, Hit. unfold items. simp_m. reflexivity.
        - rewrite <- Hw. simp_m. now rewrite Hp1. }
      split; [congruence|]. split; [congruence|]. split; [congruence|]. split; [lia|].
      intros Hf. cbn [length] in Hf. apply Hfin. lia.
Qed.

Lemma drain_spec w fuel : good_wrap w -> forall q, MInv q -> mq_len q <= fuel ->
  exists q' outs, drain w fuel q = Some (q', outs) /\ MInv q' /\ mq_len q' = 0 /\
    consumed outs = items q /\ mq_cap q' = mq_cap q /\ mq_putq q' = mq_putq q /\
    mq_getq q' = mq_getq q /\ mq_alloc q' = mq_alloc q /\ mq_closed q' = mq_closed q.
Proof.
  intros Hw. induction fuel as [|f IH]; intros q HI Hf; cbn [drain].
  - exists q, []. assert (E0: mq_len q = 0) by lia.
    split; [reflexivity|]. split; [exact HI|]. split; [exact E0|].
    split; [unfold items; rewrite E0; reflexivity|]. repeat split; auto.
  - destruct (mq_len q =? 0) eqn:EL.
    + apply Nat.eqb_eq in EL. exists q, [].
      split; [reflexivity|]. split; [exact HI|]. split; [exact EL|].
      split; [unfold items; rewrite EL; reflexivity|]. repeat split; auto.
    + apply Nat.eqb_neq in EL.
      destruct (ring_get_spec w q Hw HI ltac:(lia)) as
          (m & q1 & G & HI1 & Hit & Hl1 & Hc1 & Hp1 & Hg1 & Ha1 & Hcl1 & _).
      rewrite G. destruct (IH q1 HI1 ltac:(lia)) as (q' & outs & D & HI' & L0 & Hcon & Hc' & Hp' & Hg' & Ha' & Hcl').
      rewrite D. exists q', (MFree m :: outs). cbn [consumed].
      split; [reflexivity|]. split; [exact HI'|]. split; [exact L0|].
      split; [rewrite Hcon, Hit; reflexivity|].
      repeat split; congruence.
Qed.

Lemma drop_excess_spec w fuel cap : good_wrap w -> forall q, MInv q -> mq_len q <= fuel ->
  exists q' outs, drop_excess w fuel cap q = Some (q', outs) /\ MInv q' /\
    mq_len q' = Nat.min (mq_len q) (cap + 1) /\
    items q = consumed outs ++ items q' /\ mq_cap q' = mq_cap q /\ mq_putq q' = mq_putq q /\
    mq_getq q' = mq_getq q /\ mq_alloc q' = mq_alloc q /\ mq_closed q' = mq_closed q /\
    (forall o, In o outs -> exists m, o = MFree m).
Proof.
  intros Hw. induction fuel as [|f IH]; intros q HI Hf; cbn [drop_excess].
  - exists q, []. split; [reflexivity|]. split; [exact HI|]. split; [lia|]. split; [reflexivity|].
    do 5 (split; [reflexivity|]). intros o [].
  - destruct (cap + 1 <? mq_len q) eqn:EL.
    + apply Nat.ltb_lt in EL.
      destruct (ring_get_spec w q Hw HI ltac:(lia)) as
          (m & q1 & G & HI1 & Hit & Hl1 & Hc1 & Hp1 & Hg1 & Ha1 & Hcl1 & _).
      rewrite G. destruct (IH q1 HI1 ltac:(lia)) as (q' & outs & D & HI' & L0 & Hcon & Hc' & Hp' & Hg' & Ha' & Hcl' & Hfree).
      rewrite D. exists q', (MFree m :: outs). cbn [consumed].
      split; [reflexivity|]. split; [exact HI'|]. split; [lia|].
      split; [rewrite Hit, Hcon; reflexivity|].
      do 5 (split; [congruence|]).
      intros o [<-|Hin]; eauto.
    + apply Nat.ltb_ge in EL. exists q, []. split; [reflexivity|]. split; [exact HI|]. split; [lia|]. split; [reflexivity|].
      do 5 (split; [reflexivity|]). intros o [].
Qed.

Lemma copy_ring_spec fuel : forall old og q, og < length old -> MInv q ->
  mq_len q + fuel < mq_alloc q ->
  exists q', copy_ring fuel old og q = Some q' /\ MInv q' /\
    items q' = items q ++ window 0%N old og fuel /\ mq_len q' = mq_len q + fuel /\
    mq_cap q' = mq_cap q /\ mq_putq q' = mq_putq q /\ mq_getq q' = mq_getq q /\
    mq_alloc q' = mq_alloc q /\ mq_closed q' = mq_closed q.
Proof.
  induction fuel as [|f IH]; intros old og q Hog HI Hroom; cbn [copy_ring].
  - exists q. rewrite window_0, app_nil_r, Nat.add_0_r. split; [reflexivity|]. split; [exact HI|]. repeat split; reflexivity.
  - rewrite (rd_Some 0%N) by exact Hog.
    destruct (ring_put_spec q (nth og old 0%N) HI ltac:(lia)) as
        (q1 & P & HI1 & Hit & Hl1 & Hc1 & Hp1 & Hg1 & Ha1 & Hcl1).
    rewrite P.
    destruct (IH old (if og + 1 =? length old then 0 else og + 1) q1) as
        (q' & C & HI' & Hit' & Hl' & Hc' & Hp' & Hg' & Ha' & Hcl').
    { rewrite wrap_eqb by lia. apply Nat.mod_upper_bound. lia. }
    { exact HI1. } { lia. }
    rewrite C. exists q'. split; [reflexivity|]. split; [exact HI'|].
    split. { rewrite Hit', Hit, window_get by exact Hog. rewrite wrap_eqb by lia.
             rewrite <- app_assoc. reflexivity. }
    split; [lia|]. repeat split; congruence.
Qed.

Definition BInv (q : msgq) : Prop := mq_len q <= mq_cap q + 1.
Definition QInv1 (q : msgq) : Prop := mq_getq q <> [] -> mq_len q = 0 /\ mq_putq q = [].
Definition AllInv (q : msgq) : Prop := MInv q /\ QInv1 q /\ BInv q.


Lemma notify_inv q : AllInv q -> AllInv (run_notify q).
Proof. intros (A & B & C). unfold AllInv, MInv, QInv1, BInv, mq_alloc in *. simp_m. auto. Qed.
Lemma notify_items q : items (run_notify q) = items q.
Proof. reflexivity. Qed.

(* FIFO in acceptance order: the buffered messages, followed by the messages
   accepted in this step (writers completed, in that order; a successful
   tryput), are exactly the messages handed to readers or freed in this step,
   in that order, followed by what stays buffered. *)
Definition step_law (q : msgq) (o : mop) (rv : N) (q' : msgq) (outs : list mout) : Prop :=
  match o with
  | MAioPut a m ok =>
      (* refused by nni_aio_start (only reached when the operation would have to wait) *)
      (q' = q /\ outs = [] /\ ok = false /\
       (mq_putq q <> [] \/ (mq_getq q = [] /\ mq_cap q <= mq_len q))) \/
      (items q ++ accepted outs = consumed outs ++ items q' /\ mq_cap q' = mq_cap q /\
       map snd (mq_putq q) ++ [m] = accepted outs ++ map snd (mq_putq q'))
  | MAioGet a ok =>
      (q' = q /\ outs = [] /\ ok = false /\
       (mq_getq q <> [] \/ (mq_len q = 0 /\ mq_putq q = []))) \/
      (items q ++ accepted outs = consumed outs ++ items q' /\ mq_cap q' = mq_cap q /\
       map snd (mq_putq q) = accepted outs ++ map snd (mq_putq q'))
  | MTryPut m =>
      (rv = 0%N /\ items q ++ [m] = consumed outs ++ items q' /\ accepted outs = [] /\
       mq_putq q' = mq_putq q) \/
      (rv <> 0%N /\ q' = q /\ outs = [] /\
       (rv = ECLOSED /\ mq_closed q = true \/
        rv = EAGAIN /\ mq_getq q = [] /\ mq_cap q <= mq_len q))
  | MCancel a rv' => items q' = items q /\ consumed outs = [] /\ accepted outs = [] /\ mq_cap q' = mq_cap q /\
                     mq_putq q' = filter (fun p => negb (N.eqb (fst p) a)) (mq_putq q)
  | MClose => consumed outs = items q /\ accepted outs = [] /\ mq_len q' = 0 /\ mq_putq q' = [] /\
              mq_getq q' = [] /\ mq_closed q' = true
  | MResize cap fail =>
      (rv = ENOMEM_q /\ q' = q /\ outs = [] /\ fail = true) \/
      (* first the oldest messages beyond cap+1 are freed (and only those), then the
         waiter queues are re-run: the FIFO law holds for the whole step *)
      (rv = 0%N /\ mq_cap q' = cap /\
       exists dropped rest, outs = dropped ++ rest /\
         (forall o, In o dropped -> exists m, o = MFree m) /\
         length dropped = mq_len q - Nat.min (mq_len q) (cap + 1) /\
         (forall o, In o rest -> forall m, o <> MFree m) /\
         items q ++ accepted outs = consumed outs ++ items q' /\
         map snd (mq_putq q) = accepted outs ++ map snd (mq_putq q'))
  | MNotify => items q' = items q /\ mq_putq q' = mq_putq q /\ outs = []
  end.

Lemma consumed_fail_all rv l : consumed (fail_all rv l) = [] /\ accepted (fail_all rv l) = [].
Proof. induction l; cbn; auto. Qed.

Lemma consumed_app a b : consumed (a ++ b) = consumed a ++ consumed b.
Proof. induction a as [|[? ? [m|]|? ?|m] a IH]; cbn; rewrite ?IH; reflexivity. Qed.
Lemma accepted_app a b : accepted (a ++ b) = accepted a ++ accepted b.
Proof. induction a as [|[? ? ?|? ?|m] a IH]; cbn; rewrite ?IH; reflexivity. Qed.

Lemma filter_nil_keep {A} (f : A -> bool) l : l = [] -> filter f l = [].
Proof. intros ->. reflexivity. Qed.

Lemma drain_accepted w n : forall q q' outs, drain w n q = Some (q', outs) -> accepted outs = [].
Proof.
  induction n as [|n IH]; intros q q' outs D; cbn [drain] in D.
  { inversion D. reflexivity. }
  destruct (mq_len q =? 0); [inversion D; reflexivity|].
  destruct (ring_get w q) as [[m qa]|]; [|discriminate].
  destruct (drain w n qa) as [[qb o2]|] eqn:E; [|discriminate].
  inversion D; subst. cbn [accepted]. eapply IH; eauto.
Qed.

Lemma run_putq_no_free fuel : forall q q' outs m, run_putq fuel q = Some (q', outs) -> ~ In (MFree m) outs.
Proof.
  induction fuel as [|f IH]; intros q q' outs m H; cbn [run_putq] in H.
  { inversion H. intros []. }
  destruct (mq_putq q) as [|[wa x] wrest]; [inversion H; intros []|].
  destruct (mq_getq q) as [|ra rrest].
  - destruct (mq_len q <? mq_cap q); [|inversion H; intros []].
    destruct (ring_put _ x) as [q1|]; [|discriminate].
    destruct (run_putq f q1) as [[q2 o2]|] eqn:E; [|discriminate]. inversion H; subst.
    intros [X|X]; [discriminate|]. eapply IH; eauto.
  - destruct (run_putq f _) as [[q2 o2]|] eqn:E; [|discriminate]. inversion H; subst.
    intros [X|[X|X]]; try discriminate. eapply IH; eauto.
Qed.
Lemma run_getq_no_free fuel : forall q q' outs m, run_getq fuel q = Some (q', outs) -> ~ In (MFree m) outs.
Proof.
  induction fuel as [|f IH]; intros q q' outs m H; cbn [run_getq] in H.
  { inversion H. intros []. }
  destruct (mq_getq q) as [|ra rrest]; [inversion H; intros []|].
  destruct (negb (mq_len q =? 0)).
  - destruct (ring_get Nat.eqb q) as [[x q1]|]; [|discriminate].
    destruct (run_getq f _) as [[q2 o2]|] eqn:E; [|discriminate]. inversion H; subst.
    intros [X|X]; [discriminate|]. eapply IH; eauto.
  - destruct (mq_putq q) as [|[wa x] wrest]; [inversion H; intros []|].
    destruct (run_getq f _) as [[q2 o2]|] eqn:E; [|discriminate]. inversion H; subst.
    intros [X|[X|X]]; try discriminate. eapply IH; eauto.
Qed.

Theorem msgq_step_spec q o : AllInv q ->
  exists rv q' outs, msgq_step true q o = Some (rv, q', outs) /\ AllInv q' /\ step_law q o rv q' outs.
Proof.
  intros (HI & HQ & HB). pose proof HI as (Hc & Hl & Hg & Hp).
  destruct o as [a m ok|a ok|m|a rv0| |cap fail|]; cbn [msgq_step].
  - (* aio_put *)
    match goal with |- context [if ?b then _ else _] => destruct b eqn:MS end.
    { exists 0%N, q, []. split; [reflexivity|]. split; [split; auto|]. cbn [step_law]. left.
      apply andb_true_iff in MS as [MS OK]. destruct ok; [discriminate|].
      split; [reflexivity|]. split; [reflexivity|]. split; [reflexivity|].
      apply orb_true_iff in MS as [MS|MS].
      - left. destruct (mq_putq q); [discriminate|congruence].
      - right. apply andb_true_iff in MS as [G L]. apply Nat.leb_le in L.
        destruct (mq_getq q); [auto|discriminate]. }
    set (q1 := set_qs q (mq_putq q ++ [(a, m)]) (mq_getq q)).
    destruct (run_putq_spec (length (mq_putq q1)) q1 (set_qs_inv _ _ _ HI)) as
        (q2 & outs & R & HI2 & (Hi & Hw) & Hc2 & Ha2 & Hcl2 & Hmono & Hmax & Hgl & Hge & Hfin).
    { unfold q1; simp_m. intros Hne. apply HQ; auto. }
    rewrite R. exists 0%N, (run_notify q2), outs. split; [reflexivity|]. split.
    + apply notify_inv. split; [exact HI2|]. split.
      * intros Hne. destruct (Hfin (le_n _)) as [F1 _]. split; [|auto].
        rewrite (Hgl Hne). unfold q1; simp_m.
        assert (Hq: mq_getq q <> []) by (intros E; apply Hne, Hge; exact E).
        apply HQ; exact Hq.
      * unfold BInv in *. unfold q1 in *; simp_m. lia.
    + cbn [step_law]. right. rewrite notify_items. split; [exact Hi|]. split.
      * simp_m. unfold q1 in Hc2; simp_m. exact Hc2.
      * simp_m. rewrite <- Hw. unfold q1; simp_m. rewrite map_app. reflexivity.
  - (* aio_get *)
    match goal with |- context [if ?b then _ else _] => destruct b eqn:MS end.
    { exists 0%N, q, []. split; [reflexivity|]. split; [split; auto|]. cbn [step_law]. left.
      apply andb_true_iff in MS as [MS OK]. destruct ok; [discriminate|].
      split; [reflexivity|]. split; [reflexivity|]. split; [reflexivity|].
      apply orb_true_iff in MS as [MS|MS].
      - left. destruct (mq_getq q); [discriminate|congruence].
      - right. apply andb_true_iff in MS as [L P]. apply Nat.eqb_eq in L.
        destruct (mq_putq q); [auto|discriminate]. }
    set (q1 := set_qs q (mq_putq q) (mq_getq q ++ [a])).
    destruct (run_getq_spec (length (mq_getq q1)) q1 (set_qs_inv _ _ _ HI)) as
        (q2 & outs & R & HI2 & (Hi & Hw) & Hc2 & Ha2 & Hcl2 & Hmono & Hfin).
    rewrite R.
    assert (Pre2: mq_getq q2 <> [] -> mq_len q2 = 0) by (intros Hne; apply Hfin; auto).
    destruct (run_putq_spec (length (mq_putq q2)) q2 HI2 Pre2) as
        (q3 & o3 & R3 & HI3 & (Hi3 & Hw3) & Hc3 & Ha3 & Hcl3 & Hmono3 & Hmax3 & Hgl3 & Hge3 & Hfin3).
    rewrite R3. exists 0%N, (run_notify q3), (outs ++ o3). split; [reflexivity|]. split.
    + apply notify_inv. split; [exact HI3|]. split.
      * intros Hne. destruct (Hfin3 (le_n _)) as [F1 _]. split; [|auto].
        rewrite (Hgl3 Hne).
        assert (Hq: mq_getq q2 <> []) by (intros E; apply Hne, Hge3; exact E).
        apply Hfin; auto.
      * unfold BInv in *. unfold q1 in *; simp_m. lia.
    + cbn [step_law]. right. rewrite notify_items, !accepted_app, !consumed_app. split.
      * change (items q) with (items q1). rewrite app_assoc, Hi, <- !app_assoc. f_equal. exact Hi3.
      * split.
        -- simp_m. unfold q1 in Hc2; simp_m. lia.
        -- simp_m. rewrite <- app_assoc, <- Hw3. exact Hw.
  - (* tryput *)
    destruct (mq_closed q) eqn:ECl.
    { exists ECLOSED, q, []. split; [reflexivity|]. split; [split; auto|].
      cbn. right. split; [discriminate|]. auto 10. }
    destruct (mq_getq q) as [|ra rrest] eqn:ER.
    + destruct (mq_len q <? mq_cap q) eqn:EL.
      * apply Nat.ltb_lt in EL.
        destruct (ring_put_spec q m HI ltac:(unfold mq_alloc in *; lia)) as
            (q1 & P & HI1 & Hit & Hl1 & Hc1 & Hp1 & Hg1 & Ha1 & Hcl1).
        rewrite P. exists 0%N, (run_notify q1), []. split; [reflexivity|]. split.
        -- apply notify_inv. split; [exact HI1|]. split.
           ++ intros Hne. rewrite Hg1, ER in Hne. congruence.
           ++ unfold BInv in *. lia.
        -- cbn [step_law]. left. split; [reflexivity|]. rewrite notify_items.
           cbn [consumed accepted app]. rewrite Hit. simp_m. auto.
      * apply Nat.ltb_ge in EL. exists EAGAIN, q, []. split; [reflexivity|]. split; [split; auto|].
        cbn. right. split; [discriminate|]. auto 10.
    + destruct (HQ ltac:(congruence)) as [L0 W0].
      exists 0%N, (run_notify (set_qs q (mq_putq q) rrest)), [Done ra 0%N (Some m)].
      split; [reflexivity|]. split.
      * apply notify_inv. split; [apply set_qs_inv; exact HI|]. split.
        -- intros _. simp_m. auto.
        -- unfold BInv in *. simp_m. lia.
      * cbn [step_law]. left. split; [reflexivity|]. rewrite notify_items.
        unfold items. simp_m. rewrite L0. cbn. auto.
  - (* cancel *)
    eexists _, _, _. split; [reflexivity|]. split.
    + apply notify_inv. split; [apply set_qs_inv; exact HI|]. split.
      * intros Hne. simp_m.
        assert (Hq: mq_getq q <> []). { intros E. rewrite E in Hne. cbn in Hne. congruence. }
        destruct (HQ Hq) as [L0 W0]. split; [exact L0|]. rewrite W0. reflexivity.
      * unfold BInv in *. simp_m. exact HB.
    + cbn [step_law]. rewrite notify_items. simp_m.
      split; [reflexivity|]. destruct (_ || _); cbn; auto.
  - (* close *)
    set (q0 := mkMsgq (mq_cap q) (mq_len q) (mq_get q) (mq_put q) true (mq_cells q) (mq_putq q) (mq_getq q)
                      (mq_sendable q) (mq_recvable q)).
    assert (HI0: MInv q0) by (unfold MInv, mq_alloc, q0 in *; simp_m; auto).
    destruct (drain_spec is_geb (mq_len q0) good_geb q0 HI0 (le_n _)) as
        (q1 & outs & D & HI1 & L0 & Hcon & Hc1 & Hp1 & Hg1 & Ha1 & Hcl1).
    rewrite D. eexists _, _, _. split; [reflexivity|]. split.
    + split; [apply set_qs_inv; exact HI1|]. split.
      * intros Hne. simp_m. congruence.
      * unfold BInv. simp_m. lia.
    + cbn [step_law]. simp_m.
      destruct (consumed_fail_all ECLOSED (mq_getq q1)) as [C1 A1].
      destruct (consumed_fail_all ECLOSED (map fst (mq_putq q1))) as [C2 A2].
      rewrite !consumed_app, !accepted_app, C1, C2, A1, A2, !app_nil_r, Hcon.
      split; [reflexivity|]. split.
      * eapply drain_accepted; exact D.
      * repeat split; auto.
  - (* resize *)
    destruct ((mq_alloc q <? cap + 2) && fail) eqn:EF.
    { apply andb_true_iff in EF as [_ ->]. exists ENOMEM_q, q, []. split; [reflexivity|]. split; [split; auto|].
      cbn. left. auto. }
    destruct (drop_excess_spec is_geb (mq_len q) cap good_geb q HI (le_n _)) as
        (q1 & outs & D & HI1 & L1 & Hit & Hc1 & Hp1 & Hg1 & Ha1 & Hcl1 & Hfree).
    rewrite D.
    (* the resized queue q2: same items, waiters; capacity cap *)
    assert (RES: exists q2,
      (if negb (mq_alloc q <? cap + 2)
       then Some (mkMsgq cap (mq_len q1) (mq_get q1) (mq_put q1) (mq_closed q1) (mq_cells q1)
                         (mq_putq q1) (mq_getq q1) (mq_sendable q1) (mq_recvable q1))
       else copy_ring (mq_len q1) (mq_cells q1) (mq_get q1)
              (mkMsgq cap 0 0 0 (mq_closed q1) (repeat 0%N (cap + 2)) (mq_putq q1) (mq_getq q1)
                      (mq_sendable q1) (mq_recvable q1))) = Some q2 /\
      MInv q2 /\ items q2 = items q1 /\ mq_len q2 = mq_len q1 /\ mq_cap q2 = cap /\
      mq_putq q2 = mq_putq q1 /\ mq_getq q2 = mq_getq q1).
    { destruct (mq_alloc q <? cap + 2) eqn:EG; cbn [negb].
      - apply Nat.ltb_lt in EG.
        set (qn := mkMsgq cap 0 0 0 (mq_closed q1) (repeat 0%N (cap + 2)) (mq_putq q1) (mq_getq q1)
                          (mq_sendable q1) (mq_recvable q1)).
        assert (HIn: MInv qn).
        { unfold MInv, mq_alloc, qn. simp_m. rewrite repeat_length. repeat split; try lia.
          rewrite Nat.mod_small; lia. }
        pose proof HI1 as (_ & _ & Hg1' & _).
        destruct (copy_ring_spec (mq_len q1) (mq_cells q1) (mq_get q1) qn Hg1' HIn) as
            (q2 & C & HI2 & Hit2 & Hl2 & Hc2 & Hp2 & Hg2 & Ha2 & Hcl2).
        { unfold mq_alloc, qn. simp_m. rewrite repeat_length. lia. }
        exists q2. split; [exact C|]. split; [exact HI2|]. unfold qn in *; simp_m.
        split; [rewrite Hit2; unfold items at 1; simp_m; reflexivity|]. repeat split; auto; lia.
      - apply Nat.ltb_ge in EG. eexists. split; [reflexivity|].
        pose proof HI1 as (A1 & A2 & A3 & A4). split.
        { unfold MInv, mq_alloc in *. simp_m. repeat split; auto; lia. }
        unfold items. simp_m. repeat split; auto. }
    destruct RES as (q2 & -> & HI2 & Hit2 & Hl2 & Hc2 & Hp2 & Hg2).
    assert (Pre2: mq_getq q2 <> [] -> mq_len q2 = 0).
    { intros Hne. rewrite Hg2, Hg1 in Hne. destruct (HQ Hne) as [L0 _]. lia. }
    destruct (run_putq_spec (length (mq_putq q2)) q2 HI2 Pre2) as
        (q3 & o3 & R3 & HI3 & (Hi3 & Hw3) & Hc3 & Ha3 & Hcl3 & Hmono3 & Hmax3 & Hgl3 & Hge3 & Hfin3).
    rewrite R3.
    destruct (run_getq_spec (length (mq_getq q3)) q3 HI3) as
        (q4 & o4 & R4 & HI4 & (Hi4 & Hw4) & Hc4 & Ha4 & Hcl4 & Hmono4 & Hfin4).
    rewrite R4. exists 0%N, (run_notify q4), (outs ++ o3 ++ o4). split; [reflexivity|].
    assert (AccD: accepted outs = []).
    { clear - Hfree. induction outs as [|o r IH]; [reflexivity|].
      destruct (Hfree o (or_introl eq_refl)) as [m ->]. cbn. apply IH. intros o' Ho'. apply Hfree. now right. }
    split.
    + apply notify_inv. split; [exact HI4|]. split.
      * intros Hne. apply Hfin4; auto.
      * unfold BInv. lia.
    + cbn [step_law]. right. split; [reflexivity|]. split; [simp_m; lia|].
      exists outs, (o3 ++ o4). split; [reflexivity|]. split; [exact Hfree|]. split.
      { (* exactly the messages that no longer fit *)
        assert (LL: length (consumed outs) = length outs).
        { clear - Hfree. induction outs as [|o r IH]; [reflexivity|].
          destruct (Hfree o (or_introl eq_refl)) as [m ->]. cbn. f_equal. apply IH. intros o' Ho'. apply Hfree. now right. }
        rewrite <- LL.
        assert (LI: forall x, MInv x -> length (items x) = mq_len x) by (intros; unfold items; apply window_length).
        pose proof (f_equal (@length N) Hit) as E. rewrite app_length, (LI q HI), (LI q1 HI1) in E. lia. }
      split.
      { intros o Hin m0 ->. apply in_app_or in Hin as [Hin|Hin].
        - eapply run_putq_no_free; eauto.
        - eapply run_getq_no_free; eauto. }
      rewrite notify_items. rewrite !accepted_app, !consumed_app, AccD. cbn [app]. split.
      * rewrite Hit, <- Hit2. rewrite <- !app_assoc. f_equal.
        rewrite app_assoc, Hi3, <- app_assoc. f_equal. exact Hi4.
      * simp_m. rewrite <- Hp1, <- Hp2, Hw3, <- app_assoc. f_equal. exact Hw4.
  - (* notify *)
    exists 0%N, (run_notify q), []. split; [reflexivity|]. split; [apply notify_inv; split; auto|].
    cbn. auto.
Qed.

Lemma msgq_init_inv cap : AllInv (msgq_init cap) /\ items (msgq_init cap) = [].
Proof.
  unfold AllInv, MInv, QInv1, BInv, mq_alloc, msgq_init, items. simp_m. rewrite repeat_length.
  repeat split; try lia; try congruence. rewrite Nat.mod_small; lia.
Qed.

Definition step_acc (o : mop) (rv : N) (outs : list mout) : list N :=
  accepted outs ++ match o with MTryPut m => if (rv =? 0)%N then [m] else [] | _ => [] end.

Lemma step_law_uniform q o rv q' outs :
  AllInv q' -> step_law q o rv q' outs -> items q ++ step_acc o rv outs = consumed outs ++ items q'.
Proof.
  intros HI' L. unfold step_acc. destruct o as [a m ok|a ok|m|a rv0| |cap fail|]; cbn [step_law] in L.
  - destruct L as [(-> & -> & _)|(L & _)]; [cbn; now rewrite app_nil_r|now rewrite app_nil_r].
  - destruct L as [(-> & -> & _)|(L & _)]; [cbn; now rewrite app_nil_r|now rewrite app_nil_r].
  - destruct L as [(-> & L & A & _)|(Hrv & -> & -> & _)].
    + rewrite A. cbn. exact L.
    + destruct (rv =? 0)%N eqn:E; [apply N.eqb_eq in E; congruence|]. cbn. now rewrite app_nil_r.
  - destruct L as (L & C & A & _). rewrite C, A, L. cbn. now rewrite app_nil_r.
  - destruct L as (C & A & L0 & _). rewrite C, A. cbn. rewrite app_nil_r.
    unfold items at 3. rewrite L0. cbn. now rewrite app_nil_r.
  - destruct L as [(-> & -> & -> & _)|(-> & _ & dropped & rest & -> & _ & _ & _ & L & _)].
    + cbn. now rewrite app_nil_r.
    + rewrite app_nil_r. exact L.
  - destruct L as (L & _ & ->). cbn. now rewrite app_nil_r, L.
Qed.

Fixpoint run_acc (ops : list mop) (res : list (N * list mout)) : list N :=
  match ops, res with
  | o :: r, (rv, outs) :: rr => step_acc o rv outs ++ run_acc r rr
  | _, _ => []
  end.
Fixpoint run_con (res : list (N * list mout)) : list N :=
  match res with
  | [] => []
  | (_, outs) :: rr => consumed outs ++ run_con rr
  end.

(* every history: no out-of-range ring access (the run is total), all
   invariants kept, and FIFO in acceptance order over the whole history *)
Theorem msgq_run_spec ops : forall q, AllInv q ->
  exists q' res, msgq_run true q ops = Some (q', res) /\ AllInv q' /\ length res = length ops /\
    items q ++ run_acc ops res = run_con res ++ items q'.
Proof.
  induction ops as [|o r IH]; intros q HI.
  - exists q, []. split; [reflexivity|]. split; [exact HI|]. split; [reflexivity|]. cbn [run_acc run_con app]. apply app_nil_r.
  - cbn [msgq_run]. destruct (msgq_step_spec q o HI) as (rv & q1 & outs & S & HI1 & L). rewrite S.
    destruct (IH q1 HI1) as (q2 & rr & R & HI2 & Hlen & F). rewrite R.
    exists q2, ((rv, outs) :: rr). split; [reflexivity|]. split; [exact HI2|]. split; [cbn; lia|].
    cbn [run_acc run_con]. rewrite app_assoc, (step_law_uniform _ _ _ _ _ HI1 L).
    rewrite <- !app_assoc. f_equal. exact F.
Qed.

Theorem msgq_bounded q : AllInv q ->
  mq_len q <= mq_cap q + 1 /\ mq_get q < mq_alloc q /\ mq_put q < mq_alloc q /\
  (mq_getq q <> [] -> mq_len q = 0 /\ mq_putq q = []).
Proof.
  intros ((Hc & Hl & Hg & Hp) & HQ & HB). repeat split; auto.
  - rewrite Hp. apply Nat.mod_upper_bound. lia.
  - apply HQ; auto.
  - apply HQ; auto.
Qed.

(* without a shrink the depth bound is the configured capacity *)
Theorem msgq_len_le_cap q o rv q' outs : AllInv q -> mq_len q <= mq_cap q ->
  (forall c f, o <> MResize c f) ->
  msgq_step true q o = Some (rv, q', outs) -> mq_len q' <= mq_cap q'.
Proof.
  intros HI Hle Hnr S. destruct (msgq_step_spec q o HI) as (rv1 & q1 & outs1 & S1 & HI1 & L).
  rewrite S in S1. inversion S1; subst rv1 q1 outs1. clear S1.
  destruct HI as (HM & HQ & HB). destruct HI1 as (HM1 & HQ1 & HB1).
  assert (LL: forall q, MInv q -> length (items q) = mq_len q) by (intros; unfold items; apply window_length).
  destruct o as [a m ok|a ok|m|a rv0| |cap fail|]; cbn [step_law] in L.
  - cbn [msgq_step] in S.
    match type of S with context [if ?b then _ else _] => destruct b end; [inversion S; subst; exact Hle|].
    set (q1 := set_qs q (mq_putq q ++ [(a, m)]) (mq_getq q)) in *.
    destruct (run_putq_spec (length (mq_putq q1)) q1 (set_qs_inv _ _ _ HM)) as
        (q2 & outs2 & R & _ & _ & Hc2 & _ & _ & _ & Hmax & _).
    { unfold q1; simp_m. intros Hne. apply HQ; auto. }
    rewrite R in S. inversion S; subst. simp_m. unfold q1 in *; simp_m. lia.
  - cbn [msgq_step] in S.
    match type of S with context [if ?b then _ else _] => destruct b end; [inversion S; subst; exact Hle|].
    set (q1 := set_qs q (mq_putq q) (mq_getq q ++ [a])) in *.
    destruct (run_getq_spec (length (mq_getq q1)) q1 (set_qs_inv _ _ _ HM)) as
        (q2 & outs2 & R & HI2 & _ & Hc2 & _ & _ & Hmono & Hfin).
    rewrite R in S.
    assert (Pre2: mq_getq q2 <> [] -> mq_len q2 = 0) by (intros Hne; apply Hfin; auto).
    destruct (run_putq_spec (length (mq_putq q2)) q2 HI2 Pre2) as
        (q3 & o3 & R3 & _ & _ & Hc3 & _ & _ & _ & Hmax3 & _).
    rewrite R3 in S. inversion S; subst. simp_m. unfold q1 in *; simp_m. lia.
  - cbn [msgq_step] in S. destruct (mq_closed q); [inversion S; subst; exact Hle|].
    destruct (mq_getq q); [|inversion S; subst; simp_m; exact Hle].
    destruct (mq_len q <? mq_cap q) eqn:EL; [|inversion S; subst; exact Hle].
    apply Nat.ltb_lt in EL. unfold ring_put in S. destruct (wr _ _ _); [|discriminate].
    inversion S; subst. simp_m. lia.
  - cbn [msgq_step] in S. inversion S; subst. simp_m. exact Hle.
  - destruct L as (_ & _ & L0 & _). lia.
  - exfalso. eapply Hnr; reflexivity.
  - cbn [msgq_step] in S. inversion S; subst. simp_m. exact Hle.
Qed.

(* the pinned tree: the wrap test `mq_get > mq_alloc` lets the drop loop read past the array *)
Definition msgq_unfixed_witness : option (msgq * list (N * list mout)) :=
  msgq_run false (msgq_init 4)
    [MTryPut 1; MTryPut 2; MTryPut 3; MTryPut 4; MAioGet 101 true; MAioGet 102 true; MAioGet 103 true;
     MAioGet 104 true; MTryPut 5; MTryPut 6; MTryPut 7; MTryPut 8; MResize 0 false]%N.
Theorem msgq_resize_unfixed_refuted : msgq_unfixed_witness = None.
Proof. vm_compute. reflexivity. Qed.

(* ---- no writer waits while there is room (since fix e654d99: nni_msgq_aio_get runs the
        writer side too); the pinned form left a blocked writer waiting on an empty queue ---- *)
Definition WaitInv (q : msgq) : Prop := mq_putq q <> [] -> mq_cap q <= mq_len q.

Lemma run_getq_no_reader fuel q : mq_getq q = [] -> run_getq fuel q = Some (q, []).
Proof. intros E. destruct fuel; cbn [run_getq]; [reflexivity|]. rewrite E. reflexivity. Qed.

Lemma map_snd_nil {A B} (l : list (A * B)) : map snd l = [] -> l = [].
Proof. destruct l; [reflexivity|discriminate]. Qed.

Theorem msgq_waitinv_step q o rv q' outs : AllInv q -> WaitInv q ->
  msgq_step true q o = Some (rv, q', outs) -> WaitInv q'.
Proof.
  intros (HI & HQ & HB) HW S. unfold WaitInv in *.
  destruct o as [a m ok|a ok|m|a rv0| |cap fail|]; cbn [msgq_step] in S.
  - match type of S with context [if ?b then _ else _] => destruct b end; [inversion S; subst; exact HW|].
    set (q1 := set_qs q (mq_putq q ++ [(a, m)]) (mq_getq q)) in *.
    destruct (run_putq_spec (length (mq_putq q1)) q1 (set_qs_inv _ _ _ HI)) as
        (q2 & outs2 & R & _ & _ & Hc2 & _ & _ & _ & _ & _ & _ & Hfin).
    { unfold q1; simp_m. intros Hne. apply HQ; auto. }
    rewrite R in S. inversion S; subst. simp_m. intros Hne. destruct (Hfin (le_n _)) as [_ F]. rewrite Hc2. apply F. exact Hne.
  - match type of S with context [if ?b then _ else _] => destruct b end; [inversion S; subst; exact HW|].
    set (q1 := set_qs q (mq_putq q) (mq_getq q ++ [a])) in *.
    destruct (run_getq_spec (length (mq_getq q1)) q1 (set_qs_inv _ _ _ HI)) as
        (q2 & outs2 & R & HI2 & _ & Hc2 & _ & _ & Hmono & Hfin).
    rewrite R in S.
    assert (Pre2: mq_getq q2 <> [] -> mq_len q2 = 0) by (intros Hne; apply Hfin; auto).
    destruct (run_putq_spec (length (mq_putq q2)) q2 HI2 Pre2) as
        (q3 & o3 & R3 & _ & _ & Hc3 & _ & _ & _ & _ & _ & _ & Hfin3).
    rewrite R3 in S. inversion S; subst. simp_m. intros Hne. destruct (Hfin3 (le_n _)) as [_ F]. rewrite Hc3. apply F. exact Hne.
  - destruct (mq_closed q); [inversion S; subst; exact HW|].
    destruct (mq_getq q) as [|ra rrest]; [|inversion S; subst; simp_m; exact HW].
    destruct (mq_len q <? mq_cap q) eqn:EL; [|inversion S; subst; exact HW].
    apply Nat.ltb_lt in EL.
    destruct (ring_put_spec q m HI ltac:(destruct HI as (Hc & _); unfold mq_alloc in *; lia)) as
        (q1 & P & _ & _ & Hl1 & Hc1 & Hp1 & _).
    rewrite P in S. inversion S; subst. simp_m. rewrite Hp1. intros Hne. specialize (HW Hne). lia.
  - inversion S; subst. simp_m. intros Hne. apply HW. intros E. rewrite E in Hne. apply Hne. reflexivity.
  - match type of S with context [match ?d with Some _ => _ | None => _ end] => destruct d as [[q1 o1]|] end; [|discriminate].
    inversion S; subst. simp_m. intros Hne. congruence.
  - destruct ((mq_alloc q <? cap + 2) && fail); [inversion S; subst; exact HW|].
    destruct (drop_excess_spec is_geb (mq_len q) cap good_geb q HI (le_n _)) as
        (q1 & o1 & D & HI1 & L1 & Hit & Hc1 & Hp1 & Hg1 & Ha1 & Hcl1 & Hfree).
    rewrite D in S.
    assert (RES: exists q2,
      (if negb (mq_alloc q <? cap + 2)
       then Some (mkMsgq cap (mq_len q1) (mq_get q1) (mq_put q1) (mq_closed q1) (mq_cells q1)
                         (mq_putq q1) (mq_getq q1) (mq_sendable q1) (mq_recvable q1))
       else copy_ring (mq_len q1) (mq_cells q1) (mq_get q1)
              (mkMsgq cap 0 0 0 (mq_closed q1) (repeat 0%N (cap + 2)) (mq_putq q1) (mq_getq q1)
                      (mq_sendable q1) (mq_recvable q1))) = Some q2 /\
      MInv q2 /\ mq_len q2 = mq_len q1 /\ mq_cap q2 = cap /\ mq_getq q2 = mq_getq q1).
    { destruct (mq_alloc q <? cap + 2) eqn:EG; cbn [negb].
      - apply Nat.ltb_lt in EG.
        set (qn := mkMsgq cap 0 0 0 (mq_closed q1) (repeat 0%N (cap + 2)) (mq_putq q1) (mq_getq q1)
                          (mq_sendable q1) (mq_recvable q1)).
        assert (HIn: MInv qn).
        { unfold MInv, mq_alloc, qn. simp_m. rewrite repeat_length. repeat split; try lia.
          rewrite Nat.mod_small; lia. }
        pose proof HI1 as (_ & _ & Hg1' & _).
        destruct (copy_ring_spec (mq_len q1) (mq_cells q1) (mq_get q1) qn Hg1' HIn) as
            (q2 & C & HI2 & Hit2 & Hl2 & Hc2 & Hp2 & Hg2 & Ha2 & Hcl2).
        { unfold mq_alloc, qn. simp_m. rewrite repeat_length. lia. }
        exists q2. split; [exact C|]. split; [exact HI2|]. unfold qn in *; simp_m. repeat split; auto; lia.
      - apply Nat.ltb_ge in EG. eexists. split; [reflexivity|].
        pose proof HI1 as (A1 & A2 & A3 & A4). split.
        { unfold MInv, mq_alloc in *. simp_m. repeat split; auto; lia. }
        simp_m. repeat split; auto. }
    destruct RES as (q2 & E2 & HI2 & Hl2 & Hc2 & Hg2). rewrite E2 in S.
    assert (Pre2: mq_getq q2 <> [] -> mq_len q2 = 0).
    { intros Hne. rewrite Hg2, Hg1 in Hne. destruct (HQ Hne) as [L0 _]. lia. }
    destruct (run_putq_spec (length (mq_putq q2)) q2 HI2 Pre2) as
        (q3 & o3 & R3 & HI3 & _ & Hc3 & _ & _ & _ & _ & _ & _ & Hfin3).
    rewrite R3 in S. destruct (Hfin3 (le_n _)) as [F1 F2].
    destruct (mq_getq q3) as [|r0 rr] eqn:EG3.
    + rewrite (run_getq_no_reader _ q3 EG3) in S. inversion S; subst. simp_m. intros Hne. rewrite Hc3. apply F2. exact Hne.
    + destruct (run_getq_spec (length (mq_getq q3)) q3 HI3) as
          (q4 & o4 & R4 & _ & (_ & Hw4) & _).
      rewrite EG3 in R4. rewrite R4 in S. inversion S; subst. simp_m.
      assert (P3: mq_putq q3 = []) by (apply F1; congruence).
      rewrite P3 in Hw4. cbn in Hw4. symmetry in Hw4. apply app_eq_nil in Hw4 as [_ Hw4].
      apply map_snd_nil in Hw4. intros Hne. congruence.
  - inversion S; subst. simp_m. exact HW.
Qed.

Theorem msgq_waitinv_run ops : forall q q' res, AllInv q -> WaitInv q ->
  msgq_run true q ops = Some (q', res) -> WaitInv q'.
Proof.
  induction ops as [|o r IH]; intros q q' res HI HW H; cbn [msgq_run] in H.
  - inversion H; subst. exact HW.
  - destruct (msgq_step_spec q o HI) as (rv & q1 & outs & S & HI1 & _). rewrite S in H.
    destruct (msgq_run true q1 r) as [[q2 res2]|] eqn:E; [|discriminate]. inversion H; subst.
    eapply IH; [exact HI1| |exact E]. eapply msgq_waitinv_step; [split; [exact (proj1 HI)|exact (proj2 HI)]|exact HW|exact S].
Qed.

(* the pinned nni_msgq_aio_get: capacity 1, one message buffered, a writer blocks, a reader takes
   the buffered message: the writer keeps waiting although the queue is empty *)
Definition msgq_get_witness (fixed : bool) : option (msgq * list (N * list mout)) :=
  msgq_run fixed (msgq_init 1) [MTryPut 1; MAioPut 201 2 true; MAioGet 101 true]%N.
Theorem msgq_get_leaves_writer_refuted :
  exists q res, msgq_get_witness false = Some (q, res) /\ mq_putq q = [(201, 2)]%N /\ mq_len q = 0 /\ mq_cap q = 1.
Proof. eexists _, _. split; [vm_compute; reflexivity|repeat split]. Qed.
Theorem msgq_get_takes_writer_on_witness :
  exists q res, msgq_get_witness true = Some (q, res) /\ mq_putq q = [] /\ mq_len q = 1.
Proof. eexists _, _. split; [vm_compute; reflexivity|repeat split]. Qed.
