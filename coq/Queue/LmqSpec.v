(* LmqSpec: the abstract object of the queue half of C18 -- a bounded FIFO. *)
From Coq Require Import List Arith Lia NArith Bool.
From NngV Require Import Queue.LmqModel.
Import ListNotations.

(* ---- spec: a bounded FIFO ---- *)
Definition fifo : Type := (nat * list N)%type.     (* capacity, contents oldest first *)
Definition fifo_step (s : fifo) (o : lop) : lout * fifo :=
  let '(cap, l) := s in
  match o with
  | LPut x => if cap <=? length l then (LRv EAGAIN None, s) else (LRv 0%N None, (cap, l ++ [x]))
  | LGet => match l with [] => (LRv EAGAIN None, s) | m :: r => (LRv 0%N (Some m), (cap, r)) end
  | LFlush => (LFreed 0%N l, (cap, []))
  | LResize c fail => if fail then (LFreed ENOMEM_q [], s) else (LFreed 0%N (skipn c l), (c, firstn c l))
  end.
Fixpoint fifo_run (s : fifo) (ops : list lop) : list lout * fifo :=
  match ops with
  | [] => ([], s)
  | o :: r => let (out, s1) := fifo_step s o in let (outs, s2) := fifo_run s1 r in (out :: outs, s2)
  end.

