(* MsgqModel: executable model of src/core/msgqueue.c.  Definitions only.
   One step = one critical section (mq_lock).  aios and messages are ids. *)
From Coq Require Import List Arith Lia NArith Bool.
From NngV Require Import Base.Ring Queue.LmqModel.
Import ListNotations.

Definition ECLOSED : N := 7%N.

Record msgq := mkMsgq {
  mq_cap : nat; mq_len : nat; mq_get : nat; mq_put : nat; mq_closed : bool;
  mq_cells : list N;                      (* mq_alloc = length mq_cells = cap + 2 at (re)allocation *)
  mq_putq : list (N * N);                 (* waiting writers: (aio, msg), oldest first *)
  mq_getq : list N;                       (* waiting readers *)
  mq_sendable : bool; mq_recvable : bool }.

Inductive mout :=
| Done (aio : N) (rv : N) (m : option N)   (* nni_aio_finish*: completion of an aio *)
| Accept (aio : N) (m : N)                  (* nni_aio_finish(waio, 0, len): a writer's message was taken *)
| MFree (m : N).                            (* nni_msg_free *)

Definition mq_alloc (q : msgq) : nat := length (mq_cells q).

Definition msgq_init (cap : nat) : msgq :=
  mkMsgq cap 0 0 0 false (repeat 0%N (cap + 2)) [] [] false false.

Definition set_ring (q : msgq) len get put cells : msgq :=
  mkMsgq (mq_cap q) len get put (mq_closed q) cells (mq_putq q) (mq_getq q) (mq_sendable q) (mq_recvable q).
Definition set_qs (q : msgq) putq getq : msgq :=
  mkMsgq (mq_cap q) (mq_len q) (mq_get q) (mq_put q) (mq_closed q) (mq_cells q) putq getq (mq_sendable q) (mq_recvable q).

(* mq_msgs[mq_put++] = msg; if (mq_put == mq_alloc) mq_put = 0; mq_len++ *)
Definition ring_put (q : msgq) (m : N) : option msgq :=
  match wr (mq_cells q) (mq_put q) m with
  | None => None
  | Some cs => let p := mq_put q + 1 in
               Some (set_ring q (mq_len q + 1) (mq_get q) (if p =? length cs then 0 else p) cs)
  end.
(* msg = mq_msgs[mq_get++]; if (mq_get <wrap> mq_alloc) mq_get = 0; mq_len-- ;
   [wrap] is the comparison used at that site: == in run_getq, >= in fini/close,
   and > (pinned) or >= (repaired) in resize *)
Definition ring_get (wrap : nat -> nat -> bool) (q : msgq) : option (N * msgq) :=
  match rd (mq_cells q) (mq_get q) with
  | None => None
  | Some m => let g := mq_get q + 1 in
              Some (m, set_ring q (mq_len q - 1) (if wrap g (mq_alloc q) then 0 else g) (mq_put q) (mq_cells q))
  end.

(* nni_msgq_run_putq; fuel = number of waiting writers *)
Fixpoint run_putq (fuel : nat) (q : msgq) : option (msgq * list mout) :=
  match fuel with
  | O => Some (q, [])
  | S f =>
      match mq_putq q with
      | [] => Some (q, [])
      | (wa, m) :: wrest =>
          match mq_getq q with
          | ra :: rrest =>
              match run_putq f (set_qs q wrest rrest) with
              | None => None
              | Some (q', outs) => Some (q', Done ra 0%N (Some m) :: Accept wa m :: outs)
              end
          | [] =>
              if mq_len q <? mq_cap q then
                match ring_put (set_qs q wrest []) m with
                | None => None
                | Some q1 => match run_putq f q1 with
                             | None => None
                             | Some (q', outs) => Some (q', Accept wa m :: outs)
                             end
                end
              else Some (q, [])
          end
      end
  end.

(* nni_msgq_run_getq; fuel = number of waiting readers *)
Fixpoint run_getq (fuel : nat) (q : msgq) : option (msgq * list mout) :=
  match fuel with
  | O => Some (q, [])
  | S f =>
      match mq_getq q with
      | [] => Some (q, [])
      | ra :: rrest =>
          if negb (mq_len q =? 0) then
            match ring_get Nat.eqb q with
            | None => None
            | Some (m, q1) =>
                match run_getq f (set_qs q1 (mq_putq q1) rrest) with
                | None => None
                | Some (q', outs) => Some (q', Done ra 0%N (Some m) :: outs)
                end
            end
          else
            match mq_putq q with
            | (wa, m) :: wrest =>
                match run_getq f (set_qs q wrest rrest) with
                | None => None
                | Some (q', outs) => Some (q', Accept wa m :: Done ra 0%N (Some m) :: outs)
                end
            | [] => Some (q, [])
            end
      end
  end.

(* nni_msgq_run_notify *)
Definition run_notify (q : msgq) : msgq :=
  mkMsgq (mq_cap q) (mq_len q) (mq_get q) (mq_put q) (mq_closed q) (mq_cells q) (mq_putq q) (mq_getq q)
         ((mq_len q <? mq_cap q) || negb (match mq_getq q with [] => true | _ => false end))
         (negb (mq_len q =? 0) || negb (match mq_putq q with [] => true | _ => false end)).

Fixpoint drain (wrap : nat -> nat -> bool) (fuel : nat) (q : msgq) : option (msgq * list mout) :=
  match fuel with
  | O => Some (q, [])
  | S f => if mq_len q =? 0 then Some (q, []) else
           match ring_get wrap q with
           | None => None
           | Some (m, q1) => match drain wrap f q1 with
                             | None => None
                             | Some (q', outs) => Some (q', MFree m :: outs) end
           end
  end.

(* the drop loop of nni_msgq_resize: while (mq_len > cap + 1) free the oldest *)
Fixpoint drop_excess (wrap : nat -> nat -> bool) (fuel : nat) (cap : nat) (q : msgq) : option (msgq * list mout) :=
  match fuel with
  | O => Some (q, [])
  | S f => if cap + 1 <? mq_len q then
             match ring_get wrap q with
             | None => None
             | Some (m, q1) => match drop_excess wrap f cap q1 with
                               | None => None
                               | Some (q', outs) => Some (q', MFree m :: outs) end
             end
           else Some (q, [])
  end.

(* the copy loop of nni_msgq_resize into the new array *)
Fixpoint copy_ring (fuel : nat) (old : list N) (oldget : nat) (q : msgq) : option msgq :=
  match fuel with
  | O => Some q
  | S f => match rd old oldget with
           | None => None
           | Some m => match ring_put q m with
                       | None => None
                       | Some q1 => let g := oldget + 1 in copy_ring f old (if g =? length old then 0 else g) q1
                       end
           end
  end.

Inductive mop :=
| MAioPut (a m : N) (start_ok : bool)     (* nni_msgq_aio_put; start_ok = nni_aio_start succeeded *)
| MAioGet (a : N) (start_ok : bool)       (* nni_msgq_aio_get *)
| MTryPut (m : N)
| MCancel (a : N) (rv : N)                (* nni_msgq_cancel *)
| MClose
| MResize (cap : nat) (fail : bool)
| MNotify.                                (* nni_msgq_get_recvable / get_sendable *)

Definition is_geb (a b : nat) : bool := b <=? a.
Definition is_gtb (a b : nat) : bool := b <? a.

Fixpoint fail_all (rv : N) (l : list N) : list mout :=
  match l with [] => [] | a :: r => Done a rv None :: fail_all rv r end.

(* result: (return value of the call, new state, outputs) *)
Definition msgq_step (fixed : bool) (q : msgq) (o : mop) : option (N * msgq * list mout) :=
  match o with
  | MAioPut a m ok =>
      (* nni_aio_start is reached only when the operation has to wait *)
      let must_start := negb (match mq_putq q with [] => true | _ => false end) ||
                        ((match mq_getq q with [] => true | _ => false end) && (mq_cap q <=? mq_len q)) in
      if must_start && negb ok then Some (0%N, q, []) else
      let q1 := set_qs q (mq_putq q ++ [(a, m)]) (mq_getq q) in
      match run_putq (length (mq_putq q1)) q1 with
      | None => None
      | Some (q2, outs) => Some (0%N, run_notify q2, outs)
      end
  | MAioGet a ok =>
      let must_start := negb (match mq_getq q with [] => true | _ => false end) ||
                        ((mq_len q =? 0) && (match mq_putq q with [] => true | _ => false end)) in
      if must_start && negb ok then Some (0%N, q, []) else
      let q1 := set_qs q (mq_putq q) (mq_getq q ++ [a]) in
      match run_getq (length (mq_getq q1)) q1 with
      | None => None
      | Some (q2, outs) =>
          (* since fix e654d99 the writer side is run as well (a reader that took a buffered
             message made room for blocked writers); the pinned form ran only the reader side *)
          if fixed then
            match run_putq (length (mq_putq q2)) q2 with
            | None => None
            | Some (q3, o3) => Some (0%N, run_notify q3, outs ++ o3)
            end
          else Some (0%N, run_notify q2, outs)
      end
  | MTryPut m =>
      if mq_closed q then Some (ECLOSED, q, []) else
      match mq_getq q with
      | ra :: rrest => Some (0%N, run_notify (set_qs q (mq_putq q) rrest), [Done ra 0%N (Some m)])
      | [] =>
          if mq_len q <? mq_cap q then
            match ring_put q m with
            | None => None
            | Some q1 => Some (0%N, run_notify q1, [])
            end
          else Some (EAGAIN, q, [])
      end
  | MCancel a rv =>
      let inw := existsb (fun p => N.eqb (fst p) a) (mq_putq q) in
      let inr := existsb (N.eqb a) (mq_getq q) in
      let q1 := set_qs q (filter (fun p => negb (N.eqb (fst p) a)) (mq_putq q))
                         (filter (fun x => negb (N.eqb a x)) (mq_getq q)) in
      Some (0%N, run_notify q1, if inw || inr then [Done a rv None] else [])
  | MClose =>
      let q0 := mkMsgq (mq_cap q) (mq_len q) (mq_get q) (mq_put q) true (mq_cells q) (mq_putq q) (mq_getq q)
                       (mq_sendable q) (mq_recvable q) in
      match drain is_geb (mq_len q0) q0 with
      | None => None
      | Some (q1, outs) =>
          Some (0%N, set_qs q1 [] [], outs ++ fail_all ECLOSED (mq_getq q1) ++ fail_all ECLOSED (map fst (mq_putq q1)))
      end
  | MResize cap fail =>
      let alloc := cap + 2 in
      let grow := mq_alloc q <? alloc in
      if grow && fail then Some (ENOMEM_q, q, []) else
      match drop_excess (if fixed then is_geb else is_gtb) (mq_len q) cap q with
      | None => None
      | Some (q1, outs) =>
          let resized :=
            if negb grow then
              Some (mkMsgq cap (mq_len q1) (mq_get q1) (mq_put q1) (mq_closed q1) (mq_cells q1)
                           (mq_putq q1) (mq_getq q1) (mq_sendable q1) (mq_recvable q1))
            else
              let qn := mkMsgq cap 0 0 0 (mq_closed q1) (repeat 0%N alloc) (mq_putq q1) (mq_getq q1)
                               (mq_sendable q1) (mq_recvable q1) in
              copy_ring (mq_len q1) (mq_cells q1) (mq_get q1) qn in
          match resized with
          | None => None
          | Some q2 =>
              (* out: run the waiter queues and the pollables ("wake everyone up") *)
              match run_putq (length (mq_putq q2)) q2 with
              | None => None
              | Some (q3, o3) =>
                  match run_getq (length (mq_getq q3)) q3 with
                  | None => None
                  | Some (q4, o4) => Some (0%N, run_notify q4, outs ++ o3 ++ o4)
                  end
              end
          end
      end
  | MNotify => Some (0%N, run_notify q, [])
  end.

Fixpoint msgq_run (fixed : bool) (q : msgq) (ops : list mop) : option (msgq * list (N * list mout)) :=
  match ops with
  | [] => Some (q, [])
  | o :: r => match msgq_step fixed q o with
              | None => None
              | Some (rv, q1, outs) =>
                  match msgq_run fixed q1 r with
                  | None => None
                  | Some (q2, rest) => Some (q2, (rv, outs) :: rest)
                  end
              end
  end.
