(* LmqProofs: lmq refines a bounded FIFO; ring indices stay in range. *)
From Coq Require Import List Arith Lia NArith Bool.
From NngV Require Import Base.Ring Queue.LmqModel Queue.LmqSpec.
Import ListNotations.

(* ---- invariant and abstraction ---- *)
Definition LInv (q : lmq) : Prop :=
  exists k, length (q_cells q) = 2 ^ k /\ q_mask q = Nat.ones k /\ 1 <= k /\
            q_cap q <= length (q_cells q) /\ q_len q <= q_cap q /\
            q_get q < length (q_cells q) /\
            q_put q = (q_get q + q_len q) mod length (q_cells q).
Definition labs (q : lmq) : fifo := (q_cap q, window 0%N (q_cells q) (q_get q) (q_len q)).

Ltac simp_q := cbn [fst snd q_cap q_alloc q_cells q_get q_len q_put q_mask] in *.

Lemma pow2_pos k : 0 < 2 ^ k.
Proof. induction k; simpl; lia. Qed.

Lemma put_spec q x : LInv q ->
  exists r, lmq_put q x = Some r /\ LInv (snd r) /\ (LRv (fst r) None, labs (snd r)) = fifo_step (labs q) (LPut x).
Proof.
  intros (k & HL & HM & Hk & Hca & Hlc & Hg & Hp).
  unfold lmq_put, labs. cbn [fifo_step]. rewrite window_length.
  destruct (q_cap q <=? q_len q) eqn:E.
  - eexists; split; [reflexivity|]. cbn [fst snd]. split; [exists k; auto 10|reflexivity].
  - apply Nat.leb_gt in E.
    assert (Hpl: q_put q < length (q_cells q)) by (rewrite Hp; apply Nat.mod_upper_bound; lia).
    rewrite wr_Some by exact Hpl.
    eexists; split; [reflexivity|]. cbn [fst snd q_cap q_cells q_get q_len q_put q_mask]. split.
    + exists k. simp_q. rewrite upd_length. repeat split; auto; try lia.
      rewrite HM, Nat.land_ones, <- HL. rewrite Hp.
      rewrite Nat.add_mod_idemp_l by lia. f_equal. lia.
    + f_equal. f_equal. rewrite Hp. rewrite Nat.add_1_r. apply window_put. lia.
Qed.

Lemma get_spec q : LInv q ->
  exists r, lmq_get q = Some r /\ LInv (snd r) /\
            (LRv (fst (fst r)) (snd (fst r)), labs (snd r)) = fifo_step (labs q) LGet.
Proof.
  intros (k & HL & HM & Hk & Hca & Hlc & Hg & Hp).
  unfold lmq_get, labs. cbn [fifo_step].
  destruct (q_len q) as [|n] eqn:EL.
  - cbn [Nat.eqb]. eexists; split; [reflexivity|]. cbn [fst snd]. split.
    + exists k. rewrite EL. auto 10.
    + rewrite EL. reflexivity.
  - cbn [Nat.eqb]. rewrite (rd_Some 0%N) by exact Hg.
    eexists; split; [reflexivity|]. cbn [fst snd q_cap q_cells q_get q_len q_put q_mask].
    rewrite window_get by exact Hg. split.
    + exists k. simp_q. repeat split; auto; try lia.
      * rewrite HM, Nat.land_ones, <- HL. apply Nat.mod_upper_bound. lia.
      * rewrite HM, Nat.land_ones, <- HL. rewrite Hp.
        rewrite Nat.add_mod_idemp_l by lia. f_equal. lia.
    + rewrite HM, Nat.land_ones, <- HL. replace (S n - 1) with n by lia. reflexivity.
Qed.

Lemma get_n_spec k : forall q, LInv q ->
  exists l q', lmq_get_n q k = Some (l, q') /\ LInv q' /\ l = firstn k (snd (labs q)) /\
               labs q' = (q_cap q, skipn k (snd (labs q))).
Proof.
  induction k as [|k IH]; intros q HI.
  - exists [], q. repeat split; auto.
  - cbn [lmq_get_n]. destruct (get_spec q HI) as ([[rv m] q1] & G & HI1 & S). rewrite G.
    cbn [fst snd] in S. unfold labs in S at 2. cbn [fifo_step] in S.
    assert (Hq: labs q = (q_cap q, window 0%N (q_cells q) (q_get q) (q_len q))) by reflexivity.
    rewrite Hq. cbn [snd].
    destruct (window 0%N (q_cells q) (q_get q) (q_len q)) as [|m0 rest].
    + assert (Erv: rv = EAGAIN /\ m = None /\ labs q1 = (q_cap q, [])) by (repeat split; congruence).
      destruct Erv as (-> & -> & E3). exists [], q1. cbn [firstn skipn].
      repeat split; auto.
    + assert (Erv: rv = 0%N /\ m = Some m0 /\ labs q1 = (q_cap q, rest)) by (repeat split; congruence).
      destruct Erv as (-> & -> & E3).
      destruct (IH q1 HI1) as (l & q2 & G2 & HI2 & Hl & Ha). rewrite G2.
      exists (m0 :: l), q2. cbn [firstn skipn].
      rewrite E3 in Hl, Ha. cbn [snd fst] in Hl, Ha.
      assert (Hc: q_cap q1 = q_cap q) by (unfold labs in E3; now inversion E3).
      repeat split; auto.
      * now rewrite Hl.
      * now rewrite Ha, Hc.
Qed.

Lemma flush_spec q : LInv q ->
  exists l q', lmq_flush q = Some (l, q') /\ LInv q' /\ l = snd (labs q) /\ labs q' = (q_cap q, []).
Proof.
  intros HI. unfold lmq_flush. destruct (get_n_spec (q_len q) q HI) as (l & q' & G & HI' & Hl & Ha).
  exists l, q'. repeat split; auto.
  - rewrite Hl. unfold labs; cbn [snd]. apply firstn_all2. now rewrite window_length.
  - rewrite Ha. f_equal. unfold labs; cbn [snd]. apply skipn_all2. now rewrite window_length.
Qed.

Lemma pow2ge_spec fuel : forall j cap, cap <= fuel + 2 ^ j ->
  exists j', pow2ge fuel (2 ^ j) cap = 2 ^ j' /\ j <= j' /\ cap <= 2 ^ j'.
Proof.
  induction fuel as [|f IH]; intros j cap H; cbn [pow2ge].
  - exists j. repeat split; auto; lia.
  - destruct (2 ^ j <? cap) eqn:E.
    + apply Nat.ltb_lt in E. replace (2 * 2 ^ j) with (2 ^ (S j)) by (cbn; lia).
      destruct (IH (S j) cap) as (j' & A & B & C). { cbn. pose proof (pow2_pos j). lia. }
      exists j'. repeat split; auto; lia.
    + apply Nat.ltb_ge in E. exists j. repeat split; auto.
Qed.

Lemma resize_spec q cap fail : LInv q ->
  exists r, lmq_resize true q cap fail = Some r /\ LInv (snd (fst r)) /\
            (LFreed (fst (fst r)) (snd r), labs (snd (fst r))) = fifo_step (labs q) (LResize cap fail).
Proof.
  intros HI. unfold lmq_resize. unfold labs at 2. cbn [fifo_step].
  destruct fail.
  - eexists; split; [reflexivity|]. cbn [fst snd]. split; auto.
  - destruct (get_n_spec cap q HI) as (taken & q1 & G & HI1 & Ht & Ha1). rewrite G.
    destruct (flush_spec q1 HI1) as (freed & q2 & F & _ & Hf & _). rewrite F.
    eexists; split; [reflexivity|]. cbn [fst snd].
    destruct (pow2ge_spec cap 1 cap) as (j & P & Hj & Hcap). { cbn. lia. }
    change (2 ^ 1) with 2 in P. rewrite P.
    assert (Hlen: length taken <= cap).
    { rewrite Ht. rewrite firstn_length. lia. }
    pose proof (pow2_pos j).
    split.
    + exists j. simp_q.
      rewrite app_length, repeat_length.
      replace (length taken + (2 ^ j - length taken)) with (2 ^ j) by lia.
      repeat split; auto; try lia.
      * rewrite Nat.ones_equiv. lia.
      * replace (2 ^ j - 1) with (Nat.pred (2 ^ j)) by lia.
        rewrite <- Nat.ones_equiv, Nat.land_ones. reflexivity.
    + unfold labs. cbn [q_cap q_cells q_get q_len]. rewrite window_prefix.
      rewrite Hf, Ha1. cbn [snd]. unfold labs in Ht; cbn [snd] in Ht. now rewrite Ht.
Qed.

Theorem lmq_step_refines q o : LInv q ->
  exists out q', lmq_step true q o = Some (out, q') /\ LInv q' /\ (out, labs q') = fifo_step (labs q) o.
Proof.
  intros HI. destruct o as [x| | |c f]; cbn [lmq_step].
  - destruct (put_spec q x HI) as ([rv q'] & P & HI' & S). rewrite P. eauto.
  - destruct (get_spec q HI) as ([[rv m] q'] & P & HI' & S). rewrite P. eauto.
  - destruct (flush_spec q HI) as (l & q' & P & HI' & Hl & Ha). rewrite P.
    exists (LFreed 0%N l), q'. repeat split; auto. unfold labs at 2. cbn [fifo_step].
    rewrite Ha, Hl. reflexivity.
  - destruct (resize_spec q c f HI) as ([[rv q'] l] & P & HI' & S). rewrite P. eauto.
Qed.

Theorem lmq_run_refines ops : forall q, LInv q ->
  exists outs q', lmq_run true q ops = Some (outs, q') /\ LInv q' /\ (outs, labs q') = fifo_run (labs q) ops.
Proof.
  induction ops as [|o r IH]; intros q HI.
  - exists [], q. repeat split; auto.
  - cbn [lmq_run fifo_run]. destruct (lmq_step_refines q o HI) as (out & q1 & S & HI1 & E).
    rewrite S, <- E. destruct (IH q1 HI1) as (outs & q2 & R & HI2 & E2). rewrite R, <- E2.
    exists (out :: outs), q2. repeat split; auto.
Qed.

Theorem lmq_init_inv cap fail : exists q, lmq_init true cap fail = Some q /\ LInv q /\
  snd (labs q) = [] /\ (fail = false -> q_cap q = cap) /\ (fail = true -> q_cap q = Nat.min cap 2).
Proof.
  unfold lmq_init.
  set (q0 := mkLmq 2 0 1 0 0 0 [0%N; 0%N]).
  assert (HI0: forall c, c <= 2 -> LInv (mkLmq c 0 1 0 0 0 [0%N; 0%N])).
  { intros c Hc. exists 1. cbn. repeat split; auto; lia. }
  destruct (2 <? cap) eqn:E.
  - apply Nat.ltb_lt in E.
    destruct (resize_spec q0 cap fail (HI0 2 ltac:(lia))) as ([[rv q'] l] & P & HI' & S). rewrite P.
    exists q'. cbn [fst snd] in *. split; [reflexivity|]. split; [auto|].
    unfold labs in S at 2. cbn [fifo_step q0 q_cap q_len q_cells q_get window seq map] in S.
    destruct fail.
    + assert (E3: labs q' = (2, [])) by congruence. unfold labs in E3. inversion E3 as [[C W]].
      unfold labs; cbn [snd]. rewrite W. repeat split; auto; try discriminate. intros _. lia.
    + rewrite firstn_nil in S. assert (E3: labs q' = (cap, [])) by congruence.
      unfold labs in E3. inversion E3 as [[C W]].
      unfold labs; cbn [snd]. rewrite W. repeat split; auto; try discriminate.
  - apply Nat.ltb_ge in E. eexists; split; [reflexivity|]. split; [apply HI0; lia|].
    cbn. repeat split; auto. intros _. lia.
Qed.

Theorem lmq_bounded q : LInv q -> q_len q <= q_cap q /\ q_get q < length (q_cells q) /\ q_put q < length (q_cells q).
Proof.
  intros (k & HL & HM & Hk & Hca & Hlc & Hg & Hp). repeat split; auto.
  rewrite Hp. apply Nat.mod_upper_bound. lia.
Qed.

(* the pinned tree: lmq_put = len (unmasked) lets the next put write outside the ring *)
Definition lmq_unfixed_witness : option (list lout * lmq) :=
  match lmq_init false 8 false with
  | Some q => lmq_run false q [LPut 1; LPut 2; LPut 3; LPut 4; LPut 5; LResize 4 false; LGet; LPut 6]%N
  | None => None
  end.
Theorem lmq_resize_unfixed_refuted : lmq_unfixed_witness = None.
Proof. vm_compute. reflexivity. Qed.
