(* Bytes: big-endian fixed-width integer encoding (NNI_PUT16/32/64, NNI_GET16/32/64). *)
From Coq Require Import List Arith Lia NArith.
Import ListNotations.
Local Open Scope N_scope.

Definition byte_ok (b : N) : bool := b <? 256.
Definition bytes_ok (l : list N) : Prop := Forall (fun b => b < 256) l.

Fixpoint le_enc (n : nat) (v : N) : list N :=
  match n with O => [] | S k => v mod 256 :: le_enc k (v / 256) end.
Fixpoint le_dec (l : list N) : N :=
  match l with [] => 0 | b :: r => b + 256 * le_dec r end.

Definition be_enc (n : nat) (v : N) : list N := rev (le_enc n v).
Definition be_dec (l : list N) : N := le_dec (rev l).

Lemma le_enc_length n v : length (le_enc n v) = n.
Proof. revert v; induction n; simpl; intros; [reflexivity|now rewrite IHn]. Qed.

Lemma be_enc_length n v : length (be_enc n v) = n.
Proof. unfold be_enc. now rewrite rev_length, le_enc_length. Qed.

Lemma le_dec_enc n v : le_dec (le_enc n v) = v mod 256 ^ N.of_nat n.
Proof.
  revert v; induction n as [|n IH]; intros v.
  - simpl. now rewrite N.mod_1_r.
  - cbn [le_enc le_dec]. rewrite IH.
    rewrite Nat2N.inj_succ, N.pow_succ_r'.
    rewrite N.mod_mul_r by (try apply N.pow_nonzero; lia). reflexivity.
Qed.

Theorem be_dec_enc n v : be_dec (be_enc n v) = v mod 256 ^ N.of_nat n.
Proof. unfold be_dec, be_enc. rewrite rev_involutive. apply le_dec_enc. Qed.

Corollary be_dec_enc_small n v : v < 256 ^ N.of_nat n -> be_dec (be_enc n v) = v.
Proof. intros H. rewrite be_dec_enc. now apply N.mod_small. Qed.

Lemma le_enc_ok n v : bytes_ok (le_enc n v).
Proof.
  revert v; induction n; intros v; simpl; constructor.
  - apply N.mod_lt. lia.
  - apply IHn.
Qed.

Lemma be_enc_ok n v : bytes_ok (be_enc n v).
Proof. unfold be_enc, bytes_ok. apply Forall_rev. apply le_enc_ok. Qed.

Lemma le_dec_bound l : bytes_ok l -> le_dec l < 256 ^ N.of_nat (length l).
Proof.
  induction 1 as [|b l Hb Hl IH]; simpl length.
  - simpl. lia.
  - cbn [le_dec]. rewrite Nat2N.inj_succ, N.pow_succ_r'. nia.
Qed.

Lemma le_enc_dec l : bytes_ok l -> le_enc (length l) (le_dec l) = l.
Proof.
  induction 1 as [|b l Hb Hl IH]; [reflexivity|].
  cbn [length le_enc le_dec].
  assert (E1: (b + 256 * le_dec l) mod 256 = b).
  { rewrite N.mul_comm, N.mod_add by lia. now apply N.mod_small. }
  assert (E2: (b + 256 * le_dec l) / 256 = le_dec l).
  { rewrite N.mul_comm, N.div_add by lia. rewrite (N.div_small b) by exact Hb. lia. }
  rewrite E1, E2.
  now rewrite IH.
Qed.

Theorem be_enc_dec l : bytes_ok l -> be_enc (length l) (be_dec l) = l.
Proof.
  intros H. unfold be_enc, be_dec.
  rewrite <- (rev_length l). rewrite le_enc_dec.
  - apply rev_involutive.
  - apply Forall_rev. exact H.
Qed.
