(* ListX: checked buffer primitives (blit/sub) and firstn/skipn algebra.
   Definitions and lemmas only; stdlib, axiom-free. *)
From Coq Require Import List Arith Lia Bool NArith.
Import ListNotations.

Definition byte := N.

(* A checked read of [len] bytes at offset [off]: None when out of range. *)
Definition sub {A} (buf : list A) (off len : nat) : option (list A) :=
  if off + len <=? length buf then Some (firstn len (skipn off buf)) else None.

(* A checked write of [src] at offset [off]: None when out of range. *)
Definition blit {A} (buf : list A) (off : nat) (src : list A) : option (list A) :=
  if off + length src <=? length buf
  then Some (firstn off buf ++ src ++ skipn (off + length src) buf)
  else None.

Definition zeros (n : nat) : list byte := repeat 0%N n.

Lemma zeros_length n : length (zeros n) = n.
Proof. apply repeat_length. Qed.

Lemma sub_Some {A} (buf : list A) off len :
  off + len <= length buf -> sub buf off len = Some (firstn len (skipn off buf)).
Proof. intros H. unfold sub. apply Nat.leb_le in H. rewrite H. reflexivity. Qed.

Lemma sub_length {A} (buf : list A) off len d :
  sub buf off len = Some d -> length d = len /\ off + len <= length buf.
Proof.
  unfold sub. destruct (off + len <=? length buf) eqn:E; [|discriminate].
  apply Nat.leb_le in E. intros H; inversion H; subst.
  rewrite firstn_length, skipn_length. lia.
Qed.

Lemma blit_Some {A} (buf : list A) off src :
  off + length src <= length buf ->
  blit buf off src = Some (firstn off buf ++ src ++ skipn (off + length src) buf).
Proof. intros H. unfold blit. apply Nat.leb_le in H. rewrite H. reflexivity. Qed.

Lemma blit_length {A} (buf : list A) off src b' :
  blit buf off src = Some b' -> length b' = length buf /\ off + length src <= length buf.
Proof.
  unfold blit. destruct (off + length src <=? length buf) eqn:E; [|discriminate].
  apply Nat.leb_le in E. intros H; inversion H; subst.
  rewrite !app_length, firstn_length, skipn_length. lia.
Qed.

Lemma firstn_app_exact {A} (l1 l2 : list A) n : n = length l1 -> firstn n (l1 ++ l2) = l1.
Proof. intros ->. rewrite firstn_app, Nat.sub_diag, firstn_all. simpl. apply app_nil_r. Qed.

Lemma skipn_app_exact {A} (l1 l2 : list A) n : n = length l1 -> skipn n (l1 ++ l2) = l2.
Proof. intros ->. rewrite skipn_app, Nat.sub_diag, skipn_all. reflexivity. Qed.

Lemma firstn_app_le {A} (l1 l2 : list A) n : n <= length l1 -> firstn n (l1 ++ l2) = firstn n l1.
Proof. intros H. rewrite firstn_app. replace (n - length l1) with 0 by lia. simpl. apply app_nil_r. Qed.

Lemma skipn_app_ge {A} (l1 l2 : list A) n : length l1 <= n -> skipn n (l1 ++ l2) = skipn (n - length l1) l2.
Proof. intros H. rewrite skipn_app. rewrite (skipn_all2 l1) by lia. reflexivity. Qed.

Lemma skipn_skipn' {A} (l : list A) a b : skipn a (skipn b l) = skipn (a + b) l.
Proof.
  revert l; induction b as [|b IH]; intros l.
  - rewrite Nat.add_0_r. reflexivity.
  - destruct l as [|x l]. { now rewrite !skipn_nil. }
    replace (a + S b) with (S (a + b)) by lia. simpl. apply IH.
Qed.

Lemma firstn_skipn_split {A} (l : list A) a b :
  firstn (a + b) l = firstn a l ++ firstn b (skipn a l).
Proof.
  revert l; induction a as [|a IH]; intros l; simpl; [reflexivity|].
  destruct l as [|x l]; simpl. { now rewrite firstn_nil. } now rewrite IH.
Qed.

(* what a read sees after a write *)
Lemma sub_blit_same {A} (buf : list A) off src b' :
  blit buf off src = Some b' -> sub b' off (length src) = Some src.
Proof.
  intros H. pose proof (blit_length _ _ _ _ H) as [HL Hle].
  unfold blit in H. destruct (off + length src <=? length buf); [|discriminate].
  inversion H; subst b'; clear H.
  unfold sub.
  assert (E: off + length src <=? length (firstn off buf ++ src ++ skipn (off + length src) buf) = true).
  { apply Nat.leb_le. lia. }
  rewrite E. f_equal.
  rewrite skipn_app_exact by (rewrite firstn_length; lia).
  apply firstn_app_exact; reflexivity.
Qed.

(* a read of a region lying after the written one, shifted *)
Lemma firstn_skipn_blit_after {A} (buf : list A) off src n :
  off + length src <= length buf ->
  firstn n (skipn (off + length src) (firstn off buf ++ src ++ skipn (off + length src) buf))
  = firstn n (skipn (off + length src) buf).
Proof.
  intros H. f_equal.
  rewrite app_assoc. apply skipn_app_exact.
  rewrite app_length, firstn_length. lia.
Qed.

Lemma firstn_firstn_le {A} (l : list A) a b : a <= b -> firstn a (firstn b l) = firstn a l.
Proof. intros H. rewrite firstn_firstn. f_equal. lia. Qed.

Lemma skipn_firstn_comm' {A} (l : list A) a b : skipn a (firstn (a + b) l) = firstn b (skipn a l).
Proof.
  revert l; induction a as [|a IH]; intros l; simpl; [reflexivity|].
  destruct l as [|x l]; simpl. { now rewrite firstn_nil. } apply IH.
Qed.

Lemma firstn_app_full {A} (l1 l2 : list A) n :
  length l1 <= n -> firstn n (l1 ++ l2) = l1 ++ firstn (n - length l1) l2.
Proof. intros H. rewrite firstn_app. rewrite firstn_all2 by lia. reflexivity. Qed.

Lemma app_firstn_skipn_mid {A} (l : list A) a b :
  firstn b (skipn a l) ++ skipn (a + b) l = skipn a l.
Proof.
  rewrite (Nat.add_comm a b), <- skipn_skipn'. apply firstn_skipn.
Qed.

Lemma skipn_repeat' {A} (x : A) n k : skipn k (repeat x n) = repeat x (n - k).
Proof.
  revert k; induction n as [|n IH]; intros k.
  - now rewrite skipn_nil.
  - destruct k; [reflexivity|]. simpl. apply IH.
Qed.

Lemma firstn_repeat' {A} (x : A) n k : firstn k (repeat x n) = repeat x (Nat.min k n).
Proof.
  revert k; induction n as [|n IH]; intros k.
  - rewrite firstn_nil. now rewrite Nat.min_0_r.
  - destruct k; [reflexivity|]. simpl. now rewrite IH.
Qed.
